/-
C03 — the hybrid score of the graph search as a theorem about the expression generated from
shard/index/vamana/vamana.go (SemaModel/Generated/Hybrid.lean: `vamana_weight`, `vamana_hybrid`):
`HybridScore: (-1 * elem.Distance * weight)` with `weight` = 1 when `query.Weight` is nil.  Note the operand
order: `((-1) * distance) * weight` — not the flat index's `((-1) * weight) * distance`.
Floats are the symbolic `Go.FExpr`; IEEE rounding is not interpreted (driver: `hyb` op lines, bit for bit).
-/
import SemaModel.C03.Props
import SemaModel.C03.HybridGen
namespace Sema.C03
open Sema Sema.Go Sema.Gen Sema.C10

/-- the weight default: `weight := float32(1); if query.Weight != nil { weight = *query.Weight }` -/
theorem C03_weight_default (w : Option FExpr) : Hybrid.vamana_weight ⟨w⟩ = w.getD (FExpr.lit 1) := by
  cases w <;> rfl

/-- **hybrid = (-1 * dist) * weight**, exactly as generated -/
theorem C03_hybrid_formula (w : Option FExpr) (d : FExpr) :
    hybridGen w d = FExpr.mul (FExpr.mul (FExpr.neg (FExpr.lit 1)) d) (w.getD (FExpr.lit 1)) := by
  cases w <;> rfl

variable {D : Type} [LinearOrder D]

/-- `C03_safe` with `Safe.hybrid` instantiated by the generated expression: `sym` names a distance value as a
leaf of the tree (e.g. its float32 bit pattern as `FExpr.var`).  On a well-formed graph the search answers, the
answer is safe, and every hit carries the generated formula of its own reported distance. -/
theorem C03_hybrid_generated (R : Nat) (g : Graph) (L : List Id) (hWF : WF R g L) (dq : Id → D)
    (sym : D → FExpr) (w : Option FExpr) (limit searchSize : Nat) (filter : Option (List Id)) (hk : limit ≤ searchSize) :
    ∃ res, search g.view dq (fun d => hybridGen w (sym d)) limit searchSize filter (g.vecs.length + 1) = .ok res ∧
      Safe L dq (fun d => hybridGen w (sym d)) limit filter res ∧
      ∀ h ∈ res, h.hybrid = FExpr.mul (FExpr.mul (FExpr.neg (FExpr.lit 1)) (sym (dq h.id))) (w.getD (FExpr.lit 1)) := by
  obtain ⟨res, hres, hsafe⟩ := C03_safe R g L hWF dq (fun d => hybridGen w (sym d)) limit searchSize filter hk
  refine ⟨res, hres, hsafe, ?_⟩
  intro h hh
  rw [hsafe.hybrid h hh, hsafe.dist h hh]
  exact C03_hybrid_formula w _

example : hybridGen none (.var 0x40000000#32) = .mul (.mul (.neg (.lit 1)) (.var 0x40000000#32)) (.lit 1) := by decide
example : hybridGen (some (.var 0x3f000000#32)) (.var 0x40000000#32) =
    .mul (.mul (.neg (.lit 1)) (.var 0x40000000#32)) (.var 0x3f000000#32) := by decide

end Sema.C03
