/-
C03 — helper lemmas about the bounded sorted set (`DistSet`) and the greedy search loop.
Distances live in an arbitrary linear order `D` (Mathlib's `LinearOrder`; only
`Mathlib.Order.Defs.LinearOrder` is imported).
-/
import Mathlib.Order.Defs.LinearOrder
import SemaModel.C10.Lemmas
set_option linter.unusedSectionVars false
namespace Sema.C03
open Sema.C10

variable {D : Type} [LinearOrder D]

/-- non-decreasing in distance -/
def SortedD (l : List (Elem D)) : Prop := l.Pairwise (fun a b => a.dist ≤ b.dist)

/-! ### bubble -/

theorem bubble_perm (e : Elem D) (l : List (Elem D)) : (bubble e l).Perm (e :: l) := by
  induction l with
  | nil => simp [bubble]
  | cons x xs ih =>
    unfold bubble
    split
    · exact List.Perm.refl _
    · exact (List.Perm.cons x ih).trans (List.Perm.swap e x xs)

theorem bubble_length (e : Elem D) (l : List (Elem D)) : (bubble e l).length = l.length + 1 := by
  simpa using (bubble_perm e l).length_eq

theorem bubble_sorted (e : Elem D) (l : List (Elem D)) (h : SortedD l) : SortedD (bubble e l) := by
  induction l with
  | nil => simp [bubble, SortedD]
  | cons x xs ih =>
    unfold bubble
    split
    · rename_i hall
      simp only [List.all_eq_true, decide_eq_true_eq] at hall
      exact List.Pairwise.cons (fun y hy => le_of_lt (hall y hy)) h
    · rename_i hall
      simp only [List.all_eq_true, decide_eq_true_eq] at hall
      have hall' : ∃ y, y ∈ x :: xs ∧ ¬ e.dist < y.dist := by
        apply Classical.byContradiction
        intro hne
        apply hall
        intro y hy
        apply Classical.byContradiction
        intro hlt
        exact hne ⟨y, hy, hlt⟩
      obtain ⟨y, hy, hny⟩ := hall'
      have hye : y.dist ≤ e.dist := not_lt.mp hny
      have hx := List.pairwise_cons.mp h
      have hxy : x.dist ≤ y.dist := by
        rcases List.mem_cons.mp hy with rfl | hy'
        · exact le_refl _
        · exact hx.1 y hy'
      refine List.Pairwise.cons ?_ (ih hx.2)
      intro z hz
      rcases (mem_bubble.mp hz) with rfl | hz'
      · exact le_trans hxy hye
      · exact hx.1 z hz'

/-- every element of the sorted list that `e` overtakes is strictly farther; used for "farther than the
last ⇒ not in the prefix" arguments -/
theorem sorted_dropLast (l : List (Elem D)) (h : SortedD l) : SortedD l.dropLast :=
  List.Pairwise.sublist (List.dropLast_sublist l) h

/-! ### one AddWithLimit step: what can change -/

/-- shape of the result of `addWithLimit1` -/
theorem addWithLimit1_cases (dq : Id → D) (ds : DistSet D) (p : Id) :
    (ds.seen.contains p = true ∧ ds.addWithLimit1 dq p = ds) ∨
    (ds.seen.contains p = false ∧ (ds.addWithLimit1 dq p).seen = p :: ds.seen ∧ (ds.addWithLimit1 dq p).cap = ds.cap ∧
      ((ds.addWithLimit1 dq p).items = ds.items ∨
       (ds.addWithLimit1 dq p).items = bubble { id := p, dist := dq p } ds.items ∨
       (ds.items ≠ [] ∧ (ds.addWithLimit1 dq p).items = bubble { id := p, dist := dq p } ds.items.dropLast))) := by
  unfold DistSet.addWithLimit1
  by_cases hs : ds.seen.contains p = true
  · left; exact ⟨hs, by rw [if_pos hs]⟩
  · right
    have hs' : ds.seen.contains p = false := by simpa using hs
    simp only [hs', Bool.false_eq_true, if_false, true_and]
    split
    · split
      · exact ⟨rfl, rfl, Or.inl rfl⟩
      · rename_i l hl
        have hne : ds.items ≠ [] := by
          intro h; simp [h] at hl
        split
        · exact ⟨rfl, rfl, Or.inl rfl⟩
        · exact ⟨rfl, rfl, Or.inr (Or.inr ⟨hne, rfl⟩)⟩
    · split
      · exact ⟨rfl, rfl, Or.inr (Or.inl rfl)⟩
      · rename_i h1 h2
        have hne : ds.items ≠ [] := by
          intro h; simp [h] at h1 h2; omega
        exact ⟨rfl, rfl, Or.inr (Or.inr ⟨hne, rfl⟩)⟩

/-- every item after the step is an old item or the new element -/
theorem addWithLimit1_items (dq : Id → D) (ds : DistSet D) (p : Id) :
    ∀ e ∈ (ds.addWithLimit1 dq p).items, e ∈ ds.items ∨ (e = { id := p, dist := dq p } ∧ ds.seen.contains p = false) := by
  intro e he
  rcases addWithLimit1_cases dq ds p with ⟨_, h⟩ | ⟨hs, _, _, h | h | ⟨_, h⟩⟩
  · rw [h] at he; exact Or.inl he
  · rw [h] at he; exact Or.inl he
  · rw [h] at he
    rcases mem_bubble.mp he with rfl | h'
    · exact Or.inr ⟨rfl, hs⟩
    · exact Or.inl h'
  · rw [h] at he
    rcases mem_bubble.mp he with rfl | h'
    · exact Or.inr ⟨rfl, hs⟩
    · exact Or.inl (List.dropLast_subset _ h')

theorem addWithLimit1_seen (dq : Id → D) (ds : DistSet D) (p : Id) :
    ∀ i, i ∈ (ds.addWithLimit1 dq p).seen ↔ i = p ∨ i ∈ ds.seen := by
  intro i
  rcases addWithLimit1_cases dq ds p with ⟨hs, h⟩ | ⟨_, h, _⟩
  · rw [h]
    have : p ∈ ds.seen := by simpa using hs
    constructor
    · exact Or.inr
    · rintro (rfl | h)
      · exact this
      · exact h
  · rw [h]; simp

theorem addWithLimit1_cap (dq : Id → D) (ds : DistSet D) (p : Id) : (ds.addWithLimit1 dq p).cap = ds.cap := by
  rcases addWithLimit1_cases dq ds p with ⟨_, h⟩ | ⟨_, _, h, _⟩
  · rw [h]
  · exact h

/-- the basic invariant of a DistSet: distinct ids, all recorded as seen, distances from the oracle,
only points that have a vector -/
structure DSInv (dq : Id → D) (hasVec : Id → Bool) (ds : DistSet D) : Prop where
  nodup : (ds.items.map (·.id)).Nodup
  sub : ∀ e ∈ ds.items, e.id ∈ ds.seen
  ok : ∀ e ∈ ds.items, e.dist = dq e.id ∧ hasVec e.id = true

theorem nodup_ids_bubble (e : Elem D) (l : List (Elem D)) (h : (l.map (·.id)).Nodup) (he : e.id ∉ l.map (·.id)) :
    ((bubble e l).map (·.id)).Nodup := by
  have := (bubble_perm e l).map (·.id)
  exact (List.Perm.nodup_iff this).mpr (by simpa using ⟨by simpa using he, h⟩)

theorem addWithLimit1_inv (dq : Id → D) (hasVec : Id → Bool) (ds : DistSet D) (p : Id) (hp : hasVec p = true)
    (h : DSInv dq hasVec ds) : DSInv dq hasVec (ds.addWithLimit1 dq p) := by
  rcases addWithLimit1_cases dq ds p with ⟨_, heq⟩ | ⟨hs, hseen, _, hit⟩
  · rw [heq]; exact h
  · have hps : p ∉ ds.seen := by simpa using hs
    have hpi : p ∉ ds.items.map (·.id) := by
      intro hm
      obtain ⟨e, he, rfl⟩ := List.mem_map.mp hm
      exact hps (h.sub e he)
    refine ⟨?_, ?_, ?_⟩
    · rcases hit with h1 | h1 | ⟨_, h1⟩
      · rw [h1]; exact h.nodup
      · rw [h1]; exact nodup_ids_bubble _ _ h.nodup hpi
      · rw [h1]
        refine nodup_ids_bubble _ _ (h.nodup.sublist ((List.dropLast_sublist _).map _)) ?_
        intro hm
        obtain ⟨e, he, hid⟩ := List.mem_map.mp hm
        exact hpi (List.mem_map.mpr ⟨e, List.dropLast_subset _ he, hid⟩)
    · intro e he
      rw [hseen]
      rcases addWithLimit1_items dq ds p e he with h1 | ⟨rfl, _⟩
      · exact List.mem_cons_of_mem _ (h.sub e h1)
      · exact List.mem_cons_self
    · intro e he
      rcases addWithLimit1_items dq ds p e he with h1 | ⟨rfl, _⟩
      · exact h.ok e h1
      · exact ⟨rfl, hp⟩

theorem addWithLimit1_sorted (dq : Id → D) (ds : DistSet D) (p : Id) (h : SortedD ds.items) :
    SortedD (ds.addWithLimit1 dq p).items := by
  rcases addWithLimit1_cases dq ds p with ⟨_, heq⟩ | ⟨_, _, _, h1 | h1 | ⟨_, h1⟩⟩
  · rw [heq]; exact h
  · rw [h1]; exact h
  · rw [h1]; exact bubble_sorted _ _ h
  · rw [h1]; exact bubble_sorted _ _ (sorted_dropLast _ h)

theorem addWithLimit1_len (dq : Id → D) (ds : DistSet D) (p : Id) (h : ds.items.length ≤ ds.cap) :
    (ds.addWithLimit1 dq p).items.length ≤ (ds.addWithLimit1 dq p).cap := by
  rw [addWithLimit1_cap]
  unfold DistSet.addWithLimit1
  split
  · exact h
  · simp only
    split
    · split
      · exact h
      · split
        · exact h
        · rename_i l hl _
          have : ds.items ≠ [] := by intro h0; simp [h0] at hl
          have := List.length_pos_iff.mpr this
          simp [bubble_length]; omega
    · split
      · simp [bubble_length]; omega
      · rename_i h1 h2
        simp at h1 h2; omega

/-! ### folds -/

theorem addWithLimit_fold {Q : DistSet D → Prop} (dq : Id → D) (ps : List Id) (ds : DistSet D) (R : Id → Prop)
    (hstep : ∀ ds p, R p → Q ds → Q (ds.addWithLimit1 dq p)) (hps : ∀ p ∈ ps, R p) (h : Q ds) :
    Q (ds.addWithLimit dq ps) := by
  induction ps generalizing ds with
  | nil => exact h
  | cons p ps ih =>
    have : ds.addWithLimit dq (p :: ps) = (ds.addWithLimit1 dq p).addWithLimit dq ps := rfl
    rw [this]
    exact ih _ (fun q hq => hps q (List.mem_cons_of_mem _ hq)) (hstep ds p (hps p List.mem_cons_self) h)

theorem addWithLimit_items (dq : Id → D) (ps : List Id) (ds : DistSet D) :
    ∀ e ∈ (ds.addWithLimit dq ps).items, e ∈ ds.items ∨ (e = { id := e.id, dist := dq e.id } ∧ e.id ∈ ps ∧ e.id ∉ ds.seen) := by
  induction ps generalizing ds with
  | nil => intro e he; exact Or.inl he
  | cons p ps ih =>
    intro e he
    have : ds.addWithLimit dq (p :: ps) = (ds.addWithLimit1 dq p).addWithLimit dq ps := rfl
    rw [this] at he
    rcases ih _ e he with h | ⟨h1, h2, h3⟩
    · rcases addWithLimit1_items dq ds p e h with h' | ⟨rfl, hs⟩
      · exact Or.inl h'
      · exact Or.inr ⟨rfl, List.mem_cons_self, by simpa using hs⟩
    · refine Or.inr ⟨h1, List.mem_cons_of_mem _ h2, ?_⟩
      intro hs
      exact h3 ((addWithLimit1_seen dq ds p e.id).mpr (Or.inr hs))

theorem addWithLimit_seen (dq : Id → D) (ps : List Id) (ds : DistSet D) :
    ∀ i, i ∈ (ds.addWithLimit dq ps).seen ↔ i ∈ ps ∨ i ∈ ds.seen := by
  induction ps generalizing ds with
  | nil => intro i; simp [DistSet.addWithLimit]
  | cons p ps ih =>
    intro i
    have : ds.addWithLimit dq (p :: ps) = (ds.addWithLimit1 dq p).addWithLimit dq ps := rfl
    rw [this, ih, addWithLimit1_seen]
    simp only [List.mem_cons]
    constructor
    · rintro (h | h | h)
      · exact Or.inl (Or.inr h)
      · exact Or.inl (Or.inl h)
      · exact Or.inr h
    · rintro ((h | h) | h)
      · exact Or.inr (Or.inl h)
      · exact Or.inl h
      · exact Or.inr (Or.inr h)

theorem addWithLimit_cap (dq : Id → D) (ps : List Id) (ds : DistSet D) : (ds.addWithLimit dq ps).cap = ds.cap := by
  induction ps generalizing ds with
  | nil => rfl
  | cons p ps ih =>
    have : ds.addWithLimit dq (p :: ps) = (ds.addWithLimit1 dq p).addWithLimit dq ps := rfl
    rw [this, ih, addWithLimit1_cap]

/-! ### the greedy loop -/

/-- the state after visiting `e` whose node has the edge list `es` (the body of `loop`) -/
def stepState (v : View) (dq : Id → D) (filter : Option (List Id)) (st : GState D) (e : Elem D) (es : List Id) : GState D :=
  { search := ({ st.search with items := markVisited e.id st.search.items } : DistSet D).addWithLimit dq (es.filter v.hasVec),
    result := match filter with
      | some f => if f.contains e.id then st.result.addWithLimit1 dq e.id else st.result
      | none => st.result,
    visited := st.visited ++ [e] }

theorem loop_succ (v : View) (dq : Id → D) (filter : Option (List Id)) (ss fuel : Nat) (st : GState D) :
    loop v dq filter ss (fuel + 1) st =
      match nextUnvisited ss st.search.items with
      | none => .ok st
      | some e =>
        match v.edges e.id with
        | none => .error (.noNode e.id)
        | some es => loop v dq filter ss fuel (stepState v dq filter st e es) := by
  rfl

/-- induction principle: an invariant of the loop body holds at exit, where no unvisited element is left -/
theorem loop_induct (v : View) (dq : Id → D) (filter : Option (List Id)) (ss : Nat) (Inv : GState D → Prop)
    (hstep : ∀ st e es, Inv st → nextUnvisited ss st.search.items = some e → v.edges e.id = some es →
      Inv (stepState v dq filter st e es)) :
    ∀ fuel st st', loop v dq filter ss fuel st = .ok st' → Inv st →
      Inv st' ∧ nextUnvisited ss st'.search.items = none := by
  intro fuel
  induction fuel with
  | zero => intro st st' h; simp [loop] at h
  | succ n ih =>
    intro st st' h hI
    rw [loop_succ] at h
    split at h
    · rename_i hnone
      cases h; exact ⟨hI, hnone⟩
    · rename_i e he
      split at h
      · cases h
      · rename_i es hes
        exact ih _ _ h (hstep st e es hI he hes)

theorem nextUnvisited_some (ss : Nat) (items : List (Elem D)) (e : Elem D) (h : nextUnvisited ss items = some e) :
    e ∈ items ∧ e.visited = false := by
  unfold nextUnvisited at h
  have h1 := List.mem_of_find?_eq_some h
  have h2 := List.find?_some h
  exact ⟨List.mem_of_mem_take h1, by simpa using h2⟩

theorem markVisited_ids (id : Id) (items : List (Elem D)) : (markVisited id items).map (·.id) = items.map (·.id) := by
  unfold markVisited
  rw [List.map_map]
  apply List.map_congr_left
  intro x _
  simp only [Function.comp]
  split <;> rfl

theorem markVisited_mem (id : Id) (items : List (Elem D)) (x : Elem D) (hx : x ∈ markVisited id items) :
    ∃ y ∈ items, x.id = y.id ∧ x.dist = y.dist ∧ (x.visited = false → y.visited = false ∧ y.id ≠ id) := by
  unfold markVisited at hx
  obtain ⟨y, hy, rfl⟩ := List.mem_map.mp hx
  refine ⟨y, hy, ?_⟩
  split
  · rename_i h; simp
  · rename_i h
    exact ⟨rfl, rfl, fun hv => ⟨hv, by simpa using h⟩⟩

theorem markVisited_sorted (id : Id) (items : List (Elem D)) (h : SortedD items) : SortedD (markVisited id items) := by
  unfold markVisited SortedD
  rw [List.pairwise_map]
  refine List.Pairwise.imp ?_ h
  intro a b hab
  split <;> split <;> exact hab

/-- the invariant of the greedy loop used for the safety clauses and for termination -/
structure LInv (v : View) (dq : Id → D) (filter : Option (List Id)) (st : GState D) : Prop where
  s : DSInv dq v.hasVec st.search
  vnd : (st.visited.map (·.id)).Nodup
  vvec : ∀ e ∈ st.visited, v.hasVec e.id = true
  vseen : ∀ e ∈ st.visited, e.id ∈ st.search.seen
  unv : ∀ e ∈ st.search.items, e.visited = false → e.id ∉ st.visited.map (·.id)
  ssorted : filter = none → SortedD st.search.items
  r : ∀ f, filter = some f → DSInv dq v.hasVec st.result ∧ SortedD st.result.items ∧
        st.result.items.length ≤ st.result.cap ∧ ∀ e ∈ st.result.items, e.id ∈ f

theorem LInv_step (v : View) (dq : Id → D) (filter : Option (List Id)) (ss : Nat) (st : GState D) (e : Elem D) (es : List Id)
    (hI : LInv v dq filter st) (he : nextUnvisited ss st.search.items = some e) :
    LInv v dq filter (stepState v dq filter st e es) := by
  obtain ⟨hem, hev⟩ := nextUnvisited_some ss _ e he
  have hs1 : DSInv dq v.hasVec ({ st.search with items := markVisited e.id st.search.items } : DistSet D) := by
    refine ⟨?_, ?_, ?_⟩
    · show ((markVisited e.id st.search.items).map (·.id)).Nodup
      rw [markVisited_ids]; exact hI.s.nodup
    · intro x hx
      obtain ⟨y, hy, hid, _, _⟩ := markVisited_mem _ _ x hx
      show x.id ∈ st.search.seen
      rw [hid]; exact hI.s.sub y hy
    · intro x hx
      obtain ⟨y, hy, hid, hd, _⟩ := markVisited_mem _ _ x hx
      rw [hid, hd]; exact hI.s.ok y hy
  have hfv : ∀ p ∈ es.filter v.hasVec, v.hasVec p = true := fun p hp => (List.mem_filter.mp hp).2
  refine ⟨?_, ?_, ?_, ?_, ?_, ?_, ?_⟩
  · exact addWithLimit_fold (Q := DSInv dq v.hasVec) dq _ _ (fun p => v.hasVec p = true)
      (fun ds p hp h => addWithLimit1_inv dq v.hasVec ds p hp h) hfv hs1
  · show ((st.visited ++ [e]).map (·.id)).Nodup
    rw [List.map_append, List.nodup_append]
    refine ⟨hI.vnd, by simp, ?_⟩
    intro a ha b hb
    simp at hb; subst hb
    intro hab; subst hab
    exact hI.unv e hem hev ha
  · intro x hx
    rcases List.mem_append.mp hx with h | h
    · exact hI.vvec x h
    · simp at h; subst h; exact (hI.s.ok x hem).2
  · intro x hx
    show x.id ∈ (DistSet.addWithLimit dq _ _).seen
    rw [addWithLimit_seen]
    right
    show x.id ∈ st.search.seen
    rcases List.mem_append.mp hx with h | h
    · exact hI.vseen x h
    · simp at h; subst h; exact hI.s.sub x hem
  · intro x hx hxv
    show x.id ∉ (st.visited ++ [e]).map (·.id)
    rw [List.map_append, List.mem_append]
    rcases addWithLimit_items dq _ _ x hx with h | ⟨_, _, h3⟩
    · obtain ⟨y, hy, hid, _, hflag⟩ := markVisited_mem _ _ x h
      obtain ⟨hyv, hyne⟩ := hflag hxv
      rintro (h1 | h1)
      · rw [hid] at h1; exact hI.unv y hy hyv h1
      · simp at h1; rw [hid] at h1; exact hyne h1
    · have h3' : x.id ∉ st.search.seen := h3
      rintro (h1 | h1)
      · obtain ⟨y, hy, hid⟩ := List.mem_map.mp h1
        exact h3' (hid ▸ hI.vseen y hy)
      · simp at h1; rw [h1] at h3'; exact h3' (hI.s.sub e hem)
  · intro hf
    refine addWithLimit_fold (Q := fun ds => SortedD ds.items) dq _ _ (fun _ => True)
      (fun ds p _ h => addWithLimit1_sorted dq ds p h) (fun _ _ => trivial) ?_
    exact markVisited_sorted _ _ (hI.ssorted hf)
  · intro f hf
    obtain ⟨h1, h2, h3, h4⟩ := hI.r f hf
    subst hf
    have hres : (stepState v dq (some f) st e es).result =
        if f.contains e.id then st.result.addWithLimit1 dq e.id else st.result := rfl
    rw [hres]
    split
    · rename_i hc
      refine ⟨addWithLimit1_inv dq v.hasVec _ _ (hI.s.ok e hem).2 h1, addWithLimit1_sorted dq _ _ h2,
        addWithLimit1_len dq _ _ h3, ?_⟩
      intro x hx
      rcases addWithLimit1_items dq _ _ x hx with h | ⟨rfl, _⟩
      · exact h4 x h
      · simpa using hc
    · exact ⟨h1, h2, h3, h4⟩

/-- the loop terminates within the fuel and never fails, on a view in which every point with a vector has a
node and the vector ids are drawn from a finite list -/
theorem loop_ok (v : View) (dq : Id → D) (filter : Option (List Id)) (ss : Nat) (vecs : List Id)
    (hvecs : ∀ i, v.hasVec i = true → i ∈ vecs) (hcons : ∀ i, v.hasVec i = true → (v.edges i).isSome) :
    ∀ fuel st, LInv v dq filter st → vecs.length < fuel + st.visited.length →
      ∃ st', loop v dq filter ss fuel st = .ok st' := by
  intro fuel
  induction fuel with
  | zero =>
    intro st hI hf
    exfalso
    have h1 : (st.visited.map (·.id)).length ≤ vecs.length := by
      apply List.Nodup.length_le_of_subset hI.vnd
      intro i hi
      obtain ⟨e, he, rfl⟩ := List.mem_map.mp hi
      exact hvecs _ (hI.vvec e he)
    simp at h1; omega
  | succ n ih =>
    intro st hI hf
    rw [loop_succ]
    split
    · exact ⟨st, rfl⟩
    · rename_i e he
      have hem := (nextUnvisited_some ss _ e he).1
      have := hcons e.id (hI.s.ok e hem).2
      split
      · rename_i hn; simp [hn] at this
      · rename_i es hes
        apply ih _ (LInv_step v dq filter ss st e es hI he)
        show vecs.length < n + (st.visited ++ [e]).length
        simp; omega

/-! ### greedySearch as a whole -/

theorem add1_inv (dq : Id → D) (hasVec : Id → Bool) (ds : DistSet D) (p : Id) (hp : hasVec p = true)
    (h : DSInv dq hasVec ds) : DSInv dq hasVec (ds.add1 dq p) := by
  unfold DistSet.add1
  split
  · exact h
  · rename_i hs
    have hps : p ∉ ds.seen := by simpa using hs
    refine ⟨?_, ?_, ?_⟩
    · simp only [List.map_append, List.map_cons, List.map_nil]
      rw [List.nodup_append]
      refine ⟨h.nodup, by simp, ?_⟩
      intro a ha b hb
      simp at hb; subst hb
      obtain ⟨e, he, rfl⟩ := List.mem_map.mp ha
      intro heq
      exact hps (heq ▸ h.sub e he)
    · intro e he
      simp only [List.mem_append, List.mem_singleton] at he
      rcases he with he | rfl
      · exact List.mem_cons_of_mem _ (h.sub e he)
      · exact List.mem_cons_self
    · intro e he
      simp only [List.mem_append, List.mem_singleton] at he
      rcases he with he | rfl
      · exact h.ok e he
      · exact ⟨rfl, hp⟩

theorem add_inv (dq : Id → D) (hasVec : Id → Bool) (ps : List Id) (ds : DistSet D) (hps : ∀ p ∈ ps, hasVec p = true)
    (h : DSInv dq hasVec ds) : DSInv dq hasVec (ds.add dq ps) := by
  induction ps generalizing ds with
  | nil => exact h
  | cons p ps ih =>
    have : ds.add dq (p :: ps) = (ds.add1 dq p).add dq ps := rfl
    rw [this]
    exact ih _ (fun q hq => hps q (List.mem_cons_of_mem _ hq)) (add1_inv dq hasVec ds p (hps p List.mem_cons_self) h)

theorem new_inv (dq : Id → D) (hasVec : Id → Bool) (c : Nat) : DSInv dq hasVec (DistSet.new c : DistSet D) :=
  ⟨by simp [DistSet.new], by simp [DistSet.new], by simp [DistSet.new]⟩

/-- the points the filter seeds the search with -/
def filterPoints (v : View) (ss : Nat) (f : List Id) : List Id := (f.take ss).filter v.hasVec

/-- the state in which the loop starts -/
def initState (v : View) (dq : Id → D) (k ss : Nat) (filter : Option (List Id)) : GState D :=
  match filter with
  | none => { search := (DistSet.new ss).addWithLimit1 dq entry, result := DistSet.new k, visited := [] }
  | some f =>
    { search := ((DistSet.new ss).add dq (filterPoints v ss f)).addWithLimit1 dq entry,
      result := (DistSet.new k).addWithLimit dq (filterPoints v ss f), visited := [] }

/-- `*resultSet`: the search set itself without a filter, the separate result set with one -/
def resultOf (filter : Option (List Id)) (st : GState D) : DistSet D :=
  match filter with
  | none => st.search
  | some _ => st.result

theorem greedySearch_eq (v : View) (dq : Id → D) (k ss : Nat) (filter : Option (List Id)) (fuel : Nat)
    (hk : k ≤ ss) (he : v.hasVec entry = true) :
    greedySearch v dq k ss filter fuel =
      match loop v dq filter ss fuel (initState v dq k ss filter) with
      | .error e => .error e
      | .ok st => .ok (resultOf filter st, sortFrom 0 st.visited) := by
  unfold greedySearch resultOf
  have : ¬ ss < k := by omega
  simp only [this, if_false, he]
  cases filter <;> rfl

theorem initState_inv (v : View) (dq : Id → D) (k ss : Nat) (filter : Option (List Id)) (he : v.hasVec entry = true) :
    LInv v dq filter (initState v dq k ss filter) := by
  cases filter with
  | none =>
    refine ⟨addWithLimit1_inv dq v.hasVec _ _ he (new_inv dq v.hasVec ss), by simp [initState], by simp [initState],
      by simp [initState], by simp [initState], ?_, by simp⟩
    intro _
    exact addWithLimit1_sorted dq _ _ (by simp [DistSet.new, SortedD])
  | some f =>
    have hfp : ∀ p ∈ filterPoints v ss f, v.hasVec p = true := fun p hp => (List.mem_filter.mp hp).2
    refine ⟨addWithLimit1_inv dq v.hasVec _ _ he (add_inv dq v.hasVec _ _ hfp (new_inv dq v.hasVec ss)),
      by simp [initState], by simp [initState], by simp [initState], by simp [initState], by simp, ?_⟩
    intro f' hf'
    cases hf'
    refine ⟨?_, ?_, ?_, ?_⟩
    · exact addWithLimit_fold (Q := DSInv dq v.hasVec) dq _ _ (fun p => v.hasVec p = true)
        (fun ds p hp h => addWithLimit1_inv dq v.hasVec ds p hp h) hfp (new_inv dq v.hasVec k)
    · exact addWithLimit_fold (Q := fun ds => SortedD ds.items) dq _ _ (fun _ => True)
        (fun ds p _ h => addWithLimit1_sorted dq ds p h) (fun _ _ => trivial) (by simp [DistSet.new, SortedD])
    · exact addWithLimit_fold (Q := fun ds => ds.items.length ≤ ds.cap) dq _ _ (fun _ => True)
        (fun ds p _ h => addWithLimit1_len dq ds p h) (fun _ _ => trivial) (by simp [DistSet.new])
    · intro e he'
      rcases addWithLimit_items dq _ _ e he' with h | ⟨_, h2, _⟩
      · simp [DistSet.new] at h
      · exact List.mem_of_mem_take (List.mem_filter.mp h2).1

/-- greedySearch succeeds on a consistent view, and its result set has the invariants of `LInv` -/
theorem greedySearch_ok (v : View) (dq : Id → D) (k ss : Nat) (filter : Option (List Id)) (vecs : List Id)
    (hk : k ≤ ss) (he : v.hasVec entry = true)
    (hvecs : ∀ i, v.hasVec i = true → i ∈ vecs) (hcons : ∀ i, v.hasVec i = true → (v.edges i).isSome) :
    ∃ st, loop v dq filter ss (vecs.length + 1) (initState v dq k ss filter) = .ok st ∧
      LInv v dq filter st ∧ nextUnvisited ss st.search.items = none ∧
      greedySearch v dq k ss filter (vecs.length + 1) =
        .ok (resultOf filter st, sortFrom 0 st.visited) := by
  have hI := initState_inv v dq k ss filter he
  obtain ⟨st, hst⟩ := loop_ok v dq filter ss vecs hvecs hcons (vecs.length + 1) _ hI (by
    have : (initState v dq k ss filter).visited = [] := by cases filter <;> rfl
    rw [this]; simp)
  obtain ⟨hI', hnone⟩ := loop_induct v dq filter ss (LInv v dq filter)
    (fun st e es h1 h2 _ => LInv_step v dq filter ss st e es h1 h2) _ _ st hst hI
  refine ⟨st, hst, hI', hnone, ?_⟩
  rw [greedySearch_eq v dq k ss filter _ hk he, hst]

/-! ### the exact regime of a small pre-filter: the result set is a top-k set of everything seeded -/

theorem sorted_le_last (l : List (Elem D)) (a : Elem D) (h : SortedD l) (ha : l.getLast? = some a) :
    l = l.dropLast ++ [a] ∧ ∀ x ∈ l, x.dist ≤ a.dist := by
  have hl : l.dropLast ++ [a] = l := by
    obtain ⟨ys, rfl⟩ := List.getLast?_eq_some_iff.mp ha
    simp
  refine ⟨hl.symm, ?_⟩
  intro x hx
  rw [← hl] at hx h
  unfold SortedD at h
  rw [List.pairwise_append] at h
  rcases List.mem_append.mp hx with h1 | h1
  · exact h.2.2 x h1 a (by simp)
  · simp at h1; subst h1; exact le_refl _

/-- bounded top-k set: sorted, within capacity, and everything seen but not kept is at least as far as every
kept element (and then the set is full) -/
structure TopK (dq : Id → D) (ds : DistSet D) : Prop where
  sorted : SortedD ds.items
  len : ds.items.length ≤ ds.cap
  inv : DSInv dq (fun _ => true) ds
  rest : ∀ i ∈ ds.seen, i ∉ ds.items.map (·.id) → ds.items.length = ds.cap ∧ ∀ e ∈ ds.items, e.dist ≤ dq i

theorem addWithLimit1_topk (dq : Id → D) (ds : DistSet D) (p : Id) (h : TopK dq ds) : TopK dq (ds.addWithLimit1 dq p) := by
  refine ⟨addWithLimit1_sorted dq ds p h.sorted, addWithLimit1_len dq ds p h.len,
    addWithLimit1_inv dq _ ds p rfl h.inv, ?_⟩
  obtain ⟨hsorted, hlen, hinv, hrest⟩ := h
  unfold DistSet.addWithLimit1
  split
  · exact hrest
  · rename_i hs
    have hps : p ∉ ds.seen := by simpa using hs
    simp only
    split
    · rename_i hfull
      have hfull' : ds.items.length = ds.cap := by simpa using hfull
      split
      · -- cap = 0
        rename_i hnone
        have hnil : ds.items = [] := by simpa using hnone
        intro i hi hni
        simp only [hnil, List.length_nil] at hfull' ⊢
        exact ⟨hfull', by simp⟩
      · rename_i l hl
        obtain ⟨hdl, hle⟩ := sorted_le_last _ l hsorted hl
        split
        · -- farther than the last: skipped
          rename_i hlt
          intro i hi hni
          simp only at hi hni ⊢
          rcases List.mem_cons.mp hi with rfl | hi'
          · exact ⟨hfull', fun e he => le_of_lt (lt_of_le_of_lt (hle e he) hlt)⟩
          · exact hrest i hi' hni
        · -- replaces the last
          rename_i hnlt
          have hel : dq p ≤ l.dist := not_lt.mp hnlt
          intro i hi hni
          simp only at hi hni ⊢
          have hlen' : (bubble ({ id := p, dist := dq p } : Elem D) ds.items.dropLast).length = ds.cap := by
            rw [bubble_length, List.length_dropLast]
            have : ds.items.length ≠ 0 := by
              intro h0; rw [List.length_eq_zero_iff] at h0; simp [h0] at hl
            omega
          refine ⟨hlen', ?_⟩
          -- i is not the new point (it is kept)
          have hip : i ≠ p := by
            intro hip; apply hni
            exact List.mem_map.mpr ⟨_, mem_bubble.mpr (Or.inl rfl), hip.symm⟩
          have hi' : i ∈ ds.seen := by
            rcases List.mem_cons.mp hi with h1 | h1
            · exact absurd h1 hip
            · exact h1
          -- either i is the evicted element or it was outside before
          have hbound : l.dist ≤ dq i := by
            by_cases hil : i = l.id
            · rw [hil, ← (hinv.ok l (by rw [hdl]; simp)).1]
            · have : i ∉ ds.items.map (·.id) := by
                intro hm
                obtain ⟨x, hx, rfl⟩ := List.mem_map.mp hm
                rw [hdl] at hx
                rcases List.mem_append.mp hx with h1 | h1
                · exact hni (List.mem_map.mpr ⟨x, mem_bubble.mpr (Or.inr h1), rfl⟩)
                · simp at h1; exact hil (by rw [h1])
              exact (hrest i hi' this).2 l (by rw [hdl]; simp)
          intro e he
          rcases mem_bubble.mp he with rfl | h1
          · exact le_trans hel hbound
          · exact le_trans (hle e (List.dropLast_subset _ h1)) hbound
    · split
      · -- room left: appended
        rename_i hlt
        intro i hi hni
        simp only at hi hni ⊢
        exfalso
        have hip : i ≠ p := by
          intro hip; apply hni
          exact List.mem_map.mpr ⟨_, mem_bubble.mpr (Or.inl rfl), hip.symm⟩
        have hi' : i ∈ ds.seen := by
          rcases List.mem_cons.mp hi with h1 | h1
          · exact absurd h1 hip
          · exact h1
        have : i ∉ ds.items.map (·.id) := by
          intro hm
          obtain ⟨x, hx, rfl⟩ := List.mem_map.mp hm
          exact hni (List.mem_map.mpr ⟨x, mem_bubble.mpr (Or.inr hx), rfl⟩)
        have := (hrest i hi' this).1
        omega
      · rename_i h1 h2
        simp at h1; omega

theorem new_topk (dq : Id → D) (c : Nat) : TopK dq (DistSet.new c : DistSet D) :=
  ⟨by simp [DistSet.new, SortedD], by simp [DistSet.new], new_inv dq _ c, by simp [DistSet.new]⟩

/-- the result set in filter mode: a top-k set (k = its capacity) of what it has seen, which is the seeded
points plus visited members of the filter -/
structure FInv (v : View) (dq : Id → D) (k ss : Nat) (f : List Id) (st : GState D) : Prop where
  topk : TopK dq st.result
  seenF : ∀ i ∈ st.result.seen, i ∈ f ∧ v.hasVec i = true
  seeded : ∀ i ∈ filterPoints v ss f, i ∈ st.result.seen
  cap : st.result.cap = k

theorem FInv_iff_result (v : View) (dq : Id → D) (k ss : Nat) (f : List Id) (st : GState D) :
    FInv v dq k ss f st ↔ (TopK dq st.result ∧ (∀ i ∈ st.result.seen, i ∈ f ∧ v.hasVec i = true) ∧
      (∀ i ∈ filterPoints v ss f, i ∈ st.result.seen) ∧ st.result.cap = k) :=
  ⟨fun h => ⟨h.topk, h.seenF, h.seeded, h.cap⟩, fun ⟨a, b, c, d⟩ => ⟨a, b, c, d⟩⟩

theorem FInv_init (v : View) (dq : Id → D) (k ss : Nat) (f : List Id) : FInv v dq k ss f (initState v dq k ss (some f)) := by
  refine ⟨?_, ?_, ?_, ?_⟩
  · exact addWithLimit_fold (Q := TopK dq) dq _ _ (fun _ => True) (fun ds p _ h => addWithLimit1_topk dq ds p h)
      (fun _ _ => trivial) (new_topk dq k)
  · intro i hi
    have hi' : i ∈ ((DistSet.new k : DistSet D).addWithLimit dq (filterPoints v ss f)).seen := hi
    rw [addWithLimit_seen] at hi'
    rcases hi' with h | h
    · have := List.mem_filter.mp h
      exact ⟨List.mem_of_mem_take this.1, this.2⟩
    · simp [DistSet.new] at h
  · intro i hi
    show i ∈ ((DistSet.new k : DistSet D).addWithLimit dq (filterPoints v ss f)).seen
    rw [addWithLimit_seen]; exact Or.inl hi
  · show ((DistSet.new k : DistSet D).addWithLimit dq (filterPoints v ss f)).cap = k
    rw [addWithLimit_cap]; rfl

theorem FInv_step (v : View) (dq : Id → D) (k ss : Nat) (f : List Id) (st : GState D) (e : Elem D) (es : List Id)
    (hL : LInv v dq (some f) st) (hF : FInv v dq k ss f st) (he : nextUnvisited ss st.search.items = some e) :
    FInv v dq k ss f (stepState v dq (some f) st e es) := by
  have hres : (stepState v dq (some f) st e es).result =
      if f.contains e.id then st.result.addWithLimit1 dq e.id else st.result := rfl
  rw [FInv_iff_result] at hF ⊢
  rw [hres]
  split
  · rename_i hc
    have hem := (nextUnvisited_some ss _ e he).1
    obtain ⟨h1, h2, h3, h4⟩ := hF
    refine ⟨addWithLimit1_topk dq _ _ h1, ?_, ?_, ?_⟩
    · intro i hi
      rcases (addWithLimit1_seen dq _ _ i).mp hi with rfl | h
      · exact ⟨by simpa using hc, (hL.s.ok e hem).2⟩
      · exact h2 i h
    · intro i hi
      exact (addWithLimit1_seen dq _ _ i).mpr (Or.inr (h3 i hi))
    · rw [addWithLimit1_cap]; exact h4
  · exact hF


/-! ### the exact regime of a small collection: nothing is ever evicted, the search set ends up closed under edges -/

theorem addWithLimit1_room (dq : Id → D) (ds : DistSet D) (p : Id) (hroom : ds.items.length < ds.cap)
    (hp : p ∉ ds.seen) : (ds.addWithLimit1 dq p).items = bubble { id := p, dist := dq p } ds.items := by
  unfold DistSet.addWithLimit1
  have h0 : ds.seen.contains p = false := by simpa using hp
  have h1 : (ds.items.length == ds.cap) = false := by simp; omega
  rw [if_neg (by simpa using hp)]
  simp only
  rw [if_neg (by simp [h1]), if_pos hroom]

/-- invariant of a search set that never overflows: everything seen is kept -/
structure Room (dq : Id → D) (v : View) (vecs : List Id) (ds : DistSet D) : Prop where
  inv : DSInv dq v.hasVec ds
  keep : ∀ i ∈ ds.seen, i ∈ ds.items.map (·.id)
  cap : vecs.length ≤ ds.cap

theorem addWithLimit1_roomInv (dq : Id → D) (v : View) (vecs : List Id) (hvecs : ∀ i, v.hasVec i = true → i ∈ vecs)
    (ds : DistSet D) (p : Id) (hp : v.hasVec p = true) (h : Room dq v vecs ds) : Room dq v vecs (ds.addWithLimit1 dq p) := by
  refine ⟨addWithLimit1_inv dq v.hasVec ds p hp h.inv, ?_, by rw [addWithLimit1_cap]; exact h.cap⟩
  by_cases hs : p ∈ ds.seen
  · have : ds.addWithLimit1 dq p = ds := by
      unfold DistSet.addWithLimit1
      have h0 : ds.seen.contains p = true := by simpa using hs
      rw [if_pos h0]
    rw [this]; exact h.keep
  · -- there is room: the ids kept plus p are distinct ids of points with a vector
    have hroom : ds.items.length < ds.cap := by
      have hnd : (p :: ds.items.map (·.id)).Nodup := by
        refine List.nodup_cons.mpr ⟨?_, h.inv.nodup⟩
        intro hm
        obtain ⟨e, he, rfl⟩ := List.mem_map.mp hm
        exact hs (h.inv.sub e he)
      have hsub : (p :: ds.items.map (·.id)) ⊆ vecs := by
        intro i hi
        rcases List.mem_cons.mp hi with rfl | hi
        · exact hvecs _ hp
        · obtain ⟨e, he, rfl⟩ := List.mem_map.mp hi
          exact hvecs _ (h.inv.ok e he).2
      have := List.Nodup.length_le_of_subset hnd hsub
      simp at this
      have := h.cap
      omega
    intro i hi
    rw [addWithLimit1_room dq ds p hroom hs]
    rcases (addWithLimit1_seen dq ds p i).mp hi with rfl | hi'
    · exact List.mem_map.mpr ⟨_, mem_bubble.mpr (Or.inl rfl), rfl⟩
    · obtain ⟨e, he, rfl⟩ := List.mem_map.mp (h.keep i hi')
      exact List.mem_map.mpr ⟨e, mem_bubble.mpr (Or.inr he), rfl⟩

theorem markVisited_mem' (id : Id) (items : List (Elem D)) (x : Elem D) (hx : x ∈ markVisited id items) :
    ∃ y ∈ items, x.id = y.id ∧ (x.visited = true → y.visited = true ∨ y.id = id) := by
  unfold markVisited at hx
  obtain ⟨y, hy, rfl⟩ := List.mem_map.mp hx
  refine ⟨y, hy, ?_⟩
  split
  · rename_i h
    exact ⟨rfl, fun _ => Or.inr (by simpa using h)⟩
  · exact ⟨rfl, fun h => Or.inl h⟩

/-- loop invariant without a filter when the search set has room for every vector -/
structure NInv (v : View) (dq : Id → D) (vecs : List Id) (st : GState D) : Prop where
  room : Room dq v vecs st.search
  closed : ∀ e ∈ st.search.items, e.visited = true → ∀ es, v.edges e.id = some es →
    ∀ t ∈ es, v.hasVec t = true → t ∈ st.search.seen
  entrySeen : entry ∈ st.search.seen

theorem NInv_step (v : View) (dq : Id → D) (vecs : List Id) (hvecs : ∀ i, v.hasVec i = true → i ∈ vecs)
    (filter : Option (List Id)) (ss : Nat) (st : GState D) (e : Elem D) (es : List Id)
    (hN : NInv v dq vecs st) (he : nextUnvisited ss st.search.items = some e) (hes : v.edges e.id = some es) :
    NInv v dq vecs (stepState v dq filter st e es) := by
  have hem := (nextUnvisited_some ss _ e he).1
  have hr1 : Room dq v vecs ({ st.search with items := markVisited e.id st.search.items } : DistSet D) := by
    refine ⟨⟨?_, ?_, ?_⟩, ?_, hN.room.cap⟩
    · show ((markVisited e.id st.search.items).map (·.id)).Nodup
      rw [markVisited_ids]; exact hN.room.inv.nodup
    · intro x hx
      obtain ⟨y, hy, hid, _, _⟩ := markVisited_mem _ _ x hx
      show x.id ∈ st.search.seen
      rw [hid]; exact hN.room.inv.sub y hy
    · intro x hx
      obtain ⟨y, hy, hid, hd, _⟩ := markVisited_mem _ _ x hx
      rw [hid, hd]; exact hN.room.inv.ok y hy
    · intro i hi
      show i ∈ (markVisited e.id st.search.items).map (·.id)
      rw [markVisited_ids]; exact hN.room.keep i hi
  have hfv : ∀ p ∈ es.filter v.hasVec, v.hasVec p = true := fun p hp => (List.mem_filter.mp hp).2
  refine ⟨?_, ?_, ?_⟩
  · exact addWithLimit_fold (Q := Room dq v vecs) dq _ _ (fun p => v.hasVec p = true)
      (fun ds p hp h => addWithLimit1_roomInv dq v vecs hvecs ds p hp h) hfv hr1
  · intro x hx hxv es' hes' t ht htv
    show t ∈ (DistSet.addWithLimit dq _ _).seen
    rw [addWithLimit_seen]
    rcases addWithLimit_items dq _ _ x hx with h | ⟨h1, _, _⟩
    · obtain ⟨y, hy, hid, hflag⟩ := markVisited_mem' _ _ x h
      rcases hflag hxv with h1 | h1
      · right
        exact hN.closed y hy h1 es' (hid ▸ hes') t ht htv
      · left
        have : es' = es := by
          rw [hid, h1, hes] at hes'; exact (Option.some.inj hes').symm
        rw [this] at ht
        exact List.mem_filter.mpr ⟨ht, htv⟩
    · rw [h1] at hxv; simp at hxv
  · show entry ∈ (DistSet.addWithLimit dq _ _).seen
    rw [addWithLimit_seen]; exact Or.inr hN.entrySeen

theorem nextUnvisited_none (ss : Nat) (items : List (Elem D)) (h : nextUnvisited ss items = none) (hl : items.length ≤ ss) :
    ∀ e ∈ items, e.visited = true := by
  unfold nextUnvisited at h
  rw [Nat.min_eq_left hl, List.take_length] at h
  intro e he
  have := List.find?_eq_none.mp h e he
  simpa using this


/-- reachability from the entry node along stored edges -/
inductive Reach (g : Graph) : Id → Prop
  | entry : Reach g entry
  | step {i t : Id} {es : List Id} : Reach g i → g.edges i = some es → t ∈ es → Reach g t


/-! ### insert-only builds below the degree bound keep every node reachable -/

theorem find_filter_ne (ns : List (Id × List Id)) (i j : Id) (h : j ≠ i) :
    (ns.filter (fun n => n.1 != i)).find? (fun n => n.1 == j) = ns.find? (fun n => n.1 == j) := by
  induction ns with
  | nil => rfl
  | cons x xs ih =>
    by_cases hx : x.1 = i
    · have hxj : ¬ x.1 = j := fun e => h (e ▸ hx)
      rw [List.filter_cons_of_neg (by simp [hx]), List.find?_cons_of_neg (by simpa using hxj), ih]
    · rw [List.filter_cons_of_pos (by simpa using hx)]
      by_cases hxj : x.1 = j
      · rw [List.find?_cons_of_pos (by simpa using hxj), List.find?_cons_of_pos (by simpa using hxj)]
      · rw [List.find?_cons_of_neg (by simpa using hxj), List.find?_cons_of_neg (by simpa using hxj), ih]

theorem edges_put_self (g : Graph) (i : Id) (es : List Id) :
    ({ g with nodes := putNode g.nodes i es } : Graph).edges i = some es := by
  show ((putNode g.nodes i es).find? (fun n => n.1 == i)).map (·.2) = some es
  unfold putNode
  rw [List.find?_cons_of_pos (by simp)]
  rfl

theorem edges_put_other (g : Graph) (i j : Id) (es : List Id) (h : j ≠ i) :
    ({ g with nodes := putNode g.nodes i es } : Graph).edges j = g.edges j := by
  show ((putNode g.nodes i es).find? (fun n => n.1 == j)).map (·.2) = (g.nodes.find? (fun n => n.1 == j)).map (·.2)
  unfold putNode
  rw [List.find?_cons_of_neg (by simpa using fun e => h e.symm), find_filter_ne _ _ _ h]

theorem find_of_mem_nodup (ns : List (Id × List Id)) (hk : (ns.map (·.1)).Nodup) (j : Id) (es : List Id)
    (h : (j, es) ∈ ns) : ns.find? (fun n => n.1 == j) = some (j, es) := by
  induction ns with
  | nil => simp at h
  | cons x xs ih =>
    rw [List.map_cons, List.nodup_cons] at hk
    rcases List.mem_cons.mp h with h' | h'
    · rw [← h']; rw [List.find?_cons_of_pos (by simp)]
    · have hxj : ¬ x.1 = j := by
        intro e; apply hk.1; rw [e]; exact List.mem_map.mpr ⟨_, h', rfl⟩
      rw [List.find?_cons_of_neg (by simpa using hxj)]
      exact ih hk.2 h'

theorem mem_nodes_edges (g : Graph) (hk : g.keys.Nodup) (j : Id) (es : List Id) (h : (j, es) ∈ g.nodes) :
    g.edges j = some es := by
  unfold Graph.edges
  rw [find_of_mem_nodup g.nodes hk j es h]
  rfl

theorem Reach_mono (g g' : Graph)
    (h : ∀ i es, g.edges i = some es → ∃ es', g'.edges i = some es' ∧ ∀ t ∈ es, t ∈ es') :
    ∀ i, Reach g i → Reach g' i := by
  intro i hr
  induction hr with
  | entry => exact Reach.entry
  | step _ hes ht ih =>
    obtain ⟨es', h1, h2⟩ := h _ _ hes
    exact Reach.step ih h1 (h2 _ ht)

/-! robustPrune: more facts -/

theorem robustPrune_acc_sub (R : Nat) (ap : Id → Id → D) (self : Id) (cs : List (Elem D)) (acc : List Id) :
    ∀ t ∈ acc, t ∈ robustPrune R ap self cs acc := by
  induction cs generalizing acc with
  | nil => intro t ht; exact ht
  | cons c rest ih =>
    intro t ht
    unfold robustPrune
    split
    · exact ih acc t ht
    · simp only
      split
      · exact List.mem_append_left _ ht
      · exact ih _ t (List.mem_append_left _ ht)

theorem robustPrune_nonempty (R : Nat) (ap : Id → Id → D) (self : Id) (cs : List (Elem D))
    (h : ∃ c ∈ cs, c.id ≠ self) : robustPrune R ap self cs [] ≠ [] := by
  induction cs with
  | nil => obtain ⟨c, hc, _⟩ := h; simp at hc
  | cons c rest ih =>
    unfold robustPrune
    split
    · rename_i hcond
      apply ih
      obtain ⟨c', hc', hne⟩ := h
      rcases List.mem_cons.mp hc' with rfl | h'
      · simp [hne] at hcond
      · exact ⟨c', h', hne⟩
    · simp only
      split
      · simp
      · intro hnil
        have := robustPrune_acc_sub R ap self rest ([] ++ [c.id]) c.id (by simp)
        rw [hnil] at this; simp at this

theorem robustPrune_nodup (R : Nat) (ap : Id → Id → D) (self : Id) (cs : List (Elem D)) (acc : List Id)
    (hcs : (cs.map (·.id)).Nodup) (hacc : acc.Nodup) (hdis : ∀ t ∈ acc, t ∉ cs.map (·.id)) :
    (robustPrune R ap self cs acc).Nodup := by
  induction cs generalizing acc with
  | nil => exact hacc
  | cons c rest ih =>
    rw [List.map_cons, List.nodup_cons] at hcs
    unfold robustPrune
    have hdis' : ∀ t ∈ acc, t ∉ rest.map (·.id) := fun t ht hm => hdis t ht (List.mem_cons_of_mem _ hm)
    split
    · exact ih acc hcs.2 hacc hdis'
    · have hacc' : (acc ++ [c.id]).Nodup := by
        rw [List.nodup_append]
        refine ⟨hacc, by simp, ?_⟩
        intro x hx y hy hxy
        simp at hy
        rw [hy] at hxy; rw [hxy] at hx
        exact hdis _ hx (by simp)
      simp only
      split
      · exact hacc'
      · apply ih _ hcs.2 hacc'
        intro t ht
        rcases List.mem_append.mp ht with h | h
        · exact hdis' t h
        · simp at h; subst h; exact hcs.1

/-- the back-edge loop when no node is at its degree bound: the new point is appended everywhere -/
theorem backEdges_noprune (cfg : Cfg) (ds : Dists D) (a : Id) (bs : List Id) (g g' : Graph) (hbs : bs.Nodup)
    (hroom : ∀ b ∈ bs, ∃ eb, g.edges b = some eb ∧ eb.length + 1 ≤ cfg.degreeBound)
    (h : backEdges cfg ds a bs g = .ok g') :
    ∀ j, g'.edges j = if j ∈ bs then (g.edges j).map (· ++ [a]) else g.edges j := by
  induction bs generalizing g with
  | nil => simp [backEdges] at h; subst h; intro j; simp
  | cons b rest ih =>
    rw [List.nodup_cons] at hbs
    unfold backEdges at h
    obtain ⟨eb, heb, hlen⟩ := hroom b List.mem_cons_self
    rw [heb] at h
    simp only at h
    have hno : ¬ (eb.length + 1 > cfg.degreeBound) := by omega
    rw [if_neg hno] at h
    have hroom' : ∀ b' ∈ rest, ∃ eb', ({ g with nodes := putNode g.nodes b (eb ++ [a]) } : Graph).edges b' = some eb' ∧
        eb'.length + 1 ≤ cfg.degreeBound := by
      intro b' hb'
      have hne : b' ≠ b := fun e => hbs.1 (e ▸ hb')
      rw [edges_put_other _ _ _ _ hne]
      exact hroom b' (List.mem_cons_of_mem _ hb')
    have := ih _ hbs.2 hroom' h
    intro j
    rw [this j]
    by_cases hjb : j = b
    · subst hjb
      have : j ∉ rest := hbs.1
      simp [this, edges_put_self, heb]
    · rw [edges_put_other _ _ _ _ hjb]
      simp [hjb]



theorem foldl_bubble_perm (es acc : List (Elem D)) :
    (es.foldl (fun acc e => bubble e acc) acc).Perm (acc ++ es) := by
  induction es generalizing acc with
  | nil => simp
  | cons e es ih =>
    simp only [List.foldl_cons]
    refine (ih (bubble e acc)).trans ?_
    have h1 : (bubble e acc ++ es).Perm ((e :: acc) ++ es) := List.Perm.append_right es (bubble_perm e acc)
    refine h1.trans ?_
    simp only [List.cons_append]
    exact (List.perm_middle (a := e) (l₁ := acc) (l₂ := es)).symm

theorem sortFrom_perm (n : Nat) (l : List (Elem D)) : (sortFrom n l).Perm l := by
  unfold sortFrom
  refine (foldl_bubble_perm _ _).trans ?_
  rw [List.take_append_drop]

/-- what `insertSinglePoint` gets from its greedy search: distinct visited ids, the entry node among them -/
theorem greedy_visited_facts (v : View) (dq : Id → D) (ss fuel : Nat) (he : v.hasVec entry = true)
    (rs : DistSet D) (vis : List (Elem D)) (h : greedySearch v dq 1 ss none (fuel + 1) = .ok (rs, vis)) :
    (vis.map (·.id)).Nodup ∧ ∃ e ∈ vis, e.id = entry := by
  have hss : 1 ≤ ss := by
    apply Classical.byContradiction
    intro hn
    unfold greedySearch at h
    rw [if_pos (by omega)] at h
    cases h
  rw [greedySearch_eq v dq 1 ss none _ hss he] at h
  split at h
  · cases h
  · rename_i st hst
    cases h
    have hI0 := initState_inv v dq 1 ss none he
    obtain ⟨hI, _⟩ := loop_induct v dq none ss (LInv v dq none)
      (fun st e es h1 h2 _ => LInv_step v dq none ss st e es h1 h2) _ _ st hst hI0
    refine ⟨(((sortFrom_perm 0 st.visited).map (·.id)).nodup_iff).mpr hI.vnd, ?_⟩
    -- the first visit is the entry node
    have hitems : (initState v dq 1 ss none).search.items = [({ id := entry, dist := dq entry } : Elem D)] := by
      show ((DistSet.new ss : DistSet D).addWithLimit1 dq entry).items = _
      rw [addWithLimit1_room dq _ entry (by simp [DistSet.new]; omega) (by simp [DistSet.new])]
      simp [DistSet.new, bubble]
    have hnext : nextUnvisited ss (initState v dq 1 ss none).search.items = some ({ id := entry, dist := dq entry } : Elem D) := by
      rw [hitems]
      unfold nextUnvisited
      have : min ([({ id := entry, dist := dq entry } : Elem D)]).length ss = 1 := by simp; omega
      rw [this]
      simp
    rw [loop_succ, hnext] at hst
    simp only at hst
    split at hst
    · cases hst
    · rename_i es hes
      have := loop_induct v dq none ss (fun st => ∃ e ∈ st.visited, e.id = entry)
        (fun st e es h1 _ _ => by
          obtain ⟨x, hx, hxe⟩ := h1
          exact ⟨x, List.mem_append_left _ hx, hxe⟩) _ _ st hst
        ⟨({ id := entry, dist := dq entry } : Elem D), List.mem_append_right _ (List.mem_singleton.mpr rfl), rfl⟩
      obtain ⟨e, he', hee⟩ := this.1
      exact ⟨e, (mem_sortFrom 0 _).mpr he', hee⟩

def Conn (g : Graph) : Prop := ∀ i ∈ g.keys, Reach g i

/-- invariant of insert-only builds below the degree bound -/
structure BInv (R : Nat) (g : Graph) : Prop where
  p : P R g (fun _ => False)
  he : entry ∈ g.keys
  conn : Conn g
  nd : ∀ n ∈ g.nodes, n.2.Nodup

theorem insertPoint_BInv (cfg : Cfg) (ds : Dists D) (hR : 1 ≤ cfg.degreeBound) (g g' : Graph) (a : Id)
    (hB : BInv cfg.degreeBound g) (ha : a ∉ g.keys) (hroom : g.keys.length ≤ cfg.degreeBound)
    (h : insertPoint cfg ds g a = .ok g') : BInv cfg.degreeBound g' := by
  obtain ⟨hP', hk', _⟩ := insertPoint_P cfg ds hR _ g g' a hB.p h
  have hP'' : P cfg.degreeBound g' (fun _ => False) := hP'.congr (fun i hi => hi.1)
  unfold insertPoint at h
  simp only at h
  split at h
  · cases h
  · rename_i rs vis hgs
    have hae : a ≠ entry := fun e => ha (e ▸ hB.he)
    have hev : ({ g with vecs := setVec g.vecs a } : Graph).view.hasVec entry = true := by
      have : entry ∈ setVec g.vecs a := setVec_mem.mpr (Or.inr ((hB.p.kv _).mp hB.he))
      simpa [Graph.view, Graph.hasVec] using this
    obtain ⟨hvnd, e0, he0, he0e⟩ := greedy_visited_facts _ _ _ _ hev rs vis hgs
    have hvis := greedySearch_visited _ _ _ _ _ _ rs vis hgs
    -- the new edge list
    have hes_sub : ∀ t ∈ robustPrune cfg.degreeBound ds.ap a vis [], t ≠ a ∧ t ∈ g.keys := by
      intro t ht
      rcases robustPrune_sub _ _ _ _ _ t ht with h | ⟨hne, c, hc, rfl⟩
      · simp at h
      · exact ⟨hne, edges_isSome_key (g := { g with vecs := setVec g.vecs a }) (hvis c hc)⟩
    have hes_nd : (robustPrune cfg.degreeBound ds.ap a vis []).Nodup :=
      robustPrune_nodup _ _ _ _ _ hvnd (by simp) (by simp)
    have hes_ne : robustPrune cfg.degreeBound ds.ap a vis [] ≠ [] :=
      robustPrune_nonempty _ _ _ _ ⟨e0, he0, by rw [he0e]; exact fun e => hae e.symm⟩
    generalize robustPrune cfg.degreeBound ds.ap a vis [] = es at h hes_sub hes_nd hes_ne
    -- graph after Set + Put
    let g2 : Graph := { g with vecs := setVec g.vecs a, nodes := putNode g.nodes a es }
    have hg2a : g2.edges a = some es := edges_put_self _ a es
    have hg2o : ∀ j, j ≠ a → g2.edges j = g.edges j := fun j hj => edges_put_other { g with vecs := setVec g.vecs a } a j es hj
    -- every neighbour has room for one more edge
    have hroom2 : ∀ b ∈ es, ∃ eb, g2.edges b = some eb ∧ eb.length + 1 ≤ cfg.degreeBound := by
      intro b hb
      obtain ⟨hba, hbk⟩ := hes_sub b hb
      obtain ⟨n, hn, hnb⟩ := List.mem_map.mp hbk
      have hn' : (b, n.2) ∈ g.nodes := by rw [← hnb]; exact hn
      refine ⟨n.2, by rw [hg2o b hba]; exact mem_nodes_edges g hB.p.nodupK b n.2 hn', ?_⟩
      have hnd : (b :: n.2).Nodup := by
        refine List.nodup_cons.mpr ⟨?_, hB.nd n hn⟩
        intro hm
        exact ((hB.p.clean n hn (fun f => f)).1 b hm).1 hnb.symm
      have hsub : (b :: n.2) ⊆ g.keys := by
        intro t ht
        rcases List.mem_cons.mp ht with rfl | ht
        · exact hbk
        · exact ((hB.p.clean n hn (fun f => f)).1 t ht).2
      have := List.Nodup.length_le_of_subset hnd hsub
      simp at this; omega
    have hfin := backEdges_noprune cfg ds a es g2 g' hes_nd hroom2 h
    -- edges of the final graph
    have hold : ∀ i eb, g.edges i = some eb → ∃ eb', g'.edges i = some eb' ∧ ∀ t ∈ eb, t ∈ eb' := by
      intro i eb hi
      have hia : i ≠ a := fun e => ha (e ▸ edges_some_key hi)
      rw [hfin i, hg2o i hia, hi]
      by_cases hie : i ∈ es
      · simp only [hie, if_true, Option.map_some]
        exact ⟨_, rfl, fun t ht => List.mem_append_left _ ht⟩
      · simp only [hie, if_false]
        exact ⟨_, rfl, fun t ht => ht⟩
    refine ⟨hP'', (hk' _).mpr (Or.inr hB.he), ?_, ?_⟩
    · -- connectivity
      intro j hj
      rcases (hk' j).mp hj with rfl | hjk
      · obtain ⟨b, hb⟩ := List.exists_mem_of_ne_nil _ hes_ne
        obtain ⟨hba, hbk⟩ := hes_sub b hb
        have hrb : Reach g' b := Reach_mono g g' hold b (hB.conn b hbk)
        obtain ⟨eb, heb, _⟩ := hroom2 b hb
        have : g'.edges b = some (eb ++ [j]) := by rw [hfin b, heb]; simp [hb]
        exact Reach.step hrb this (by simp)
      · exact Reach_mono g g' hold j (hB.conn j hjk)
    · -- edge lists without duplicates
      intro n hn
      have hne : g'.edges n.1 = some n.2 := mem_nodes_edges g' hP''.nodupK n.1 n.2 hn
      rw [hfin n.1] at hne
      by_cases hna : n.1 = a
      · have hnes : n.1 ∉ es := fun hm => (hes_sub _ hm).1 hna
        rw [if_neg hnes, hna, hg2a] at hne
        cases hne; exact hes_nd
      · rw [hg2o _ hna] at hne
        by_cases hnes : n.1 ∈ es
        · rw [if_pos hnes] at hne
          cases hg : g.edges n.1 with
          | none => rw [hg] at hne; simp at hne
          | some eb =>
            rw [hg] at hne
            simp only [Option.map_some, Option.some.injEq] at hne
            rw [← hne]
            have hebn := edges_some hg
            rw [List.nodup_append]
            refine ⟨hB.nd _ hebn, by simp, ?_⟩
            intro x hx y hy hxy
            simp at hy
            rw [hy] at hxy; rw [hxy] at hx
            exact ha ((hB.p.clean _ hebn (fun f => f)).1 a hx).2
        · rw [if_neg hnes] at hne
          exact hB.nd _ (edges_some hne)



theorem BInv_maxId (R : Nat) (g : Graph) (m : Nat) (h : BInv R g) : BInv R { g with maxId := m } := by
  refine ⟨⟨h.p.nodupK, h.p.nodupV, h.p.kv, h.p.clean⟩, h.he, ?_, h.nd⟩
  intro i hi
  exact Reach_mono g { g with maxId := m } (fun i es he => ⟨es, he, fun t ht => ht⟩) i (h.conn i hi)

theorem deleteNodes_nil (g : Graph) : deleteNodes g [] = g := by
  cases g
  simp [deleteNodes, List.filter_eq_self]

/-- an insert (point not stored, vector given) while nothing has been filed as updated / deleted -/
theorem classify_insert (cfg : Cfg) (ds : Dists D) (acc acc' : Acc) (c : Change) (ht : acc.touched = [])
    (hex : acc.g.hasVec c.id = false) (hv : c.hasVector = true) (h : classify true cfg ds acc c = .ok acc') :
    ∃ g', insertPoint cfg ds { acc.g with maxId := if c.id > acc.g.maxId then c.id else acc.g.maxId } c.id = .ok g' ∧
      acc'.g = g' ∧ acc'.updated = acc.updated ∧ acc'.deleted = acc.deleted ∧ acc'.touched = acc.touched := by
  unfold classify at h
  split at h
  · cases h
  · split at h
    · cases h
    · simp only [ht, List.contains_nil, Bool.and_false, Bool.false_eq_true, if_false, hex, hv] at h
      split at h
      · cases h
      · rename_i g' hg'
        cases h
        exact ⟨g', hg', rfl, rfl, rfl, by simp [ht]⟩

theorem classifyAll_inserts (cfg : Cfg) (ds : Dists D) (hR : 1 ≤ cfg.degreeBound) (cs : List Change) (acc acc' : Acc)
    (hB : BInv cfg.degreeBound acc.g) (ht : acc.touched = []) (hu : acc.updated = []) (hd : acc.deleted = [])
    (hall : ∀ c ∈ cs, c.hasVector = true) (hnd : (cs.map (·.id)).Nodup) (hfr : ∀ c ∈ cs, c.id ∉ acc.g.keys)
    (hroom : acc.g.keys.length + cs.length ≤ cfg.degreeBound + 1)
    (h : classifyAll true cfg ds cs acc = .ok acc') :
    BInv cfg.degreeBound acc'.g ∧ acc'.touched = [] ∧ acc'.updated = [] ∧ acc'.deleted = [] := by
  induction cs generalizing acc with
  | nil => simp [classifyAll] at h; subst h; exact ⟨hB, ht, hu, hd⟩
  | cons c rest ih =>
    unfold classifyAll at h
    split at h
    · cases h
    · rename_i acc1 h1
      have hck : c.id ∉ acc.g.keys := hfr c List.mem_cons_self
      have hex : acc.g.hasVec c.id = false := by
        have : c.id ∉ acc.g.vecs := fun hm => hck ((hB.p.kv _).mpr hm)
        simpa [Graph.hasVec] using this
      obtain ⟨g', hg', hga, hua, hda, hta⟩ := classify_insert cfg ds acc acc1 c ht hex (hall c List.mem_cons_self) h1
      have hB0 := BInv_maxId cfg.degreeBound acc.g (if c.id > acc.g.maxId then c.id else acc.g.maxId) hB
      simp only [List.length_cons] at hroom
      have hB1 : BInv cfg.degreeBound g' :=
        insertPoint_BInv cfg ds hR _ g' c.id hB0 hck (by show acc.g.keys.length ≤ _; omega) hg'
      obtain ⟨hP1, hk1, _⟩ := insertPoint_P cfg ds hR _ _ g' c.id hB0.p hg'
      have hk1' : ∀ i, i ∈ g'.keys ↔ i = c.id ∨ i ∈ acc.g.keys := hk1
      have hlen : g'.keys.length = acc.g.keys.length + 1 := by
        have : g'.keys.Perm (c.id :: acc.g.keys) := by
          apply (List.perm_ext_iff_of_nodup hP1.nodupK (List.nodup_cons.mpr ⟨hck, hB.p.nodupK⟩)).mpr
          intro i; rw [hk1' i]; simp
        simpa using this.length_eq
      rw [List.map_cons, List.nodup_cons] at hnd
      apply ih acc1 (hga ▸ hB1) (hta.trans ht) (hua.trans hu) (hda.trans hd)
        (fun c' hc' => hall c' (List.mem_cons_of_mem _ hc')) hnd.2
      · intro c' hc'
        rw [hga, hk1']
        rintro (h | h)
        · exact hnd.1 (h ▸ List.mem_map.mpr ⟨c', hc', rfl⟩)
        · exact hfr c' (List.mem_cons_of_mem _ hc') h
      · rw [hga]; omega
      · exact h

theorem apply_inserts_BInv (cfg : Cfg) (ds : Dists D) (hR : 1 ≤ cfg.degreeBound) (ord : List Id) (g g' : Graph)
    (batch : List Change) (hB : BInv cfg.degreeBound g) (hall : ∀ c ∈ batch, c.hasVector = true)
    (hnd : (batch.map (·.id)).Nodup) (hfr : ∀ c ∈ batch, c.id ∉ g.keys)
    (hroom : g.keys.length + batch.length ≤ cfg.degreeBound + 1) (h : apply cfg ds ord g batch = .ok g') :
    BInv cfg.degreeBound g' := by
  unfold apply applyV at h
  split at h
  · cases h
  · rename_i acc hacc
    obtain ⟨hB', ht, hu, hd⟩ := classifyAll_inserts cfg ds hR batch { g := g } acc hB rfl rfl rfl hall hnd hfr hroom hacc
    simp only [ht, List.isEmpty_nil, if_true, hu, hd, deleteNodes_nil, reinsertAll] at h
    cases h
    exact hB'

theorem liveAfter_inserts (L : List Id) (batch : List Change) (hall : ∀ c ∈ batch, c.hasVector = true)
    (hnd : (batch.map (·.id)).Nodup) (hfr : ∀ c ∈ batch, c.id ∉ L) :
    liveAfter L batch = L ++ batch.map (·.id) := by
  induction batch generalizing L with
  | nil => simp [liveAfter]
  | cons c rest ih =>
    rw [List.map_cons, List.nodup_cons] at hnd
    have hc : c.id ∉ L := hfr c List.mem_cons_self
    unfold liveAfter
    rw [if_pos (hall c List.mem_cons_self)]
    have : L.contains c.id = false := by simpa using hc
    simp only [this, Bool.false_eq_true, if_false]
    rw [ih _ (fun c' hc' => hall c' (List.mem_cons_of_mem _ hc')) hnd.2]
    · simp
    · intro c' hc' hm
      rcases List.mem_append.mp hm with h | h
      · exact hfr c' (List.mem_cons_of_mem _ hc') h
      · simp at h; exact hnd.1 (h ▸ List.mem_map.mpr ⟨c', hc', rfl⟩)

theorem liveAfter_len_mono (L : List Id) (batch : List Change) (hall : ∀ c ∈ batch, c.hasVector = true) :
    L.length ≤ (liveAfter L batch).length := by
  induction batch generalizing L with
  | nil => simp [liveAfter]
  | cons c rest ih =>
    unfold liveAfter
    rw [if_pos (hall c List.mem_cons_self)]
    refine Nat.le_trans ?_ (ih _ (fun c' hc' => hall c' (List.mem_cons_of_mem _ hc')))
    split
    · exact Nat.le_refl _
    · simp

theorem run_len_mono (cfg : Cfg) (steps : List (Step D)) (g : Graph) (L : List Id)
    (hall : ∀ st ∈ steps, ∀ c ∈ st.batch, c.hasVector = true) : L.length ≤ (run cfg steps (g, L)).2.length := by
  induction steps generalizing g L with
  | nil => simp [run]
  | cons st rest ih =>
    have hall' : ∀ st' ∈ rest, ∀ c ∈ st'.batch, c.hasVector = true := fun st' h => hall st' (List.mem_cons_of_mem _ h)
    unfold run
    split
    · exact ih g L hall'
    · exact Nat.le_trans (liveAfter_len_mono L st.batch (hall st List.mem_cons_self)) (ih _ _ hall')

theorem BInv_init (R : Nat) : BInv R Graph.init := by
  have hP := ((wf_iff R Graph.init []).mp (by unfold WF wfB Graph.init Graph.keys; simp [nodupB, entry])).1
  refine ⟨hP, by simp [Graph.init, Graph.keys], ?_, ?_⟩
  · intro i hi
    have : i = entry := by simpa [Graph.init, Graph.keys] using hi
    rw [this]; exact Reach.entry
  · intro n hn
    have : n = (entry, []) := by simpa [Graph.init] using hn
    rw [this]; simp

/-- insert-only histories whose collection stays within the degree bound: every node stays reachable -/
theorem run_inserts_BInv (cfg : Cfg) (hR : 1 ≤ cfg.degreeBound) (steps : List (Step D)) (g : Graph) (L : List Id)
    (hWF : WF cfg.degreeBound g L) (hB : BInv cfg.degreeBound g)
    (hall : ∀ st ∈ steps, ∀ c ∈ st.batch, c.hasVector = true)
    (hnd : ((steps.flatMap (·.batch)).map (·.id)).Nodup) (hfr : ∀ st ∈ steps, ∀ c ∈ st.batch, c.id ∉ g.keys)
    (hsmall : (run cfg steps (g, L)).2.length ≤ cfg.degreeBound) :
    BInv cfg.degreeBound (run cfg steps (g, L)).1 := by
  induction steps generalizing g L with
  | nil => exact hB
  | cons st rest ih =>
    have hall' : ∀ st' ∈ rest, ∀ c ∈ st'.batch, c.hasVector = true := fun st' h => hall st' (List.mem_cons_of_mem _ h)
    rw [List.flatMap_cons, List.map_append, List.nodup_append] at hnd
    obtain ⟨hnd1, hnd2, hnd3⟩ := hnd
    unfold run at hsmall ⊢
    split
    · rename_i e he
      rw [he] at hsmall
      exact ih g L hWF hB hall' hnd2 (fun st' h => hfr st' (List.mem_cons_of_mem _ h)) hsmall
    · rename_i g' hg'
      rw [hg'] at hsmall
      simp only at hsmall
      have hWF' := C10_step_aux cfg hR st.ds st.ord g g' L st.batch hWF hg'
      obtain ⟨⟨hkn, _, _, _⟩, hln, hle, hkl, _⟩ := (C10_wf_meaning_aux _ g L).mp hWF
      have hfrL : ∀ c ∈ st.batch, c.id ∉ L := fun c hc hm => hfr st List.mem_cons_self c hc ((hkl _).mpr (Or.inr hm))
      have hL' := liveAfter_inserts L st.batch (hall st List.mem_cons_self) hnd1 hfrL
      have hklen : g.keys.length = L.length + 1 := by
        have : g.keys.Perm (entry :: L) := by
          apply (List.perm_ext_iff_of_nodup hkn (List.nodup_cons.mpr ⟨hle, hln⟩)).mpr
          intro i; rw [hkl i]; simp
        simpa using this.length_eq
      have hmono := run_len_mono cfg rest g' (liveAfter L st.batch) hall'
      have hroom : g.keys.length + st.batch.length ≤ cfg.degreeBound + 1 := by
        have : (liveAfter L st.batch).length = L.length + st.batch.length := by rw [hL']; simp
        omega
      have hB' := apply_inserts_BInv cfg st.ds hR st.ord g g' st.batch hB (hall st List.mem_cons_self) hnd1
        (hfr st List.mem_cons_self) hroom hg'
      apply ih g' _ hWF' hB' hall' hnd2 ?_ hsmall
      intro st' hst' c hc hm
      obtain ⟨_, _, _, hkl', _⟩ := (C10_wf_meaning_aux _ g' _).mp hWF'
      rcases (hkl' c.id).mp hm with h | h
      · exact hfr st' (List.mem_cons_of_mem _ hst') c hc (h ▸ (hkl entry).mpr (Or.inl rfl))
      · rw [hL'] at h
        rcases List.mem_append.mp h with h | h
        · exact hfr st' (List.mem_cons_of_mem _ hst') c hc ((hkl _).mpr (Or.inr h))
        · exact hnd3 c.id h c.id (List.mem_map.mpr ⟨c, List.mem_flatMap.mpr ⟨st', hst', hc⟩, rfl⟩) rfl


/-! ### what a well-formed graph gives the search -/

theorem key_edges_isSome (g : Graph) (i : Id) (h : i ∈ g.keys) : (g.edges i).isSome = true := by
  unfold Graph.edges
  obtain ⟨n, hn, rfl⟩ := List.mem_map.mp h
  cases hf : g.nodes.find? (fun m => m.1 == n.1) with
  | some _ => rfl
  | none =>
    have := List.find?_eq_none.mp hf n hn
    simp at this

/-- what a WF graph guarantees to the search: the entry node has a vector, every point with a vector has a
node, and the points with a vector other than the entry node are exactly the live points carrying the field -/
theorem wf_view (R : Nat) (g : Graph) (L : List Id) (h : WF R g L) :
    g.view.hasVec entry = true ∧ (∀ i, g.view.hasVec i = true → i ∈ g.vecs) ∧
    (∀ i, g.view.hasVec i = true → (g.view.edges i).isSome) ∧ (∀ i, g.view.hasVec i = true → i = entry ∨ i ∈ L) := by
  obtain ⟨⟨_, _, hkv, _⟩, _, _, hkl, _⟩ := (C10_wf_meaning_aux R g L).mp h
  have hv : ∀ i, g.view.hasVec i = true ↔ i ∈ g.vecs := by
    intro i; simp [Graph.view, Graph.hasVec]
  refine ⟨(hv _).mpr ((hkv _).mp ((hkl _).mpr (Or.inl rfl))), fun i hi => (hv i).mp hi, ?_, ?_⟩
  · intro i hi
    exact key_edges_isSome g i ((hkv i).mpr ((hv i).mp hi))
  · intro i hi
    exact (hkl i).mp ((hkv i).mpr ((hv i).mp hi))

end Sema.C03
