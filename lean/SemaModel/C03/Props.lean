/-
C03 — graph (Vamana) vector search returns only live, in-filter points, correctly ranked; exact in two
regimes.  The theorems are about the model of `IndexVamana.Search` / `greedySearch` / `DistSet`
(C03/Model.lean) on a graph that satisfies C10's well-formedness `WF` — which C10_step / C10_history prove for
every history and which the C10 and C03 harnesses evaluate on dumps of the real index.

Distances: an arbitrary linear order `D`; `dq i` is "the index's distance between the query and the stored
vector of point i" (metric or quantised form — whatever `vecStore.DistanceFromFloat(query)` computes; NaN is
excluded by `D` being a linear order); `hyb d` stands for `-1 * d * weight`.
-/
import Mathlib.Data.Nat.Basic
import SemaModel.C03.Lemmas
import SemaModel.Generated.FactsC10
namespace Sema.C03
open Sema.C10

variable {D H : Type} [LinearOrder D]

/-- the safety clauses of the property, for one answer `res` to a query with distance oracle `dq` -/
structure Safe (L : List Id) (dq : Id → D) (hyb : D → H) (limit : Nat) (filter : Option (List Id))
    (res : List (Hit D H)) : Prop where
  /-- only live points that carry the vector field (so: no deleted point, no point without the field, and
  not the entry node, which is not in `L`) -/
  live : ∀ h ∈ res, h.id ∈ L
  /-- only members of the pre-filter -/
  inFilter : ∀ f, filter = some f → ∀ h ∈ res, h.id ∈ f
  /-- no duplicates -/
  nodup : (res.map (·.id)).Nodup
  /-- non-decreasing distance -/
  sorted : res.Pairwise (fun a b => a.dist ≤ b.dist)
  /-- at most `limit` results -/
  len : res.length ≤ limit
  /-- each reported distance is the index's distance between the query and the stored vector -/
  dist : ∀ h ∈ res, h.dist = dq h.id
  /-- the hybrid score is "minus weight times distance" -/
  hybrid : ∀ h ∈ res, h.hybrid = hyb h.dist

/-- C03 (a): on a well-formed graph the search terminates within its fuel (|vectors| + 1 visits), returns
`ok` (never "not found", never out of fuel) and the answer satisfies every safety clause.
Hypothesis `limit ≤ searchSize`: otherwise `greedySearch` rejects the request (see `C03_rejects`). -/
theorem C03_safe (R : Nat) (g : Graph) (L : List Id) (hWF : WF R g L) (dq : Id → D) (hyb : D → H)
    (limit searchSize : Nat) (filter : Option (List Id)) (hk : limit ≤ searchSize) :
    ∃ res, search g.view dq hyb limit searchSize filter (g.vecs.length + 1) = .ok res ∧
      Safe L dq hyb limit filter res := by
  obtain ⟨he, hvecs, hcons, hlive⟩ := wf_view R g L hWF
  obtain ⟨st, _, hI, _, hgs⟩ := greedySearch_ok g.view dq limit searchSize filter g.vecs hk he hvecs hcons
  unfold search
  rw [hgs]
  simp only
  -- the returned set: distinct ids, oracle distances, sorted, (filter mode) inside the filter
  have hrs : DSInv dq g.view.hasVec (resultOf filter st) ∧ SortedD (resultOf filter st).items ∧
      (∀ f, filter = some f → ∀ e ∈ (resultOf filter st).items, e.id ∈ f) := by
    cases filter with
    | none => exact ⟨hI.s, hI.ssorted rfl, by simp⟩
    | some f =>
      obtain ⟨h1, h2, _, h4⟩ := hI.r f rfl
      exact ⟨h1, h2, fun f' hf' => by cases hf'; exact h4⟩
  generalize resultOf filter st = rs at hrs ⊢
  obtain ⟨hds, hsorted, hfilt⟩ := hrs
  refine ⟨_, rfl, ?_⟩
  have hsub : ((rs.items.filter (fun e => e.id != entry)).take limit).Sublist rs.items :=
    (List.take_sublist _ _).trans List.filter_sublist
  have hmem : ∀ e ∈ (rs.items.filter (fun e => e.id != entry)).take limit, e ∈ rs.items ∧ e.id ≠ entry := by
    intro e he
    have := List.mem_filter.mp (List.mem_of_mem_take he)
    exact ⟨this.1, by simpa using this.2⟩
  refine ⟨?_, ?_, ?_, ?_, ?_, ?_, ?_⟩
  · intro h hh
    obtain ⟨e, he, rfl⟩ := List.mem_map.mp hh
    obtain ⟨hm, hne⟩ := hmem e he
    rcases hlive e.id (hds.ok e hm).2 with h1 | h1
    · exact absurd h1 hne
    · exact h1
  · intro f hf h hh
    obtain ⟨e, he, rfl⟩ := List.mem_map.mp hh
    exact hfilt f hf e (hmem e he).1
  · rw [List.map_map]
    exact hds.nodup.sublist (hsub.map _)
  · rw [List.pairwise_map]
    exact List.Pairwise.sublist hsub hsorted
  · simp only [List.length_map]
    exact List.length_take_le _ _
  · intro h hh
    obtain ⟨e, he, rfl⟩ := List.mem_map.mp hh
    exact (hds.ok e (hmem e he).1).1
  · intro h hh
    obtain ⟨e, _, rfl⟩ := List.mem_map.mp hh
    rfl

/-- C03 (a) at the level of the shard, for index schemas over ANY property path (flat or nested): after every
history of write requests (`C10.shardRun`: inserts, updates that replace / delete the top-level object above
the vector leaf or carry a sibling only, deletes, points named several times, rejected requests) from the
empty shard, a search is answered, the answer satisfies every safety clause with respect to the points whose
DOCUMENT carries the field (`C10.fieldIds`, read off the points bucket), and every returned id belongs to a
live point whose document has the field.  `B` is the type of the distances used while building. -/
theorem C03_safe_shard {B : Type} [LT B] [DecidableRel (α := B) (· < ·)]
    (cfg : Cfg) (hR : 1 ≤ cfg.degreeBound) (vp : Path) (steps : List (SStep B))
    (dq : Id → D) (hyb : D → H) (limit searchSize : Nat) (filter : Option (List Id)) (hk : limit ≤ searchSize) :
    ∃ res, search (shardRun cfg vp steps ([], Graph.init)).2.view dq hyb limit searchSize filter
        ((shardRun cfg vp steps ([], Graph.init)).2.vecs.length + 1) = .ok res ∧
      Safe (fieldIds vp (shardRun cfg vp steps ([], Graph.init)).1) dq hyb limit filter res ∧
      (∀ h ∈ res, ∃ d, docOf (shardRun cfg vp steps ([], Graph.init)).1 h.id = some d ∧ hasField vp d = true) := by
  obtain ⟨hk', hwf⟩ := shard_history_aux cfg hR vp steps
  generalize shardRun cfg vp steps ([], Graph.init) = s at hk' hwf ⊢
  obtain ⟨res, hres, hsafe⟩ := C03_safe cfg.degreeBound s.2 (fieldIds vp s.1) hwf dq hyb limit searchSize filter hk
  refine ⟨res, hres, hsafe, ?_⟩
  intro h hh
  have := (mem_fieldIds vp s.1 hk' h.id).mp (hsafe.live h hh)
  unfold fld at this
  cases hd : docOf s.1 h.id with
  | none => simp [hd] at this
  | some d => exact ⟨d, rfl, by simpa [hd] using this⟩

/-- a request whose limit exceeds its search size is rejected ("searchSize must be greater than k") -/
theorem C03_rejects (v : View) (dq : Id → D) (hyb : D → H) (limit searchSize : Nat) (filter : Option (List Id))
    (fuel : Nat) (h : searchSize < limit) :
    search v dq hyb limit searchSize filter fuel = .error .searchSizeLtK := by
  unfold search greedySearch
  simp [h]


/-- C03 (b): a pre-filter with at most `searchSize` members (`f`: the bitmap in iteration order, without
duplicates, not containing the entry node id — point ids start at 2) is answered exactly: the ids of the
answer are the first `limit` entries of a distance-sorted enumeration `E` of the filter members that are live
and carry the field — exact k nearest neighbours up to the order among equidistant points. -/
theorem C03_exact_filter (R : Nat) (g : Graph) (L : List Id) (hWF : WF R g L) (dq : Id → D) (hyb : D → H)
    (limit searchSize : Nat) (f : List Id) (hk : limit ≤ searchSize)
    (hfs : f.length ≤ searchSize) (hfn : f.Nodup) (hfe : entry ∉ f) :
    ∃ (res : List (Hit D H)) (E : List Id), search g.view dq hyb limit searchSize (some f) (g.vecs.length + 1) = .ok res ∧
      E.Perm (f.filter (fun i => decide (i ∈ L))) ∧ E.Pairwise (fun a b => dq a ≤ dq b) ∧
      res.map (·.id) = E.take limit := by
  obtain ⟨he, hvecs, hcons, hlive⟩ := wf_view R g L hWF
  obtain ⟨st, hloop, hI, _, hgs⟩ := greedySearch_ok g.view dq limit searchSize (some f) g.vecs hk he hvecs hcons
  -- the filter-mode invariant at loop exit
  have hF : FInv g.view dq limit searchSize f st := by
    have := loop_induct g.view dq (some f) searchSize
      (fun st => LInv g.view dq (some f) st ∧ FInv g.view dq limit searchSize f st)
      (fun st e es h1 h2 _ => ⟨LInv_step _ _ _ _ st e es h1.1 h2, FInv_step _ _ _ _ _ st e es h1.1 h1.2 h2⟩)
      _ _ st hloop ⟨initState_inv _ _ _ _ _ he, FInv_init _ _ _ _ _⟩
    exact this.1.2
  obtain ⟨⟨hsorted, hlen, hinv, hrest⟩, hseenF, hseeded, hcap⟩ := hF
  -- the candidates: members of the filter with a vector = members that are live and carry the field
  have hfp : filterPoints g.view searchSize f = f.filter g.view.hasVec := by
    unfold filterPoints; rw [List.take_of_length_le hfs]
  have hC : f.filter g.view.hasVec = f.filter (fun i => decide (i ∈ L)) := by
    apply List.filter_congr
    intro i hi
    have hie : i ≠ entry := fun h => hfe (h ▸ hi)
    by_cases hv : g.view.hasVec i = true
    · rcases hlive i hv with h | h
      · exact absurd h hie
      · simp [hv, h]
    · have : i ∉ L := by
        intro hl
        apply hv
        obtain ⟨⟨_, _, hkv, _⟩, _, _, hkl, _⟩ := (C10_wf_meaning_aux R g L).mp hWF
        have : i ∈ g.vecs := (hkv i).mp ((hkl i).mpr (Or.inr hl))
        simpa [Graph.view, Graph.hasVec] using this
      simp [hv, this]
  rw [← hC]
  have hseen_iff : ∀ i, i ∈ st.result.seen ↔ i ∈ f.filter g.view.hasVec := by
    intro i
    constructor
    · intro hi; exact List.mem_filter.mpr (hseenF i hi)
    · intro hi; exact hseeded i (hfp ▸ hi)
  -- the enumeration: what is kept, then the rest sorted by distance
  let ids := st.result.items.map (·.id)
  let le : Id → Id → Bool := fun a b => decide (dq a ≤ dq b)
  let rest := ((f.filter g.view.hasVec).filter (fun i => !ids.contains i)).mergeSort le
  have hrest_mem : ∀ i, i ∈ rest ↔ (i ∈ f.filter g.view.hasVec ∧ i ∉ ids) := by
    intro i
    simp only [rest, List.mem_mergeSort, List.mem_filter, Bool.not_eq_true', List.contains_eq_mem, decide_eq_false_iff_not]
  have hids_sub : ∀ i ∈ ids, i ∈ f.filter g.view.hasVec := by
    intro i hi
    obtain ⟨e, he', rfl⟩ := List.mem_map.mp hi
    exact (hseen_iff _).mp (hinv.sub e he')
  unfold search
  rw [hgs]
  refine ⟨_, ids ++ rest, rfl, ?_, ?_, ?_⟩
  · -- permutation
    apply (List.perm_ext_iff_of_nodup ?_ (hfn.sublist List.filter_sublist)).mpr
    · intro i
      rw [List.mem_append, hrest_mem]
      constructor
      · rintro (h | h)
        · exact hids_sub i h
        · exact h.1
      · intro h
        by_cases hi : i ∈ ids
        · exact Or.inl hi
        · exact Or.inr ⟨h, hi⟩
    · rw [List.nodup_append]
      refine ⟨hinv.nodup, ?_, ?_⟩
      · exact ((List.mergeSort_perm _ _).nodup_iff).mpr ((hfn.sublist List.filter_sublist).sublist List.filter_sublist)
      · intro a ha b hb hab
        subst hab
        exact ((hrest_mem a).mp hb).2 ha
  · -- sorted by distance
    rw [List.pairwise_append]
    refine ⟨?_, ?_, ?_⟩
    · show (st.result.items.map (·.id)).Pairwise _
      rw [List.pairwise_map]
      refine List.Pairwise.imp_of_mem ?_ hsorted
      intro a b ha hb hab
      rw [← (hinv.ok a ha).1, ← (hinv.ok b hb).1]; exact hab
    · have := List.pairwise_mergeSort (le := le)
        (fun a b c h1 h2 => by simp only [le, decide_eq_true_eq] at *; exact le_trans h1 h2)
        (fun a b => by simp only [le, Bool.or_eq_true, decide_eq_true_eq]; exact le_total _ _)
        ((f.filter g.view.hasVec).filter (fun i => !ids.contains i))
      refine List.Pairwise.imp ?_ this
      intro a b hab
      simpa [le] using hab
    · intro a ha b hb
      obtain ⟨e, he', rfl⟩ := List.mem_map.mp ha
      obtain ⟨hb1, hb2⟩ := (hrest_mem b).mp hb
      have := (hrest b ((hseen_iff b).mpr hb1) hb2).2 e he'
      rw [← (hinv.ok e he').1]; exact this
  · -- the answer is the prefix
    have hfilt : (resultOf (some f) st).items.filter (fun e => e.id != entry) = st.result.items := by
      show st.result.items.filter _ = _
      apply List.filter_eq_self.mpr
      intro e he'
      have := (hseenF _ (hinv.sub e he')).1
      have : e.id ≠ entry := fun h => hfe (h ▸ this)
      simpa using this
    rw [hfilt, List.map_map]
    show ((st.result.items.take limit).map (·.id)) = _
    rw [List.map_take]
    show ids.take limit = (ids ++ rest).take limit
    by_cases hr : rest = []
    · rw [hr, List.append_nil]
    · obtain ⟨b, hb⟩ := List.exists_mem_of_ne_nil _ hr
      obtain ⟨hb1, hb2⟩ := (hrest_mem b).mp hb
      have hfull := (hrest b ((hseen_iff b).mpr hb1) hb2).1
      have hl : ids.length = limit := by simp [ids, hfull, hcap]
      rw [List.take_left' hl, List.take_of_length_le (by omega)]


/-- C03 (c), search half: on a well-formed graph in which every node is reachable from the entry node and
which fits into the search window (`|L| < searchSize`, i.e. at most `searchSize − 1` vectors beside the entry
node), the unfiltered search is exact: the answer is the first `limit` entries of a distance-sorted
enumeration of ALL live points carrying the field. -/
theorem C03_exact_connected (R : Nat) (g : Graph) (L : List Id) (hWF : WF R g L) (hconn : ∀ i ∈ g.keys, Reach g i)
    (dq : Id → D) (hyb : D → H) (limit searchSize : Nat) (hk : limit ≤ searchSize) (hroom : L.length < searchSize) :
    ∃ (res : List (Hit D H)) (E : List Id), search g.view dq hyb limit searchSize none (g.vecs.length + 1) = .ok res ∧
      E.Perm L ∧ E.Pairwise (fun a b => dq a ≤ dq b) ∧ res.map (·.id) = E.take limit := by
  obtain ⟨he, hvecs, hcons, hlive⟩ := wf_view R g L hWF
  obtain ⟨⟨hkn, hvn, hkv, hclean⟩, hln, hle, hkl, _⟩ := (C10_wf_meaning_aux R g L).mp hWF
  have hvlen : g.vecs.length ≤ searchSize := by
    have : g.vecs.Perm (entry :: L) := by
      apply (List.perm_ext_iff_of_nodup hvn (List.nodup_cons.mpr ⟨hle, hln⟩)).mpr
      intro i; rw [← hkv i, hkl i]; simp
    have := this.length_eq
    simp at this; omega
  obtain ⟨st, hloop, hI, hnone, hgs⟩ := greedySearch_ok g.view dq limit searchSize none g.vecs hk he hvecs hcons
  have hN0 : NInv g.view dq g.vecs (initState g.view dq limit searchSize none) := by
    have hr0 : Room dq g.view g.vecs (DistSet.new searchSize : DistSet D) :=
      ⟨new_inv dq _ _, by simp [DistSet.new], hvlen⟩
    refine ⟨addWithLimit1_roomInv dq g.view g.vecs hvecs _ entry he hr0, ?_, ?_⟩
    · intro e he' hv
      rcases addWithLimit1_items dq _ entry e he' with h | ⟨h, _⟩
      · simp [DistSet.new] at h
      · rw [h] at hv; simp at hv
    · exact (addWithLimit1_seen dq _ entry entry).mpr (Or.inl rfl)
  have hN : NInv g.view dq g.vecs st := by
    have := loop_induct g.view dq none searchSize (fun st => NInv g.view dq g.vecs st)
      (fun st e es h1 h2 h3 => NInv_step g.view dq g.vecs hvecs none searchSize st e es h1 h2 h3) _ _ st hloop hN0
    exact this.1
  -- at exit everything kept has been visited
  have hids_vec : ∀ i ∈ st.search.items.map (·.id), i ∈ g.vecs := by
    intro i hi
    obtain ⟨e, he', rfl⟩ := List.mem_map.mp hi
    exact hvecs _ (hI.s.ok e he').2
  have hlen : st.search.items.length ≤ searchSize := by
    have := List.Nodup.length_le_of_subset hI.s.nodup hids_vec
    simp at this; omega
  have hallv := nextUnvisited_none searchSize _ hnone hlen
  -- hence every reachable node is kept
  have hreach : ∀ i, Reach g i → i ∈ st.search.items.map (·.id) := by
    intro i hr
    induction hr with
    | entry => exact hN.room.keep _ hN.entrySeen
    | step hr hes ht ih =>
      rename_i i t es
      obtain ⟨e, he', hid⟩ := List.mem_map.mp ih
      have htk : t ∈ g.keys := ((hclean _ (edges_some hes)).1 t ht).2
      have htv : g.view.hasVec t = true := by
        have := (hkv t).mp htk
        simpa [Graph.view, Graph.hasVec] using this
      have hes' : g.view.edges e.id = some es := by rw [hid]; exact hes
      exact hN.room.keep t (hN.closed e he' (hallv e he') es hes' t ht htv)
  have hfilt_mem : ∀ i, i ∈ (st.search.items.filter (fun e => e.id != entry)).map (·.id) ↔ i ∈ L := by
    intro i
    simp only [List.mem_map, List.mem_filter, bne_iff_ne, ne_eq]
    constructor
    · rintro ⟨e, ⟨he', hne⟩, rfl⟩
      rcases hlive e.id (hI.s.ok e he').2 with h | h
      · exact absurd h hne
      · exact h
    · intro hi
      have hik : i ∈ g.keys := (hkl i).mpr (Or.inr hi)
      obtain ⟨e, he', rfl⟩ := List.mem_map.mp (hreach i (hconn i hik))
      exact ⟨e, ⟨he', fun h => hle (h ▸ hi)⟩, rfl⟩
  unfold search
  rw [hgs]
  refine ⟨_, (st.search.items.filter (fun e => e.id != entry)).map (·.id), rfl, ?_, ?_, ?_⟩
  · apply (List.perm_ext_iff_of_nodup ?_ hln).mpr hfilt_mem
    exact hI.s.nodup.sublist (List.filter_sublist.map _)
  · rw [List.pairwise_map]
    have hs : SortedD st.search.items := hI.ssorted rfl
    refine List.Pairwise.imp_of_mem ?_ (List.Pairwise.sublist List.filter_sublist hs)
    intro a b ha hb hab
    rw [← (hI.s.ok a (List.mem_filter.mp ha).1).1, ← (hI.s.ok b (List.mem_filter.mp hb).1).1]; exact hab
  · show List.map _ (List.map _ ((st.search.items.filter _).take limit)) = _
    rw [List.map_map, ← List.map_take]
    rfl


/-- C03 (c): a collection built by inserts only (every change of every batch carries a vector, no point id
occurs twice, ids differ from the entry node's; rejected batches are skipped) that ends with at most
`min(degreeBound, searchSize − 1)` vectors is searched exactly without a filter: during the build every new
node receives a back-edge from an existing node and no prune is ever triggered, so every node stays reachable
from the entry node (`run_inserts_BInv`), and the search window holds the whole collection
(`C03_exact_connected`).  The build search size plays no role.

PARTIAL with respect to the property text (the name is kept because the runner pins required theorem names and
statement hashes; CONVENTIONS would call it `C03_exact_small_partial`): the build is `C10.run` — the insert
workers run one after the other, in batch order — whereas the real code runs NumCPU−1 workers in parallel, and
the statement is over `run` (the change stream), not lifted to `shardRun` / documents.  What is missing for the
full statement: the reachability invariant `BInv` for interleaved `insertSinglePoint`s (two workers that both
read a neighbour's edge list before either appends).  For the real workers the exactness clause is judged on
the real answers by the harness (regime `exact-small`). -/
theorem C03_exact_small (cfg : Cfg) (hR : 1 ≤ cfg.degreeBound) (steps : List (Step D))
    (hall : ∀ st ∈ steps, ∀ c ∈ st.batch, c.hasVector = true)
    (hnd : ((steps.flatMap (·.batch)).map (·.id)).Nodup)
    (hne : ∀ st ∈ steps, ∀ c ∈ st.batch, c.id ≠ entry)
    (dq : Id → D) (hyb : D → H) (limit searchSize : Nat) (hk : limit ≤ searchSize)
    (hsmall : (run cfg steps (Graph.init, [])).2.length ≤ cfg.degreeBound)
    (hroom : (run cfg steps (Graph.init, [])).2.length < searchSize) :
    ∃ (res : List (Hit D H)) (E : List Id),
      search (run cfg steps (Graph.init, [])).1.view dq hyb limit searchSize none
        ((run cfg steps (Graph.init, [])).1.vecs.length + 1) = .ok res ∧
      E.Perm (run cfg steps (Graph.init, [])).2 ∧ E.Pairwise (fun a b => dq a ≤ dq b) ∧
      res.map (·.id) = E.take limit := by
  have hWF := C10_history_aux cfg hR steps
  have hB := run_inserts_BInv cfg hR steps Graph.init [] (by
      unfold WF wfB Graph.init Graph.keys; simp [nodupB, entry]) (BInv_init _) hall hnd
    (fun st hst c hc hm => hne st hst c hc (by simpa [Graph.init, Graph.keys] using hm)) hsmall
  exact C03_exact_connected cfg.degreeBound _ _ hWF hB.conn dq hyb limit searchSize hk hroom


/-! ### T2: syntactic facts of the source, regenerated on every check (tools/facts_c10) -/

/-- the entry node id; point node ids start above it (so a pre-filter never contains the entry node) -/
example : Sema.Gen.FactsC10.startId = entry ∧ entry < Sema.Gen.FactsC10.firstPointId := by decide

/-- `IndexVamana.Search` skips the entry node before it tests the limit, as `search` does -/
example : Sema.Gen.FactsC10.searchCuts = ["skipEntry", "limitCut"] := by decide

/-- `C03_safe_shard` rests on `C10.pstep` / `changeOf`: only a missing point is withheld from the indices, the
dispatcher asks `getOperation` for every schema key with both documents and skips only on `opSkip`
(the same facts are pinned, one by one, in C10/Props.lean) -/
example : Sema.Gen.FactsC10.insertSkips = [] ∧
    Sema.Gen.FactsC10.updateSkips = ["b4 == pointstore.ErrPointDoesNotExist"] ∧
    Sema.Gen.FactsC10.deleteSkips = ["b4 == pointstore.ErrPointDoesNotExist"] ∧
    Sema.Gen.FactsC10.updateChange = ["NodeId", "PreviousData", "NewData"] ∧
    Sema.Gen.FactsC10.dispatchRange = "a2 of v1.indexSchema" ∧
    Sema.Gen.FactsC10.dispatchOperationArgs = ["v7", "a2", "a1.PreviousData", "a1.NewData"] ∧
    Sema.Gen.FactsC10.dispatchSkips = ["a6 == opSkip"] := by decide

/-! ### non-vacuity: the hypotheses of the theorems hold on concrete non-trivial states -/

/-- build distances of the examples: |a − b| on the ids, alpha = 2 -/
def exDists : Dists Nat :=
  { q := fun a b => if a ≤ b then b - a else a - b, p := fun a b => if a ≤ b then b - a else a - b,
    ap := fun a b => 2 * (if a ≤ b then b - a else a - b) }

/-- a history with inserts, a vector update and a delete; degree bound 2, build search size 3 -/
def exSteps : List (Step Nat) :=
  [⟨exDists, [], [⟨2, true⟩, ⟨3, true⟩]⟩, ⟨exDists, [], [⟨4, true⟩, ⟨5, true⟩, ⟨6, true⟩, ⟨7, true⟩]⟩,
   ⟨exDists, [], [⟨3, true⟩, ⟨4, false⟩]⟩]

def exState : Graph × List Id := run ⟨2, 3⟩ exSteps (Graph.init, [])

/-- query distances of the examples: |i − 4|, hybrid = the distance itself -/
def exDq : Id → Nat := fun i => if i ≤ 4 then 4 - i else i - 4

/-- C03_safe / C03_exact_filter: a well-formed 6-node graph after a mixed history, a filter of 3 members
(one of them without a node) within search size 3; the model returns the two nearest members -/
example : WF 2 exState.1 exState.2 ∧ exState.2 = [2, 3, 5, 6, 7] ∧ (2 : Nat) ≤ 3 ∧ [3, 4, 7].length ≤ 3 ∧
    [3, 4, 7].Nodup ∧ entry ∉ [3, 4, 7] ∧
    search (H := Nat) exState.1.view exDq id 2 3 (some [3, 4, 7]) (exState.1.vecs.length + 1) =
      .ok [⟨3, 1, 1⟩, ⟨7, 3, 3⟩] := by decide

/-- C03_safe without a filter on the same graph — the approximate regime: after the delete of point 4 under
degree bound 2 the nodes 5, 6, 7 only point at each other (they keep inbound edges, so nothing is rescued) and
the answer holds the two reachable points only; every safety clause holds, exactness is not claimed here -/
example : search (H := Nat) exState.1.view exDq id 3 3 none (exState.1.vecs.length + 1) =
    .ok [⟨3, 1, 1⟩, ⟨2, 2, 2⟩] := by decide

/-- C03_exact_small: an insert-only history of 3 points with degree bound 3, searched with search size 4 -/
def exInsertOnly : List (Step Nat) :=
  [⟨exDists, [], [⟨2, true⟩]⟩, ⟨exDists, [], [⟨7, true⟩, ⟨5, true⟩]⟩]

example : (∀ st ∈ exInsertOnly, ∀ c ∈ st.batch, c.hasVector = true) ∧
    ((exInsertOnly.flatMap (·.batch)).map (·.id)).Nodup ∧ (∀ st ∈ exInsertOnly, ∀ c ∈ st.batch, c.id ≠ entry) ∧
    (run ⟨3, 2⟩ exInsertOnly (Graph.init, [])).2 = [2, 7, 5] ∧
    search (H := Nat) (run ⟨3, 2⟩ exInsertOnly (Graph.init, [])).1.view exDq id 2 4 none 5 = .ok [⟨5, 1, 1⟩, ⟨2, 2, 2⟩] := by
  decide

end Sema.C03
