/-
C03 — graph (Vamana) vector search returns only live, in-filter points, correctly ranked; exact in two
regimes.  The theorems are about the model of `IndexVamana.Search` / `greedySearch` / `DistSet`
(C03/Model.lean) on a graph that satisfies C10's well-formedness `WF` — which C10_step / C10_history prove for
every history and which the C10 and C03 harnesses evaluate on dumps of the real index.

Distances: an arbitrary linear order `D`; `dq i` is "the index's distance between the query and the stored
vector of point i" (metric or quantised form — whatever `vecStore.DistanceFromFloat(query)` computes; NaN is
excluded by `D` being a linear order); `hyb d` stands for `-1 * d * weight`.
-/
import SemaModel.C03.Lemmas
namespace Sema.C03
open Sema.C10

variable {D H : Type} [LinearOrder D]

theorem key_edges_isSome (g : Graph) (i : Id) (h : i ∈ g.keys) : (g.edges i).isSome = true := by
  unfold Graph.edges
  obtain ⟨n, hn, rfl⟩ := List.mem_map.mp h
  cases hf : g.nodes.find? (fun m => m.1 == n.1) with
  | some _ => rfl
  | none =>
    have := List.find?_eq_none.mp hf n hn
    simp at this

/-- what a WF graph guarantees to the search: the entry node has a vector, every point with a vector has a
node, and the points with a vector other than the entry node are exactly the live points carrying the field -/
theorem wf_view (R : Nat) (g : Graph) (L : List Id) (h : WF R g L) :
    g.view.hasVec entry = true ∧ (∀ i, g.view.hasVec i = true → i ∈ g.vecs) ∧
    (∀ i, g.view.hasVec i = true → (g.view.edges i).isSome) ∧ (∀ i, g.view.hasVec i = true → i = entry ∨ i ∈ L) := by
  obtain ⟨⟨_, _, hkv, _⟩, _, _, hkl, _⟩ := (C10_wf_meaning_aux R g L).mp h
  have hv : ∀ i, g.view.hasVec i = true ↔ i ∈ g.vecs := by
    intro i; simp [Graph.view, Graph.hasVec]
  refine ⟨(hv _).mpr ((hkv _).mp ((hkl _).mpr (Or.inl rfl))), fun i hi => (hv i).mp hi, ?_, ?_⟩
  · intro i hi
    exact key_edges_isSome g i ((hkv i).mpr ((hv i).mp hi))
  · intro i hi
    exact (hkl i).mp ((hkv i).mpr ((hv i).mp hi))

/-- the safety clauses of the property, for one answer `res` to a query with distance oracle `dq` -/
structure Safe (L : List Id) (dq : Id → D) (hyb : D → H) (limit : Nat) (filter : Option (List Id))
    (res : List (Hit D H)) : Prop where
  /-- only live points that carry the vector field (so: no deleted point, no point without the field, and
  not the entry node, which is not in `L`) -/
  live : ∀ h ∈ res, h.id ∈ L
  /-- only members of the pre-filter -/
  inFilter : ∀ f, filter = some f → ∀ h ∈ res, h.id ∈ f
  /-- no duplicates -/
  nodup : (res.map (·.id)).Nodup
  /-- non-decreasing distance -/
  sorted : res.Pairwise (fun a b => a.dist ≤ b.dist)
  /-- at most `limit` results -/
  len : res.length ≤ limit
  /-- each reported distance is the index's distance between the query and the stored vector -/
  dist : ∀ h ∈ res, h.dist = dq h.id
  /-- the hybrid score is "minus weight times distance" -/
  hybrid : ∀ h ∈ res, h.hybrid = hyb h.dist

/-- C03 (a): on a well-formed graph the search terminates within its fuel (|vectors| + 1 visits), returns
`ok` (never "not found", never out of fuel) and the answer satisfies every safety clause.
Hypothesis `limit ≤ searchSize`: otherwise `greedySearch` rejects the request (see `C03_rejects`). -/
theorem C03_safe (R : Nat) (g : Graph) (L : List Id) (hWF : WF R g L) (dq : Id → D) (hyb : D → H)
    (limit searchSize : Nat) (filter : Option (List Id)) (hk : limit ≤ searchSize) :
    ∃ res, search g.view dq hyb limit searchSize filter (g.vecs.length + 1) = .ok res ∧
      Safe L dq hyb limit filter res := by
  obtain ⟨he, hvecs, hcons, hlive⟩ := wf_view R g L hWF
  obtain ⟨st, _, hI, _, hgs⟩ := greedySearch_ok g.view dq limit searchSize filter g.vecs hk he hvecs hcons
  unfold search
  rw [hgs]
  simp only
  -- the returned set: distinct ids, oracle distances, sorted, (filter mode) inside the filter
  have hrs : DSInv dq g.view.hasVec (resultOf filter st) ∧ SortedD (resultOf filter st).items ∧
      (∀ f, filter = some f → ∀ e ∈ (resultOf filter st).items, e.id ∈ f) := by
    cases filter with
    | none => exact ⟨hI.s, hI.ssorted rfl, by simp⟩
    | some f =>
      obtain ⟨h1, h2, _, h4⟩ := hI.r f rfl
      exact ⟨h1, h2, fun f' hf' => by cases hf'; exact h4⟩
  generalize resultOf filter st = rs at hrs ⊢
  obtain ⟨hds, hsorted, hfilt⟩ := hrs
  refine ⟨_, rfl, ?_⟩
  have hsub : ((rs.items.filter (fun e => e.id != entry)).take limit).Sublist rs.items :=
    (List.take_sublist _ _).trans List.filter_sublist
  have hmem : ∀ e ∈ (rs.items.filter (fun e => e.id != entry)).take limit, e ∈ rs.items ∧ e.id ≠ entry := by
    intro e he
    have := List.mem_filter.mp (List.mem_of_mem_take he)
    exact ⟨this.1, by simpa using this.2⟩
  refine ⟨?_, ?_, ?_, ?_, ?_, ?_, ?_⟩
  · intro h hh
    obtain ⟨e, he, rfl⟩ := List.mem_map.mp hh
    obtain ⟨hm, hne⟩ := hmem e he
    rcases hlive e.id (hds.ok e hm).2 with h1 | h1
    · exact absurd h1 hne
    · exact h1
  · intro f hf h hh
    obtain ⟨e, he, rfl⟩ := List.mem_map.mp hh
    exact hfilt f hf e (hmem e he).1
  · rw [List.map_map]
    exact hds.nodup.sublist (hsub.map _)
  · rw [List.pairwise_map]
    exact List.Pairwise.sublist hsub hsorted
  · simp only [List.length_map]
    exact List.length_take_le _ _
  · intro h hh
    obtain ⟨e, he, rfl⟩ := List.mem_map.mp hh
    exact (hds.ok e (hmem e he).1).1
  · intro h hh
    obtain ⟨e, _, rfl⟩ := List.mem_map.mp hh
    rfl

/-- a request whose limit exceeds its search size is rejected ("searchSize must be greater than k") -/
theorem C03_rejects (v : View) (dq : Id → D) (hyb : D → H) (limit searchSize : Nat) (filter : Option (List Id))
    (fuel : Nat) (h : searchSize < limit) :
    search v dq hyb limit searchSize filter fuel = .error .searchSizeLtK := by
  unfold search greedySearch
  simp [h]

end Sema.C03
