/-
C03 — executable model of the Vamana search path (shard/index/vamana/{distset,search,vamana}.go).
Core-only (linked into the driver).

Distances are elements of an arbitrary type `D` with a decidable `<` (DESIGN 3.2): the model never
computes a distance, it calls the oracle `dq : Id → D` ("distance from the query to the stored vector
of point id", i.e. `vecStore.DistanceFromFloat(query)`).  The theorems (Props.lean) hold for every
linear order; the driver instantiates `D := Nat` with the order-preserving image of float32 bits and
gets the values from the real distance functions.

The graph is seen through a `View` (what `nodeStore.Get` / `vecStore.GetMany` answer); C10's `Graph`
provides one.
-/
namespace Sema.C03

abbrev Id := Nat

/-- `vamana.STARTID` -/
def entry : Id := 1

/-- `DistSetElem` (the `pruneRemoved` flag lives in `C10.robustPrune`, the only place using it) -/
structure Elem (D : Type) where
  id : Id
  dist : D
  visited : Bool := false
  deriving Repr, DecidableEq

/-- `DistSet`: bounded array + visited set.  `cap` is `cap(ds.items)` (fixed: no `Add` in the code
ever grows a set that is later used with `AddWithLimit` beyond its capacity). -/
structure DistSet (D : Type) where
  items : List (Elem D) := []
  cap : Nat
  seen : List Id := []
  sortedUntil : Nat := 0
  deriving Repr

inductive Err where
  | searchSizeLtK          -- "searchSize must be greater than k"
  | noStart                -- "failed to get start point"
  | noNode (id : Id)       -- "failed to get node for neighbours" / "could not get neighbour point"
  | fuel                   -- never returned on a well-formed graph (C03_safe)
  | badId (id : Id)        -- change names id 0 or the entry node
  | noExpand (id : Id)     -- "no neighbours to be deleted for point"
  deriving Repr, DecidableEq

section
variable {D : Type} [LT D] [DecidableRel (α := D) (· < ·)]

/-- The inner loop of `AddWithLimit` / `Sort`:
`for i := len-1; i > 0 && items[i].Distance < items[i-1].Distance; i-- { swap }` applied to
`xs ++ [e]`: `e` moves left past the longest suffix of `xs` whose members are all strictly farther. -/
def bubble (e : Elem D) : List (Elem D) → List (Elem D)
  | [] => [e]
  | x :: xs =>
    if (x :: xs).all (fun y => decide (e.dist < y.dist)) then e :: x :: xs else x :: bubble e xs

def DistSet.new (cap : Nat) : DistSet D := { cap := cap }

/-- one iteration of `AddWithLimit` -/
def DistSet.addWithLimit1 (dq : Id → D) (ds : DistSet D) (p : Id) : DistSet D :=
  if ds.seen.contains p then ds            -- CheckAndVisit
  else
    let ds := { ds with seen := p :: ds.seen }
    let e : Elem D := { id := p, dist := dq p }
    if ds.items.length == ds.cap then
      match ds.items.getLast? with
      | none => ds        -- cap = 0: the Go code panics (items[-1]); outside the validated domain
      | some l =>
        if l.dist < e.dist then ds
        else { ds with items := bubble e ds.items.dropLast }
    else if ds.items.length < ds.cap then
      { ds with items := bubble e ds.items, sortedUntil := ds.sortedUntil + 1 }
    else { ds with items := bubble e ds.items.dropLast }

def DistSet.addWithLimit (dq : Id → D) (ds : DistSet D) (ps : List Id) : DistSet D :=
  ps.foldl (DistSet.addWithLimit1 dq) ds

/-- one iteration of `Add` -/
def DistSet.add1 (dq : Id → D) (ds : DistSet D) (p : Id) : DistSet D :=
  if ds.seen.contains p then ds
  else { ds with seen := p :: ds.seen, items := ds.items ++ [{ id := p, dist := dq p }] }

def DistSet.add (dq : Id → D) (ds : DistSet D) (ps : List Id) : DistSet D :=
  ps.foldl (DistSet.add1 dq) ds

/-- `Sort`: insertion sort of the part after `sortedUntil` -/
def sortFrom (n : Nat) (items : List (Elem D)) : List (Elem D) :=
  (items.drop n).foldl (fun acc e => bubble e acc) (items.take n)

def DistSet.sort (ds : DistSet D) : DistSet D :=
  { ds with items := sortFrom ds.sortedUntil ds.items, sortedUntil := ds.items.length }

/-- what the stores answer: `edges i = nodeStore.Get(i)` (none = ErrNotFound), `hasVec i` = the
vector store has a point i (`GetMany` silently drops the others) -/
structure View where
  edges : Id → Option (List Id)
  hasVec : Id → Bool

structure GState (D : Type) where
  search : DistSet D
  result : DistSet D          -- the separate result set `ds`, used only when a filter is given
  visited : List (Elem D)     -- `visitedSet.items`

def markVisited (id : Id) (items : List (Elem D)) : List (Elem D) :=
  items.map (fun x => if x.id == id then { x with visited := true } else x)

/-- the first not yet visited element among the first `min(len, searchSize)` (the `i++` scan) -/
def nextUnvisited (searchSize : Nat) (items : List (Elem D)) : Option (Elem D) :=
  (items.take (min items.length searchSize)).find? (fun e => !e.visited)

/-- the main loop of `greedySearch`; one unit of fuel per visited node -/
def loop (v : View) (dq : Id → D) (filter : Option (List Id)) (searchSize : Nat) :
    Nat → GState D → Except Err (GState D)
  | 0, _ => .error .fuel
  | fuel + 1, st =>
    match nextUnvisited searchSize st.search.items with
    | none => .ok st
    | some e =>
      match v.edges e.id with
      | none => .error (.noNode e.id)
      | some es =>
        let visited := st.visited ++ [e]                                   -- AddAlreadyUnique
        let s1 := { st.search with items := markVisited e.id st.search.items }
        let s2 := s1.addWithLimit dq (es.filter v.hasVec)                  -- LoadNeighbours + AddWithLimit
        let r := match filter with
          | some f => if f.contains e.id then st.result.addWithLimit1 dq e.id else st.result
          | none => st.result
        loop v dq filter searchSize fuel { search := s2, result := r, visited := visited }

/-- `greedySearch(query, k, searchSize, filter)`; `filter` is the bitmap in iteration (ascending) order.
Returns (`*resultSet`, sorted `visitedSet.items`). -/
def greedySearch (v : View) (dq : Id → D) (k searchSize : Nat) (filter : Option (List Id)) (fuel : Nat) :
    Except Err (DistSet D × List (Elem D)) :=
  if searchSize < k then .error .searchSizeLtK
  else
    let searchSet : DistSet D := DistSet.new searchSize
    let (searchSet, resultSet) := match filter with
      | none => (searchSet, DistSet.new k)
      | some f =>
        let filterPoints := (f.take searchSize).filter v.hasVec           -- GetMany(filterK...)
        (searchSet.add dq filterPoints, (DistSet.new k).addWithLimit dq filterPoints)
    if !v.hasVec entry then .error .noStart
    else
      let searchSet := searchSet.addWithLimit1 dq entry
      match loop v dq filter searchSize fuel { search := searchSet, result := resultSet, visited := [] } with
      | .error e => .error e
      | .ok st =>
        let res := match filter with | none => st.search | some _ => st.result
        .ok (res, sortFrom 0 st.visited)

/-- one `models.SearchResult`: node id, distance, hybrid score -/
structure Hit (D H : Type) where
  id : Id
  dist : D
  hybrid : H
  deriving Repr, DecidableEq

/-- `IndexVamana.Search`: the entry node is skipped, the list is cut at `limit`;
`hyb d` stands for `-1 * d * weight`. -/
def search {H : Type} (v : View) (dq : Id → D) (hyb : D → H) (limit searchSize : Nat)
    (filter : Option (List Id)) (fuel : Nat) : Except Err (List (Hit D H)) :=
  match greedySearch v dq limit searchSize filter fuel with
  | .error e => .error e
  | .ok (rs, _) =>
    .ok (((rs.items.filter (fun e => e.id != entry)).take limit).map
      (fun e => { id := e.id, dist := e.dist, hybrid := hyb e.dist }))

end
end Sema.C03
