/-
C03 — the hybrid score of the graph search, from the definitions generated from shard/index/vamana/vamana.go
(SemaModel/Generated/Hybrid.lean).  Core-only: the driver evaluates it (`hyb vamana` op lines); the theorems
about it are in Formula.lean.
-/
import SemaModel.Generated.Hybrid
namespace Sema.C03
open Sema Sema.Go Sema.Gen

/-- the hybrid score `IndexVamana.Search` reports for a distance `d` and the optional query weight `w` -/
def hybridGen (w : Option FExpr) (d : FExpr) : FExpr := Hybrid.vamana_hybrid ⟨d⟩ (Hybrid.vamana_weight ⟨w⟩)

end Sema.C03
