/-
C03 — the tie between the hand-written `DistSet` of `C03/Model.lean` (`bubble`, `addWithLimit1`,
`addWithLimit`, `add1`, `add`, `sortFrom`, `sort`) and the source.
`SemaModel/Generated/DistSet.lean` is produced from `shard/index/vamana/distset.go`
(`DistSet.Len`, `AddWithLimit`, `Add`, `AddAlreadyUnique`, `Sort`) by `tools/go2lean` on every check run.

What stays abstract in the generated definitions (parameters / type parameters):
  * `VPoint` — `vectorstore.VectorStorePoint` (an interface), with its method `VPoint_Id : VPoint → BitVec 64`;
  * `VSet` — the `visitedSet` interface, with its *mutating* method
    `VSet_CheckAndVisit : VSet → BitVec 64 → Bool × VSet` (answer, new state);
  * `D` — `float32`, any type with a decidable `<` (Go's `a > b` is translated as `b < a`, exact for IEEE
    values, NaN included; the C03 model is stated for the same class of `D`, no order laws are assumed);
  * `ds.distFn : VPoint → D` is a field of the generated structure;
  * `cap(ds.items)` is the ghost field `items_cap` (an `append` that fits keeps it, one that does not fit
    sets it to the abstract `growCap oldCap newLen`).

Representation maps: the visited set is instantiated with the model's `seen : List Id`
(`cav s id = (s.contains id, if s.contains id then s else id :: s)`: what both `VisitedMap` and
`VisitedBitSet` implement — assumed, they are not translated); an element is read as
`toElem e = ⟨(pid e.Point).toNat, e.Distance, e.visited⟩` (the model has no `pruneRemoved`: that flag lives in
`C10.robustPrune`), a set as `toModel g = ⟨g.items.map toElem, g.items_cap.toNat, g.set, g.sortedUntil.toNat⟩`;
the distance oracle `dq : Id → D` of the model is any function with `g.distFn p = dq (pid p).toNat`.
-/
import SemaModel.C03.Model
import SemaModel.Generated.DistSet
namespace Sema.C03
open Sema
open Sema.Gen.DistSet (DistSetElem DistSet_Len DistSet_AddWithLimit DistSet_AddWithLimit_loop1 DistSet_AddWithLimit_loop2
  DistSet_Add DistSet_AddAlreadyUnique DistSet_Sort DistSet_Sort_loop1 DistSet_Sort_loop2)

section
variable {VPoint D : Type} [Inhabited VPoint] [Inhabited D] [LT D] [DecidableRel (α := D) (· < ·)]

/-- the generated element / set types, the visited set being the model's list of seen ids -/
abbrev GE (VPoint D : Type) := DistSetElem VPoint D
abbrev GS (VPoint D : Type) := Gen.DistSet.DistSet VPoint (List Id) D

/-- `CheckAndVisit` on the model's `seen` list -/
def cav : List Id → BitVec 64 → Bool × List Id :=
  fun s id => (s.contains id.toNat, if s.contains id.toNat then s else id.toNat :: s)

def toElem (pid : VPoint → BitVec 64) (e : GE VPoint D) : Elem D :=
  { id := (pid e.Point).toNat, dist := e.Distance, visited := e.visited }

def toModel (pid : VPoint → BitVec 64) (g : GS VPoint D) : DistSet D :=
  { items := g.items.map (toElem pid), cap := g.items_cap.toNat, seen := g.set, sortedUntil := g.sortedUntil.toNat }

/-- `f <$> out` -/
def outMap {α β : Type} (f : α → β) : Go.Out α → Go.Out β
  | .ret a => .ret (f a)
  | .outOfFuel => .outOfFuel

namespace Tie

/-- `bubble` on generated elements -/
def bubbleG (e : GE VPoint D) : List (GE VPoint D) → List (GE VPoint D)
  | [] => [e]
  | x :: xs =>
    if (x :: xs).all (fun y => decide (e.Distance < y.Distance)) then e :: x :: xs else x :: bubbleG e xs

theorem map_bubbleG (pid : VPoint → BitVec 64) (e : GE VPoint D) (l : List (GE VPoint D)) :
    (bubbleG e l).map (toElem pid) = bubble (toElem pid e) (l.map (toElem pid)) := by
  induction l with
  | nil => rfl
  | cons x xs ih =>
    have hall : ((x :: xs).map (toElem pid)).all (fun y => decide ((toElem pid e).dist < y.dist)) =
        (x :: xs).all (fun y => decide (e.Distance < y.Distance)) := by
      rw [List.all_map]; rfl
    simp only [List.map_cons] at hall
    simp only [bubbleG, List.map_cons, bubble, hall]
    split
    · simp
    · simp [ih]

omit [Inhabited VPoint] [Inhabited D] in
theorem bubbleG_snoc (e x : GE VPoint D) (l : List (GE VPoint D)) :
    bubbleG e (l ++ [x]) = if e.Distance < x.Distance then bubbleG e l ++ [x] else l ++ [x, e] := by
  induction l with
  | nil => by_cases h : e.Distance < x.Distance <;> simp [bubbleG, h]
  | cons y l ih =>
    by_cases h : e.Distance < x.Distance
    · simp only [h, if_true] at ih ⊢
      by_cases hy : (y :: l).all (fun z => decide (e.Distance < z.Distance)) = true
      · have : (y :: (l ++ [x])).all (fun z => decide (e.Distance < z.Distance)) = true := by
          simp only [List.all_cons, List.all_append, List.all_nil, Bool.and_true] at hy ⊢
          simp [hy, h]
        simp [bubbleG, this, hy]
      · have : ¬ (y :: (l ++ [x])).all (fun z => decide (e.Distance < z.Distance)) = true := by
          intro hh
          apply hy
          simp only [List.all_cons, List.all_append, Bool.and_eq_true] at hh ⊢
          exact ⟨hh.1, hh.2.1⟩
        simp [bubbleG, this, hy, ih]
    · simp only [h, if_false] at ih ⊢
      have : ¬ (y :: (l ++ [x])).all (fun z => decide (e.Distance < z.Distance)) = true := by
        intro hh
        simp only [List.all_cons, List.all_append, List.all_nil, Bool.and_true, Bool.and_eq_true, decide_eq_true_eq] at hh
        exact h hh.2.2
      simp [bubbleG, this, ih]

theorem getI_mid {α : Type} [Inhabited α] (a c : List α) (b : α) (k : Int) (hk : k = a.length) :
    Go.getI (a ++ b :: c) k = b := by
  subst hk
  have h0 : ¬ ((a.length : Int) < 0) := by omega
  simp [Go.getI, h0, List.getD_eq_getElem?_getD]

theorem setI_mid {α : Type} (a c : List α) (b v : α) (k : Int) (hk : k = a.length) :
    Go.setI (a ++ b :: c) k v = a ++ v :: c := by
  subst hk
  have h0 : ¬ ((a.length : Int) < 0) := by omega
  simp [Go.setI, h0]

/-- **the insertion loop of `AddWithLimit` is `bubble`**: started at the element `e` that follows the prefix
`rpre.reverse`, with the fuel the translator computed (`Go.countFuel 0 i`) or more, it ends with `e`
bubbled into the prefix; nothing after `e` is touched -/
theorem loop2_eq (e : GE VPoint D) : ∀ (rpre post : List (GE VPoint D)) (fuel : Nat) (ds : GS VPoint D),
    ds.items = rpre.reverse ++ e :: post → rpre.length + 1 ≤ fuel →
    ∃ j, DistSet_AddWithLimit_loop2 fuel ds (rpre.length : Int) =
      .next ({ ds with items := bubbleG e rpre.reverse ++ post }, j) := by
  intro rpre
  induction rpre with
  | nil =>
    intro post fuel ds hi hf
    obtain ⟨f, rfl⟩ : ∃ f, fuel = f + 1 := ⟨fuel - 1, by omega⟩
    obtain ⟨items, cap, set, fn, su⟩ := ds
    simp only at hi
    subst hi
    exact ⟨0, by simp [DistSet_AddWithLimit_loop2, bubbleG]⟩
  | cons x r ih =>
    intro post fuel ds hi hf
    obtain ⟨f, rfl⟩ : ∃ f, fuel = f + 1 := ⟨fuel - 1, by simp at hf; omega⟩
    obtain ⟨items, cap, set, fn, su⟩ := ds
    simp only at hi
    subst hi
    have e1 : (x :: r).reverse ++ e :: post = (r.reverse ++ [x]) ++ e :: post := by simp
    have e2 : (x :: r).reverse ++ e :: post = r.reverse ++ x :: (e :: post) := by simp
    have hlen : ((x :: r).length : Int) = (r.length : Int) + 1 := by simp
    have hm1 : (r.length : Int) + 1 - 1 = (r.length : Int) := by omega
    have hge : Go.getI ((x :: r).reverse ++ e :: post) ((r.length : Int) + 1) = e := by
      rw [e1]; exact getI_mid _ _ _ _ (by simp)
    have hgx : Go.getI ((x :: r).reverse ++ e :: post) (r.length : Int) = x := by
      rw [e2]; exact getI_mid _ _ _ _ (by simp)
    have hpos : ((r.length : Int) + 1 > 0) := by omega
    rw [hlen]
    simp only [DistSet_AddWithLimit_loop2, hm1, hge, hgx, hpos, decide_true, Bool.true_and]
    by_cases hlt : e.Distance < x.Distance
    · simp only [hlt, decide_true, if_true]
      have hs1 : Go.setI ((x :: r).reverse ++ e :: post) ((r.length : Int) + 1) x = r.reverse ++ x :: (x :: post) := by
        rw [e1, setI_mid _ _ _ _ _ (by simp)]; simp
      have hs2 : Go.setI (r.reverse ++ x :: (x :: post)) (r.length : Int) e = r.reverse ++ e :: (x :: post) :=
        setI_mid _ _ _ _ _ (by simp)
      rw [hs1, hs2]
      obtain ⟨j, hj⟩ := ih (x :: post) f ⟨r.reverse ++ e :: (x :: post), cap, set, fn, su⟩ rfl (by simp at hf; omega)
      refine ⟨j, ?_⟩
      rw [hj]
      simp [bubbleG_snoc, hlt]
    · refine ⟨(r.length : Int) + 1, ?_⟩
      simp only [hlt, decide_false]
      simp [bubbleG_snoc, hlt]

theorem snoc_cases {α : Type} (l : List α) : l = [] ∨ ∃ init x, l = init ++ [x] := by
  induction l with
  | nil => exact .inl rfl
  | cons a l ih =>
    rcases ih with rfl | ⟨init, x, rfl⟩
    · exact .inr ⟨[], a, rfl⟩
    · exact .inr ⟨a :: init, x, rfl⟩

/-- what the loops preserve: the distance function is the oracle, capacity and `sortedUntil` are not negative -/
structure Inv (pid : VPoint → BitVec 64) (dq : Id → D) (g : GS VPoint D) : Prop where
  dist : ∀ p, g.distFn p = dq (pid p).toNat
  cap : 0 ≤ g.items_cap
  su : 0 ≤ g.sortedUntil

/-- the statements after the element was stored at the end: the insertion loop with the translator's fuel, then
the continuation -/
theorem loop2_tail {τ : Type} (newE : GE VPoint D) (pre : List (GE VPoint D)) (c : Int) (sn : List Id) (fn : VPoint → D)
    (su : Int) (K : GS VPoint D × Int → Go.Ctl τ (GS VPoint D)) (hK : ∀ g i j, K (g, i) = K (g, j)) :
    (DistSet_AddWithLimit_loop2 (Go.countFuel 0 (Go.len (pre ++ [newE]) - 1)) ⟨pre ++ [newE], c, sn, fn, su⟩
        (Go.len (pre ++ [newE]) - 1)).andThen K = K (⟨bubbleG newE pre, c, sn, fn, su⟩, 0) := by
  have hidx : Go.len (pre ++ [newE]) - 1 = (pre.reverse.length : Int) := by simp [Go.len]
  obtain ⟨j, hj⟩ := loop2_eq newE pre.reverse [] (Go.countFuel 0 (pre.reverse.length : Int)) ⟨pre ++ [newE], c, sn, fn, su⟩
    (by simp) (by simp [Go.countFuel])
  rw [hidx, hj]
  simp only [Go.Ctl.andThen, List.reverse_reverse, List.append_nil]
  exact hK _ _ _

/-- one iteration of the `range` loop of `AddWithLimit` is `addWithLimit1` -/
theorem awl_step (pid : VPoint → BitVec 64) (growCap : Int → Int → Int) (dq : Id → D) (g : GS VPoint D) (p : VPoint)
    (h : Inv pid dq g) :
    ∃ g1, (∀ rest, DistSet_AddWithLimit_loop1 pid cav growCap (p :: rest) g =
              DistSet_AddWithLimit_loop1 pid cav growCap rest g1) ∧
      toModel pid g1 = (toModel pid g).addWithLimit1 dq (pid p).toNat ∧ Inv pid dq g1 := by
  obtain ⟨items, cap, seen, fn, su⟩ := g
  obtain ⟨hd, hc, hs⟩ := h
  simp only at hd hc hs
  by_cases hseen : seen.contains (pid p).toNat = true
  · have hmem : (pid p).toNat ∈ seen := by simpa using hseen
    refine ⟨⟨items, cap, seen, fn, su⟩, ?_, ?_, ⟨hd, hc, hs⟩⟩
    · intro rest
      simp [DistSet_AddWithLimit_loop1, cav, hmem]
    · simp [toModel, DistSet.addWithLimit1, hmem]
  · have hmem : (pid p).toNat ∉ seen := by simpa using hseen
    have hseen' : seen.contains (pid p).toNat = false := by simpa using hseen
    have hcapnat : ((cap.toNat : Nat) : Int) = cap := Int.toNat_of_nonneg hc
    -- the element that is stored
    generalize hnew : (⟨p, fn p, false, false⟩ : GE VPoint D) = newE
    have hnewD : newE.Distance = fn p := by rw [← hnew]
    have hnewM : toElem pid newE = { id := (pid p).toNat, dist := dq (pid p).toNat } := by
      rw [← hnew]; simp [toElem, hd]
    have hlen : Go.len items = (items.length : Int) := rfl
    rcases Int.lt_trichotomy (items.length : Int) cap with hlt | heq | hgt
    · -- room left: append, bubble
      refine ⟨⟨bubbleG newE items, cap, (pid p).toNat :: seen, fn, su + 1⟩, ?_, ?_, ⟨hd, hc, by show 0 ≤ su + 1; omega⟩⟩
      · intro rest
        have hL1 : (Go.len items == cap) = false := by simp [hlen]; omega
        have hL2 : decide (Go.len items < cap) = true := by simp [hlen, hlt]
        have hcapA : Go.capAppend growCap cap (Go.len (items ++ [newE])) = cap := by
          simp [Go.capAppend, Go.len]; omega
        simp only [DistSet_AddWithLimit_loop1, cav, hseen', Bool.false_eq_true, if_false, hnew, hL1, hL2, Bool.false_and,
          if_true, hcapA]
        rw [loop2_tail newE items cap _ fn (su + 1) _ (fun _ _ _ => rfl)]
      · have h1 : ¬ (items.length = cap.toNat) := by omega
        have h2 : items.length < cap.toNat := by omega
        have h3 : (su + 1).toNat = su.toNat + 1 := by omega
        simp [toModel, DistSet.addWithLimit1, hmem, h1, h2, h3, map_bubbleG, hnewM]
    · -- full
      have hL1 : (Go.len items == cap) = true := by simp [hlen, heq]
      have hL2 : decide (Go.len items < cap) = false := by simp [hlen]; omega
      have h1 : items.length = cap.toNat := by omega
      rcases snoc_cases items with rfl | ⟨init, l, rfl⟩
      · -- capacity 0 (Go panics: items[-1]); both sides leave the set as it is
        have hcap0 : cap = 0 := by simpa using heq.symm
        subst hcap0
        refine ⟨⟨[], 0, (pid p).toNat :: seen, fn, su⟩, ?_, ?_, ⟨hd, hc, hs⟩⟩
        · intro rest
          simp only [DistSet_AddWithLimit_loop1, cav, hseen', Bool.false_eq_true, if_false, hnew, hL1, hL2, Bool.true_and,
            if_false]
          split
          · rfl
          · simp [Go.setI, Go.len, Go.countFuel, DistSet_AddWithLimit_loop2, Go.Ctl.andThen]
        · simp [toModel, DistSet.addWithLimit1, hmem]
      · have hget : Go.getI (init ++ [l]) (cap - 1) = l := getI_mid init [] l _ (by simp at heq; omega)
        by_cases hfar : l.Distance < fn p
        · -- farther than the last one: skipped
          refine ⟨⟨init ++ [l], cap, (pid p).toNat :: seen, fn, su⟩, ?_, ?_, ⟨hd, hc, hs⟩⟩
          · intro rest
            simp [DistSet_AddWithLimit_loop1, cav, hmem, hL1, hget, hfar]
          · have hfar' : (toElem pid l).dist < dq (pid p).toNat := by rw [← hd]; exact hfar
            simp [toModel, DistSet.addWithLimit1, hmem, h1.symm, hfar']
        · -- replaces the last one, bubble
          refine ⟨⟨bubbleG newE init, cap, (pid p).toNat :: seen, fn, su⟩, ?_, ?_, ⟨hd, hc, hs⟩⟩
          · intro rest
            have hset : Go.setI (init ++ [l]) (Go.len (init ++ [l]) - 1) newE = init ++ [newE] :=
              setI_mid init [] l newE _ (by simp [Go.len])
            simp only [DistSet_AddWithLimit_loop1, cav, hseen', Bool.false_eq_true, if_false, hnew, hL1, hL2, Bool.true_and,
              hget, hfar, decide_false, hset]
            rw [loop2_tail newE init cap _ fn su _ (fun _ _ _ => rfl)]
          · have hfar' : ¬ (toElem pid l).dist < dq (pid p).toNat := by rw [← hd]; exact hfar
            simp [toModel, DistSet.addWithLimit1, hmem, h1.symm, hfar', map_bubbleG, hnewM]
    · -- over-full (after `Add`): replaces the last one, bubble
      have hL1 : (Go.len items == cap) = false := by simp [hlen]; omega
      have hL2 : decide (Go.len items < cap) = false := by simp [hlen]; omega
      rcases snoc_cases items with rfl | ⟨init, l, rfl⟩
      · simp at hgt; omega
      · refine ⟨⟨bubbleG newE init, cap, (pid p).toNat :: seen, fn, su⟩, ?_, ?_, ⟨hd, hc, hs⟩⟩
        · intro rest
          have hset : Go.setI (init ++ [l]) (Go.len (init ++ [l]) - 1) newE = init ++ [newE] :=
            setI_mid init [] l newE _ (by simp [Go.len])
          simp only [DistSet_AddWithLimit_loop1, cav, hseen', Bool.false_eq_true, if_false, hnew, hL1, hL2, Bool.false_and,
            hset]
          rw [loop2_tail newE init cap _ fn su _ (fun _ _ _ => rfl)]
        · have h1 : ¬ ((init ++ [l]).length = cap.toNat) := by omega
          have h2 : ¬ ((init ++ [l]).length < cap.toNat) := by omega
          simp only [List.length_append, List.length_cons, List.length_nil] at h1 h2
          simp [toModel, DistSet.addWithLimit1, hmem, h1, h2, map_bubbleG, hnewM]

theorem awl_loop1 (pid : VPoint → BitVec 64) (growCap : Int → Int → Int) (dq : Id → D) :
    ∀ (ps : List VPoint) (g : GS VPoint D), Inv pid dq g →
      ∃ g', DistSet_AddWithLimit_loop1 pid cav growCap ps g = .next g' ∧
        toModel pid g' = (toModel pid g).addWithLimit dq (ps.map fun p => (pid p).toNat) ∧ Inv pid dq g' := by
  intro ps
  induction ps with
  | nil => intro g h; exact ⟨g, by simp [DistSet_AddWithLimit_loop1], by simp [DistSet.addWithLimit], h⟩
  | cons p rest ih =>
    intro g h
    obtain ⟨g1, h1, h2, h3⟩ := awl_step pid growCap dq g p h
    obtain ⟨g', e1, e2, e3⟩ := ih g1 h3
    exact ⟨g', by rw [h1, e1], by rw [e2, h2]; simp [DistSet.addWithLimit], e3⟩

/-! ### `Add`, `AddAlreadyUnique` -/

omit [Inhabited VPoint] [Inhabited D] [LT D] [DecidableRel (α := D) (· < ·)] in
theorem forRange_foldl {α σ : Type} (xs : List α) (st : σ) (F : σ → α → σ) :
    Go.forRange xs st (fun _ x s => F s x) = xs.foldl F st := by
  have : ∀ (xs : List α) (i : Nat) (st : σ), Go.forRangeAux xs i st (fun _ x s => F s x) = xs.foldl F st := by
    intro xs
    induction xs with
    | nil => intro i st; rfl
    | cons x xs ih => intro i st; simp [Go.forRangeAux, ih]
  exact this xs 0 st

/-- one iteration of `Add` -/
def addStepG (pid : VPoint → BitVec 64) (growCap : Int → Int → Int) (ds : GS VPoint D) (p : VPoint) : GS VPoint D :=
  if ds.set.contains (pid p).toNat then ds
  else
    { ds with
      set := (pid p).toNat :: ds.set
      items := ds.items ++ [⟨p, ds.distFn p, false, false⟩]
      items_cap := Go.capAppend growCap ds.items_cap (Go.len (ds.items ++ [(⟨p, ds.distFn p, false, false⟩ : GE VPoint D)])) }

theorem add_eq_foldl (pid : VPoint → BitVec 64) (growCap : Int → Int → Int) (g : GS VPoint D) (ps : List VPoint) :
    DistSet_Add pid cav growCap g ps = ps.foldl (addStepG pid growCap) g := by
  rw [← forRange_foldl]
  simp only [DistSet_Add]
  congr 1
  funext _ p ds
  by_cases h : ds.set.contains (pid p).toNat = true
  · have hm : (pid p).toNat ∈ ds.set := by simpa using h
    simp [addStepG, cav, hm]
  · have hm : (pid p).toNat ∉ ds.set := by simpa using h
    simp [addStepG, cav, hm]

/-- the model's set with another capacity (the model's `add` never looks at the capacity) -/
def withCap (m : C03.DistSet D) (c : Nat) : C03.DistSet D := { m with cap := c }

theorem add_foldl (pid : VPoint → BitVec 64) (growCap : Int → Int → Int) (dq : Id → D)
    (hg : ∀ c n : Int, n ≤ growCap c n) :
    ∀ (ps : List VPoint) (g : GS VPoint D), Inv pid dq g →
      toModel pid (ps.foldl (addStepG pid growCap) g) =
        withCap ((toModel pid g).add dq (ps.map fun p => (pid p).toNat)) (ps.foldl (addStepG pid growCap) g).items_cap.toNat ∧
      Inv pid dq (ps.foldl (addStepG pid growCap) g) ∧
      ((ps.foldl (addStepG pid growCap) g).items.length ≤ g.items_cap →
        (ps.foldl (addStepG pid growCap) g).items_cap = g.items_cap) ∧
      g.items.length ≤ (ps.foldl (addStepG pid growCap) g).items.length := by
  intro ps
  induction ps with
  | nil => intro g h; exact ⟨by simp [DistSet.add, withCap, toModel], h, fun _ => rfl, Nat.le_refl _⟩
  | cons p rest ih =>
    intro g h
    obtain ⟨items, cap, seen, fn, su⟩ := g
    obtain ⟨hd, hc, hs⟩ := h
    simp only at hd hc hs
    simp only [List.foldl_cons, List.map_cons]
    by_cases hseen : seen.contains (pid p).toNat = true
    · have hm : (pid p).toNat ∈ seen := by simpa using hseen
      have e1 : addStepG pid growCap ⟨items, cap, seen, fn, su⟩ p = ⟨items, cap, seen, fn, su⟩ := by simp [addStepG, hm]
      have e2 : DistSet.add1 dq (toModel pid ⟨items, cap, seen, fn, su⟩) (pid p).toNat = toModel pid ⟨items, cap, seen, fn, su⟩ := by
        simp [DistSet.add1, toModel, hm]
      rw [e1]
      simpa [DistSet.add, e2] using ih ⟨items, cap, seen, fn, su⟩ ⟨hd, hc, hs⟩
    · have hm : (pid p).toNat ∉ seen := by simpa using hseen
      generalize hnew : (⟨p, fn p, false, false⟩ : GE VPoint D) = newE
      have hnewM : toElem pid newE = { id := (pid p).toNat, dist := dq (pid p).toNat } := by
        rw [← hnew]; simp [toElem, hd]
      generalize hc' : Go.capAppend growCap cap (Go.len (items ++ [newE])) = cap'
      have hcap' : 0 ≤ cap' := by
        rw [← hc']; unfold Go.capAppend; split
        · exact hc
        · have := hg cap (Go.len (items ++ [newE])); simp [Go.len] at this ⊢; omega
      have e1 : addStepG pid growCap ⟨items, cap, seen, fn, su⟩ p = ⟨items ++ [newE], cap', (pid p).toNat :: seen, fn, su⟩ := by
        simp [addStepG, hm, hnew, hc']
      have e2 : DistSet.add1 dq (toModel pid ⟨items, cap, seen, fn, su⟩) (pid p).toNat =
          withCap (toModel pid ⟨items ++ [newE], cap', (pid p).toNat :: seen, fn, su⟩) cap.toNat := by
        simp [DistSet.add1, toModel, hm, withCap, hnewM]
      obtain ⟨i1, i2, i3, i4⟩ := ih ⟨items ++ [newE], cap', (pid p).toNat :: seen, fn, su⟩ ⟨hd, hcap', hs⟩
      rw [e1]
      refine ⟨?_, i2, ?_, ?_⟩
      · rw [i1]
        simp only [DistSet.add, List.foldl_cons]
        rw [e2]
        have hw : ∀ (ids : List Id) (m : C03.DistSet D) (c : Nat),
            List.foldl (DistSet.add1 dq) (withCap m c) ids = withCap (List.foldl (DistSet.add1 dq) m ids) c := by
          intro ids
          induction ids with
          | nil => intro m c; rfl
          | cons a ids ihh =>
            intro m c
            simp only [List.foldl_cons]
            have : DistSet.add1 dq (withCap m c) a = withCap (DistSet.add1 dq m a) c := by
              by_cases hh : a ∈ m.seen <;> simp [DistSet.add1, withCap, hh]
            rw [this, ihh]
        rw [hw]
        simp [withCap]
      · intro hle
        simp only at i3 i4 hle ⊢
        have hfit : Go.len (items ++ [newE]) ≤ cap := by
          show ((items ++ [newE]).length : Int) ≤ cap
          omega
        have hcc : Go.capAppend growCap cap (Go.len (items ++ [newE])) = cap := by
          unfold Go.capAppend; exact if_pos hfit
        rw [hcc] at hc'
        subst hc'
        exact i3 hle
      · simp only at i4 ⊢
        simp only [List.length_append, List.length_cons, List.length_nil] at i4
        omega

/-! ### `Sort` -/

omit [Inhabited D] [Inhabited VPoint] in
theorem bubbleG_length (e : GE VPoint D) (l : List (GE VPoint D)) : (bubbleG e l).length = l.length + 1 := by
  induction l with
  | nil => rfl
  | cons x xs ih => simp only [bubbleG]; split <;> simp [ih]

/-- the inner loop of `Sort` is literally the insertion loop of `AddWithLimit` -/
theorem sort_loop2 : ∀ (fuel : Nat) (ds : GS VPoint D) (j : Int),
    DistSet_Sort_loop2 fuel ds j = DistSet_AddWithLimit_loop2 fuel ds j := by
  intro fuel
  induction fuel with
  | zero => intro ds j; rfl
  | succ f ih => intro ds j; simp only [DistSet_Sort_loop2, DistSet_AddWithLimit_loop2, ih]

/-- insertion sort: the elements of `rem` are bubbled, one after the other, into the prefix `acc` -/
def insertAll (acc rem : List (GE VPoint D)) : List (GE VPoint D) := rem.foldl (fun a e => bubbleG e a) acc

omit [Inhabited D] [Inhabited VPoint] in
theorem insertAll_length (acc rem : List (GE VPoint D)) : (insertAll acc rem).length = acc.length + rem.length := by
  induction rem generalizing acc with
  | nil => rfl
  | cons e rem ih => simp only [insertAll, List.foldl_cons] at ih ⊢; rw [ih, bubbleG_length]; simp; omega

theorem map_insertAll (pid : VPoint → BitVec 64) (acc rem : List (GE VPoint D)) :
    (insertAll acc rem).map (toElem pid) = (rem.map (toElem pid)).foldl (fun a e => bubble e a) (acc.map (toElem pid)) := by
  induction rem generalizing acc with
  | nil => rfl
  | cons e rem ih => simp only [insertAll, List.foldl_cons, List.map_cons] at ih ⊢; rw [ih, map_bubbleG]

/-- the outer loop of `Sort`, started at the end of the prefix `acc` -/
theorem sort_loop1 : ∀ (rem acc : List (GE VPoint D)) (fuel : Nat) (ds : GS VPoint D),
    ds.items = acc ++ rem → rem.length + 1 ≤ fuel →
    ∃ j, DistSet_Sort_loop1 fuel ds (acc.length : Int) = .next ({ ds with items := insertAll acc rem }, j) := by
  intro rem
  induction rem with
  | nil =>
    intro acc fuel ds hi hf
    obtain ⟨f, rfl⟩ : ∃ f, fuel = f + 1 := ⟨fuel - 1, by simp at hf; omega⟩
    obtain ⟨items, cap, set, fn, su⟩ := ds
    simp only at hi
    subst hi
    exact ⟨(acc.length : Int), by simp [DistSet_Sort_loop1, Go.len, insertAll]⟩
  | cons e rem ih =>
    intro acc fuel ds hi hf
    obtain ⟨f, rfl⟩ : ∃ f, fuel = f + 1 := ⟨fuel - 1, by simp at hf; omega⟩
    obtain ⟨items, cap, set, fn, su⟩ := ds
    simp only at hi
    subst hi
    have hlt : (acc.length : Int) < Go.len (acc ++ e :: rem) := by simp [Go.len]; omega
    obtain ⟨j, hj⟩ := loop2_eq e acc.reverse rem (Go.countFuel 0 (acc.length : Int)) ⟨acc ++ e :: rem, cap, set, fn, su⟩
      (by simp) (by simp [Go.countFuel])
    simp only [List.length_reverse, List.reverse_reverse] at hj
    obtain ⟨j', hj'⟩ := ih (bubbleG e acc) f ⟨bubbleG e acc ++ rem, cap, set, fn, su⟩ rfl (by simp at hf; omega)
    refine ⟨j', ?_⟩
    simp only [DistSet_Sort_loop1, hlt, decide_true, if_true, sort_loop2, hj, Go.Ctl.andThen]
    have hl : (acc.length : Int) + 1 = ((bubbleG e acc).length : Int) := by rw [bubbleG_length]; simp
    rw [hl, hj']
    simp [insertAll]

end Tie

/-! ## the tie theorems -/

/-- `Len` -/
theorem C03_tie_len (pid : VPoint → BitVec 64) (growCap : Int → Int → Int) (g : GS VPoint D) :
    DistSet_Len pid cav growCap g = ((toModel pid g).items.length : Int) := by
  simp [DistSet_Len, toModel, Go.len]

/-- **`AddWithLimit` = `DistSet.addWithLimit`** (no fuel argument: the translator computed the fuel of the
insertion loop; it never runs out); `Tie.Inv` is preserved, so calls chain -/
theorem C03_tie_addWithLimit (pid : VPoint → BitVec 64) (growCap : Int → Int → Int) (dq : Id → D) (g : GS VPoint D)
    (ps : List VPoint) (h : Tie.Inv pid dq g) :
    ∃ g', DistSet_AddWithLimit pid cav growCap g ps = .ret g' ∧
      toModel pid g' = (toModel pid g).addWithLimit dq (ps.map fun p => (pid p).toNat) ∧ Tie.Inv pid dq g' := by
  obtain ⟨g', e1, e2, e3⟩ := Tie.awl_loop1 pid growCap dq ps g h
  exact ⟨g', by simp [DistSet_AddWithLimit, e1, Go.Ctl.finish], e2, e3⟩

/-- the same as one equation -/
theorem C03_tie_addWithLimit_eq (pid : VPoint → BitVec 64) (growCap : Int → Int → Int) (dq : Id → D) (g : GS VPoint D)
    (ps : List VPoint) (h : Tie.Inv pid dq g) :
    outMap (toModel pid) (DistSet_AddWithLimit pid cav growCap g ps) =
      .ret ((toModel pid g).addWithLimit dq (ps.map fun p => (pid p).toNat)) := by
  obtain ⟨g', e1, e2, _⟩ := C03_tie_addWithLimit pid growCap dq g ps h
  rw [e1, outMap, e2]

/-- **`Add` = `DistSet.add`**, up to the capacity: the model keeps `cap` fixed, the real `append` may grow it
(`growCap`: any function with `n ≤ growCap c n`); when the result still fits, the capacity is the old one and
the two sets are equal -/
theorem C03_tie_add (pid : VPoint → BitVec 64) (growCap : Int → Int → Int) (dq : Id → D) (g : GS VPoint D)
    (ps : List VPoint) (h : Tie.Inv pid dq g) (hg : ∀ c n : Int, n ≤ growCap c n) :
    let g' := DistSet_Add pid cav growCap g ps
    toModel pid g' = Tie.withCap ((toModel pid g).add dq (ps.map fun p => (pid p).toNat)) g'.items_cap.toNat ∧
      Tie.Inv pid dq g' ∧
      ((g'.items.length : Int) ≤ g.items_cap →
        toModel pid g' = (toModel pid g).add dq (ps.map fun p => (pid p).toNat)) := by
  intro g'
  have hfold : g' = ps.foldl (Tie.addStepG pid growCap) g := Tie.add_eq_foldl pid growCap g ps
  obtain ⟨i1, i2, i3, _⟩ := Tie.add_foldl pid growCap dq hg ps g h
  rw [← hfold] at i1 i2 i3
  refine ⟨i1, i2, fun hle => ?_⟩
  rw [i1, i3 hle]
  have hcap : ∀ (ids : List Id) (m : C03.DistSet D), (m.add dq ids).cap = m.cap := by
    intro ids
    induction ids with
    | nil => intro m; rfl
    | cons a ids ih =>
      intro m
      simp only [DistSet.add, List.foldl_cons] at ih ⊢
      rw [ih]
      simp only [DistSet.add1]; split <;> rfl
  have hX : ((toModel pid g).add dq (ps.map fun p => (pid p).toNat)).cap = g.items_cap.toNat :=
    hcap (ps.map fun p => (pid p).toNat) (toModel pid g)
  simp only [Tie.withCap]
  generalize (toModel pid g).add dq (ps.map fun p => (pid p).toNat) = X at hX ⊢
  cases X
  simp only at hX
  simp [hX]

/-- `AddAlreadyUnique` appends (the model keeps `visitedSet.items` as a plain list: `st.visited ++ [e]` in `loop`) -/
theorem C03_tie_addAlreadyUnique (pid : VPoint → BitVec 64) (growCap : Int → Int → Int) (g : GS VPoint D)
    (es : List (GE VPoint D)) :
    let g' := DistSet_AddAlreadyUnique pid cav growCap g es
    g'.items = g.items ++ es ∧ g'.set = g.set ∧ g'.sortedUntil = g.sortedUntil ∧ g'.distFn = g.distFn ∧
      g'.items_cap = Go.capAppend growCap g.items_cap ((g.items ++ es).length : Int) := by
  simp [DistSet_AddAlreadyUnique, Go.len]

/-- **`Sort` = `DistSet.sort`**, with any fuel of at least one unit per element after `sortedUntil`, plus one -/
theorem C03_tie_sort (pid : VPoint → BitVec 64) (growCap : Int → Int → Int) (g : GS VPoint D) (fuel : Nat)
    (hs : 0 ≤ g.sortedUntil) (hf : g.items.length - g.sortedUntil.toNat + 1 ≤ fuel) :
    ∃ g', DistSet_Sort fuel pid cav growCap g = .ret g' ∧ toModel pid g' = (toModel pid g).sort ∧
      g'.distFn = g.distFn ∧ g'.items_cap = g.items_cap := by
  obtain ⟨items, cap, set, fn, su⟩ := g
  simp only at hs hf
  obtain ⟨n, rfl⟩ : ∃ n : Nat, su = (n : Int) := ⟨su.toNat, by omega⟩
  simp only [Int.toNat_natCast] at hf
  by_cases hn : n ≤ items.length
  · obtain ⟨j, hj⟩ := Tie.sort_loop1 (items.drop n) (items.take n) fuel ⟨items, cap, set, fn, (n : Int)⟩
      (by simp) (by simp; omega)
    have hl : ((items.take n).length : Int) = (n : Int) := by simp [Nat.min_eq_left hn]
    rw [hl] at hj
    refine ⟨⟨Tie.insertAll (items.take n) (items.drop n), cap, set, fn, Go.len (Tie.insertAll (items.take n) (items.drop n))⟩, ?_, ?_, rfl, rfl⟩
    · simp [DistSet_Sort, hj, Go.Ctl.finish]
    · have hlen : (Tie.insertAll (items.take n) (items.drop n)).length = items.length := by
        rw [Tie.insertAll_length]; simp; omega
      simp [toModel, DistSet.sort, sortFrom, Tie.map_insertAll, Go.len, hlen, List.map_take, List.map_drop]
  · -- `sortedUntil` beyond the end (never the case in the code): nothing to do on either side
    have hn' : items.length < n := by omega
    obtain ⟨f, rfl⟩ : ∃ f, fuel = f + 1 := ⟨fuel - 1, by omega⟩
    refine ⟨⟨items, cap, set, fn, Go.len items⟩, ?_, ?_, rfl, rfl⟩
    · have : ¬ ((n : Int) < Go.len items) := by simp [Go.len]; omega
      simp [DistSet_Sort, DistSet_Sort_loop1, this, Go.Ctl.finish]
    · have h1 : (List.map (toElem pid) items).length ≤ n := by simp; omega
      simp [toModel, DistSet.sort, sortFrom, Go.len, List.take_of_length_le h1, List.drop_of_length_le h1]

end

/-! ### non-vacuity: the hypotheses hold, and the generated code runs, on a concrete set
(points are numbers, their id and their distance is the number itself; capacity 2) -/

/-- an empty set of capacity 2 -/
def exSet : GS Nat Nat := ⟨[], 2, [], fun p => (BitVec.ofNat 64 p).toNat, 0⟩

example : Tie.Inv (fun p => BitVec.ofNat 64 p) (fun i => i) exSet := ⟨fun _ => rfl, by decide, by decide⟩

example :
    (match DistSet_AddWithLimit (fun p => BitVec.ofNat 64 p) cav (fun _ n => 2 * n) exSet [5, 3, 9, 3, 1] with
     | .ret g => ((toModel (fun p => BitVec.ofNat 64 p) g).items.map (·.id), g.set, g.items_cap, g.sortedUntil)
     | .outOfFuel => ([], [], 0, 0)) = ([1, 3], [1, 9, 3, 5], 2, 2) := by decide

example :
    ((toModel (fun p => BitVec.ofNat 64 p) exSet).addWithLimit (fun i => i) [5, 3, 9, 3, 1]).items.map (·.id) = [1, 3] := by
  decide

example :
    (match DistSet_Sort 10 (fun p => BitVec.ofNat 64 p) cav (fun _ n => 2 * n)
        (DistSet_Add (fun p => BitVec.ofNat 64 p) cav (fun _ n => 2 * n) exSet [5, 3, 9, 3, 1]) with
     | .ret g => (g.items.map (·.Distance), g.items_cap, g.sortedUntil)
     | .outOfFuel => ([], 0, 0)) = ([1, 3, 5, 9], 6, 4) := by decide

end Sema.C03
