/- C12: the invariant is inductive (`inv_step`), hence holds in every reachable state of the repaired model. -/
import SemaModel.C12.Pres.LockA
import SemaModel.C12.Pres.LockB
import SemaModel.C12.Pres.Refs
import SemaModel.C12.Pres.WrA
import SemaModel.C12.Pres.WrB
import SemaModel.C12.Pres.RdA
import SemaModel.C12.Pres.RdB
import SemaModel.C12.Pres.RwA
import SemaModel.C12.Pres.RwB
import SemaModel.C12.Pres.Wact
import SemaModel.C12.Pres.ShOpen
import SemaModel.C12.Pres.ShClW
import SemaModel.C12.Pres.ShClR
import SemaModel.C12.Pres.ShCl
import SemaModel.C12.Pres.ShClT
import SemaModel.C12.Pres.ShNil
import SemaModel.C12.Pres.StObj
import SemaModel.C12.Pres.OpenSt
import SemaModel.C12.Pres.PutDir
import SemaModel.C12.Pres.Miss
import SemaModel.C12.Pres.DlSt
import SemaModel.C12.Pres.DlDel
import SemaModel.C12.Pres.ClA
import SemaModel.C12.Pres.NoCl
import SemaModel.C12.Pres.MsgTrue
import SemaModel.C12.Pres.RecvTrue
import SemaModel.C12.Pres.SelA
import SemaModel.C12.Pres.ClAlive
import SemaModel.C12.Pres.PutNotSt
import SemaModel.C12.Pres.PutOpen
import SemaModel.C12.Pres.StNil
import SemaModel.C12.Pres.StCl
import SemaModel.C12.Pres.OpensC
namespace Sema.C12

theorem inv_step {s s' : St} {a : Act} (hI : Inv s) (h : step .repaired s a = some s') : Inv s' :=
  { lockA := pres_lockA hI h,
    lockB := pres_lockB hI h,
    refs := pres_refs hI h,
    wrA := pres_wrA hI h,
    wrB := pres_wrB hI h,
    rdA := pres_rdA hI h,
    rdB := pres_rdB hI h,
    rwA := pres_rwA hI h,
    rwB := pres_rwB hI h,
    wact := pres_wact hI h,
    shOpen := pres_shOpen hI h,
    shClW := pres_shClW hI h,
    shClR := pres_shClR hI h,
    shCl := pres_shCl hI h,
    shClT := pres_shClT hI h,
    shNil := pres_shNil hI h,
    stObj := pres_stObj hI h,
    openSt := pres_openSt hI h,
    putDir := pres_putDir hI h,
    miss := pres_miss hI h,
    dlSt := pres_dlSt hI h,
    dlDel := pres_dlDel hI h,
    clA := pres_clA hI h,
    noCl := pres_noCl hI h,
    msgTrue := pres_msgTrue hI h,
    recvTrue := pres_recvTrue hI h,
    selA := pres_selA hI h,
    clAlive := pres_clAlive hI h,
    putNotSt := pres_putNotSt hI h,
    putOpen := pres_putOpen hI h,
    stNil := pres_stNil hI h,
    stCl := pres_stCl hI h,
    opensC := pres_opensC hI h }

theorem inv_reachable {s : St} (h : Reachable .repaired s) : Inv s := by
  induction h with
  | init dirs => exact inv_init dirs
  | step _ hs ih => exact inv_step ih hs

theorem reachable_run {v : Variant} {s : St} (h : Reachable v s) (acts : List Act) : Reachable v (runSched v s acts).1 := by
  induction acts generalizing s with
  | nil => simpa [runSched] using h
  | cons a as ih =>
    simp only [runSched]
    split
    · rename_i s' hs; exact ih (Reachable.step h hs)
    · exact h

theorem reachable_runSched (v : Variant) (acts : List Act) : Reachable v (runSched v (St.init []) acts).1 :=
  reachable_run (Reachable.init []) acts

end Sema.C12
