/-
C12 — model of cluster/shardmgr.go (ShardManager): a labelled transition system with one atomic
step per lock / unlock / map / channel / file-system operation and callback boundary, i.e. exactly
the granularity of the `verifYield` points in the `verif` build of the repository.

Core Lean only (linked into the driver executable).

Threads:
  * request      = one call of DoWithShard (loadShard inlined, in source order)
  * deletion     = one call of DeleteCollectionShards
  * cleanup      = one cleanupRoutine goroutine, spawned by loadShard
New calls may arrive at any time (`Act.newReq`, `Act.newDel`), so `Reachable` covers every number of
requests, deletions and shards.

Modelling decisions (each one mirrors the Go runtime, see notes/C12.md):
  * `sync.Mutex` shardLock: `lock : Option Tid`; `Lock` is enabled iff free.
  * `sync.RWMutex` ls.mu with Go's writer preference: `Lock` is two steps — take the writer slot
    (`wr := some t`, enabled iff the slot is free; from then on new `RLock`s queue in `rwait`), then
    wait until the active `readers` have drained. `RLock` is: register (becomes a reader at once if
    no writer holds the slot, else queues), then proceed once admitted. `Unlock` admits all queued
    readers atomically and frees the slot.
  * unbuffered `doneCh` with non-blocking sends: a send succeeds iff the cleanup goroutine is parked
    in its `select` (`sel = true`); the value is held in `msg` until the receiver's next step.
  * the idle timer is the action `fire`, enabled whenever the goroutine is parked in the `select`
    and no value was handed over.
  * `shard` field: `opened` (handle open), `closed` (handle closed, pointer not yet nil), `nil`.
  * file system: `dirs` = existing shard directories, `opens d` = number of open bbolt handles on
    the database file of directory `d`.
  * loading can FAIL: `bad d` = the database file of directory `d` cannot be opened (a torn /
    half-transferred / garbage `sharddb.bbolt`: `shard.NewShard` returns an error), `blocked d` = a
    non-directory sits at the path of `d` (`os.MkdirAll` returns an error).  Both are set by the
    environment actions `Act.corrupt` / `Act.block` at any time (a database file is only overwritten
    while no handle is open on it); `os.RemoveAll` of a deletion removes a bad file with its
    directory, and `Act.repair` makes the failure transient (the file becomes openable again).  A failed load returns through loadShard's deferred `shardLock.Unlock()` (pc
    `rqLoadErr`, parked at the deferred yield point `load.unlockStore`) and DoWithShard returns the
    error without touching `ls.mu`.
  * `Variant.pinned` is the lock order of the pinned tree (cleanupRoutine keeps ls.mu, by `defer`,
    while it takes shardLock and deletes the map entry unconditionally); `Variant.repaired`
    releases ls.mu first and deletes the entry only if it is still its own.
-/
namespace Sema.C12

/-- a shard directory: (collection, shard) -/
abbrev Dir := Nat × Nat
abbrev Oid := Nat
abbrev Tid := Nat

inductive Variant | pinned | repaired
  deriving DecidableEq, Repr

inductive Sh | opened | closed | nil
  deriving DecidableEq, Repr

inductive Res | ok | err
  deriving DecidableEq, Repr

/-- one `loadedShard` object -/
structure Obj where
  dir : Dir
  sh : Sh
  readers : List Tid
  rwait : List Tid
  wr : Option Tid
  sel : Bool
  msg : Option Bool
  /-- ghost: thread id of the cleanup goroutine spawned for this object (not read by any step) -/
  cl : Option Tid
  /-- ghost: the thread that called `Close` on the shard handle -/
  closedBy : Option Tid
  deriving DecidableEq, Repr

def Obj.fresh (d : Dir) : Obj := { dir := d, sh := .opened, readers := [], rwait := [], wr := none, sel := false, msg := none, cl := none, closedBy := none }

/-- program counters; the name of the yield point at which a thread with this pc is parked is
`PC.point` below -/
inductive PC
  -- DoWithShard (loadShard inlined)
  | rqLockStore (d : Dir)
  | rqLookup (d : Dir)
  | rqSend (o : Oid)
  | rqMkdir (d : Dir)
  | rqOpen (d : Dir)
  | rqPut (d : Dir) (o : Oid)
  | rqSpawn (o : Oid)
  | rqUnlockStore (o : Oid)
  | rqLoadErr                      -- loadShard failed (mkdir / open): the deferred unlock is still to run
  | rqRLock (o : Oid)
  | rqRWait (o : Oid)
  | rqNilCheck (o : Oid)
  | rqInCb (o : Oid)
  | rqRUnlock (o : Oid) (r : Res)
  | done (r : Res)
  -- cleanupRoutine
  | clLoop (o : Oid)
  | clSelect (o : Oid)
  | clRecv (o : Oid) (b : Bool)
  | clLockW (o : Oid)
  | clWWait (o : Oid)
  | clNilCheck (o : Oid)
  | clBackup (o : Oid)
  | clClose (o : Oid)
  | clSetNil (o : Oid)
  | clUnlockW (o : Oid) (more : Bool)
  | clLockStore (o : Oid)
  | clMapDel (o : Oid)
  | clUnlockStore (o : Oid)
  | exited
  -- DeleteCollectionShards
  | dlLockStore (c : Nat)
  | dlReaddir (c : Nat)
  | dlLookup (d : Dir) (rest : List Dir)
  | dlLockW (o : Oid) (d : Dir) (rest : List Dir)
  | dlWWait (o : Oid) (d : Dir) (rest : List Dir)
  | dlNilCheck (o : Oid) (d : Dir) (rest : List Dir)
  | dlSend (o : Oid) (d : Dir) (rest : List Dir)
  | dlClose (o : Oid) (d : Dir) (rest : List Dir)
  | dlSetNil (o : Oid) (d : Dir) (rest : List Dir)
  | dlUnlockW (o : Oid) (d : Dir) (rest : List Dir)
  | dlMapDel (d : Dir) (rest : List Dir)
  | dlRemove (d : Dir) (rest : List Dir)
  | dlUnlockStore
  deriving DecidableEq, Repr

structure St where
  thr : List PC
  objs : List Obj
  store : Dir → Option Oid
  lock : Option Tid
  dirs : List Dir
  opens : Dir → Nat
  /-- the database file of the directory cannot be opened (garbage / torn `sharddb.bbolt`) -/
  bad : Dir → Bool
  /-- a non-directory sits at the path of the shard directory: `os.MkdirAll` fails -/
  blocked : Dir → Bool

def St.init (dirs : List Dir) : St :=
  { thr := [], objs := [], store := fun _ => none, lock := none, dirs := dirs, opens := fun _ => 0,
    bad := fun _ => false, blocked := fun _ => false }

inductive Act
  | newReq (d : Dir)
  | newDel (c : Nat)
  | run (t : Tid)
  | fire (t : Tid)
  /-- environment: the database file of `d` becomes unopenable (its directory exists afterwards) -/
  | corrupt (d : Dir)
  /-- environment: a regular file appears at the path of the (not yet existing) directory `d` -/
  | block (d : Dir)
  /-- environment: the unopenable database file of `d` goes away (a torn transfer is completed /
  the garbage is removed): the failure was transient, the next load must succeed -/
  | repair (d : Dir)
  deriving DecidableEq, Repr

def upd {β : Type} (f : Dir → β) (d : Dir) (b : β) : Dir → β := fun x => if x = d then b else f x

def St.setPc (s : St) (t : Tid) (p : PC) : St := { s with thr := s.thr.set t p }
def St.setObj (s : St) (o : Oid) (ob : Obj) : St := { s with objs := s.objs.set o ob }

/-- insertion into a list sorted by (collection, shard); structural, so that closed terms reduce -/
def insDir (d : Dir) : List Dir → List Dir
  | [] => [d]
  | x :: xs => if d.1 < x.1 ∨ (d.1 = x.1 ∧ d.2 ≤ x.2) then d :: x :: xs else x :: insDir d xs

def sortDirs : List Dir → List Dir
  | [] => []
  | x :: xs => insDir x (sortDirs xs)

/-- what `os.ReadDir` of the collection directory yields: the existing shard directories of the
collection, sorted by name -/
def readdir (s : St) (c : Nat) : List Dir := sortDirs (s.dirs.filter (fun d => d.1 == c))

/-- the next step of thread `t` standing at `pc`; `none` = not enabled (blocked or finished) -/
def stepPc (v : Variant) (s : St) (t : Tid) : PC → Option St
  -- ---------------------------------------------------------------- DoWithShard / loadShard
  | .rqLockStore d =>
      if s.lock = none then some ({ s with lock := some t }.setPc t (.rqLookup d)) else none
  | .rqLookup d =>
      match s.store d with
      | some o => some (s.setPc t (.rqSend o))
      | none => some (s.setPc t (.rqMkdir d))
  | .rqSend o =>
      match s.objs[o]? with
      | some ob =>
          if ob.sel then some ((s.setObj o { ob with sel := false, msg := some false }).setPc t (.rqUnlockStore o))
          else some (s.setPc t (.rqUnlockStore o))
      | none => none
  | .rqMkdir d =>
      if s.blocked d = true then some (s.setPc t .rqLoadErr)      -- "could not create shard directory"
      else some ({ s with dirs := if d ∈ s.dirs then s.dirs else d :: s.dirs }.setPc t (.rqOpen d))
  | .rqOpen d =>
      if s.bad d = true then some (s.setPc t .rqLoadErr)          -- "could not open shard": nothing allocated, nothing stored
      else some ({ s with opens := upd s.opens d (s.opens d + 1), objs := s.objs ++ [Obj.fresh d] }.setPc t (.rqPut d s.objs.length))
  | .rqPut d o =>
      some ({ s with store := upd s.store d (some o) }.setPc t (.rqSpawn o))
  | .rqSpawn o =>
      match s.objs[o]? with
      | some ob => some { s with thr := s.thr.set t (.rqUnlockStore o) ++ [.clLoop o], objs := s.objs.set o { ob with cl := some s.thr.length } }
      | none => none
  | .rqUnlockStore o =>
      some ({ s with lock := none }.setPc t (.rqRLock o))
  | .rqLoadErr =>
      -- deferred `sm.shardLock.Unlock()`, then DoWithShard returns "could not load shard"
      some ({ s with lock := none }.setPc t (.done .err))
  | .rqRLock o =>
      match s.objs[o]? with
      | some ob =>
          if ob.wr = none then some ((s.setObj o { ob with readers := t :: ob.readers }).setPc t (.rqNilCheck o))
          else some ((s.setObj o { ob with rwait := t :: ob.rwait }).setPc t (.rqRWait o))
      | none => none
  | .rqRWait o =>
      match s.objs[o]? with
      | some ob => if t ∈ ob.readers then some (s.setPc t (.rqNilCheck o)) else none
      | none => none
  | .rqNilCheck o =>
      match s.objs[o]? with
      | some ob =>
          if ob.sh = .nil then some (s.setPc t (.rqRUnlock o .err))
          else some (s.setPc t (.rqInCb o))
      | none => none
  | .rqInCb o => some (s.setPc t (.rqRUnlock o .ok))
  | .rqRUnlock o r =>
      match s.objs[o]? with
      | some ob => some ((s.setObj o { ob with readers := ob.readers.filter (fun x => x != t) }).setPc t (.done r))
      | none => none
  | .done _ => none
  -- ---------------------------------------------------------------- cleanupRoutine
  | .clLoop o =>
      match s.objs[o]? with
      | some ob => some ((s.setObj o { ob with sel := true }).setPc t (.clSelect o))
      | none => none
  | .clSelect o =>
      match s.objs[o]? with
      | some ob =>
          match ob.msg with
          | some b => some ((s.setObj o { ob with msg := none }).setPc t (.clRecv o b))
          | none => none
      | none => none
  | .clRecv o b => some (s.setPc t (if b then .exited else .clLoop o))
  | .clLockW o =>
      match s.objs[o]? with
      | some ob => if ob.wr = none then some ((s.setObj o { ob with wr := some t }).setPc t (.clWWait o)) else none
      | none => none
  | .clWWait o =>
      match s.objs[o]? with
      | some ob => if ob.readers = [] then some (s.setPc t (.clNilCheck o)) else none
      | none => none
  | .clNilCheck o =>
      match s.objs[o]? with
      | some ob =>
          if ob.sh = .nil then some (s.setPc t (.clUnlockW o false))
          else some (s.setPc t (.clBackup o))
      | none => none
  | .clBackup o => some (s.setPc t (.clClose o))
  | .clClose o =>
      match s.objs[o]? with
      | some ob =>
          some (({ s with opens := upd s.opens ob.dir (s.opens ob.dir - 1) }.setObj o { ob with sh := .closed, closedBy := some t }).setPc t (.clSetNil o))
      | none => none
  | .clSetNil o =>
      match s.objs[o]? with
      | some ob =>
          some ((s.setObj o { ob with sh := .nil }).setPc t (match v with | .pinned => .clLockStore o | .repaired => .clUnlockW o true))
      | none => none
  | .clUnlockW o more =>
      match s.objs[o]? with
      | some ob =>
          some ((s.setObj o { ob with wr := none, readers := ob.readers ++ ob.rwait, rwait := [] }).setPc t (if more then .clLockStore o else .exited))
      | none => none
  | .clLockStore o =>
      if s.lock = none then some ({ s with lock := some t }.setPc t (.clMapDel o)) else none
  | .clMapDel o =>
      match s.objs[o]? with
      | some ob =>
          let st' := match v with
            | .pinned => upd s.store ob.dir none
            | .repaired => if s.store ob.dir = some o then upd s.store ob.dir none else s.store
          some ({ s with store := st' }.setPc t (.clUnlockStore o))
      | none => none
  | .clUnlockStore o =>
      some ({ s with lock := none }.setPc t (match v with | .pinned => .clUnlockW o false | .repaired => .exited))
  | .exited => none
  -- ---------------------------------------------------------------- DeleteCollectionShards
  | .dlLockStore c =>
      if s.lock = none then some ({ s with lock := some t }.setPc t (.dlReaddir c)) else none
  | .dlReaddir c =>
      match readdir s c with
      | [] => some (s.setPc t .dlUnlockStore)
      | d :: r => some (s.setPc t (.dlLookup d r))
  | .dlLookup d r =>
      match s.store d with
      | some o => some (s.setPc t (.dlLockW o d r))
      | none => some (s.setPc t (.dlMapDel d r))
  | .dlLockW o d r =>
      match s.objs[o]? with
      | some ob => if ob.wr = none then some ((s.setObj o { ob with wr := some t }).setPc t (.dlWWait o d r)) else none
      | none => none
  | .dlWWait o d r =>
      match s.objs[o]? with
      | some ob => if ob.readers = [] then some (s.setPc t (.dlNilCheck o d r)) else none
      | none => none
  | .dlNilCheck o d r =>
      match s.objs[o]? with
      | some ob =>
          if ob.sh = .nil then some (s.setPc t (.dlUnlockW o d r))
          else some (s.setPc t (.dlSend o d r))
      | none => none
  | .dlSend o d r =>
      match s.objs[o]? with
      | some ob =>
          if ob.sel then some ((s.setObj o { ob with sel := false, msg := some true }).setPc t (.dlClose o d r))
          else some (s.setPc t (.dlClose o d r))
      | none => none
  | .dlClose o d r =>
      match s.objs[o]? with
      | some ob =>
          some (({ s with opens := upd s.opens ob.dir (s.opens ob.dir - 1) }.setObj o { ob with sh := .closed, closedBy := some t }).setPc t (.dlSetNil o d r))
      | none => none
  | .dlSetNil o d r =>
      match s.objs[o]? with
      | some ob => some ((s.setObj o { ob with sh := .nil }).setPc t (.dlUnlockW o d r))
      | none => none
  | .dlUnlockW o d r =>
      match s.objs[o]? with
      | some ob =>
          some ((s.setObj o { ob with wr := none, readers := ob.readers ++ ob.rwait, rwait := [] }).setPc t (.dlMapDel d r))
      | none => none
  | .dlMapDel d r => some ({ s with store := upd s.store d none }.setPc t (.dlRemove d r))
  | .dlRemove d r =>
      match r with
      | [] => some ({ s with dirs := s.dirs.filter (fun x => x != d), bad := upd s.bad d false }.setPc t .dlUnlockStore)
      | d' :: r' => some ({ s with dirs := s.dirs.filter (fun x => x != d), bad := upd s.bad d false }.setPc t (.dlLookup d' r'))
  | .dlUnlockStore => some ({ s with lock := none }.setPc t (.done .ok))

def step (v : Variant) (s : St) : Act → Option St
  | .newReq d => some { s with thr := s.thr ++ [.rqLockStore d] }
  | .newDel c => some { s with thr := s.thr ++ [.dlLockStore c] }
  | .run t =>
      match s.thr[t]? with
      | some pc => stepPc v s t pc
      | none => none
  | .fire t =>
      match s.thr[t]? with
      | some (.clSelect o) =>
          match s.objs[o]? with
          | some ob =>
              if ob.sel = true ∧ ob.msg = none then some ((s.setObj o { ob with sel := false }).setPc t (.clLockW o)) else none
          | none => none
      | _ => none
  | .corrupt d =>
      if s.opens d = 0 ∧ s.blocked d = false then
        some { s with dirs := if d ∈ s.dirs then s.dirs else d :: s.dirs, bad := upd s.bad d true }
      else none
  | .block d =>
      if d ∈ s.dirs then none else some { s with blocked := upd s.blocked d true }
  | .repair d =>
      if s.bad d = true then some { s with bad := upd s.bad d false } else none

inductive Reachable (v : Variant) : St → Prop
  | init (dirs : List Dir) : Reachable v (St.init dirs)
  | step {s s' : St} {a : Act} : Reachable v s → step v s a = some s' → Reachable v s'

/-- run a schedule; stops at the first action that is not enabled and reports how many were taken -/
def runSched (v : Variant) : St → List Act → St × Nat
  | s, [] => (s, 0)
  | s, a :: as =>
      match step v s a with
      | some s' => let r := runSched v s' as; (r.1, r.2 + 1)
      | none => (s, 0)

/-- the calls of the shard manager API that have not returned -/
def PC.isCall : PC → Bool
  | .done _ | .exited => false
  | .clLoop _ | .clSelect _ | .clRecv _ _ | .clLockW _ | .clWWait _ | .clNilCheck _ | .clBackup _ | .clClose _
  | .clSetNil _ | .clUnlockW _ _ | .clLockStore _ | .clMapDel _ | .clUnlockStore _ => false
  | _ => true

/-- a thread that has work to do without waiting for a timer: every unfinished call, and every
cleanup goroutine that is not parked in its `select` with nothing delivered -/
def busy (s : St) : PC → Bool
  | .done _ | .exited => false
  | .clSelect o => match s.objs[o]? with
      | some ob => ob.msg.isSome
      | none => false
  | _ => true

def enabledRun (v : Variant) (s : St) (t : Tid) : Bool := (step v s (.run t)).isSome

/-- no busy thread can take a step, yet some call has not returned -/
def Deadlocked (v : Variant) (s : St) : Bool :=
  s.thr.any PC.isCall && (List.range s.thr.length).all (fun t =>
    match s.thr[t]? with
    | some pc => !(busy s pc) || !(enabledRun v s t)
    | none => true)

/-- name of the yield point (or blocking state) at which a thread with this pc sits -/
def PC.point (s : St) (t : Tid) : PC → String
  | .rqLockStore _ => "at load.lockStore"
  | .rqLookup _ => "at load.lookup"
  | .rqSend _ => "at load.send"
  | .rqMkdir _ => "at load.mkdir"
  | .rqOpen _ => "at load.open"
  | .rqPut _ _ => "at load.put"
  | .rqSpawn _ => "at load.spawn"
  | .rqUnlockStore _ => "at load.unlockStore"
  | .rqLoadErr => "at load.unlockStore"
  | .rqRLock _ => "at dws.rlock"
  | .rqRWait o => match s.objs[o]? with
      | some ob => if t ∈ ob.readers then "at dws.nilcheck" else "blocked rlock"
      | none => "?"
  | .rqNilCheck _ => "at dws.nilcheck"
  | .rqInCb _ => "at cb.in"
  | .rqRUnlock _ _ => "at dws.runlock"
  | .done .ok => "ret ok"
  | .done .err => "ret err"
  | .clLoop _ => "at cleanup.select"
  | .clSelect o => match s.objs[o]? with
      | some ob => if ob.msg.isSome then "at cleanup.recv" else "blocked select"
      | none => "?"
  | .clRecv _ _ => "at cleanup.recv"
  | .clLockW _ => "at cleanup.lockW"
  | .clWWait o => match s.objs[o]? with
      | some ob => if ob.readers = [] then "at cleanup.nilcheck" else "blocked wlock"
      | none => "?"
  | .clNilCheck _ => "at cleanup.nilcheck"
  | .clBackup _ => "at cleanup.backup"
  | .clClose _ => "at cleanup.close"
  | .clSetNil _ => "at cleanup.setnil"
  | .clUnlockW _ _ => "at cleanup.unlockW"
  | .clLockStore _ => "at cleanup.lockStore"
  | .clMapDel _ => "at cleanup.mapdel"
  | .clUnlockStore _ => "at cleanup.unlockStore"
  | .exited => "ret exit"
  | .dlLockStore _ => "at del.lockStore"
  | .dlReaddir _ => "at del.readdir"
  | .dlLookup _ _ => "at del.lookup"
  | .dlLockW _ _ _ => "at del.lockW"
  | .dlWWait o _ _ => match s.objs[o]? with
      | some ob => if ob.readers = [] then "at del.nilcheck" else "blocked wlock"
      | none => "?"
  | .dlNilCheck _ _ _ => "at del.nilcheck"
  | .dlSend _ _ _ => "at del.send"
  | .dlClose _ _ _ => "at del.close"
  | .dlSetNil _ _ _ => "at del.setnil"
  | .dlUnlockW _ _ _ => "at del.unlockW"
  | .dlMapDel _ _ => "at del.mapdel"
  | .dlRemove _ _ => "at del.remove"
  | .dlUnlockStore => "at del.unlockStore"

end Sema.C12
