/- C12: helper lemmas for Props.lean — uniqueness of the open handle per directory, counting lemmas
   for `cnt`, and unfolding of `step` for a `run` action. -/
import SemaModel.C12.Lemmas
namespace Sema.C12

theorem two_open_same_dir {s : St} (I : Inv s) {o o' : Oid} {ob ob' : Obj}
    (h1 : s.objs[o]? = some ob) (h2 : s.objs[o']? = some ob') (g1 : ob.sh = .opened) (g2 : ob'.sh = .opened)
    (hd : ob.dir = ob'.dir) : o = o' := by
  have a1 := I.openSt o ob h1 g1
  have a2 := I.openSt o' ob' h2 g2
  have m := I.miss
  by_cases c1 : s.store ob.dir = some o
  · by_cases c2 : s.store ob'.dir = some o'
    · rw [hd] at c1; rw [c1] at c2; exact Option.some.inj c2
    · obtain ⟨hl, ht⟩ := a2 c2
      cases hk : s.lock with
      | none => exact absurd hk hl
      | some t =>
        have := m t _ ob'.dir (ht t hk) rfl
        rw [hd] at c1; rw [this] at c1; cases c1
  · obtain ⟨hl, ht⟩ := a1 c1
    cases hk : s.lock with
    | none => exact absurd hk hl
    | some t =>
      by_cases c2 : s.store ob'.dir = some o'
      · have := m t _ ob.dir (ht t hk) rfl
        rw [← hd] at c2; rw [this] at c2; cases c2
      · obtain ⟨_, ht'⟩ := a2 c2
        have e1 := ht t hk
        have e2 := ht' t hk
        rw [e1] at e2
        injection e2 with e2
        injection e2

theorem ind_le_one (d : Dir) (ob : Obj) : ind d ob ≤ 1 := by unfold ind; split <;> omega

theorem cnt_pos {d : Dir} {l : List Obj} (h : 1 ≤ cnt d l) : ∃ (i : Nat) (ob : Obj), l[i]? = some ob ∧ ind d ob = 1 := by
  induction l with
  | nil => simp [cnt] at h
  | cons x xs ih =>
    by_cases hx : ind d x = 1
    · exact ⟨0, x, by simp, hx⟩
    · have : ind d x = 0 := by have := ind_le_one d x; omega
      simp [cnt, this] at h
      obtain ⟨i, ob, hi, ho⟩ := ih h
      exact ⟨i + 1, ob, by simpa using hi, ho⟩

theorem cnt_le_one {d : Dir} {l : List Obj}
    (h : ∀ (i j : Nat) (obi obj : Obj), l[i]? = some obi → l[j]? = some obj → ind d obi = 1 → ind d obj = 1 → i = j) :
    cnt d l ≤ 1 := by
  induction l with
  | nil => simp [cnt]
  | cons x xs ih =>
    have hx := ind_le_one d x
    have ih' := ih (by
      intro i j obi obj hi hj gi gj
      have := h (i + 1) (j + 1) obi obj (by simpa using hi) (by simpa using hj) gi gj
      omega)
    by_cases c : ind d x = 1
    · by_cases c2 : 1 ≤ cnt d xs
      · obtain ⟨j, ob, hj, gj⟩ := cnt_pos c2
        have := h 0 (j + 1) x ob (by simp) (by simpa using hj) c gj
        omega
      · simp [cnt]; omega
    · simp [cnt]; omega

theorem cnt_zero {d : Dir} {l : List Obj} (h : ∀ (i : Nat) (ob : Obj), l[i]? = some ob → ind d ob = 0) : cnt d l = 0 := by
  by_cases c : 1 ≤ cnt d l
  · obtain ⟨i, ob, hi, g⟩ := cnt_pos c
    have := h i ob hi
    omega
  · omega

theorem run_eq {v : Variant} {s : St} {t : Tid} {pc : PC} (ht : s.thr[t]? = some pc) :
    step v s (.run t) = stepPc v s t pc := by simp [step, ht]


end Sema.C12
