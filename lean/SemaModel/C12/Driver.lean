/-
C12 driver (core only).

  semadriver C12                       line protocol: stdin `sched <variant> <act> <act> ...`,
                                       stdout the model's observable trace of that schedule
  semadriver C12 gen <variant> <tier> <seed>
                                       prints schedules (op lines) of the small configurations:
                                       quick = seeded random walks + fixed interesting schedules,
                                       thorough = a set of schedules covering every transition of
                                       the reachable state graph of every configuration
  semadriver C12 stats <variant>       sizes of the state graphs

acts:  nR<c>.<s>  new DoWithShard call on shard s of collection c      (thread ids in creation order;
       nD<c>      new DeleteCollectionShards call on collection c       cleanup goroutines get the next
       r<t>       next step of thread t                                  free id when spawned)
       f<t>       idle timer of cleanup goroutine t fires
       xB<c>.<s>  environment: the database file of shard s of collection c becomes garbage (the
                  directory is created if need be); only while no handle is open on it
       xF<c>.<s>  environment: a regular file is put at the path of the (not existing) shard directory
       xR<c>.<s>  environment: the garbage database file is removed again (the failure was transient)

trace: one token per act  `<act>=<status of the acting thread>/<dir observations>` and a final
       `end=<status of every thread>/<dir observations>/dl=<0|1>`; a status is `at_<yield point>`,
       `blocked_<rlock|wlock|select|store>`, `ret_<ok|err|exit>`, `env` for an environment act; an act
       that is not enabled in the model yields `<act>=DISABLED` and ends the trace.  A dir observation is
       `<c>.<s>:` + E (directory exists) O (database file locked = handle open) S (in the store) N (shard
       reference nil) B (database file is garbage) F (a non-directory sits at the path), `-` when not.
-/
import SemaModel.Base.DriverUtil
import SemaModel.C12.Model
import SemaModel.C12.Skeleton
import SemaModel.Generated.FactsC12
import Std.Data.HashSet
import Std.Data.HashMap
namespace Sema.C12

instance : Inhabited Act := ⟨.run 0⟩

def dirStr (d : Dir) : String := s!"{d.1}.{d.2}"

def parseDir (s : String) : Option Dir :=
  match s.splitOn "." with
  | [a, b] => match a.toNat?, b.toNat? with
      | some x, some y => some (x, y)
      | _, _ => none
  | _ => none

def parseAct (tok : String) : Option Act :=
  if tok.startsWith "nR" then (parseDir (tok.drop 2).toString).map Act.newReq
  else if tok.startsWith "nD" then ((tok.drop 2).toString.toNat?).map Act.newDel
  else if tok.startsWith "r" then ((tok.drop 1).toString.toNat?).map Act.run
  else if tok.startsWith "f" then ((tok.drop 1).toString.toNat?).map Act.fire
  else if tok.startsWith "xB" then (parseDir (tok.drop 2).toString).map Act.corrupt
  else if tok.startsWith "xF" then (parseDir (tok.drop 2).toString).map Act.block
  else if tok.startsWith "xR" then (parseDir (tok.drop 2).toString).map Act.repair
  else none

def actStr : Act → String
  | .newReq d => s!"nR{dirStr d}"
  | .newDel c => s!"nD{c}"
  | .run t => s!"r{t}"
  | .fire t => s!"f{t}"
  | .corrupt d => s!"xB{dirStr d}"
  | .block d => s!"xF{dirStr d}"
  | .repair d => s!"xR{dirStr d}"

def parseVariant (s : String) : Option Variant :=
  if s == "pinned" then some .pinned else if s == "repaired" then some .repaired else none

def variantStr : Variant → String
  | .pinned => "pinned"
  | .repaired => "repaired"

/-- status of thread `t` -/
def status (s : St) (t : Tid) : String :=
  match s.thr[t]? with
  | none => "?"
  | some pc => (PC.point s t pc).replace " " "_"

def dirObs (s : St) (d : Dir) : String :=
  let e := if d ∈ s.dirs then "E" else "-"
  let o := if s.opens d == 0 then "-" else if s.opens d == 1 then "O" else "2"
  let (st, n) := match s.store d with
    | some oid => ("S", match s.objs[oid]? with
        | some ob => if ob.sh == Sh.nil then "N" else "-"
        | none => "?")
    | none => ("-", "-")
  let b := if s.bad d then "B" else "-"
  let f := if s.blocked d then "F" else "-"
  s!"{dirStr d}:{e}{o}{st}{n}{b}{f}"

def obsAll (s : St) (ds : List Dir) : String := ",".intercalate (ds.map (dirObs s))

def insertSorted (d : Dir) (l : List Dir) : List Dir := if d ∈ l then l else insDir d l

def dirUniverse (acts : List Act) : List Dir :=
  acts.foldl (fun acc a => match a with
    | .newReq d | .corrupt d | .block d | .repair d => insertSorted d acc
    | _ => acc) []

def actingThread (s : St) : Act → Option Tid
  | .newReq _ | .newDel _ => some s.thr.length
  | .run t | .fire t => some t
  | .corrupt _ | .block _ | .repair _ => none

def actStatus (s s' : St) (a : Act) : String :=
  match actingThread s a with
  | some t => status s' t
  | none => "env"

def traceLine (v : Variant) (acts : List Act) : String :=
  let ds := dirUniverse acts
  let rec go (s : St) (as : List Act) (acc : List String) : St × List String × Bool :=
    match as with
    | [] => (s, acc, true)
    | a :: rest =>
      match step v s a with
      | none => (s, s!"{actStr a}=DISABLED" :: acc, false)
      | some s' => go s' rest (s!"{actStr a}={actStatus s s' a}/{obsAll s' ds}" :: acc)
  let (s, acc, ok) := go (St.init []) acts []
  if ok then
    let sts := ",".intercalate ((List.range s.thr.length).map (status s))
    let dl := if Deadlocked v s then "1" else "0"
    " ".intercalate (acc.reverse ++ [s!"end={sts}/{obsAll s ds}/dl={dl}"])
  else " ".intercalate acc.reverse

def runLine (line : String) : String :=
  let line := (line.splitOn "#").headD ""
  match (line.trimAscii.toString.splitOn " ").filter (· ≠ "") with
  | "sched" :: v :: toks =>
    match parseVariant v, toks.mapM parseAct with
    | some v, some acts => traceLine v acts
    | _, _ => "bad-op"
  | _ => "bad-op"

-- ------------------------------------------------------------------------------- generation

def pcKey : PC → String
  | pc => toString (repr pc)

def shKey : Sh → String
  | .opened => "o" | .closed => "c" | .nil => "n"

def objKey (ob : Obj) : String :=
  s!"{dirStr ob.dir}{shKey ob.sh}r{ob.readers}w{ob.rwait}x{ob.wr}s{ob.sel}m{ob.msg}"

def stateKey (s : St) (ds : List Dir) : String :=
  let t := " ".intercalate (s.thr.map pcKey)
  let o := " ".intercalate (s.objs.map objKey)
  s!"{t}|{o}|{s.lock}|{obsAll s ds}"

def enabledActs (v : Variant) (s : St) : List Act :=
  (List.range s.thr.length).foldr (fun t acc =>
    let acc := if (step v s (.fire t)).isSome then Act.fire t :: acc else acc
    if (step v s (.run t)).isSome then Act.run t :: acc else acc) []

/-- follow the first enabled act (runs before fires) until nothing is enabled -/
partial def complete (v : Variant) (s : St) (acc : List Act) : St × List Act :=
  match enabledActs v s with
  | [] => (s, acc.reverse)
  | as =>
    let a := match as.find? (fun a => match a with | .run _ => true | _ => false) with
      | some a => a
      | none => as.head!
    match step v s a with
    | some s' => complete v s' (a :: acc)
    | none => (s, acc.reverse)

/-- after a schedule has ended without deadlock: one more request per directory, run to its end -/
def reloadSuffix (v : Variant) (s : St) (ds : List Dir) : List Act :=
  let rec runT (fuel : Nat) (s : St) (t : Tid) (acc : List Act) : St × List Act :=
    match fuel with
    | 0 => (s, acc)
    | fuel + 1 =>
      match step v s (.run t) with
      | some s' => runT fuel s' t (Act.run t :: acc)
      | none => (s, acc)
  let (_, acc) := ds.foldl (fun (p : St × List Act) d =>
    let (s, acc) := p
    match step v s (.newReq d) with
    | some s1 => runT 40 s1 s.thr.length (Act.newReq d :: acc)
    | none => (s, acc)) (s, [])
  acc.reverse

def schedLine (v : Variant) (acts : List Act) : String :=
  s!"sched {variantStr v} " ++ " ".intercalate (acts.map actStr)

def finish (v : Variant) (pre : List Act) (s : St) (ds : List Dir) : List Act :=
  let (s', tail) := complete v s []
  let acts := pre ++ tail
  if Deadlocked v s' then acts else acts ++ reloadSuffix v s' ds

structure Node where
  st : St
  rpath : List Act            -- reversed act path that first reached the state
  parent : Nat
  kids : Array (Nat × Act) := #[]
  rem : Nat := 0              -- transitions not yet on an emitted schedule whose source lies in this subtree

instance : Inhabited Node := ⟨{ st := St.init [], rpath := [], parent := 0 }⟩

structure Explore where
  idx : Std.HashMap String Nat := {}
  nodes : Array Node := #[]
  edges : Nat := 0

/-- depth-first enumeration of the reachable states of one configuration (spanning tree recorded) -/
partial def dfs (v : Variant) (ds : List Dir) (i : Nat) (ex : Explore) : Explore :=
  let nd := ex.nodes[i]!
  (enabledActs v nd.st).foldl (fun ex a =>
    match step v nd.st a with
    | none => ex
    | some s' =>
      let ex := { ex with edges := ex.edges + 1 }
      let k := stateKey s' ds
      if ex.idx.contains k then ex
      else
        let j := ex.nodes.size
        let ex := { ex with idx := ex.idx.insert k j,
                            nodes := (ex.nodes.modify i (fun n => { n with kids := n.kids.push (j, a) })).push
                              { st := s', rpath := a :: nd.rpath, parent := i } }
        dfs v ds j ex) ex

def edgeKey (i : Nat) (a : Act) : String := toString i ++ "#" ++ actStr a

/-- a set of complete schedules on which every transition of the state graph lies. Each schedule
starts in the initial state, takes a transition that is on no earlier schedule whenever the current
state has one, otherwise descends into the spanning-tree child whose subtree has most of them left,
and when there is nothing left below, runs to a terminal state (plus the reload suffix). -/
partial def cover (v : Variant) (ds : List Dir) (ex0 : Explore) : Array (List Act) := Id.run do
  let mut nodes := ex0.nodes
  -- rem := number of out-transitions in the subtree (children come after parents in `nodes`)
  for i in [0:nodes.size] do
    nodes := nodes.modify i (fun n => { n with rem := (enabledActs v n.st).length })
  let mut i := nodes.size
  while i > 1 do
    i := i - 1
    let r := nodes[i]!.rem
    let p := nodes[i]!.parent
    nodes := nodes.modify p (fun n => { n with rem := n.rem + r })
  let mut cov : Std.HashSet String := {}
  let mut out : Array (List Act) := #[]
  while nodes[0]!.rem > 0 do
    let mut cur := 0
    let mut racc : List Act := nodes[0]!.rpath
    let mut go := true
    while go do
      let nd := nodes[cur]!
      match (enabledActs v nd.st).find? (fun a => !cov.contains (edgeKey cur a)) with
      | some a =>
        cov := cov.insert (edgeKey cur a)
        -- one transition less in every subtree containing `cur`
        let mut j := cur
        let mut up := true
        while up do
          nodes := nodes.modify j (fun n => { n with rem := n.rem - 1 })
          if j == 0 then up := false else j := nodes[j]!.parent
        match step v nd.st a with
        | some s' =>
          racc := a :: racc
          cur := (ex0.idx.get? (stateKey s' ds)).getD 0
        | none => go := false
      | none =>
        let best := nd.kids.foldl (fun (b : Option (Nat × Act)) (c : Nat × Act) =>
          if nodes[c.1]!.rem == 0 then b else
          match b with
          | none => some c
          | some b' => if nodes[c.1]!.rem > nodes[b'.1]!.rem then some c else b) none
        match best with
        | some (c, a) => racc := a :: racc; cur := c
        | none => go := false
    let (s2, tail) := complete v nodes[cur]!.st []
    let acts := racc.reverse ++ tail
    out := out.push (if Deadlocked v s2 then acts else acts ++ reloadSuffix v s2 ds)
  return out

def configs : List (String × List Act) :=
  [ ("2req-same-shard+del", [.newReq (0,0), .newReq (0,0), .newDel 0]),
    ("2req-two-shards+del", [.newReq (0,0), .newReq (0,1), .newDel 0]),
    ("2req-two-collections+del", [.newReq (0,0), .newReq (1,0), .newDel 0]),
    ("req+del+del", [.newReq (0,0), .newDel 0, .newDel 0]),
    -- loads that fail: the database file of a shard is garbage / a non-directory sits at its path
    ("badfile+2req-same-shard+del", [.corrupt (0,0), .newReq (0,0), .newReq (0,0), .newDel 0]),
    ("badfile+req-bad+req-good+del", [.corrupt (0,0), .newReq (0,0), .newReq (0,1), .newDel 0]),
    ("blocked+req-blocked+req-good+del", [.block (0,0), .newReq (0,0), .newReq (0,1), .newDel 0]) ]

def initOf (v : Variant) (calls : List Act) : St :=
  (runSched v (St.init []) calls).1

def exploreConfig (v : Variant) (calls : List Act) : Explore :=
  let ds := dirUniverse calls
  let s0 := initOf v calls
  dfs v ds 0 { idx := ({} : Std.HashMap String Nat).insert (stateKey s0 ds) 0, nodes := #[{ st := s0, rpath := calls.reverse, parent := 0 }] }

-- splitmix64, as in go/vh
structure Rng where s : UInt64
def Rng.new (seed : UInt64) : Rng := ⟨seed * 0x9E3779B97F4A7C15 + 0x1234567⟩
def Rng.next (r : Rng) : UInt64 × Rng :=
  let s := r.s + 0x9E3779B97F4A7C15
  let z := s
  let z := (z ^^^ (z >>> 30)) * 0xBF58476D1CE4E5B9
  let z := (z ^^^ (z >>> 27)) * 0x94D049BB133111EB
  (z ^^^ (z >>> 31), ⟨s⟩)
def Rng.below (r : Rng) (n : Nat) : Nat × Rng :=
  let (x, r) := r.next
  (if n == 0 then 0 else x.toNat % n, r)

/-- a random walk to a terminal (or deadlocked) state; `fire` is taken with reduced probability so
that requests overlap with loaded shards more often -/
partial def randomWalk (v : Variant) (s : St) (acc : List Act) (r : Rng) : St × List Act × Rng :=
  match enabledActs v s with
  | [] => (s, acc.reverse, r)
  | as =>
    let runs := as.filter (fun a => match a with | .run _ => true | _ => false)
    let (coin, r) := r.below 4
    let pool := if coin == 0 || runs.isEmpty then as else runs
    let (i, r) := r.below pool.length
    let a := pool[i]!
    match step v s a with
    | some s' => randomWalk v s' (a :: acc) r
    | none => (s, acc.reverse, r)

def randomScheds (v : Variant) (n : Nat) (seed : UInt64) : Array (List Act) := Id.run do
  let mut r := Rng.new seed
  let mut out : Array (List Act) := #[]
  for i in [0:n] do
    let (_, calls) := configs[i % configs.length]!
    let ds := dirUniverse calls
    let s0 := initOf v calls
    let (s', walk, r') := randomWalk v s0 [] r
    r := r'
    let acts := calls ++ walk
    out := out.push (if Deadlocked v s' then acts else acts ++ reloadSuffix v s' ds)
  return out

def witnessActs : List Act := witnessPrefix

/-- why the repaired cleanup goroutine removes the map entry only if it is still its own: the shard
is unloaded (closed, ls.mu released), a deletion removes entry and files, a new request loads the
shard again, only then does the old cleanup goroutine reach its map step, and a third request
must find the reloaded shard in the store (not open the file a second time) -/
def staleCleanupActs : List Act :=
  [.newReq (0,0)] ++ List.replicate 7 (.run 0) ++ [.run 1, .fire 1] ++ List.replicate 7 (.run 1) ++
  [.newDel 0] ++ List.replicate 10 (.run 2) ++ [.newReq (0,0)] ++ List.replicate 7 (.run 3) ++ List.replicate 3 (.run 1) ++
  [.newReq (0,0)] ++ List.replicate 4 (.run 5)

/-- a request on a shard whose database file is garbage returns its error; only THEN do a request on
another shard of the collection, a deletion of the collection and a request on the (now repaired)
first shard arrive: every one of them needs `shardLock` -/
def openFailActs : List Act :=
  [.corrupt (0,0), .newReq (0,0)] ++ List.replicate 5 (.run 0) ++ [.newReq (0,1)] ++ List.replicate 11 (.run 1) ++
  [.newDel 0] ++ List.replicate 4 (.run 3)

/-- the same with a non-directory at the shard path (`MkdirAll` fails), and a second failing request -/
def mkdirFailActs : List Act :=
  [.block (1,0), .newReq (1,0)] ++ List.replicate 4 (.run 0) ++ [.newReq (1,1), .newReq (1,0)] ++ List.replicate 3 (.run 1)

/-- a shard is loaded and unloaded by its idle timer; then its file is overwritten with garbage; the
next request fails cleanly, a deletion removes the garbage, the request after it loads again -/
def corruptAfterUnloadActs : List Act :=
  [.newReq (0,0)] ++ List.replicate 11 (.run 0) ++ [.run 1, .fire 1] ++ List.replicate 10 (.run 1) ++
  [.corrupt (0,0), .newReq (0,0)] ++ List.replicate 5 (.run 2) ++ [.newDel 0] ++ List.replicate 6 (.run 3) ++ [.newReq (0,0)]

/-- a transient failure: two requests on a shard whose database file is garbage fail; the file is
repaired (a torn transfer completed); the next request on the same shard must load it -/
def transientFailActs : List Act :=
  [.corrupt (0,0), .newReq (0,0)] ++ List.replicate 5 (.run 0) ++ [.newReq (0,0)] ++ List.replicate 5 (.run 1) ++
  [.repair (0,0), .newReq (0,0)] ++ List.replicate 11 (.run 2) ++ [.newReq (0,0)] ++ List.replicate 8 (.run 4)

def fixedScheds (v : Variant) : List (List Act) :=
  [witnessActs, staleCleanupActs, openFailActs, mkdirFailActs, corruptAfterUnloadActs, transientFailActs].map fun pre =>
    -- the prefix as far as it is enabled in the model of this variant, completed to a terminal state
    let (s, n) := runSched v (St.init []) pre
    let pre := pre.take n
    finish v pre s (dirUniverse pre)

def genMain (out : IO.FS.Stream) (v : Variant) (tier : String) (seed : Nat) : IO Unit := do
  for acts in fixedScheds v do
    out.putStrLn (schedLine v acts)
  if tier == "thorough" then
    -- transition cover of the state graph of every configuration
    let mut ci := 0
    for (name, calls) in configs do
      let ex := exploreConfig v calls
      let sc := cover v (dirUniverse calls) ex
      let stride := 1
      let mut n := 0
      let mut k := 0
      for acts in sc do
        if k % stride == seed % stride then
          out.putStrLn (schedLine v acts)
          n := n + 1
        k := k + 1
      out.putStrLn s!"# cover {name}: states={ex.nodes.size} transitions={ex.edges} cover_schedules={sc.size} emitted={n}"
      ci := ci + 1
    for acts in randomScheds v 315 (UInt64.ofNat seed) do
      out.putStrLn (schedLine v acts)
  else
    for acts in randomScheds v 210 (UInt64.ofNat seed) do
      out.putStrLn (schedLine v acts)

def statsMain (out : IO.FS.Stream) (v : Variant) : IO Unit := do
  for (name, calls) in configs do
    let ex := exploreConfig v calls
    let sc := cover v (dirUniverse calls) ex
    out.putStrLn s!"{name}: states={ex.nodes.size} edges={ex.edges} schedules={sc.size} acts={sc.foldl (fun n l => n + l.length) 0}"

end Sema.C12

def Sema.C12.driverMain (stdin stdout : IO.FS.Stream) (args : List String) : IO Unit :=
  match args with
  | ["gen", v, tier, seed] =>
    match Sema.C12.parseVariant v with
    | some v => Sema.C12.genMain stdout v tier seed.toNat!
    | none => stdout.putStrLn "bad variant"
  | ["variant"] =>
    let g := Sema.C12.detectVariant Sema.Gen.FactsC12.loadShard Sema.Gen.FactsC12.cleanupRoutine Sema.Gen.FactsC12.DoWithShard
      Sema.Gen.FactsC12.DeleteCollectionShards Sema.Gen.FactsC12.fieldUsers Sema.Gen.FactsC12.callbacksReenter
    stdout.putStrLn (match g with | some v => Sema.C12.variantStr v | none => "unknown")
  | ["stats", v] =>
    match Sema.C12.parseVariant v with
    | some v => Sema.C12.statsMain stdout v
    | none => stdout.putStrLn "bad variant"
  | _ => Sema.loopPure stdin stdout Sema.C12.runLine
