/-
C12 — the inductive invariant `Inv` of the repaired shard-manager model (`Variant.repaired`): pc
classifiers, the open-handle count, and the invariant itself. Its preservation is proved field by
field in `SemaModel/C12/Pres/*.lean` (one module per field so that lake builds them in parallel;
all of the same shape: case split on the action and the program counter, then `grind` with the
invariant fields needed) and assembled in `SemaModel/C12/Lemmas.lean`.
-/
import SemaModel.C12.Model
namespace Sema.C12

/-- pcs at which the thread holds `shardLock` -/
def holdsStore : PC → Bool
  | .rqLookup _ | .rqSend _ | .rqMkdir _ | .rqOpen _ | .rqPut _ _ | .rqSpawn _ | .rqUnlockStore _ | .rqLoadErr => true
  | .clMapDel _ | .clUnlockStore _ => true
  | .dlReaddir _ | .dlLookup _ _ | .dlLockW _ _ _ | .dlWWait _ _ _ | .dlNilCheck _ _ _ | .dlSend _ _ _
  | .dlClose _ _ _ | .dlSetNil _ _ _ | .dlUnlockW _ _ _ | .dlMapDel _ _ | .dlRemove _ _ | .dlUnlockStore => true
  | _ => false

/-- pcs at which the thread owns the writer slot of `ls.mu` (repaired variant) -/
def wslot : PC → Option Oid
  | .clWWait o | .clNilCheck o | .clBackup o | .clClose o | .clSetNil o | .clUnlockW o _ => some o
  | .dlWWait o _ _ | .dlNilCheck o _ _ | .dlSend o _ _ | .dlClose o _ _ | .dlSetNil o _ _ | .dlUnlockW o _ _ => some o
  | _ => none

/-- pcs at which the thread holds `ls.mu` for writing (slot owned and readers drained) -/
def wactive : PC → Option Oid
  | .clNilCheck o | .clBackup o | .clClose o | .clSetNil o | .clUnlockW o _ => some o
  | .dlNilCheck o _ _ | .dlSend o _ _ | .dlClose o _ _ | .dlSetNil o _ _ | .dlUnlockW o _ _ => some o
  | _ => none

/-- pcs at which the thread holds `ls.mu` for reading -/
def rslot : PC → Option Oid
  | .rqNilCheck o | .rqInCb o | .rqRUnlock o _ => some o
  | _ => none

/-- the loaded-shard object a pc refers to -/
def PC.ref : PC → Option Oid
  | .rqSend o | .rqPut _ o | .rqSpawn o | .rqUnlockStore o | .rqRLock o | .rqRWait o | .rqNilCheck o | .rqInCb o
  | .rqRUnlock o _ => some o
  | .clLoop o | .clSelect o | .clRecv o _ | .clLockW o | .clWWait o | .clNilCheck o | .clBackup o | .clClose o
  | .clSetNil o | .clUnlockW o _ | .clLockStore o | .clMapDel o | .clUnlockStore o => some o
  | .dlLockW o _ _ | .dlWWait o _ _ | .dlNilCheck o _ _ | .dlSend o _ _ | .dlClose o _ _ | .dlSetNil o _ _
  | .dlUnlockW o _ _ => some o
  | _ => none

/-- pcs that use the shard handle: callback body, backup, close, the nil-checked deletion path -/
def needsOpen : PC → Option Oid
  | .rqInCb o | .clBackup o | .clClose o | .dlSend o _ _ | .dlClose o _ _ => some o
  | _ => none

/-- pcs at which the shard reference is known to be nil -/
def knowsNil : PC → Option Oid
  | .clUnlockW o _ | .clLockStore o | .clMapDel o | .dlUnlockW o _ _ => some o
  | _ => none

/-- pcs (under `shardLock`) at which the directory is known to have no store entry -/
def missDir : PC → Option Dir
  | .rqMkdir d | .rqOpen d | .rqPut d _ | .dlRemove d _ => some d
  | _ => none

/-- deletion pcs working on object `o` found under directory `d` -/
def dlObj : PC → Option (Oid × Dir)
  | .dlLockW o d _ | .dlWWait o d _ | .dlNilCheck o d _ | .dlSend o d _ | .dlClose o d _ | .dlSetNil o d _
  | .dlUnlockW o d _ => some (o, d)
  | _ => none

/-- cleanup-goroutine pcs -/
def cleanerOf : PC → Option Oid
  | .clLoop o | .clSelect o | .clRecv o _ | .clLockW o | .clWWait o | .clNilCheck o | .clBackup o | .clClose o
  | .clSetNil o | .clUnlockW o _ | .clLockStore o | .clMapDel o | .clUnlockStore o => some o
  | _ => none

/-- loadShard pcs between allocation of the object and the `go cleanupRoutine` statement -/
def preSpawn : PC → Option Oid
  | .rqPut _ o | .rqSpawn o => some o
  | _ => none

/-- cleanup-goroutine pcs before it has asked for `ls.mu` -/
def alive : PC → Option Oid
  | .clLoop o | .clSelect o | .clRecv o _ | .clLockW o => some o
  | _ => none

/-- the deletion pc that removes the store entry of directory `d` -/
def delOf : PC → Option Dir
  | .dlMapDel d _ => some d
  | _ => none

/-- pcs of the thread that closed the shard of `o`, up to the removal of the store entry -/
def dutyO : PC → Option Oid
  | .clSetNil o | .clUnlockW o true | .clLockStore o | .clMapDel o | .dlSetNil o _ _ | .dlUnlockW o _ _ => some o
  | _ => none

/-- 1 if the object holds an open handle on directory `d` -/
def ind (d : Dir) (ob : Obj) : Nat := if ob.dir = d ∧ ob.sh = .opened then 1 else 0

/-- number of objects holding an open handle on directory `d` -/
def cnt (d : Dir) : List Obj → Nat
  | [] => 0
  | ob :: l => ind d ob + cnt d l

@[grind =] theorem cnt_append (d : Dir) (l : List Obj) (ob : Obj) : cnt d (l ++ [ob]) = cnt d l + ind d ob := by
  induction l with
  | nil => simp [cnt]
  | cons x xs ih => simp [cnt, ih]; omega

theorem cnt_set (d : Dir) (l : List Obj) (o : Oid) (old new : Obj) (h : l[o]? = some old) :
    cnt d (l.set o new) + ind d old = cnt d l + ind d new := by
  induction l generalizing o with
  | nil => simp at h
  | cons x xs ih =>
    cases o with
    | zero => simp at h; subst h; simp [cnt]; omega
    | succ n => simp at h; have := ih n h; simp [cnt]; omega

grind_pattern cnt_set => cnt d (l.set o new), l[o]?, some old

@[grind =] theorem getElem?_snoc_length {α : Type} (l : List α) (a : α) : (l ++ [a])[l.length]? = some a := by simp

theorem sh_tri (ob : Obj) : ob.sh = .opened ∨ ob.sh = .closed ∨ ob.sh = .nil := by
  cases h : ob.sh <;> simp
grind_pattern sh_tri => ob.sh

/-- pcs right after `Close`, before the reference is set to nil -/
def setsNil : PC → Option Oid
  | .clSetNil o | .dlSetNil o _ _ => some o
  | _ => none

-- bridges between the pc classifiers
@[grind →] theorem wactive_of_setsNil {pc : PC} {o : Oid} : setsNil pc = some o → wactive pc = some o := by
  cases pc <;> simp [setsNil, wactive]
@[grind →] theorem ref_of_wslot {pc : PC} {o : Oid} : wslot pc = some o → pc.ref = some o := by
  cases pc <;> simp [wslot, PC.ref]
@[grind →] theorem wslot_of_wactive {pc : PC} {o : Oid} : wactive pc = some o → wslot pc = some o := by
  cases pc <;> simp [wslot, wactive]
@[grind →] theorem ref_of_rslot {pc : PC} {o : Oid} : rslot pc = some o → pc.ref = some o := by
  cases pc <;> simp [rslot, PC.ref]
@[grind →] theorem ref_of_needsOpen {pc : PC} {o : Oid} : needsOpen pc = some o → pc.ref = some o := by
  cases pc <;> simp [needsOpen, PC.ref]
@[grind →] theorem needsOpen_cases {pc : PC} {o : Oid} : needsOpen pc = some o → rslot pc = some o ∨ wactive pc = some o := by
  cases pc <;> simp [needsOpen, rslot, wactive]
@[grind →] theorem ref_of_knowsNil {pc : PC} {o : Oid} : knowsNil pc = some o → pc.ref = some o := by
  cases pc <;> simp [knowsNil, PC.ref]
@[grind →] theorem holds_of_missDir {pc : PC} {d : Dir} : missDir pc = some d → holdsStore pc = true := by
  cases pc <;> simp [missDir, holdsStore]
@[grind →] theorem holds_of_dlObj {pc : PC} {o : Oid} {d : Dir} : dlObj pc = some (o, d) → holdsStore pc = true := by
  cases pc <;> simp [dlObj, holdsStore]
@[grind →] theorem ref_of_cleanerOf {pc : PC} {o : Oid} : cleanerOf pc = some o → pc.ref = some o := by
  cases pc <;> simp [cleanerOf, PC.ref]
@[grind →] theorem ref_of_preSpawn {pc : PC} {o : Oid} : preSpawn pc = some o → pc.ref = some o := by
  cases pc <;> simp [preSpawn, PC.ref]
@[grind →] theorem holds_of_preSpawn {pc : PC} {o : Oid} : preSpawn pc = some o → holdsStore pc = true := by
  cases pc <;> simp [preSpawn, holdsStore]
@[grind →] theorem cleanerOf_of_alive {pc : PC} {o : Oid} : alive pc = some o → cleanerOf pc = some o := by
  cases pc <;> simp [alive, cleanerOf]
@[grind →] theorem ref_of_dutyO {pc : PC} {o : Oid} : dutyO pc = some o → pc.ref = some o := by
  cases pc <;> simp [dutyO, PC.ref]
  rename_i o' b; cases b <;> simp [dutyO]
@[grind →] theorem holds_of_delOf {pc : PC} {d : Dir} : delOf pc = some d → holdsStore pc = true := by
  cases pc <;> simp [delOf, holdsStore]
-- facts about the two pcs of the `fire` action, triggered by the constructor terms
theorem cls_clSelect (o : Oid) : cleanerOf (.clSelect o) = some o ∧ alive (.clSelect o) = some o ∧ (PC.clSelect o).ref = some o := by
  simp [cleanerOf, alive, PC.ref]
grind_pattern cls_clSelect => PC.clSelect o
theorem cls_clLockW (o : Oid) : cleanerOf (.clLockW o) = some o ∧ alive (.clLockW o) = some o ∧ (PC.clLockW o).ref = some o := by
  simp [cleanerOf, alive, PC.ref]
grind_pattern cls_clLockW => PC.clLockW o
@[grind →] theorem ref_of_dlObj {pc : PC} {o : Oid} {d : Dir} : dlObj pc = some (o, d) → pc.ref = some o := by
  cases pc <;> simp [dlObj, PC.ref] <;> intros <;> simp_all

structure Inv (s : St) : Prop where
  lockA : ∀ (t : Tid) (pc : PC), s.thr[t]? = some pc → holdsStore pc = true → s.lock = some t
  lockB : ∀ (t : Tid), s.lock = some t → ∃ pc : PC, s.thr[t]? = some pc ∧ holdsStore pc = true
  refs : ∀ (t : Tid) (pc : PC) (o : Oid), s.thr[t]? = some pc → pc.ref = some o → o < s.objs.length
  wrA : ∀ (t : Tid) (pc : PC) (o : Oid), s.thr[t]? = some pc → wslot pc = some o → ∃ ob : Obj, s.objs[o]? = some ob ∧ ob.wr = some t
  wrB : ∀ (o : Oid) (ob : Obj) (t : Tid), s.objs[o]? = some ob → ob.wr = some t → ∃ pc : PC, s.thr[t]? = some pc ∧ wslot pc = some o
  rdA : ∀ (t : Tid) (pc : PC) (o : Oid), s.thr[t]? = some pc → rslot pc = some o → ∃ ob : Obj, s.objs[o]? = some ob ∧ t ∈ ob.readers
  rdB : ∀ (o : Oid) (ob : Obj) (t : Tid), s.objs[o]? = some ob → t ∈ ob.readers → ∃ pc : PC, s.thr[t]? = some pc ∧ (rslot pc = some o ∨ pc = PC.rqRWait o)
  rwA : ∀ (t : Tid) (o : Oid), s.thr[t]? = some (PC.rqRWait o) → ∃ ob : Obj, s.objs[o]? = some ob ∧ (t ∈ ob.readers ∨ t ∈ ob.rwait)
  rwB : ∀ (o : Oid) (ob : Obj) (t : Tid), s.objs[o]? = some ob → t ∈ ob.rwait → ob.wr ≠ none ∧ t ∉ ob.readers ∧ s.thr[t]? = some (PC.rqRWait o)
  wact : ∀ (t : Tid) (pc : PC) (o : Oid) (ob : Obj), s.thr[t]? = some pc → wactive pc = some o → s.objs[o]? = some ob → ob.readers = []
  shOpen : ∀ (t : Tid) (pc : PC) (o : Oid) (ob : Obj), s.thr[t]? = some pc → needsOpen pc = some o → s.objs[o]? = some ob → ob.sh = Sh.opened
  shClW : ∀ (o : Oid) (ob : Obj), s.objs[o]? = some ob → ob.sh = Sh.closed → ob.wr ≠ none
  shClR : ∀ (o : Oid) (ob : Obj), s.objs[o]? = some ob → ob.sh = Sh.closed → ob.readers = []
  shCl : ∀ (t : Tid) (pc : PC) (o : Oid) (ob : Obj), s.thr[t]? = some pc → setsNil pc = some o → s.objs[o]? = some ob → ob.sh = Sh.closed
  shClT : ∀ (o : Oid) (ob : Obj) (t : Tid), s.objs[o]? = some ob → ob.sh = Sh.closed → ob.wr = some t → ∃ pc : PC, s.thr[t]? = some pc ∧ setsNil pc = some o
  shNil : ∀ (t : Tid) (pc : PC) (o : Oid) (ob : Obj), s.thr[t]? = some pc → knowsNil pc = some o → s.objs[o]? = some ob → ob.sh = Sh.nil
  stObj : ∀ (d : Dir) (o : Oid), s.store d = some o → o < s.objs.length ∧ ∀ (ob : Obj), s.objs[o]? = some ob → ob.dir = d
  openSt : ∀ (o : Oid) (ob : Obj), s.objs[o]? = some ob → ob.sh = Sh.opened → s.store ob.dir ≠ some o → s.lock ≠ none ∧ ∀ (t : Tid), s.lock = some t → s.thr[t]? = some (PC.rqPut ob.dir o)
  putDir : ∀ (t : Tid) (d : Dir) (o : Oid) (ob : Obj), s.thr[t]? = some (PC.rqPut d o) → s.objs[o]? = some ob → ob.dir = d
  miss : ∀ (t : Tid) (pc : PC) (d : Dir), s.thr[t]? = some pc → missDir pc = some d → s.store d = none
  dlSt : ∀ (t : Tid) (pc : PC) (o : Oid) (d : Dir), s.thr[t]? = some pc → dlObj pc = some (o, d) → s.store d = some o
  dlDel : ∀ (t : Tid) (d : Dir) (r : List Dir) (o : Oid) (ob : Obj), s.thr[t]? = some (PC.dlMapDel d r) → s.store d = some o → s.objs[o]? = some ob → ob.sh = Sh.nil
  clA : ∀ (t : Tid) (pc : PC) (o : Oid) (ob : Obj), s.thr[t]? = some pc → cleanerOf pc = some o → s.objs[o]? = some ob → ob.cl = some t
  noCl : ∀ (t : Tid) (pc : PC) (o : Oid) (ob : Obj), s.thr[t]? = some pc → preSpawn pc = some o → s.objs[o]? = some ob → ob.cl = none
  msgTrue : ∀ (o : Oid) (ob : Obj), s.objs[o]? = some ob → ob.msg = some true → ob.sh ≠ Sh.opened ∨ ob.wr ≠ none
  recvTrue : ∀ (t : Tid) (o : Oid) (ob : Obj), s.thr[t]? = some (PC.clRecv o true) → s.objs[o]? = some ob → ob.sh ≠ Sh.opened ∨ ob.wr ≠ none
  selA : ∀ (t : Tid) (o : Oid) (ob : Obj), s.thr[t]? = some (PC.clSelect o) → s.objs[o]? = some ob → ob.msg = none → ob.sel = true
  clAlive : ∀ (o : Oid) (ob : Obj) (c : Tid), s.objs[o]? = some ob → ob.sh = Sh.opened → ob.cl = some c → ob.wr = none → ∃ pc : PC, s.thr[c]? = some pc ∧ alive pc = some o
  putNotSt : ∀ (t : Tid) (d : Dir) (o : Oid) (d' : Dir), s.thr[t]? = some (PC.rqPut d o) → s.store d' ≠ some o
  putOpen : ∀ (t : Tid) (d : Dir) (o : Oid) (ob : Obj), s.thr[t]? = some (PC.rqPut d o) → s.objs[o]? = some ob → ob.sh = Sh.opened ∧ ob.wr = none
  stNil : ∀ (d : Dir) (o : Oid) (ob : Obj), s.store d = some o → s.objs[o]? = some ob → ob.sh ≠ Sh.opened → ob.closedBy ≠ none ∧ ∀ (t : Tid), ob.closedBy = some t → ∃ pc : PC, s.thr[t]? = some pc ∧ (dutyO pc = some o ∨ delOf pc = some d)
  stCl : ∀ (d : Dir) (o : Oid) (ob : Obj), s.store d = some o → s.objs[o]? = some ob → ob.cl = none → s.lock ≠ none ∧ ∀ (t : Tid), s.lock = some t → s.thr[t]? = some (PC.rqSpawn o)
  opensC : ∀ (d : Dir), s.opens d = cnt d s.objs

theorem inv_init (dirs : List Dir) : Inv (St.init dirs) := by
  constructor <;> simp [St.init, cnt]

end Sema.C12
