/-
C12 — Shard loading, idle unloading and collection deletion are safe and deadlock-free.

All theorems but the witness are about `Reachable .repaired`: every state the repaired shard manager
model can reach from an empty manager (with any shard directories already on disk), for ANY number
of DoWithShard calls, DeleteCollectionShards calls, shards and collections arriving at any time, the
idle timer of every loaded shard firing at any moment, LOADS THAT FAIL (the environment may at any
time make the database file of a shard directory unopenable — `Act.corrupt` — or put a non-directory
at the path of a shard directory — `Act.block` —, or make an unopenable file openable again —
`Act.repair`; `shard.NewShard` / `os.MkdirAll` return an error inside loadShard while `bad` / `blocked`), and every interleaving at the granularity of single lock / map / channel /
file-system operations.
-/
import SemaModel.C12.Helpers
import SemaModel.C12.Skeleton
import SemaModel.Generated.FactsC12
namespace Sema.C12

/-! ## Tie to the source (T2): the skeletons extracted from cluster/shardmgr.go on this run are the
ones the repaired model was written from -/

theorem C12_skeleton_pinned :
    detectVariant Sema.Gen.FactsC12.loadShard Sema.Gen.FactsC12.cleanupRoutine Sema.Gen.FactsC12.DoWithShard
      Sema.Gen.FactsC12.DeleteCollectionShards Sema.Gen.FactsC12.fieldUsers Sema.Gen.FactsC12.callbacksReenter
      = some .repaired := by decide

/-! ## Safety -/

/-- A callback runs only while its shard is open and read-locked: a request inside its callback
holds `ls.mu` for reading, the handle is open, and no thread holds `ls.mu` for writing. -/
theorem C12_no_use_after_close {s : St} (h : Reachable .repaired s) {t : Tid} {o : Oid}
    (ht : s.thr[t]? = some (.rqInCb o)) :
    ∃ ob, s.objs[o]? = some ob ∧ ob.sh = .opened ∧ t ∈ ob.readers ∧
      ∀ (t' : Tid) (pc' : PC), s.thr[t']? = some pc' → wactive pc' ≠ some o := by
  have I := inv_reachable h
  obtain ⟨ob, hob, hr⟩ := I.rdA t _ o ht rfl
  refine ⟨ob, hob, I.shOpen t _ o ob ht rfl hob, hr, ?_⟩
  intro t' pc' ht' hw
  have := I.wact t' pc' o ob ht' hw hob
  simp [this] at hr

/-- Every step that uses the shard handle (callback body, backup, Close, the deletion's
signal-and-close path) finds it open. -/
theorem C12_handle_users_open {s : St} (h : Reachable .repaired s) {t : Tid} {pc : PC} {o : Oid} {ob : Obj}
    (ht : s.thr[t]? = some pc) (hu : needsOpen pc = some o) (hob : s.objs[o]? = some ob) : ob.sh = .opened :=
  (inv_reachable h).shOpen t pc o ob ht hu hob

example : Reachable .repaired (runSched .repaired (St.init []) ([.newReq (0,0)] ++ List.replicate 9 (.run 0))).1 ∧
    (runSched .repaired (St.init []) ([.newReq (0,0)] ++ List.replicate 9 (.run 0))).1.thr[0]? = some (.rqInCb 0) := by
  constructor
  · exact reachable_runSched _ _
  · decide

/-- Never two open bbolt handles on the database file of one shard directory. -/
theorem C12_single_open {s : St} (h : Reachable .repaired s) (d : Dir) : s.opens d ≤ 1 := by
  have I := inv_reachable h
  rw [I.opensC d]
  apply cnt_le_one
  intro i j obi obj hi hj gi gj
  unfold ind at gi gj
  split at gi <;> try omega
  split at gj <;> try omega
  rename_i a b
  exact two_open_same_dir I hi hj a.2 b.2 (a.1.trans b.1.symm)

example : (runSched .repaired (St.init []) ([.newReq (0,0)] ++ List.replicate 10 (.run 0))).1.opens (0,0) = 1 := by decide

/-- Files are removed only when nobody uses the shard: when a deletion is about to call
`os.RemoveAll` on a shard directory, no object of that directory has an open handle (so no bbolt
handle is open on it) and no thread is inside a callback, backup or close on such an object. -/
theorem C12_no_remove_in_use {s : St} (h : Reachable .repaired s) {t : Tid} {d : Dir} {r : List Dir}
    (ht : s.thr[t]? = some (.dlRemove d r)) :
    s.opens d = 0 ∧
    (∀ (o : Oid) (ob : Obj), s.objs[o]? = some ob → ob.dir = d → ob.sh ≠ .opened) ∧
    (∀ (t' : Tid) (pc' : PC) (o : Oid) (ob : Obj), s.thr[t']? = some pc' → needsOpen pc' = some o →
        s.objs[o]? = some ob → ob.dir ≠ d) := by
  have I := inv_reachable h
  have hlock : s.lock = some t := I.lockA t _ ht rfl
  have hst : s.store d = none := I.miss t _ d ht rfl
  have key : ∀ (o : Oid) (ob : Obj), s.objs[o]? = some ob → ob.dir = d → ob.sh ≠ .opened := by
    intro o ob hob hd hop
    have := I.openSt o ob hob hop (by rw [hd, hst]; simp)
    have e := this.2 t hlock
    rw [ht] at e
    cases e
  refine ⟨?_, key, ?_⟩
  · rw [I.opensC d]
    apply cnt_zero
    intro i ob hi
    unfold ind
    split
    · rename_i a; exact absurd a.2 (key i ob hi a.1)
    · rfl
  · intro t' pc' o ob ht' hu hob hd
    exact key o ob hob hd (I.shOpen t' pc' o ob ht' hu hob)

/-- A request that loses the race against an unload or a deletion gets an error, never a closed
shard: at its nil check the shard reference is either open (then the callback runs on it, see
`C12_no_use_after_close`) or nil (then the call returns the error without running the callback);
it is never a closed handle that is not nil. -/
theorem C12_clean_error {s : St} (h : Reachable .repaired s) {t : Tid} {o : Oid}
    (ht : s.thr[t]? = some (.rqNilCheck o)) :
    ∃ ob, s.objs[o]? = some ob ∧ t ∈ ob.readers ∧
      ((ob.sh = .nil ∧ ∃ s', step .repaired s (.run t) = some s' ∧ s'.thr[t]? = some (.rqRUnlock o .err)) ∨
       (ob.sh = .opened ∧ ∃ s', step .repaired s (.run t) = some s' ∧ s'.thr[t]? = some (.rqInCb o))) := by
  have I := inv_reachable h
  obtain ⟨ob, hob, hr⟩ := I.rdA t _ o ht rfl
  have hlt : t < s.thr.length := by
    have := (List.getElem?_eq_some_iff.mp ht).1; exact this
  refine ⟨ob, hob, hr, ?_⟩
  rcases sh_tri ob with g | g | g
  · right
    refine ⟨g, _, by simp [step, ht, stepPc, hob, g]; rfl, ?_⟩
    simp [St.setPc, hlt]
  · have := I.shClR o ob hob g
    simp [this] at hr
  · left
    refine ⟨g, _, by simp [step, ht, stepPc, hob, g]; rfl, ?_⟩
    simp [St.setPc, hlt]

/-! ## Deadlock freedom -/

/-- Every reachable state in which some thread has work to do (an unfinished DoWithShard /
DeleteCollectionShards call, or a cleanup goroutine that is not merely waiting for its timer) has
an enabled step of such a thread. No timer is needed to make progress. Since every call is a finite
straight-line program, every call therefore returns under any fair schedule. -/
theorem C12_deadlock_free {s : St} (h : Reachable .repaired s)
    (hb : ∃ (t : Tid) (pc : PC), s.thr[t]? = some pc ∧ busy s pc = true) :
    ∃ (t : Tid) (pc : PC), s.thr[t]? = some pc ∧ busy s pc = true ∧ (step .repaired s (.run t)).isSome = true := by
  have I := inv_reachable h
  -- 1. a thread holding ls.mu for reading can always move
  by_cases h1 : ∃ (t : Tid) (pc : PC) (o : Oid), s.thr[t]? = some pc ∧ rslot pc = some o
  · obtain ⟨t, pc, o, ht, hr⟩ := h1
    obtain ⟨ob, hob, _⟩ := I.rdA t pc o ht hr
    refine ⟨t, pc, ht, ?_, ?_⟩
    · cases pc <;> simp [rslot] at hr <;> simp [busy]
    · rw [run_eq ht]
      cases pc <;> simp [rslot] at hr <;> subst hr <;> simp [stepPc, hob]
      split <;> simp
  -- 2. a reader that has been admitted can move
  by_cases h2 : ∃ (t : Tid) (o : Oid) (ob : Obj), s.thr[t]? = some (.rqRWait o) ∧ s.objs[o]? = some ob ∧ t ∈ ob.readers
  · obtain ⟨t, o, ob, ht, hob, hr⟩ := h2
    exact ⟨t, _, ht, by simp [busy], by rw [run_eq ht]; simp [stepPc, hob, hr]⟩
  -- hence no object has an active reader
  have noReaders : ∀ (o : Oid) (ob : Obj), s.objs[o]? = some ob → ob.readers = [] := by
    intro o ob hob
    cases hr : ob.readers with
    | nil => rfl
    | cons x xs =>
      have hx : x ∈ ob.readers := by rw [hr]; simp
      obtain ⟨pc, hpc, hc⟩ := I.rdB o ob x hob hx
      rcases hc with hc | hc
      · exact absurd ⟨x, pc, o, hpc, hc⟩ h1
      · subst hc; exact absurd ⟨x, o, ob, hpc, hob, hx⟩ h2
  -- 3. the owner of a writer slot can move: nothing blocks while ls.mu is write-held (repaired order)
  by_cases h3 : ∃ (t : Tid) (pc : PC) (o : Oid), s.thr[t]? = some pc ∧ wslot pc = some o
  · obtain ⟨t, pc, o, ht, hw⟩ := h3
    obtain ⟨ob, hob, _⟩ := I.wrA t pc o ht hw
    have hnr := noReaders o ob hob
    refine ⟨t, pc, ht, ?_, ?_⟩
    · cases pc <;> simp [wslot] at hw <;> simp [busy]
    · rw [run_eq ht]
      cases pc <;> simp [wslot] at hw <;> subst hw <;> simp [stepPc, hob, hnr] <;> (try split) <;> simp
  -- hence every writer slot is free
  have noWriter : ∀ (o : Oid) (ob : Obj), s.objs[o]? = some ob → ob.wr = none := by
    intro o ob hob
    cases hw : ob.wr with
    | none => rfl
    | some x =>
      obtain ⟨pc, hpc, hc⟩ := I.wrB o ob x hob hw
      exact absurd ⟨x, pc, o, hpc, hc⟩ h3
  -- 4. the holder of shardLock can move
  cases hl : s.lock with
  | some t =>
    obtain ⟨pc, ht, hh⟩ := I.lockB t hl
    refine ⟨t, pc, ht, ?_, ?_⟩
    · cases pc <;> simp [holdsStore] at hh <;> simp [busy]
    · rw [run_eq ht]
      cases pc <;> simp [holdsStore] at hh <;> simp [stepPc]
      case rqLookup d => split <;> simp
      case rqSend o =>
        have := I.refs t _ o ht rfl
        simp [List.getElem?_eq_getElem this]; split <;> simp
      case rqSpawn o =>
        have := I.refs t _ o ht rfl
        simp [List.getElem?_eq_getElem this]
      case clMapDel o =>
        have := I.refs t _ o ht rfl
        simp [List.getElem?_eq_getElem this]
      case dlReaddir c => split <;> simp
      case dlLookup d r => split <;> simp
      case dlLockW o d r =>
        have := I.refs t _ o ht rfl
        have hw := noWriter o _ (List.getElem?_eq_getElem this)
        simp [List.getElem?_eq_getElem this, hw]
      case dlRemove d r => split <;> simp
      all_goals first
        | (exfalso; exact h3 ⟨t, _, _, ht, rfl⟩)
        | (split <;> simp)   -- rqMkdir / rqOpen: both outcomes (success, failed load) are steps
  | none =>
    -- 5. nothing is held at all: every busy thread is enabled
    obtain ⟨t, pc, ht, hbz⟩ := hb
    refine ⟨t, pc, ht, hbz, ?_⟩
    rw [run_eq ht]
    have holdsNot : holdsStore pc = false := by
      cases hh : holdsStore pc with
      | false => rfl
      | true => have := I.lockA t pc ht hh; rw [hl] at this; cases this
    cases pc <;> simp [holdsStore] at holdsNot <;> simp [busy] at hbz <;> simp [stepPc, hl]
    case rqRLock o =>
      have := I.refs t _ o ht rfl
      have hw := noWriter o _ (List.getElem?_eq_getElem this)
      simp [List.getElem?_eq_getElem this, hw]
    case rqRWait o =>
      obtain ⟨ob, hob, hc⟩ := I.rwA t o ht
      rcases hc with hc | hc
      · exact absurd ⟨t, o, ob, ht, hob, hc⟩ h2
      · exact absurd (noWriter o ob hob) (I.rwB o ob t hob hc).1
    case clLoop o =>
      have := I.refs t _ o ht rfl
      simp [List.getElem?_eq_getElem this]
    case clSelect o =>
      cases hob : s.objs[o]? with
      | none => simp [hob] at hbz
      | some ob =>
        cases hm : ob.msg with
        | none => simp [hob, hm] at hbz
        | some b => simp [hm]
    case clLockW o =>
      have := I.refs t _ o ht rfl
      have hw := noWriter o _ (List.getElem?_eq_getElem this)
      simp [List.getElem?_eq_getElem this, hw]
    all_goals first
      | (exfalso; exact h1 ⟨t, _, _, ht, rfl⟩)
      | (exfalso; exact h3 ⟨t, _, _, ht, rfl⟩)

example : ∃ (t : Tid) (pc : PC), (runSched .repaired (St.init []) witnessPrefix).1.thr[t]? = some pc ∧
    busy (runSched .repaired (St.init []) witnessPrefix).1 pc = true := ⟨0, .rqRWait 0, by decide, by decide⟩

/-- On the lock order of the pinned tree (`cleanupRoutine` keeps `ls.mu` while it takes `shardLock`)
the model deadlocks: after this schedule a request waits for `ls.mu` (RLock behind the writer), the
cleanup goroutine holds `ls.mu` and waits for `shardLock`, the deletion holds `shardLock` and waits
for `ls.mu`; every later call blocks on `shardLock`. (DESIGN §8 no. 7; reproduced on the real code
by the harness when the repair is reverted.) -/
theorem C12_deadlock_witness_pinned :
    (runSched .pinned (St.init []) witnessPrefix).2 = witnessPrefix.length ∧
    Deadlocked .pinned (runSched .pinned (St.init []) witnessPrefix).1 = true := by decide

/-- the same schedule does not deadlock the repaired model -/
example : Deadlocked .repaired (runSched .repaired (St.init []) witnessPrefix).1 = false := by decide

/-! ## Failed loads (the shard directory cannot be created / the database file cannot be opened) -/

/-- A load that fails leaves nothing behind: the request goes to loadShard's deferred unlock with the
store map, the loaded-shard objects, the open-handle counts, the directories and the lock owner
unchanged — no half-registered shard, no handle. (No reachability hypothesis: this is the step itself.) -/
theorem C12_failed_load_clean {s : St} {t : Tid} {d : Dir}
    (ht : (s.thr[t]? = some (.rqOpen d) ∧ s.bad d = true) ∨ (s.thr[t]? = some (.rqMkdir d) ∧ s.blocked d = true)) :
    ∃ s', step .repaired s (.run t) = some s' ∧ s'.thr[t]? = some .rqLoadErr ∧
      s'.store = s.store ∧ s'.objs = s.objs ∧ s'.opens = s.opens ∧ s'.lock = s.lock ∧ s'.dirs = s.dirs := by
  rcases ht with ⟨h1, h2⟩ | ⟨h1, h2⟩
  · have hlt : t < s.thr.length := (List.getElem?_eq_some_iff.mp h1).1
    exact ⟨s.setPc t .rqLoadErr, by simp [step, h1, stepPc, h2], by simp [St.setPc, hlt], rfl, rfl, rfl, rfl, rfl⟩
  · have hlt : t < s.thr.length := (List.getElem?_eq_some_iff.mp h1).1
    exact ⟨s.setPc t .rqLoadErr, by simp [step, h1, stepPc, h2], by simp [St.setPc, hlt], rfl, rfl, rfl, rfl, rfl⟩

/-- After a failed load the deferred `shardLock.Unlock()` runs: the request holds `shardLock`, its step
is enabled whatever the other threads do, it frees the lock and the call returns the error; store,
objects and handle counts stay as they are. So `shardLock` is free for every later DoWithShard and
DeleteCollectionShards (a code change that returns on this path without unlocking is exactly the hang
"one unopenable shard blocks the whole manager"). -/
theorem C12_load_error_releases {s : St} (h : Reachable .repaired s) {t : Tid}
    (ht : s.thr[t]? = some .rqLoadErr) :
    s.lock = some t ∧ ∃ s', step .repaired s (.run t) = some s' ∧ s'.lock = none ∧
      s'.thr[t]? = some (.done .err) ∧ s'.store = s.store ∧ s'.objs = s.objs ∧ s'.opens = s.opens := by
  have I := inv_reachable h
  have hlt : t < s.thr.length := (List.getElem?_eq_some_iff.mp ht).1
  refine ⟨I.lockA t _ ht rfl, ({ s with lock := none } : St).setPc t (.done .err), by simp [step, ht, stepPc], rfl, ?_, rfl, rfl, rfl⟩
  simp [St.setPc, hlt]

/-- A call that has returned (with a result or with an error — in particular after a failed load)
and a cleanup goroutine that has exited hold nothing: not `shardLock`, no writer slot of any `ls.mu`,
no read lock, no place in a reader queue. -/
theorem C12_returned_holds_nothing {s : St} (h : Reachable .repaired s) {t : Tid} {pc : PC}
    (ht : s.thr[t]? = some pc) (hd : (∃ r, pc = .done r) ∨ pc = .exited) :
    s.lock ≠ some t ∧
    ∀ (o : Oid) (ob : Obj), s.objs[o]? = some ob → ob.wr ≠ some t ∧ t ∉ ob.readers ∧ t ∉ ob.rwait := by
  have I := inv_reachable h
  have nh : holdsStore pc = false ∧ wslot pc = none ∧ rslot pc = none ∧ (∀ o, pc ≠ .rqRWait o) := by
    rcases hd with ⟨r, rfl⟩ | rfl <;> simp [holdsStore, wslot, rslot]
  refine ⟨?_, ?_⟩
  · intro hl
    obtain ⟨pc', hpc', hh⟩ := I.lockB t hl
    rw [ht] at hpc'; cases hpc'
    rw [nh.1] at hh; cases hh
  · intro o ob hob
    refine ⟨?_, ?_, ?_⟩
    · intro hw
      obtain ⟨pc', hpc', hh⟩ := I.wrB o ob t hob hw
      rw [ht] at hpc'; cases hpc'
      rw [nh.2.1] at hh; cases hh
    · intro hr
      obtain ⟨pc', hpc', hh⟩ := I.rdB o ob t hob hr
      rw [ht] at hpc'; cases hpc'
      rcases hh with hh | hh
      · rw [nh.2.2.1] at hh; cases hh
      · exact nh.2.2.2 o hh
    · intro hr
      have := (I.rwB o ob t hob hr).2.2
      rw [ht] at this; cases this
      exact nh.2.2.2 o rfl

/-- non-vacuity, and the three statements on concrete runs: (a) the database file of shard (0,0) is
garbage: the request on it returns the error after 5 steps, a later request on shard (0,1) loads and
runs its callback, `shardLock` is free, nothing was opened or stored for (0,0); -/
example :
    let a : List Act := [.corrupt (0,0), .newReq (0,0)] ++ List.replicate 5 (.run 0) ++ [.newReq (0,1)] ++ List.replicate 11 (.run 1)
    let s := (runSched .repaired (St.init []) a).1
    (runSched .repaired (St.init []) a).2 = a.length ∧ s.thr[0]? = some (.done .err) ∧ s.thr[1]? = some (.done .ok) ∧
    s.lock = none ∧ s.store (0,0) = none ∧ s.opens (0,0) = 0 ∧ s.opens (0,1) = 1 := by decide

/-- (b) the state right after the failed open: the request sits at the deferred unlock holding `shardLock`
(hypothesis of `C12_load_error_releases`), a second request cannot pass `load.lockStore` until it has run; -/
example :
    let a : List Act := [.corrupt (0,0), .newReq (0,0)] ++ List.replicate 4 (.run 0) ++ [.newReq (0,1)]
    let s := (runSched .repaired (St.init []) a).1
    Reachable .repaired s ∧ s.thr[0]? = some .rqLoadErr ∧ s.lock = some 0 ∧
    (step .repaired s (.run 1)).isSome = false ∧ (step .repaired s (.run 0)).isSome = true := by
  refine ⟨reachable_runSched _ _, ?_⟩
  decide

/-- (c) a collection deletion removes the garbage file with its directory: the next request on the same
shard creates a fresh database and succeeds; (d) a non-directory at the shard path: `MkdirAll` fails,
the request returns the error after 4 steps, other shards are unaffected. -/
example :
    let a : List Act := [.corrupt (0,0), .newReq (0,0)] ++ List.replicate 5 (.run 0) ++ [.newDel 0] ++ List.replicate 6 (.run 1) ++
      [.newReq (0,0)] ++ List.replicate 11 (.run 2)
    let s := (runSched .repaired (St.init []) a).1
    (runSched .repaired (St.init []) a).2 = a.length ∧ s.thr[0]? = some (.done .err) ∧ s.thr[1]? = some (.done .ok) ∧
    s.thr[2]? = some (.done .ok) ∧ s.bad (0,0) = false ∧ s.opens (0,0) = 1 ∧ s.lock = none := by decide

example :
    let a : List Act := [.block (0,0), .newReq (0,0)] ++ List.replicate 4 (.run 0) ++ [.newReq (0,1)] ++ List.replicate 11 (.run 1)
    let s := (runSched .repaired (St.init []) a).1
    (runSched .repaired (St.init []) a).2 = a.length ∧ s.thr[0]? = some (.done .err) ∧ s.thr[1]? = some (.done .ok) ∧
    s.lock = none ∧ s.dirs = [(0,1)] := by decide

/-- (e) a transient failure: the request fails while the file is garbage; once the file is repaired the
next request on the same shard loads it and runs its callback (nothing of the failure is remembered) -/
example :
    let a : List Act := [.corrupt (0,0), .newReq (0,0)] ++ List.replicate 5 (.run 0) ++ [.repair (0,0), .newReq (0,0)] ++ List.replicate 11 (.run 1)
    let s := (runSched .repaired (St.init []) a).1
    (runSched .repaired (St.init []) a).2 = a.length ∧ s.thr[0]? = some (.done .err) ∧ s.thr[1]? = some (.done .ok) ∧
    s.store (0,0) = some 0 ∧ s.opens (0,0) = 1 ∧ s.lock = none := by decide

/-! ## Reload -/

/-- no thread has anything to do but wait for an idle timer -/
def Quiescent (s : St) : Prop := ∀ (t : Tid) (pc : PC), s.thr[t]? = some pc → busy s pc = false

/-- After quiescence (all calls returned, every cleanup goroutine exited or parked in its select) no
lock is held, every store entry is an open shard of the right directory whose cleanup goroutine is
parked in its `select` with the idle timer able to fire, every open handle belongs to a store entry,
and a directory without store entry has no open handle — so a new request finds `shardLock` free
and either uses the loaded shard or opens the file without meeting a file lock. -/
theorem C12_reload {s : St} (h : Reachable .repaired s) (hq : Quiescent s) :
    s.lock = none ∧
    (∀ (o : Oid) (ob : Obj), s.objs[o]? = some ob → ob.wr = none ∧ ob.readers = [] ∧ ob.rwait = []) ∧
    (∀ (d : Dir) (o : Oid), s.store d = some o → ∃ ob c, s.objs[o]? = some ob ∧ ob.dir = d ∧ ob.sh = .opened ∧
        s.thr[c]? = some (.clSelect o) ∧ (step .repaired s (.fire c)).isSome = true) ∧
    (∀ (o : Oid) (ob : Obj), s.objs[o]? = some ob → ob.sh = .opened → s.store ob.dir = some o) ∧
    (∀ (d : Dir), s.store d = none → s.opens d = 0) := by
  have I := inv_reachable h
  have hlock : s.lock = none := by
    cases hl : s.lock with
    | none => rfl
    | some t =>
      obtain ⟨pc, ht, hh⟩ := I.lockB t hl
      have := hq t pc ht
      cases pc <;> simp [holdsStore] at hh <;> simp [busy] at this
  have hwr : ∀ (o : Oid) (ob : Obj), s.objs[o]? = some ob → ob.wr = none := by
    intro o ob hob
    cases hw : ob.wr with
    | none => rfl
    | some t =>
      obtain ⟨pc, ht, hh⟩ := I.wrB o ob t hob hw
      have := hq t pc ht
      cases pc <;> simp [wslot] at hh <;> simp [busy] at this
  have hrd : ∀ (o : Oid) (ob : Obj), s.objs[o]? = some ob → ob.readers = [] := by
    intro o ob hob
    cases hr : ob.readers with
    | nil => rfl
    | cons x xs =>
      obtain ⟨pc, ht, hh⟩ := I.rdB o ob x hob (by rw [hr]; simp)
      have := hq x pc ht
      rcases hh with hh | hh
      · cases pc <;> simp [rslot] at hh <;> simp [busy] at this
      · subst hh; simp [busy] at this
  have hopen : ∀ (o : Oid) (ob : Obj), s.objs[o]? = some ob → ob.sh = .opened → s.store ob.dir = some o := by
    intro o ob hob hop
    by_cases c : s.store ob.dir = some o
    · exact c
    · exact absurd hlock (I.openSt o ob hob hop c).1
  refine ⟨hlock, ?_, ?_, hopen, ?_⟩
  · intro o ob hob
    refine ⟨hwr o ob hob, hrd o ob hob, ?_⟩
    cases hw : ob.rwait with
    | nil => rfl
    | cons x xs => exact absurd (hwr o ob hob) (I.rwB o ob x hob (by rw [hw]; simp)).1
  · intro d o hst
    obtain ⟨hlt, hdir⟩ := I.stObj d o hst
    have hob : s.objs[o]? = some s.objs[o] := List.getElem?_eq_getElem hlt
    have hd := hdir _ hob
    -- the shard is open: otherwise the thread that closed it is still on duty, hence busy
    have hop : s.objs[o].sh = .opened := by
      by_cases c : s.objs[o].sh = .opened
      · exact c
      · obtain ⟨hne, hall⟩ := I.stNil d o _ hst hob c
        cases hcb : s.objs[o].closedBy with
        | none => exact absurd hcb hne
        | some t =>
          obtain ⟨pc, ht, hduty⟩ := hall t hcb
          have := hq t pc ht
          rcases hduty with hduty | hduty
          · cases pc <;> simp [dutyO] at hduty <;> simp [busy] at this
          · cases pc <;> simp [delOf] at hduty <;> simp [busy] at this
    -- its cleanup goroutine exists ...
    have hcl : s.objs[o].cl ≠ none := by
      intro hn
      exact absurd hlock (I.stCl d o _ hst hob hn).1
    cases hc : s.objs[o].cl with
    | none => exact absurd hc hcl
    | some c =>
      obtain ⟨pc, hpc, hal⟩ := I.clAlive o _ c hob hop hc (hwr o _ hob)
      have hbz := hq c pc hpc
      -- ... and is parked in the select with nothing delivered
      cases pc <;> simp [alive] at hal <;> simp [busy] at hbz
      rename_i o'
      subst o'
      simp [hob] at hbz
      have hmsg : s.objs[o].msg = none := by
        cases hm : s.objs[o].msg with
        | none => rfl
        | some b => simp [hm] at hbz
      have hsel := I.selA c o _ hpc hob hmsg
      refine ⟨_, c, hob, hd, hop, hpc, ?_⟩
      simp [step, hpc, hob, hsel, hmsg]
  · intro d hst
    rw [I.opensC d]
    apply cnt_zero
    intro i ob hi
    unfold ind
    split
    · rename_i a
      have := hopen i ob hi a.2
      rw [a.1, hst] at this
      cases this
    · rfl

/-- non-vacuity of `C12_reload`, and the reload itself on concrete runs: (a) load, idle unload,
the next request loads again and its callback runs; (b) load, collection deletion, reload. -/
example :
    let a : List Act := [.newReq (0,0)] ++ List.replicate 11 (.run 0) ++ [.run 1, .fire 1] ++ List.replicate 10 (.run 1)
    let s := (runSched .repaired (St.init []) a).1
    (runSched .repaired (St.init []) a).2 = a.length ∧ s.store (0,0) = none ∧ s.opens (0,0) = 0 ∧
    (runSched .repaired s ([.newReq (0,0)] ++ List.replicate 11 (.run 2))).1.thr[2]? = some (.done .ok) := by decide

example :
    let a : List Act := [.newReq (0,0)] ++ List.replicate 11 (.run 0) ++ [.run 1, .newDel 0] ++ List.replicate 13 (.run 2) ++ [.run 1, .run 1]
    let s := (runSched .repaired (St.init []) a).1
    (runSched .repaired (St.init []) a).2 = a.length ∧ s.store (0,0) = none ∧ s.opens (0,0) = 0 ∧ s.dirs = [] ∧
    s.thr = [.done .ok, .exited, .done .ok] ∧
    (runSched .repaired s ([.newReq (0,0)] ++ List.replicate 11 (.run 3))).1.thr[3]? = some (.done .ok) := by decide

end Sema.C12
