/- C12: preservation of invariant field `noCl` (see SemaModel/C12/Inv.lean) -/
import SemaModel.C12.Inv
namespace Sema.C12

set_option maxHeartbeats 1600000 in
theorem pres_noCl {s s' : St} {a : Act} (hI : Inv s) (h : step .repaired s a = some s') :
    ∀ (t : Tid) (pc : PC) (o : Oid) (ob : Obj), s'.thr[t]? = some pc → preSpawn pc = some o → s'.objs[o]? = some ob → ob.cl = none := by

  cases a with
  | newReq d => simp only [step] at h; cases h; simp only []; first | (have i_noCl := hI.noCl; have i_refs := hI.refs; grind [preSpawn, PC.ref, holdsStore, Obj.fresh]) | (have i_noCl := hI.noCl; have i_refs := hI.refs; have i_lockA := hI.lockA; grind (instances := 4000) [preSpawn, PC.ref, holdsStore, Obj.fresh])
  | newDel c => simp only [step] at h; cases h; simp only []; first | (have i_noCl := hI.noCl; have i_refs := hI.refs; grind [preSpawn, PC.ref, holdsStore, Obj.fresh]) | (have i_noCl := hI.noCl; have i_refs := hI.refs; have i_lockA := hI.lockA; grind (instances := 4000) [preSpawn, PC.ref, holdsStore, Obj.fresh])
  | fire t0 =>
    simp only [step] at h
    (repeat' (split at h)) <;> (try cases h) <;> (simp only [St.setPc, St.setObj]; first | (have i_noCl := hI.noCl; have i_refs := hI.refs; grind [preSpawn, PC.ref, holdsStore, Obj.fresh]) | (have i_noCl := hI.noCl; have i_refs := hI.refs; have i_lockA := hI.lockA; grind (instances := 4000) [preSpawn, PC.ref, holdsStore, Obj.fresh]))
  | corrupt d =>
    simp only [step] at h
    (repeat' (split at h)) <;> (try cases h) <;> (simp only []; first | (have i_noCl := hI.noCl; have i_refs := hI.refs; grind [preSpawn, PC.ref, holdsStore, Obj.fresh]) | (have i_noCl := hI.noCl; have i_refs := hI.refs; have i_lockA := hI.lockA; grind (instances := 4000) [preSpawn, PC.ref, holdsStore, Obj.fresh]))
  | block d =>
    simp only [step] at h
    (repeat' (split at h)) <;> (try cases h) <;> (simp only []; first | (have i_noCl := hI.noCl; have i_refs := hI.refs; grind [preSpawn, PC.ref, holdsStore, Obj.fresh]) | (have i_noCl := hI.noCl; have i_refs := hI.refs; have i_lockA := hI.lockA; grind (instances := 4000) [preSpawn, PC.ref, holdsStore, Obj.fresh]))
  | repair d =>
    simp only [step] at h
    (repeat' (split at h)) <;> (try cases h) <;> (simp only []; first | (have i_noCl := hI.noCl; have i_refs := hI.refs; grind [preSpawn, PC.ref, holdsStore, Obj.fresh]) | (have i_noCl := hI.noCl; have i_refs := hI.refs; have i_lockA := hI.lockA; grind (instances := 4000) [preSpawn, PC.ref, holdsStore, Obj.fresh]))
  | run t0 =>
    simp only [step] at h
    split at h
    · rename_i pc0 hpc0
      generalize hk0 : holdsStore pc0 = k0
      generalize hk4 : PC.ref pc0 = k4
      generalize hk11 : preSpawn pc0 = k11
      cases pc0 <;> simp only [stepPc] at h <;> (repeat' (split at h)) <;> (try cases h) <;>
        (simp only [St.setPc, St.setObj]; first | (have i_noCl := hI.noCl; have i_refs := hI.refs; grind [preSpawn, PC.ref, holdsStore, Obj.fresh]) | (have i_noCl := hI.noCl; have i_refs := hI.refs; have i_lockA := hI.lockA; grind (instances := 4000) [preSpawn, PC.ref, holdsStore, Obj.fresh]))
    · cases h

end Sema.C12
