/- C12: preservation of invariant field `lockB` (see SemaModel/C12/Inv.lean) -/
import SemaModel.C12.Inv
namespace Sema.C12

set_option maxHeartbeats 1600000 in
theorem pres_lockB {s s' : St} {a : Act} (hI : Inv s) (h : step .repaired s a = some s') :
    ∀ (t : Tid), s'.lock = some t → ∃ pc : PC, s'.thr[t]? = some pc ∧ holdsStore pc = true := by

  cases a with
  | newReq d => simp only [step] at h; cases h; simp only []; (have i_lockA := hI.lockA; have i_lockB := hI.lockB; grind [holdsStore])
  | newDel c => simp only [step] at h; cases h; simp only []; (have i_lockA := hI.lockA; have i_lockB := hI.lockB; grind [holdsStore])
  | fire t0 =>
    simp only [step] at h
    (repeat' (split at h)) <;> (try cases h) <;> (simp only [St.setPc, St.setObj]; (have i_lockA := hI.lockA; have i_lockB := hI.lockB; grind [holdsStore]))
  | corrupt d =>
    simp only [step] at h
    (repeat' (split at h)) <;> (try cases h) <;> (simp only []; (have i_lockA := hI.lockA; have i_lockB := hI.lockB; grind [holdsStore]))
  | block d =>
    simp only [step] at h
    (repeat' (split at h)) <;> (try cases h) <;> (simp only []; (have i_lockA := hI.lockA; have i_lockB := hI.lockB; grind [holdsStore]))
  | repair d =>
    simp only [step] at h
    (repeat' (split at h)) <;> (try cases h) <;> (simp only []; (have i_lockA := hI.lockA; have i_lockB := hI.lockB; grind [holdsStore]))
  | run t0 =>
    simp only [step] at h
    split at h
    · rename_i pc0 hpc0
      generalize hk0 : holdsStore pc0 = k0
      cases pc0 <;> simp only [stepPc] at h <;> (repeat' (split at h)) <;> (try cases h) <;>
        (simp only [St.setPc, St.setObj]; (have i_lockA := hI.lockA; have i_lockB := hI.lockB; grind [holdsStore]))
    · cases h

end Sema.C12
