/- C12: preservation of invariant field `stCl` (see SemaModel/C12/Inv.lean) -/
import SemaModel.C12.Inv
namespace Sema.C12

set_option maxHeartbeats 1600000 in
theorem pres_stCl {s s' : St} {a : Act} (hI : Inv s) (h : step .repaired s a = some s') :
    ∀ (d : Dir) (o : Oid) (ob : Obj), s'.store d = some o → s'.objs[o]? = some ob → ob.cl = none → s'.lock ≠ none ∧ ∀ (t : Tid), s'.lock = some t → s'.thr[t]? = some (PC.rqSpawn o) := by

  cases a with
  | newReq d => simp only [step] at h; cases h; simp only []; first | (have i_stCl := hI.stCl; have i_refs := hI.refs; have i_stObj := hI.stObj; grind [holdsStore, preSpawn, PC.ref, upd, Obj.fresh]) | (have i_stCl := hI.stCl; have i_lockA := hI.lockA; have i_lockB := hI.lockB; have i_refs := hI.refs; have i_stObj := hI.stObj; have i_noCl := hI.noCl; have i_putNotSt := hI.putNotSt; grind (instances := 4000) [holdsStore, preSpawn, PC.ref, upd, Obj.fresh])
  | newDel c => simp only [step] at h; cases h; simp only []; first | (have i_stCl := hI.stCl; have i_refs := hI.refs; have i_stObj := hI.stObj; grind [holdsStore, preSpawn, PC.ref, upd, Obj.fresh]) | (have i_stCl := hI.stCl; have i_lockA := hI.lockA; have i_lockB := hI.lockB; have i_refs := hI.refs; have i_stObj := hI.stObj; have i_noCl := hI.noCl; have i_putNotSt := hI.putNotSt; grind (instances := 4000) [holdsStore, preSpawn, PC.ref, upd, Obj.fresh])
  | fire t0 =>
    simp only [step] at h
    (repeat' (split at h)) <;> (try cases h) <;> (simp only [St.setPc, St.setObj]; first | (have i_stCl := hI.stCl; have i_refs := hI.refs; have i_stObj := hI.stObj; grind [holdsStore, preSpawn, PC.ref, upd, Obj.fresh]) | (have i_stCl := hI.stCl; have i_lockA := hI.lockA; have i_lockB := hI.lockB; have i_refs := hI.refs; have i_stObj := hI.stObj; have i_noCl := hI.noCl; have i_putNotSt := hI.putNotSt; grind (instances := 4000) [holdsStore, preSpawn, PC.ref, upd, Obj.fresh]))
  | corrupt d =>
    simp only [step] at h
    (repeat' (split at h)) <;> (try cases h) <;> (simp only []; first | (have i_stCl := hI.stCl; have i_refs := hI.refs; have i_stObj := hI.stObj; grind [holdsStore, preSpawn, PC.ref, upd, Obj.fresh]) | (have i_stCl := hI.stCl; have i_lockA := hI.lockA; have i_lockB := hI.lockB; have i_refs := hI.refs; have i_stObj := hI.stObj; have i_noCl := hI.noCl; have i_putNotSt := hI.putNotSt; grind (instances := 4000) [holdsStore, preSpawn, PC.ref, upd, Obj.fresh]))
  | block d =>
    simp only [step] at h
    (repeat' (split at h)) <;> (try cases h) <;> (simp only []; first | (have i_stCl := hI.stCl; have i_refs := hI.refs; have i_stObj := hI.stObj; grind [holdsStore, preSpawn, PC.ref, upd, Obj.fresh]) | (have i_stCl := hI.stCl; have i_lockA := hI.lockA; have i_lockB := hI.lockB; have i_refs := hI.refs; have i_stObj := hI.stObj; have i_noCl := hI.noCl; have i_putNotSt := hI.putNotSt; grind (instances := 4000) [holdsStore, preSpawn, PC.ref, upd, Obj.fresh]))
  | repair d =>
    simp only [step] at h
    (repeat' (split at h)) <;> (try cases h) <;> (simp only []; first | (have i_stCl := hI.stCl; have i_refs := hI.refs; have i_stObj := hI.stObj; grind [holdsStore, preSpawn, PC.ref, upd, Obj.fresh]) | (have i_stCl := hI.stCl; have i_lockA := hI.lockA; have i_lockB := hI.lockB; have i_refs := hI.refs; have i_stObj := hI.stObj; have i_noCl := hI.noCl; have i_putNotSt := hI.putNotSt; grind (instances := 4000) [holdsStore, preSpawn, PC.ref, upd, Obj.fresh]))
  | run t0 =>
    simp only [step] at h
    split at h
    · rename_i pc0 hpc0
      generalize hk0 : holdsStore pc0 = k0
      generalize hk4 : PC.ref pc0 = k4
      generalize hk11 : preSpawn pc0 = k11
      cases pc0 <;> simp only [stepPc] at h <;> (repeat' (split at h)) <;> (try cases h) <;>
        (simp only [St.setPc, St.setObj]; first | (have i_stCl := hI.stCl; have i_refs := hI.refs; have i_stObj := hI.stObj; grind [holdsStore, preSpawn, PC.ref, upd, Obj.fresh]) | (have i_stCl := hI.stCl; have i_lockA := hI.lockA; have i_lockB := hI.lockB; have i_refs := hI.refs; have i_stObj := hI.stObj; have i_noCl := hI.noCl; have i_putNotSt := hI.putNotSt; grind (instances := 4000) [holdsStore, preSpawn, PC.ref, upd, Obj.fresh]))
    · cases h

end Sema.C12
