/- C12: preservation of invariant field `putNotSt` (see SemaModel/C12/Inv.lean) -/
import SemaModel.C12.Inv
namespace Sema.C12

set_option maxHeartbeats 1600000 in
theorem pres_putNotSt {s s' : St} {a : Act} (hI : Inv s) (h : step .repaired s a = some s') :
    ∀ (t : Tid) (d : Dir) (o : Oid) (d' : Dir), s'.thr[t]? = some (PC.rqPut d o) → s'.store d' ≠ some o := by

  cases a with
  | newReq d => simp only [step] at h; cases h; simp only []; (have i_putNotSt := hI.putNotSt; have i_lockA := hI.lockA; have i_refs := hI.refs; have i_stObj := hI.stObj; grind [holdsStore, PC.ref, upd])
  | newDel c => simp only [step] at h; cases h; simp only []; (have i_putNotSt := hI.putNotSt; have i_lockA := hI.lockA; have i_refs := hI.refs; have i_stObj := hI.stObj; grind [holdsStore, PC.ref, upd])
  | fire t0 =>
    simp only [step] at h
    (repeat' (split at h)) <;> (try cases h) <;> (simp only [St.setPc, St.setObj]; (have i_putNotSt := hI.putNotSt; have i_lockA := hI.lockA; have i_refs := hI.refs; have i_stObj := hI.stObj; grind [holdsStore, PC.ref, upd]))
  | corrupt d =>
    simp only [step] at h
    (repeat' (split at h)) <;> (try cases h) <;> (simp only []; (have i_putNotSt := hI.putNotSt; have i_lockA := hI.lockA; have i_refs := hI.refs; have i_stObj := hI.stObj; grind [holdsStore, PC.ref, upd]))
  | block d =>
    simp only [step] at h
    (repeat' (split at h)) <;> (try cases h) <;> (simp only []; (have i_putNotSt := hI.putNotSt; have i_lockA := hI.lockA; have i_refs := hI.refs; have i_stObj := hI.stObj; grind [holdsStore, PC.ref, upd]))
  | repair d =>
    simp only [step] at h
    (repeat' (split at h)) <;> (try cases h) <;> (simp only []; (have i_putNotSt := hI.putNotSt; have i_lockA := hI.lockA; have i_refs := hI.refs; have i_stObj := hI.stObj; grind [holdsStore, PC.ref, upd]))
  | run t0 =>
    simp only [step] at h
    split at h
    · rename_i pc0 hpc0
      generalize hk0 : holdsStore pc0 = k0
      generalize hk4 : PC.ref pc0 = k4
      cases pc0 <;> simp only [stepPc] at h <;> (repeat' (split at h)) <;> (try cases h) <;>
        (simp only [St.setPc, St.setObj]; (have i_putNotSt := hI.putNotSt; have i_lockA := hI.lockA; have i_refs := hI.refs; have i_stObj := hI.stObj; grind [holdsStore, PC.ref, upd]))
    · cases h

end Sema.C12
