/- C12: preservation of invariant field `miss` (see SemaModel/C12/Inv.lean) -/
import SemaModel.C12.Inv
namespace Sema.C12

set_option maxHeartbeats 1600000 in
theorem pres_miss {s s' : St} {a : Act} (hI : Inv s) (h : step .repaired s a = some s') :
    ∀ (t : Tid) (pc : PC) (d : Dir), s'.thr[t]? = some pc → missDir pc = some d → s'.store d = none := by

  cases a with
  | newReq d => simp only [step] at h; cases h; simp only []; (have i_miss := hI.miss; have i_lockA := hI.lockA; grind [missDir, holdsStore, upd])
  | newDel c => simp only [step] at h; cases h; simp only []; (have i_miss := hI.miss; have i_lockA := hI.lockA; grind [missDir, holdsStore, upd])
  | fire t0 =>
    simp only [step] at h
    (repeat' (split at h)) <;> (try cases h) <;> (simp only [St.setPc, St.setObj]; (have i_miss := hI.miss; have i_lockA := hI.lockA; grind [missDir, holdsStore, upd]))
  | corrupt d =>
    simp only [step] at h
    (repeat' (split at h)) <;> (try cases h) <;> (simp only []; (have i_miss := hI.miss; have i_lockA := hI.lockA; grind [missDir, holdsStore, upd]))
  | block d =>
    simp only [step] at h
    (repeat' (split at h)) <;> (try cases h) <;> (simp only []; (have i_miss := hI.miss; have i_lockA := hI.lockA; grind [missDir, holdsStore, upd]))
  | repair d =>
    simp only [step] at h
    (repeat' (split at h)) <;> (try cases h) <;> (simp only []; (have i_miss := hI.miss; have i_lockA := hI.lockA; grind [missDir, holdsStore, upd]))
  | run t0 =>
    simp only [step] at h
    split at h
    · rename_i pc0 hpc0
      generalize hk0 : holdsStore pc0 = k0
      generalize hk7 : missDir pc0 = k7
      cases pc0 <;> simp only [stepPc] at h <;> (repeat' (split at h)) <;> (try cases h) <;>
        (simp only [St.setPc, St.setObj]; (have i_miss := hI.miss; have i_lockA := hI.lockA; grind [missDir, holdsStore, upd]))
    · cases h

end Sema.C12
