/- C12: preservation of invariant field `dlSt` (see SemaModel/C12/Inv.lean) -/
import SemaModel.C12.Inv
namespace Sema.C12

set_option maxHeartbeats 1600000 in
theorem pres_dlSt {s s' : St} {a : Act} (hI : Inv s) (h : step .repaired s a = some s') :
    ∀ (t : Tid) (pc : PC) (o : Oid) (d : Dir), s'.thr[t]? = some pc → dlObj pc = some (o, d) → s'.store d = some o := by

  cases a with
  | newReq d => simp only [step] at h; cases h; simp only []; (have i_dlSt := hI.dlSt; have i_lockA := hI.lockA; have i_stObj := hI.stObj; grind [dlObj, holdsStore, upd])
  | newDel c => simp only [step] at h; cases h; simp only []; (have i_dlSt := hI.dlSt; have i_lockA := hI.lockA; have i_stObj := hI.stObj; grind [dlObj, holdsStore, upd])
  | fire t0 =>
    simp only [step] at h
    (repeat' (split at h)) <;> (try cases h) <;> (simp only [St.setPc, St.setObj]; (have i_dlSt := hI.dlSt; have i_lockA := hI.lockA; have i_stObj := hI.stObj; grind [dlObj, holdsStore, upd]))
  | corrupt d =>
    simp only [step] at h
    (repeat' (split at h)) <;> (try cases h) <;> (simp only []; (have i_dlSt := hI.dlSt; have i_lockA := hI.lockA; have i_stObj := hI.stObj; grind [dlObj, holdsStore, upd]))
  | block d =>
    simp only [step] at h
    (repeat' (split at h)) <;> (try cases h) <;> (simp only []; (have i_dlSt := hI.dlSt; have i_lockA := hI.lockA; have i_stObj := hI.stObj; grind [dlObj, holdsStore, upd]))
  | repair d =>
    simp only [step] at h
    (repeat' (split at h)) <;> (try cases h) <;> (simp only []; (have i_dlSt := hI.dlSt; have i_lockA := hI.lockA; have i_stObj := hI.stObj; grind [dlObj, holdsStore, upd]))
  | run t0 =>
    simp only [step] at h
    split at h
    · rename_i pc0 hpc0
      generalize hk0 : holdsStore pc0 = k0
      generalize hk8 : dlObj pc0 = k8
      cases pc0 <;> simp only [stepPc] at h <;> (repeat' (split at h)) <;> (try cases h) <;>
        (simp only [St.setPc, St.setObj]; (have i_dlSt := hI.dlSt; have i_lockA := hI.lockA; have i_stObj := hI.stObj; grind [dlObj, holdsStore, upd]))
    · cases h

end Sema.C12
