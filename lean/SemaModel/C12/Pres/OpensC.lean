/- C12: preservation of invariant field `opensC` (see SemaModel/C12/Inv.lean) -/
import SemaModel.C12.Inv
namespace Sema.C12

set_option maxHeartbeats 1600000 in
theorem pres_opensC {s s' : St} {a : Act} (hI : Inv s) (h : step .repaired s a = some s') :
    ∀ (d : Dir), s'.opens d = cnt d s'.objs := by

  cases a with
  | newReq d => simp only [step] at h; cases h; simp only []; (have i_opensC := hI.opensC; have i_shOpen := hI.shOpen; have i_shNil := hI.shNil; have i_shCl := hI.shCl; have i_refs := hI.refs; grind [upd, needsOpen, knowsNil, setsNil, Obj.fresh, PC.ref, ind])
  | newDel c => simp only [step] at h; cases h; simp only []; (have i_opensC := hI.opensC; have i_shOpen := hI.shOpen; have i_shNil := hI.shNil; have i_shCl := hI.shCl; have i_refs := hI.refs; grind [upd, needsOpen, knowsNil, setsNil, Obj.fresh, PC.ref, ind])
  | fire t0 =>
    simp only [step] at h
    (repeat' (split at h)) <;> (try cases h) <;> (simp only [St.setPc, St.setObj]; (have i_opensC := hI.opensC; have i_shOpen := hI.shOpen; have i_shNil := hI.shNil; have i_shCl := hI.shCl; have i_refs := hI.refs; grind [upd, needsOpen, knowsNil, setsNil, Obj.fresh, PC.ref, ind]))
  | corrupt d =>
    simp only [step] at h
    (repeat' (split at h)) <;> (try cases h) <;> (simp only []; (have i_opensC := hI.opensC; have i_shOpen := hI.shOpen; have i_shNil := hI.shNil; have i_shCl := hI.shCl; have i_refs := hI.refs; grind [upd, needsOpen, knowsNil, setsNil, Obj.fresh, PC.ref, ind]))
  | block d =>
    simp only [step] at h
    (repeat' (split at h)) <;> (try cases h) <;> (simp only []; (have i_opensC := hI.opensC; have i_shOpen := hI.shOpen; have i_shNil := hI.shNil; have i_shCl := hI.shCl; have i_refs := hI.refs; grind [upd, needsOpen, knowsNil, setsNil, Obj.fresh, PC.ref, ind]))
  | repair d =>
    simp only [step] at h
    (repeat' (split at h)) <;> (try cases h) <;> (simp only []; (have i_opensC := hI.opensC; have i_shOpen := hI.shOpen; have i_shNil := hI.shNil; have i_shCl := hI.shCl; have i_refs := hI.refs; grind [upd, needsOpen, knowsNil, setsNil, Obj.fresh, PC.ref, ind]))
  | run t0 =>
    simp only [step] at h
    split at h
    · rename_i pc0 hpc0
      generalize hk4 : PC.ref pc0 = k4
      generalize hk5 : needsOpen pc0 = k5
      generalize hk6 : knowsNil pc0 = k6
      generalize hk9 : setsNil pc0 = k9
      cases pc0 <;> simp only [stepPc] at h <;> (repeat' (split at h)) <;> (try cases h) <;>
        (simp only [St.setPc, St.setObj]; (have i_opensC := hI.opensC; have i_shOpen := hI.shOpen; have i_shNil := hI.shNil; have i_shCl := hI.shCl; have i_refs := hI.refs; grind [upd, needsOpen, knowsNil, setsNil, Obj.fresh, PC.ref, ind]))
    · cases h

end Sema.C12
