/- C12: preservation of invariant field `rwB` (see SemaModel/C12/Inv.lean) -/
import SemaModel.C12.Inv
namespace Sema.C12

set_option maxHeartbeats 1600000 in
theorem pres_rwB {s s' : St} {a : Act} (hI : Inv s) (h : step .repaired s a = some s') :
    ∀ (o : Oid) (ob : Obj) (t : Tid), s'.objs[o]? = some ob → t ∈ ob.rwait → ob.wr ≠ none ∧ t ∉ ob.readers ∧ s'.thr[t]? = some (PC.rqRWait o) := by

  cases a with
  | newReq d => simp only [step] at h; cases h; simp only []; (have i_rdA := hI.rdA; have i_rdB := hI.rdB; have i_rwA := hI.rwA; have i_rwB := hI.rwB; have i_wrA := hI.wrA; have i_wrB := hI.wrB; have i_wact := hI.wact; have i_refs := hI.refs; grind [rslot, wslot, wactive, PC.ref, Obj.fresh])
  | newDel c => simp only [step] at h; cases h; simp only []; (have i_rdA := hI.rdA; have i_rdB := hI.rdB; have i_rwA := hI.rwA; have i_rwB := hI.rwB; have i_wrA := hI.wrA; have i_wrB := hI.wrB; have i_wact := hI.wact; have i_refs := hI.refs; grind [rslot, wslot, wactive, PC.ref, Obj.fresh])
  | fire t0 =>
    simp only [step] at h
    (repeat' (split at h)) <;> (try cases h) <;> (simp only [St.setPc, St.setObj]; (have i_rdA := hI.rdA; have i_rdB := hI.rdB; have i_rwA := hI.rwA; have i_rwB := hI.rwB; have i_wrA := hI.wrA; have i_wrB := hI.wrB; have i_wact := hI.wact; have i_refs := hI.refs; grind [rslot, wslot, wactive, PC.ref, Obj.fresh]))
  | corrupt d =>
    simp only [step] at h
    (repeat' (split at h)) <;> (try cases h) <;> (simp only []; (have i_rdA := hI.rdA; have i_rdB := hI.rdB; have i_rwA := hI.rwA; have i_rwB := hI.rwB; have i_wrA := hI.wrA; have i_wrB := hI.wrB; have i_wact := hI.wact; have i_refs := hI.refs; grind [rslot, wslot, wactive, PC.ref, Obj.fresh]))
  | block d =>
    simp only [step] at h
    (repeat' (split at h)) <;> (try cases h) <;> (simp only []; (have i_rdA := hI.rdA; have i_rdB := hI.rdB; have i_rwA := hI.rwA; have i_rwB := hI.rwB; have i_wrA := hI.wrA; have i_wrB := hI.wrB; have i_wact := hI.wact; have i_refs := hI.refs; grind [rslot, wslot, wactive, PC.ref, Obj.fresh]))
  | repair d =>
    simp only [step] at h
    (repeat' (split at h)) <;> (try cases h) <;> (simp only []; (have i_rdA := hI.rdA; have i_rdB := hI.rdB; have i_rwA := hI.rwA; have i_rwB := hI.rwB; have i_wrA := hI.wrA; have i_wrB := hI.wrB; have i_wact := hI.wact; have i_refs := hI.refs; grind [rslot, wslot, wactive, PC.ref, Obj.fresh]))
  | run t0 =>
    simp only [step] at h
    split at h
    · rename_i pc0 hpc0
      generalize hk1 : wslot pc0 = k1
      generalize hk2 : wactive pc0 = k2
      generalize hk3 : rslot pc0 = k3
      generalize hk4 : PC.ref pc0 = k4
      cases pc0 <;> simp only [stepPc] at h <;> (repeat' (split at h)) <;> (try cases h) <;>
        (simp only [St.setPc, St.setObj]; (have i_rdA := hI.rdA; have i_rdB := hI.rdB; have i_rwA := hI.rwA; have i_rwB := hI.rwB; have i_wrA := hI.wrA; have i_wrB := hI.wrB; have i_wact := hI.wact; have i_refs := hI.refs; grind [rslot, wslot, wactive, PC.ref, Obj.fresh]))
    · cases h

end Sema.C12
