/- C12: preservation of invariant field `putDir` (see SemaModel/C12/Inv.lean) -/
import SemaModel.C12.Inv
namespace Sema.C12

set_option maxHeartbeats 1600000 in
theorem pres_putDir {s s' : St} {a : Act} (hI : Inv s) (h : step .repaired s a = some s') :
    ∀ (t : Tid) (d : Dir) (o : Oid) (ob : Obj), s'.thr[t]? = some (PC.rqPut d o) → s'.objs[o]? = some ob → ob.dir = d := by

  cases a with
  | newReq d => simp only [step] at h; cases h; simp only []; (have i_putDir := hI.putDir; have i_refs := hI.refs; grind [PC.ref, Obj.fresh])
  | newDel c => simp only [step] at h; cases h; simp only []; (have i_putDir := hI.putDir; have i_refs := hI.refs; grind [PC.ref, Obj.fresh])
  | fire t0 =>
    simp only [step] at h
    (repeat' (split at h)) <;> (try cases h) <;> (simp only [St.setPc, St.setObj]; (have i_putDir := hI.putDir; have i_refs := hI.refs; grind [PC.ref, Obj.fresh]))
  | corrupt d =>
    simp only [step] at h
    (repeat' (split at h)) <;> (try cases h) <;> (simp only []; (have i_putDir := hI.putDir; have i_refs := hI.refs; grind [PC.ref, Obj.fresh]))
  | block d =>
    simp only [step] at h
    (repeat' (split at h)) <;> (try cases h) <;> (simp only []; (have i_putDir := hI.putDir; have i_refs := hI.refs; grind [PC.ref, Obj.fresh]))
  | repair d =>
    simp only [step] at h
    (repeat' (split at h)) <;> (try cases h) <;> (simp only []; (have i_putDir := hI.putDir; have i_refs := hI.refs; grind [PC.ref, Obj.fresh]))
  | run t0 =>
    simp only [step] at h
    split at h
    · rename_i pc0 hpc0
      generalize hk4 : PC.ref pc0 = k4
      cases pc0 <;> simp only [stepPc] at h <;> (repeat' (split at h)) <;> (try cases h) <;>
        (simp only [St.setPc, St.setObj]; (have i_putDir := hI.putDir; have i_refs := hI.refs; grind [PC.ref, Obj.fresh]))
    · cases h

end Sema.C12
