/- C12: preservation of invariant field `stNil` (see SemaModel/C12/Inv.lean) -/
import SemaModel.C12.Inv
namespace Sema.C12

set_option maxHeartbeats 1600000 in
theorem pres_stNil {s s' : St} {a : Act} (hI : Inv s) (h : step .repaired s a = some s') :
    ∀ (d : Dir) (o : Oid) (ob : Obj), s'.store d = some o → s'.objs[o]? = some ob → ob.sh ≠ Sh.opened → ob.closedBy ≠ none ∧ ∀ (t : Tid), ob.closedBy = some t → ∃ pc : PC, s'.thr[t]? = some pc ∧ (dutyO pc = some o ∨ delOf pc = some d) := by

  cases a with
  | newReq d => simp only [step] at h; cases h; simp only []; first | (have i_stNil := hI.stNil; have i_refs := hI.refs; have i_stObj := hI.stObj; grind [dutyO, delOf, holdsStore, needsOpen, setsNil, dlObj, PC.ref, upd, Obj.fresh]) | (have i_stNil := hI.stNil; have i_lockA := hI.lockA; have i_refs := hI.refs; have i_stObj := hI.stObj; have i_shOpen := hI.shOpen; have i_shCl := hI.shCl; have i_dlSt := hI.dlSt; have i_putOpen := hI.putOpen; have i_putNotSt := hI.putNotSt; grind (instances := 4000) [dutyO, delOf, holdsStore, needsOpen, setsNil, dlObj, PC.ref, upd, Obj.fresh])
  | newDel c => simp only [step] at h; cases h; simp only []; first | (have i_stNil := hI.stNil; have i_refs := hI.refs; have i_stObj := hI.stObj; grind [dutyO, delOf, holdsStore, needsOpen, setsNil, dlObj, PC.ref, upd, Obj.fresh]) | (have i_stNil := hI.stNil; have i_lockA := hI.lockA; have i_refs := hI.refs; have i_stObj := hI.stObj; have i_shOpen := hI.shOpen; have i_shCl := hI.shCl; have i_dlSt := hI.dlSt; have i_putOpen := hI.putOpen; have i_putNotSt := hI.putNotSt; grind (instances := 4000) [dutyO, delOf, holdsStore, needsOpen, setsNil, dlObj, PC.ref, upd, Obj.fresh])
  | fire t0 =>
    simp only [step] at h
    (repeat' (split at h)) <;> (try cases h) <;> (simp only [St.setPc, St.setObj]; first | (have i_stNil := hI.stNil; have i_refs := hI.refs; have i_stObj := hI.stObj; grind [dutyO, delOf, holdsStore, needsOpen, setsNil, dlObj, PC.ref, upd, Obj.fresh]) | (have i_stNil := hI.stNil; have i_lockA := hI.lockA; have i_refs := hI.refs; have i_stObj := hI.stObj; have i_shOpen := hI.shOpen; have i_shCl := hI.shCl; have i_dlSt := hI.dlSt; have i_putOpen := hI.putOpen; have i_putNotSt := hI.putNotSt; grind (instances := 4000) [dutyO, delOf, holdsStore, needsOpen, setsNil, dlObj, PC.ref, upd, Obj.fresh]))
  | corrupt d =>
    simp only [step] at h
    (repeat' (split at h)) <;> (try cases h) <;> (simp only []; first | (have i_stNil := hI.stNil; have i_refs := hI.refs; have i_stObj := hI.stObj; grind [dutyO, delOf, holdsStore, needsOpen, setsNil, dlObj, PC.ref, upd, Obj.fresh]) | (have i_stNil := hI.stNil; have i_lockA := hI.lockA; have i_refs := hI.refs; have i_stObj := hI.stObj; have i_shOpen := hI.shOpen; have i_shCl := hI.shCl; have i_dlSt := hI.dlSt; have i_putOpen := hI.putOpen; have i_putNotSt := hI.putNotSt; grind (instances := 4000) [dutyO, delOf, holdsStore, needsOpen, setsNil, dlObj, PC.ref, upd, Obj.fresh]))
  | block d =>
    simp only [step] at h
    (repeat' (split at h)) <;> (try cases h) <;> (simp only []; first | (have i_stNil := hI.stNil; have i_refs := hI.refs; have i_stObj := hI.stObj; grind [dutyO, delOf, holdsStore, needsOpen, setsNil, dlObj, PC.ref, upd, Obj.fresh]) | (have i_stNil := hI.stNil; have i_lockA := hI.lockA; have i_refs := hI.refs; have i_stObj := hI.stObj; have i_shOpen := hI.shOpen; have i_shCl := hI.shCl; have i_dlSt := hI.dlSt; have i_putOpen := hI.putOpen; have i_putNotSt := hI.putNotSt; grind (instances := 4000) [dutyO, delOf, holdsStore, needsOpen, setsNil, dlObj, PC.ref, upd, Obj.fresh]))
  | repair d =>
    simp only [step] at h
    (repeat' (split at h)) <;> (try cases h) <;> (simp only []; first | (have i_stNil := hI.stNil; have i_refs := hI.refs; have i_stObj := hI.stObj; grind [dutyO, delOf, holdsStore, needsOpen, setsNil, dlObj, PC.ref, upd, Obj.fresh]) | (have i_stNil := hI.stNil; have i_lockA := hI.lockA; have i_refs := hI.refs; have i_stObj := hI.stObj; have i_shOpen := hI.shOpen; have i_shCl := hI.shCl; have i_dlSt := hI.dlSt; have i_putOpen := hI.putOpen; have i_putNotSt := hI.putNotSt; grind (instances := 4000) [dutyO, delOf, holdsStore, needsOpen, setsNil, dlObj, PC.ref, upd, Obj.fresh]))
  | run t0 =>
    simp only [step] at h
    split at h
    · rename_i pc0 hpc0
      generalize hk0 : holdsStore pc0 = k0
      generalize hk4 : PC.ref pc0 = k4
      generalize hk5 : needsOpen pc0 = k5
      generalize hk8 : dlObj pc0 = k8
      generalize hk9 : setsNil pc0 = k9
      generalize hk13 : dutyO pc0 = k13
      generalize hk14 : delOf pc0 = k14
      cases pc0 <;> simp only [stepPc] at h <;> (repeat' (split at h)) <;> (try cases h) <;>
        (simp only [St.setPc, St.setObj]; first | (have i_stNil := hI.stNil; have i_refs := hI.refs; have i_stObj := hI.stObj; grind [dutyO, delOf, holdsStore, needsOpen, setsNil, dlObj, PC.ref, upd, Obj.fresh]) | (have i_stNil := hI.stNil; have i_lockA := hI.lockA; have i_refs := hI.refs; have i_stObj := hI.stObj; have i_shOpen := hI.shOpen; have i_shCl := hI.shCl; have i_dlSt := hI.dlSt; have i_putOpen := hI.putOpen; have i_putNotSt := hI.putNotSt; grind (instances := 4000) [dutyO, delOf, holdsStore, needsOpen, setsNil, dlObj, PC.ref, upd, Obj.fresh]))
    · cases h

end Sema.C12
