/- C12: preservation of invariant field `putOpen` (see SemaModel/C12/Inv.lean) -/
import SemaModel.C12.Inv
namespace Sema.C12

set_option maxHeartbeats 1600000 in
theorem pres_putOpen {s s' : St} {a : Act} (hI : Inv s) (h : step .repaired s a = some s') :
    ∀ (t : Tid) (d : Dir) (o : Oid) (ob : Obj), s'.thr[t]? = some (PC.rqPut d o) → s'.objs[o]? = some ob → ob.sh = Sh.opened ∧ ob.wr = none := by

  cases a with
  | newReq d => simp only [step] at h; cases h; simp only []; first | (have i_putOpen := hI.putOpen; have i_refs := hI.refs; have i_wrA := hI.wrA; grind [preSpawn, cleanerOf, wslot, dlObj, holdsStore, PC.ref, Obj.fresh]) | (have i_putOpen := hI.putOpen; have i_noCl := hI.noCl; have i_clA := hI.clA; have i_wrA := hI.wrA; have i_dlSt := hI.dlSt; have i_putNotSt := hI.putNotSt; have i_refs := hI.refs; have i_lockA := hI.lockA; grind (instances := 4000) [preSpawn, cleanerOf, wslot, dlObj, holdsStore, PC.ref, Obj.fresh])
  | newDel c => simp only [step] at h; cases h; simp only []; first | (have i_putOpen := hI.putOpen; have i_refs := hI.refs; have i_wrA := hI.wrA; grind [preSpawn, cleanerOf, wslot, dlObj, holdsStore, PC.ref, Obj.fresh]) | (have i_putOpen := hI.putOpen; have i_noCl := hI.noCl; have i_clA := hI.clA; have i_wrA := hI.wrA; have i_dlSt := hI.dlSt; have i_putNotSt := hI.putNotSt; have i_refs := hI.refs; have i_lockA := hI.lockA; grind (instances := 4000) [preSpawn, cleanerOf, wslot, dlObj, holdsStore, PC.ref, Obj.fresh])
  | fire t0 =>
    simp only [step] at h
    (repeat' (split at h)) <;> (try cases h) <;> (simp only [St.setPc, St.setObj]; first | (have i_putOpen := hI.putOpen; have i_refs := hI.refs; have i_wrA := hI.wrA; grind [preSpawn, cleanerOf, wslot, dlObj, holdsStore, PC.ref, Obj.fresh]) | (have i_putOpen := hI.putOpen; have i_noCl := hI.noCl; have i_clA := hI.clA; have i_wrA := hI.wrA; have i_dlSt := hI.dlSt; have i_putNotSt := hI.putNotSt; have i_refs := hI.refs; have i_lockA := hI.lockA; grind (instances := 4000) [preSpawn, cleanerOf, wslot, dlObj, holdsStore, PC.ref, Obj.fresh]))
  | corrupt d =>
    simp only [step] at h
    (repeat' (split at h)) <;> (try cases h) <;> (simp only []; first | (have i_putOpen := hI.putOpen; have i_refs := hI.refs; have i_wrA := hI.wrA; grind [preSpawn, cleanerOf, wslot, dlObj, holdsStore, PC.ref, Obj.fresh]) | (have i_putOpen := hI.putOpen; have i_noCl := hI.noCl; have i_clA := hI.clA; have i_wrA := hI.wrA; have i_dlSt := hI.dlSt; have i_putNotSt := hI.putNotSt; have i_refs := hI.refs; have i_lockA := hI.lockA; grind (instances := 4000) [preSpawn, cleanerOf, wslot, dlObj, holdsStore, PC.ref, Obj.fresh]))
  | block d =>
    simp only [step] at h
    (repeat' (split at h)) <;> (try cases h) <;> (simp only []; first | (have i_putOpen := hI.putOpen; have i_refs := hI.refs; have i_wrA := hI.wrA; grind [preSpawn, cleanerOf, wslot, dlObj, holdsStore, PC.ref, Obj.fresh]) | (have i_putOpen := hI.putOpen; have i_noCl := hI.noCl; have i_clA := hI.clA; have i_wrA := hI.wrA; have i_dlSt := hI.dlSt; have i_putNotSt := hI.putNotSt; have i_refs := hI.refs; have i_lockA := hI.lockA; grind (instances := 4000) [preSpawn, cleanerOf, wslot, dlObj, holdsStore, PC.ref, Obj.fresh]))
  | repair d =>
    simp only [step] at h
    (repeat' (split at h)) <;> (try cases h) <;> (simp only []; first | (have i_putOpen := hI.putOpen; have i_refs := hI.refs; have i_wrA := hI.wrA; grind [preSpawn, cleanerOf, wslot, dlObj, holdsStore, PC.ref, Obj.fresh]) | (have i_putOpen := hI.putOpen; have i_noCl := hI.noCl; have i_clA := hI.clA; have i_wrA := hI.wrA; have i_dlSt := hI.dlSt; have i_putNotSt := hI.putNotSt; have i_refs := hI.refs; have i_lockA := hI.lockA; grind (instances := 4000) [preSpawn, cleanerOf, wslot, dlObj, holdsStore, PC.ref, Obj.fresh]))
  | run t0 =>
    simp only [step] at h
    split at h
    · rename_i pc0 hpc0
      generalize hk0 : holdsStore pc0 = k0
      generalize hk1 : wslot pc0 = k1
      generalize hk4 : PC.ref pc0 = k4
      generalize hk8 : dlObj pc0 = k8
      generalize hk10 : cleanerOf pc0 = k10
      generalize hk11 : preSpawn pc0 = k11
      cases pc0 <;> simp only [stepPc] at h <;> (repeat' (split at h)) <;> (try cases h) <;>
        (simp only [St.setPc, St.setObj]; first | (have i_putOpen := hI.putOpen; have i_refs := hI.refs; have i_wrA := hI.wrA; grind [preSpawn, cleanerOf, wslot, dlObj, holdsStore, PC.ref, Obj.fresh]) | (have i_putOpen := hI.putOpen; have i_noCl := hI.noCl; have i_clA := hI.clA; have i_wrA := hI.wrA; have i_dlSt := hI.dlSt; have i_putNotSt := hI.putNotSt; have i_refs := hI.refs; have i_lockA := hI.lockA; grind (instances := 4000) [preSpawn, cleanerOf, wslot, dlObj, holdsStore, PC.ref, Obj.fresh]))
    · cases h

end Sema.C12
