/- C12: preservation of invariant field `dlDel` (see SemaModel/C12/Inv.lean) -/
import SemaModel.C12.Inv
namespace Sema.C12

set_option maxHeartbeats 1600000 in
theorem pres_dlDel {s s' : St} {a : Act} (hI : Inv s) (h : step .repaired s a = some s') :
    ∀ (t : Tid) (d : Dir) (r : List Dir) (o : Oid) (ob : Obj), s'.thr[t]? = some (PC.dlMapDel d r) → s'.store d = some o → s'.objs[o]? = some ob → ob.sh = Sh.nil := by

  cases a with
  | newReq d => simp only [step] at h; cases h; simp only []; first | (have i_dlDel := hI.dlDel; have i_refs := hI.refs; have i_lockA := hI.lockA; grind [dlObj, holdsStore, upd, knowsNil, needsOpen, PC.ref]) | (have i_dlDel := hI.dlDel; have i_dlSt := hI.dlSt; have i_shNil := hI.shNil; have i_lockA := hI.lockA; have i_shOpen := hI.shOpen; have i_refs := hI.refs; have i_stObj := hI.stObj; grind (instances := 4000) [dlObj, holdsStore, upd, knowsNil, needsOpen, PC.ref])
  | newDel c => simp only [step] at h; cases h; simp only []; first | (have i_dlDel := hI.dlDel; have i_refs := hI.refs; have i_lockA := hI.lockA; grind [dlObj, holdsStore, upd, knowsNil, needsOpen, PC.ref]) | (have i_dlDel := hI.dlDel; have i_dlSt := hI.dlSt; have i_shNil := hI.shNil; have i_lockA := hI.lockA; have i_shOpen := hI.shOpen; have i_refs := hI.refs; have i_stObj := hI.stObj; grind (instances := 4000) [dlObj, holdsStore, upd, knowsNil, needsOpen, PC.ref])
  | fire t0 =>
    simp only [step] at h
    (repeat' (split at h)) <;> (try cases h) <;> (simp only [St.setPc, St.setObj]; first | (have i_dlDel := hI.dlDel; have i_refs := hI.refs; have i_lockA := hI.lockA; grind [dlObj, holdsStore, upd, knowsNil, needsOpen, PC.ref]) | (have i_dlDel := hI.dlDel; have i_dlSt := hI.dlSt; have i_shNil := hI.shNil; have i_lockA := hI.lockA; have i_shOpen := hI.shOpen; have i_refs := hI.refs; have i_stObj := hI.stObj; grind (instances := 4000) [dlObj, holdsStore, upd, knowsNil, needsOpen, PC.ref]))
  | corrupt d =>
    simp only [step] at h
    (repeat' (split at h)) <;> (try cases h) <;> (simp only []; first | (have i_dlDel := hI.dlDel; have i_refs := hI.refs; have i_lockA := hI.lockA; grind [dlObj, holdsStore, upd, knowsNil, needsOpen, PC.ref]) | (have i_dlDel := hI.dlDel; have i_dlSt := hI.dlSt; have i_shNil := hI.shNil; have i_lockA := hI.lockA; have i_shOpen := hI.shOpen; have i_refs := hI.refs; have i_stObj := hI.stObj; grind (instances := 4000) [dlObj, holdsStore, upd, knowsNil, needsOpen, PC.ref]))
  | block d =>
    simp only [step] at h
    (repeat' (split at h)) <;> (try cases h) <;> (simp only []; first | (have i_dlDel := hI.dlDel; have i_refs := hI.refs; have i_lockA := hI.lockA; grind [dlObj, holdsStore, upd, knowsNil, needsOpen, PC.ref]) | (have i_dlDel := hI.dlDel; have i_dlSt := hI.dlSt; have i_shNil := hI.shNil; have i_lockA := hI.lockA; have i_shOpen := hI.shOpen; have i_refs := hI.refs; have i_stObj := hI.stObj; grind (instances := 4000) [dlObj, holdsStore, upd, knowsNil, needsOpen, PC.ref]))
  | repair d =>
    simp only [step] at h
    (repeat' (split at h)) <;> (try cases h) <;> (simp only []; first | (have i_dlDel := hI.dlDel; have i_refs := hI.refs; have i_lockA := hI.lockA; grind [dlObj, holdsStore, upd, knowsNil, needsOpen, PC.ref]) | (have i_dlDel := hI.dlDel; have i_dlSt := hI.dlSt; have i_shNil := hI.shNil; have i_lockA := hI.lockA; have i_shOpen := hI.shOpen; have i_refs := hI.refs; have i_stObj := hI.stObj; grind (instances := 4000) [dlObj, holdsStore, upd, knowsNil, needsOpen, PC.ref]))
  | run t0 =>
    simp only [step] at h
    split at h
    · rename_i pc0 hpc0
      generalize hk0 : holdsStore pc0 = k0
      generalize hk4 : PC.ref pc0 = k4
      generalize hk5 : needsOpen pc0 = k5
      generalize hk6 : knowsNil pc0 = k6
      generalize hk8 : dlObj pc0 = k8
      cases pc0 <;> simp only [stepPc] at h <;> (repeat' (split at h)) <;> (try cases h) <;>
        (simp only [St.setPc, St.setObj]; first | (have i_dlDel := hI.dlDel; have i_refs := hI.refs; have i_lockA := hI.lockA; grind [dlObj, holdsStore, upd, knowsNil, needsOpen, PC.ref]) | (have i_dlDel := hI.dlDel; have i_dlSt := hI.dlSt; have i_shNil := hI.shNil; have i_lockA := hI.lockA; have i_shOpen := hI.shOpen; have i_refs := hI.refs; have i_stObj := hI.stObj; grind (instances := 4000) [dlObj, holdsStore, upd, knowsNil, needsOpen, PC.ref]))
    · cases h

end Sema.C12
