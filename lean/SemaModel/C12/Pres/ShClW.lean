/- C12: preservation of invariant field `shClW` (see SemaModel/C12/Inv.lean) -/
import SemaModel.C12.Inv
namespace Sema.C12

set_option maxHeartbeats 1600000 in
theorem pres_shClW {s s' : St} {a : Act} (hI : Inv s) (h : step .repaired s a = some s') :
    ∀ (o : Oid) (ob : Obj), s'.objs[o]? = some ob → ob.sh = Sh.closed → ob.wr ≠ none := by

  cases a with
  | newReq d => simp only [step] at h; cases h; simp only []; (have i_shClW := hI.shClW; have i_wrA := hI.wrA; have i_shNil := hI.shNil; have i_refs := hI.refs; grind [wslot, knowsNil, PC.ref, Obj.fresh])
  | newDel c => simp only [step] at h; cases h; simp only []; (have i_shClW := hI.shClW; have i_wrA := hI.wrA; have i_shNil := hI.shNil; have i_refs := hI.refs; grind [wslot, knowsNil, PC.ref, Obj.fresh])
  | fire t0 =>
    simp only [step] at h
    (repeat' (split at h)) <;> (try cases h) <;> (simp only [St.setPc, St.setObj]; (have i_shClW := hI.shClW; have i_wrA := hI.wrA; have i_shNil := hI.shNil; have i_refs := hI.refs; grind [wslot, knowsNil, PC.ref, Obj.fresh]))
  | corrupt d =>
    simp only [step] at h
    (repeat' (split at h)) <;> (try cases h) <;> (simp only []; (have i_shClW := hI.shClW; have i_wrA := hI.wrA; have i_shNil := hI.shNil; have i_refs := hI.refs; grind [wslot, knowsNil, PC.ref, Obj.fresh]))
  | block d =>
    simp only [step] at h
    (repeat' (split at h)) <;> (try cases h) <;> (simp only []; (have i_shClW := hI.shClW; have i_wrA := hI.wrA; have i_shNil := hI.shNil; have i_refs := hI.refs; grind [wslot, knowsNil, PC.ref, Obj.fresh]))
  | repair d =>
    simp only [step] at h
    (repeat' (split at h)) <;> (try cases h) <;> (simp only []; (have i_shClW := hI.shClW; have i_wrA := hI.wrA; have i_shNil := hI.shNil; have i_refs := hI.refs; grind [wslot, knowsNil, PC.ref, Obj.fresh]))
  | run t0 =>
    simp only [step] at h
    split at h
    · rename_i pc0 hpc0
      generalize hk1 : wslot pc0 = k1
      generalize hk4 : PC.ref pc0 = k4
      generalize hk6 : knowsNil pc0 = k6
      cases pc0 <;> simp only [stepPc] at h <;> (repeat' (split at h)) <;> (try cases h) <;>
        (simp only [St.setPc, St.setObj]; (have i_shClW := hI.shClW; have i_wrA := hI.wrA; have i_shNil := hI.shNil; have i_refs := hI.refs; grind [wslot, knowsNil, PC.ref, Obj.fresh]))
    · cases h

end Sema.C12
