/- C12: preservation of invariant field `openSt` (see SemaModel/C12/Inv.lean) -/
import SemaModel.C12.Inv
namespace Sema.C12

set_option maxHeartbeats 1600000 in
theorem pres_openSt {s s' : St} {a : Act} (hI : Inv s) (h : step .repaired s a = some s') :
    ∀ (o : Oid) (ob : Obj), s'.objs[o]? = some ob → ob.sh = Sh.opened → s'.store ob.dir ≠ some o → s'.lock ≠ none ∧ ∀ (t : Tid), s'.lock = some t → s'.thr[t]? = some (PC.rqPut ob.dir o) := by

  cases a with
  | newReq d => simp only [step] at h; cases h; simp only []; (have i_openSt := hI.openSt; have i_putDir := hI.putDir; have i_miss := hI.miss; have i_lockA := hI.lockA; have i_lockB := hI.lockB; have i_shNil := hI.shNil; have i_dlDel := hI.dlDel; have i_stObj := hI.stObj; have i_refs := hI.refs; have i_dlSt := hI.dlSt; grind [upd, holdsStore, knowsNil, missDir, PC.ref, Obj.fresh, dlObj])
  | newDel c => simp only [step] at h; cases h; simp only []; (have i_openSt := hI.openSt; have i_putDir := hI.putDir; have i_miss := hI.miss; have i_lockA := hI.lockA; have i_lockB := hI.lockB; have i_shNil := hI.shNil; have i_dlDel := hI.dlDel; have i_stObj := hI.stObj; have i_refs := hI.refs; have i_dlSt := hI.dlSt; grind [upd, holdsStore, knowsNil, missDir, PC.ref, Obj.fresh, dlObj])
  | fire t0 =>
    simp only [step] at h
    (repeat' (split at h)) <;> (try cases h) <;> (simp only [St.setPc, St.setObj]; (have i_openSt := hI.openSt; have i_putDir := hI.putDir; have i_miss := hI.miss; have i_lockA := hI.lockA; have i_lockB := hI.lockB; have i_shNil := hI.shNil; have i_dlDel := hI.dlDel; have i_stObj := hI.stObj; have i_refs := hI.refs; have i_dlSt := hI.dlSt; grind [upd, holdsStore, knowsNil, missDir, PC.ref, Obj.fresh, dlObj]))
  | corrupt d =>
    simp only [step] at h
    (repeat' (split at h)) <;> (try cases h) <;> (simp only []; (have i_openSt := hI.openSt; have i_putDir := hI.putDir; have i_miss := hI.miss; have i_lockA := hI.lockA; have i_lockB := hI.lockB; have i_shNil := hI.shNil; have i_dlDel := hI.dlDel; have i_stObj := hI.stObj; have i_refs := hI.refs; have i_dlSt := hI.dlSt; grind [upd, holdsStore, knowsNil, missDir, PC.ref, Obj.fresh, dlObj]))
  | block d =>
    simp only [step] at h
    (repeat' (split at h)) <;> (try cases h) <;> (simp only []; (have i_openSt := hI.openSt; have i_putDir := hI.putDir; have i_miss := hI.miss; have i_lockA := hI.lockA; have i_lockB := hI.lockB; have i_shNil := hI.shNil; have i_dlDel := hI.dlDel; have i_stObj := hI.stObj; have i_refs := hI.refs; have i_dlSt := hI.dlSt; grind [upd, holdsStore, knowsNil, missDir, PC.ref, Obj.fresh, dlObj]))
  | repair d =>
    simp only [step] at h
    (repeat' (split at h)) <;> (try cases h) <;> (simp only []; (have i_openSt := hI.openSt; have i_putDir := hI.putDir; have i_miss := hI.miss; have i_lockA := hI.lockA; have i_lockB := hI.lockB; have i_shNil := hI.shNil; have i_dlDel := hI.dlDel; have i_stObj := hI.stObj; have i_refs := hI.refs; have i_dlSt := hI.dlSt; grind [upd, holdsStore, knowsNil, missDir, PC.ref, Obj.fresh, dlObj]))
  | run t0 =>
    simp only [step] at h
    split at h
    · rename_i pc0 hpc0
      generalize hk0 : holdsStore pc0 = k0
      generalize hk4 : PC.ref pc0 = k4
      generalize hk6 : knowsNil pc0 = k6
      generalize hk7 : missDir pc0 = k7
      generalize hk8 : dlObj pc0 = k8
      cases pc0 <;> simp only [stepPc] at h <;> (repeat' (split at h)) <;> (try cases h) <;>
        (simp only [St.setPc, St.setObj]; (have i_openSt := hI.openSt; have i_putDir := hI.putDir; have i_miss := hI.miss; have i_lockA := hI.lockA; have i_lockB := hI.lockB; have i_shNil := hI.shNil; have i_dlDel := hI.dlDel; have i_stObj := hI.stObj; have i_refs := hI.refs; have i_dlSt := hI.dlSt; grind [upd, holdsStore, knowsNil, missDir, PC.ref, Obj.fresh, dlObj]))
    · cases h

end Sema.C12
