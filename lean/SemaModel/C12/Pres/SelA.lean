/- C12: preservation of invariant field `selA` (see SemaModel/C12/Inv.lean) -/
import SemaModel.C12.Inv
namespace Sema.C12

set_option maxHeartbeats 1600000 in
theorem pres_selA {s s' : St} {a : Act} (hI : Inv s) (h : step .repaired s a = some s') :
    ∀ (t : Tid) (o : Oid) (ob : Obj), s'.thr[t]? = some (PC.clSelect o) → s'.objs[o]? = some ob → ob.msg = none → ob.sel = true := by

  cases a with
  | newReq d => simp only [step] at h; cases h; simp only []; first | (have i_selA := hI.selA; have i_refs := hI.refs; grind [cleanerOf, PC.ref, Obj.fresh]) | (have i_selA := hI.selA; have i_clA := hI.clA; have i_refs := hI.refs; grind (instances := 4000) [cleanerOf, PC.ref, Obj.fresh])
  | newDel c => simp only [step] at h; cases h; simp only []; first | (have i_selA := hI.selA; have i_refs := hI.refs; grind [cleanerOf, PC.ref, Obj.fresh]) | (have i_selA := hI.selA; have i_clA := hI.clA; have i_refs := hI.refs; grind (instances := 4000) [cleanerOf, PC.ref, Obj.fresh])
  | fire t0 =>
    simp only [step] at h
    (repeat' (split at h)) <;> (try cases h) <;> (simp only [St.setPc, St.setObj]; first | (have i_selA := hI.selA; have i_refs := hI.refs; grind [cleanerOf, PC.ref, Obj.fresh]) | (have i_selA := hI.selA; have i_clA := hI.clA; have i_refs := hI.refs; grind (instances := 4000) [cleanerOf, PC.ref, Obj.fresh]))
  | corrupt d =>
    simp only [step] at h
    (repeat' (split at h)) <;> (try cases h) <;> (simp only []; first | (have i_selA := hI.selA; have i_refs := hI.refs; grind [cleanerOf, PC.ref, Obj.fresh]) | (have i_selA := hI.selA; have i_clA := hI.clA; have i_refs := hI.refs; grind (instances := 4000) [cleanerOf, PC.ref, Obj.fresh]))
  | block d =>
    simp only [step] at h
    (repeat' (split at h)) <;> (try cases h) <;> (simp only []; first | (have i_selA := hI.selA; have i_refs := hI.refs; grind [cleanerOf, PC.ref, Obj.fresh]) | (have i_selA := hI.selA; have i_clA := hI.clA; have i_refs := hI.refs; grind (instances := 4000) [cleanerOf, PC.ref, Obj.fresh]))
  | repair d =>
    simp only [step] at h
    (repeat' (split at h)) <;> (try cases h) <;> (simp only []; first | (have i_selA := hI.selA; have i_refs := hI.refs; grind [cleanerOf, PC.ref, Obj.fresh]) | (have i_selA := hI.selA; have i_clA := hI.clA; have i_refs := hI.refs; grind (instances := 4000) [cleanerOf, PC.ref, Obj.fresh]))
  | run t0 =>
    simp only [step] at h
    split at h
    · rename_i pc0 hpc0
      generalize hk4 : PC.ref pc0 = k4
      generalize hk10 : cleanerOf pc0 = k10
      cases pc0 <;> simp only [stepPc] at h <;> (repeat' (split at h)) <;> (try cases h) <;>
        (simp only [St.setPc, St.setObj]; first | (have i_selA := hI.selA; have i_refs := hI.refs; grind [cleanerOf, PC.ref, Obj.fresh]) | (have i_selA := hI.selA; have i_clA := hI.clA; have i_refs := hI.refs; grind (instances := 4000) [cleanerOf, PC.ref, Obj.fresh]))
    · cases h

end Sema.C12
