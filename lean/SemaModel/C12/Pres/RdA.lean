/- C12: preservation of invariant field `rdA` (see SemaModel/C12/Inv.lean) -/
import SemaModel.C12.Inv
namespace Sema.C12

set_option maxHeartbeats 1600000 in
theorem pres_rdA {s s' : St} {a : Act} (hI : Inv s) (h : step .repaired s a = some s') :
    ∀ (t : Tid) (pc : PC) (o : Oid), s'.thr[t]? = some pc → rslot pc = some o → ∃ ob : Obj, s'.objs[o]? = some ob ∧ t ∈ ob.readers := by

  cases a with
  | newReq d => simp only [step] at h; cases h; simp only []; (have i_rdA := hI.rdA; have i_rdB := hI.rdB; have i_rwA := hI.rwA; have i_rwB := hI.rwB; have i_wrA := hI.wrA; have i_wact := hI.wact; have i_refs := hI.refs; grind [rslot, wslot, wactive, PC.ref])
  | newDel c => simp only [step] at h; cases h; simp only []; (have i_rdA := hI.rdA; have i_rdB := hI.rdB; have i_rwA := hI.rwA; have i_rwB := hI.rwB; have i_wrA := hI.wrA; have i_wact := hI.wact; have i_refs := hI.refs; grind [rslot, wslot, wactive, PC.ref])
  | fire t0 =>
    simp only [step] at h
    (repeat' (split at h)) <;> (try cases h) <;> (simp only [St.setPc, St.setObj]; (have i_rdA := hI.rdA; have i_rdB := hI.rdB; have i_rwA := hI.rwA; have i_rwB := hI.rwB; have i_wrA := hI.wrA; have i_wact := hI.wact; have i_refs := hI.refs; grind [rslot, wslot, wactive, PC.ref]))
  | corrupt d =>
    simp only [step] at h
    (repeat' (split at h)) <;> (try cases h) <;> (simp only []; (have i_rdA := hI.rdA; have i_rdB := hI.rdB; have i_rwA := hI.rwA; have i_rwB := hI.rwB; have i_wrA := hI.wrA; have i_wact := hI.wact; have i_refs := hI.refs; grind [rslot, wslot, wactive, PC.ref]))
  | block d =>
    simp only [step] at h
    (repeat' (split at h)) <;> (try cases h) <;> (simp only []; (have i_rdA := hI.rdA; have i_rdB := hI.rdB; have i_rwA := hI.rwA; have i_rwB := hI.rwB; have i_wrA := hI.wrA; have i_wact := hI.wact; have i_refs := hI.refs; grind [rslot, wslot, wactive, PC.ref]))
  | repair d =>
    simp only [step] at h
    (repeat' (split at h)) <;> (try cases h) <;> (simp only []; (have i_rdA := hI.rdA; have i_rdB := hI.rdB; have i_rwA := hI.rwA; have i_rwB := hI.rwB; have i_wrA := hI.wrA; have i_wact := hI.wact; have i_refs := hI.refs; grind [rslot, wslot, wactive, PC.ref]))
  | run t0 =>
    simp only [step] at h
    split at h
    · rename_i pc0 hpc0
      generalize hk1 : wslot pc0 = k1
      generalize hk2 : wactive pc0 = k2
      generalize hk3 : rslot pc0 = k3
      generalize hk4 : PC.ref pc0 = k4
      cases pc0 <;> simp only [stepPc] at h <;> (repeat' (split at h)) <;> (try cases h) <;>
        (simp only [St.setPc, St.setObj]; (have i_rdA := hI.rdA; have i_rdB := hI.rdB; have i_rwA := hI.rwA; have i_rwB := hI.rwB; have i_wrA := hI.wrA; have i_wact := hI.wact; have i_refs := hI.refs; grind [rslot, wslot, wactive, PC.ref]))
    · cases h

end Sema.C12
