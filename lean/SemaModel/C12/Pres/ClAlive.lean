/- C12: preservation of invariant field `clAlive` (see SemaModel/C12/Inv.lean) -/
import SemaModel.C12.Inv
namespace Sema.C12

set_option maxHeartbeats 1600000 in
theorem pres_clAlive {s s' : St} {a : Act} (hI : Inv s) (h : step .repaired s a = some s') :
    ∀ (o : Oid) (ob : Obj) (c : Tid), s'.objs[o]? = some ob → ob.sh = Sh.opened → ob.cl = some c → ob.wr = none → ∃ pc : PC, s'.thr[c]? = some pc ∧ alive pc = some o := by

  cases a with
  | newReq d => simp only [step] at h; cases h; simp only []; first | (have i_clAlive := hI.clAlive; have i_refs := hI.refs; grind [alive, cleanerOf, preSpawn, wslot, knowsNil, PC.ref, Obj.fresh]) | (have i_clAlive := hI.clAlive; have i_clA := hI.clA; have i_noCl := hI.noCl; have i_recvTrue := hI.recvTrue; have i_wrA := hI.wrA; have i_shNil := hI.shNil; have i_refs := hI.refs; grind (instances := 4000) [alive, cleanerOf, preSpawn, wslot, knowsNil, PC.ref, Obj.fresh])
  | newDel c => simp only [step] at h; cases h; simp only []; first | (have i_clAlive := hI.clAlive; have i_refs := hI.refs; grind [alive, cleanerOf, preSpawn, wslot, knowsNil, PC.ref, Obj.fresh]) | (have i_clAlive := hI.clAlive; have i_clA := hI.clA; have i_noCl := hI.noCl; have i_recvTrue := hI.recvTrue; have i_wrA := hI.wrA; have i_shNil := hI.shNil; have i_refs := hI.refs; grind (instances := 4000) [alive, cleanerOf, preSpawn, wslot, knowsNil, PC.ref, Obj.fresh])
  | fire t0 =>
    simp only [step] at h
    (repeat' (split at h)) <;> (try cases h) <;> (simp only [St.setPc, St.setObj]; first | (have i_clAlive := hI.clAlive; have i_refs := hI.refs; grind [alive, cleanerOf, preSpawn, wslot, knowsNil, PC.ref, Obj.fresh]) | (have i_clAlive := hI.clAlive; have i_clA := hI.clA; have i_noCl := hI.noCl; have i_recvTrue := hI.recvTrue; have i_wrA := hI.wrA; have i_shNil := hI.shNil; have i_refs := hI.refs; grind (instances := 4000) [alive, cleanerOf, preSpawn, wslot, knowsNil, PC.ref, Obj.fresh]))
  | corrupt d =>
    simp only [step] at h
    (repeat' (split at h)) <;> (try cases h) <;> (simp only []; first | (have i_clAlive := hI.clAlive; have i_refs := hI.refs; grind [alive, cleanerOf, preSpawn, wslot, knowsNil, PC.ref, Obj.fresh]) | (have i_clAlive := hI.clAlive; have i_clA := hI.clA; have i_noCl := hI.noCl; have i_recvTrue := hI.recvTrue; have i_wrA := hI.wrA; have i_shNil := hI.shNil; have i_refs := hI.refs; grind (instances := 4000) [alive, cleanerOf, preSpawn, wslot, knowsNil, PC.ref, Obj.fresh]))
  | block d =>
    simp only [step] at h
    (repeat' (split at h)) <;> (try cases h) <;> (simp only []; first | (have i_clAlive := hI.clAlive; have i_refs := hI.refs; grind [alive, cleanerOf, preSpawn, wslot, knowsNil, PC.ref, Obj.fresh]) | (have i_clAlive := hI.clAlive; have i_clA := hI.clA; have i_noCl := hI.noCl; have i_recvTrue := hI.recvTrue; have i_wrA := hI.wrA; have i_shNil := hI.shNil; have i_refs := hI.refs; grind (instances := 4000) [alive, cleanerOf, preSpawn, wslot, knowsNil, PC.ref, Obj.fresh]))
  | repair d =>
    simp only [step] at h
    (repeat' (split at h)) <;> (try cases h) <;> (simp only []; first | (have i_clAlive := hI.clAlive; have i_refs := hI.refs; grind [alive, cleanerOf, preSpawn, wslot, knowsNil, PC.ref, Obj.fresh]) | (have i_clAlive := hI.clAlive; have i_clA := hI.clA; have i_noCl := hI.noCl; have i_recvTrue := hI.recvTrue; have i_wrA := hI.wrA; have i_shNil := hI.shNil; have i_refs := hI.refs; grind (instances := 4000) [alive, cleanerOf, preSpawn, wslot, knowsNil, PC.ref, Obj.fresh]))
  | run t0 =>
    simp only [step] at h
    split at h
    · rename_i pc0 hpc0
      generalize hk1 : wslot pc0 = k1
      generalize hk4 : PC.ref pc0 = k4
      generalize hk6 : knowsNil pc0 = k6
      generalize hk10 : cleanerOf pc0 = k10
      generalize hk11 : preSpawn pc0 = k11
      generalize hk12 : alive pc0 = k12
      cases pc0 <;> simp only [stepPc] at h <;> (repeat' (split at h)) <;> (try cases h) <;>
        (simp only [St.setPc, St.setObj]; first | (have i_clAlive := hI.clAlive; have i_refs := hI.refs; grind [alive, cleanerOf, preSpawn, wslot, knowsNil, PC.ref, Obj.fresh]) | (have i_clAlive := hI.clAlive; have i_clA := hI.clA; have i_noCl := hI.noCl; have i_recvTrue := hI.recvTrue; have i_wrA := hI.wrA; have i_shNil := hI.shNil; have i_refs := hI.refs; grind (instances := 4000) [alive, cleanerOf, preSpawn, wslot, knowsNil, PC.ref, Obj.fresh]))
    · cases h

end Sema.C12
