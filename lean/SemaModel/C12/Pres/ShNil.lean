/- C12: preservation of invariant field `shNil` (see SemaModel/C12/Inv.lean) -/
import SemaModel.C12.Inv
namespace Sema.C12

set_option maxHeartbeats 1600000 in
theorem pres_shNil {s s' : St} {a : Act} (hI : Inv s) (h : step .repaired s a = some s') :
    ∀ (t : Tid) (pc : PC) (o : Oid) (ob : Obj), s'.thr[t]? = some pc → knowsNil pc = some o → s'.objs[o]? = some ob → ob.sh = Sh.nil := by

  cases a with
  | newReq d => simp only [step] at h; cases h; simp only []; (have i_shNil := hI.shNil; have i_shOpen := hI.shOpen; have i_wrA := hI.wrA; have i_refs := hI.refs; grind [knowsNil, needsOpen, wslot, PC.ref])
  | newDel c => simp only [step] at h; cases h; simp only []; (have i_shNil := hI.shNil; have i_shOpen := hI.shOpen; have i_wrA := hI.wrA; have i_refs := hI.refs; grind [knowsNil, needsOpen, wslot, PC.ref])
  | fire t0 =>
    simp only [step] at h
    (repeat' (split at h)) <;> (try cases h) <;> (simp only [St.setPc, St.setObj]; (have i_shNil := hI.shNil; have i_shOpen := hI.shOpen; have i_wrA := hI.wrA; have i_refs := hI.refs; grind [knowsNil, needsOpen, wslot, PC.ref]))
  | corrupt d =>
    simp only [step] at h
    (repeat' (split at h)) <;> (try cases h) <;> (simp only []; (have i_shNil := hI.shNil; have i_shOpen := hI.shOpen; have i_wrA := hI.wrA; have i_refs := hI.refs; grind [knowsNil, needsOpen, wslot, PC.ref]))
  | block d =>
    simp only [step] at h
    (repeat' (split at h)) <;> (try cases h) <;> (simp only []; (have i_shNil := hI.shNil; have i_shOpen := hI.shOpen; have i_wrA := hI.wrA; have i_refs := hI.refs; grind [knowsNil, needsOpen, wslot, PC.ref]))
  | repair d =>
    simp only [step] at h
    (repeat' (split at h)) <;> (try cases h) <;> (simp only []; (have i_shNil := hI.shNil; have i_shOpen := hI.shOpen; have i_wrA := hI.wrA; have i_refs := hI.refs; grind [knowsNil, needsOpen, wslot, PC.ref]))
  | run t0 =>
    simp only [step] at h
    split at h
    · rename_i pc0 hpc0
      generalize hk1 : wslot pc0 = k1
      generalize hk4 : PC.ref pc0 = k4
      generalize hk5 : needsOpen pc0 = k5
      generalize hk6 : knowsNil pc0 = k6
      cases pc0 <;> simp only [stepPc] at h <;> (repeat' (split at h)) <;> (try cases h) <;>
        (simp only [St.setPc, St.setObj]; (have i_shNil := hI.shNil; have i_shOpen := hI.shOpen; have i_wrA := hI.wrA; have i_refs := hI.refs; grind [knowsNil, needsOpen, wslot, PC.ref]))
    · cases h

end Sema.C12
