/- C12: the lock skeletons of cluster/shardmgr.go that the step relation of Model.lean was written
   from (core only; used by the driver and pinned in Props.lean against Generated/FactsC12.lean). -/
import SemaModel.C12.Model
namespace Sema.C12

/-! ### The lock skeletons the step relation of `Model.lean` was written from

`tools/facts_c12` extracts the same token sequences from cluster/shardmgr.go on every check
(`Generated/FactsC12.lean`); `Props.lean` pins them against these by `decide`, and the driver uses
`detectVariant` to choose the variant whose schedules are forced on the implementation. -/

def skLoadShard : List String :=
  ["Y load.lockStore", "lockStore", "defer unlockStore", "defer Y load.unlockStore", "Y load.lookup", "mapget", "if",
   "Y load.send", "select", "case send ls.doneCh false", "default", "endselect", "return", "endif",
   "Y load.mkdir", "mkdir", "if", "return", "endif", "Y load.open", "open", "if", "return", "endif",
   "Y load.put", "mapput", "Y load.spawn", "go cleanupRoutine", "return"]

def skDoWithShard : List String :=
  ["call loadShard", "if", "return", "endif", "Y dws.rlock", "rlock", "defer runlock", "defer Y dws.runlock",
   "Y dws.nilcheck", "shard==nil", "if", "return", "endif", "callback", "return"]

def skDelete : List String :=
  ["Y del.lockStore", "lockStore", "defer unlockStore", "defer Y del.unlockStore", "Y del.readdir", "stat", "if",
   "return", "endif", "readdir", "if", "return", "endif", "for", "Y del.lookup", "mapget", "if", "Y del.lockW", "lockW",
   "Y del.nilcheck", "shard!=nil", "if", "Y del.send", "select", "case send ls.doneCh true", "default", "endselect",
   "Y del.close", "close", "Y del.setnil", "setnil", "endif", "Y del.unlockW", "unlockW", "endif", "Y del.mapdel",
   "mapdel", "Y del.remove", "removeall", "endfor", "rmdir", "rmdir", "return"]

def skCleanupHead : List String :=
  ["newTimer", "timerHook", "for", "Y cleanup.select", "select", "case", "recv ls.doneCh", "Y cleanup.recv", "timerStop",
   "if", "recv timer.C", "endif", "if", "return", "else", "timerReset", "endif", "case", "recv timer.C",
   "Y cleanup.lockW", "lockW"]

def skCleanup : Variant → List String
  | .pinned => skCleanupHead ++
      ["defer unlockW", "defer Y cleanup.unlockW", "Y cleanup.nilcheck", "shard==nil", "if", "return", "endif",
       "Y cleanup.backup", "if", "backup", "endif", "Y cleanup.close", "close", "Y cleanup.setnil", "setnil",
       "Y cleanup.lockStore", "lockStore", "Y cleanup.mapdel", "mapdel", "Y cleanup.unlockStore", "unlockStore",
       "return", "endselect", "endfor"]
  | .repaired => skCleanupHead ++
      ["Y cleanup.nilcheck", "shard==nil", "if", "Y cleanup.unlockW", "unlockW", "return", "endif",
       "Y cleanup.backup", "if", "backup", "endif", "Y cleanup.close", "close", "Y cleanup.setnil", "setnil",
       "Y cleanup.unlockW", "unlockW", "Y cleanup.lockStore", "lockStore", "Y cleanup.mapdel", "mapget==ls", "if",
       "mapdel", "endif", "Y cleanup.unlockStore", "unlockStore", "return", "endselect", "endfor"]

def skFieldUsers : List String := ["DeleteCollectionShards", "DoWithShard", "NewShardManager", "cleanupRoutine", "loadShard"]

/-- which variant of the model (if any) the extracted skeletons correspond to -/
def detectVariant (load cleanup dws del users : List String) (reenter : Bool) : Option Variant :=
  if load = skLoadShard ∧ dws = skDoWithShard ∧ del = skDelete ∧ users = skFieldUsers ∧ reenter = false then
    if cleanup = skCleanup .repaired then some .repaired
    else if cleanup = skCleanup .pinned then some .pinned
    else none
  else none

/-- the schedule of the pinned-tree deadlock (DESIGN §8 no. 7): a request loads shard (0,0) and is
about to RLock it; the idle timer fires, the cleanup goroutine closes the shard and (pinned order)
asks for shardLock while holding ls.mu; a deletion takes shardLock and asks for ls.mu; the request
queues behind the writer. -/
def witnessPrefix : List Act :=
  [.newReq (0,0)] ++ List.replicate 7 (.run 0) ++ [.run 1, .fire 1] ++ List.replicate 6 (.run 1) ++
  [.newDel 0] ++ List.replicate 3 (.run 2) ++ [.run 0]

end Sema.C12
