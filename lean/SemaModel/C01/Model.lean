/-
C01 — stored points follow the documented insert / update / delete semantics.

This file holds (core Lean only, it is linked into the driver executable)

* `AL`    : association lists (`get / put / del`), the shape of a bucket with symbolic keys;
* `Doc`   : a document = finite map from field names to *opaque* values (the model only ever asks a
            value whether it is the string "_delete"); `merge` = the shallow merge of `UpdatePoints`;
* `Coll`  : the SPEC — the plain reference map `Uuid → Data` with `insert / update / delete / count`;
* `Shard` : the MODEL — the points bucket (`n<id>i`, `n<id>d`, `p<uuid>i` as three symbolic maps) and
            the internal bucket (`pointCount`, `freeNodeIds`, `nextFreeNodeId`), with step functions
            that transcribe `Shard.InsertPoints / UpdatePoints / DeletePoints`,
            `pointstore.SetPoint / DeletePoint / GetPointByUUID / GetPointByNodeId`,
            `IdCounter.NextId / FreeId / Flush`, `NewIdCounter`, `changePointCount`,
            `Shard.Info` and the `_id` branch of `SearchPoints` (shard/index/search.go searchById).

Nondeterminism of the Go code (DESIGN.md 3.3) is an explicit `Oracle` argument:
  * `freeOrder` : `NewIdCounter` reads the persisted free list into a Go map and back into a slice,
                  so the order in which free node ids are handed out is arbitrary;
  * `iterOrder` : `DeletePoints` ranges over a Go map (`ProduceWithContextMapKeys`);
  * `indexOk`   : whether every index of the collection accepted the batch (index effects are outside
                  C01; an index that refuses a value makes the write transaction fail).
An oracle value that is not a permutation of what it should permute is ignored (the stored order is
used), so the step functions are total and the theorems quantify over *every* oracle value.

The bbolt write transaction is `all or nothing` (assumed, DESIGN.md 3.4): every error path below
returns the *unchanged* shard.
-/
namespace Sema.C01

/-! ### association lists -/
namespace AL
variable {κ : Type} {ν : Type} [DecidableEq κ]

/-- `Bucket.Get` -/
def get : List (κ × ν) → κ → Option ν
  | [], _ => none
  | (k', v) :: r, k => if k' = k then some v else get r k

/-- `Bucket.Put`: overwrite the entry of an existing key, else add one -/
def put : List (κ × ν) → κ → ν → List (κ × ν)
  | [], k, v => [(k, v)]
  | (k', v') :: r, k, v => if k' = k then (k, v) :: r else (k', v') :: put r k v

/-- `Bucket.Delete` (absent key: no-op) -/
def del (m : List (κ × ν)) (k : κ) : List (κ × ν) := m.filter (fun e => !(decide (e.1 = k)))

def keys (m : List (κ × ν)) : List κ := m.map (·.1)

end AL

/-- first occurrences only (the key set of a Go map built from a list) -/
def dedup {α : Type} [DecidableEq α] : List α → List α
  | [] => []
  | a :: l => if a ∈ l then dedup l else a :: dedup l

/-- an arbitrary enumeration order of a Go map whose keys are `l`: the oracle's list if it is a
permutation of `l`, else `l` itself -/
def reorder {α : Type} [DecidableEq α] (l : List α) (oracle : List α) : List α :=
  if oracle.isPerm l then oracle else l

/-! ### documents -/

abbrev Uuid := String
abbrev Key := String
/-- a field value: the canonical text of the value, opaque to the model -/
abbrev Val := String
abbrev Doc := List (Key × Val)
/-- `Point.Data`: `none` = zero-length data (not a document), `some d` = msgpack of the map `d`
(the codec is the identity on documents; trusted) -/
abbrev Data := Option Doc

/-- shard.DELETEVALUE as the harness prints a string value -/
def deleteValue : Val := "\"_delete\""
def isDelete (v : Val) : Bool := v == deleteValue

/-- the merge loop of `UpdatePoints`: `for k, v := range incoming { if v == "_delete" { delete(existing, k) } else { existing[k] = v } }` -/
def merge (existing incoming : Doc) : Doc :=
  incoming.foldl (fun acc e => if isDelete e.2 then AL.del acc e.1 else AL.put acc e.1 e.2) existing

/-! ### operations, outputs, configuration, oracle -/

inductive Reason
  | dupInBatch   -- "duplicate point id"
  | exists_      -- "point already exists"
  | tooLarge     -- "point size exceeds limit"
  | badOld       -- "could not unmarshal old data" (stored data has zero length)
  | badNew       -- "could not unmarshal new data" (incoming data has zero length)
  | index        -- an index refused the batch
  | storage      -- "point count cannot be negative"
  deriving DecidableEq, Repr, Inhabited

inductive Op
  | insert (b : List (Uuid × Data))
  | update (b : List (Uuid × Data))
  | delete (ids : List Uuid)
  deriving DecidableEq, Repr, Inhabited

inductive Out
  | ok
  | rejected (why : Reason)
  | updated (ids : List Uuid)
  | deleted (ids : List Uuid)
  deriving DecidableEq, Repr, Inhabited

structure Cfg where
  /-- collection.UserPlan.MaxPointSize -/
  maxSize : Nat
  /-- length of the msgpack encoding of a document (abstract; supplied by the harness) -/
  size : Doc → Nat

structure Oracle where
  freeOrder : List Nat := []
  iterOrder : List Uuid := []
  indexOk : Bool := true
  deriving Repr, Inhabited

/-! ### SPEC: the reference collection -/

abbrev Coll := List (Uuid × Data)

namespace Coll

/-- insert: rejected as a whole on an id repeated in the batch or already stored; else all added -/
def insert (c : Coll) (b : List (Uuid × Data)) (indexOk : Bool) : Coll × Out :=
  if ¬ (AL.keys b).Nodup then (c, .rejected .dupInBatch)
  else if b.any (fun e => (AL.get c e.1).isSome) then (c, .rejected .exists_)
  else if !indexOk then (c, .rejected .index)
  else (c ++ b, .ok)

/-- update, one requested point after the other: unknown ids are skipped; the given fields are
merged into the stored document; reported = the requested ids that existed, in order -/
def updateLoop (cfg : Cfg) (c : Coll) : List (Uuid × Data) → List Uuid → Except Reason (Coll × List Uuid)
  | [], acc => .ok (c, acc)
  | (u, inc) :: rest, acc =>
    match AL.get c u with
    | none => updateLoop cfg c rest acc
    | some none => .error .badOld
    | some (some old) =>
      match inc with
      | none => .error .badNew
      | some i =>
        let m := merge old i
        if cfg.size m > cfg.maxSize then .error .tooLarge
        else updateLoop cfg (AL.put c u (some m)) rest (acc ++ [u])

def update (cfg : Cfg) (c : Coll) (b : List (Uuid × Data)) (indexOk : Bool) : Coll × Out :=
  match updateLoop cfg c b [] with
  | .error e => (c, .rejected e)
  | .ok (c', ids) => if !indexOk then (c, .rejected .index) else (c', .updated ids)

/-- delete: known ids are removed, unknown ones skipped; reported = requested ∩ existing (a set) -/
def delete (c : Coll) (ids : List Uuid) (indexOk : Bool) : Coll × Out :=
  if !indexOk then (c, .rejected .index)
  else (c.filter (fun e => !(ids.contains e.1)), .deleted ((dedup ids).filter (fun u => (AL.get c u).isSome)))

def step (cfg : Cfg) (c : Coll) (op : Op) (indexOk : Bool) : Coll × Out :=
  match op with
  | .insert b => insert c b indexOk
  | .update b => update cfg c b indexOk
  | .delete ids => delete c ids indexOk

def count (c : Coll) : Nat := c.length

def run (cfg : Cfg) : Coll → List (Op × Bool) → Coll × List Out
  | c, [] => (c, [])
  | c, (op, ix) :: rest =>
    let r := step cfg c op ix
    let rr := run cfg r.1 rest
    (rr.1, r.2 :: rr.2)

end Coll

/-! ### MODEL: the shard's point store -/

/-- the points bucket, keys kept symbolic (their byte encodings and injectivity are C19's) -/
structure Points where
  /-- `n<id>i ↦ uuid` -/
  nI : List (Nat × Uuid) := []
  /-- `n<id>d ↦ document` (absent for zero-length data) -/
  nD : List (Nat × Doc) := []
  /-- `p<uuid>i ↦ id` -/
  pI : List (Uuid × Nat) := []
  deriving DecidableEq, Repr, Inhabited

/-- points bucket + internal bucket (`none` = key absent) -/
structure Shard where
  pts : Points := {}
  count : Option Nat := none
  free : Option (List Nat) := none
  next : Option Nat := none
  deriving DecidableEq, Repr, Inhabited

def Shard.empty : Shard := {}

/-- `changePointCount` / `Info`: absent key reads as 0 -/
def Shard.countV (s : Shard) : Nat := s.count.getD 0
/-- `NewIdCounter`: absent key reads as no free ids -/
def Shard.freeV (s : Shard) : List Nat := s.free.getD []
/-- `NewIdCounter`: "We start from 2 because 0 can be used for nil and 1 is used graph root" -/
def Shard.nextV (s : Shard) : Nat := s.next.getD 2

/-- pointstore.SetPoint -/
def setPoint (p : Points) (u : Uuid) (id : Nat) (data : Data) : Points :=
  let nI := AL.put p.nI id u
  let pI := AL.put p.pI u id
  match data with
  | some d => { nI := nI, pI := pI, nD := AL.put p.nD id d }     -- len(point.Data) > 0
  | none => { nI := nI, pI := pI, nD := AL.del p.nD id }          -- "delete empty point data"

/-- pointstore.DeletePoint -/
def deletePoint (p : Points) (u : Uuid) (id : Nat) : Points :=
  { pI := AL.del p.pI u, nI := AL.del p.nI id, nD := AL.del p.nD id }

/-- IdCounter (in-memory part) -/
structure Ctr where
  free : List Nat
  next : Nat
  deriving DecidableEq, Repr

/-- NewIdCounter: bytes → Go map (duplicates collapse) → slice in map order (oracle) -/
def newIdCounter (s : Shard) (o : Oracle) : Ctr :=
  { free := reorder (dedup s.freeV) o.freeOrder, next := s.nextV }

/-- IdCounter.NextId -/
def Ctr.nextId (c : Ctr) : Nat × Ctr :=
  match c.free with
  | [] => (c.next, { c with next := c.next + 1 })        -- nextFreeId++ ; return nextFreeId - 1
  | f :: rest => (f, { c with free := rest })            -- freeIds[0]; freeIds = freeIds[1:]

/-- IdCounter.FreeId -/
def Ctr.freeId (c : Ctr) (id : Nat) : Ctr := { c with free := c.free ++ [id] }

/-- the transform function of InsertPoints, folded over the batch -/
def insertLoop (p : Points) (c : Ctr) : List (Uuid × Data) → Except Reason (Points × Ctr)
  | [] => .ok (p, c)
  | (u, d) :: rest =>
    if (AL.get p.pI u).isSome then .error .exists_          -- CheckPointExists
    else
      let r := c.nextId
      insertLoop (setPoint p u r.1 d) r.2 rest

def insertPoints (s : Shard) (b : List (Uuid × Data)) (o : Oracle) : Shard × Out :=
  if ¬ (AL.keys b).Nodup then (s, .rejected .dupInBatch)      -- before the transaction
  else
    match insertLoop s.pts (newIdCounter s o) b with
    | .error e => (s, .rejected e)                             -- rollback
    | .ok (p, c) =>
      if !o.indexOk then (s, .rejected .index)                 -- rollback
      else
        -- changePointCount(+len(points)); nodeCounter.Flush()
        ({ pts := p, count := some (s.countV + b.length), free := some c.free, next := some c.next }, .ok)

/-- the transform function of UpdatePoints, folded over the batch -/
def updateLoop (cfg : Cfg) (p : Points) : List (Uuid × Data) → List Uuid → Except Reason (Points × List Uuid)
  | [], acc => .ok (p, acc)
  | (u, inc) :: rest, acc =>
    match AL.get p.pI u with                       -- GetPointByUUID
    | none => updateLoop cfg p rest acc            -- ErrPointDoesNotExist: skip
    | some id =>
      match AL.get p.nD id with
      | none => .error .badOld
      | some old =>
        match inc with
        | none => .error .badNew
        | some i =>
          let m := merge old i
          if cfg.size m > cfg.maxSize then .error .tooLarge
          else updateLoop cfg (setPoint p u id (some m)) rest (acc ++ [u])

def updatePoints (cfg : Cfg) (s : Shard) (b : List (Uuid × Data)) (o : Oracle) : Shard × Out :=
  match updateLoop cfg s.pts b [] with
  | .error e => (s, .rejected e)
  | .ok (p, ids) =>
    if !o.indexOk then (s, .rejected .index)
    else ({ s with pts := p }, .updated ids)       -- the internal bucket is not touched

/-- the transform function of DeletePoints, folded over the map keys in iteration order -/
def deleteLoop (p : Points) (c : Ctr) : List Uuid → List Uuid → Points × Ctr × List Uuid
  | [], acc => (p, c, acc)
  | u :: rest, acc =>
    match AL.get p.pI u with
    | none => deleteLoop p c rest acc                                  -- skip
    | some id => deleteLoop (deletePoint p u id) (c.freeId id) rest (acc ++ [u])

def deletePoints (s : Shard) (ids : List Uuid) (o : Oracle) : Shard × Out :=
  let iter := reorder (dedup ids) o.iterOrder      -- deleteSet is a Go map
  let r := deleteLoop s.pts (newIdCounter s o) iter []
  if !o.indexOk then (s, .rejected .index)
  else if s.countV < r.2.2.length then (s, .rejected .storage)   -- "point count cannot be negative"
  else
    ({ pts := r.1, count := some (s.countV - r.2.2.length), free := some r.2.1.free, next := some r.2.1.next },
     .deleted r.2.2)

def Shard.step (cfg : Cfg) (s : Shard) (op : Op) (o : Oracle) : Shard × Out :=
  match op with
  | .insert b => insertPoints s b o
  | .update b => updatePoints cfg s b o
  | .delete ids => deletePoints s ids o

def Shard.run (cfg : Cfg) : Shard → List (Op × Oracle) → Shard × List Out
  | s, [] => (s, [])
  | s, (op, o) :: rest =>
    let r := Shard.step cfg s op o
    let rr := Shard.run cfg r.1 rest
    (rr.1, r.2 :: rr.2)

/-! ### reads -/

inductive ReadErr | danglingNode (id : Nat)      -- "could not get point by node id"
  deriving DecidableEq, Repr

/-- GetPointByNodeId with data -/
def getByNodeId (p : Points) (id : Nat) : Except ReadErr (Uuid × Data) :=
  match AL.get p.nI id with
  | none => .error (.danglingNode id)
  | some u => .ok (u, AL.get p.nD id)

/-- back-fill of a list of node ids (the two loops after `im.Search` in SearchPoints): the first
node id without an `n<id>i` entry fails the whole search -/
def getAll (p : Points) : List Nat → Except ReadErr (List (Uuid × Data))
  | [] => .ok []
  | id :: r =>
    match getByNodeId p id with
    | .error e => .error e
    | .ok x =>
      match getAll p r with
      | .error e => .error e
      | .ok l => .ok (x :: l)

/-- SearchPoints with `_id` containsAny `us` (or equals, for a singleton) and select ["*"]:
searchById collects the node ids of the known uuids into a bitmap (a set), every member is
back-filled by GetPointByNodeId. Result order (ascending node id) is not modelled: lists are
compared after sorting by uuid. -/
def readMany (p : Points) (us : List Uuid) : Except ReadErr (List (Uuid × Data)) :=
  getAll p (dedup (us.filterMap (AL.get p.pI)))

/-- a read by one id -/
def readById (p : Points) (u : Uuid) : Except ReadErr (Option (Uuid × Data)) :=
  match AL.get p.pI u with
  | none => .ok none
  | some id => (getByNodeId p id).map some

/-- Info().PointCount -/
def Shard.info (s : Shard) : Nat := s.countV

/-- abstraction: the collection a shard state stands for -/
def absP (p : Points) : Coll := p.pI.map (fun e => (e.1, AL.get p.nD e.2))
def abs (s : Shard) : Coll := absP s.pts

/-- outputs agree; deleted ids are compared as sets (both sides list every id once) -/
def Out.equiv : Out → Out → Prop
  | .ok, .ok => True
  | .rejected a, .rejected b => a = b
  | .updated a, .updated b => a = b
  | .deleted a, .deleted b => a.Perm b
  | _, _ => False

/-- result lists agree position by position -/
def Out.equivList : List Out → List Out → Prop
  | [], [] => True
  | a :: r, b :: r' => Out.equiv a b ∧ Out.equivList r r'
  | _, _ => False

/-! ### the invariant -/

/-- the points bucket is well-formed -/
structure PInv (p : Points) : Prop where
  /-- (a bucket has one value per key) -/
  pI_nodup : (AL.keys p.pI).Nodup
  nI_nodup : (AL.keys p.nI).Nodup
  nD_nodup : (AL.keys p.nD).Nodup
  /-- `p<uuid>i` and `n<id>i` are mutually inverse bijections between live uuids and node ids -/
  bij : ∀ u id, AL.get p.pI u = some id ↔ AL.get p.nI id = some u
  /-- `n<id>d` only for live node ids -/
  nD_live : ∀ id, (AL.get p.nD id).isSome = true → (AL.get p.nI id).isSome = true

/-- the id counter fits the points bucket -/
structure CInv (nI : List (Nat × Uuid)) (free : List Nat) (next : Nat) : Prop where
  free_nodup : free.Nodup
  /-- free ∩ live = ∅ -/
  free_dead : ∀ id, id ∈ free → AL.get nI id = none
  free_range : ∀ id, id ∈ free → 2 ≤ id ∧ id < next
  live_range : ∀ id u, AL.get nI id = some u → 2 ≤ id ∧ id < next
  next_ge : 2 ≤ next

structure Inv (s : Shard) : Prop where
  pts : PInv s.pts
  ctr : CInv s.pts.nI s.freeV s.nextV
  /-- pointCount = |live| -/
  count : s.countV = s.pts.pI.length

end Sema.C01
