/- helper lemmas for C01: association lists, dedup / reorder, single steps of the point store -/
import SemaModel.C01.Model
set_option linter.unusedSectionVars false
namespace Sema.C01

/-! ### association lists -/
namespace AL
variable {κ : Type} {ν : Type} [DecidableEq κ]

@[simp] theorem get_nil (k : κ) : get ([] : List (κ × ν)) k = none := rfl
@[simp] theorem keys_nil : keys ([] : List (κ × ν)) = [] := rfl
@[simp] theorem keys_cons (e : κ × ν) (m : List (κ × ν)) : keys (e :: m) = e.1 :: keys m := rfl
@[simp] theorem keys_append (a b : List (κ × ν)) : keys (a ++ b) = keys a ++ keys b := by simp [keys]

theorem get_cons (k' : κ) (v : ν) (r : List (κ × ν)) (k : κ) :
    get ((k', v) :: r) k = if k' = k then some v else get r k := rfl

theorem get_put (m : List (κ × ν)) (k : κ) (v : ν) (k' : κ) :
    get (put m k v) k' = if k = k' then some v else get m k' := by
  induction m with
  | nil => simp [put, get_cons]
  | cons e r ih =>
    obtain ⟨a, b⟩ := e
    by_cases h : a = k
    · subst h; simp only [put, if_true, get_cons]; by_cases h2 : a = k' <;> simp [h2]
    · simp only [put, h, if_false, get_cons, ih]
      by_cases h2 : a = k'
      · subst h2; simp [Ne.symm h]
      · simp [h2]

theorem get_del (m : List (κ × ν)) (k k' : κ) :
    get (del m k) k' = if k = k' then none else get m k' := by
  induction m with
  | nil => simp [del]
  | cons e r ih =>
    obtain ⟨a, b⟩ := e
    simp only [del] at ih
    by_cases h : a = k
    · subst h
      simp only [del, List.filter_cons, decide_true, Bool.not_true, Bool.false_eq_true, if_false, ih, get_cons]
      by_cases h2 : a = k' <;> simp [h2]
    · simp only [del, List.filter_cons, h, decide_false, Bool.not_false, if_true, get_cons, ih]
      by_cases h2 : a = k'
      · subst h2; simp [Ne.symm h]
      · simp [h2]

theorem get_isSome_iff (m : List (κ × ν)) (k : κ) : (get m k).isSome = true ↔ k ∈ keys m := by
  induction m with
  | nil => simp
  | cons e r ih =>
    obtain ⟨a, b⟩ := e
    by_cases h : a = k
    · subst h; simp [get_cons]
    · simp [get_cons, h, ih, Ne.symm h]

theorem get_eq_none_iff (m : List (κ × ν)) (k : κ) : get m k = none ↔ k ∉ keys m := by
  rw [← get_isSome_iff]; cases get m k <;> simp

theorem mem_of_get {m : List (κ × ν)} {k : κ} {v : ν} (h : get m k = some v) : (k, v) ∈ m := by
  induction m with
  | nil => simp at h
  | cons e r ih =>
    obtain ⟨a, b⟩ := e
    by_cases h2 : a = k
    · subst h2; simp [get_cons] at h; simp [h]
    · simp [get_cons, h2] at h; exact List.mem_cons_of_mem _ (ih h)

theorem get_of_mem {m : List (κ × ν)} (hn : (keys m).Nodup) {k : κ} {v : ν} (h : (k, v) ∈ m) : get m k = some v := by
  induction m with
  | nil => simp at h
  | cons e r ih =>
    obtain ⟨a, b⟩ := e
    simp only [keys_cons, List.nodup_cons] at hn
    rcases List.mem_cons.mp h with h | h
    · cases h; simp [get_cons]
    · have : a ≠ k := by
        intro hak; subst hak
        exact hn.1 (List.mem_map.mpr ⟨(a, v), h, rfl⟩)
      simp [get_cons, this, ih hn.2 h]

theorem keys_put (m : List (κ × ν)) (k : κ) (v : ν) :
    keys (put m k v) = if k ∈ keys m then keys m else keys m ++ [k] := by
  induction m with
  | nil => simp [put]
  | cons e r ih =>
    obtain ⟨a, b⟩ := e
    by_cases h : a = k
    · subst h; simp [put]
    · simp only [put, h, if_false, keys_cons, ih, List.mem_cons, Ne.symm h, false_or]
      split <;> simp

theorem put_of_not_mem {m : List (κ × ν)} {k : κ} (h : k ∉ keys m) (v : ν) : put m k v = m ++ [(k, v)] := by
  induction m with
  | nil => simp [put]
  | cons e r ih =>
    obtain ⟨a, b⟩ := e
    simp only [keys_cons, List.mem_cons, not_or] at h
    simp [put, Ne.symm h.1, ih h.2]

theorem put_self {m : List (κ × ν)} {k : κ} {v : ν} (h : get m k = some v) : put m k v = m := by
  induction m with
  | nil => simp at h
  | cons e r ih =>
    obtain ⟨a, b⟩ := e
    by_cases h2 : a = k
    · subst h2; simp [get_cons] at h; simp [put, h]
    · simp [get_cons, h2] at h; simp [put, h2, ih h]

theorem keys_del (m : List (κ × ν)) (k : κ) : keys (del m k) = (keys m).filter (fun a => !(decide (a = k))) := by
  simp [keys, del, List.filter_map, Function.comp_def]

theorem nodup_put {m : List (κ × ν)} (h : (keys m).Nodup) (k : κ) (v : ν) : (keys (put m k v)).Nodup := by
  rw [keys_put]
  split
  · exact h
  · rename_i hk
    rw [List.nodup_append]
    exact ⟨h, by simp, by intro a ha b hb; simp at hb; subst hb; intro hab; subst hab; exact hk ha⟩

theorem nodup_del {m : List (κ × ν)} (h : (keys m).Nodup) (k : κ) : (keys (del m k)).Nodup := by
  rw [keys_del]; exact h.filter _

theorem length_del {m : List (κ × ν)} (hn : (keys m).Nodup) {k : κ} (hk : k ∈ keys m) :
    (del m k).length + 1 = m.length := by
  induction m with
  | nil => simp at hk
  | cons e r ih =>
    obtain ⟨a, b⟩ := e
    simp only [keys_cons, List.nodup_cons] at hn
    by_cases h : a = k
    · subst h
      have : del r a = r := by
        simp only [del]
        apply List.filter_eq_self.mpr
        intro e he
        have : e.1 ≠ a := by
          intro hea; apply hn.1; rw [← hea]; exact List.mem_map.mpr ⟨e, he, rfl⟩
        simp [this]
      have h2 : del ((a, b) :: r) a = del r a := by simp [del]
      rw [h2, this]; simp
    · have hk' : k ∈ keys r := by
        simp only [keys_cons, List.mem_cons] at hk
        rcases hk with hk | hk
        · exact absurd hk.symm h
        · exact hk
      have h2 : del ((a, b) :: r) k = (a, b) :: del r k := by simp [del, h]
      rw [h2]; simp [ih hn.2 hk']

/-- with unique keys, overwriting an existing key is a pointwise map -/
theorem put_eq_map {m : List (κ × ν)} (hn : (keys m).Nodup) {k : κ} (hk : k ∈ keys m) (v : ν) :
    put m k v = m.map (fun e => if e.1 = k then (k, v) else e) := by
  induction m with
  | nil => simp at hk
  | cons e r ih =>
    obtain ⟨a, b⟩ := e
    simp only [keys_cons, List.nodup_cons] at hn
    by_cases h : a = k
    · subst h
      have hr : r.map (fun e => if e.1 = a then (a, v) else e) = r := by
        conv => rhs; rw [← List.map_id r]
        apply List.map_congr_left
        intro e he
        have : e.1 ≠ a := by
          intro hea; apply hn.1; rw [← hea]; exact List.mem_map.mpr ⟨e, he, rfl⟩
        simp [this]
      simp [put, hr]
    · have hk' : k ∈ keys r := by
        simp only [keys_cons, List.mem_cons] at hk
        rcases hk with hk | hk
        · exact absurd hk.symm h
        · exact hk
      simp [put, h, ih hn.2 hk']

end AL

/-! ### dedup, reorder -/

theorem mem_dedup {α : Type} [DecidableEq α] (a : α) (l : List α) : a ∈ dedup l ↔ a ∈ l := by
  induction l with
  | nil => simp [dedup]
  | cons b l ih =>
    simp only [dedup]
    split
    · rename_i h
      rw [ih, List.mem_cons]
      constructor
      · exact Or.inr
      · rintro (h2 | h2)
        · subst h2; exact h
        · exact h2
    · simp [ih]

theorem nodup_dedup {α : Type} [DecidableEq α] (l : List α) : (dedup l).Nodup := by
  induction l with
  | nil => simp [dedup]
  | cons b l ih =>
    simp only [dedup]
    split
    · exact ih
    · rename_i h
      rw [List.nodup_cons]
      exact ⟨by rw [mem_dedup]; exact h, ih⟩

theorem dedup_of_nodup {α : Type} [DecidableEq α] {l : List α} (h : l.Nodup) : dedup l = l := by
  induction l with
  | nil => rfl
  | cons b l ih =>
    rw [List.nodup_cons] at h
    simp [dedup, h.1, ih h.2]

theorem reorder_perm {α : Type} [DecidableEq α] (l o : List α) : (reorder l o).Perm l := by
  unfold reorder
  split
  · rename_i h; exact List.isPerm_iff.mp h
  · exact List.Perm.refl _

theorem mem_reorder {α : Type} [DecidableEq α] (a : α) (l o : List α) : a ∈ reorder l o ↔ a ∈ l :=
  (reorder_perm l o).mem_iff

theorem nodup_reorder {α : Type} [DecidableEq α] {l : List α} (h : l.Nodup) (o : List α) : (reorder l o).Nodup :=
  (reorder_perm l o).nodup_iff.mpr h

/-! ### abstraction -/

theorem AL.get_map_val {κ ν μ : Type} [DecidableEq κ] (m : List (κ × ν)) (f : ν → μ) (k : κ) :
    AL.get (m.map (fun e => (e.1, f e.2))) k = (AL.get m k).map f := by
  induction m with
  | nil => simp
  | cons e r ih =>
    obtain ⟨a, b⟩ := e
    by_cases h : a = k <;> simp [AL.get_cons, h, ih]

theorem keys_absP (p : Points) : AL.keys (absP p) = AL.keys p.pI := by
  simp [absP, AL.keys, Function.comp_def]

theorem get_absP (p : Points) (u : Uuid) :
    AL.get (absP p) u = (AL.get p.pI u).map (fun id => AL.get p.nD id) := by
  unfold absP; exact AL.get_map_val p.pI _ u

theorem length_absP (p : Points) : (absP p).length = p.pI.length := by simp [absP]

theorem PInv.inj {p : Points} (h : PInv p) {u u' : Uuid} {id : Nat}
    (a : AL.get p.pI u = some id) (b : AL.get p.pI u' = some id) : u = u' := by
  have h1 := (h.bij u id).mp a
  have h2 := (h.bij u' id).mp b
  rw [h1] at h2; exact Option.some.inj h2

theorem PInv.mem_pI {p : Points} (h : PInv p) {e : Uuid × Nat} (he : e ∈ p.pI) : AL.get p.pI e.1 = some e.2 :=
  AL.get_of_mem h.pI_nodup he

theorem PInv_empty : PInv {} := by
  constructor <;> simp [AL.keys]

/-! ### single steps -/

/-- SetPoint of a new uuid under a node id that is not live -/
theorem setPoint_new {p : Points} (hp : PInv p) {u : Uuid} {id : Nat}
    (hu : AL.get p.pI u = none) (hid : AL.get p.nI id = none) (d : Data) :
    PInv (setPoint p u id d) ∧ absP (setPoint p u id d) = absP p ++ [(u, d)] ∧
    (setPoint p u id d).pI = p.pI ++ [(u, id)] ∧ (setPoint p u id d).nI = AL.put p.nI id u := by
  have hpI : AL.put p.pI u id = p.pI ++ [(u, id)] := AL.put_of_not_mem ((AL.get_eq_none_iff _ _).mp hu) id
  have hbij : ∀ u' id', AL.get (AL.put p.pI u id) u' = some id' ↔ AL.get (AL.put p.nI id u) id' = some u' := by
    intro u' id'
    simp only [AL.get_put]
    have hb := hp.bij
    by_cases h1 : u = u' <;> by_cases h2 : id = id'
    · subst h1; subst h2; simp
    · subst h1; rw [if_pos rfl, if_neg h2]
      constructor
      · intro h; exact absurd (Option.some.inj h) h2
      · intro h; have := (hb u id').mpr h; rw [hu] at this; cases this
    · subst h2; rw [if_neg h1, if_pos rfl]
      constructor
      · intro h; have := (hb u' id).mp h; rw [hid] at this; cases this
      · intro h; exact absurd (Option.some.inj h) h1
    · rw [if_neg h1, if_neg h2]; exact hb u' id'
  have hcongr : ∀ (nD' : List (Nat × Doc)), (∀ i, i ≠ id → AL.get nD' i = AL.get p.nD i) →
      p.pI.map (fun e => (e.1, AL.get nD' e.2)) = p.pI.map (fun e => (e.1, AL.get p.nD e.2)) := by
    intro nD' h
    apply List.map_congr_left
    intro e he
    have h1 := (hp.bij e.1 e.2).mp (hp.mem_pI he)
    have : e.2 ≠ id := by intro h2; rw [h2, hid] at h1; cases h1
    rw [h e.2 this]
  cases d with
  | none =>
    have hs : setPoint p u id none = { nI := AL.put p.nI id u, pI := AL.put p.pI u id, nD := AL.del p.nD id } := rfl
    rw [hs]
    refine ⟨⟨?_, ?_, ?_, hbij, ?_⟩, ?_, hpI, rfl⟩
    · exact AL.nodup_put hp.pI_nodup _ _
    · exact AL.nodup_put hp.nI_nodup _ _
    · exact AL.nodup_del hp.nD_nodup _
    · intro i hi
      simp only [AL.get_del, AL.get_put] at hi ⊢
      by_cases h : id = i
      · simp [h]
      · simp only [h, if_false] at hi ⊢; exact hp.nD_live i hi
    · simp only [absP]
      rw [hpI, List.map_append, hcongr (AL.del p.nD id) (by intro i hi; simp [AL.get_del, Ne.symm hi])]
      simp [AL.get_del]
  | some d =>
    have hs : setPoint p u id (some d) = { nI := AL.put p.nI id u, pI := AL.put p.pI u id, nD := AL.put p.nD id d } := rfl
    rw [hs]
    refine ⟨⟨?_, ?_, ?_, hbij, ?_⟩, ?_, hpI, rfl⟩
    · exact AL.nodup_put hp.pI_nodup _ _
    · exact AL.nodup_put hp.nI_nodup _ _
    · exact AL.nodup_put hp.nD_nodup _ _
    · intro i hi
      simp only [AL.get_put] at hi ⊢
      by_cases h : id = i
      · simp [h]
      · simp only [h, if_false] at hi ⊢; exact hp.nD_live i hi
    · simp only [absP]
      rw [hpI, List.map_append, hcongr (AL.put p.nD id d) (by intro i hi; simp [AL.get_put, Ne.symm hi])]
      simp [AL.get_put]

/-- SetPoint of a live uuid under its own node id with a document: only `n<id>d` changes -/
theorem setPoint_live {p : Points} (hp : PInv p) {u : Uuid} {id : Nat}
    (hu : AL.get p.pI u = some id) (m : Doc) :
    PInv (setPoint p u id (some m)) ∧ absP (setPoint p u id (some m)) = AL.put (absP p) u (some m) ∧
    (setPoint p u id (some m)).pI = p.pI ∧ (setPoint p u id (some m)).nI = p.nI := by
  have hnI : AL.get p.nI id = some u := (hp.bij u id).mp hu
  have e1 : AL.put p.pI u id = p.pI := AL.put_self hu
  have e2 : AL.put p.nI id u = p.nI := AL.put_self hnI
  have hs : setPoint p u id (some m) = { nI := p.nI, pI := p.pI, nD := AL.put p.nD id m } := by
    simp [setPoint, e1, e2]
  rw [hs]
  refine ⟨⟨hp.pI_nodup, hp.nI_nodup, AL.nodup_put hp.nD_nodup _ _, hp.bij, ?_⟩, ?_, rfl, rfl⟩
  · intro i hi
    simp only [AL.get_put] at hi
    by_cases h : id = i
    · subst h; simp [hnI]
    · simp only [h, if_false] at hi; exact hp.nD_live i hi
  · have hk : u ∈ AL.keys (absP p) := by
      rw [keys_absP, ← AL.get_isSome_iff, hu]; rfl
    have hn : (AL.keys (absP p)).Nodup := by rw [keys_absP]; exact hp.pI_nodup
    rw [AL.put_eq_map hn hk]
    simp only [absP, List.map_map]
    apply List.map_congr_left
    intro e he
    have h1 := hp.mem_pI he
    simp only [Function.comp, AL.get_put]
    by_cases h : e.1 = u
    · have : e.2 = id := by rw [h, hu] at h1; exact (Option.some.inj h1).symm
      simp [h, this]
    · have : id ≠ e.2 := by
        intro h2; apply h; exact hp.inj h1 (h2 ▸ hu)
      simp [h, this]

/-- DeletePoint of a live uuid with its node id -/
theorem deletePoint_live {p : Points} (hp : PInv p) {u : Uuid} {id : Nat}
    (hu : AL.get p.pI u = some id) :
    PInv (deletePoint p u id) ∧
    absP (deletePoint p u id) = (absP p).filter (fun e => !(decide (e.1 = u))) ∧
    (deletePoint p u id).pI.length + 1 = p.pI.length ∧
    (∀ u', u' ≠ u → AL.get (deletePoint p u id).pI u' = AL.get p.pI u') ∧
    (deletePoint p u id).nI = AL.del p.nI id := by
  have hnI : AL.get p.nI id = some u := (hp.bij u id).mp hu
  refine ⟨⟨AL.nodup_del hp.pI_nodup _, AL.nodup_del hp.nI_nodup _, AL.nodup_del hp.nD_nodup _, ?_, ?_⟩, ?_, ?_, ?_, rfl⟩
  · intro u' id'
    simp only [deletePoint, AL.get_del]
    have hb := hp.bij
    by_cases h1 : u = u' <;> by_cases h2 : id = id'
    · simp [h1, h2]
    · subst h1; simp only [if_true, h2, if_false]
      constructor
      · intro h; cases h
      · intro h; have := (hb u id').mpr h; rw [hu] at this; exact absurd (Option.some.inj this) h2
    · subst h2; simp only [h1, if_false, if_true]
      constructor
      · intro h; have := (hb u' id).mp h; rw [hnI] at this; exact absurd (Option.some.inj this) h1
      · intro h; cases h
    · simp only [h1, h2, if_false]; exact hb u' id'
  · intro i hi
    simp only [deletePoint, AL.get_del] at hi ⊢
    by_cases h : id = i
    · simp [h] at hi
    · simp only [h, if_false] at hi ⊢; exact hp.nD_live i hi
  · simp only [absP, deletePoint, AL.del, List.filter_map]
    apply List.map_congr_left
    intro e he
    have he' := (List.mem_filter.mp he)
    have h1 := hp.mem_pI he'.1
    have hne : e.1 ≠ u := by simpa [Function.comp] using he'.2
    have : id ≠ e.2 := by
      intro h2; apply hne; exact hp.inj h1 (h2 ▸ hu)
    have h3 := AL.get_del p.nD id e.2
    simp only [AL.del] at h3
    simp [h3, this]
  · exact AL.length_del hp.pI_nodup ((AL.get_isSome_iff _ _).mp (by rw [hu]; rfl))
  · intro u' hne
    simp [deletePoint, AL.get_del, Ne.symm hne]

theorem setPoint_pI (p : Points) (u : Uuid) (id : Nat) (d : Data) : (setPoint p u id d).pI = AL.put p.pI u id := by
  cases d <;> rfl

/-! ### the id counter -/

theorem CInv_empty : CInv [] [] 2 := by
  constructor <;> simp

/-- NextId hands out a node id that is not live, and the counter still fits once that id is live -/
theorem nextId_spec {nI : List (Nat × Uuid)} (c : Ctr) (hc : CInv nI c.free c.next) (u : Uuid) :
    AL.get nI c.nextId.1 = none ∧ CInv (AL.put nI c.nextId.1 u) c.nextId.2.free c.nextId.2.next := by
  obtain ⟨free, next⟩ := c
  cases free with
  | nil =>
    replace hc : CInv nI [] next := hc
    simp only [Ctr.nextId]
    have hnone : AL.get nI next = none := by
      cases h : AL.get nI next with
      | none => rfl
      | some u' => have := (hc.live_range next u' h).2; omega
    refine ⟨hnone, ⟨by simp, by simp, by simp, ?_, ?_⟩⟩
    · intro id u' h
      rw [AL.get_put] at h
      by_cases h2 : next = id
      · subst h2; exact ⟨hc.next_ge, Nat.lt_succ_self _⟩
      · rw [if_neg h2] at h
        have := hc.live_range id u' h
        exact ⟨this.1, Nat.lt_succ_of_lt this.2⟩
    · have := hc.next_ge; show 2 ≤ next + 1; omega
  | cons f rest =>
    replace hc : CInv nI (f :: rest) next := hc
    simp only [Ctr.nextId]
    have hn := List.nodup_cons.mp hc.free_nodup
    refine ⟨hc.free_dead f (List.mem_cons_self ..), ⟨hn.2, ?_, ?_, ?_, hc.next_ge⟩⟩
    · intro id hid
      rw [AL.get_put]
      have : f ≠ id := by intro h; subst h; exact hn.1 hid
      rw [if_neg this]
      exact hc.free_dead id (List.mem_cons_of_mem _ hid)
    · intro id hid; exact hc.free_range id (List.mem_cons_of_mem _ hid)
    · intro id u' h
      rw [AL.get_put] at h
      by_cases h2 : f = id
      · subst h2; exact hc.free_range f (List.mem_cons_self ..)
      · rw [if_neg h2] at h; exact hc.live_range id u' h

/-- FreeId of a live node id whose `n<id>i` entry is being deleted -/
theorem freeId_spec {nI : List (Nat × Uuid)} (c : Ctr) (hc : CInv nI c.free c.next) {id : Nat} {u : Uuid}
    (h : AL.get nI id = some u) : CInv (AL.del nI id) (c.freeId id).free (c.freeId id).next := by
  simp only [Ctr.freeId]
  refine ⟨?_, ?_, ?_, ?_, hc.next_ge⟩
  · rw [List.nodup_append]
    refine ⟨hc.free_nodup, by simp, ?_⟩
    intro a ha b hb
    simp at hb; subst hb
    intro hab; subst hab
    have := hc.free_dead a ha
    rw [h] at this; cases this
  · intro i hi
    rw [AL.get_del]
    by_cases h2 : id = i
    · simp [h2]
    · rw [if_neg h2]
      rcases List.mem_append.mp hi with hi | hi
      · exact hc.free_dead i hi
      · simp at hi; exact absurd hi.symm h2
  · intro i hi
    rcases List.mem_append.mp hi with hi | hi
    · exact hc.free_range i hi
    · simp at hi; subst hi; exact hc.live_range i u h
  · intro i u' hi
    rw [AL.get_del] at hi
    by_cases h2 : id = i
    · simp [h2] at hi
    · rw [if_neg h2] at hi; exact hc.live_range i u' hi

/-! ### the three loops -/

theorem insertLoop_spec (b : List (Uuid × Data)) : ∀ (p : Points) (c : Ctr),
    (AL.keys b).Nodup → PInv p → CInv p.nI c.free c.next →
    (∀ e, insertLoop p c b = .error e → e = .exists_ ∧ ∃ u, u ∈ AL.keys b ∧ (AL.get p.pI u).isSome = true) ∧
    (∀ p' c', insertLoop p c b = .ok (p', c') →
      (∀ u, u ∈ AL.keys b → AL.get p.pI u = none) ∧ PInv p' ∧ CInv p'.nI c'.free c'.next ∧
      absP p' = absP p ++ b ∧ p'.pI.length = p.pI.length + b.length) := by
  induction b with
  | nil =>
    intro p c _ hp hc
    refine ⟨by intro e h; simp [insertLoop] at h, ?_⟩
    intro p' c' h
    simp only [insertLoop, Except.ok.injEq, Prod.mk.injEq] at h
    obtain ⟨rfl, rfl⟩ := h
    exact ⟨by simp, hp, hc, by simp, by simp⟩
  | cons e rest ih =>
    obtain ⟨u, d⟩ := e
    intro p c hn hp hc
    simp only [AL.keys_cons, List.nodup_cons] at hn
    by_cases hex : (AL.get p.pI u).isSome = true
    · have hl : insertLoop p c ((u, d) :: rest) = .error .exists_ := by simp [insertLoop, hex]
      rw [hl]
      refine ⟨?_, by intro p' c' h; cases h⟩
      intro e h; cases h
      exact ⟨rfl, u, by simp, hex⟩
    · have hu : AL.get p.pI u = none := by
        cases h : AL.get p.pI u with
        | none => rfl
        | some _ => rw [h] at hex; exact absurd rfl hex
      have hl : insertLoop p c ((u, d) :: rest) = insertLoop (setPoint p u c.nextId.1 d) c.nextId.2 rest := by
        simp [insertLoop, hu]
      rw [hl]
      obtain ⟨hid, hc1⟩ := nextId_spec c hc u
      obtain ⟨hp1, habs1, hpI1, hnI1⟩ := setPoint_new hp hu hid d
      rw [← hnI1] at hc1
      obtain ⟨ihE, ihO⟩ := ih (setPoint p u c.nextId.1 d) c.nextId.2 hn.2 hp1 hc1
      have hget : ∀ u', u' ∈ AL.keys rest → AL.get (setPoint p u c.nextId.1 d).pI u' = AL.get p.pI u' := by
        intro u' hu'
        have : u ≠ u' := by intro h; subst h; exact hn.1 hu'
        rw [setPoint_pI, AL.get_put, if_neg this]
      constructor
      · intro e h
        obtain ⟨he, u', hu', hs⟩ := ihE e h
        rw [hget u' hu'] at hs
        exact ⟨he, u', by simp [hu'], hs⟩
      · intro p' c' h
        obtain ⟨h1, h2, h3, h4, h5⟩ := ihO p' c' h
        refine ⟨?_, h2, h3, ?_, ?_⟩
        · intro u' hu'
          simp only [AL.keys_cons, List.mem_cons] at hu'
          rcases hu' with rfl | hu'
          · exact hu
          · rw [← hget u' hu']; exact h1 u' hu'
        · rw [h4, habs1]; simp
        · rw [h5, hpI1]; simp; omega

theorem updateLoop_sim (cfg : Cfg) (b : List (Uuid × Data)) : ∀ (p : Points) (acc : List Uuid), PInv p →
    (∀ e, updateLoop cfg p b acc = .error e → Coll.updateLoop cfg (absP p) b acc = .error e) ∧
    (∀ p' a, updateLoop cfg p b acc = .ok (p', a) →
      PInv p' ∧ p'.pI = p.pI ∧ p'.nI = p.nI ∧ Coll.updateLoop cfg (absP p) b acc = .ok (absP p', a)) := by
  induction b with
  | nil =>
    intro p acc hp
    refine ⟨by intro e h; simp [updateLoop] at h, ?_⟩
    intro p' a h
    simp only [updateLoop, Except.ok.injEq, Prod.mk.injEq] at h
    obtain ⟨rfl, rfl⟩ := h
    exact ⟨hp, rfl, rfl, by simp [Coll.updateLoop]⟩
  | cons e rest ih =>
    obtain ⟨u, inc⟩ := e
    intro p acc hp
    cases hu : AL.get p.pI u with
    | none =>
      have h1 : updateLoop cfg p ((u, inc) :: rest) acc = updateLoop cfg p rest acc := by simp [updateLoop, hu]
      have h2 : Coll.updateLoop cfg (absP p) ((u, inc) :: rest) acc = Coll.updateLoop cfg (absP p) rest acc := by
        simp [Coll.updateLoop, get_absP, hu]
      rw [h1, h2]; exact ih p acc hp
    | some id =>
      cases hd : AL.get p.nD id with
      | none =>
        have h1 : updateLoop cfg p ((u, inc) :: rest) acc = .error .badOld := by simp [updateLoop, hu, hd]
        have h2 : Coll.updateLoop cfg (absP p) ((u, inc) :: rest) acc = .error .badOld := by
          simp [Coll.updateLoop, get_absP, hu, hd]
        rw [h1, h2]
        exact ⟨by intro e h; cases h; rfl, by intro p' a h; cases h⟩
      | some old =>
        cases inc with
        | none =>
          have h1 : updateLoop cfg p ((u, none) :: rest) acc = .error .badNew := by simp [updateLoop, hu, hd]
          have h2 : Coll.updateLoop cfg (absP p) ((u, none) :: rest) acc = .error .badNew := by
            simp [Coll.updateLoop, get_absP, hu, hd]
          rw [h1, h2]
          exact ⟨by intro e h; cases h; rfl, by intro p' a h; cases h⟩
        | some i =>
          by_cases hs : cfg.size (merge old i) > cfg.maxSize
          · have h1 : updateLoop cfg p ((u, some i) :: rest) acc = .error .tooLarge := by simp [updateLoop, hu, hd, hs]
            have h2 : Coll.updateLoop cfg (absP p) ((u, some i) :: rest) acc = .error .tooLarge := by
              simp [Coll.updateLoop, get_absP, hu, hd, hs]
            rw [h1, h2]
            exact ⟨by intro e h; cases h; rfl, by intro p' a h; cases h⟩
          · have h1 : updateLoop cfg p ((u, some i) :: rest) acc =
                updateLoop cfg (setPoint p u id (some (merge old i))) rest (acc ++ [u]) := by
              simp [updateLoop, hu, hd, hs]
            have h2 : Coll.updateLoop cfg (absP p) ((u, some i) :: rest) acc =
                Coll.updateLoop cfg (AL.put (absP p) u (some (merge old i))) rest (acc ++ [u]) := by
              simp [Coll.updateLoop, get_absP, hu, hd, hs]
            obtain ⟨hp1, habs1, hpI1, hnI1⟩ := setPoint_live hp hu (merge old i)
            rw [h1, h2, ← habs1]
            obtain ⟨ihE, ihO⟩ := ih (setPoint p u id (some (merge old i))) (acc ++ [u]) hp1
            refine ⟨ihE, ?_⟩
            intro p' a h
            obtain ⟨k1, k2, k3, k4⟩ := ihO p' a h
            exact ⟨k1, k2.trans hpI1, k3.trans hnI1, k4⟩

theorem deleteLoop_spec (iter : List Uuid) : ∀ (p : Points) (c : Ctr) (acc : List Uuid),
    iter.Nodup → PInv p → CInv p.nI c.free c.next →
    PInv (deleteLoop p c iter acc).1 ∧
    CInv (deleteLoop p c iter acc).1.nI (deleteLoop p c iter acc).2.1.free (deleteLoop p c iter acc).2.1.next ∧
    (deleteLoop p c iter acc).2.1.next = c.next ∧
    absP (deleteLoop p c iter acc).1 = (absP p).filter (fun e => !(iter.contains e.1)) ∧
    (deleteLoop p c iter acc).2.2 = acc ++ iter.filter (fun u => (AL.get p.pI u).isSome) ∧
    (deleteLoop p c iter acc).1.pI.length + (deleteLoop p c iter acc).2.2.length = p.pI.length + acc.length := by
  induction iter with
  | nil =>
    intro p c acc _ hp hc
    simp only [deleteLoop, List.contains_nil, Bool.not_false, List.filter_nil, List.append_nil]
    exact ⟨hp, hc, trivial, (List.filter_eq_self.mpr (by intros; rfl)).symm, trivial, trivial⟩
  | cons u rest ih =>
    intro p c acc hn hp hc
    rw [List.nodup_cons] at hn
    cases hu : AL.get p.pI u with
    | none =>
      have h1 : deleteLoop p c (u :: rest) acc = deleteLoop p c rest acc := by simp [deleteLoop, hu]
      rw [h1]
      obtain ⟨k1, k2, k3, k4, k5, k6⟩ := ih p c acc hn.2 hp hc
      refine ⟨k1, k2, k3, ?_, ?_, k6⟩
      · rw [k4]
        apply List.filter_congr
        intro e he
        have : e.1 ≠ u := by
          intro h
          have hk : e.1 ∈ AL.keys (absP p) := List.mem_map.mpr ⟨e, he, rfl⟩
          rw [keys_absP, h] at hk
          exact (AL.get_eq_none_iff _ _).mp hu hk
        simp [this]
      · rw [k5]; simp [hu]
    | some id =>
      have h1 : deleteLoop p c (u :: rest) acc = deleteLoop (deletePoint p u id) (c.freeId id) rest (acc ++ [u]) := by
        simp [deleteLoop, hu]
      rw [h1]
      obtain ⟨hp1, habs1, hlen1, hget1, hnI1⟩ := deletePoint_live hp hu
      have hc1 := freeId_spec c hc ((hp.bij u id).mp hu)
      rw [← hnI1] at hc1
      obtain ⟨k1, k2, k3, k4, k5, k6⟩ := ih (deletePoint p u id) (c.freeId id) (acc ++ [u]) hn.2 hp1 hc1
      refine ⟨k1, k2, by rw [k3]; rfl, ?_, ?_, ?_⟩
      · rw [k4, habs1, List.filter_filter]
        apply List.filter_congr
        intro e _
        by_cases h : e.1 = u <;> simp [h]
      · rw [k5]
        have : rest.filter (fun u' => (AL.get (deletePoint p u id).pI u').isSome) =
            rest.filter (fun u' => (AL.get p.pI u').isSome) := by
          apply List.filter_congr
          intro u' hu'
          have : u' ≠ u := by intro h; subst h; exact hn.1 hu'
          rw [hget1 u' this]
        rw [this]
        simp [hu]
      · rw [k6]; simp; omega

/-! ### the whole shard -/

theorem Inv_empty : Inv Shard.empty :=
  ⟨PInv_empty, CInv_empty, rfl⟩

theorem newIdCounter_CInv {s : Shard} (hI : Inv s) (o : Oracle) :
    CInv s.pts.nI (newIdCounter s o).free (newIdCounter s o).next := by
  have hc := hI.ctr
  have hm : ∀ id, id ∈ reorder (dedup s.freeV) o.freeOrder ↔ id ∈ s.freeV := by
    intro id; rw [mem_reorder, mem_dedup]
  exact ⟨nodup_reorder (nodup_dedup _) _,
    fun id h => hc.free_dead id ((hm id).mp h),
    fun id h => hc.free_range id ((hm id).mp h),
    hc.live_range, hc.next_ge⟩

theorem getAll_eq (p : Points) (ids : List Nat) (h : ∀ id, id ∈ ids → (AL.get p.nI id).isSome = true) :
    getAll p ids = .ok (ids.filterMap (fun id => (AL.get p.nI id).map (fun u => (u, AL.get p.nD id)))) := by
  induction ids with
  | nil => rfl
  | cons id r ih =>
    have h1 := h id (List.mem_cons_self ..)
    cases hg : AL.get p.nI id with
    | none => rw [hg] at h1; cases h1
    | some u =>
      simp [getAll, getByNodeId, hg, ih (fun i hi => h i (List.mem_cons_of_mem _ hi))]

theorem nodup_map_of_inj_on {α β : Type} (f : α → β) : ∀ (l : List α), l.Nodup →
    (∀ a, a ∈ l → ∀ b, b ∈ l → f a = f b → a = b) → (l.map f).Nodup := by
  intro l
  induction l with
  | nil => intros; simp
  | cons a r ih =>
    intro hn hinj
    rw [List.nodup_cons] at hn
    rw [List.map_cons, List.nodup_cons]
    refine ⟨?_, ih hn.2 (fun x hx y hy => hinj x (List.mem_cons_of_mem _ hx) y (List.mem_cons_of_mem _ hy))⟩
    intro hm
    obtain ⟨x, hx, hfx⟩ := List.mem_map.mp hm
    have := hinj x (List.mem_cons_of_mem _ hx) a (List.mem_cons_self ..) hfx
    subst this; exact hn.1 hx


/- equation lemmas of the model are realised here so that the audit of Props lists property theorems only -/
theorem realizeEqns : True := by
  have := @abs.eq_1
  have := @Shard.run.eq_1
  have := @Shard.run.eq_2
  have := @Shard.run.eq_def
  have := @Shard.step.eq_1
  have := @Shard.step.eq_2
  have := @Shard.step.eq_3
  have := @insertPoints.eq_1
  have := @getAll.eq_1
  have := @getAll.eq_2
  have := @getAll.eq_def
  have := @Coll.update.eq_1
  have := @readById.eq_1
  have := @deletePoints.eq_1
  have := @Coll.delete.eq_1
  have := @Coll.step.eq_1
  have := @Coll.step.eq_2
  have := @Coll.step.eq_3
  have := @updatePoints.eq_1
  have := @getByNodeId.eq_1
  have := @Coll.insert.eq_1
  have := @Coll.run.eq_1
  have := @Coll.run.eq_2
  have := @Coll.run.eq_def
  have := @merge.eq_1
  trivial

end Sema.C01
