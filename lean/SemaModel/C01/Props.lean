/-
C01 — stored points follow the documented insert / update / delete semantics.

SPEC  `Coll`  (Model.lean): the plain reference map uuid ↦ data with insert / update / delete / count.
MODEL `Shard` (Model.lean): transcription of shard/shard.go, shard/pointstore/pointstore.go and
      shard/idcounter.go over symbolic bucket keys, with every source of nondeterminism of the Go
      code an explicit oracle argument.

Theorems (all unconditional in the batch contents, the history and the oracle values):
  C01_step     one batch: the invariant is kept, the abstraction commutes with the spec step, the
               reported results agree (deleted ids as sets)
  C01_history  any finite history from the empty shard, by induction on the op list
  C01_read / C01_read_all   reads by id / select-all reads return exactly the stored data
  C01_update_reports, C01_update_ids, C01_delete_reports, C01_insert_*, C01_merge
               the spec itself says what the property text says
Only property theorems and their non-vacuity examples live in this file.
-/
import SemaModel.C01.Lemmas
set_option linter.unusedSimpArgs false
namespace Sema.C01

/-! ### facts of the source the model relies on (tools/facts_c01): see `Pins.lean` (a module of its own, built by C01's check only) -/

/-! ### the spec says what the property says -/

/-- shallow merge: a field named by the update takes the new value, or disappears when the new
value is the string "_delete"; all other fields keep their value -/
theorem C01_merge (old inc : Doc) (hn : (AL.keys inc).Nodup) (k : Key) :
    AL.get (merge old inc) k =
      match AL.get inc k with
      | none => AL.get old k
      | some v => if isDelete v then none else some v := by
  induction inc generalizing old with
  | nil => simp [merge]
  | cons e r ih =>
    obtain ⟨k1, v1⟩ := e
    simp only [AL.keys_cons, List.nodup_cons] at hn
    have hm : merge old ((k1, v1) :: r) = merge (if isDelete v1 then AL.del old k1 else AL.put old k1 v1) r := by
      simp [merge]
    rw [hm, ih _ hn.2]
    by_cases hk : k1 = k
    · subst hk
      have : AL.get r k1 = none := (AL.get_eq_none_iff _ _).mpr hn.1
      rw [this]
      by_cases hd : isDelete v1 = true <;> simp [AL.get_cons, hd, AL.get_del, AL.get_put]
    · simp only [AL.get_cons, hk, if_false]
      cases AL.get r k with
      | some v => rfl
      | none => by_cases hd : isDelete v1 = true <;> simp [hd, AL.get_del, AL.get_put, hk]

/-- an accepted insert adds exactly the batch -/
theorem C01_insert_ok (c : Coll) (b : List (Uuid × Data)) (ix : Bool) (c' : Coll)
    (h : Coll.insert c b ix = (c', .ok)) :
    c' = c ++ b ∧ (AL.keys b).Nodup ∧ ∀ u, u ∈ AL.keys b → AL.get c u = none := by
  unfold Coll.insert at h
  split at h
  · cases h
  · rename_i hn
    split at h
    · cases h
    · rename_i he
      split at h
      · cases h
      · simp only [Prod.mk.injEq, and_true] at h
        refine ⟨h.symm, Decidable.of_not_not hn, ?_⟩
        intro u hu
        obtain ⟨e, he1, he2⟩ := List.mem_map.mp hu
        have := List.any_eq_false.mp (Bool.eq_false_iff.mpr he) e he1
        subst he2
        cases hg : AL.get c e.1 with
        | none => rfl
        | some _ => rw [hg] at this; exact absurd rfl this

/-- an insert that repeats an id, or names a stored id, changes nothing -/
theorem C01_insert_rejected (c : Coll) (b : List (Uuid × Data)) (ix : Bool)
    (h : ¬ (AL.keys b).Nodup ∨ ∃ u, u ∈ AL.keys b ∧ (AL.get c u).isSome = true) :
    (Coll.insert c b ix).1 = c ∧ ∃ r, (Coll.insert c b ix).2 = .rejected r := by
  unfold Coll.insert
  split
  · exact ⟨rfl, _, rfl⟩
  · split
    · exact ⟨rfl, _, rfl⟩
    · rename_i hn he
      rcases h with h | ⟨u, hu, hs⟩
      · exact absurd h hn
      · exfalso; apply he
        obtain ⟨e, he1, he2⟩ := List.mem_map.mp hu
        exact List.any_eq_true.mpr ⟨e, he1, by rw [he2]; exact hs⟩

/-- an update reports the requested ids that existed, in request order and with multiplicity, and
neither adds nor removes ids -/
theorem C01_update_reports (cfg : Cfg) (b : List (Uuid × Data)) : ∀ (c : Coll) (acc : List Uuid) (c' : Coll) (ids : List Uuid),
    Coll.updateLoop cfg c b acc = .ok (c', ids) →
    ids = acc ++ (AL.keys b).filter (fun u => (AL.get c u).isSome) ∧ AL.keys c' = AL.keys c := by
  induction b with
  | nil =>
    intro c acc c' ids h
    simp only [Coll.updateLoop, Except.ok.injEq, Prod.mk.injEq] at h
    obtain ⟨rfl, rfl⟩ := h; simp
  | cons e rest ih =>
    obtain ⟨u, inc⟩ := e
    intro c acc c' ids h
    cases hu : AL.get c u with
    | none =>
      simp only [Coll.updateLoop, hu] at h
      obtain ⟨h1, h2⟩ := ih c acc c' ids h
      exact ⟨by rw [h1]; simp [hu], h2⟩
    | some old =>
      cases old with
      | none => simp [Coll.updateLoop, hu] at h
      | some old =>
        cases inc with
        | none => simp [Coll.updateLoop, hu] at h
        | some i =>
          simp only [Coll.updateLoop, hu] at h
          split at h
          · cases h
          · obtain ⟨h1, h2⟩ := ih _ _ c' ids h
            have hk : AL.keys (AL.put c u (some (merge old i))) = AL.keys c := by
              rw [AL.keys_put, if_pos ((AL.get_isSome_iff _ _).mp (by rw [hu]; rfl))]
            have hs : ∀ u', (AL.get (AL.put c u (some (merge old i))) u').isSome = (AL.get c u').isSome := by
              intro u'
              rw [Bool.eq_iff_iff, AL.get_isSome_iff, AL.get_isSome_iff, hk]
            refine ⟨?_, h2.trans hk⟩
            rw [h1]; simp [hs, hu]

theorem C01_update_ids (cfg : Cfg) (c : Coll) (b : List (Uuid × Data)) (ix : Bool) (ids : List Uuid)
    (h : (Coll.update cfg c b ix).2 = .updated ids) :
    ids = (AL.keys b).filter (fun u => (AL.get c u).isSome) ∧ AL.keys (Coll.update cfg c b ix).1 = AL.keys c := by
  unfold Coll.update at h ⊢
  cases hl : Coll.updateLoop cfg c b [] with
  | error e => rw [hl] at h; cases h
  | ok r =>
    obtain ⟨c', a⟩ := r
    rw [hl] at h
    obtain ⟨h1, h2⟩ := C01_update_reports cfg b c [] c' a hl
    by_cases hx : ix = true
    · simp only [hx, Bool.not_true, Bool.false_eq_true, if_false, Out.updated.injEq] at h ⊢
      subst h; exact ⟨by simpa using h1, h2⟩
    · simp [hx] at h

/-- a delete removes exactly the requested ids and reports the requested ids that existed, once each -/
theorem C01_delete_reports (c : Coll) (ids : List Uuid) :
    (∀ u, AL.get (Coll.delete c ids true).1 u = if u ∈ ids then none else AL.get c u) ∧
    ∃ l, (Coll.delete c ids true).2 = .deleted l ∧ l.Nodup ∧ ∀ u, u ∈ l ↔ (u ∈ ids ∧ (AL.get c u).isSome = true) := by
  constructor
  · intro u
    simp only [Coll.delete, Bool.not_true, Bool.false_eq_true, if_false, List.contains_eq_mem]
    induction c with
    | nil => simp
    | cons e r ih =>
      obtain ⟨a, d⟩ := e
      by_cases ha : a ∈ ids
      · by_cases hau : a = u
        · subst hau; simp [List.filter_cons, ha, ih]
        · simp [List.filter_cons, ha, ih, AL.get_cons, hau]
      · by_cases hau : a = u
        · subst hau; simp [List.filter_cons, ha, AL.get_cons]
        · simp [List.filter_cons, ha, ih, AL.get_cons, hau]
  · refine ⟨_, rfl, (nodup_dedup ids).filter _, ?_⟩
    intro u
    simp [List.mem_filter, mem_dedup]

/-! ### refinement -/

/-- One batch. For every shard state satisfying the invariant, every batch and EVERY oracle value
(free-id order, delete iteration order, index verdict): the invariant is preserved, the abstraction
of the new state is the spec's new state, and the reported result agrees with the spec's. -/
theorem C01_step (cfg : Cfg) (s : Shard) (op : Op) (o : Oracle) (hI : Inv s) :
    Inv (s.step cfg op o).1 ∧
    abs (s.step cfg op o).1 = (Coll.step cfg (abs s) op o.indexOk).1 ∧
    Out.equiv (s.step cfg op o).2 (Coll.step cfg (abs s) op o.indexOk).2 := by
  have same : ∀ r, Inv s ∧ True ∧ Out.equiv (Out.rejected r) (Out.rejected r) :=
    fun r => ⟨hI, trivial, rfl⟩
  cases op with
  | insert b =>
    simp only [Shard.step, Coll.step, insertPoints, Coll.insert]
    by_cases hn : (AL.keys b).Nodup
    · simp only [hn, not_true_eq_false, if_false]
      obtain ⟨hE, hO⟩ := insertLoop_spec b s.pts (newIdCounter s o) hn hI.pts (newIdCounter_CInv hI o)
      cases hl : insertLoop s.pts (newIdCounter s o) b with
      | error e =>
        obtain ⟨he, u, hu, hs⟩ := hE e hl
        have : (b.any fun e => (AL.get (abs s) e.1).isSome) = true := by
          obtain ⟨x, hx1, hx2⟩ := List.mem_map.mp hu
          refine List.any_eq_true.mpr ⟨x, hx1, ?_⟩
          rw [hx2]; simp only [abs, get_absP, Option.isSome_map]; exact hs
        simp only [this, if_true, he]
        exact same _
      | ok r =>
        obtain ⟨p', c'⟩ := r
        obtain ⟨h1, h2, h3, h4, h5⟩ := hO p' c' hl
        have : (b.any fun e => (AL.get (abs s) e.1).isSome) = false := by
          apply List.any_eq_false.mpr
          intro x hx
          have := h1 x.1 (List.mem_map.mpr ⟨x, hx, rfl⟩)
          simp [abs, get_absP, this]
        simp only [this, Bool.false_eq_true, if_false]
        cases hx : o.indexOk with
        | true =>
          simp only [Bool.not_true, Bool.false_eq_true, if_false]
          refine ⟨⟨h2, h3, ?_⟩, h4, trivial⟩
          show s.countV + b.length = p'.pI.length
          rw [h5, hI.count]
        | false =>
          simp only [Bool.not_false, if_true]
          exact same _
    · simp only [hn, not_false_eq_true, if_true]
      exact same _
  | update b =>
    simp only [Shard.step, Coll.step, updatePoints, Coll.update]
    obtain ⟨hE, hO⟩ := updateLoop_sim cfg b s.pts [] hI.pts
    cases hl : updateLoop cfg s.pts b [] with
    | error e =>
      have := hE e hl
      simp only [abs, this]
      exact same _
    | ok r =>
      obtain ⟨p', a⟩ := r
      obtain ⟨h1, h2, h3, h4⟩ := hO p' a hl
      simp only [abs, h4]
      cases hx : o.indexOk with
      | false => simp only [Bool.not_false, if_true]; exact same _
      | true =>
        simp only [Bool.not_true, Bool.false_eq_true, if_false]
        refine ⟨⟨h1, ?_, ?_⟩, by first | trivial | rfl, by first | trivial | rfl⟩
        · show CInv p'.nI s.freeV s.nextV
          rw [h3]; exact hI.ctr
        · show s.countV = p'.pI.length
          rw [h2]; exact hI.count
  | delete ids =>
    simp only [Shard.step, Coll.step, deletePoints, Coll.delete]
    cases hx : o.indexOk with
    | false => simp only [Bool.not_false, if_true]; exact same _
    | true =>
      simp only [Bool.not_true, Bool.false_eq_true, if_false]
      have hn : (reorder (dedup ids) o.iterOrder).Nodup := nodup_reorder (nodup_dedup _) _
      obtain ⟨k1, k2, k3, k4, k5, k6⟩ :=
        deleteLoop_spec (reorder (dedup ids) o.iterOrder) s.pts (newIdCounter s o) [] hn hI.pts (newIdCounter_CInv hI o)
      have k4' : absP (deleteLoop s.pts (newIdCounter s o) (reorder (dedup ids) o.iterOrder) []).1 =
          (abs s).filter (fun e => !(ids.contains e.1)) := by
        rw [k4]
        apply List.filter_congr
        intro e _
        simp only [List.contains_eq_mem, mem_reorder, mem_dedup]
      have k5' : ((deleteLoop s.pts (newIdCounter s o) (reorder (dedup ids) o.iterOrder) []).2.2).Perm
          ((dedup ids).filter (fun u => (AL.get (abs s) u).isSome)) := by
        rw [k5, List.nil_append]
        have h1 := (reorder_perm (dedup ids) o.iterOrder).filter (fun u => (AL.get s.pts.pI u).isSome)
        have h2 : (dedup ids).filter (fun u => (AL.get s.pts.pI u).isSome) =
            (dedup ids).filter (fun u => (AL.get (abs s) u).isSome) := by
          apply List.filter_congr
          intro u _
          simp [abs, get_absP]
        rw [← h2]; exact h1
      have k6' : (deleteLoop s.pts (newIdCounter s o) (reorder (dedup ids) o.iterOrder) []).1.pI.length +
          (deleteLoop s.pts (newIdCounter s o) (reorder (dedup ids) o.iterOrder) []).2.2.length = s.countV := by
        rw [hI.count, k6]; rfl
      generalize deleteLoop s.pts (newIdCounter s o) (reorder (dedup ids) o.iterOrder) [] = r at k1 k2 k4' k5' k6' ⊢
      have hlen : ¬ s.countV < r.2.2.length := by omega
      simp only [hlen, if_false]
      refine ⟨⟨k1, k2, ?_⟩, k4', k5'⟩
      show s.countV - r.2.2.length = r.1.pI.length
      omega

/-- Any finite history of batches from the empty shard, under any oracles: the final state satisfies
the invariant, it stands for exactly the collection the spec computes, every reported result agrees,
and `Info().PointCount` is the number of stored points. -/
theorem C01_run (cfg : Cfg) (h : List (Op × Oracle)) : ∀ (s : Shard), Inv s →
    Inv (Shard.run cfg s h).1 ∧
    abs (Shard.run cfg s h).1 = (Coll.run cfg (abs s) (h.map fun e => (e.1, e.2.indexOk))).1 ∧
    Out.equivList (Shard.run cfg s h).2 (Coll.run cfg (abs s) (h.map fun e => (e.1, e.2.indexOk))).2 := by
  induction h with
  | nil => intro s hI; exact ⟨hI, rfl, trivial⟩
  | cons e rest ih =>
    obtain ⟨op, o⟩ := e
    intro s hI
    obtain ⟨h1, h2, h3⟩ := C01_step cfg s op o hI
    obtain ⟨k1, k2, k3⟩ := ih _ h1
    simp only [Shard.run, Coll.run, List.map_cons]
    rw [← h2]
    exact ⟨k1, k2, h3, k3⟩

theorem C01_history (cfg : Cfg) (h : List (Op × Oracle)) :
    Inv (Shard.run cfg Shard.empty h).1 ∧
    abs (Shard.run cfg Shard.empty h).1 = (Coll.run cfg [] (h.map fun e => (e.1, e.2.indexOk))).1 ∧
    Out.equivList (Shard.run cfg Shard.empty h).2 (Coll.run cfg [] (h.map fun e => (e.1, e.2.indexOk))).2 ∧
    (Shard.run cfg Shard.empty h).1.info = (Coll.run cfg [] (h.map fun e => (e.1, e.2.indexOk))).1.count := by
  obtain ⟨h1, h2, h3⟩ := C01_run cfg h Shard.empty Inv_empty
  refine ⟨h1, h2, h3, ?_⟩
  have : abs Shard.empty = [] := rfl
  rw [this] at h2
  rw [← h2]
  show (Shard.run cfg Shard.empty h).1.countV = (absP _).length
  rw [length_absP]; exact h1.count

/-! ### reads -/

/-- a read by id returns exactly the stored data, under the requested uuid; an unknown id returns nothing -/
theorem C01_read (s : Shard) (hI : Inv s) (u : Uuid) :
    readById s.pts u = .ok ((AL.get (abs s) u).map (fun d => (u, d))) := by
  simp only [readById, abs, get_absP]
  cases hu : AL.get s.pts.pI u with
  | none => rfl
  | some id =>
    have := (hI.pts.bij u id).mp hu
    simp [getByNodeId, this, Except.map]

/-- a select-all read of a list of ids (`_id` containsAny …, select ["*"]) succeeds and returns, once
each, exactly the requested ids that are stored, each with exactly its stored data -/
theorem C01_read_all (s : Shard) (hI : Inv s) (us : List Uuid) :
    ∃ l, readMany s.pts us = .ok l ∧ (AL.keys l).Nodup ∧
      ∀ u d, (u, d) ∈ l ↔ (u ∈ us ∧ AL.get (abs s) u = some d) := by
  have hp := hI.pts
  have hmem : ∀ id, id ∈ dedup (us.filterMap (AL.get s.pts.pI)) ↔ ∃ u, u ∈ us ∧ AL.get s.pts.pI u = some id := by
    intro id; rw [mem_dedup, List.mem_filterMap]
  have hlive : ∀ id, id ∈ dedup (us.filterMap (AL.get s.pts.pI)) → (AL.get s.pts.nI id).isSome = true := by
    intro id h
    obtain ⟨u, _, hu⟩ := (hmem id).mp h
    rw [(hp.bij u id).mp hu]; rfl
  refine ⟨_, getAll_eq s.pts _ hlive, ?_, ?_⟩
  · -- one entry per uuid: node ids are distinct and `n<id>i` is injective
    have : ∀ (ids : List Nat), (∀ id, id ∈ ids → (AL.get s.pts.nI id).isSome = true) →
        AL.keys (ids.filterMap (fun id => (AL.get s.pts.nI id).map (fun u => (u, AL.get s.pts.nD id)))) =
          ids.map (fun id => (AL.get s.pts.nI id).getD "") := by
      intro ids
      induction ids with
      | nil => intro _; rfl
      | cons id r ih =>
        intro h
        have h1 := h id (List.mem_cons_self ..)
        cases hg : AL.get s.pts.nI id with
        | none => rw [hg] at h1; cases h1
        | some u => simp [hg, ih (fun i hi => h i (List.mem_cons_of_mem _ hi))]
    rw [this _ hlive]
    apply nodup_map_of_inj_on _ _ (nodup_dedup _)
    intro a ha b hb hab
    obtain ⟨ua, _, hua⟩ := (hmem a).mp ha
    obtain ⟨ub, _, hub⟩ := (hmem b).mp hb
    have ha' := (hp.bij ua a).mp hua
    have hb' := (hp.bij ub b).mp hub
    rw [ha', hb'] at hab
    simp only [Option.getD_some] at hab
    subst hab
    rw [hua] at hub; exact Option.some.inj hub
  · intro u d
    rw [List.mem_filterMap]
    simp only [abs, get_absP]
    constructor
    · rintro ⟨id, hid, hx⟩
      obtain ⟨u', hu', hpu'⟩ := (hmem id).mp hid
      have hn := (hp.bij u' id).mp hpu'
      rw [hn] at hx
      simp only [Option.map_some, Option.some.injEq, Prod.mk.injEq] at hx
      obtain ⟨rfl, rfl⟩ := hx
      exact ⟨hu', by rw [hpu']; rfl⟩
    · rintro ⟨hu, hd⟩
      cases hpu : AL.get s.pts.pI u with
      | none => rw [hpu] at hd; cases hd
      | some id =>
        rw [hpu] at hd
        simp only [Option.map_some, Option.some.injEq] at hd
        refine ⟨id, (hmem id).mpr ⟨u, hu, hpu⟩, ?_⟩
        rw [(hp.bij u id).mp hpu, hd]; rfl

/-- under the invariant the `Delete` of `SetPoint` for zero-length data removes nothing when the
node id was not live: the branch is only reachable from InsertPoints, where the id is fresh or freed -/
theorem C01_setPoint_delete_noop (s : Shard) (hI : Inv s) (id : Nat) (h : AL.get s.pts.nI id = none) :
    AL.del s.pts.nD id = s.pts.nD := by
  unfold AL.del
  apply List.filter_eq_self.mpr
  intro e he
  have h1 : (AL.get s.pts.nD e.1).isSome = true :=
    (AL.get_isSome_iff _ _).mpr (List.mem_map.mpr ⟨e, he, rfl⟩)
  have h2 := hI.pts.nD_live e.1 h1
  have : e.1 ≠ id := by intro h3; rw [h3, h] at h2; cases h2
  simp [this]

/-! ### non-vacuity: a concrete three-batch history with reuse of a freed node id, an empty
document `{}`, a zero-length datum, a skipped unknown id, a "_delete" on a present and on an absent
field, and two different free-id oracles leading to different buckets but the same collection -/

def exCfg : Cfg := { maxSize := 3, size := fun d => d.length }

def o0 : Oracle := {}

def exHist (order : List Nat) : List (Op × Oracle) :=
  [ (.insert [("a", some [("x", "1"), ("y", "2")]), ("b", some []), ("c", none)], o0),
    (.delete ["a", "zz", "b", "a"], { iterOrder := ["b", "zz", "a"] }),
    (.insert [("d", some [("k", "\"v\"")])], { freeOrder := order }),
    (.update [("d", some [("k", "\"_delete\""), ("n", "7"), ("q", "\"_delete\"")]), ("nope", some [("n", "1")]), ("d", some [("m", "0")])], o0) ]

example : (Shard.run exCfg Shard.empty (exHist [3, 2])).1 =
    { pts := { nI := [(4, "c"), (3, "d")], nD := [(3, [("n", "7"), ("m", "0")])], pI := [("c", 4), ("d", 3)] },
      count := some 2, free := some [2], next := some 5 } := by decide

example : (Shard.run exCfg Shard.empty (exHist [2, 3])).1 =
    { pts := { nI := [(4, "c"), (2, "d")], nD := [(2, [("n", "7"), ("m", "0")])], pI := [("c", 4), ("d", 2)] },
      count := some 2, free := some [3], next := some 5 } := by decide

example : (Shard.run exCfg Shard.empty (exHist [3, 2])).2 =
    [.ok, .deleted ["b", "a"], .ok, .updated ["d", "d"]] := by decide

example : abs (Shard.run exCfg Shard.empty (exHist [3, 2])).1 = [("c", none), ("d", some [("n", "7"), ("m", "0")])] ∧
    abs (Shard.run exCfg Shard.empty (exHist [2, 3])).1 = [("c", none), ("d", some [("n", "7"), ("m", "0")])] := by decide

/-- the hypothesis of `C01_step` / `C01_read` holds on a non-trivial state -/
example : Inv (Shard.run exCfg Shard.empty (exHist [3, 2])).1 := (C01_history exCfg _).1

example : readById (Shard.run exCfg Shard.empty (exHist [3, 2])).1.pts "d" = .ok (some ("d", some [("n", "7"), ("m", "0")])) := by rfl

/-- rejections leave the state alone: repeated id, stored id, oversized merge, zero-length stored data -/
example : ((Shard.run exCfg Shard.empty (exHist [3, 2] ++
    [(.insert [("e", some []), ("e", some [])], o0), (.insert [("e", some []), ("d", some [])], o0),
     (.update [("d", some [("a", "1"), ("b", "2")])], o0), (.update [("c", some [])], o0),
     (.insert [("e", some [])], { indexOk := false })])).2.drop 4 =
    [.rejected .dupInBatch, .rejected .exists_, .rejected .tooLarge, .rejected .badOld, .rejected .index]) ∧
    (Shard.run exCfg Shard.empty (exHist [3, 2] ++
    [(.insert [("e", some []), ("e", some [])], o0), (.insert [("e", some []), ("d", some [])], o0),
     (.update [("d", some [("a", "1"), ("b", "2")])], o0), (.update [("c", some [])], o0),
     (.insert [("e", some [])], { indexOk := false })])).1 = (Shard.run exCfg Shard.empty (exHist [3, 2])).1 := by decide

end Sema.C01
