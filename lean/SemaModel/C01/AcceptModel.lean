/-
C01 — WHICH batches the point store accepts, stated on the reference map alone.

`Coll.insert / update / delete` (Model.lean) say what an accepted batch does; whether the batch is accepted
was, so far, read off the same functions (and off the oracle bit `indexOk`).  Here acceptance is a predicate
of its own, written from the property text, with no reference to the model of the shard and — for updates —
NOT by running the update loop: what an update entry writes is given in closed form (`mergedAt`: the stored
document with every patch the batch holds for that id, up to that entry, merged in).

  * `StoreAcceptable cfg c op` : the part the point store decides by itself (no schema):
        insert  ⇔  the ids of the batch are pairwise distinct and none of them is stored
        update  ⇔  every entry whose id is stored writes a document that fits `maxSize`
                   (entries with unknown ids are skipped)
        delete  ⇔  always
  * `EachWritten P c op`       : every document the batch writes satisfies `P` — the hook by which the
                                 composition (SemaModel/Compose/AcceptModel.lean) adds "conforms to the index
                                 schema"; C01 alone has no schema.

Zero-length `Point.Data` (`none`; not a document, outside the property text) is covered so that the
equivalences hold for every input: it can be inserted, an update entry that meets it (stored or incoming)
is not acceptable.  Core-only (linked into the driver).
-/
import SemaModel.C01.Model
namespace Sema.C01

/-- the patches a batch holds for the id `u`, in batch order -/
def patchesFor (u : Uuid) (b : List (Uuid × Data)) : List Data :=
  (b.filter fun e => e.1 == u).map (·.2)

/-- stored data with the patches merged in one after the other (`merge`: the given fields replace the
stored ones, the value "_delete" removes the field); `none` as soon as the stored data or a patch is not a
document (zero-length data) -/
def mergeAll : Data → List Data → Data
  | d, [] => d
  | some o, some p :: ps => mergeAll (some (merge o p)) ps
  | _, _ :: _ => none

/-- what the `n`-th entry of an update batch writes: nothing (`none`) when its id is not stored (the entry
is skipped); else the stored document with every patch the batch holds for that id up to and including
entry `n` merged in, in order (`some none`: one of them is not a document) -/
def mergedAt (c : Coll) (b : List (Uuid × Data)) (n : Nat) : Option Data :=
  match b[n]? with
  | none => none
  | some e => (AL.get c e.1).map fun old => mergeAll old (patchesFor e.1 (b.take (n + 1)))

/-- an update entry's write is admissible for the point store -/
def WriteFits (cfg : Cfg) : Option Data → Prop
  | none => True                              -- unknown id: the entry is skipped
  | some none => False                        -- zero-length data (stored or incoming): not a document
  | some (some m) => cfg.size m ≤ cfg.maxSize -- "point size exceeds limit" otherwise

/-- what the point store itself demands of a batch -/
def StoreAcceptable (cfg : Cfg) (c : Coll) : Op → Prop
  | .insert b => (AL.keys b).Nodup ∧ ∀ e ∈ b, AL.get c e.1 = none
  | .update b => ∀ n, n < b.length → WriteFits cfg (mergedAt c b n)
  | .delete _ => True

/-- the document of some data satisfies `P` (zero-length data: nothing to satisfy) -/
def DataSat (P : Doc → Prop) : Data → Prop
  | none => True
  | some d => P d

/-- the document an update entry writes (if it writes one) satisfies `P` -/
def WriteSat (P : Doc → Prop) : Option Data → Prop
  | some (some m) => P m
  | _ => True

/-- every document the batch writes satisfies `P` -/
def EachWritten (P : Doc → Prop) (c : Coll) : Op → Prop
  | .insert b => ∀ e ∈ b, DataSat P e.2
  | .update b => ∀ n, n < b.length → WriteSat P (mergedAt c b n)
  | .delete _ => True

instance (cfg : Cfg) (w : Option Data) : Decidable (WriteFits cfg w) := by
  unfold WriteFits; split <;> exact inferInstance

instance (P : Doc → Prop) [DecidablePred P] (d : Data) : Decidable (DataSat P d) := by
  unfold DataSat; split <;> exact inferInstance

instance (P : Doc → Prop) [DecidablePred P] (w : Option Data) : Decidable (WriteSat P w) := by
  unfold WriteSat; split <;> exact inferInstance

instance (cfg : Cfg) (c : Coll) (op : Op) : Decidable (StoreAcceptable cfg c op) := by
  cases op <;> (unfold StoreAcceptable; exact inferInstance)

instance (P : Doc → Prop) [DecidablePred P] (c : Coll) (op : Op) : Decidable (EachWritten P c op) := by
  cases op <;> (unfold EachWritten; exact inferInstance)

/-- the batch took effect (it was not rejected) -/
def Out.accepted : Out → Bool
  | .rejected _ => false
  | _ => true

end Sema.C01
