/-
C01 — the tie between the hand-written id counter (`Ctr`, `Ctr.nextId`, `Ctr.freeId` of
`C01/Model.lean`) and the source.  `SemaModel/Generated/IdCounter.lean` is produced from
`shard/idcounter.go` by `tools/go2lean` on every check run (methods `MaxId`, `NextId`, `FreeId`; the
receiver is the structure of the two in-memory fields `freeIds`, `nextFreeId`; a method that assigns
receiver fields returns the new receiver beside its result).

Representation map `toCtr`: Go's `uint64` ids are `BitVec 64` on the generated side (wrapping like
Go) and `Nat` in the model; `toCtr` takes `toNat` of every id.  The only place where the two differ
is the increment `nextFreeId++` at 2⁶⁴ - 1; `C01_tie_nextId` carries that as its hypothesis (the
model's assumption "uint64 node ids do not overflow", now explicit).
-/
import SemaModel.C01.Model
import SemaModel.Generated.IdCounter
namespace Sema.C01
open Sema

/-- the generated `IdCounter` (uint64 ids) as the model's `Ctr` (natural numbers) -/
def toCtr (ic : Gen.IdCounter.IdCounter) : Ctr := ⟨ic.freeIds.map (·.toNat), ic.nextFreeId.toNat⟩

/-- `IdCounter.NextId` is `Ctr.nextId`: same id, same new counter — provided the increment does not
wrap (only relevant when the free list is empty). -/
theorem C01_tie_nextId (ic : Gen.IdCounter.IdCounter)
    (h : ic.freeIds = [] → ic.nextFreeId.toNat + 1 < 2 ^ 64) :
    ((Gen.IdCounter.IdCounter_NextId ic).1.toNat, toCtr (Gen.IdCounter.IdCounter_NextId ic).2) = (toCtr ic).nextId := by
  obtain ⟨free, next⟩ := ic
  cases free with
  | nil =>
    have h' : next.toNat + 1 < 2 ^ 64 := h rfl
    have e1 : (next + 1#64).toNat = next.toNat + 1 := by
      rw [BitVec.toNat_add]; simp; omega
    have e2 : next + 1#64 - 1#64 = next := by
      apply BitVec.eq_of_toNat_eq; rw [BitVec.toNat_sub, e1]; simp; omega
    simp [Gen.IdCounter.IdCounter_NextId, Ctr.nextId, toCtr, Go.len, e1, e2]
  | cons f rest =>
    have hne : ¬ ((rest.length : Int) + 1 = 0) := by omega
    simp [Gen.IdCounter.IdCounter_NextId, Ctr.nextId, toCtr, Go.len, Go.getI, Go.sliceFromI, hne]

/-- without the hypothesis the two really differ: at `nextFreeId = 2⁶⁴ - 1` Go wraps to 0 -/
example : toCtr (Gen.IdCounter.IdCounter_NextId ⟨[], 0xffffffffffffffff#64⟩).2 ≠ (toCtr ⟨[], 0xffffffffffffffff#64⟩).nextId.2 := by
  decide

/-- `IdCounter.FreeId` is `Ctr.freeId` (no hypothesis) -/
theorem C01_tie_freeId (ic : Gen.IdCounter.IdCounter) (id : BitVec 64) :
    toCtr (Gen.IdCounter.IdCounter_FreeId ic id) = (toCtr ic).freeId id.toNat := by
  simp [Gen.IdCounter.IdCounter_FreeId, Ctr.freeId, toCtr]

/-- `IdCounter.MaxId` (not used by the C01 model; translated for completeness): the last id handed
out by the counter, when at least one was -/
theorem C01_tie_maxId (ic : Gen.IdCounter.IdCounter) (h : 1 ≤ ic.nextFreeId.toNat) :
    (Gen.IdCounter.IdCounter_MaxId ic).toNat = (toCtr ic).next - 1 := by
  have := ic.nextFreeId.isLt
  simp only [Gen.IdCounter.IdCounter_MaxId, toCtr, BitVec.toNat_sub]
  simp; omega

/-- non-vacuity: a counter with a free id and one without -/
example : (Gen.IdCounter.IdCounter_NextId ⟨[7#64, 9#64], 12#64⟩) = (7#64, ⟨[9#64], 12#64⟩) := by decide
example : (Gen.IdCounter.IdCounter_NextId ⟨[], 12#64⟩) = (12#64, ⟨[], 13#64⟩) := by decide

end Sema.C01
