/-
C01 — the tie between the hand-written id counter (`Ctr`, `Ctr.nextId`, `Ctr.freeId` of
`C01/Model.lean`) and the source.  `SemaModel/Generated/IdCounter.lean` is produced from
`shard/idcounter.go` by `tools/go2lean` on every check run (methods `MaxId`, `NextId`, `FreeId`; the
receiver is the structure of the two in-memory fields `freeIds`, `nextFreeId`; a method that assigns
receiver fields returns the new receiver beside its result).

Representation map `toCtr`: Go's `uint64` ids are `BitVec 64` on the generated side (wrapping like
Go) and `Nat` in the model; `toCtr` takes `toNat` of every id.  The only place where the two differ
is the increment `nextFreeId++` at 2⁶⁴ - 1; `C01_tie_nextId` carries that as its hypothesis (the
model's assumption "uint64 node ids do not overflow", now explicit).
-/
import SemaModel.C01.Model
import SemaModel.Generated.IdCounter
import SemaModel.Generated.PointCount
import SemaModel.Base.KVLemmas
import SemaModel.C19.Props
namespace Sema.C01
open Sema

/-- the generated `IdCounter` (uint64 ids) as the model's `Ctr` (natural numbers) -/
def toCtr (ic : Gen.IdCounter.IdCounter) : Ctr := ⟨ic.freeIds.map (·.toNat), ic.nextFreeId.toNat⟩

/-- `IdCounter.NextId` is `Ctr.nextId`: same id, same new counter — provided the increment does not
wrap (only relevant when the free list is empty). -/
theorem C01_tie_nextId (ic : Gen.IdCounter.IdCounter)
    (h : ic.freeIds = [] → ic.nextFreeId.toNat + 1 < 2 ^ 64) :
    ((Gen.IdCounter.IdCounter_NextId ic).1.toNat, toCtr (Gen.IdCounter.IdCounter_NextId ic).2) = (toCtr ic).nextId := by
  obtain ⟨free, next⟩ := ic
  cases free with
  | nil =>
    have h' : next.toNat + 1 < 2 ^ 64 := h rfl
    have e1 : (next + 1#64).toNat = next.toNat + 1 := by
      rw [BitVec.toNat_add]; simp; omega
    have e2 : next + 1#64 - 1#64 = next := by
      apply BitVec.eq_of_toNat_eq; rw [BitVec.toNat_sub, e1]; simp; omega
    simp [Gen.IdCounter.IdCounter_NextId, Ctr.nextId, toCtr, Go.len, e1, e2]
  | cons f rest =>
    have hne : ¬ ((rest.length : Int) + 1 = 0) := by omega
    simp [Gen.IdCounter.IdCounter_NextId, Ctr.nextId, toCtr, Go.len, Go.getI, Go.sliceFromI, hne]

/-- without the hypothesis the two really differ: at `nextFreeId = 2⁶⁴ - 1` Go wraps to 0 -/
example : toCtr (Gen.IdCounter.IdCounter_NextId ⟨[], 0xffffffffffffffff#64⟩).2 ≠ (toCtr ⟨[], 0xffffffffffffffff#64⟩).nextId.2 := by
  decide

/-- `IdCounter.FreeId` is `Ctr.freeId` (no hypothesis) -/
theorem C01_tie_freeId (ic : Gen.IdCounter.IdCounter) (id : BitVec 64) :
    toCtr (Gen.IdCounter.IdCounter_FreeId ic id) = (toCtr ic).freeId id.toNat := by
  simp [Gen.IdCounter.IdCounter_FreeId, Ctr.freeId, toCtr]

/-- `IdCounter.MaxId` (not used by the C01 model; translated for completeness): the last id handed
out by the counter, when at least one was -/
theorem C01_tie_maxId (ic : Gen.IdCounter.IdCounter) (h : 1 ≤ ic.nextFreeId.toNat) :
    (Gen.IdCounter.IdCounter_MaxId ic).toNat = (toCtr ic).next - 1 := by
  have := ic.nextFreeId.isLt
  simp only [Gen.IdCounter.IdCounter_MaxId, toCtr, BitVec.toNat_sub]
  simp; omega

/-- non-vacuity: a counter with a free id and one without -/
example : (Gen.IdCounter.IdCounter_NextId ⟨[7#64, 9#64], 12#64⟩) = (7#64, ⟨[9#64], 12#64⟩) := by decide
example : (Gen.IdCounter.IdCounter_NextId ⟨[], 12#64⟩) = (12#64, ⟨[], 13#64⟩) := by decide


/-! ### `changePointCount`

`SemaModel/Generated/PointCount.lean` is `shard/shard.go changePointCount` translated with the bucket
as the key-value model `KV` (`Base/KV.lean`; `Get` of an absent key and of an empty value are both
"no bytes", `Put` is `KV.putBolt`), `conversion.BytesToUint64` / `Uint64ToBytes` being the definitions
generated from `conversion/conversion.go`.  The function returns its error and the bucket.

The model keeps the counter as `Shard.count : Option Nat`, read as `Shard.countV` (absent = 0), adds
the batch size on insert and on delete rejects when `countV < k`, else subtracts.  Abstraction:
`countOf bucket` = the number stored under `"pointCount"`. -/

/-- `POINTCOUNTKEY` -/
abbrev countKey : Bytes := [0x70#8, 0x6f#8, 0x69#8, 0x6e#8, 0x74#8, 0x43#8, 0x6f#8, 0x75#8, 0x6e#8, 0x74#8]

/-- the point count a bucket holds (`Shard.countV` of the model) -/
def countOf (b : KV) : Nat := (Gen.Conversion.BytesToUint64 ((b.get countKey).getD [])).toNat

/-- an absent counter reads as 0 -/
theorem countOf_absent (b : KV) (h : b.get countKey = none) : countOf b = 0 := by
  simp [countOf, h, Gen.Conversion.BytesToUint64, Go.getLE64, ofLE64, natLE]

/-- reading back what `changePointCount` wrote -/
theorem countOf_put (b : KV) (x : BitVec 64) :
    countOf (b.put countKey (Gen.Conversion.Uint64ToBytes x)) = x.toNat := by
  simp [countOf, KV.get_put_same, C19.uint64_roundtrip]

theorem Tie.countKey_eq : ([0x70#8, 0x6f#8, 0x69#8, 0x6e#8, 0x74#8, 0x43#8, 0x6f#8, 0x75#8, 0x6e#8, 0x74#8] : Bytes) = countKey := rfl

theorem Tie.count_bits (v : Bytes) :
    (if (!List.isEmpty v) = true then Gen.Conversion.BytesToUint64 v else 0x0#64) = Gen.Conversion.BytesToUint64 v := by
  cases v with
  | nil => simp [Gen.Conversion.BytesToUint64, Go.getLE64, ofLE64, natLE]
  | cons a l => simp

/-- **insert**: `changePointCount(bucket, len(points))` stores `countV + len(points)` and succeeds
(counts below 2⁶³: Go converts the stored uint64 to `int`) -/
theorem C01_tie_count_add (b : KV) (n : Nat) (h : countOf b + n < 2 ^ 63) :
    Gen.PointCount.changePointCount b n =
      (.ok (), b.put countKey (Gen.Conversion.Uint64ToBytes (BitVec.ofNat 64 (countOf b + n)))) := by
  unfold Gen.PointCount.changePointCount
  simp only [Tie.count_bits]
  simp only [Tie.countKey_eq]
  have hc : (Gen.Conversion.BytesToUint64 ((b.get countKey).getD [])).toInt = (countOf b : Int) := by
    unfold countOf at h ⊢
    rw [BitVec.toInt_eq_toNat_of_lt (by omega)]
  have hnn : ¬ ((countOf b : Int) + (n : Int) < 0) := by omega
  have hof : BitVec.ofInt 64 ((countOf b : Int) + (n : Int)) = BitVec.ofNat 64 (countOf b + n) := by
    rw [← Int.natCast_add]; rfl
  simp [hc, hnn, hof, KV.putBolt, countKey]

/-- **delete**: `changePointCount(bucket, -len(deletedIds))` fails with the bucket unchanged when
more points would be removed than are counted, else stores `countV - len(deletedIds)` -/
theorem C01_tie_count_sub (b : KV) (k : Nat) (hc : countOf b < 2 ^ 63) :
    Gen.PointCount.changePointCount b (-(k : Int)) =
      if countOf b < k then (.error "point count cannot be negative", b)
      else (.ok (), b.put countKey (Gen.Conversion.Uint64ToBytes (BitVec.ofNat 64 (countOf b - k)))) := by
  unfold Gen.PointCount.changePointCount
  simp only [Tie.count_bits]
  simp only [Tie.countKey_eq]
  have hcI : (Gen.Conversion.BytesToUint64 ((b.get countKey).getD [])).toInt = (countOf b : Int) := by
    unfold countOf at hc ⊢
    rw [BitVec.toInt_eq_toNat_of_lt (by omega)]
  by_cases hlt : countOf b < k
  · have hneg : ((countOf b : Int) + -(k : Int) < 0) := by omega
    simp [hcI, hneg, hlt]
  · have hnn : ¬ ((countOf b : Int) + -(k : Int) < 0) := by omega
    have hof : BitVec.ofInt 64 ((countOf b : Int) + -(k : Int)) = BitVec.ofNat 64 (countOf b - k) := by
      have : (countOf b : Int) + -(k : Int) = ((countOf b - k : Nat) : Int) := by omega
      rw [this]; rfl
    simp [hcI, hnn, hlt, hof, KV.putBolt, countKey]

/-- non-vacuity: an empty bucket, three points inserted, then two deleted, then two more refused -/
example : countOf (Gen.PointCount.changePointCount {} ((3 : Nat) : Int)).2 = 3 := by
  rw [C01_tie_count_add {} 3 (by simp [countOf_absent {} rfl])]; simp [countOf_put, countOf_absent {} rfl]

end Sema.C01
