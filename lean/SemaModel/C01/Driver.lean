/-
line protocol for C01 (fields separated by TAB; JSON produced by the harness is compact, object
keys of documents are sorted by their JSON token):

  new     <maxPointSize>  <schema>  <backend>  <cache>  <id pool>
  insert  <batch>  <freeOrder>  <indexOk>               → <result> acc=<0|1>
  update  <batch>  <sizes>      <indexOk>               → <result> acc=<0|1>
  delete  <ids>    <freeOrder>  <iterOrder>  <indexOk>  → <result> acc=<0|1>
        <result> is the MODEL's (`Shard.step`); `acc` is the INDEPENDENT predicate `StoreAcceptable` on the
        reference map (and the index bit); the implementation's line carries `acc=1` iff the real shard took
        the batch
  state                                   -- the model's two buckets, canonical
  view    <ids>                           -- select-all read of these ids + point count
  read    <id>                            -- read by one id

  batch = [{"id":"<uuid>","doc":{…}|null},…]    (null = zero-length Data)
  sizes = [{"doc":{…},"n":<msgpack length of that document>},…]
  ids / iterOrder = ["<uuid>",…]     freeOrder = [<nat>,…]     indexOk = 0|1

Field values stay raw JSON text: the model never looks inside a value except to compare it with
the token "_delete".  The driver keeps the MODEL (`Shard`) and the SPEC (`Coll`) side by side:
op results and `state` are printed from the model, `view` / `read` from the spec, and a marker is
appended if the model's own read disagrees with the spec (which `C01_read*` exclude).
-/
import SemaModel.Base.DriverUtil
import SemaModel.C01.Model
import SemaModel.C01.AcceptModel
namespace Sema.C01.Drv
open Sema Sema.C01

/-! ### a scanner for compact JSON that keeps values as raw text -/

/-- after an opening quote: consume up to and including the closing quote; `acc` is reversed -/
partial def scanString : List Char → List Char → Option (List Char × List Char)
  | '\\' :: c :: r, acc => scanString r (c :: '\\' :: acc)
  | '"' :: r, acc => some ('"' :: acc, r)
  | c :: r, acc => scanString r (c :: acc)
  | [], _ => none

partial def scanNested : List Char → Nat → List Char → Option (List Char × List Char)
  | [], _, _ => none
  | '"' :: r, d, acc =>
    match scanString r ('"' :: acc) with
    | some (acc', r') => scanNested r' d acc'
    | none => none
  | c :: r, d, acc =>
    if c == '{' || c == '[' then scanNested r (d + 1) (c :: acc)
    else if c == '}' || c == ']' then
      if d ≤ 1 then some (c :: acc, r) else scanNested r (d - 1) (c :: acc)
    else scanNested r d (c :: acc)

/-- one JSON value from the front of the input: (raw text, rest) -/
def scanValue (cs : List Char) : Option (String × List Char) :=
  match cs with
  | '"' :: r => (scanString r ['"']).map fun (a, rest) => (String.ofList a.reverse, rest)
  | '{' :: _ => (scanNested cs 0 []).map fun (a, rest) => (String.ofList a.reverse, rest)
  | '[' :: _ => (scanNested cs 0 []).map fun (a, rest) => (String.ofList a.reverse, rest)
  | [] => none
  | _ =>
    let p := cs.span (fun c => c != ',' && c != '}' && c != ']')
    if p.1.isEmpty then none else some (String.ofList p.1, p.2)

partial def arrayItems (cs : List Char) (acc : List String) : Option (List String) :=
  match scanValue cs with
  | none => none
  | some (v, rest) =>
    match rest with
    | ',' :: r => arrayItems r (v :: acc)
    | [']'] => some (v :: acc).reverse
    | _ => none

def parseArray (s : String) : Option (List String) :=
  match s.toList with
  | ['[', ']'] => some []
  | '[' :: r => arrayItems r []
  | _ => none

partial def objectFields (cs : List Char) (acc : List (String × String)) : Option (List (String × String)) :=
  match scanValue cs with
  | some (k, ':' :: r) =>
    match scanValue r with
    | some (v, ',' :: r') => objectFields r' ((k, v) :: acc)
    | some (v, ['}']) => some ((k, v) :: acc).reverse
    | _ => none
  | _ => none

def parseObject (s : String) : Option (List (String × String)) :=
  match s.toList with
  | ['{', '}'] => some []
  | '{' :: r => objectFields r []
  | _ => none

/-! ### decoding the protocol -/

def parseData (s : String) : Option Data :=
  if s == "null" then some none else (parseObject s).map some

def parseBatch (s : String) : Option (List (Uuid × Data)) := do
  let items ← parseArray s
  items.mapM fun it => do
    let f ← parseObject it
    let id ← AL.get f "\"id\""
    let d ← AL.get f "\"doc\""
    let d ← parseData d
    pure (id, d)

def parseNats (s : String) : Option (List Nat) := do
  let items ← parseArray s
  items.mapM String.toNat?

def canonDoc (d : Doc) : Doc := d.mergeSort (fun a b => decide (a.1 ≤ b.1))

def parseSizes (s : String) : Option (List (Doc × Nat)) := do
  let items ← parseArray s
  items.mapM fun it => do
    let f ← parseObject it
    let d ← AL.get f "\"doc\""
    let d ← parseObject d
    let n ← AL.get f "\"n\""
    let n ← n.toNat?
    pure (canonDoc d, n)

def parseFlag (s : String) : Option Bool :=
  if s == "1" then some true else if s == "0" then some false else none

/-! ### printing -/

def showDoc (d : Doc) : String :=
  "{" ++ ",".intercalate ((canonDoc d).map fun e => e.1 ++ ":" ++ e.2) ++ "}"

def showData : Data → String
  | none => "null"
  | some d => showDoc d

def showList (l : List String) : String := "[" ++ ",".intercalate l ++ "]"

def showReason : Reason → String
  | .dupInBatch => "dup-in-batch"
  | .exists_ => "exists"
  | .tooLarge => "too-large"
  | .badOld => "bad-old"
  | .badNew => "bad-new"
  | .index => "index"
  | .storage => "storage"

def sortStr (l : List String) : List String := l.mergeSort (fun a b => decide (a ≤ b))

def showOut : Out → String
  | .ok => "ok"
  | .rejected r => "rejected:" ++ showReason r
  | .updated ids => "updated:" ++ showList ids
  | .deleted ids => "deleted:" ++ showList (sortStr ids)

def showOptNat : Option Nat → String
  | none => "-"
  | some n => toString n

def showState (s : Shard) : String :=
  let nI := (s.pts.nI.mergeSort (fun a b => decide (a.1 ≤ b.1))).map fun e => toString e.1 ++ ":" ++ e.2
  let nD := (s.pts.nD.mergeSort (fun a b => decide (a.1 ≤ b.1))).map fun e => toString e.1 ++ ":" ++ showDoc e.2
  let pI := (s.pts.pI.mergeSort (fun a b => decide (a.1 ≤ b.1))).map fun e => e.1 ++ ":" ++ toString e.2
  let free := match s.free with
    | none => "-"
    | some l => showList (l.map toString)
  s!"nI={showList nI} nD={showList nD} pI={showList pI} count={showOptNat s.count} free={free} next={showOptNat s.next}"

def showPoints (l : List (Uuid × Data)) : String :=
  showList ((l.mergeSort (fun a b => decide (a.1 ≤ b.1))).map fun e => "{\"id\":" ++ e.1 ++ ",\"doc\":" ++ showData e.2 ++ "}")

/-! ### the driver -/

structure St where
  maxSize : Nat := 0
  shard : Shard := {}
  coll : Coll := []

/-- a merged document whose size the harness did not supply does NOT fit: a document rendered differently by
harness and model shows up as a `too-large` disagreement instead of silently fitting -/
def mkCfg (st : St) (sizes : List (Doc × Nat)) : Cfg :=
  { maxSize := st.maxSize, size := fun d => (AL.get sizes (canonDoc d)).getD (st.maxSize + 1) }

/-- the model's result and, beside it (`acc=`), the decision of the INDEPENDENT acceptance predicate on the
reference map: `StoreAcceptable` (AcceptModel.lean; no update loop) and the index bit — the harness prints the
real verdict there -/
def apply (st : St) (cfg : Cfg) (op : Op) (o : Oracle) : St × String :=
  let r := st.shard.step cfg op o
  let c := Coll.step cfg st.coll op o.indexOk
  let acc := decide (StoreAcceptable cfg st.coll op) && o.indexOk
  ({ st with shard := r.1, coll := c.1 }, showOut r.2 ++ " acc=" ++ (if acc then "1" else "0"))

def step (st : St) (line : String) : St × String :=
  let bad := (st, "bad-op")
  match line.trimAscii.toString.splitOn "\t" with
  | "new" :: m :: _ =>      -- further fields (schema, backend, cache, id pool) concern the harness only
    match m.toNat? with
    | some n => ({ maxSize := n }, "ok")
    | none => bad
  | ["insert", b, fo, ix] =>
    match parseBatch b, parseNats fo, parseFlag ix with
    | some b, some fo, some ix => apply st (mkCfg st []) (.insert b) { freeOrder := fo, indexOk := ix }
    | _, _, _ => bad
  | ["update", b, sz, ix] =>
    match parseBatch b, parseSizes sz, parseFlag ix with
    | some b, some sz, some ix => apply st (mkCfg st sz) (.update b) { indexOk := ix }
    | _, _, _ => bad
  | ["delete", ids, fo, it, ix] =>
    match parseArray ids, parseNats fo, parseArray it, parseFlag ix with
    | some ids, some fo, some it, some ix => apply st (mkCfg st []) (.delete ids) { freeOrder := fo, iterOrder := it, indexOk := ix }
    | _, _, _, _ => bad
  | ["state"] => (st, showState st.shard)
  | ["view", ids] =>
    match parseArray ids with
    | some ids =>
      let spec := (dedup ids).filterMap fun u => (AL.get st.coll u).map fun d => (u, d)
      let line := s!"count={st.coll.count} " ++ showPoints spec
      let modelLine := match readMany st.shard.pts ids with
        | .ok l => s!"count={st.shard.info} " ++ showPoints l
        | .error (.danglingNode id) => s!"error:dangling-node {id}"
      (st, if modelLine == line then line else line ++ " !!model-read-differs: " ++ modelLine)
    | none => bad
  | ["read", id] =>
    let line := match AL.get st.coll id with
      | none => "none"
      | some d => "found {\"id\":" ++ id ++ ",\"doc\":" ++ showData d ++ "}"
    let modelLine := match readById st.shard.pts id with
      | .ok none => "none"
      | .ok (some (u, d)) => "found {\"id\":" ++ u ++ ",\"doc\":" ++ showData d ++ "}"
      | .error (.danglingNode n) => s!"error:dangling-node {n}"
    (st, if modelLine == line then line else line ++ " !!model-read-differs: " ++ modelLine)
  | _ => bad

end Sema.C01.Drv

def Sema.C01.driverMain (stdin stdout : IO.FS.Stream) (_args : List String) : IO Unit :=
  Sema.loopState stdin stdout Sema.C01.Drv.step {}
