/-
C01 — acceptance, characterised (AcceptModel.lean has the definitions).

  C01_coll_accept_iff   the reference map's step takes a batch  ⇔  `StoreAcceptable` ∧ the index verdict is yes
  C01_accept_iff        the MODEL of the shard (`Shard.step`, any oracle values) takes a batch
                        ⇔  `StoreAcceptable cfg (abs s) op` ∧ `o.indexOk`
                        — the oracle-free part of acceptance (repeated id / stored id / merged size / zero-length
                        data) is equivalent to a predicate on the reference map that does not run the update
                        loop; the index verdict stays the oracle bit here and is characterised in the composition
                        (`Sema.Compose.Accept_iff`), where there is a schema.
  C01_update_stores     what an accepted update stores, in closed form: every stored document with ALL the patches
                        the batch holds for its id merged in, in batch order; nothing else changes
                        (the audit's "no theorem says what an update stores"; `Coll.updateLoop` is no longer the
                        only statement of it).
  C01_rejects_all_refuted  a model that rejects every batch does NOT satisfy `C01_accept_iff`.

Only property theorems, the lemmas they need, and non-vacuity examples.
-/
import SemaModel.C01.AcceptModel
import SemaModel.C01.Props
set_option linter.unusedSimpArgs false
namespace Sema.C01

/-! ### the entries of an update batch, one after the other (used in proofs only) -/

/-- the reference map after the first entry of an update batch that the store can take -/
def stepC (c : Coll) (e : Uuid × Data) : Coll :=
  match AL.get c e.1, e.2 with
  | some (some old), some i => AL.put c e.1 (some (merge old i))
  | _, _ => c

theorem patchesFor_cons_same (u : Uuid) (d : Data) (b : List (Uuid × Data)) :
    patchesFor u ((u, d) :: b) = d :: patchesFor u b := by
  simp [patchesFor]

theorem patchesFor_cons_ne {u u' : Uuid} (h : u' ≠ u) (d : Data) (b : List (Uuid × Data)) :
    patchesFor u ((u', d) :: b) = patchesFor u b := by
  simp [patchesFor, h]

theorem mergedAt_zero (c : Coll) (e : Uuid × Data) (rest : List (Uuid × Data)) :
    mergedAt c (e :: rest) 0 = (AL.get c e.1).map fun old => mergeAll old [e.2] := by
  obtain ⟨u, d⟩ := e
  simp [mergedAt, patchesFor]

theorem mergedAt_succ_skip (c : Coll) (u : Uuid) (inc : Data) (rest : List (Uuid × Data)) (n : Nat)
    (h : AL.get c u = none) : mergedAt c ((u, inc) :: rest) (n + 1) = mergedAt c rest n := by
  unfold mergedAt
  simp only [List.getElem?_cons_succ, List.take_succ_cons]
  cases hr : rest[n]? with
  | none => rfl
  | some e' =>
    simp only []
    by_cases he : u = e'.1
    · rw [← he, h]; rfl
    · rw [patchesFor_cons_ne he]

theorem mergedAt_succ_put (c : Coll) (u : Uuid) (old i : Doc) (rest : List (Uuid × Data)) (n : Nat)
    (h : AL.get c u = some (some old)) :
    mergedAt c ((u, some i) :: rest) (n + 1) = mergedAt (AL.put c u (some (merge old i))) rest n := by
  unfold mergedAt
  simp only [List.getElem?_cons_succ, List.take_succ_cons]
  cases hr : rest[n]? with
  | none => rfl
  | some e' =>
    simp only []
    by_cases he : u = e'.1
    · rw [← he, h, patchesFor_cons_same, AL.get_put]
      simp [mergeAll]
    · rw [patchesFor_cons_ne he, AL.get_put, if_neg he]

/-- later entries see the merges of earlier ones -/
theorem mergedAt_succ (c : Coll) (e : Uuid × Data) (rest : List (Uuid × Data)) (n : Nat)
    (h : mergedAt c (e :: rest) 0 ≠ some none) :
    mergedAt c (e :: rest) (n + 1) = mergedAt (stepC c e) rest n := by
  obtain ⟨u, inc⟩ := e
  rw [mergedAt_zero] at h
  cases hg : AL.get c u with
  | none =>
    have : stepC c (u, inc) = c := by simp [stepC, hg]
    rw [this]; exact mergedAt_succ_skip c u inc rest n hg
  | some od =>
    cases od with
    | none => simp [hg, mergeAll] at h
    | some old =>
      cases inc with
      | none => simp [hg, mergeAll] at h
      | some i =>
        have : stepC c (u, some i) = AL.put c u (some (merge old i)) := by simp [stepC, hg]
        rw [this]; exact mergedAt_succ_put c u old i rest n hg

theorem forall_lt_succ {k : Nat} {P : Nat → Prop} : (∀ n, n < k + 1 → P n) ↔ P 0 ∧ ∀ n, n < k → P (n + 1) := by
  constructor
  · intro h; exact ⟨h 0 (Nat.succ_pos k), fun n hn => h (n + 1) (Nat.succ_lt_succ hn)⟩
  · rintro ⟨h0, hs⟩ n hn
    cases n with
    | zero => exact h0
    | succ m => exact hs m (Nat.lt_of_succ_lt_succ hn)

/-- a predicate of the writes of an update batch, entry by entry -/
theorem forall_mergedAt_cons (Q : Option Data → Prop) (c : Coll) (e : Uuid × Data) (rest : List (Uuid × Data))
    (h : mergedAt c (e :: rest) 0 ≠ some none) :
    (∀ n, n < (e :: rest).length → Q (mergedAt c (e :: rest) n)) ↔
      Q (mergedAt c (e :: rest) 0) ∧ ∀ n, n < rest.length → Q (mergedAt (stepC c e) rest n) := by
  rw [List.length_cons, forall_lt_succ]
  constructor
  · rintro ⟨h0, hs⟩; exact ⟨h0, fun n hn => by rw [← mergedAt_succ c e rest n h]; exact hs n hn⟩
  · rintro ⟨h0, hs⟩; exact ⟨h0, fun n hn => by rw [mergedAt_succ c e rest n h]; exact hs n hn⟩

theorem writeFits_ne {cfg : Cfg} {w : Option Data} (h : WriteFits cfg w) : w ≠ some none := by
  intro hw; rw [hw] at h; exact h

/-- the update loop of the reference map goes through exactly when every entry's write is admissible; it then
ends in the map after all entries -/
theorem updateLoop_ok_iff (cfg : Cfg) (b : List (Uuid × Data)) : ∀ (c : Coll) (acc : List Uuid),
    (∃ r, Coll.updateLoop cfg c b acc = .ok r) ↔ ∀ n, n < b.length → WriteFits cfg (mergedAt c b n) := by
  induction b with
  | nil => intro c acc; simp [Coll.updateLoop]
  | cons e rest ih =>
    obtain ⟨u, inc⟩ := e
    intro c acc
    cases hg : AL.get c u with
    | none =>
      have h0 : mergedAt c ((u, inc) :: rest) 0 = none := by rw [mergedAt_zero]; simp [hg]
      have hl : Coll.updateLoop cfg c ((u, inc) :: rest) acc = Coll.updateLoop cfg c rest acc := by
        simp [Coll.updateLoop, hg]
      have hs : stepC c (u, inc) = c := by simp [stepC, hg]
      rw [hl, forall_mergedAt_cons _ c _ rest (by rw [h0]; simp), h0, hs, ih c acc]
      simp [WriteFits]
    | some od =>
      cases od with
      | none =>
        have h0 : mergedAt c ((u, inc) :: rest) 0 = some none := by rw [mergedAt_zero]; simp [hg, mergeAll]
        have hl : Coll.updateLoop cfg c ((u, inc) :: rest) acc = .error .badOld := by simp [Coll.updateLoop, hg]
        rw [hl]
        constructor
        · rintro ⟨r, hr⟩; cases hr
        · intro h; have := h 0 (Nat.succ_pos _); rw [h0] at this; exact absurd this (by simp [WriteFits])
      | some old =>
        cases inc with
        | none =>
          have h0 : mergedAt c ((u, none) :: rest) 0 = some none := by rw [mergedAt_zero]; simp [hg, mergeAll]
          have hl : Coll.updateLoop cfg c ((u, none) :: rest) acc = .error .badNew := by simp [Coll.updateLoop, hg]
          rw [hl]
          constructor
          · rintro ⟨r, hr⟩; cases hr
          · intro h; have := h 0 (Nat.succ_pos _); rw [h0] at this; exact absurd this (by simp [WriteFits])
        | some i =>
          have h0 : mergedAt c ((u, some i) :: rest) 0 = some (some (merge old i)) := by
            rw [mergedAt_zero]; simp [hg, mergeAll]
          have hs : stepC c (u, some i) = AL.put c u (some (merge old i)) := by simp [stepC, hg]
          rw [forall_mergedAt_cons _ c _ rest (by rw [h0]; simp), h0, hs]
          by_cases hsz : cfg.size (merge old i) > cfg.maxSize
          · have hl : Coll.updateLoop cfg c ((u, some i) :: rest) acc = .error .tooLarge := by
              simp [Coll.updateLoop, hg, hsz]
            rw [hl]
            constructor
            · rintro ⟨r, hr⟩; cases hr
            · rintro ⟨hf, _⟩; exact absurd hf (by simp only [WriteFits]; omega)
          · have hl : Coll.updateLoop cfg c ((u, some i) :: rest) acc =
                Coll.updateLoop cfg (AL.put c u (some (merge old i))) rest (acc ++ [u]) := by
              simp [Coll.updateLoop, hg, hsz]
            rw [hl, ih]
            constructor
            · intro h; exact ⟨by simp only [WriteFits]; omega, h⟩
            · rintro ⟨_, h⟩; exact h

/-- … and ends in the reference map after all entries -/
theorem updateLoop_result (cfg : Cfg) (b : List (Uuid × Data)) : ∀ (c : Coll) (acc : List Uuid) (r : Coll × List Uuid),
    Coll.updateLoop cfg c b acc = .ok r → r.1 = b.foldl stepC c := by
  induction b with
  | nil => intro c acc r h; simp [Coll.updateLoop] at h; rw [← h]; rfl
  | cons e rest ih =>
    obtain ⟨u, inc⟩ := e
    intro c acc r h
    cases hg : AL.get c u with
    | none =>
      have hl : Coll.updateLoop cfg c ((u, inc) :: rest) acc = Coll.updateLoop cfg c rest acc := by
        simp [Coll.updateLoop, hg]
      have hs : stepC c (u, inc) = c := by simp [stepC, hg]
      rw [hl] at h
      rw [List.foldl_cons, hs]; exact ih c acc r h
    | some od =>
      cases od with
      | none => simp [Coll.updateLoop, hg] at h
      | some old =>
        cases inc with
        | none => simp [Coll.updateLoop, hg] at h
        | some i =>
          by_cases hsz : cfg.size (merge old i) > cfg.maxSize
          · simp [Coll.updateLoop, hg, hsz] at h
          · have hl : Coll.updateLoop cfg c ((u, some i) :: rest) acc =
                Coll.updateLoop cfg (AL.put c u (some (merge old i))) rest (acc ++ [u]) := by
              simp [Coll.updateLoop, hg, hsz]
            have hs : stepC c (u, some i) = AL.put c u (some (merge old i)) := by simp [stepC, hg]
            rw [hl] at h
            rw [List.foldl_cons, hs]; exact ih _ _ r h

/-- the map after all entries, read at one id: the stored data with all patches for that id merged in -/
theorem get_foldl_stepC (cfg : Cfg) (b : List (Uuid × Data)) : ∀ (c : Coll),
    (∀ n, n < b.length → WriteFits cfg (mergedAt c b n)) →
    ∀ u, AL.get (b.foldl stepC c) u = (AL.get c u).map fun old => mergeAll old (patchesFor u b) := by
  induction b with
  | nil => intro c _ u; cases h : AL.get c u <;> simp [patchesFor, mergeAll, h]
  | cons e rest ih =>
    obtain ⟨u', inc⟩ := e
    intro c hall u
    have h0 : WriteFits cfg (mergedAt c ((u', inc) :: rest) 0) := hall 0 (Nat.succ_pos _)
    have hne := writeFits_ne h0
    have hrest := ((forall_mergedAt_cons (WriteFits cfg) c _ rest hne).1 hall).2
    rw [List.foldl_cons, ih _ hrest u]
    rw [mergedAt_zero] at hne
    by_cases hu : u' = u
    · subst hu
      rw [patchesFor_cons_same]
      cases hg : AL.get c u' with
      | none => simp [stepC, hg]
      | some od =>
        cases od with
        | none => simp [hg, mergeAll] at hne
        | some old =>
          cases inc with
          | none => simp [hg, mergeAll] at hne
          | some i => simp [stepC, hg, AL.get_put, mergeAll]
    · rw [patchesFor_cons_ne hu]
      have : AL.get (stepC c (u', inc)) u = AL.get c u := by
        unfold stepC
        split
        · rw [AL.get_put, if_neg hu]
        · rfl
      rw [this]

theorem equiv_accepted {a b : Out} (h : Out.equiv a b) : a.accepted = b.accepted := by
  cases a <;> cases b <;> simp [Out.equiv] at h <;> rfl

/-! ### the theorems -/

/-- **C01_coll_accept_iff.** The reference map takes a batch exactly when the batch is `StoreAcceptable` and
the index verdict is positive. (`Coll.step` is the specification of the EFFECT; this is the independent
statement of WHEN there is one.) -/
theorem C01_coll_accept_iff (cfg : Cfg) (c : Coll) (op : Op) (ix : Bool) :
    (Coll.step cfg c op ix).2.accepted = true ↔ StoreAcceptable cfg c op ∧ ix = true := by
  cases op with
  | insert b =>
    simp only [Coll.step, Coll.insert, StoreAcceptable]
    by_cases hn : (AL.keys b).Nodup
    · by_cases hany : (b.any fun e => (AL.get c e.1).isSome) = true
      · simp only [hn, not_true_eq_false, if_false, hany, if_true, Out.accepted]
        constructor
        · intro h; cases h
        · rintro ⟨⟨_, hnone⟩, _⟩
          obtain ⟨e, he, hs⟩ := List.any_eq_true.mp hany
          rw [hnone e he] at hs; cases hs
      · have hnone : ∀ e ∈ b, AL.get c e.1 = none := by
          intro e he
          cases hg : AL.get c e.1 with
          | none => rfl
          | some _ => exact absurd (List.any_eq_true.mpr ⟨e, he, by rw [hg]; rfl⟩) hany
        cases ix <;> simp [hn, hany, Out.accepted]
        exact fun a d h => hnone (a, d) h
    · simp [hn, Out.accepted]
  | update b =>
    simp only [Coll.step, Coll.update, StoreAcceptable]
    rw [← updateLoop_ok_iff cfg b c []]
    cases hl : Coll.updateLoop cfg c b [] with
    | error e => simp [Out.accepted]
    | ok r => cases ix <;> simp [Out.accepted]
  | delete ids =>
    cases ix <;> simp [Coll.step, Coll.delete, StoreAcceptable, Out.accepted]

/-- **C01_accept_iff.** For every shard state satisfying the invariant, every batch and every oracle value:
the model of the shard takes the batch exactly when (a) the batch is `StoreAcceptable` on the reference map
the state stands for — insert: ids pairwise distinct, none stored; update: every entry with a stored id
writes a document (stored data and patch are documents) of at most `maxSize` bytes; delete: always — and
(b) the indexes accept it. (b) is the oracle bit in C01 (no schema here); `Sema.Compose.Accept_iff`
replaces it by conformance of the written documents to the schema. -/
theorem C01_accept_iff (cfg : Cfg) (s : Shard) (op : Op) (o : Oracle) (hI : Inv s) :
    (s.step cfg op o).2.accepted = true ↔ StoreAcceptable cfg (abs s) op ∧ o.indexOk = true := by
  rw [equiv_accepted (C01_step cfg s op o hI).2.2]
  exact C01_coll_accept_iff cfg (abs s) op o.indexOk

/-- **C01_update_stores.** What an accepted update stores, without the loop: at every id, the stored data
with ALL patches the batch holds for that id merged in, in batch order (an id the batch does not name keeps
its data: no patches; an unknown id stays unknown); the reported ids are the requested ids that were stored. -/
theorem C01_update_stores (cfg : Cfg) (c : Coll) (b : List (Uuid × Data)) (h : StoreAcceptable cfg c (.update b)) :
    (∀ u, AL.get (Coll.update cfg c b true).1 u = (AL.get c u).map fun old => mergeAll old (patchesFor u b)) ∧
    (Coll.update cfg c b true).2 = .updated ((AL.keys b).filter fun u => (AL.get c u).isSome) := by
  obtain ⟨r, hr⟩ := (updateLoop_ok_iff cfg b c []).2 h
  have h1 : (Coll.update cfg c b true).1 = r.1 := by simp [Coll.update, hr]
  refine ⟨fun u => ?_, ?_⟩
  · rw [h1, updateLoop_result cfg b c [] r hr]
    exact get_foldl_stepC cfg b c h u
  · obtain ⟨c', ids⟩ := r
    obtain ⟨hids, _⟩ := C01_update_reports cfg b c [] c' ids hr
    simp [Coll.update, hr, hids]

/-! ### the bit handed to the reference map matters only for batches the store would take -/

theorem coll_step_congr (cfg : Cfg) (c : Coll) (op : Op) (v v' : Bool)
    (h : StoreAcceptable cfg c op → v = v') : Coll.step cfg c op v = Coll.step cfg c op v' := by
  cases op with
  | insert b =>
    simp only [Coll.step, Coll.insert]
    by_cases hn : (AL.keys b).Nodup
    · by_cases hany : (b.any fun e => (AL.get c e.1).isSome) = true
      · simp [hn, hany]
      · have hnone : ∀ e ∈ b, AL.get c e.1 = none := by
          intro e he
          cases hg : AL.get c e.1 with
          | none => rfl
          | some _ => exact absurd (List.any_eq_true.mpr ⟨e, he, by rw [hg]; rfl⟩) hany
        rw [h ⟨hn, hnone⟩]
    · simp [hn]
  | update b =>
    simp only [Coll.step, Coll.update]
    cases hl : Coll.updateLoop cfg c b [] with
    | error e => rfl
    | ok r => rw [h ((updateLoop_ok_iff cfg b c []).1 ⟨r, hl⟩)]
  | delete ids => rw [h trivial]

/-! ### a predicate of the stored documents is kept when every written document has it -/

theorem eachWritten_mono {P Q : Doc → Prop} (hPQ : ∀ d, P d → Q d) (c : Coll) (op : Op)
    (h : EachWritten P c op) : EachWritten Q c op := by
  cases op with
  | insert b =>
    intro e he
    have := h e he
    cases hd : e.2 with
    | none => trivial
    | some d => rw [hd] at this; exact hPQ d this
  | update b =>
    intro n hn
    have := h n hn
    cases hw : mergedAt c b n with
    | none => trivial
    | some w =>
      cases w with
      | none => trivial
      | some m => rw [hw] at this; exact hPQ m this
  | delete ids => trivial

theorem get_append (a b : Coll) (u : Uuid) :
    AL.get (a ++ b) u = match AL.get a u with | some x => some x | none => AL.get b u := by
  induction a with
  | nil => rfl
  | cons e r ih =>
    obtain ⟨k, v⟩ := e
    by_cases hk : k = u
    · simp [AL.get_cons, hk]
    · simp only [List.cons_append, AL.get_cons, hk, if_false]; exact ih

theorem get_filter_key (f : Uuid → Bool) (c : Coll) (u : Uuid) (x : Data)
    (h : AL.get (c.filter fun e => f e.1) u = some x) : AL.get c u = some x := by
  induction c with
  | nil => simp at h
  | cons e r ih =>
    obtain ⟨k, v⟩ := e
    by_cases hf : f k = true
    · simp only [List.filter_cons, hf, if_true, AL.get_cons] at h ⊢
      by_cases hk : k = u
      · simpa [hk] using h
      · simp only [hk, if_false] at h ⊢; exact ih h
    · have hf' : f k = false := by cases hfk : f k <;> simp_all
      simp only [List.filter_cons, hf', Bool.false_eq_true, if_false] at h
      have hk : k ≠ u := by
        intro hk; subst hk
        have : k ∈ AL.keys (r.filter fun e => f e.1) := (AL.get_isSome_iff _ _).1 (by rw [h]; rfl)
        obtain ⟨e', he', hk'⟩ := List.mem_map.1 this
        have := (List.mem_filter.1 he').2
        rw [hk'] at this; exact hf this
      simp only [AL.get_cons, hk, if_false]; exact ih h

theorem foldl_stepC_sat (cfg : Cfg) (P : Doc → Prop) (b : List (Uuid × Data)) : ∀ (c : Coll),
    (∀ n, n < b.length → WriteFits cfg (mergedAt c b n)) →
    (∀ n, n < b.length → WriteSat P (mergedAt c b n)) →
    (∀ u d, AL.get c u = some (some d) → P d) →
    ∀ u d, AL.get (b.foldl stepC c) u = some (some d) → P d := by
  induction b with
  | nil => intro c _ _ hP; exact hP
  | cons e rest ih =>
    obtain ⟨u', inc⟩ := e
    intro c hF hW hP
    have h0 : WriteFits cfg (mergedAt c ((u', inc) :: rest) 0) := hF 0 (Nat.succ_pos _)
    have hne := writeFits_ne h0
    have hF' := ((forall_mergedAt_cons (WriteFits cfg) c _ rest hne).1 hF).2
    have hW' := (forall_mergedAt_cons (WriteSat P) c _ rest hne).1 hW
    rw [List.foldl_cons]
    refine ih _ hF' hW'.2 ?_
    intro u d hg
    have hw0 := hW'.1
    rw [mergedAt_zero] at hw0
    unfold stepC at hg
    split at hg
    · rename_i old i hold hinc
      rw [AL.get_put] at hg
      by_cases hu : u' = u
      · rw [if_pos hu] at hg
        simp only at hold hinc
        rw [hold, hinc] at hw0
        simp only [Option.map_some, mergeAll, WriteSat] at hw0
        rw [← Option.some.inj (Option.some.inj hg)]; exact hw0
      · rw [if_neg hu] at hg; exact hP u d hg
    · exact hP u d hg

/-- **C01_step_written.** If every stored document satisfies `P` and every document an acceptable batch
writes satisfies `P`, every document stored afterwards satisfies `P` (insert: old and new documents; update:
the merged ones; delete: what is left). -/
theorem C01_step_written (cfg : Cfg) (P : Doc → Prop) (c : Coll) (op : Op)
    (hS : StoreAcceptable cfg c op) (hW : EachWritten P c op)
    (hP : ∀ u d, AL.get c u = some (some d) → P d) :
    ∀ u d, AL.get (Coll.step cfg c op true).1 u = some (some d) → P d := by
  cases op with
  | insert b =>
    obtain ⟨hn, hnone⟩ := hS
    have hany : ¬ (b.any fun e => (AL.get c e.1).isSome) = true := by
      intro h
      obtain ⟨e, he, hs⟩ := List.any_eq_true.mp h
      rw [hnone e he] at hs; cases hs
    intro u d hg
    simp only [Coll.step, Coll.insert, hn, not_true_eq_false, if_false, hany, Bool.not_true, Bool.false_eq_true] at hg
    rw [get_append] at hg
    cases hc : AL.get c u with
    | some x => rw [hc] at hg; exact hP u d (hc.trans hg)
    | none =>
      rw [hc] at hg
      have := hW _ (AL.mem_of_get hg)
      exact this
  | update b =>
    obtain ⟨r, hr⟩ := (updateLoop_ok_iff cfg b c []).2 hS
    intro u d hg
    have h1 : (Coll.step cfg c (.update b) true).1 = b.foldl stepC c := by
      simp only [Coll.step, Coll.update, hr]
      exact updateLoop_result cfg b c [] r hr
    rw [h1] at hg
    exact foldl_stepC_sat cfg P b c hS hW hP u d hg
  | delete ids =>
    intro u d hg
    simp only [Coll.step, Coll.delete, Bool.not_true, Bool.false_eq_true, if_false] at hg
    exact hP u d (get_filter_key (fun k => !(ids.contains k)) c u (some d) hg)

/-! ### non-vacuity -/

section examples

private def axCfg : Cfg := { maxSize := 2, size := fun d => d.length }
/-- `u1 ↦ {a:1}`, `u2 ↦ {}` -/
private def axS : Shard := (Shard.run axCfg Shard.empty [(.insert [("u1", some [("a", "1")]), ("u2", some [])], {})]).1

example : abs axS = [("u1", some [("a", "1")]), ("u2", some [])] := by decide
example : Inv axS := (C01_run axCfg _ Shard.empty Inv_empty).1

/-- acceptable batches — and the model takes them -/
example : StoreAcceptable axCfg (abs axS) (.insert [("u3", some []), ("u4", none)]) ∧
    (axS.step axCfg (.insert [("u3", some []), ("u4", none)]) {}).2 = .ok := by decide
/-- the same id twice in one update: the second entry sees the first merge (`{a:1}` → `{a:1,b:2}` → `{b:2}`),
an unknown id is skipped -/
example : StoreAcceptable axCfg (abs axS) (.update [("u1", some [("b", "2")]), ("zz", some []), ("u1", some [("a", deleteValue)])]) ∧
    mergedAt (abs axS) [("u1", some [("b", "2")]), ("zz", some []), ("u1", some [("a", deleteValue)])] 2 = some (some [("b", "2")]) ∧
    mergedAt (abs axS) [("u1", some [("b", "2")]), ("zz", some []), ("u1", some [("a", deleteValue)])] 1 = none := by decide
/-- `C01_update_stores` on it -/
example : AL.get (Coll.update axCfg (abs axS) [("u1", some [("b", "2")]), ("zz", some []), ("u1", some [("a", deleteValue)])] true).1 "u1" =
    some (some [("b", "2")]) := by decide
/-- not acceptable, each for one reason: repeated id, stored id, merged size 3 > 2 (although the FINAL document
of `u1` would fit again), zero-length patch for a stored id — and the model rejects them; with a negative index
verdict an acceptable batch is rejected too -/
example : ¬ StoreAcceptable axCfg (abs axS) (.insert [("u3", some []), ("u3", some [])]) ∧
    ¬ StoreAcceptable axCfg (abs axS) (.insert [("u3", some []), ("u1", some [])]) ∧
    ¬ StoreAcceptable axCfg (abs axS) (.update [("u1", some [("b", "2"), ("c", "3")]), ("u1", some [("a", deleteValue)])]) ∧
    ¬ StoreAcceptable axCfg (abs axS) (.update [("u2", none)]) ∧
    StoreAcceptable axCfg (abs axS) (.update [("zz", none)]) := by decide
example : (axS.step axCfg (.insert [("u3", some []), ("u3", some [])]) {}).2 = .rejected .dupInBatch ∧
    (axS.step axCfg (.insert [("u3", some []), ("u1", some [])]) {}).2 = .rejected .exists_ ∧
    (axS.step axCfg (.update [("u1", some [("b", "2"), ("c", "3")]), ("u1", some [("a", deleteValue)])]) {}).2 = .rejected .tooLarge ∧
    (axS.step axCfg (.update [("u2", none)]) {}).2 = .rejected .badNew ∧
    (axS.step axCfg (.insert [("u3", some [])]) { indexOk := false }).2 = .rejected .index := by decide

/-- **a model that rejects everything does not pass**: `C01_accept_iff` forces acceptance of the batch above,
so no step function whose result is always `rejected` can stand in for `Shard.step` -/
theorem C01_rejects_all_refuted (step' : Cfg → Shard → Op → Oracle → Shard × Out)
    (hrej : ∀ cfg s op o, (step' cfg s op o).2.accepted = false) :
    ¬ ∀ cfg s op o, Inv s → ((step' cfg s op o).2.accepted = true ↔ StoreAcceptable cfg (abs s) op ∧ o.indexOk = true) := by
  intro h
  have := (h axCfg Shard.empty (.insert [("u", some [])]) {} Inv_empty).2 ⟨by decide, rfl⟩
  rw [hrej] at this; cases this

end examples

end Sema.C01
