/-
C07 — what C07 proves BEYOND its assumption.  Only property theorems and their non-vacuity examples.
Model: SemaModel/C07/ObserveModel.lean (the batch over the composed shard model with the shared-cache layer),
lemmas: ObserveLemmas.lean, ObserveCompose.lean.

ASSUMED (stated, not proved): `writeTx` = `Disk.write` on the combined state — when `db.Write` returns an error,
bbolt keeps nothing the body did to ANY bucket (point store, every index, counters); a process death before the
commit is that branch, after it the ok branch.

PROVED here, none of it a consequence of that assumption alone (`C07_partial_cache_witness` is the proof of that):
the observation `answers` = the answer of EVERY query (`Shard.SearchPoints` through the shared caches, and
`Info().PointCount`) of the RUNNING instance is unchanged by a batch that reports an error — because `Commit(true)`
drops exactly the caches the batch registered and every other cache is still coherent with the unchanged buckets —
and after a batch that reports success it is the observation of the Compose step (`RState.step`, i.e. of the
reference map of C01 / C02 / C04 / C05 / C06's composition) — because `ItemCache.Put` / `Delete` + `Flush` write
what the step prescribes and leave a coherent cache (C08's argument, redone over Compose's flat store).

Scope.  Of the composed indexes only the flat vector index uses the shared cache manager; the vamana graph (the
other user) is not part of Compose.  `rsearchPoints` with abstract numerics (DESIGN 3.2).  The steps of the body
run in ONE sequential order; `C07_observe_error_any_program` shows that the error half does not depend on it.
Goroutines that outlive the closure (the known defect of the pinned tree) are outside the model.
-/
import SemaModel.C07.ObserveCompose
import SemaModel.Compose.RankProps
set_option linter.unusedSimpArgs false
set_option linter.unusedVariables false
set_option linter.unusedSectionVars false
namespace Sema.C07
open Sema Sema.Compose Sema.C07.Obs

variable {V T D S W : Type} [DecidableEq T] [LT D] [DecidableLT D]

/-- **C07_observe_atomic.**  For every running instance satisfying the combined invariant with coherent caches
(`Good`: Compose's `RInv`, one flat index per property, C08's `CacheCoherent` for every shared cache), every batch
(insert / update / delete), every oracle (free-id order, delete order, arrival order at the text writer, how far
the other stages got when a rejection was delivered) and every fault (none, the k-th storage operation — inside
`Flush` too —, the commit):

* the batch reports an ERROR (rejected by validation or by an index, storage error, failed commit) ⇒ EVERY query
  answers on the running instance — warm caches included — exactly as before the batch, a reopened instance (no
  cache) answers the same, and the instance still satisfies the invariant;
* the batch reports SUCCESS ⇒ every query answers, on the running instance and after reopening, exactly as a cold
  instance on the state of the Compose step (`RState.step`) answers: all effects are visible, nothing else; the
  invariant is kept (given `RStepOK`, Compose's side condition of one batch).

The error half uses, and needs (`C07_partial_cache_witness`), that `Commit(true)` drops the caches the batch
registered and that the remaining ones are coherent with the unchanged buckets. -/
theorem C07_observe_atomic (cx : Ctx V T D S W) {s : ShardWithCaches V T} (hG : Good cx s)
    (op : C01.Op) (bo : BOracle T) (fault : Fault) :
    ((runBatch cx s op bo fault).2.isErr = true →
      (∀ q, answers cx (runBatch cx s op bo fault).1 q = answers cx s q) ∧
      (∀ q, answers cx (reopen (runBatch cx s op bo fault).1) q = answers cx s q) ∧
      Good cx (runBatch cx s op bo fault).1) ∧
    ((runBatch cx s op bo fault).2.isErr = false →
      (runBatch cx s op bo fault).2 = .ok (verdictOf cx s.rs op bo).2 ∧
      (∀ q, answers cx (runBatch cx s op bo fault).1 q =
        answers cx { rs := (verdictOf cx s.rs op bo).1, caches := [] } q) ∧
      (∀ q, answers cx (reopen (runBatch cx s op bo fault).1) q =
        answers cx { rs := (verdictOf cx s.rs op bo).1, caches := [] } q) ∧
      (RStepOK cx.lower cx.cv cx.cfg cx.env s.rs op bo.ro → Good cx (runBatch cx s op bo fault).1)) := by
  obtain ⟨gE, gS⟩ := good_step hG op bo fault
  refine ⟨fun h => ?_, fun h => ?_⟩
  · obtain ⟨e1, e2⟩ := gE h
    have hre : ∀ q, answers cx (reopen (runBatch cx s op bo fault).1) q = answers cx s q := by
      intro q
      rw [answers_coherent cx hG.keys hG.coherent q]
      exact answers_congr cx (by rw [readThrough_reopen, readThrough_reopen, e1]) (congrArg (·.base) e1) q
    refine ⟨fun q => ?_, hre, e2⟩
    rw [answers_coherent cx e2.keys e2.coherent q]; exact hre q
  · obtain ⟨e1, e2, e3⟩ := gS h
    have hre : ∀ q, answers cx (reopen (runBatch cx s op bo fault).1) q =
        answers cx { rs := (verdictOf cx s.rs op bo).1, caches := [] } q := answers_equiv cx e1
    refine ⟨(success_equiv hG.keys hG.paths hG.coherent h).2.2.2, fun q => ?_, hre, e3⟩
    rw [answers_coherent cx e1.keys e2 q]; exact hre q

/-- the error half for EVERY program of steps (any order, any interleaving, any prefix) run inside the cache
transaction: whatever the body did before it failed, after `writeTx` rolled the buckets back and `Commit(true)`
dropped the registered caches every query answers as before -/
theorem C07_observe_error_any_program (cx : Ctx V T D S W) {s : ShardWithCaches V T} (hG : Good cx s)
    (fault : Option Nat) (tgt : RState V T) (prog : List (TStep V)) :
    ∀ q, answers cx (abortWith s (exec fault tgt prog (startTx s s.rs)).1) q = answers cx s q := by
  generalize ht : (exec fault tgt prog (startTx s s.rs)).1 = t
  have hc : CachesCoherent (abortWith s t) := by
    intro fx hfx c hg
    have hg' : C01.AL.get (dropCaches t.caches t.written) fx.path = some c := hg
    rw [get_dropCaches] at hg'
    cases hw : t.written.contains fx.path with
    | true => rw [hw] at hg'; simp at hg'
    | false =>
      rw [hw] at hg'
      simp only [Bool.false_eq_true, if_false] at hg'
      have := (exec_frame fault tgt prog (startTx s s.rs)).1 fx.path (by rw [ht]; exact hw)
      rw [ht] at this
      rw [this] at hg'
      exact hG.coherent fx hfx c hg'
  intro q
  rw [answers_coherent cx (s := abortWith s t) hG.keys hc q, answers_coherent cx hG.keys hG.coherent q]
  rfl

/-- **C07_observe_history.**  Histories mixing failed and successful batches, with the manager evicting caches
between them as it likes: from a good instance, the instance stays good, and afterwards EVERY query answers — on
the running instance and after reopening — exactly as a cold instance answers on the state obtained by applying
the Compose steps of the SUCCESSFUL batches only: the failed batches might as well never have been issued. -/
theorem C07_observe_history (cx : Ctx V T D S W) {s : ShardWithCaches V T} (hG : Good cx s) (h : List (HStep T))
    (hok : HistOK cx s h) :
    Good cx (runHistory cx s h).1 ∧
    (∀ q, answers cx (runHistory cx s h).1 q = answers cx { rs := specHistory cx s s.rs h, caches := [] } q) ∧
    (∀ q, answers cx (reopen (runHistory cx s h).1) q = answers cx { rs := specHistory cx s s.rs h, caches := [] } q) := by
  obtain ⟨g1, g2⟩ := history_aux cx h s s.rs hG (REquiv.refl hG.keys) hok
  have hre : ∀ q, answers cx (reopen (runHistory cx s h).1) q =
      answers cx { rs := specHistory cx s s.rs h, caches := [] } q := answers_equiv cx g2
  refine ⟨g1, fun q => ?_, hre⟩
  rw [answers_coherent cx g1.keys g1.coherent q]; exact hre q

/-- process death, BY ASSUMPTION the error branch (before the commit) or the ok branch (after it) of `writeTx`:
the reopened instance answers like the pre-state, or like the Compose step.  The first clause is the assumption
restated; the second uses the success half of `C07_observe_atomic`. -/
theorem C07_observe_crash_assumed (cx : Ctx V T D S W) {s : ShardWithCaches V T} (hG : Good cx s)
    (op : C01.Op) (bo : BOracle T) :
    (∀ q, answers cx (crashBatch cx s op bo false) q = answers cx s q) ∧
    ((runBatch cx s op bo .none).2.isErr = false →
      ∀ q, answers cx (crashBatch cx s op bo true) q = answers cx { rs := (verdictOf cx s.rs op bo).1, caches := [] } q) := by
  refine ⟨fun q => ?_, fun h q => ?_⟩
  · rw [answers_coherent cx hG.keys hG.coherent q]; rfl
  · have := (C07_observe_atomic cx hG op bo .none).2 h
    rw [← this.2.2.1 q]
    have e : (crashBatch cx s op bo true) = reopen (runBatch cx s op bo .none).1 := by
      cases hb : txBody cx s op bo .none s.rs with
      | ok d => rw [runBatch_ok hb]; simp [crashBatch, writeTx, hb, reopen]
      | error e => rw [runBatch_err hb] at h; rw [txBody_error_isErr hb] at h; cases h
    rw [e]

/-- `CacheCoherent` here IS C08's: whenever a flat store is what a bucket decodes to under a `Storable`
(`ReadFrom` of the bucket = lookup in the store), C08's invariant `Coherent` for that bucket gives `FCoherent` -/
theorem C07_coherent_of_C08 {st : C08.Storable C04.Id V} {ok : C04.Id → V → KV → Prop} {c : FCache V} {kv : KV}
    {store : List (C04.Id × V)} (hdec : ∀ id, st.readFrom id kv = C01.AL.get store id)
    (h : C08.Coherent st (fun v => v) ok c kv) : FCoherent c store := FCoherent_of_C08 hdec h

/-- the write path of one flat index inside a successful batch (cache operations, then `Flush`): the bucket ends
with the content of Compose's `FlatIx.step`, each node id once, and the cache left in the manager is coherent with
it — C08's `C08_flush` / `C08_batch`, over Compose's flat store -/
theorem C07_flat_write_coherent (env : Env V T D S W) (p : List String) (pcs : List C02.PChange) {c0 : FCache V}
    {st0 : List (C04.Id × V)} (hc : FCoherent c0 st0) (hn : (C01.AL.keys st0).Nodup) :
    FCoherent (cacheAfter env p pcs c0 st0) (storeAfter env p pcs c0 st0) ∧
    (C01.AL.keys (storeAfter env p pcs c0 st0)).Nodup ∧
    ∀ i, C01.AL.get (storeAfter env p pcs c0 st0) i = C01.AL.get ((FlatIx.step env ⟨p, st0⟩ pcs).store) i := by
  obtain ⟨a, b, c⟩ := flat_after env p pcs hc hn
  exact ⟨a, b, fun i => by rw [c i, step_store]⟩

/-! ### the concrete instance: Compose's example shard (3 points, integer index `n`, flat index `v`, text index
`t`) with a WARM shared cache of the flat index -/

section examples

def exCx : Ctx (List Int) Byte Nat Int Int := ⟨C02.exLower, exRConv, exRCfg, exREnv, exOrc []⟩

/-- the cache a search leaves behind: every item of the bucket, `isAllInCache` set -/
def exWarm : FCache (List Int) :=
  { items := [(3#64, { value := [1, 0] }), (4#64, { value := [1, 1] })], isAllInCache := true }

def exS : ShardWithCaches (List Int) Byte := { rs := exRFinal, caches := [(["v"], exWarm)] }

/-- a new point with a vector; a point whose id exists after a new one (rejected after the first was dispatched) -/
def exIns : C01.Op := .insert [("u9", some [("v", "[0,0]")])]
def exInsExisting : C01.Op := .insert [("u9", some [("v", "[0,0]")]), ("u2", some [("n", "5")])]

def exReq : C06.Request := ⟨[["*"]], [], 0, 0⟩

/-- an answer as a comparable value (`none`: the request fails, e.g. "could not get point by node id") -/
def digest : Answer Int → Option (List (C01.Uuid × Option Int))
  | .rows a => ranswer a
  | .count n => some [(toString n, none)]

theorem exFlats : exRFinal.flats = [⟨["v"], [(3#64, [1, 0]), (4#64, [1, 1])]⟩] := by rfl

theorem exWarm_coherent : FCoherent exWarm [(3#64, [1, 0]), (4#64, [1, 1])] := by
  refine ⟨by decide, ?_, ?_⟩
  · intro id e h
    by_cases h3 : (3#64 : C04.Id) = id
    · subst h3; cases h; decide
    · by_cases h4 : (4#64 : C04.Id) = id
      · subst h4; cases h; decide
      · simp [exWarm, C08.find, h3, h4] at h
  · intro _ id hs
    by_cases h3 : (3#64 : C04.Id) = id
    · subst h3; decide
    · by_cases h4 : (4#64 : C04.Id) = id
      · subst h4; decide
      · simp [C01.AL.get, h3, h4] at hs

/-- the hypothesis of the theorems holds for the example: Compose's invariant (by its history theorem), one flat
index, the warm cache coherent -/
theorem exGood : Good exCx exS := by
  refine ⟨exRInv, by decide, ?_⟩
  intro fx hfx c hg
  have : fx = ⟨["v"], [(3#64, [1, 0]), (4#64, [1, 1])]⟩ := by
    have := exFlats ▸ hfx
    simpa using this
  subst this
  have : c = exWarm := by
    have h' : C01.AL.get exS.caches ["v"] = some c := hg
    simp [exS, C01.AL.get] at h'
    exact h'.symm
  subst this
  exact exWarm_coherent

/-- … and Compose's side condition of one batch holds for the example batch -/
theorem exStepOK : RStepOK exCx.lower exCx.cv exCx.cfg exCx.env exS.rs exIns {} := by
  refine ⟨by decide, ?_, ?_⟩
  · intro pc _ ix hix hk
    have : ∀ ix ∈ exRFinal.base.idxs, ix.kind ≠ .flt := by decide
    exact absurd hk (this ix hix)
  · intro tx _ id; rfl

/-- **C07_partial_cache_witness.**  The property is FALSE for the variant whose error path keeps the caches
(`Commit(false)` / a `Commit` whose argument was decided before `Write` ran), although that variant rolls the
buckets back exactly like `runBatch` (same `writeTx`): on the good example instance, with the commit failing
after the insert of `u9`, the 2-nearest-neighbour query that answered `u2, u3` now FAILS on the running instance
(the retained cache lists node id 5, which has no point: "could not get point by node id"), while the reopened
instance answers as before.  So `C07_observe_atomic` is not a consequence of the storage assumption: it needs
the cache transaction. -/
theorem C07_partial_cache_witness :
    Good exCx exS ∧
    (runBatchKeepCaches exCx exS exIns {} .commit).2 = .commit ∧
    answers exCx (runBatchKeepCaches exCx exS exIns {} .commit).1 (.search exFlatQ exReq) ≠
      answers exCx exS (.search exFlatQ exReq) ∧
    digest (answers exCx (reopen (runBatchKeepCaches exCx exS exIns {} .commit).1) (.search exFlatQ exReq)) =
      digest (answers exCx exS (.search exFlatQ exReq)) := by
  refine ⟨exGood, by decide, fun h => ?_, by decide⟩
  have := congrArg digest h
  revert this
  decide

-- what the queries answer on the warm instance
example : digest (answers exCx exS (.search exFlatQ exReq)) = some [("u2", some (-2)), ("u3", some (-4))] := by decide
example : digest (answers exCx exS .pointCount) = some [("3", none)] := by decide
-- the failing runs the error half speaks about: every fault position, the commit, a rejection after progress
example : (runBatch exCx exS exIns {} (.op 0)).2 = .storage 0 := by decide        -- the point store
example : (runBatch exCx exS exIns {} (.op 2)).2 = .storage 2 := by decide        -- bm.Get of the flat bucket
example : (runBatch exCx exS exIns {} (.op 3)).2 = .storage 3 := by decide        -- the WriteTo inside Flush
example : (runBatch exCx exS exIns {} (.op 4)).2 = .storage 4 := by decide        -- the text index
example : (runBatch exCx exS exIns {} .commit).2 = .commit := by decide
example : (runBatch exCx exS exInsExisting { progress := 5 } .none).2 = .rejected (.rejected .exists_) := by decide
-- … in each of them the warm cache was written (the new vector sits in it) and is dropped, the answers stay
example : (runBody exCx exS exIns {} (.op 3) exS.rs).1.written = [["v"]] := by decide
example : (runBatch exCx exS exIns {} (.op 3)).1.caches.map (·.1) = [] := by decide
example : (runBatch exCx exS exInsExisting { progress := 5 } .none).1.caches.map (·.1) = [] := by decide
example : digest (answers exCx (runBatch exCx exS exIns {} .commit).1 (.search exFlatQ exReq)) =
    some [("u2", some (-2)), ("u3", some (-4))] := by decide
-- a fault before the flat index was reached leaves the warm cache in place
example : (runBatch exCx exS exIns {} (.op 1)).1.caches.map (·.1) = [["v"]] := by decide
-- success (no fault, or a fault position that is never reached): the new point is the nearest, the cache is kept
example : (runBatch exCx exS exIns {} .none).2 = .ok .ok := by decide
example : (runBatch exCx exS exIns {} (.op 5)).2.isErr = false := by decide
example : digest (answers exCx (runBatch exCx exS exIns {} .none).1 (.search exFlatQ exReq)) =
    some [("u9", some 0), ("u2", some (-2))] := by decide
example : digest (answers exCx (runBatch exCx exS exIns {} .none).1 .pointCount) = some [("4", none)] := by decide
example : (runBatch exCx exS exIns {} .none).1.caches.map (fun e => (e.1, e.2.items.map (·.1), e.2.isAllInCache)) =
    [(["v"], [3#64, 4#64, 5#64], true)] := by decide
-- a history: a failed insert, an eviction, the insert again, a failing delete
def exHist : List (HStep Byte) :=
  [ { op := exIns, fault := .op 3 }, { evict := [["v"]], op := exIns }, { op := .delete ["u2"], fault := .commit } ]
example : (runHistory exCx exS exHist).2 = [.storage 3, .ok .ok, .commit] := by decide
example : digest (answers exCx (runHistory exCx exS exHist).1 (.search exFlatQ exReq)) =
    some [("u9", some 0), ("u2", some (-2))] := by decide

end examples

end Sema.C07
