/- C07 / observation: the batch of ObserveModel.lean against the Compose step (`RState.step`): combined states
with the same content, a successful batch lands on the Compose state with coherent caches, a failed one keeps
everything a reader can reach -/
import SemaModel.C07.ObserveLemmas
import SemaModel.Compose.RankLemmas
set_option linter.unusedSimpArgs false
set_option linter.unusedVariables false
set_option linter.unusedSectionVars false
namespace Sema.C07.Obs
open Sema Sema.Compose

variable {V T D S W : Type}

/-! ### combined states with the same content -/

/-- two flat indexes with the same content: same property, one entry per node id, same lookups (the listing
order of a store is not observable) -/
def StoreEq (a b : FlatIx V) : Prop :=
  a.path = b.path ∧ (C01.AL.keys a.store).Nodup ∧ (C01.AL.keys b.store).Nodup ∧
  ∀ i, C01.AL.get a.store i = C01.AL.get b.store i

def FlatsEq : List (FlatIx V) → List (FlatIx V) → Prop
  | [], [] => True
  | a :: A, b :: B => StoreEq a b ∧ FlatsEq A B
  | _, _ => False

/-- same point store, same filter and text indexes, flat stores with the same content -/
structure REquiv (rs rs' : RState V T) : Prop where
  base : rs.base = rs'.base
  texts : rs.texts = rs'.texts
  flats : FlatsEq rs.flats rs'.flats

theorem StoreEq.symm {a b : FlatIx V} (h : StoreEq a b) : StoreEq b a := ⟨h.1.symm, h.2.2.1, h.2.1, fun i => (h.2.2.2 i).symm⟩
theorem StoreEq.trans {a b c : FlatIx V} (h : StoreEq a b) (h' : StoreEq b c) : StoreEq a c :=
  ⟨h.1.trans h'.1, h.2.1, h'.2.2.1, fun i => (h.2.2.2 i).trans (h'.2.2.2 i)⟩

theorem FlatsEq.symm : ∀ {A B : List (FlatIx V)}, FlatsEq A B → FlatsEq B A
  | [], [], _ => trivial
  | _ :: _, _ :: _, h => ⟨h.1.symm, FlatsEq.symm h.2⟩
  | [], _ :: _, h => h.elim
  | _ :: _, [], h => h.elim

theorem FlatsEq.trans : ∀ {A B C : List (FlatIx V)}, FlatsEq A B → FlatsEq B C → FlatsEq A C
  | [], [], [], _, _ => trivial
  | _ :: _, _ :: _, _ :: _, h, h' => ⟨h.1.trans h'.1, FlatsEq.trans h.2 h'.2⟩
  | [], _ :: _, _, h, _ => h.elim
  | _ :: _, [], _, h, _ => h.elim
  | [], [], _ :: _, _, h' => h'.elim
  | _ :: _, _ :: _, [], _, h' => h'.elim

theorem FlatsEq.refl : ∀ {A : List (FlatIx V)}, (∀ fx ∈ A, (C01.AL.keys fx.store).Nodup) → FlatsEq A A
  | [], _ => trivial
  | a :: A, h => ⟨⟨rfl, h a List.mem_cons_self, h a List.mem_cons_self, fun _ => rfl⟩,
      FlatsEq.refl fun fx hfx => h fx (List.mem_cons_of_mem _ hfx)⟩

theorem REquiv.symm {rs rs' : RState V T} (h : REquiv rs rs') : REquiv rs' rs := ⟨h.base.symm, h.texts.symm, h.flats.symm⟩
theorem REquiv.trans {a b c : RState V T} (h : REquiv a b) (h' : REquiv b c) : REquiv a c :=
  ⟨h.base.trans h'.base, h.texts.trans h'.texts, h.flats.trans h'.flats⟩
theorem REquiv.refl {rs : RState V T} (h : ∀ fx ∈ rs.flats, (C01.AL.keys fx.store).Nodup) : REquiv rs rs :=
  ⟨rfl, rfl, FlatsEq.refl h⟩

theorem FlatsEq.exists_right : ∀ {A B : List (FlatIx V)}, FlatsEq A B → ∀ b ∈ B, ∃ a ∈ A, StoreEq a b
  | [], [], _, b, hb => absurd hb List.not_mem_nil
  | a :: A, b' :: B, h, b, hb => by
    rcases List.mem_cons.1 hb with rfl | hb
    · exact ⟨a, List.mem_cons_self, h.1⟩
    · obtain ⟨x, hx, hs⟩ := FlatsEq.exists_right h.2 b hb
      exact ⟨x, List.mem_cons_of_mem _ hx, hs⟩
  | [], _ :: _, h, _, _ => h.elim
  | _ :: _, [], h, _, _ => h.elim

theorem FlatsEq.paths : ∀ {A B : List (FlatIx V)}, FlatsEq A B → A.map (·.path) = B.map (·.path)
  | [], [], _ => rfl
  | a :: A, b :: B, h => by simp only [List.map_cons, h.1.1, FlatsEq.paths h.2]
  | [], _ :: _, h => h.elim
  | _ :: _, [], h => h.elim

theorem FlatsEq.sorted : ∀ {A B : List (FlatIx V)}, FlatsEq A B →
    A.map (fun fx => ({ fx with store := sortById fx.store } : FlatIx V)) =
    B.map (fun fx => ({ fx with store := sortById fx.store } : FlatIx V))
  | [], [], _ => rfl
  | a :: A, b :: B, h => by
    simp only [List.map_cons, FlatsEq.sorted h.2, h.1.1, sortById_congr h.1.2.1 h.1.2.2.1 h.1.2.2.2]
  | [], _ :: _, h => h.elim
  | _ :: _, [], h => h.elim

/-- states with the same content are LISTED identically: no query can tell them apart -/
theorem listed_congr {rs rs' : RState V T} (h : REquiv rs rs') : listed rs = listed rs' := by
  unfold listed
  rw [h.base, h.texts, h.flats.sorted]

theorem storeOfL_of_mem {F : List (FlatIx V)} (hn : (F.map (·.path)).Nodup) {fx : FlatIx V} (hfx : fx ∈ F) :
    storeOfL F fx.path = fx.store := by
  induction F with
  | nil => cases hfx
  | cons a F' ih =>
    rw [storeOfL_cons]
    simp only [List.map_cons, List.nodup_cons] at hn
    rcases List.mem_cons.1 hfx with rfl | h
    · simp
    · have : ¬ a.path = fx.path := fun e => hn.1 (e ▸ List.mem_map.2 ⟨fx, h, rfl⟩)
      rw [if_neg this]; exact ih hn.2 h

theorem storeOfL_mem {F : List (FlatIx V)} {q : List String} (hq : q ∈ F.map (·.path)) :
    ∃ fx ∈ F, fx.path = q ∧ storeOfL F q = fx.store := by
  induction F with
  | nil => cases hq
  | cons a F' ih =>
    rw [storeOfL_cons]
    by_cases h : a.path = q
    · exact ⟨a, List.mem_cons_self, h, by rw [if_pos h]⟩
    · simp only [List.map_cons, List.mem_cons] at hq
      obtain ⟨fx, h1, h2, h3⟩ := ih (hq.resolve_left (fun e => h e.symm))
      exact ⟨fx, List.mem_cons_of_mem _ h1, h2, by rw [if_neg h]; exact h3⟩

/-- two lists of flat indexes over the same (pairwise different) properties whose stores have the same content
property by property -/
theorem flatsEq_of_lookup : ∀ {A B : List (FlatIx V)}, A.map (·.path) = B.map (·.path) → (A.map (·.path)).Nodup →
    (∀ q, q ∈ A.map (·.path) → (C01.AL.keys (storeOfL A q)).Nodup ∧ (C01.AL.keys (storeOfL B q)).Nodup ∧
      ∀ i, C01.AL.get (storeOfL A q) i = C01.AL.get (storeOfL B q) i) → FlatsEq A B
  | [], [], _, _, _ => trivial
  | [], _ :: _, h, _, _ => by simp at h
  | _ :: _, [], h, _, _ => by simp at h
  | a :: A, b :: B, hp, hn, h => by
    simp only [List.map_cons, List.cons.injEq] at hp
    simp only [List.map_cons, List.nodup_cons] at hn
    refine ⟨?_, flatsEq_of_lookup hp.2 hn.2 fun q hq => ?_⟩
    · have := h a.path (by simp)
      rw [storeOfL_cons, storeOfL_cons, if_pos rfl, if_pos hp.1.symm] at this
      exact ⟨hp.1, this⟩
    · have hqa : ¬ a.path = q := fun e => hn.1 (e ▸ hq)
      have hqb : ¬ b.path = q := fun e => hqa (hp.1 ▸ e)
      have := h q (by simp [hq])
      rw [storeOfL_cons, storeOfL_cons, if_neg hqa, if_neg hqb] at this
      exact this

/-! ### the flat index step of Compose is the fold of the store operations -/

theorem apply_store (env : Env V T D S W) (fx : FlatIx V) (pc : C02.PChange) :
    (fx.apply env pc).store = match flatOp env fx.path pc with
      | none => fx.store
      | some o => applyStoreOp fx.store o := by
  unfold flatOp
  cases hc : C02.getProp pc.cur fx.path with
  | none =>
    cases hp : C02.getProp pc.prev fx.path with
    | none => rw [FlatIx.apply_skip env fx pc hp hc]
    | some y => rw [FlatIx.apply_del env fx pc hp hc]; rfl
  | some x =>
    cases hv : env.vec x with
    | some v =>
      rw [FlatIx.apply_set env fx pc hc hv]
      cases C02.getProp pc.prev fx.path <;> simp [hv, applyStoreOp]
    | none =>
      have : fx.apply env pc = fx := by
        unfold FlatIx.apply; rw [hc]
        cases C02.getProp pc.prev fx.path <;> simp [hv]
      rw [this]
      cases C02.getProp pc.prev fx.path <;> simp [hv]

theorem step_store (env : Env V T D S W) (pcs : List C02.PChange) : ∀ (fx : FlatIx V),
    (fx.step env pcs).store = (opsOf env fx.path pcs).foldl applyStoreOp fx.store := by
  induction pcs with
  | nil => intro fx; rfl
  | cons pc rest ih =>
    intro fx
    show (FlatIx.step env (fx.apply env pc) rest).store = _
    rw [ih, FlatIx.apply_path, apply_store]
    unfold opsOf
    rw [List.filterMap_cons]
    cases flatOp env fx.path pc with
    | none => rfl
    | some o => rfl

theorem storeOfL_steps (env : Env V T D S W) (pcs : List C02.PChange) (F : List (FlatIx V)) (q : List String)
    (hq : q ∈ F.map (·.path)) :
    storeOfL (F.map fun fx => fx.step env pcs) q = (opsOf env q pcs).foldl applyStoreOp (storeOfL F q) := by
  induction F with
  | nil => cases hq
  | cons a F' ih =>
    rw [List.map_cons, storeOfL_cons, storeOfL_cons, FlatIx.step_path]
    by_cases h : a.path = q
    · rw [if_pos h, if_pos h, step_store, h]
    · rw [if_neg h, if_neg h]
      simp only [List.map_cons, List.mem_cons] at hq
      exact ih (hq.resolve_left (fun e => h e.symm))

/-- what the cache operations and `Flush` of one flat index amount to: with a coherent cache over a bucket
holding each node id once, the bucket afterwards has the content Compose's `FlatIx.step` gives, each id once, and the
cache left in the manager is coherent with it -/
theorem flat_after (env : Env V T D S W) (p : List String) (pcs : List C02.PChange) {c0 : FCache V} {st0 : List (C04.Id × V)}
    (hc : FCoherent c0 st0) (hn : (C01.AL.keys st0).Nodup) :
    FCoherent (cacheAfter env p pcs c0 st0) (storeAfter env p pcs c0 st0) ∧
    (C01.AL.keys (storeAfter env p pcs c0 st0)).Nodup ∧
    ∀ i, C01.AL.get (storeAfter env p pcs c0 st0) i = C01.AL.get ((opsOf env p pcs).foldl applyStoreOp st0) i := by
  obtain ⟨t1, t2⟩ := trk_ops (opsOf env p pcs) hc.trk
  obtain ⟨f1, f2⟩ := flush_spec t1
  refine ⟨f1, nodup_flushStore _ hn, fun i => ?_⟩
  show C01.AL.get (flushStore (cacheMid env p pcs c0 st0).items st0) i = _
  have e : cacheMid env p pcs c0 st0 = (opsOf env p pcs).foldl (applyCacheOp st0) c0 := rfl
  rw [e, f2 i, t2 i, get_applyStoreOps]
  have : overlay c0 st0 = C01.AL.get st0 := funext hc.overlay_eq
  rw [this]

/-! ### the running instance -/

/-- every shared cache of a flat index is coherent with the committed store of that index -/
def CachesCoherent (s : ShardWithCaches V T) : Prop :=
  ∀ fx ∈ s.rs.flats, ∀ c, C01.AL.get s.caches fx.path = some c → FCoherent c fx.store

def KeysNodup (rs : RState V T) : Prop := ∀ fx ∈ rs.flats, (C01.AL.keys fx.store).Nodup

theorem through_coherent {cs : Caches V} {fx : FlatIx V} (hn : (C01.AL.keys fx.store).Nodup)
    (h : ∀ c, C01.AL.get cs fx.path = some c → FCoherent c fx.store) : through cs fx = fx := by
  unfold through
  cases hg : C01.AL.get cs fx.path with
  | none => rfl
  | some c => simp only; rw [viewStore_coherent (h c hg) hn]

/-- **with coherent caches the running instance reads exactly the committed state** -/
theorem readThrough_coherent {s : ShardWithCaches V T} (hk : KeysNodup s.rs) (hc : CachesCoherent s) : readThrough s = s.rs := by
  unfold readThrough
  have : s.rs.flats.map (through s.caches) = s.rs.flats := by
    conv => rhs; rw [← List.map_id s.rs.flats]
    apply List.map_congr_left
    intro fx hfx
    exact through_coherent (hk fx hfx) (hc fx hfx)
  rw [this]

theorem readThrough_reopen (s : ShardWithCaches V T) : readThrough (reopen s) = s.rs := by
  unfold readThrough reopen
  have : s.rs.flats.map (through ([] : Caches V)) = s.rs.flats := by
    conv => rhs; rw [← List.map_id s.rs.flats]
    apply List.map_congr_left
    intro fx _; rfl
  simp only [this]

theorem coherent_evict {s : ShardWithCaches V T} (hc : CachesCoherent s) (names : List (List String)) :
    CachesCoherent (evictCaches s names) := by
  intro fx hfx c hg
  have hg' : C01.AL.get (dropCaches s.caches names) fx.path = some c := hg
  rw [get_dropCaches] at hg'
  split at hg'
  · cases hg'
  · exact hc fx hfx c hg'

/-! ### the outcome of `runBatch` -/

section
variable [DecidableEq T]

theorem runBatch_ok {cx : Ctx V T D S W} {s : ShardWithCaches V T} {op : C01.Op} {bo : BOracle T} {fault : Fault} {d : RState V T}
    (h : txBody cx s op bo fault s.rs = .ok d) :
    runBatch cx s op bo fault =
      ({ rs := d, caches := (runBody cx s op bo fault s.rs).1.caches }, .ok (verdictOf cx s.rs op bo).2) := by
  unfold runBatch writeTx; rw [h]

theorem runBatch_err {cx : Ctx V T D S W} {s : ShardWithCaches V T} {op : C01.Op} {bo : BOracle T} {fault : Fault} {e : Result}
    (h : txBody cx s op bo fault s.rs = .error e) :
    runBatch cx s op bo fault =
      ({ rs := s.rs, caches := dropCaches (runBody cx s op bo fault s.rs).1.caches (runBody cx s op bo fault s.rs).1.written }, e) := by
  unfold runBatch writeTx; rw [h]

theorem txBody_error_isErr {cx : Ctx V T D S W} {s : ShardWithCaches V T} {op : C01.Op} {bo : BOracle T} {fault : Fault}
    {d : RState V T} {e : Result} (h : txBody cx s op bo fault d = .error e) : e.isErr = true := by
  unfold txBody at h
  split at h
  · cases h; rfl
  · split at h
    · cases h; rfl
    · split at h
      · cases h; rfl
      · cases h

/-- the batch reports an error exactly when `db.Write` returned one; then the committed state is the
pre-state (ASSUMPTION `writeTx`) and `Commit(true)` dropped the caches the transaction had registered -/
theorem runBatch_isErr {cx : Ctx V T D S W} {s : ShardWithCaches V T} {op : C01.Op} {bo : BOracle T} {fault : Fault}
    (h : (runBatch cx s op bo fault).2.isErr = true) :
    (runBatch cx s op bo fault).1 =
      { rs := s.rs, caches := dropCaches (runBody cx s op bo fault s.rs).1.caches (runBody cx s op bo fault s.rs).1.written } := by
  cases hb : txBody cx s op bo fault s.rs with
  | ok d => rw [runBatch_ok hb] at h; cases h
  | error e => rw [runBatch_err hb]

/-- **error ⇒ every cache the manager still holds is one the batch never touched, exactly as it was** -/
theorem err_caches {cx : Ctx V T D S W} {s : ShardWithCaches V T} {op : C01.Op} {bo : BOracle T} {fault : Fault}
    (h : (runBatch cx s op bo fault).2.isErr = true) (q : List String) (c : FCache V)
    (hg : C01.AL.get (runBatch cx s op bo fault).1.caches q = some c) : C01.AL.get s.caches q = some c := by
  rw [runBatch_isErr h] at hg
  have hg' : C01.AL.get (dropCaches (runBody cx s op bo fault s.rs).1.caches (runBody cx s op bo fault s.rs).1.written) q = some c := hg
  rw [get_dropCaches] at hg'
  cases hw : (runBody cx s op bo fault s.rs).1.written.contains q with
  | true => rw [hw] at hg'; simp at hg'
  | false =>
    rw [hw] at hg'
    simp only [Bool.false_eq_true, if_false] at hg'
    have := (exec_frame fault.pos (verdictOf cx s.rs op bo).1 (bodyOf cx s.rs op bo) (startTx s s.rs)).1 q hw
    rw [← hg']; exact this.symm

theorem err_coherent {cx : Ctx V T D S W} {s : ShardWithCaches V T} {op : C01.Op} {bo : BOracle T} {fault : Fault}
    (hc : CachesCoherent s) (h : (runBatch cx s op bo fault).2.isErr = true) :
    (runBatch cx s op bo fault).1.rs = s.rs ∧ CachesCoherent (runBatch cx s op bo fault).1 := by
  have hrs : (runBatch cx s op bo fault).1.rs = s.rs := by rw [runBatch_isErr h]
  refine ⟨hrs, fun fx hfx c hg => ?_⟩
  rw [hrs] at hfx
  exact hc fx hfx c (err_caches h fx.path c hg)

/-! ### success: the batch lands on the Compose state -/

theorem exec_points_filters (fault : Option Nat) (tgt : RState V T) (t : Tx V T)
    (h : (exec fault tgt [.points, .filters] t).2 = false) :
    (exec fault tgt [.points, .filters] t).1.rs =
      { t.rs with base := { t.rs.base with shard := tgt.base.shard, idxs := tgt.base.idxs } } ∧
    (exec fault tgt [.points, .filters] t).1.caches = t.caches := by
  by_cases h1 : fault = some t.n
  · simp [exec, stepTx, h1] at h
  · by_cases h2 : fault = some (t.n + 1)
    · simp [exec, stepTx, h1, h2] at h
    · simp [exec, stepTx, h1, h2]

theorem exec_texts (fault : Option Nat) (tgt : RState V T) (t : Tx V T)
    (h : (exec fault tgt [.texts] t).2 = false) :
    (exec fault tgt [.texts] t).1.rs = { t.rs with texts := tgt.texts } ∧
    (exec fault tgt [.texts] t).1.caches = t.caches := by
  by_cases h1 : fault = some t.n
  · simp [exec, stepTx, h1] at h
  · simp [exec, stepTx, h1]

/-- what a successful batch tells about `db.Write`: no storage operation failed, no stage rejected, the commit
did not fail, and the committed state is the one the body produced -/
theorem runBatch_success {cx : Ctx V T D S W} {s : ShardWithCaches V T} {op : C01.Op} {bo : BOracle T} {fault : Fault}
    (h : (runBatch cx s op bo fault).2.isErr = false) :
    (runBody cx s op bo fault s.rs).2 = false ∧ isRejected (verdictOf cx s.rs op bo).2 = false ∧
    runBatch cx s op bo fault =
      ({ rs := (runBody cx s op bo fault s.rs).1.rs, caches := (runBody cx s op bo fault s.rs).1.caches },
       .ok (verdictOf cx s.rs op bo).2) := by
  cases hb : txBody cx s op bo fault s.rs with
  | error e => rw [runBatch_err hb] at h; rw [txBody_error_isErr hb] at h; cases h
  | ok d =>
    rw [runBatch_ok hb]
    unfold txBody at hb
    split at hb
    · cases hb
    · rename_i hflag
      split at hb
      · cases hb
      · rename_i hrej
        split at hb
        · cases hb
        · cases hb
          exact ⟨by simpa using hflag, by simpa using hrej, rfl⟩

/-- a batch the Compose step does not reject: the state it yields -/
theorem verdict_accepted (cx : Ctx V T D S W) (rs : RState V T) (op : C01.Op) (bo : BOracle T)
    (h : isRejected (verdictOf cx rs op bo).2 = false) :
    (verdictOf cx rs op bo).1.base.shard = (rs.base.step cx.lower cx.cv cx.cfg op bo.ro.o).1.shard ∧
    (verdictOf cx rs op bo).1.base.idxs = (rs.base.step cx.lower cx.cv cx.cfg op bo.ro.o).1.idxs ∧
    (verdictOf cx rs op bo).1.base.bolt = rs.base.bolt ∧
    (verdictOf cx rs op bo).1.flats = rs.flats.map (fun fx => fx.step cx.env (changes cx.cfg cx.cv rs.base.shard op bo.ro.o)) := by
  unfold verdictOf at h ⊢
  rcases rstep_cases cx.lower cx.cv cx.cfg cx.env rs op bo.ro with ⟨_, e⟩ | ⟨_, hr, e⟩ | ⟨_, hr, e⟩
  · rw [e] at h
    rw [shard_step_indexFalse cx.cfg rs.base.shard op { bo.ro.o with indexOk := false } rfl] at h
    cases h
  · rw [e] at h
    have : isRejected (rs.base.step cx.lower cx.cv cx.cfg op bo.ro.o).2 = false := h
    rw [hr] at this; cases this
  · rw [e]
    exact ⟨rfl, rfl, (step_idxs cx.lower cx.cv cx.cfg rs.base op bo.ro.o hr).2, rfl⟩

/-- **success ⇒ the committed state has the content of the Compose step, the caches in the manager are coherent
with it** (the flat stores may be listed in another order: `REquiv`) -/
theorem success_equiv {cx : Ctx V T D S W} {s : ShardWithCaches V T} (hk : KeysNodup s.rs) (hp : (paths s.rs).Nodup)
    (hc : CachesCoherent s) {op : C01.Op} {bo : BOracle T} {fault : Fault}
    (h : (runBatch cx s op bo fault).2.isErr = false) :
    REquiv (runBatch cx s op bo fault).1.rs (verdictOf cx s.rs op bo).1 ∧
    CachesCoherent (runBatch cx s op bo fault).1 ∧
    paths (runBatch cx s op bo fault).1.rs = paths s.rs ∧
    (runBatch cx s op bo fault).2 = .ok (verdictOf cx s.rs op bo).2 := by
  obtain ⟨hflag, hrej, heq⟩ := runBatch_success h
  obtain ⟨v1, v2, v3, v4⟩ := verdict_accepted cx s.rs op bo hrej
  rw [heq]
  -- the body is the whole program
  have hbody : bodyOf cx s.rs op bo = progOf cx.env s.rs (changes cx.cfg cx.cv s.rs.base.shard op bo.ro.o) := by
    unfold bodyOf; rw [hrej]; rfl
  unfold runBody at hflag ⊢
  rw [hbody] at hflag ⊢
  generalize hpcs : changes cx.cfg cx.cv s.rs.base.shard op bo.ro.o = pcs at hflag v4 ⊢
  generalize htgt : (verdictOf cx s.rs op bo).1 = tgt at hflag v1 v2 v3 v4 ⊢
  unfold progOf at hflag ⊢
  rw [List.append_assoc] at hflag ⊢
  obtain ⟨a1, a2⟩ := exec_append_ok hflag
  rw [a2] at hflag ⊢
  obtain ⟨b1, b2⟩ := exec_points_filters _ tgt _ a1
  generalize ht1 : (exec fault.pos tgt [.points, .filters] (startTx s s.rs)).1 = t1 at hflag b1 b2 ⊢
  obtain ⟨c1, c2⟩ := exec_append_ok hflag
  rw [c2] at hflag ⊢
  have hpaths1 : paths t1.rs = paths s.rs := by rw [b1]; rfl
  have hL : (s.rs.flats.map (·.path)) = paths s.rs := rfl
  rw [hL] at c1 hflag ⊢
  obtain ⟨d1, d2, d3, d4, d5, d6, d7⟩ := exec_flats fault.pos tgt cx.env pcs (paths s.rs) hp t1 c1
  generalize ht2 : (exec fault.pos tgt ((paths s.rs).flatMap fun p => flatSteps cx.env p pcs) t1).1 = t2 at hflag d1 d2 d3 d4 d5 d6 d7 ⊢
  obtain ⟨e1, e2⟩ := exec_texts _ tgt _ hflag
  rw [e1, e2]
  have hst1 : ∀ q, storeOf t1.rs q = storeOf s.rs q := by intro q; rw [b1]; rfl
  have hc1 : t1.caches = s.caches := by rw [b2]; rfl
  rw [hpaths1] at d3 d4 d5
  -- per property: the initial cache is coherent with the initial store
  have hinit : ∀ q, q ∈ paths s.rs → FCoherent (cacheOr s.caches q) (storeOf s.rs q) ∧ (C01.AL.keys (storeOf s.rs q)).Nodup := by
    intro q hq
    obtain ⟨fx, hfx, hfq, hfs⟩ := storeOfL_mem (F := s.rs.flats) hq
    rw [storeOf_eq, hfs]
    refine ⟨?_, hk fx hfx⟩
    unfold cacheOr
    cases hg : C01.AL.get s.caches q with
    | none => exact FCoherent_empty _
    | some c => exact hc fx hfx c (hfq ▸ hg)
  have hp2 : (paths t2.rs).Nodup := by rw [d3]; exact hp
  refine ⟨⟨?_, rfl, ?_⟩, ?_, d3, rfl⟩
  · -- base
    show t2.rs.base = tgt.base
    rw [d1, b1]
    show ({ shard := tgt.base.shard, idxs := tgt.base.idxs, bolt := s.rs.base.bolt } : State) = tgt.base
    rw [← v3]
  · -- flats
    show FlatsEq t2.rs.flats tgt.flats
    rw [v4]
    refine flatsEq_of_lookup ?_ hp2 fun q hq => ?_
    · show paths t2.rs = _
      rw [d3, List.map_map]
      unfold paths
      apply List.map_congr_left
      intro fx _
      exact (FlatIx.step_path cx.env pcs fx).symm
    · have hq' : q ∈ paths s.rs := d3 ▸ hq
      obtain ⟨hco, hno⟩ := hinit q hq'
      rw [storeOfL_steps cx.env pcs s.rs.flats q hq', ← storeOf_eq, ← storeOf_eq]
      cases he : (opsOf cx.env q pcs).isEmpty with
      | false =>
        rw [d4 q hq' hq' he, hc1, hst1]
        obtain ⟨_, g2, g3⟩ := flat_after cx.env q pcs hco hno
        exact ⟨g2, nodup_applyStoreOps _ hno, g3⟩
      | true =>
        rw [d5 q (fun hh => by rw [he] at hh; cases hh.2.2), hst1]
        have : opsOf cx.env q pcs = [] := List.isEmpty_iff.1 he
        rw [this]
        exact ⟨hno, hno, fun _ => rfl⟩
  · -- the caches left in the manager
    intro fx hfx c hg
    have hfx' : fx ∈ t2.rs.flats := hfx
    have hg' : C01.AL.get t2.caches fx.path = some c := hg
    have hq : fx.path ∈ paths s.rs := d3 ▸ List.mem_map.2 ⟨fx, hfx', rfl⟩
    have hst : fx.store = storeOf t2.rs fx.path := (storeOfL_of_mem hp2 hfx').symm
    obtain ⟨hco, hno⟩ := hinit fx.path hq
    cases he : (opsOf cx.env fx.path pcs).isEmpty with
    | false =>
      rw [d6 fx.path hq he, hc1, hst1] at hg'
      cases hg'
      rw [hst, d4 fx.path hq hq he, hc1, hst1]
      exact (flat_after cx.env fx.path pcs hco hno).1
    | true =>
      rw [d7 fx.path (fun hh => by rw [he] at hh; cases hh.2), hc1] at hg'
      rw [hst, d5 fx.path (fun hh => by rw [he] at hh; cases hh.2.2), hst1]
      have : cacheOr s.caches fx.path = c := by unfold cacheOr; rw [hg']; rfl
      rw [← this]; exact hco

/-! ### the Compose step respects "same content" -/

theorem typesOk_congr (env : Env V T D S W) {a b : FlatIx V} (h : a.path = b.path) (pcs : List C02.PChange) :
    a.typesOk env pcs = b.typesOk env pcs := by
  unfold FlatIx.typesOk; rw [h]

theorem all_typesOk_congr (env : Env V T D S W) (pcs : List C02.PChange) : ∀ {A B : List (FlatIx V)}, FlatsEq A B →
    A.all (fun fx => fx.typesOk env pcs) = B.all (fun fx => fx.typesOk env pcs)
  | [], [], _ => rfl
  | a :: A, b :: B, h => by
    simp only [List.all_cons, typesOk_congr env h.1.1 pcs, all_typesOk_congr env pcs h.2]
  | [], _ :: _, h => h.elim
  | _ :: _, [], h => h.elim

theorem step_storeEq (env : Env V T D S W) (pcs : List C02.PChange) {a b : FlatIx V} (h : StoreEq a b) :
    StoreEq (a.step env pcs) (b.step env pcs) := by
  refine ⟨by rw [FlatIx.step_path, FlatIx.step_path]; exact h.1, ?_, ?_, fun i => ?_⟩
  · rw [step_store]; exact nodup_applyStoreOps _ h.2.1
  · rw [step_store]; exact nodup_applyStoreOps _ h.2.2.1
  · rw [step_store, step_store, get_applyStoreOps, get_applyStoreOps, h.1]
    have : C01.AL.get a.store = C01.AL.get b.store := funext h.2.2.2
    rw [this]

theorem flatsEq_map_step (env : Env V T D S W) (pcs : List C02.PChange) : ∀ {A B : List (FlatIx V)}, FlatsEq A B →
    FlatsEq (A.map fun fx => fx.step env pcs) (B.map fun fx => fx.step env pcs)
  | [], [], _ => trivial
  | a :: A, b :: B, h => ⟨step_storeEq env pcs h.1, flatsEq_map_step env pcs h.2⟩
  | [], _ :: _, h => h.elim
  | _ :: _, [], h => h.elim

/-- the Compose step of one batch on two states with the same content: same output, states with the same content -/
theorem step_congr (cx : Ctx V T D S W) {rs rs' : RState V T} (h : REquiv rs rs') (op : C01.Op) (bo : BOracle T) :
    REquiv (verdictOf cx rs op bo).1 (verdictOf cx rs' op bo).1 ∧ (verdictOf cx rs op bo).2 = (verdictOf cx rs' op bo).2 := by
  have hv : rankVerdict cx.env rs (changes cx.cfg cx.cv rs.base.shard op bo.ro.o) =
      rankVerdict cx.env rs' (changes cx.cfg cx.cv rs.base.shard op bo.ro.o) := by
    unfold rankVerdict; rw [all_typesOk_congr cx.env _ h.flats, h.texts]
  unfold verdictOf
  rcases rstep_cases cx.lower cx.cv cx.cfg cx.env rs op bo.ro with ⟨v, e⟩ | ⟨v, r, e⟩ | ⟨v, r, e⟩ <;>
  rcases rstep_cases cx.lower cx.cv cx.cfg cx.env rs' op bo.ro with ⟨v', e'⟩ | ⟨v', r', e'⟩ | ⟨v', r', e'⟩ <;>
  rw [← h.base] at v' e' <;> (try rw [← h.base] at r') <;> rw [e, e']
  · exact ⟨h, rfl⟩
  · rw [hv, v'] at v; cases v
  · rw [hv, v'] at v; cases v
  · rw [hv, v'] at v; cases v
  · exact ⟨h, rfl⟩
  · rw [r'] at r; cases r
  · rw [hv, v'] at v; cases v
  · rw [r'] at r; cases r
  · refine ⟨⟨rfl, ?_, flatsEq_map_step cx.env _ h.flats⟩, rfl⟩
    show rs.texts.map _ = rs'.texts.map _
    rw [h.texts]

/-- the combined invariant does not depend on the listing order of the flat stores -/
theorem rinv_congr (lower : Bytes → Bytes) (cv : Conv) (env : Env V T D S W) {rs rs' : RState V T} (h : REquiv rs rs')
    (hR : RInv lower cv env rs') : RInv lower cv env rs := by
  refine ⟨h.base ▸ hR.base, fun fx hfx => ?_, ?_⟩
  · obtain ⟨fx', hfx', he⟩ := FlatsEq.exists_right h.flats.symm fx hfx
    obtain ⟨_, g⟩ := hR.flat fx' hfx'
    refine ⟨he.2.2.1, fun i => ?_⟩
    rw [← he.2.2.2 i, g i, he.1, h.base]
  · rw [h.base, h.texts]; exact hR.text

/-! ### the invariant of the running instance, and what a client sees under it -/

/-- **the combined invariant with coherent caches**: Compose's `RInv` (C01 + C02 + flat stores follow the
documents + C05 `TextInv`), one flat index per property, and every shared cache coherent with the committed store
of its index (C08's `CacheCoherent`, lifted) -/
structure Good (cx : Ctx V T D S W) (s : ShardWithCaches V T) : Prop where
  inv : RInv cx.lower cx.cv cx.env s.rs
  paths : (paths s.rs).Nodup
  coherent : CachesCoherent s

theorem Good.keys {cx : Ctx V T D S W} {s : ShardWithCaches V T} (h : Good cx s) : KeysNodup s.rs :=
  fun fx hfx => (h.inv.flat fx hfx).1

theorem REquiv.keys {rs rs' : RState V T} (h : REquiv rs rs') : KeysNodup rs := by
  intro fx hfx
  obtain ⟨fx', _, he⟩ := FlatsEq.exists_right h.flats.symm fx hfx
  exact he.2.2.1

theorem good_evict {cx : Ctx V T D S W} {s : ShardWithCaches V T} (h : Good cx s) (names : List (List String)) :
    Good cx (evictCaches s names) := ⟨h.inv, h.paths, coherent_evict h.coherent names⟩

section
variable [LT D] [DecidableLT D]

theorem answers_congr (cx : Ctx V T D S W) {s s' : ShardWithCaches V T}
    (h1 : listed (readThrough s) = listed (readThrough s')) (h2 : s.rs.base = s'.rs.base) :
    ∀ q, answers cx s q = answers cx s' q := by
  intro q
  cases q with
  | search q rq => simp only [answers, h1]
  | pointCount => simp only [answers, h2]

/-- the running instance with coherent caches answers like the bare committed state -/
theorem answers_coherent (cx : Ctx V T D S W) {s : ShardWithCaches V T} (hk : KeysNodup s.rs) (hc : CachesCoherent s) :
    ∀ q, answers cx s q = answers cx (reopen s) q :=
  answers_congr cx (by rw [readThrough_coherent hk hc, readThrough_reopen]) rfl

theorem answers_equiv (cx : Ctx V T D S W) {rs rs' : RState V T} (h : REquiv rs rs') :
    ∀ q, answers cx { rs := rs, caches := [] } q = answers cx { rs := rs', caches := [] } q :=
  answers_congr cx (by
    have e1 := readThrough_reopen ({ rs := rs, caches := [] } : ShardWithCaches V T)
    have e2 := readThrough_reopen ({ rs := rs', caches := [] } : ShardWithCaches V T)
    simp only [reopen] at e1 e2
    rw [e1, e2]; exact listed_congr h) h.base

end

/-! ### histories -/

/-- the side condition of Compose's invariant step (`RStepOK`: node ids below 2^63, no NaN into a float-indexed
property, each point's own changes reach the text writer in order), asked of every batch of the history that
reports success, on the state it actually runs on -/
def HistOK (cx : Ctx V T D S W) : ShardWithCaches V T → List (HStep T) → Prop
  | _, [] => True
  | s, h :: rest =>
    (((runBatch cx (evictCaches s h.evict) h.op h.bo h.fault).2.isErr = false →
      RStepOK cx.lower cx.cv cx.cfg cx.env s.rs h.op h.bo.ro)) ∧
    HistOK cx (runBatch cx (evictCaches s h.evict) h.op h.bo h.fault).1 rest

/-- one batch from a good instance (either outcome): the instance stays good; an error leaves the committed state
as it was, a success leaves the content of the Compose step -/
theorem good_step {cx : Ctx V T D S W} {s : ShardWithCaches V T} (hG : Good cx s) (op : C01.Op) (bo : BOracle T) (fault : Fault) :
    ((runBatch cx s op bo fault).2.isErr = true →
      (runBatch cx s op bo fault).1.rs = s.rs ∧ Good cx (runBatch cx s op bo fault).1) ∧
    ((runBatch cx s op bo fault).2.isErr = false →
      REquiv (runBatch cx s op bo fault).1.rs (verdictOf cx s.rs op bo).1 ∧
      CachesCoherent (runBatch cx s op bo fault).1 ∧
      (RStepOK cx.lower cx.cv cx.cfg cx.env s.rs op bo.ro → Good cx (runBatch cx s op bo fault).1)) := by
  refine ⟨fun h => ?_, fun h => ?_⟩
  · obtain ⟨e1, e2⟩ := err_coherent hG.coherent h
    exact ⟨e1, ⟨by rw [e1]; exact hG.inv, by rw [e1]; exact hG.paths, e2⟩⟩
  · obtain ⟨e1, e2, e3, _⟩ := success_equiv hG.keys hG.paths hG.coherent h
    refine ⟨e1, e2, fun ok => ⟨rinv_congr _ _ _ e1 ?_, by rw [e3]; exact hG.paths, e2⟩⟩
    exact rstep_inv cx.lower cx.cv cx.cfg cx.env hG.inv op bo.ro ok

theorem history_aux (cx : Ctx V T D S W) : ∀ (h : List (HStep T)) (s : ShardWithCaches V T) (rs' : RState V T),
    Good cx s → REquiv s.rs rs' → HistOK cx s h →
    Good cx (runHistory cx s h).1 ∧ REquiv (runHistory cx s h).1.rs (specHistory cx s rs' h) := by
  intro h
  induction h with
  | nil => intro s rs' hG he _; exact ⟨hG, he⟩
  | cons b rest ih =>
    intro s rs' hG he hok
    obtain ⟨hok1, hok2⟩ := hok
    have hG1 := good_evict hG b.evict
    obtain ⟨gE, gS⟩ := good_step hG1 b.op b.bo b.fault
    simp only [runHistory, specHistory]
    cases hr : (runBatch cx (evictCaches s b.evict) b.op b.bo b.fault).2.isErr with
    | true =>
      obtain ⟨e1, e2⟩ := gE hr
      simp only [if_true]
      exact ih _ rs' e2 (by rw [e1]; exact he) hok2
    | false =>
      obtain ⟨e1, _, e3⟩ := gS hr
      simp only [Bool.false_eq_true, if_false]
      exact ih _ _ (e3 (hok1 hr)) (e1.trans (step_congr cx he b.op b.bo).1) hok2

end

end Sema.C07.Obs
