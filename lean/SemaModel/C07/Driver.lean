/- line protocol for C07: the point-store instantiation of the batch model replays real batches.

  maxsize <n>                          UserPlan.MaxPointSize of the collection            → "-"
  trace  <batch>                       storage calls the model's program issues           → "<count>/<fnv64 of the call trace>"
  commit <batch>                       run fault-free, keep the result                    → "K:ok <digest>" | "E:<reason> <digest>"
  try <fault> <batch>                  run with a fault on the current state, do not keep → same
      fault = none | ps:<k> (fail / die at the k-th point-store call) | idx (an index stage fails)
            | commit (the closure returns nil, then the commit of the write transaction fails:
              fault position = number of storage calls of the model's program)
            | crashpre (die right before commit) | crashpost (die right after commit)
  batch = ins <uuidhex>:<node id the implementation allocated, 0 = unknown>:<dochex> ...
        | upd <uuidhex>:<size of merged document>:<merged dochex> ...
        | del <uuidhex> ...            (in the order the implementation processed them)
  caches <ok|err|commit> <pre> <touch> <gone>   the cache transaction of a batch against shard/cache/manager.go  → "K:<names>" | "E:<names>"
      pre = names of the shared caches the manager held before the batch, touch = the caches the whole batch opens
      (`cacheTx.With(name, false, …)`), gone = the caches of `pre` the implementation no longer holds (used for `err`
      only: how far the concurrent stages got when one failed is a race, DESIGN 3.3; it must be ⊆ touch).  Each a
      comma-separated list or "-".  The model runs the cache steps (`Step.cache` through `runBatch` of Model.lean,
      AND `TStep.openFlat` through `exec` / `abortWith` of ObserveModel.lean — the bookkeeping the theorems of
      Props.lean / ObserveProps.lean talk about) and prints the names the manager holds afterwards, sorted:
      ok → every opened cache kept; commit (the closure returned nil, the commit failed) → every opened cache dropped;
      err → the reached caches dropped; every other cache untouched.
  digest = "<points>/<fnv64>" over: every p<uuid>i entry in key order (uuid, document reached through
  the node id, whether n<id>i points back), size of the points bucket, pointCount, nextFreeNodeId,
  number of free node ids — the same function as go/cmd/c07/canon.go `digests`.
-/
import SemaModel.Base.DriverUtil
import SemaModel.C07.Model
import SemaModel.C07.ObserveModel
namespace Sema.C07
open Sema

def strBytes (s : String) : Bytes := s.toUTF8.toList.map (fun b => BitVec.ofNat 8 b.toNat)

def fnvByte (h : UInt64) (b : Byte) : UInt64 := (h ^^^ UInt64.ofNat b.toNat) * 0x100000001b3
def fnvBytes (h : UInt64) (bs : Bytes) : UInt64 := bs.foldl fnvByte h
def len32 (n : Nat) : Bytes := le32 (BitVec.ofNat 32 n)
def fnvEntry (h : UInt64) (k v : Bytes) : UInt64 :=
  fnvBytes (fnvBytes (fnvBytes (fnvBytes h (len32 k.length)) k) (len32 v.length)) v
def fnvInit : UInt64 := 0xcbf29ce484222325

def psDigest (d : Disk) : String :=
  let pts := d.bucket bPoints
  let ps := pts.entries.filter (fun e => e.1.length == 18 && e.1.head? == some 0x70#8)
  let h := ps.foldl (fun h e =>
    let uuid := (e.1.drop 1).take 16
    let id : BitVec 64 := if e.2.length == 8 then Gen.Conversion.BytesToUint64 e.2 else 0
    let doc := (pts.get (nodeKey id 0x64#8)).getD []
    let back := pts.get (nodeKey id 0x69#8) == some uuid
    fnvByte (fnvEntry h uuid doc) (if back then 1 else 0)) fnvInit
  let intl := d.bucket bInternal
  let h := fnvEntry h (strBytes "count") (le64 (BitVec.ofNat 64 pts.entries.length))
  let h := fnvEntry h (strBytes "pointCount") ((intl.get kPointCount).getD [])
  let h := fnvEntry h (strBytes "nextFreeNodeId") ((intl.get kNextFree).getD [])
  let h := fnvEntry h (strBytes "free") (le64 (BitVec.ofNat 64 (((intl.get kFreeIds).getD []).length / 8)))
  s!"{ps.length}/{hexOfNat 16 h.toNat}"

def opToken : Op → String
  | .get b k => s!"G:{b}:{hexOfBytes k}"
  | .put b k _ => s!"P:{b}:{hexOfBytes k}"
  | .del b k => s!"D:{b}:{hexOfBytes k}"
  | .scan b => s!"F:{b}:"

def traceDigest (p : Prog) : String :=
  let ops := opsOf p
  let h := ops.foldl (fun h o => fnvBytes (fnvBytes h (strBytes (opToken o))) [0x20#8]) fnvInit
  s!"{ops.length}/{hexOfNat 16 h.toNat}"

def hexB? (s : String) : Option Bytes := if s == "-" then some [] else bytesOfHex s

inductive BatchSpec where
  | ins (items : List InsItem)
  | upd (items : List UpdItem)
  | del (uuids : List Bytes)

def parseIns (w : String) : Option InsItem :=
  match w.splitOn ":" with
  | [u, n, d] => do
    let u ← bytesOfHex u; let n ← n.toNat?; let d ← hexB? d
    pure { uuid := u, choice := BitVec.ofNat 64 n, doc := d }
  | _ => none

def parseUpd (w : String) : Option UpdItem :=
  match w.splitOn ":" with
  | [u, n, d] => do
    let u ← bytesOfHex u; let n ← n.toNat?; let d ← hexB? d
    pure { uuid := u, size := n, doc := d }
  | _ => none

def parseBatch : List String → Option BatchSpec
  | "ins" :: ws => (ws.mapM parseIns).map .ins
  | "upd" :: ws => (ws.mapM parseUpd).map .upd
  | "del" :: ws => (ws.mapM bytesOfHex).map .del
  | _ => none

structure DState where
  shard : Shard := {}
  maxSize : Nat := 0

def progOf (st : DState) (b : BatchSpec) (extra : Prog) : Prog :=
  match b with
  | .ins items => insertProg st.shard.disk items extra
  | .upd items => updateProg st.shard.disk st.maxSize items extra
  | .del us => deleteProg st.shard.disk us extra

def runSpec (st : DState) (b : BatchSpec) (extra : Prog) (fault : Option Nat) : Shard × Option Err :=
  match b with
  | .ins items => insertPoints st.shard items extra fault
  | .upd items => updatePoints st.shard st.maxSize items extra fault
  | .del us => deletePoints st.shard us extra fault

def reason : Err → String
  | .rejected .dupId => "dupid"
  | .rejected .existingId => "existing"
  | .rejected .oversize => "oversize"
  | _ => "fault"

def outcome (r : Shard × Option Err) : String :=
  match r.2 with
  | none => s!"K:ok {psDigest r.1.disk}"
  | some e => s!"E:{reason e} {psDigest r.1.disk}"

def isDup : BatchSpec → Bool
  | .ins items => hasDup (items.map (·.uuid))
  | _ => false

/-! ### the cache transaction (`caches` lines) -/

def namesOf (s : String) : List String := if s == "-" then [] else (s.splitOn ",").filter (· != "")

def insertName (a : String) : List String → List String
  | [] => [a]
  | x :: l => if a < x then a :: x :: l else if a == x then x :: l else x :: insertName a l

def sortNames (l : List String) : List String := l.foldr insertName []

def showNames (l : List String) : String :=
  match sortNames l with
  | [] => "-"
  | s => ",".intercalate s

/-- Model.lean: the batch writes the caches `written` (`Step.cache`), then — for an error inside the closure —
a stage fails; for `commit` the fault position is the commit.  Result: error reported?, names in the manager. -/
def cachesByModel (res : String) (pre written : List String) : Bool × List String :=
  let prog : Prog := written.map (fun n => Step.cache n 1) ++ (if res == "err" then [.index false] else [])
  let fault := if res == "commit" then some (opsOf prog).length else none
  let r := runBatch { disk := [], caches := pre.map fun n => (n, 0) } prog fault
  (r.2.isSome, r.1.caches.map (·.1))

/-- ObserveModel.lean: the same through `exec` (`openFlat` = `cacheTx.With(name, false, …)`) and
`Commit(fail)` (`abortWith` drops `writtenCaches`) -/
def cachesByObserve (res : String) (pre written : List String) : List String :=
  let s : Obs.ShardWithCaches Unit Unit := { rs := {}, caches := pre.map fun n => ([n], C08.Cache.empty) }
  let t := (Obs.exec none ({} : Compose.RState Unit Unit) (written.map fun n => Obs.TStep.openFlat [n]) (Obs.startTx s s.rs)).1
  let after := if res == "ok" then t.caches else (Obs.abortWith s t).caches
  after.map fun e => ".".intercalate e.1

def cachesLine (res : String) (pre touch gone : List String) : String :=
  if res != "ok" && res != "commit" && res != "err" then "bad-op"
  else
    let stray := gone.filter fun n => !touch.contains n
    if res == "err" && !stray.isEmpty then s!"E:dropped-but-not-opened({showNames stray})"
    else
      let written := if res == "err" then gone else touch
      let m := cachesByModel res pre written
      let o := cachesByObserve res pre written
      let tag := if m.1 then "E:" else "K:"
      let out := tag ++ showNames m.2
      if sortNames m.2 == sortNames o && m.1 == (res != "ok") then out else out ++ "!models-differ(" ++ showNames o ++ ")"

def step (st : DState) (line : String) : DState × String :=
  let ws := (line.trimAscii.toString.splitOn " ").filter (· != "")
  match ws with
  | ["maxsize", n] => ({ st with maxSize := n.toNat?.getD 0 }, "-")
  | ["caches", res, pre, touch, gone] => (st, cachesLine res (namesOf pre) (namesOf touch) (namesOf gone))
  | "trace" :: rest =>
    match parseBatch rest with
    | some b => (st, traceDigest (progOf st b []))
    | none => (st, "bad-op")
  | "commit" :: rest =>
    match parseBatch rest with
    | some b =>
      let r := runSpec st b [] none
      (if r.2.isNone then { st with shard := r.1 } else st, outcome r)
    | none => (st, "bad-op")
  | "try" :: f :: rest =>
    match parseBatch rest with
    | none => (st, "bad-op")
    | some b =>
      if f == "none" then (st, outcome (runSpec st b [] none))
      else if f == "idx" then (st, outcome (runSpec st b [.index false] none))
      else if f == "commit" then
        (st, outcome (runSpec st b [] (some (opsOf (progOf st b [])).length)))
      else if f == "crashpre" then
        if isDup b then (st, outcome (runSpec st b [] none))
        else (st, s!"E:fault {psDigest (crashBatch st.shard (progOf st b []) .beforeCommit)}")
      else if f == "crashpost" then
        let r := runSpec st b [] none
        if r.2.isNone then (st, s!"K:ok {psDigest (crashBatch st.shard (progOf st b []) .afterCommit)}")
        else (st, outcome r)
      else match f.splitOn ":" with
        | ["ps", k] =>
          match k.toNat? with
          | some k => (st, outcome (runSpec st b [] (some k)))
          | none => (st, "bad-op")
        | _ => (st, "bad-op")
  | _ => (st, "-")

end Sema.C07

def Sema.C07.driverMain (stdin stdout : IO.FS.Stream) (_args : List String) : IO Unit :=
  Sema.loopState stdin stdout Sema.C07.step {}
