/- helper lemmas for C07 / observation (ObserveModel.lean): listing order, cache coherence (C08's `Coherent`
lifted to the flat stores of Compose), the bookkeeping of `exec`, `Flush`, equivalence of combined states -/
import SemaModel.C07.ObserveModel
import SemaModel.C01.Lemmas
import SemaModel.C08.Lemmas
set_option linter.unusedSimpArgs false
set_option linter.unusedVariables false
set_option linter.unusedSectionVars false
namespace Sema.C07.Obs
open Sema Sema.Compose


variable {V T D S W : Type}

/-! ### listing by node id is canonical -/

theorem insertById_perm (a : C04.Id × V) (l : List (C04.Id × V)) : (insertById a l).Perm (a :: l) := by
  induction l with
  | nil => exact List.Perm.refl _
  | cons x l ih =>
    unfold insertById
    split
    · exact List.Perm.refl _
    · exact (List.Perm.cons x ih).trans (List.Perm.swap a x l)

theorem sortById_perm (l : List (C04.Id × V)) : (sortById l).Perm l := by
  induction l with
  | nil => exact List.Perm.refl _
  | cons a l ih => exact (insertById_perm a _).trans (List.Perm.cons a ih)

theorem insertById_sorted (a : C04.Id × V) {l : List (C04.Id × V)}
    (h : l.Pairwise (fun x y => x.1.toNat ≤ y.1.toNat)) :
    (insertById a l).Pairwise (fun x y => x.1.toNat ≤ y.1.toNat) := by
  induction l with
  | nil => simp [insertById]
  | cons x l ih =>
    unfold insertById
    rw [List.pairwise_cons] at h
    split
    · rename_i hle
      refine List.pairwise_cons.2 ⟨?_, List.pairwise_cons.2 h⟩
      intro y hy
      rcases List.mem_cons.1 hy with rfl | hy
      · exact hle
      · exact Nat.le_trans hle (h.1 y hy)
    · rename_i hnle
      refine List.pairwise_cons.2 ⟨?_, ih h.2⟩
      intro y hy
      have := (insertById_perm a l).subset hy
      rcases List.mem_cons.1 this with rfl | hy'
      · omega
      · exact h.1 y hy'

theorem sortById_sorted (l : List (C04.Id × V)) : (sortById l).Pairwise (fun x y => x.1.toNat ≤ y.1.toNat) := by
  induction l with
  | nil => simp [sortById]
  | cons a l ih => exact insertById_sorted a ih

theorem nodup_of_keys {l : List (C04.Id × V)} (hn : (C01.AL.keys l).Nodup) : l.Nodup := by
  unfold C01.AL.keys at hn
  exact (List.pairwise_map.1 hn).imp (fun h e => h (by rw [e]))

/-- two stores with the same content (one entry per node id, same lookup) are permutations of each other -/
theorem perm_of_get_eq {l l' : List (C04.Id × V)} (hn : (C01.AL.keys l).Nodup) (hn' : (C01.AL.keys l').Nodup)
    (h : ∀ i, C01.AL.get l i = C01.AL.get l' i) : l.Perm l' := by
  rw [List.perm_ext_iff_of_nodup (nodup_of_keys hn) (nodup_of_keys hn')]
  rintro ⟨i, v⟩
  constructor
  · intro hm; exact C01.AL.mem_of_get (by rw [← h]; exact C01.AL.get_of_mem hn hm)
  · intro hm; exact C01.AL.mem_of_get (by rw [h]; exact C01.AL.get_of_mem hn' hm)

/-- … and are listed identically -/
theorem sortById_congr {l l' : List (C04.Id × V)} (hn : (C01.AL.keys l).Nodup) (hn' : (C01.AL.keys l').Nodup)
    (h : ∀ i, C01.AL.get l i = C01.AL.get l' i) : sortById l = sortById l' := by
  have hp : (sortById l).Perm (sortById l') :=
    (sortById_perm l).trans ((perm_of_get_eq hn hn' h).trans (sortById_perm l').symm)
  refine List.Perm.eq_of_pairwise ?_ (sortById_sorted l) (sortById_sorted l') hp
  intro a b ha hb hab hba
  have ha' : a ∈ l := (sortById_perm l).subset ha
  have hb' : b ∈ l' := (sortById_perm l').subset hb
  obtain ⟨i, v⟩ := a
  obtain ⟨j, w⟩ := b
  have hk : i = j := BitVec.eq_of_toNat_eq (Nat.le_antisymm hab hba)
  subst hk
  have e1 := C01.AL.get_of_mem hn ha'
  have e2 := C01.AL.get_of_mem hn' hb'
  rw [h, e2] at e1
  cases e1; rfl

/-! ### coherence: C08's `Coherent`, over the flat store of Compose -/

/-- **CacheCoherent** (C08 `Coherent`, lifted): the Go map has one entry per key; every cached item is live,
clean, and is what the committed store holds under its id; `isAllInCache` is truthful -/
structure FCoherent (c : FCache V) (store : List (C04.Id × V)) : Prop where
  nodup : C08.NodupKeys c.items
  agree : ∀ id e, C08.find c.items id = some e →
    e.isDeleted = false ∧ e.isDirty = false ∧ C01.AL.get store id = some e.value
  allIn : c.isAllInCache = true → ∀ id, (C01.AL.get store id).isSome → (C08.find c.items id).isSome

/-- the link to C08: whenever the flat store is what a bucket decodes to under a `Storable` (`readFrom` of the
bucket = lookup in the store), C08's invariant `Coherent` for that bucket IS `FCoherent` for the store -/
theorem FCoherent_of_C08 {st : C08.Storable C04.Id V} {ok : C04.Id → V → KV → Prop} {c : FCache V} {kv : KV}
    {store : List (C04.Id × V)} (hdec : ∀ id, st.readFrom id kv = C01.AL.get store id)
    (h : C08.Coherent st (fun v => v) ok c kv) : FCoherent c store := by
  refine ⟨h.nodup, fun id e hf => ?_, fun ha id hs => ?_⟩
  · obtain ⟨h1, h2, h3⟩ := h.agree id e hf
    refine ⟨h1, h2, ?_⟩
    simpa [C08.obs, hdec] using h3
  · exact h.allIn ha id (by rw [hdec]; exact hs)

theorem FCoherent_empty (store : List (C04.Id × V)) : FCoherent (C08.Cache.empty : FCache V) store :=
  ⟨by simp [C08.Cache.empty, C08.NodupKeys, C08.keysOf], by simp [C08.Cache.empty, C08.find],
    by simp [C08.Cache.empty]⟩

theorem filterMap_eq_self {α : Type} {f : α → Option α} {l : List α} (h : ∀ x ∈ l, f x = some x) : l.filterMap f = l := by
  induction l with
  | nil => rfl
  | cons a l ih =>
    rw [List.filterMap_cons, h a List.mem_cons_self]
    simp only
    rw [ih (fun x hx => h x (List.mem_cons_of_mem _ hx))]

/-- under the invariant the cache is invisible: reading through it enumerates exactly the committed store -/
theorem viewStore_coherent {c : FCache V} {store : List (C04.Id × V)} (h : FCoherent c store)
    (hn : (C01.AL.keys store).Nodup) : viewStore c store = store := by
  unfold viewStore
  have h1 : store.filterMap (viewItem c) = store := by
    apply filterMap_eq_self
    · rintro ⟨i, v⟩ hm
      have hg := C01.AL.get_of_mem hn hm
      unfold viewItem
      cases hf : C08.find c.items i with
      | some el =>
        obtain ⟨a1, _, a3⟩ := h.agree i el hf
        rw [hg] at a3
        cases a3
        simp [a1]
      | none =>
        cases ha : c.isAllInCache with
        | false => simp
        | true =>
          have := h.allIn ha i (by simp [hg])
          rw [hf] at this; cases this
  have h2 : ((C08.live c.items).filter fun e => (C01.AL.get store e.1).isNone) = [] := by
    rw [List.filter_eq_nil_iff]
    rintro ⟨i, v⟩ hm
    obtain ⟨el, hme, _, _⟩ := C08.mem_live.1 hm
    obtain ⟨_, _, a3⟩ := h.agree i el (C08.find_of_mem h.nodup hme)
    simp [a3]
  rw [h1, h2, List.append_nil]

/-! ### lookups in the cache manager -/

theorem get_dropCaches (cs : Caches V) (names : List (List String)) (q : List String) :
    C01.AL.get (dropCaches cs names) q = if names.contains q then none else C01.AL.get cs q := by
  induction cs with
  | nil => simp [dropCaches]
  | cons e r ih =>
    obtain ⟨a, b⟩ := e
    unfold dropCaches at ih ⊢
    rw [List.filter_cons]
    by_cases ha : names.contains a = true
    · simp only [ha, Bool.not_true, Bool.false_eq_true, if_false, ih, C01.AL.get_cons]
      by_cases h2 : a = q
      · subst h2; rw [if_pos ha, if_pos ha]
      · rw [if_neg h2]
    · simp only [ha, Bool.not_false, if_true, C01.AL.get_cons, ih]
      by_cases h2 : a = q
      · subst h2
        have ha' : a ∉ names := by simpa using ha
        simp [ha']
      · rw [if_neg h2, if_neg h2]

theorem contains_addWritten (w : List (List String)) (p q : List String) :
    (addWritten w p).contains q = (decide (p = q) || w.contains q) := by
  unfold addWritten
  by_cases hp : w.contains p = true
  · simp only [hp, if_true]
    by_cases hpq : p = q
    · subst hpq; rw [hp]; simp
    · simp [hpq]
  · simp only [hp, if_false, Bool.false_eq_true]
    by_cases hpq : p = q
    · subst hpq; simp
    · simp [List.contains_cons, hpq, Ne.symm hpq, eq_comm]

/-- **bookkeeping of `exec`, for EVERY program, fault and prefix**: a cache the transaction did not register in
`writtenCaches` is exactly as it was; registered names stay registered -/
theorem stepTx_frame (fault : Option Nat) (tgt : RState V T) (t : Tx V T) (st : TStep V) :
    (∀ q, (stepTx fault tgt t st).1.written.contains q = false →
      C01.AL.get (stepTx fault tgt t st).1.caches q = C01.AL.get t.caches q) ∧
    (∀ q, t.written.contains q = true → (stepTx fault tgt t st).1.written.contains q = true) := by
  have key : ∀ (p : List String) (c : FCache V),
      (∀ q, (addWritten t.written p).contains q = false → C01.AL.get (C01.AL.put t.caches p c) q = C01.AL.get t.caches q) ∧
      (∀ q, t.written.contains q = true → (addWritten t.written p).contains q = true) := by
    intro p c
    refine ⟨fun q hq => ?_, fun q hq => ?_⟩
    · rw [contains_addWritten] at hq
      have : p ≠ q := by intro e; subst e; simp at hq
      rw [C01.AL.get_put, if_neg this]
    · rw [contains_addWritten, hq]; simp
  cases st with
  | points => simp only [stepTx]; split <;> exact ⟨fun _ _ => rfl, fun _ h => h⟩
  | filters => simp only [stepTx]; split <;> exact ⟨fun _ _ => rfl, fun _ h => h⟩
  | texts => simp only [stepTx]; split <;> exact ⟨fun _ _ => rfl, fun _ h => h⟩
  | openFlat p =>
    simp only [stepTx]
    split
    · exact ⟨fun _ _ => rfl, fun _ h => h⟩
    · exact key p _
  | cacheSet p id v => exact key p _
  | cacheDel p id => exact key p _
  | flushFlat p => exact key p _

theorem exec_frame (fault : Option Nat) (tgt : RState V T) (prog : List (TStep V)) (t : Tx V T) :
    (∀ q, (exec fault tgt prog t).1.written.contains q = false →
      C01.AL.get (exec fault tgt prog t).1.caches q = C01.AL.get t.caches q) ∧
    (∀ q, t.written.contains q = true → (exec fault tgt prog t).1.written.contains q = true) := by
  induction prog generalizing t with
  | nil => exact ⟨fun _ _ => rfl, fun _ h => h⟩
  | cons st rest ih =>
    obtain ⟨s1, s2⟩ := stepTx_frame fault tgt t st
    simp only [exec]
    split
    · exact ⟨s1, s2⟩
    · obtain ⟨i1, i2⟩ := ih (stepTx fault tgt t st).1
      refine ⟨fun q hq => ?_, fun q hq => i2 q (s2 q hq)⟩
      rw [i1 q hq]
      apply s1
      cases hc : (stepTx fault tgt t st).1.written.contains q with
      | false => rfl
      | true => rw [i2 q hc] at hq; cases hq

/-! ### cache operations and `Flush`, on the overlay (C08 `view` / `Tracked` / `flush_spec`, over the flat store) -/

/-- what a transaction sees of `id` through the cache (C08 `view`) -/
def overlay (c : FCache V) (store : List (C04.Id × V)) (id : C04.Id) : Option V :=
  match C08.find c.items id with
  | some e => if e.isDeleted then none else some e.value
  | none => C01.AL.get store id

/-- inside a transaction (C08 `Tracked`): clean live entries agree with the bucket -/
structure Trk (c : FCache V) (store : List (C04.Id × V)) : Prop where
  nodup : C08.NodupKeys c.items
  clean : ∀ id e, C08.find c.items id = some e → e.isDeleted = false → e.isDirty = false →
    C01.AL.get store id = some e.value
  allIn : c.isAllInCache = true → ∀ id, (C01.AL.get store id).isSome → (C08.find c.items id).isSome

theorem FCoherent.trk {c : FCache V} {store : List (C04.Id × V)} (h : FCoherent c store) : Trk c store :=
  ⟨h.nodup, fun id e hf _ _ => (h.agree id e hf).2.2, h.allIn⟩

theorem FCoherent.overlay_eq {c : FCache V} {store : List (C04.Id × V)} (h : FCoherent c store) (i : C04.Id) :
    overlay c store i = C01.AL.get store i := by
  unfold overlay
  cases hf : C08.find c.items i with
  | none => rfl
  | some e =>
    obtain ⟨a1, _, a3⟩ := h.agree i e hf
    simp [a1, a3]

def applyCacheOp (store : List (C04.Id × V)) (c : FCache V) : FlatOp V → FCache V
  | .set id v => C08.put c id v
  | .del id => cacheDelete c store id

def applyStoreOp (st : List (C04.Id × V)) : FlatOp V → List (C04.Id × V)
  | .set id v => C01.AL.put st id v
  | .del id => C01.AL.del st id

/-- the operation on a plain map -/
def specOp (m : C04.Id → Option V) : FlatOp V → C04.Id → Option V
  | .set id v => fun i => if i = id then some v else m i
  | .del id => fun i => if i = id then none else m i

theorem trk_op {c : FCache V} {store : List (C04.Id × V)} (h : Trk c store) (o : FlatOp V) :
    Trk (applyCacheOp store c o) store ∧
    ∀ i, overlay (applyCacheOp store c o) store i = specOp (overlay c store) o i := by
  have hset : ∀ (id : C04.Id) (e : C08.Elem V), (e.isDeleted = true ∨ e.isDirty = true) →
      Trk { c with items := C08.set c.items id e } store := by
    intro id e he
    refine ⟨C08.nodup_set h.nodup id e, fun i e' hf hd hy => ?_, fun ha i hs => ?_⟩
    · rw [C08.find_set] at hf
      by_cases hi : i = id
      · rw [if_pos hi] at hf; cases hf
        rcases he with he | he
        · rw [he] at hd; cases hd
        · rw [he] at hy; cases hy
      · rw [if_neg hi] at hf; exact h.clean i e' hf hd hy
    · show (C08.find (C08.set c.items id e) i).isSome
      rw [C08.find_set]
      by_cases hi : i = id
      · simp [hi]
      · rw [if_neg hi]; exact h.allIn ha i hs
  have hov : ∀ (id : C04.Id) (e : C08.Elem V) (i : C04.Id),
      overlay { c with items := C08.set c.items id e } store i =
        if i = id then (if e.isDeleted then none else some e.value) else overlay c store i := by
    intro id e i
    unfold overlay
    simp only [C08.find_set]
    by_cases hi : i = id
    · simp [hi]
    · simp only [if_neg hi]
  cases o with
  | set id v =>
    refine ⟨hset id _ (Or.inr rfl), fun i => ?_⟩
    show overlay { c with items := C08.set c.items id _ } store i = _
    rw [hov]; unfold specOp
    by_cases hi : i = id
    · simp [hi]
    · simp only [if_neg hi]
  | del id =>
    have e0 : applyCacheOp store c (.del id) = cacheDelete c store id := rfl
    rw [e0]
    cases hf : C08.find c.items id with
    | some e =>
      have e1 : cacheDelete c store id = { c with items := C08.set c.items id { e with isDeleted := true } } := by
        unfold cacheDelete; rw [hf]
      rw [e1]
      refine ⟨hset id _ (Or.inl rfl), fun i => ?_⟩
      rw [hov]; unfold specOp
      by_cases hi : i = id
      · simp [hi]
      · simp only [if_neg hi]
    | none =>
      cases hg : C01.AL.get store id with
      | none =>
        have e1 : cacheDelete c store id = c := by
          unfold cacheDelete; rw [hf]; simp only; rw [hg]
        rw [e1]
        refine ⟨h, fun i => ?_⟩
        unfold specOp
        by_cases hi : i = id
        · subst hi; simp only [if_true]; unfold overlay; rw [hf]; exact hg
        · simp only [if_neg hi]
      | some v =>
        have e1 : cacheDelete c store id = { c with items := C08.set c.items id { value := v, isDeleted := true } } := by
          unfold cacheDelete; rw [hf]; simp only; rw [hg]
        rw [e1]
        refine ⟨hset id _ (Or.inl rfl), fun i => ?_⟩
        rw [hov]; unfold specOp
        by_cases hi : i = id
        · simp [hi]
        · simp only [if_neg hi]

theorem trk_ops {store : List (C04.Id × V)} (ops : List (FlatOp V)) {c : FCache V} (h : Trk c store) :
    Trk (ops.foldl (applyCacheOp store) c) store ∧
    ∀ i, overlay (ops.foldl (applyCacheOp store) c) store i = ops.foldl specOp (overlay c store) i := by
  induction ops generalizing c with
  | nil => exact ⟨h, fun _ => rfl⟩
  | cons o rest ih =>
    obtain ⟨h1, h2⟩ := trk_op h o
    obtain ⟨h3, h4⟩ := ih h1
    refine ⟨h3, fun i => ?_⟩
    simp only [List.foldl_cons]
    rw [h4 i]
    have : overlay (applyCacheOp store c o) store = specOp (overlay c store) o := funext h2
    rw [this]

theorem get_applyStoreOp (st : List (C04.Id × V)) (o : FlatOp V) (i : C04.Id) :
    C01.AL.get (applyStoreOp st o) i = specOp (C01.AL.get st) o i := by
  cases o with
  | set id v =>
    show C01.AL.get (C01.AL.put st id v) i = if i = id then some v else C01.AL.get st i
    rw [C01.AL.get_put]
    by_cases hi : i = id
    · simp [hi]
    · rw [if_neg hi, if_neg (fun e => hi e.symm)]
  | del id =>
    show C01.AL.get (C01.AL.del st id) i = if i = id then none else C01.AL.get st i
    rw [C01.AL.get_del]
    by_cases hi : i = id
    · simp [hi]
    · rw [if_neg hi, if_neg (fun e => hi e.symm)]

theorem get_applyStoreOps (ops : List (FlatOp V)) (st : List (C04.Id × V)) (i : C04.Id) :
    C01.AL.get (ops.foldl applyStoreOp st) i = ops.foldl specOp (C01.AL.get st) i := by
  induction ops generalizing st with
  | nil => rfl
  | cons o rest ih =>
    simp only [List.foldl_cons]
    rw [ih]
    have : C01.AL.get (applyStoreOp st o) = specOp (C01.AL.get st) o := funext (get_applyStoreOp st o)
    rw [this]

theorem nodup_applyStoreOps (ops : List (FlatOp V)) {st : List (C04.Id × V)} (hn : (C01.AL.keys st).Nodup) :
    (C01.AL.keys (ops.foldl applyStoreOp st)).Nodup := by
  induction ops generalizing st with
  | nil => exact hn
  | cons o rest ih =>
    simp only [List.foldl_cons]
    apply ih
    cases o with
    | set id v => exact C01.AL.nodup_put hn _ _
    | del id => exact C01.AL.nodup_del hn _

/-- what `Flush` leaves in the cache: deleted entries forgotten, dirty flags cleared -/
def cleaned : List (C04.Id × C08.Elem V) → List (C04.Id × C08.Elem V)
  | [] => []
  | (id, e) :: rest => if e.isDeleted then cleaned rest else (id, { e with isDirty := false }) :: cleaned rest

/-- what `Flush` writes: `DeleteFrom` for deleted entries, `WriteTo` for dirty ones -/
def flushStore : List (C04.Id × C08.Elem V) → List (C04.Id × V) → List (C04.Id × V)
  | [], st => st
  | (id, e) :: rest, st =>
    if e.isDeleted then flushStore rest (C01.AL.del st id)
    else if e.isDirty then flushStore rest (C01.AL.put st id e.value) else flushStore rest st

/-- a `Flush` in which no write failed is the pure `cleaned` / `flushStore` -/
theorem flushGo_ok (fault : Option Nat) : ∀ (items kept : List (C04.Id × C08.Elem V)) (st : List (C04.Id × V)) (n : Nat),
    (flushGo fault items kept st n).2.2.2 = false →
    (flushGo fault items kept st n).1 = kept ++ cleaned items ∧ (flushGo fault items kept st n).2.1 = flushStore items st := by
  intro items
  induction items with
  | nil => intro kept st n _; simp [flushGo, cleaned, flushStore]
  | cons p rest ih =>
    obtain ⟨id, e⟩ := p
    intro kept st n hok
    unfold flushGo at hok ⊢
    unfold cleaned flushStore
    by_cases hd : e.isDeleted = true
    · simp only [hd, if_true] at hok ⊢
      by_cases hf : fault = some n
      · simp [hf] at hok
      · simp only [hf, if_false] at hok ⊢
        exact ih kept _ _ hok
    · simp only [hd, if_false, Bool.false_eq_true] at hok ⊢
      by_cases hy : e.isDirty = true
      · simp only [hy, if_true] at hok ⊢
        by_cases hf : fault = some n
        · simp [hf] at hok
        · simp only [hf, if_false] at hok ⊢
          obtain ⟨i1, i2⟩ := ih _ _ _ hok
          exact ⟨by rw [i1]; simp, i2⟩
      · simp only [hy, if_false, Bool.false_eq_true] at hok ⊢
        obtain ⟨i1, i2⟩ := ih _ _ _ hok
        refine ⟨?_, i2⟩
        rw [i1]
        have : ({ value := e.value } : C08.Elem V) = e := by
          cases e; simp_all
        rw [this]; simp

theorem find_cons (k : C04.Id) (e : C08.Elem V) (rest : List (C04.Id × C08.Elem V)) (j : C04.Id) :
    C08.find ((k, e) :: rest) j = if k = j then some e else C08.find rest j := rfl

theorem get_flushStore : ∀ (items : List (C04.Id × C08.Elem V)), C08.NodupKeys items → ∀ (st : List (C04.Id × V)) (j : C04.Id),
    C01.AL.get (flushStore items st) j =
      match C08.find items j with
      | some e => if e.isDeleted then none else if e.isDirty then some e.value else C01.AL.get st j
      | none => C01.AL.get st j := by
  intro items
  induction items with
  | nil => intro _ st j; rfl
  | cons p rest ih =>
    obtain ⟨id, e⟩ := p
    intro hn st j
    have hn' := List.nodup_cons.1 hn
    have hrest : C08.find rest id = none := (C08.find_eq_none_iff rest id).2 hn'.1
    rw [find_cons]
    unfold flushStore
    by_cases hj : id = j
    · subst hj
      simp only [if_true]
      by_cases hd : e.isDeleted = true
      · simp only [hd, if_true]; rw [ih hn'.2, hrest]; simp [C01.AL.get_del]
      · simp only [hd, if_false, Bool.false_eq_true]
        by_cases hy : e.isDirty = true
        · simp only [hy, if_true]; rw [ih hn'.2, hrest]; simp [C01.AL.get_put]
        · simp only [hy, if_false, Bool.false_eq_true]; rw [ih hn'.2, hrest]
    · simp only [if_neg hj]
      by_cases hd : e.isDeleted = true
      · simp only [hd, if_true]; rw [ih hn'.2]; simp only [C01.AL.get_del, if_neg hj]
      · simp only [hd, if_false, Bool.false_eq_true]
        by_cases hy : e.isDirty = true
        · simp only [hy, if_true]; rw [ih hn'.2]; simp only [C01.AL.get_put, if_neg hj]
        · simp only [hy, if_false, Bool.false_eq_true]; rw [ih hn'.2]

theorem nodup_flushStore : ∀ (items : List (C04.Id × C08.Elem V)) {st : List (C04.Id × V)},
    (C01.AL.keys st).Nodup → (C01.AL.keys (flushStore items st)).Nodup := by
  intro items
  induction items with
  | nil => intro st h; exact h
  | cons p rest ih =>
    obtain ⟨id, e⟩ := p
    intro st h
    unfold flushStore
    split
    · exact ih (C01.AL.nodup_del h _)
    · split
      · exact ih (C01.AL.nodup_put h _ _)
      · exact ih h

theorem keysOf_cleaned_sublist : ∀ (items : List (C04.Id × C08.Elem V)),
    (C08.keysOf (cleaned items)).Sublist (C08.keysOf items) := by
  intro items
  induction items with
  | nil => exact List.Sublist.refl _
  | cons p rest ih =>
    obtain ⟨id, e⟩ := p
    unfold cleaned
    split
    · exact List.Sublist.cons _ ih
    · exact List.Sublist.cons_cons _ ih

theorem find_cleaned : ∀ (items : List (C04.Id × C08.Elem V)), C08.NodupKeys items → ∀ (j : C04.Id),
    C08.find (cleaned items) j =
      match C08.find items j with
      | some e => if e.isDeleted then none else some { e with isDirty := false }
      | none => none := by
  intro items
  induction items with
  | nil => intro _ j; rfl
  | cons p rest ih =>
    obtain ⟨id, e⟩ := p
    intro hn j
    have hn' := List.nodup_cons.1 hn
    have hrest : C08.find rest id = none := (C08.find_eq_none_iff rest id).2 hn'.1
    rw [find_cons]
    unfold cleaned
    by_cases hd : e.isDeleted = true
    · simp only [hd, if_true]
      rw [ih hn'.2]
      by_cases hj : id = j
      · subst hj; simp [hrest, hd]
      · simp only [if_neg hj]
    · simp only [hd, if_false, Bool.false_eq_true]
      rw [find_cons]
      by_cases hj : id = j
      · simp [hj, hd]
      · simp only [if_neg hj]; exact ih hn'.2 j

/-- **`Flush`** (C08 `C08_flush`, over the flat store): the bucket afterwards says exactly what the transaction
saw through the cache, and the cache left behind is coherent with it -/
theorem flush_spec {c : FCache V} {st : List (C04.Id × V)} (h : Trk c st) :
    FCoherent { c with items := cleaned c.items } (flushStore c.items st) ∧
    ∀ i, C01.AL.get (flushStore c.items st) i = overlay c st i := by
  have hget : ∀ i, C01.AL.get (flushStore c.items st) i = overlay c st i := by
    intro i
    rw [get_flushStore c.items h.nodup]
    unfold overlay
    cases hf : C08.find c.items i with
    | none => rfl
    | some e =>
      by_cases hd : e.isDeleted = true
      · simp [hd]
      · by_cases hy : e.isDirty = true
        · simp [hd, hy]
        · simp only [hd, hy, if_false, Bool.false_eq_true]
          exact h.clean i e hf (by simpa using hd) (by simpa using hy)
  refine ⟨⟨(keysOf_cleaned_sublist c.items).nodup h.nodup, fun id e' hf => ?_, fun ha id hs => ?_⟩, hget⟩
  · have hf' : C08.find (cleaned c.items) id = some e' := hf
    rw [find_cleaned c.items h.nodup] at hf'
    cases hfi : C08.find c.items id with
    | none => rw [hfi] at hf'; cases hf'
    | some e =>
      rw [hfi] at hf'
      by_cases hd : e.isDeleted = true
      · simp [hd] at hf'
      · simp only [hd, if_false, Bool.false_eq_true, Option.some.injEq] at hf'
        subst hf'
        refine ⟨by simp [hd], rfl, ?_⟩
        rw [hget]; unfold overlay; rw [hfi]; simp [hd]
  · show (C08.find (cleaned c.items) id).isSome
    rw [find_cleaned c.items h.nodup]
    rw [hget] at hs
    unfold overlay at hs
    cases hfi : C08.find c.items id with
    | none =>
      rw [hfi] at hs
      have := h.allIn ha id hs
      rw [hfi] at this; cases this
    | some e =>
      rw [hfi] at hs
      by_cases hd : e.isDeleted = true
      · simp [hd] at hs
      · simp [hd]

/-! ### running the steps of a batch in which no storage operation failed -/

theorem exec_append (fault : Option Nat) (tgt : RState V T) (l1 l2 : List (TStep V)) (t : Tx V T) :
    exec fault tgt (l1 ++ l2) t =
      if (exec fault tgt l1 t).2 then exec fault tgt l1 t else exec fault tgt l2 (exec fault tgt l1 t).1 := by
  induction l1 generalizing t with
  | nil => simp [exec]
  | cons st rest ih =>
    simp only [List.cons_append, exec]
    by_cases hr : (stepTx fault tgt t st).2 = true
    · simp [hr]
    · simp only [hr, if_false]; exact ih _

theorem exec_append_ok {fault : Option Nat} {tgt : RState V T} {l1 l2 : List (TStep V)} {t : Tx V T}
    (h : (exec fault tgt (l1 ++ l2) t).2 = false) :
    (exec fault tgt l1 t).2 = false ∧ exec fault tgt (l1 ++ l2) t = exec fault tgt l2 (exec fault tgt l1 t).1 := by
  rw [exec_append] at h ⊢
  cases h1 : (exec fault tgt l1 t).2 with
  | true => rw [h1] at h; simp at h; rw [h1] at h; cases h
  | false => simp

def paths (rs : RState V T) : List (List String) := rs.flats.map (·.path)

/-- the operations a batch sends to the flat index `p` -/
def opsOf (env : Env V T D S W) (p : List String) (pcs : List C02.PChange) : List (FlatOp V) := pcs.filterMap (flatOp env p)

/-- the cache of a flat index after the cache operations of the batch (before `Flush`) -/
def cacheMid (env : Env V T D S W) (p : List String) (pcs : List C02.PChange) (c0 : FCache V) (st0 : List (C04.Id × V)) : FCache V :=
  (opsOf env p pcs).foldl (applyCacheOp st0) c0

def cacheAfter (env : Env V T D S W) (p : List String) (pcs : List C02.PChange) (c0 : FCache V) (st0 : List (C04.Id × V)) : FCache V :=
  { cacheMid env p pcs c0 st0 with items := cleaned (cacheMid env p pcs c0 st0).items }

def storeAfter (env : Env V T D S W) (p : List String) (pcs : List C02.PChange) (c0 : FCache V) (st0 : List (C04.Id × V)) :
    List (C04.Id × V) :=
  flushStore (cacheMid env p pcs c0 st0).items st0

theorem cacheOr_put (cs : Caches V) (p : List String) (c : FCache V) : cacheOr (C01.AL.put cs p c) p = c := by
  unfold cacheOr; rw [C01.AL.get_put]; simp

theorem get_put_ne (cs : Caches V) (p q : List String) (c : FCache V) (h : q ≠ p) :
    C01.AL.get (C01.AL.put cs p c) q = C01.AL.get cs q := by
  rw [C01.AL.get_put, if_neg (fun e => h e.symm)]

theorem exec_cacheops (fault : Option Nat) (tgt : RState V T) (p : List String) : ∀ (ops : List (FlatOp V)) (t : Tx V T),
    (exec fault tgt (ops.map (FlatOp.toStep p)) t).2 = false ∧
    (exec fault tgt (ops.map (FlatOp.toStep p)) t).1.rs = t.rs ∧
    (exec fault tgt (ops.map (FlatOp.toStep p)) t).1.n = t.n ∧
    (∀ q, q ≠ p → C01.AL.get (exec fault tgt (ops.map (FlatOp.toStep p)) t).1.caches q = C01.AL.get t.caches q) ∧
    cacheOr (exec fault tgt (ops.map (FlatOp.toStep p)) t).1.caches p =
      ops.foldl (applyCacheOp (storeOf t.rs p)) (cacheOr t.caches p) := by
  intro ops
  induction ops with
  | nil => intro t; exact ⟨rfl, rfl, rfl, fun _ _ => rfl, rfl⟩
  | cons o rest ih =>
    intro t
    have hstep : stepTx fault tgt t (FlatOp.toStep p o) =
        (setCache t p (applyCacheOp (storeOf t.rs p) (cacheOr t.caches p) o), false) := by
      cases o <;> rfl
    simp only [List.map_cons, exec, hstep, Bool.false_eq_true, if_false]
    obtain ⟨i1, i2, i3, i4, i5⟩ := ih (setCache t p (applyCacheOp (storeOf t.rs p) (cacheOr t.caches p) o))
    refine ⟨i1, by rw [i2]; rfl, by rw [i3]; rfl, fun q hq => ?_, ?_⟩
    · rw [i4 q hq]; exact get_put_ne _ _ _ _ hq
    · rw [i5]
      show List.foldl _ (cacheOr (C01.AL.put t.caches p _) p) rest = _
      rw [cacheOr_put]; rfl

/-- one flat index, no failed operation: nothing happens when the batch does not concern it; otherwise its
bucket receives `storeAfter`, the manager holds `cacheAfter` under its name, nothing else changes -/
theorem exec_flatSteps (fault : Option Nat) (tgt : RState V T) (env : Env V T D S W) (p : List String) (pcs : List C02.PChange)
    (t : Tx V T) (hok : (exec fault tgt (flatSteps env p pcs) t).2 = false) :
    ((opsOf env p pcs).isEmpty = true → (exec fault tgt (flatSteps env p pcs) t).1 = t) ∧
    ((opsOf env p pcs).isEmpty = false →
      (exec fault tgt (flatSteps env p pcs) t).1.rs =
        setStore t.rs p (storeAfter env p pcs (cacheOr t.caches p) (storeOf t.rs p)) ∧
      (∀ q, q ≠ p → C01.AL.get (exec fault tgt (flatSteps env p pcs) t).1.caches q = C01.AL.get t.caches q) ∧
      C01.AL.get (exec fault tgt (flatSteps env p pcs) t).1.caches p =
        some (cacheAfter env p pcs (cacheOr t.caches p) (storeOf t.rs p))) := by
  have hfs : flatSteps env p pcs = if (opsOf env p pcs).isEmpty then []
      else .openFlat p :: ((opsOf env p pcs).map (FlatOp.toStep p) ++ [.flushFlat p]) := by
    unfold flatSteps opsOf; rfl
  refine ⟨fun he => ?_, fun he => ?_⟩
  · rw [hfs, he]; rfl
  · rw [hfs, he] at hok ⊢
    simp only [Bool.false_eq_true, if_false] at hok ⊢
    -- openFlat
    have hnf : fault ≠ some t.n := by
      intro hf
      simp [exec, stepTx, hf] at hok
    have hopen : stepTx fault tgt t (.openFlat p) = ({ touch t p with n := t.n + 1 }, false) := by
      simp [stepTx, hnf]
    simp only [exec, hopen, Bool.false_eq_true, if_false] at hok ⊢
    generalize ht1 : ({ touch t p with n := t.n + 1 } : Tx V T) = t1 at hok ⊢
    have t1rs : t1.rs = t.rs := by rw [← ht1]; rfl
    have t1c : cacheOr t1.caches p = cacheOr t.caches p := by
      rw [← ht1]; show cacheOr (C01.AL.put t.caches p (cacheOr t.caches p)) p = _; rw [cacheOr_put]
    have t1q : ∀ q, q ≠ p → C01.AL.get t1.caches q = C01.AL.get t.caches q := by
      intro q hq; rw [← ht1]; exact get_put_ne _ _ _ _ hq
    obtain ⟨_, hseq⟩ := exec_append_ok hok
    rw [hseq] at hok ⊢
    obtain ⟨_, o2, o3, o4, o5⟩ := exec_cacheops fault tgt p (opsOf env p pcs) t1
    generalize ht2 : (exec fault tgt ((opsOf env p pcs).map (FlatOp.toStep p)) t1).1 = t2 at hok o2 o3 o4 o5 ⊢
    rw [t1rs] at o2 o5
    rw [t1c] at o5
    -- flush
    simp only [exec, stepTx] at hok ⊢
    have hflag : (flushGo fault (cacheOr t2.caches p).items [] (storeOf t2.rs p) t2.n).2.2.2 = false := by
      cases hfl : (flushGo fault (cacheOr t2.caches p).items [] (storeOf t2.rs p) t2.n).2.2.2 with
      | false => rfl
      | true => simp [hfl] at hok
    obtain ⟨f1, f2⟩ := flushGo_ok fault _ _ _ _ hflag
    simp only [hflag, Bool.false_eq_true, if_false]
    rw [f1, f2, o2, o5]
    refine ⟨rfl, fun q hq => ?_, ?_⟩
    · show C01.AL.get (C01.AL.put t2.caches p _) q = _
      rw [get_put_ne _ _ _ _ hq, o4 q hq, t1q q hq]
    · show C01.AL.get (C01.AL.put t2.caches p _) p = _
      rw [C01.AL.get_put]; simp [cacheAfter, cacheMid]

/-! ### all flat indexes of the shard -/

def storeOfL (F : List (FlatIx V)) (q : List String) : List (C04.Id × V) :=
  match F.find? (fun fx => fx.path == q) with
  | some fx => fx.store
  | none => []

theorem storeOf_eq (rs : RState V T) (q : List String) : storeOf rs q = storeOfL rs.flats q := rfl

theorem storeOfL_cons (fx : FlatIx V) (F : List (FlatIx V)) (q : List String) :
    storeOfL (fx :: F) q = if fx.path = q then fx.store else storeOfL F q := by
  unfold storeOfL
  rw [List.find?_cons]
  by_cases h : fx.path = q
  · simp [h]
  · have : (fx.path == q) = false := by simpa using h
    simp [this, h]

theorem storeOfL_upd (F : List (FlatIx V)) (p : List String) (st : List (C04.Id × V)) (q : List String) :
    storeOfL (F.map fun fx => if fx.path == p then { fx with store := st } else fx) q =
      if q = p ∧ p ∈ F.map (·.path) then st else storeOfL F q := by
  induction F with
  | nil => simp [storeOfL]
  | cons fx F' ih =>
    rw [List.map_cons, storeOfL_cons, storeOfL_cons, ih]
    by_cases hp : fx.path = p
    · have e : (fx.path == p) = true := by simpa using hp
      simp only [e, if_true]
      subst hp
      by_cases hq : q = fx.path
      · subst hq; simp
      · have : ¬ fx.path = q := fun h => hq h.symm
        simp [hq, this]
    · have e : (fx.path == p) = false := by simpa using hp
      simp only [e, Bool.false_eq_true, if_false]
      by_cases hfq : fx.path = q
      · have : ¬ q = p := fun h => hp (hfq ▸ h)
        simp [hfq, this]
      · simp only [if_neg hfq, List.map_cons, List.mem_cons]
        have : (p = fx.path ∨ p ∈ F'.map (·.path)) ↔ p ∈ F'.map (·.path) :=
          ⟨fun h => h.resolve_left (fun h' => hp h'.symm), Or.inr⟩
        simp only [this]

theorem storeOf_setStore (rs : RState V T) (p : List String) (st : List (C04.Id × V)) (q : List String) :
    storeOf (setStore rs p st) q = if q = p ∧ p ∈ paths rs then st else storeOf rs q :=
  storeOfL_upd rs.flats p st q

theorem paths_setStore (rs : RState V T) (p : List String) (st : List (C04.Id × V)) : paths (setStore rs p st) = paths rs := by
  unfold paths setStore
  simp only [List.map_map]
  apply List.map_congr_left
  intro fx _
  show (if (fx.path == p) = true then ({ fx with store := st } : FlatIx V) else fx).path = fx.path
  split <;> rfl

theorem cacheOr_congr {cs cs' : Caches V} {q : List String} (h : C01.AL.get cs q = C01.AL.get cs' q) : cacheOr cs q = cacheOr cs' q := by
  unfold cacheOr; rw [h]

/-- every flat index of the list `L` (pairwise different names), no failed operation: the point store, the
filter and text indexes are not touched; a flat index the batch concerns ends with `storeAfter` in its bucket and
`cacheAfter` in the manager; every other bucket and cache is as before -/
theorem exec_flats (fault : Option Nat) (tgt : RState V T) (env : Env V T D S W) (pcs : List C02.PChange) :
    ∀ (L : List (List String)), L.Nodup → ∀ (t : Tx V T),
    (exec fault tgt (L.flatMap fun p => flatSteps env p pcs) t).2 = false →
    (exec fault tgt (L.flatMap fun p => flatSteps env p pcs) t).1.rs.base = t.rs.base ∧
    (exec fault tgt (L.flatMap fun p => flatSteps env p pcs) t).1.rs.texts = t.rs.texts ∧
    paths (exec fault tgt (L.flatMap fun p => flatSteps env p pcs) t).1.rs = paths t.rs ∧
    (∀ q, q ∈ L → q ∈ paths t.rs → (opsOf env q pcs).isEmpty = false →
      storeOf (exec fault tgt (L.flatMap fun p => flatSteps env p pcs) t).1.rs q =
        storeAfter env q pcs (cacheOr t.caches q) (storeOf t.rs q)) ∧
    (∀ q, ¬(q ∈ L ∧ q ∈ paths t.rs ∧ (opsOf env q pcs).isEmpty = false) →
      storeOf (exec fault tgt (L.flatMap fun p => flatSteps env p pcs) t).1.rs q = storeOf t.rs q) ∧
    (∀ q, q ∈ L → (opsOf env q pcs).isEmpty = false →
      C01.AL.get (exec fault tgt (L.flatMap fun p => flatSteps env p pcs) t).1.caches q =
        some (cacheAfter env q pcs (cacheOr t.caches q) (storeOf t.rs q))) ∧
    (∀ q, ¬(q ∈ L ∧ (opsOf env q pcs).isEmpty = false) →
      C01.AL.get (exec fault tgt (L.flatMap fun p => flatSteps env p pcs) t).1.caches q = C01.AL.get t.caches q) := by
  intro L
  induction L with
  | nil =>
    intro _ t _
    exact ⟨rfl, rfl, rfl, fun q hq => absurd hq List.not_mem_nil, fun _ _ => rfl, fun q hq => absurd hq List.not_mem_nil, fun _ _ => rfl⟩
  | cons p L' ih =>
    intro hL t hok
    have hL' := List.nodup_cons.1 hL
    rw [List.flatMap_cons] at hok ⊢
    obtain ⟨h1, hseq⟩ := exec_append_ok hok
    rw [hseq] at hok ⊢
    obtain ⟨hE, hNE⟩ := exec_flatSteps fault tgt env p pcs t h1
    generalize ht1 : (exec fault tgt (flatSteps env p pcs) t).1 = t1 at hok hE hNE ⊢
    -- facts about t1
    have a1 : t1.rs.base = t.rs.base ∧ t1.rs.texts = t.rs.texts ∧ paths t1.rs = paths t.rs := by
      cases he : (opsOf env p pcs).isEmpty with
      | true => rw [hE he]; exact ⟨rfl, rfl, rfl⟩
      | false => rw [(hNE he).1]; exact ⟨rfl, rfl, paths_setStore _ _ _⟩
    have b1 : ∀ q, q ≠ p → storeOf t1.rs q = storeOf t.rs q ∧ C01.AL.get t1.caches q = C01.AL.get t.caches q := by
      intro q hq
      cases he : (opsOf env p pcs).isEmpty with
      | true => rw [hE he]; exact ⟨rfl, rfl⟩
      | false =>
        refine ⟨?_, (hNE he).2.1 q hq⟩
        rw [(hNE he).1, storeOf_setStore, if_neg (fun h => hq h.1)]
    obtain ⟨i1, i2, i3, i4, i5, i6, i7⟩ := ih hL'.2 t1 hok
    refine ⟨i1.trans a1.1, i2.trans a1.2.1, i3.trans a1.2.2, fun q hq hqp he => ?_, fun q hn => ?_, fun q hq he => ?_, fun q hn => ?_⟩
    · by_cases hqe : q = p
      · subst hqe
        rw [i5 q (fun h => hL'.1 h.1), (hNE he).1, storeOf_setStore, if_pos ⟨rfl, hqp⟩]
      · have hq' : q ∈ L' := (List.mem_cons.1 hq).resolve_left hqe
        rw [i4 q hq' (a1.2.2 ▸ hqp) he, cacheOr_congr (b1 q hqe).2, (b1 q hqe).1]
    · by_cases hqe : q = p
      · subst hqe
        rw [i5 q (fun h => hL'.1 h.1)]
        cases he : (opsOf env q pcs).isEmpty with
        | true => rw [hE he]
        | false =>
          rw [(hNE he).1, storeOf_setStore]
          have : ¬ (q = q ∧ q ∈ paths t.rs) := fun h => hn ⟨List.mem_cons_self, h.2, he⟩
          rw [if_neg this]
      · rw [i5 q (fun h => hn ⟨List.mem_cons_of_mem _ h.1, a1.2.2 ▸ h.2.1, h.2.2⟩), (b1 q hqe).1]
    · by_cases hqe : q = p
      · subst hqe
        rw [i7 q (fun h => hL'.1 h.1), (hNE he).2.2]
      · have hq' : q ∈ L' := (List.mem_cons.1 hq).resolve_left hqe
        rw [i6 q hq' he, cacheOr_congr (b1 q hqe).2, (b1 q hqe).1]
    · by_cases hqe : q = p
      · subst hqe
        rw [i7 q (fun h => hL'.1 h.1)]
        cases he : (opsOf env q pcs).isEmpty with
        | true => rw [hE he]
        | false => exact absurd ⟨List.mem_cons_self, he⟩ hn
      · rw [i7 q (fun h => hn ⟨List.mem_cons_of_mem _ h.1, h.2⟩), (b1 q hqe).2]

end Sema.C07.Obs
