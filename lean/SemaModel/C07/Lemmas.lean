/- helper lemmas for C07 (core only) -/
import SemaModel.C07.Model
namespace Sema.C07
open Sema

theorem lookup_setCache (cs : Caches) (name : String) (v : CacheVal) (n : String) :
    lookupCache (setCache cs name v) n = if name = n then some v else lookupCache cs n := by
  induction cs with
  | nil => simp [setCache, lookupCache]
  | cons e rest ih =>
    simp only [setCache]
    split
    · rename_i h
      have h : e.1 = name := eq_of_beq h
      simp only [lookupCache]
      by_cases h2 : name = n
      · simp [h2]
      · have h3 : ¬ e.1 = n := by rw [h]; exact h2
        simp [h2, h3]
    · rename_i h
      have h : ¬ e.1 = name := by simpa using h
      simp only [lookupCache]
      by_cases h3 : e.1 = n
      · have h2 : ¬ name = n := fun hh => h (h3.trans hh.symm)
        simp [h3, h2]
      · simp [h3, ih]

theorem lookup_dropCaches (cs : Caches) (names : List String) (n : String) :
    lookupCache (dropCaches cs names) n = if names.contains n then none else lookupCache cs n := by
  induction cs with
  | nil => simp [dropCaches, lookupCache]
  | cons e rest ih =>
    unfold dropCaches at ih ⊢
    simp only [List.filter]
    cases hc : names.contains e.1
    · have hm : ¬ e.1 ∈ names := by simpa using hc
      simp only [Bool.not_false, lookupCache]
      by_cases hn : e.1 = n
      · subst hn; simp [hm]
      · simp only [hn, beq_iff_eq, if_false]; exact ih
    · have hm : e.1 ∈ names := by simpa using hc
      simp only [Bool.not_true, lookupCache]
      rw [ih]
      by_cases hn : e.1 = n
      · subst hn; simp [hm]
      · simp [hn]

theorem addWritten_self (w : List String) (name : String) : (addWritten w name).contains name = true := by
  unfold addWritten
  cases h : w.contains name
  · simp
  · simpa using h

theorem addWritten_mono (w : List String) (name n : String) :
    w.contains n = true → (addWritten w name).contains n = true := by
  intro h
  have hm : n ∈ w := by simpa using h
  unfold addWritten
  cases hw : w.contains name
  · simp [hm]
  · simpa using h

theorem addWritten_sound (w : List String) (name n : String) :
    (addWritten w name).contains n = true → w.contains n = true ∨ name = n := by
  unfold addWritten
  cases hw : w.contains name
  · intro h
    have h' : n = name ∨ n ∈ w := by simpa using h
    rcases h' with h' | h'
    · right; exact h'.symm
    · left; simpa using h'
  · intro h; left; simpa using h

/-- names write-locked so far stay write-locked -/
theorem exec_written_mono (fault : Option Nat) (p : Prog) (t : Tx) (n : String) :
    t.written.contains n = true → (exec fault p t).1.written.contains n = true := by
  induction p generalizing t with
  | nil => simp [exec]
  | cons st rest ih =>
    intro h
    cases st with
    | op o =>
      unfold exec
      by_cases hf : fault = some t.n
      · simpa [hf] using h
      · simp only [hf, if_false]; exact ih _ h
    | check r ok => unfold exec; cases ok <;> simp_all
    | index ok => unfold exec; cases ok <;> simp_all
    | cache name v =>
      unfold exec
      exact ih _ (addWritten_mono _ _ _ h)

/-- a cache the transaction has not write-locked is exactly as it was -/
theorem exec_caches_untouched (fault : Option Nat) (p : Prog) (t : Tx) (n : String) :
    (exec fault p t).1.written.contains n = false →
    lookupCache (exec fault p t).1.caches n = lookupCache t.caches n := by
  induction p generalizing t with
  | nil => simp [exec]
  | cons st rest ih =>
    intro h
    cases st with
    | op o =>
      unfold exec at h ⊢
      by_cases hf : fault = some t.n
      · simp [hf]
      · simp only [hf, if_false] at h ⊢; exact ih _ h
    | check r ok => unfold exec at h ⊢; cases ok <;> simp_all
    | index ok => unfold exec at h ⊢; cases ok <;> simp_all
    | cache name v =>
      unfold exec at h ⊢
      rw [ih _ h]
      simp only [lookup_setCache]
      have hne : name ≠ n := by
        intro heq
        subst heq
        have := exec_written_mono fault rest
          { disk := t.disk, caches := setCache t.caches name v, written := addWritten t.written name, n := t.n }
          name (addWritten_self _ _)
        rw [this] at h
        exact absurd h (by simp)
      simp [hne]

/-- on success the transaction's disk is the pre-state with every storage call applied -/
theorem exec_ok_disk (fault : Option Nat) (p : Prog) (t : Tx) :
    (exec fault p t).2 = none → (exec fault p t).1.disk = (opsOf p).foldl Op.apply t.disk := by
  induction p generalizing t with
  | nil => simp [exec, opsOf]
  | cons st rest ih =>
    intro h
    cases st with
    | op o =>
      unfold exec at h ⊢
      by_cases hf : fault = some t.n
      · simp [hf] at h
      · simp only [hf, if_false] at h ⊢
        rw [ih _ h]; simp [opsOf]
    | check r ok => unfold exec at h ⊢; cases ok <;> simp_all [opsOf]
    | index ok => unfold exec at h ⊢; cases ok <;> simp_all [opsOf]
    | cache name v => unfold exec at h ⊢; rw [ih _ h]; simp [opsOf]

/-- on success the call counter has advanced by the number of storage calls of the program -/
theorem exec_ok_n (fault : Option Nat) (p : Prog) (t : Tx) :
    (exec fault p t).2 = none → (exec fault p t).1.n = t.n + (opsOf p).length := by
  induction p generalizing t with
  | nil => simp [exec, opsOf]
  | cons st rest ih =>
    intro h
    cases st with
    | op o =>
      unfold exec at h ⊢
      by_cases hf : fault = some t.n
      · simp [hf] at h
      · simp only [hf, if_false] at h ⊢
        rw [ih _ h]; simp [opsOf]; omega
    | check r ok => unfold exec at h ⊢; cases ok <;> simp_all [opsOf]
    | index ok => unfold exec at h ⊢; cases ok <;> simp_all [opsOf]
    | cache name v => unfold exec at h ⊢; rw [ih _ h]; simp [opsOf]

/-- on success the caches are the pre-state caches with every cache write applied -/
theorem exec_ok_caches (fault : Option Nat) (p : Prog) (t : Tx) :
    (exec fault p t).2 = none →
    (exec fault p t).1.caches = (cacheWritesOf p).foldl (fun cs e => setCache cs e.1 e.2) t.caches := by
  induction p generalizing t with
  | nil => simp [exec, cacheWritesOf]
  | cons st rest ih =>
    intro h
    cases st with
    | op o =>
      unfold exec at h ⊢
      by_cases hf : fault = some t.n
      · simp [hf] at h
      · simp only [hf, if_false] at h ⊢
        rw [ih _ h]; simp [cacheWritesOf]
    | check r ok => unfold exec at h ⊢; cases ok <;> simp_all [cacheWritesOf]
    | index ok => unfold exec at h ⊢; cases ok <;> simp_all [cacheWritesOf]
    | cache name v => unfold exec at h ⊢; rw [ih _ h]; simp [cacheWritesOf]

/-- a fault position inside the program makes the program fail -/
theorem exec_fault_errors (k : Nat) (p : Prog) (t : Tx) :
    t.n ≤ k → k < t.n + (opsOf p).length → (exec (some k) p t).2 ≠ none := by
  induction p generalizing t with
  | nil => intro h1 h2; simp [opsOf] at h2; omega
  | cons st rest ih =>
    intro h1 h2
    cases st with
    | op o =>
      unfold exec
      by_cases hf : k = t.n
      · simp [hf]
      · have hf' : ¬ (some k = some t.n) := by simpa using hf
        simp only [hf', if_false]
        apply ih
        · simp; omega
        · simp [opsOf] at h2 ⊢; omega
    | check r ok =>
      unfold exec; cases ok
      · simp
      · simp only [if_true]; exact ih _ h1 (by simpa [opsOf] using h2)
    | index ok =>
      unfold exec; cases ok
      · simp
      · simp only [if_true]; exact ih _ h1 (by simpa [opsOf] using h2)
    | cache name v => unfold exec; exact ih _ h1 (by simpa [opsOf] using h2)

/-- a failing validation / index step makes the program fail, whatever the fault oracle says -/
theorem exec_reject_errors (fault : Option Nat) (p : Prog) (t : Tx) :
    allChecksPass p = false → (exec fault p t).2 ≠ none := by
  induction p generalizing t with
  | nil => simp [allChecksPass]
  | cons st rest ih =>
    intro h
    cases st with
    | op o =>
      unfold exec
      by_cases hf : fault = some t.n
      · simp [hf]
      · simp only [hf, if_false]; exact ih _ (by simpa [allChecksPass] using h)
    | check r ok =>
      unfold exec; cases ok
      · simp
      · simp only [if_true]; exact ih _ (by simpa [allChecksPass] using h)
    | index ok =>
      unfold exec; cases ok
      · simp
      · simp only [if_true]; exact ih _ (by simpa [allChecksPass] using h)
    | cache name v => unfold exec; exact ih _ (by simpa [allChecksPass] using h)

/-- no failing step and no fault position inside the program: the program succeeds -/
theorem exec_clean_ok (fault : Option Nat) (p : Prog) (t : Tx) :
    allChecksPass p = true → (∀ k, fault = some k → k < t.n ∨ t.n + (opsOf p).length ≤ k) →
    (exec fault p t).2 = none := by
  induction p generalizing t with
  | nil => simp [exec]
  | cons st rest ih =>
    intro h hk
    cases st with
    | op o =>
      unfold exec
      have hf : ¬ (fault = some t.n) := by
        intro hf
        have := hk t.n hf
        simp [opsOf] at this
        omega
      simp only [hf, if_false]
      apply ih
      · simpa [allChecksPass] using h
      · intro k hk'
        have := hk k hk'
        simp [opsOf] at this ⊢
        omega
    | check r ok =>
      unfold exec
      simp only [allChecksPass, Bool.and_eq_true] at h
      simp only [h.1, if_true]
      exact ih _ h.2 (by simpa [opsOf] using hk)
    | index ok =>
      unfold exec
      simp only [allChecksPass, Bool.and_eq_true] at h
      simp only [h.1, if_true]
      exact ih _ h.2 (by simpa [opsOf] using hk)
    | cache name v =>
      unfold exec
      exact ih _ (by simpa [allChecksPass] using h) (by simpa [opsOf] using hk)

/-- every cache the program writes is write-locked at the end of a successful run -/
theorem exec_written_complete (fault : Option Nat) (p : Prog) (t : Tx) (n : String) :
    (exec fault p t).2 = none → n ∈ (cacheWritesOf p).map (·.1) →
    (exec fault p t).1.written.contains n = true := by
  induction p generalizing t with
  | nil => simp [cacheWritesOf]
  | cons st rest ih =>
    intro h hn
    cases st with
    | op o =>
      unfold exec at h ⊢
      by_cases hf : fault = some t.n
      · simp [hf] at h
      · simp only [hf, if_false] at h ⊢; exact ih _ h (by simpa [cacheWritesOf] using hn)
    | check r ok =>
      unfold exec at h ⊢
      cases ok
      · simp at h
      · simp only [if_true] at h ⊢; exact ih _ h (by simpa [cacheWritesOf] using hn)
    | index ok =>
      unfold exec at h ⊢
      cases ok
      · simp at h
      · simp only [if_true] at h ⊢; exact ih _ h (by simpa [cacheWritesOf] using hn)
    | cache name v =>
      unfold exec at h ⊢
      simp only [cacheWritesOf, List.map_cons, List.mem_cons] at hn
      rcases hn with rfl | hn
      · exact exec_written_mono _ _ _ _ (addWritten_self _ _)
      · exact ih _ h hn

/-- only caches the program writes (or that were write-locked before) are write-locked at the end -/
theorem exec_written_sound (fault : Option Nat) (p : Prog) (t : Tx) (n : String) :
    (exec fault p t).1.written.contains n = true →
    t.written.contains n = true ∨ n ∈ (cacheWritesOf p).map (·.1) := by
  induction p generalizing t with
  | nil => intro h; left; simpa [exec] using h
  | cons st rest ih =>
    intro h
    cases st with
    | op o =>
      unfold exec at h
      by_cases hf : fault = some t.n
      · left; simpa [hf] using h
      · simp only [hf, if_false] at h
        rcases ih _ h with h' | h'
        · left; simpa using h'
        · right; simpa [cacheWritesOf] using h'
    | check r ok =>
      unfold exec at h
      cases ok
      · left; simpa using h
      · simp only [if_true] at h
        rcases ih _ h with h' | h'
        · left; exact h'
        · right; simpa [cacheWritesOf] using h'
    | index ok =>
      unfold exec at h
      cases ok
      · left; simpa using h
      · simp only [if_true] at h
        rcases ih _ h with h' | h'
        · left; exact h'
        · right; simpa [cacheWritesOf] using h'
    | cache name v =>
      unfold exec at h
      rcases ih _ h with h' | h'
      · rcases addWritten_sound _ _ _ h' with h'' | h''
        · left; exact h''
        · right; simp [cacheWritesOf, h'']
      · right; simp only [cacheWritesOf, List.map_cons, List.mem_cons]; right; exact h'

/-- a cache that was written is present afterwards -/
theorem lookup_foldl_setCache_isSome (ws : List (String × CacheVal)) (cs : Caches) (n : String) :
    ((lookupCache cs n).isSome = true ∨ n ∈ ws.map (·.1)) →
    (lookupCache (ws.foldl (fun cs e => setCache cs e.1 e.2) cs) n).isSome = true := by
  induction ws generalizing cs with
  | nil => simp
  | cons w rest ih =>
    intro h
    simp only [List.foldl_cons]
    apply ih
    by_cases hw : w.1 = n
    · left; simp [lookup_setCache, hw]
    · rcases h with h | h
      · left; simp [lookup_setCache, hw, h]
      · right
        simp only [List.map_cons, List.mem_cons] at h
        rcases h with h | h
        · exact absurd h.symm hw
        · exact h

/-! ### proofs of the property theorems (stated in Props.lean) -/

theorem C07_atomic_aux (s : Shard) (prog : Prog) (fault : Option Nat) :
    (∀ e, (runBatch s prog fault).2 = some e →
        (runBatch s prog fault).1.disk = s.disk ∧
        (∀ n, (writtenBy s prog fault).contains n = true → lookupCache (runBatch s prog fault).1.caches n = none) ∧
        (∀ n, (writtenBy s prog fault).contains n = false →
            lookupCache (runBatch s prog fault).1.caches n = lookupCache s.caches n)) ∧
    ((runBatch s prog fault).2 = none →
        (runBatch s prog fault).1.disk = (opsOf prog).foldl Op.apply s.disk ∧
        (runBatch s prog fault).1.caches = (cacheWritesOf prog).foldl (fun cs e => setCache cs e.1 e.2) s.caches) := by
  have hd := exec_ok_disk fault prog (startTx s s.disk)
  have hc := exec_ok_caches fault prog (startTx s s.disk)
  have hu := exec_caches_untouched fault prog (startTx s s.disk)
  unfold runBatch writtenBy Disk.write txBody
  generalize exec fault prog (startTx s s.disk) = r at hd hc hu
  rcases r with ⟨t, e⟩
  cases e with
  | none =>
    by_cases hf : fault = some t.n
    · -- the closure returned nil and the commit failed: same as any other error of `Write`
      simp only [if_pos hf]
      refine ⟨fun e _ => ⟨by first | rfl | trivial, ?_, ?_⟩, by intro h; simp at h⟩
      · intro n hn
        have hn' : t.written.contains n = true := hn
        simp only [lookup_dropCaches, hn', if_true]
      · intro n hn
        have hn' : t.written.contains n = false := hn
        have := hu n hn
        simp only [lookup_dropCaches, hn', Bool.false_eq_true, if_false]
        simpa [startTx] using this
    · simp only [if_neg hf]
      refine ⟨by intro e h; simp at h, fun _ => ⟨?_, ?_⟩⟩
      · simpa [startTx] using hd rfl
      · simpa [startTx] using hc rfl
  | some err =>
    refine ⟨fun e _ => ⟨rfl, ?_, ?_⟩, by intro h; simp at h⟩
    · intro n hn
      have hn' : t.written.contains n = true := hn
      simp only [lookup_dropCaches, hn', if_true]
    · intro n hn
      have hn' : t.written.contains n = false := hn
      have := hu n hn
      simp only [lookup_dropCaches, hn', Bool.false_eq_true, if_false]
      simpa [startTx] using this

theorem C07_error_observe_aux (s : Shard) (prog : Prog) (fault : Option Nat) (e : Err)
    (h : (runBatch s prog fault).2 = some e) :
    (observe (runBatch s prog fault).1).1 = (observe s).1 ∧
    (cacheWritesOf prog = [] → observe (runBatch s prog fault).1 = observe s) := by
  refine ⟨((C07_atomic_aux s prog fault).1 e h).1, fun hw => ?_⟩
  have hd := ((C07_atomic_aux s prog fault).1 e h).1
  have key : ∀ (p : Prog) (t : Tx), cacheWritesOf p = [] →
      (exec fault p t).1.caches = t.caches ∧ (exec fault p t).1.written = t.written := by
    intro p
    induction p with
    | nil => intro t _; simp [exec]
    | cons st rest ih =>
      intro t hp
      cases st with
      | op o =>
        unfold exec
        by_cases hf : fault = some t.n
        · simp [hf]
        · simp only [hf, if_false]; exact ih _ (by simpa [cacheWritesOf] using hp)
      | check r ok => unfold exec; cases ok <;> simp_all [cacheWritesOf]
      | index ok => unfold exec; cases ok <;> simp_all [cacheWritesOf]
      | cache name v => simp [cacheWritesOf] at hp
  have hk := key prog (startTx s s.disk) hw
  unfold observe
  rw [hd]
  congr 1
  revert h
  unfold runBatch Disk.write txBody
  generalize exec fault prog (startTx s s.disk) = r at hk
  rcases r with ⟨t, e'⟩
  cases e' with
  | none =>
    by_cases hf : fault = some t.n
    · simp only [if_pos hf]
      intro _
      simp only at hk ⊢
      rw [hk.1, hk.2]
      simp [startTx, dropCaches]
    · simp only [if_neg hf]
      intro h; simp at h
  | some err =>
    intro _
    simp only at hk ⊢
    rw [hk.1, hk.2]
    simp [startTx, dropCaches]

theorem C07_success_keeps_written_aux (s : Shard) (prog : Prog) (fault : Option Nat)
    (h : (runBatch s prog fault).2 = none) (n : String) (hn : n ∈ (cacheWritesOf prog).map (·.1)) :
    (lookupCache (runBatch s prog fault).1.caches n).isSome = true := by
  rw [((C07_atomic_aux s prog fault).2 h).2]
  exact lookup_foldl_setCache_isSome _ _ _ (Or.inr hn)

theorem C07_fault_reports_error_aux (s : Shard) (prog : Prog) (k : Nat) (hk : k ≤ (opsOf prog).length) :
    (runBatch s prog (some k)).2 ≠ none := by
  have h1 := exec_fault_errors k prog (startTx s s.disk) (by simp [startTx])
  have h2 := exec_ok_n (some k) prog (startTx s s.disk)
  unfold runBatch Disk.write txBody
  generalize exec (some k) prog (startTx s s.disk) = r at h1 h2
  rcases r with ⟨t, e⟩
  cases e with
  | none =>
    -- the closure succeeded: no fault inside it, so k is the number of calls and the commit fails
    have hn : t.n = (opsOf prog).length := by simpa [startTx] using h2 rfl
    have hk' : k = (opsOf prog).length := by
      rcases Nat.lt_or_ge k (opsOf prog).length with hlt | hge
      · exact absurd rfl (h1 (by simpa [startTx] using hlt))
      · omega
    have hf : (some k : Option Nat) = some t.n := by rw [hk', hn]
    simp only [if_pos hf]
    simp
  | some err => simp

/-- the commit fault on a program without failing steps: the closure returns nil, `Write` returns the
commit error -/
theorem commit_fault_outcome (s : Shard) (prog : Prog) (h : allChecksPass prog = true) :
    closureOk s prog (some (opsOf prog).length) = true ∧
    (runBatch s prog (some (opsOf prog).length)).2 = some (.commit (opsOf prog).length) := by
  have h1 := exec_clean_ok (some (opsOf prog).length) prog (startTx s s.disk) h (by
    intro k hk; right; cases hk; simp [startTx])
  have h2 := exec_ok_n (some (opsOf prog).length) prog (startTx s s.disk) h1
  refine ⟨by simp [closureOk, h1], ?_⟩
  unfold runBatch Disk.write txBody
  generalize exec (some (opsOf prog).length) prog (startTx s s.disk) = r at h1 h2
  rcases r with ⟨t, e⟩
  cases e with
  | none =>
    have hn : t.n = (opsOf prog).length := by simpa [startTx] using h2
    have hf : (some (opsOf prog).length : Option Nat) = some t.n := by rw [hn]
    simp only [if_pos hf]
    simp [hn]
  | some err => simp at h1

/-- **the commit step fails** (fault position = number of storage calls) on a program all of whose
steps succeed: the closure returns nil, `Write` returns the commit error, the disk is the pre-state,
EVERY cache the program writes is gone from the manager and every other cache is as before -/
theorem C07_commit_fault_atomic_aux (s : Shard) (prog : Prog) (h : allChecksPass prog = true) :
    closureOk s prog (some (opsOf prog).length) = true ∧
    (runBatch s prog (some (opsOf prog).length)).2 = some (.commit (opsOf prog).length) ∧
    (runBatch s prog (some (opsOf prog).length)).1.disk = s.disk ∧
    (∀ n, n ∈ (cacheWritesOf prog).map (·.1) →
        lookupCache (runBatch s prog (some (opsOf prog).length)).1.caches n = none) ∧
    (∀ n, n ∉ (cacheWritesOf prog).map (·.1) →
        lookupCache (runBatch s prog (some (opsOf prog).length)).1.caches n = lookupCache s.caches n) := by
  have ho := commit_fault_outcome s prog h
  have ha := (C07_atomic_aux s prog (some (opsOf prog).length)).1 _ ho.2
  have hc : (exec (some (opsOf prog).length) prog (startTx s s.disk)).2 = none := by
    have := ho.1; unfold closureOk at this; simpa using this
  refine ⟨ho.1, ho.2, ha.1, ?_, ?_⟩
  · intro n hn
    exact ha.2.1 n (exec_written_complete _ _ _ n hc hn)
  · intro n hn
    apply ha.2.2 n
    cases hw : (writtenBy s prog (some (opsOf prog).length)).contains n with
    | false => rfl
    | true =>
      rcases exec_written_sound _ _ _ n hw with h' | h'
      · simp [startTx] at h'
      · exact absurd h' hn

/-- the variant that decides commit/abort of the cache transaction from "the closure reached its end"
is NOT atomic: when the commit step fails the error is reported and the disk is rolled back, yet every
cache the batch wrote is still in the manager -/
theorem C07_commit_by_closure_flag_not_atomic_aux (s : Shard) (prog : Prog) (h : allChecksPass prog = true)
    (n : String) (hn : n ∈ (cacheWritesOf prog).map (·.1)) :
    (runBatchByClosureFlag s prog (some (opsOf prog).length)).2 = some (.commit (opsOf prog).length) ∧
    (runBatchByClosureFlag s prog (some (opsOf prog).length)).1.disk = s.disk ∧
    (lookupCache (runBatchByClosureFlag s prog (some (opsOf prog).length)).1.caches n).isSome = true := by
  have h1 := exec_clean_ok (some (opsOf prog).length) prog (startTx s s.disk) h (by
    intro k hk; right; cases hk; simp [startTx])
  have h2 := exec_ok_n (some (opsOf prog).length) prog (startTx s s.disk) h1
  have h3 := exec_ok_caches (some (opsOf prog).length) prog (startTx s s.disk) h1
  unfold runBatchByClosureFlag Disk.write txBody
  generalize exec (some (opsOf prog).length) prog (startTx s s.disk) = r at h1 h2 h3
  rcases r with ⟨t, e⟩
  cases e with
  | none =>
    have hn' : t.n = (opsOf prog).length := by simpa [startTx] using h2
    have hf : (some (opsOf prog).length : Option Nat) = some t.n := by rw [hn']
    simp only [if_pos hf]
    refine ⟨by simp [hn'], by first | rfl | trivial, ?_⟩
    simp only [Option.isNone_none, if_true]
    have h3' : t.caches = (cacheWritesOf prog).foldl (fun cs e => setCache cs e.1 e.2) s.caches := by
      simpa [startTx] using h3
    rw [h3']
    exact lookup_foldl_setCache_isSome _ _ _ (Or.inr hn)
  | some err => simp at h1

theorem C07_rejection_reports_error_aux (s : Shard) (prog : Prog) (fault : Option Nat)
    (h : allChecksPass prog = false) : (runBatch s prog fault).2 ≠ none := by
  have := exec_reject_errors fault prog (startTx s s.disk) h
  unfold runBatch Disk.write txBody
  generalize exec fault prog (startTx s s.disk) = r at this
  rcases r with ⟨t, e⟩
  cases e with
  | none => simp at this
  | some err => simp

theorem C07_clean_run_succeeds_aux (s : Shard) (prog : Prog) (fault : Option Nat)
    (h : allChecksPass prog = true) (hf : ∀ k, fault = some k → (opsOf prog).length < k) :
    (runBatch s prog fault).2 = none := by
  have := exec_clean_ok fault prog (startTx s s.disk) h (by
    intro k hk; right; have := hf k hk; simp [startTx]; omega)
  have h2 := exec_ok_n fault prog (startTx s s.disk) this
  unfold runBatch Disk.write txBody
  generalize exec fault prog (startTx s s.disk) = r at this h2
  rcases r with ⟨t, e⟩
  cases e with
  | none =>
    have hn : t.n = (opsOf prog).length := by simpa [startTx] using h2
    have hne : ¬ (fault = some t.n) := by
      intro hc; have := hf _ hc; omega
    simp only [if_neg hne]
  | some err => simp at this

theorem C07_entry_points_atomic_aux (s : Shard) (maxSize : Nat) (ins : List InsItem) (upd : List UpdItem)
    (del : List Bytes) (extra : Prog) (fault : Option Nat) :
    (∀ e, (insertPoints s ins extra fault).2 = some e → (insertPoints s ins extra fault).1.disk = s.disk) ∧
    (∀ e, (updatePoints s maxSize upd extra fault).2 = some e → (updatePoints s maxSize upd extra fault).1.disk = s.disk) ∧
    (∀ e, (deletePoints s del extra fault).2 = some e → (deletePoints s del extra fault).1.disk = s.disk) := by
  refine ⟨?_, ?_, ?_⟩
  · intro e h
    unfold insertPoints at h ⊢
    split
    · rfl
    · rename_i hd
      simp only [hd] at h
      exact ((C07_atomic_aux s _ fault).1 e h).1
  · intro e h; exact ((C07_atomic_aux s _ fault).1 e h).1
  · intro e h; exact ((C07_atomic_aux s _ fault).1 e h).1

theorem C07_crash_is_write_branch_assumed_aux (s : Shard) (prog : Prog) (cp : CrashPoint) :
    crashBatch s prog cp = s.disk ∨ crashBatch s prog cp = (opsOf prog).foldl Op.apply s.disk := by
  have hd : ∀ f, (exec f prog (startTx s s.disk)).2 = none →
      (exec f prog (startTx s s.disk)).1.disk = (opsOf prog).foldl Op.apply s.disk := by
    intro f h; simpa [startTx] using exec_ok_disk f prog (startTx s s.disk) h
  cases cp with
  | atCall k =>
    have := hd (some k)
    simp only [crashBatch, Disk.write, txBody]
    generalize exec (some k) prog (startTx s s.disk) = r at this
    rcases r with ⟨t, e⟩
    cases e with
    | none =>
      by_cases hf : (some k : Option Nat) = some t.n
      · left; simp only [if_pos hf]
      · right; simp only [if_neg hf]; exact this rfl
    | some err => left; rfl
  | beforeCommit => left; simp [crashBatch, Disk.write]
  | afterCommit =>
    have := hd none
    simp only [crashBatch, Disk.write, txBody]
    generalize exec none prog (startTx s s.disk) = r at this
    rcases r with ⟨t, e⟩
    cases e with
    | none =>
      have hf : ¬ ((none : Option Nat) = some t.n) := by simp
      right; simp only [if_neg hf]; exact this rfl
    | some err => left; rfl

end Sema.C07
