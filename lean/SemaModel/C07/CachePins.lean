/-
C07 — the cache manager's lock skeleton the cache replay of Model.lean and ObserveModel.lean was written against.

`Step.cache` / `runBatch` (Model.lean) and `openFlat` / `exec` / `abortWith` (ObserveModel.lean) assume
the manager's contract: a successful commit keeps every opened cache, a failed one scraps and drops
every cache the transaction wrote, under the manager lock and before the cache locks are released.
That this is what shard/cache/manager.go does is C11's subject. The same regenerated facts
(tools/facts_c11 → Generated/FactsC11.lean) are pinned here, so that a change of the manager's
protocol breaks C07's tie as well and sends C07's fault enumeration looking for a batch whose failure
stays observable.
-/
import SemaModel.C11.Skeleton
import SemaModel.Generated.FactsC11
namespace Sema.C07
open Sema.Gen Sema.C11

theorem C07_cache_protocol_pinned :
    FactsC11.withSkeleton = Skeleton.expectedWith ∧
    FactsC11.commitSkeleton = Skeleton.expectedCommit ∧
    FactsC11.pruneSkeleton = Skeleton.expectedPrune ∧
    FactsC11.releaseSkeleton = Skeleton.expectedRelease := by decide

end Sema.C07
