/-
C07 — a write batch is all-or-nothing.  Executable model, core-only.

A batch is a PROGRAM: a list of steps issued inside one storage write transaction (`Disk.write`,
Base/KV.lean, DESIGN 3.4).  A step is a storage call on a named bucket (the fault oracle may fail the
k-th one), a validation whose outcome is already decided (duplicate / existing id, oversized merged
document, wrong field type, negative counter), the construction / processing of an index (may
fail), or a write access to a shared cache through the cache transaction (`cacheTx.With(name,
readOnly=false, …)`: the cache is created in the manager if absent, write-locked by the
transaction, modified).  The shard entry points (shard/shard.go InsertPoints / UpdatePoints /
DeletePoints) are `runBatch`: run the program inside `Disk.write`, then `cacheTx.Commit(fail)`:
on an error every cache written by the transaction is scrapped and removed from the manager, on
success the locks are released and the caches stay (shard/cache/manager.go Commit).

The theorems (Props.lean) quantify over EVERY program, so the indexes need no detailed model
here; `insertProg` / `updateProg` / `deleteProg` instantiate the program with the real point-store
calls (shard/pointstore, shard/idcounter.go, changePointCount) so that the driver can replay real
batches and be compared with the implementation call by call.

Not modelled: goroutines.  The real stages run concurrently and the Write closure returns on the
first error without waiting for them (utils.MergeErrorsWithContext); the model is the sequential
program.  What the runaway goroutines do to a *process* is outside this model (see notes/C07.md).
-/
import SemaModel.Base.KV
import SemaModel.Generated.Keys
import SemaModel.Generated.Conversion
namespace Sema.C07
open Sema

/-- one storage call on a named bucket -/
inductive Op where
  | get (b : String) (k : Bytes)
  | put (b : String) (k v : Bytes)
  | del (b : String) (k : Bytes)
  | scan (b : String)
  deriving Repr, DecidableEq, Inhabited

/-- effect of a storage call on the (uncommitted) disk of the transaction -/
def Op.apply (d : Disk) : Op → Disk
  | .get _ _ => d
  | .scan _ => d
  | .put b k v => d.setBucket b ((d.bucket b).put k v)
  | .del b k => d.setBucket b ((d.bucket b).delete k)

inductive Reject where
  | dupId | existingId | oversize | wrongType | negativeCount
  deriving Repr, DecidableEq, Inhabited

inductive Err where
  | rejected (r : Reject)
  | storage (k : Nat)      -- the k-th storage call of the batch failed
  | index                  -- index construction / index-side processing failed
  | commit (k : Nat)       -- all k storage calls succeeded and the closure returned nil, then the COMMIT of the write transaction failed
  deriving Repr, DecidableEq, Inhabited

/-- abstract content of a shared cache -/
abbrev CacheVal := Nat

inductive Step where
  | op (o : Op)
  | check (r : Reject) (ok : Bool)
  | index (ok : Bool)
  | cache (name : String) (v : CacheVal)
  deriving Repr, DecidableEq, Inhabited

abbrev Prog := List Step

/-- the shared caches of the cache manager: name → content -/
abbrev Caches := List (String × CacheVal)

def lookupCache : Caches → String → Option CacheVal
  | [], _ => none
  | e :: rest, name => if e.1 == name then some e.2 else lookupCache rest name

/-- create the cache in the manager if absent, else replace its content -/
def setCache : Caches → String → CacheVal → Caches
  | [], name, v => [(name, v)]
  | e :: rest, name, v => if e.1 == name then (name, v) :: rest else e :: setCache rest name v

/-- `Commit(true)`: every written cache is scrapped and deleted from the manager -/
def dropCaches (cs : Caches) (names : List String) : Caches :=
  cs.filter (fun e => !names.contains e.1)

/-- the running instance: committed disk + shared caches -/
structure Shard where
  disk : Disk := []
  caches : Caches := []
  deriving Repr, Inhabited

/-- state of a running write: uncommitted disk, caches as the transaction sees them, names of the
caches it has write-locked (`Transaction.writtenCaches`), number of storage calls issued -/
structure Tx where
  disk : Disk
  caches : Caches
  written : List String
  n : Nat
  deriving Repr, Inhabited

/-- `Transaction.writtenCaches[name] = cache` (a map: a name is recorded once) -/
def addWritten (w : List String) (name : String) : List String :=
  if w.contains name then w else name :: w

/-- run a program; `fault = some k` fails the k-th storage call (0-based, all kinds counted) -/
def exec (fault : Option Nat) : Prog → Tx → Tx × Option Err
  | [], t => (t, none)
  | .op o :: rest, t =>
    if fault = some t.n then ({ t with n := t.n + 1 }, some (.storage t.n))
    else exec fault rest { t with disk := o.apply t.disk, n := t.n + 1 }
  | .check r ok :: rest, t => if ok then exec fault rest t else (t, some (.rejected r))
  | .index ok :: rest, t => if ok then exec fault rest t else (t, some .index)
  | .cache name v :: rest, t =>
    exec fault rest { t with caches := setCache t.caches name v,
                             written := addWritten t.written name }

def startTx (s : Shard) (d : Disk) : Tx := { disk := d, caches := s.caches, written := [], n := 0 }

/-- the closure handed to `db.Write` returned nil (every step of the program succeeded) -/
def closureOk (s : Shard) (prog : Prog) (fault : Option Nat) : Bool :=
  (exec fault prog (startTx s s.disk)).2.isNone

/-- what `db.Write(closure)` does with the uncommitted disk, as its caller sees it: the error of the
program is the error of the closure; and when the closure returned nil the COMMIT STEP ITSELF may
fail — fault position = number of storage calls the closure issued, i.e. "after the last one" (full
disk, I/O error while the pages / the meta page are written): the storage rolls everything back and
`Write` returns an error although the closure succeeded. -/
def txBody (s : Shard) (prog : Prog) (fault : Option Nat) (d : Disk) : Except Err Disk :=
  match exec fault prog (startTx s d) with
  | (t, none) => if fault = some t.n then .error (.commit t.n) else .ok t.disk
  | (_, some e) => .error e

/-- caches write-locked by the batch when its closure returns -/
def writtenBy (s : Shard) (prog : Prog) (fault : Option Nat) : List String :=
  (exec fault prog (startTx s s.disk)).1.written

/-- InsertPoints / UpdatePoints / DeletePoints after their pre-checks:
`cacheTx := NewTransaction(); err := db.Write(body); if err != nil { cacheTx.Commit(true); return err }; cacheTx.Commit(false)`.
The cache transaction is committed or aborted by THE ERROR OF `Write` (which covers a failing commit),
not by how far the closure got. -/
def runBatch (s : Shard) (prog : Prog) (fault : Option Nat) : Shard × Option Err :=
  let t := (exec fault prog (startTx s s.disk)).1
  match Disk.write s.disk (txBody s prog fault) with
  | (d', none) => ({ disk := d', caches := t.caches }, none)                           -- Commit(false)
  | (d', some e) => ({ disk := d', caches := dropCaches t.caches t.written }, some e)  -- Commit(true)

/-- NOT the code: the variant that decides `Commit(fail)` from "did the closure reach its end" (a flag /
time stamp set by the last statement of the closure, or `defer cacheTx.Commit(err != nil)` evaluated
before `Write` ran) instead of from the error of `Write`.  It differs from `runBatch` exactly when the
commit step fails; `C07_commit_by_closure_flag_witness` shows that it is not atomic. -/
def runBatchByClosureFlag (s : Shard) (prog : Prog) (fault : Option Nat) : Shard × Option Err :=
  let r := exec fault prog (startTx s s.disk)
  let caches := if r.2.isNone then r.1.caches else dropCaches r.1.caches r.1.written
  match Disk.write s.disk (txBody s prog fault) with
  | (d', e) => ({ disk := d', caches := caches }, e)

/-- a batch that is refused before the storage transaction starts (duplicate id inside an insert
batch): no transaction, no cache transaction -/
def refuse (s : Shard) (r : Reject) : Shard × Option Err := (s, some (.rejected r))

/-- where the process is killed -/
inductive CrashPoint where
  | atCall (k : Nat)   -- at the k-th storage call
  | beforeCommit       -- the closure has returned nil, bbolt has not committed yet
  | afterCommit        -- bbolt has committed, the call has not returned yet
  deriving Repr, DecidableEq

/-- the database file after the process was killed during the batch.  BY ASSUMPTION (bbolt's atomic
commit, DESIGN 3.4) a death before commit is the `error` branch of `Disk.write`, a death after commit
its `ok` branch; the running instance (and with it every cache) is gone. -/
def crashBatch (s : Shard) (prog : Prog) : CrashPoint → Disk
  | .atCall k => (Disk.write s.disk (txBody s prog (some k))).1
  | .beforeCommit => (Disk.write s.disk (fun _ => (Except.error Err.index : Except Err Disk))).1
  | .afterCommit => (Disk.write s.disk (txBody s prog none)).1

def opsOf : Prog → List Op
  | [] => []
  | .op o :: rest => o :: opsOf rest
  | _ :: rest => opsOf rest

def cacheWritesOf : Prog → List (String × CacheVal)
  | [] => []
  | .cache n v :: rest => (n, v) :: cacheWritesOf rest
  | _ :: rest => cacheWritesOf rest

def allChecksPass : Prog → Bool
  | [] => true
  | .check _ ok :: rest => ok && allChecksPass rest
  | .index ok :: rest => ok && allChecksPass rest
  | _ :: rest => allChecksPass rest

/-- what a later query can see: the committed disk and the shared caches -/
def observe (s : Shard) : Disk × Caches := (s.disk, s.caches)

/-! ### the point store programs (shard/shard.go, shard/pointstore/pointstore.go, shard/idcounter.go) -/

def bPoints := "points"
def bInternal := "internal"
def kPointCount : Bytes := "pointCount".toUTF8.toList.map (fun b => BitVec.ofNat 8 b.toNat)
def kFreeIds : Bytes := "freeNodeIds".toUTF8.toList.map (fun b => BitVec.ofNat 8 b.toNat)
def kNextFree : Bytes := "nextFreeNodeId".toUTF8.toList.map (fun b => BitVec.ofNat 8 b.toNat)

def pointKey (u : Bytes) : Bytes := Gen.Keys.PointKey u 0x69#8
def nodeKey (n : BitVec 64) (suffix : Byte) : Bytes := Gen.Keys.NodeKey n suffix
def u64 (n : BitVec 64) : Bytes := Gen.Conversion.Uint64ToBytes n

/-- `NewIdCounter`: the free list and the next fresh id (2 when absent) -/
def readCounter (d : Disk) : List (BitVec 64) × BitVec 64 :=
  let free := match (d.bucket bInternal).get kFreeIds with
    | some b => Gen.Conversion.BytesToEdgeList b
    | none => []
  let next := match (d.bucket bInternal).get kNextFree with
    | some b => Gen.Conversion.BytesToUint64 b
    | none => 2#64
  (free, next)

def readCount (d : Disk) : Nat :=
  match (d.bucket bInternal).get kPointCount with
  | some b => (Gen.Conversion.BytesToUint64 b).toNat
  | none => 0

/-- `IdCounter.NextId`.  The implementation loads the free list through a Go map, so WHICH free id
comes first is not determined: `choice` is the id the implementation took (oracle argument, DESIGN
3.3); `0` = no information, take the first.  A choice that is not available is answered by `none`. -/
def nextId (free : List (BitVec 64)) (next choice : BitVec 64) : Option (BitVec 64 × List (BitVec 64) × BitVec 64) :=
  match free with
  | [] => if choice == 0#64 || choice == next then some (next, [], next + 1) else none
  | f :: rest =>
    if choice == 0#64 then some (f, rest, next)
    else if free.contains choice then some (choice, free.erase choice, next) else none

def counterTail (count : Nat) (free : List (BitVec 64)) (next : BitVec 64) : Prog :=
  [ .op (.get bInternal kPointCount),
    .op (.put bInternal kPointCount (u64 (BitVec.ofNat 64 count))),
    .op (.put bInternal kNextFree (u64 next)),
    .op (.put bInternal kFreeIds (Gen.Conversion.EdgeListToBytes free)) ]

structure InsItem where
  uuid : Bytes
  choice : BitVec 64
  doc : Bytes
  deriving Repr, Inhabited

/-- per-point part of InsertPoints' transform function -/
def insertItems (d : Disk) : List InsItem → List (BitVec 64) → BitVec 64 → Nat → Prog
  | [], free, next, cnt => counterTail (readCount d + cnt) free next
  | it :: rest, free, next, cnt =>
    let exists_ := ((d.bucket bPoints).get (pointKey it.uuid)).isSome
    let pre : Prog := [.op (.get bPoints (pointKey it.uuid)), .check .existingId (!exists_)]
    match nextId free next it.choice with
    | none => pre ++ [.check .wrongType false]   -- the oracle named an id the counter could not hand out
    | some (n, free', next') =>
      pre ++ [ .op (.put bPoints (nodeKey n 0x69#8) it.uuid),
               .op (.put bPoints (pointKey it.uuid) (u64 n)),
               (if it.doc.isEmpty then .op (.del bPoints (nodeKey n 0x64#8)) else .op (.put bPoints (nodeKey n 0x64#8) it.doc)) ]
        ++ insertItems d rest free' next' (cnt + 1)

/-- InsertPoints inside the write closure (after the duplicate check).  `extra` are the steps of the
index side (index construction / processing, cache writes), issued once the first point has been
handed to the dispatcher. -/
def insertProg (d : Disk) (items : List InsItem) (extra : Prog) : Prog :=
  let (free, next) := readCounter d
  [.op (.get bInternal kFreeIds), .op (.get bInternal kNextFree)] ++ extra ++ insertItems d items free next 0

structure UpdItem where
  uuid : Bytes
  size : Nat      -- length of the merged, re-encoded document
  doc : Bytes     -- the merged document
  deriving Repr, Inhabited

def updateItems (d : Disk) (maxSize : Nat) : List UpdItem → Prog
  | [] => []
  | it :: rest =>
    match (d.bucket bPoints).get (pointKey it.uuid) with
    | none => .op (.get bPoints (pointKey it.uuid)) :: updateItems d maxSize rest   -- not in this shard: skipped
    | some nb =>
      let n := Gen.Conversion.BytesToUint64 nb
      [ .op (.get bPoints (pointKey it.uuid)), .op (.get bPoints (nodeKey n 0x64#8)),
        .check .oversize (decide (it.size ≤ maxSize)),
        .op (.put bPoints (nodeKey n 0x69#8) it.uuid),
        .op (.put bPoints (pointKey it.uuid) nb),
        (if it.doc.isEmpty then .op (.del bPoints (nodeKey n 0x64#8)) else .op (.put bPoints (nodeKey n 0x64#8) it.doc)) ]
        ++ updateItems d maxSize rest

def updateProg (d : Disk) (maxSize : Nat) (items : List UpdItem) (extra : Prog) : Prog :=
  extra ++ updateItems d maxSize items

def deleteItems (d : Disk) : List Bytes → List (BitVec 64) → BitVec 64 → Nat → Prog
  | [], free, next, cnt =>
    let c := readCount d
    if c < cnt then [.op (.get bInternal kPointCount), .check .negativeCount false]
    else counterTail (c - cnt) free next
  | u :: rest, free, next, cnt =>
    match (d.bucket bPoints).get (pointKey u) with
    | none => .op (.get bPoints (pointKey u)) :: deleteItems d rest free next cnt
    | some nb =>
      let n := Gen.Conversion.BytesToUint64 nb
      [ .op (.get bPoints (pointKey u)), .op (.get bPoints (nodeKey n 0x64#8)),
        .op (.del bPoints (pointKey u)), .op (.del bPoints (nodeKey n 0x69#8)), .op (.del bPoints (nodeKey n 0x64#8)) ]
        ++ deleteItems d rest (free ++ [n]) next (cnt + 1)

def deleteProg (d : Disk) (uuids : List Bytes) (extra : Prog) : Prog :=
  let (free, next) := readCounter d
  [.op (.get bInternal kFreeIds), .op (.get bInternal kNextFree)] ++ extra ++ deleteItems d uuids free next 0

/-- `InsertPoints`: "Check for duplicate ids" happens before the cache transaction and the write -/
def hasDup : List Bytes → Bool
  | [] => false
  | u :: rest => rest.contains u || hasDup rest

def insertPoints (s : Shard) (items : List InsItem) (extra : Prog) (fault : Option Nat) : Shard × Option Err :=
  if hasDup (items.map (·.uuid)) then refuse s .dupId
  else runBatch s (insertProg s.disk items extra) fault

def updatePoints (s : Shard) (maxSize : Nat) (items : List UpdItem) (extra : Prog) (fault : Option Nat) : Shard × Option Err :=
  runBatch s (updateProg s.disk maxSize items extra) fault

def deletePoints (s : Shard) (uuids : List Bytes) (extra : Prog) (fault : Option Nat) : Shard × Option Err :=
  runBatch s (deleteProg s.disk uuids extra) fault

end Sema.C07
