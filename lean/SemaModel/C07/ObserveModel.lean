/-
C07 / observation — what a CLIENT can see of a shard whose write batch failed, over the composed shard model.

Model.lean proves statements about "the disk" of an arbitrary program; its disk clause is the definition
of `Disk.write` (the assumption on bbolt).  This file adds what the assumption alone does NOT give:

  state        `ShardWithCaches` = the committed combined state of Compose (`RState`: C01 point store + C02 filter
               indexes + flat vector stores + C05 text indexes) + the SHARED-CACHE LAYER of shard/cache/manager.go:
               per flat index (cache name `<root>/index/vectorFlat/<property>`) absent | present with an item cache
               (`C08.Cache`: the `ItemCache[uint64, plainPoint]` of vectorstore/plain.go).  Nothing else.
               (Of the composed indexes only the flat index lives in the shared cache manager: the inverted and
               the text index build a private cache per transaction; the vamana graph is not part of Compose.)
  observation  `answers s q`: the answer of EVERY query — `Shard.SearchPoints` (`rsearchPoints` of Compose) on the
               committed state READ THROUGH the shared caches (`readThrough`: a cached item shadows the bucket,
               `isAllInCache` hides uncached bucket items, exactly C08's overlay `view` / `ForEach`) — and
               `Info().PointCount`.
  write batch  `runBatch`: `cacheTx := NewTransaction(); err := db.Write(body); cacheTx.Commit(err != nil)` where
               the body is the Compose step, cut into the steps the code issues: point store, filter indexes,
               per touched flat index `cacheTx.With(name, false, …)` (create if absent, register in
               `writtenCaches`), one `ItemCache.Put` / `Delete` per change ON THE CACHE, then `Flush` (one bucket
               write per dirty / deleted item), text indexes.  Fault oracle: fail the k-th storage operation
               (inside `Flush` too), fail the commit, reject by validation after the other stages got `progress`
               steps far (the pipeline is concurrent: the first error cancels the rest).
  assumption   bbolt rolls the bucket contents back when `Write` returns an error: `writeTx` below IS
               `Disk.write` (Base/KV.lean) on the combined state.  Stated, not proved.

Core-only.
-/
import SemaModel.Compose.RankModel
import SemaModel.C08.Model
namespace Sema.C07.Obs
open Sema Sema.Compose

variable {V T D S W : Type}

/-! ### the shared-cache layer -/

/-- the item cache of one flat index: `ItemCache[uint64, plainPoint]` (C08's model of itemcache.go) -/
abbrev FCache (V : Type) := C08.Cache C04.Id V

/-- `Manager.sharedCaches`: cache name ↦ cache.  The name of a flat index' cache is its property path. -/
abbrev Caches (V : Type) := List (List String × FCache V)

/-- the running instance: committed combined state + shared caches -/
structure ShardWithCaches (V T : Type) where
  rs : RState V T := {}
  caches : Caches V := []

/-- what the bucket and the cache together say about ONE bucket item during `ForEach` / `Get`: a cached
entry shadows the bucket (a deleted one hides it); an uncached item is read from the bucket unless the cache
claims to hold everything (`isAllInCache`: the bucket is not scanned again) -/
def viewItem (c : FCache V) (e : C04.Id × V) : Option (C04.Id × V) :=
  match C08.find c.items e.1 with
  | some el => if el.isDeleted then none else some (e.1, el.value)
  | none => if c.isAllInCache then none else some e

/-- what `vecStore.ForEach` enumerates through the cache (C08 `forEach`: the live cached items, and — unless
`isAllInCache` — the bucket items not yet cached).  Listed bucket items first; the ORDER is irrelevant, see
`listed`. -/
def viewStore (c : FCache V) (store : List (C04.Id × V)) : List (C04.Id × V) :=
  store.filterMap (viewItem c) ++ (C08.live c.items).filter fun e => (C01.AL.get store e.1).isNone

/-- a flat index as a reader that goes through the shared caches sees it (`cacheTx.With(name, true, …)`:
no cache in the manager → a cold cache over the bucket) -/
def through (cs : Caches V) (fx : FlatIx V) : FlatIx V :=
  match C01.AL.get cs fx.path with
  | none => fx
  | some c => { fx with store := viewStore c fx.store }

/-- the combined state as the running instance reads it -/
def readThrough (s : ShardWithCaches V T) : RState V T :=
  { s.rs with flats := s.rs.flats.map (through s.caches) }

/-! ### the order of a store listing is not observable

`FlatIx.store` is a LIST, but the order in which `ForEach` visits the items is Go-map order (cache) / bbolt key
order (bucket); the search applies its own enumeration oracle `orc.enum` to it.  The observation therefore
lists every store by ascending node id (bbolt's order: keys are big-endian node ids). -/

def insertById (a : C04.Id × V) : List (C04.Id × V) → List (C04.Id × V)
  | [] => [a]
  | x :: l => if a.1.toNat ≤ x.1.toNat then a :: x :: l else x :: insertById a l

def sortById (l : List (C04.Id × V)) : List (C04.Id × V) := l.foldr insertById []

def listed (rs : RState V T) : RState V T :=
  { rs with flats := rs.flats.map fun fx => { fx with store := sortById fx.store } }

/-! ### the observation -/

/-- everything a search is parameterised with (readers, analyser, arithmetic, run-time choices) -/
structure Ctx (V T D S W : Type) where
  lower : Bytes → Bytes
  cv : Conv
  cfg : C01.Cfg
  env : Env V T D S W
  orc : SOracle V T S

inductive Query (V T W : Type)
  /-- `Shard.SearchPoints` -/
  | search (q : RQuery V T W) (rq : C06.Request)
  /-- `Shard.Info().PointCount` -/
  | pointCount

inductive Answer (S : Type)
  | rows (a : RAnswer S)
  | count (n : Nat)

section
variable [DecidableEq T] [LT D] [DecidableLT D]

/-- **what a client can see**: the answer of every query on the running instance -/
def answers (cx : Ctx V T D S W) (s : ShardWithCaches V T) : Query V T W → Answer S
  | .search q rq => .rows (rsearchPoints cx.lower cx.cv cx.env cx.orc (listed (readThrough s)) q rq)
  | .pointCount => .count s.rs.base.shard.countV

end

/-- the instance after the database file has been reopened: same committed state, no cache -/
def reopen (s : ShardWithCaches V T) : ShardWithCaches V T := { rs := s.rs, caches := [] }

/-! ### cache operations of the flat index (vectorstore/plain.go on cache/itemcache.go) -/

/-- `ItemCache.Delete(id)`: mark a cached entry; an uncached id is read from the bucket first (C08 `delete`) -/
def cacheDelete (c : FCache V) (store : List (C04.Id × V)) (id : C04.Id) : FCache V :=
  match C08.find c.items id with
  | some e => { c with items := C08.set c.items id { e with isDeleted := true } }
  | none =>
    match C01.AL.get store id with
    | none => c
    | some v => { c with items := C08.set c.items id { value := v, isDeleted := true } }

/-- what one `IndexPointChange` asks of the flat index (`getOperation`, `preProcessVamana`, flat.go):
nothing (`none`), `vecStore.Set`, `vecStore.Delete` — the same case split as `FlatIx.apply` -/
inductive FlatOp (V : Type)
  | set (id : C04.Id) (v : V)
  | del (id : C04.Id)

def flatOp (env : Env V T D S W) (path : List String) (pc : C02.PChange) : Option (FlatOp V) :=
  match C02.getProp pc.prev path, C02.getProp pc.cur path with
  | none, none => none
  | _, some x =>
    match env.vec x with
    | some v => some (.set pc.id v)
    | none => none                      -- cast error: the batch is rejected (`rankVerdict`)
  | some _, none => some (.del pc.id)

/-! ### the write transaction, step by step -/

/-- one step of the body of `db.Write` -/
inductive TStep (V : Type)
  /-- the point-store calls of the batch (SetPoint / DeletePoint, point counter, id counter): one fallible group -/
  | points
  /-- the inverted indexes write their buckets -/
  | filters
  /-- the text indexes write their buckets -/
  | texts
  /-- `getDrainFn`: `bm.Get(bucket)` (fallible: index construction) then `cacheTx.With(name, false, newFlatFn, …)`:
  the cache is created in the manager if absent, write-locked, registered in `writtenCaches` -/
  | openFlat (p : List String)
  /-- `vecStore.Set` = `ItemCache.Put`: no storage call -/
  | cacheSet (p : List String) (id : C04.Id) (v : V)
  /-- `vecStore.Delete` = `ItemCache.Delete`: reads the bucket on a miss (`Bucket.Get` cannot fail) -/
  | cacheDel (p : List String) (id : C04.Id)
  /-- `vecStore.Flush()`: one `WriteTo` / `DeleteFrom` per dirty / deleted item, each fallible -/
  | flushFlat (p : List String)

def FlatOp.toStep (path : List String) : FlatOp V → TStep V
  | .set id v => .cacheSet path id v
  | .del id => .cacheDel path id

/-- the steps one flat index contributes: none when every change skips it (its drain function is never
built), else open, one cache operation per change in order, flush -/
def flatSteps (env : Env V T D S W) (path : List String) (pcs : List C02.PChange) : List (TStep V) :=
  let ops := pcs.filterMap (flatOp env path)
  if ops.isEmpty then []
  else .openFlat path :: ops.map (FlatOp.toStep path) ++ [.flushFlat path]

/-- the body of the batch in ONE sequential order (the real stages run concurrently; the error theorem holds
for every program, see `C07_observe_error_any_program`) -/
def progOf (env : Env V T D S W) (rs : RState V T) (pcs : List C02.PChange) : List (TStep V) :=
  [.points, .filters] ++ (rs.flats.map (·.path)).flatMap (fun p => flatSteps env p pcs) ++ [.texts]

/-- a running write: the uncommitted combined state, the shared caches as the transaction sees them,
`Transaction.writtenCaches`, the number of fallible storage operations issued -/
structure Tx (V T : Type) where
  rs : RState V T
  caches : Caches V
  written : List (List String)
  n : Nat

/-- `Transaction.writtenCaches[name] = cache` (a map: a name is recorded once) -/
def addWritten (w : List (List String)) (name : List String) : List (List String) :=
  if w.contains name then w else name :: w

/-- `Commit(true)`: every written cache is scrapped and deleted from the manager -/
def dropCaches (cs : Caches V) (names : List (List String)) : Caches V :=
  cs.filter fun e => !names.contains e.1

/-- the cache a writer gets from `With`: the one in the manager, or `createFn()` = `NewItemCache` -/
def cacheOr (cs : Caches V) (p : List String) : FCache V := (C01.AL.get cs p).getD C08.Cache.empty

def storeOf (rs : RState V T) (p : List String) : List (C04.Id × V) :=
  match rs.flat p with
  | some fx => fx.store
  | none => []

def setStore (rs : RState V T) (p : List String) (st : List (C04.Id × V)) : RState V T :=
  { rs with flats := rs.flats.map fun fx => if fx.path == p then { fx with store := st } else fx }

/-- the loop of `ItemCache.Flush` (C08 `flushItem`, with plainPoint's `CheckAndClearDirty() = false`), with
the fault oracle: the write of the operation numbered `fault` fails and `Flush` returns at once — the items
handled so far are already cleaned / forgotten, the rest are as they were.  Result: items, bucket, operation
counter, failed? -/
def flushGo (fault : Option Nat) : List (C04.Id × C08.Elem V) → List (C04.Id × C08.Elem V) → List (C04.Id × V) → Nat →
    List (C04.Id × C08.Elem V) × List (C04.Id × V) × Nat × Bool
  | [], kept, st, n => (kept, st, n, false)
  | (id, e) :: rest, kept, st, n =>
    if e.isDeleted then
      if fault = some n then (kept ++ (id, e) :: rest, st, n + 1, true)
      else flushGo fault rest kept (C01.AL.del st id) (n + 1)
    else if e.isDirty then
      if fault = some n then (kept ++ (id, e) :: rest, st, n + 1, true)
      else flushGo fault rest (kept ++ [(id, { e with isDirty := false })]) (C01.AL.put st id e.value) (n + 1)
    else flushGo fault rest (kept ++ [(id, e)]) st n

/-- `cacheTx.With(name, false, createFn, …)`: the cache is created in the manager if absent, write-locked and
registered in `writtenCaches`.  Every access of a writer to a shared cache goes through it. -/
def touch (t : Tx V T) (p : List String) : Tx V T :=
  { t with caches := C01.AL.put t.caches p (cacheOr t.caches p), written := addWritten t.written p }

/-- replace the content of the (registered) cache `p` -/
def setCache (t : Tx V T) (p : List String) (c : FCache V) : Tx V T :=
  { t with caches := C01.AL.put t.caches p c, written := addWritten t.written p }

/-- one step.  `tgt` = the state `RState.step` yields for this batch: the point store, the filter indexes and
the text indexes install their component of it; the flat indexes work through their cache.  `true` = the
storage operation numbered `fault` failed inside this step. -/
def stepTx (fault : Option Nat) (tgt : RState V T) (t : Tx V T) : TStep V → Tx V T × Bool
  | .points =>
    if fault = some t.n then ({ t with n := t.n + 1 }, true)
    else ({ t with rs := { t.rs with base := { t.rs.base with shard := tgt.base.shard } }, n := t.n + 1 }, false)
  | .filters =>
    if fault = some t.n then ({ t with n := t.n + 1 }, true)
    else ({ t with rs := { t.rs with base := { t.rs.base with idxs := tgt.base.idxs } }, n := t.n + 1 }, false)
  | .texts =>
    if fault = some t.n then ({ t with n := t.n + 1 }, true)
    else ({ t with rs := { t.rs with texts := tgt.texts }, n := t.n + 1 }, false)
  | .openFlat p =>
    if fault = some t.n then ({ t with n := t.n + 1 }, true)          -- `bm.Get` fails: no cache is touched
    else ({ touch t p with n := t.n + 1 }, false)
  | .cacheSet p id v => (setCache t p (C08.put (cacheOr t.caches p) id v), false)
  | .cacheDel p id => (setCache t p (cacheDelete (cacheOr t.caches p) (storeOf t.rs p) id), false)
  | .flushFlat p =>
    let c := cacheOr t.caches p
    let r := flushGo fault c.items [] (storeOf t.rs p) t.n
    ({ setCache t p { c with items := r.1 } with rs := setStore t.rs p r.2.1, n := r.2.2.1 }, r.2.2.2)

/-- run the steps; `true`: the storage operation numbered `fault` failed and the body stopped there -/
def exec (fault : Option Nat) (tgt : RState V T) : List (TStep V) → Tx V T → Tx V T × Bool
  | [], t => (t, false)
  | st :: rest, t =>
    let r := stepTx fault tgt t st
    if r.2 then (r.1, true) else exec fault tgt rest r.1

/-! ### the batch -/

inductive Fault
  | none
  /-- the k-th fallible storage operation of the batch fails (0-based) -/
  | op (k : Nat)
  /-- every stage finished and the closure returned nil, then the commit of the write transaction fails -/
  | commit
  deriving DecidableEq, Repr

def Fault.pos : Fault → Option Nat
  | .op k => some k
  | _ => Option.none

/-- the oracle values of one batch: Compose's (free-id order, delete order, arrival order at the text writer)
and how many steps of the body the other stages had completed when the error of a REJECTING stage was delivered
(utils.MergeErrorsWithContext: the first error cancels all stages — whatever they did to a cache by then is
done) -/
structure BOracle (T : Type) where
  ro : ROracle T := {}
  progress : Nat := 0

inductive Result
  /-- the call reported success with this output -/
  | ok (o : C01.Out)
  /-- refused by validation / by an index: duplicate id, existing id, oversized merged document, wrong type … -/
  | rejected (o : C01.Out)
  /-- the storage operation numbered `k` failed -/
  | storage (k : Nat)
  /-- the commit failed -/
  | commit
  deriving DecidableEq

def Result.isErr : Result → Bool
  | .ok _ => false
  | _ => true

/-- **ASSUMPTION (bbolt's atomic commit)**: `Disk.write` (Base/KV.lean) on the combined state — when the
body returns an error NOTHING it did to any bucket is kept.  Not proved: it is the definition. -/
def writeTx {E : Type} (d : RState V T) (f : RState V T → Except E (RState V T)) : RState V T × Option E :=
  match f d with
  | .ok d' => (d', none)
  | .error e => (d, some e)

section
variable [DecidableEq T]

/-- what the shard is asked to do and how it would answer without a fault (Compose) -/
def verdictOf (cx : Ctx V T D S W) (rs : RState V T) (op : C01.Op) (bo : BOracle T) : RState V T × C01.Out :=
  rs.step cx.lower cx.cv cx.cfg cx.env op bo.ro

/-- the steps the batch runs before its closure returns: the whole program, or — when a stage rejects — the
`progress` first steps of it -/
def bodyOf (cx : Ctx V T D S W) (rs : RState V T) (op : C01.Op) (bo : BOracle T) : List (TStep V) :=
  let prog := progOf cx.env rs (changes cx.cfg cx.cv rs.base.shard op bo.ro.o)
  if isRejected (verdictOf cx rs op bo).2 then prog.take bo.progress else prog

def startTx (s : ShardWithCaches V T) (d : RState V T) : Tx V T := { rs := d, caches := s.caches, written := [], n := 0 }

/-- the closure handed to `db.Write`, run on the uncommitted state `d` -/
def runBody (cx : Ctx V T D S W) (s : ShardWithCaches V T) (op : C01.Op) (bo : BOracle T) (fault : Fault) (d : RState V T) :
    Tx V T × Bool :=
  exec fault.pos (verdictOf cx d op bo).1 (bodyOf cx d op bo) (startTx s d)

/-- `db.Write(closure)` as its caller sees it: the error of the closure (a failed storage operation, else the
rejection), and when the closure returned nil the commit itself may fail -/
def txBody (cx : Ctx V T D S W) (s : ShardWithCaches V T) (op : C01.Op) (bo : BOracle T) (fault : Fault) (d : RState V T) :
    Except Result (RState V T) :=
  if (runBody cx s op bo fault d).2 then .error (.storage (fault.pos.getD 0))
  else
    if isRejected (verdictOf cx d op bo).2 then .error (.rejected (verdictOf cx d op bo).2)
    else if fault = .commit then .error .commit
    else .ok (runBody cx s op bo fault d).1.rs

/-- **the batch as shard.go runs it**: `cacheTx := NewTransaction(); err := db.Write(body);
if err != nil { cacheTx.Commit(true); return err }; cacheTx.Commit(false)` -/
def runBatch (cx : Ctx V T D S W) (s : ShardWithCaches V T) (op : C01.Op) (bo : BOracle T) (fault : Fault) :
    ShardWithCaches V T × Result :=
  let t := (runBody cx s op bo fault s.rs).1
  match writeTx s.rs (txBody cx s op bo fault) with
  | (d', none) => ({ rs := d', caches := t.caches }, .ok (verdictOf cx s.rs op bo).2)        -- Commit(false)
  | (d', some e) => ({ rs := d', caches := dropCaches t.caches t.written }, e)               -- Commit(true)

/-- the instance after a body that got as far as `t` was rolled back and its cache transaction aborted -/
def abortWith (s : ShardWithCaches V T) (t : Tx V T) : ShardWithCaches V T :=
  { rs := s.rs, caches := dropCaches t.caches t.written }

/-- NOT the code: the variant whose error path calls `cacheTx.Commit(false)` (or forgets the Commit's
argument): the bucket contents are rolled back all the same, the caches the batch wrote are KEPT.
`C07_partial_cache_witness`: it is not atomic. -/
def runBatchKeepCaches (cx : Ctx V T D S W) (s : ShardWithCaches V T) (op : C01.Op) (bo : BOracle T) (fault : Fault) :
    ShardWithCaches V T × Result :=
  let t := (runBody cx s op bo fault s.rs).1
  match writeTx s.rs (txBody cx s op bo fault) with
  | (d', none) => ({ rs := d', caches := t.caches }, .ok (verdictOf cx s.rs op bo).2)
  | (d', some e) => ({ rs := d', caches := t.caches }, e)

/-- the process dies during the batch and the file is reopened.  BY ASSUMPTION (as in Model.lean `crashBatch`)
a death before the commit is the error branch of `writeTx`, a death after it the ok branch; every cache is gone. -/
def crashBatch (cx : Ctx V T D S W) (s : ShardWithCaches V T) (op : C01.Op) (bo : BOracle T) (afterCommit : Bool) :
    ShardWithCaches V T :=
  if afterCommit then reopen { s with rs := (writeTx s.rs (txBody cx s op bo .none)).1 }
  else reopen { s with rs := (writeTx (E := Result) s.rs (fun _ => .error .commit)).1 }

/-! ### histories -/

/-- one entry of a history: before the batch the manager may evict shared caches (`checkAndPrune`, `Release`),
then the batch runs with its oracle values and its fault -/
structure HStep (T : Type) where
  evict : List (List String) := []
  op : C01.Op
  bo : BOracle T := {}
  fault : Fault := .none

def evictCaches (s : ShardWithCaches V T) (names : List (List String)) : ShardWithCaches V T :=
  { s with caches := dropCaches s.caches names }

def runHistory (cx : Ctx V T D S W) : ShardWithCaches V T → List (HStep T) → ShardWithCaches V T × List Result
  | s, [] => (s, [])
  | s, h :: rest =>
    let r := runBatch cx (evictCaches s h.evict) h.op h.bo h.fault
    let rr := runHistory cx r.1 rest
    (rr.1, r.2 :: rr.2)

/-- SPEC of a history: the Compose steps of exactly those batches that reported success, on the bare combined
state — no cache, no fault, the failed batches never issued -/
def specHistory (cx : Ctx V T D S W) : ShardWithCaches V T → RState V T → List (HStep T) → RState V T
  | _, rs, [] => rs
  | s, rs, h :: rest =>
    let r := runBatch cx (evictCaches s h.evict) h.op h.bo h.fault
    specHistory cx r.1 (if r.2.isErr then rs else (verdictOf cx rs h.op h.bo).1) rest

end

end Sema.C07.Obs
