/-
C07 — a write batch is all-or-nothing under rejection, storage faults and crashes.
Only property theorems and their non-vacuity examples.  Model: SemaModel/C07/Model.lean.

READ THIS FIRST (independent audit, notes/AUDIT.md).  `runBatch` wraps `Disk.write` (Base/KV.lean), whose
error branch returns the disk it was given: every clause below that says "the disk is identical to the
pre-state" (`C07_atomic`, `C07_error_observe`, `C07_entry_points_atomic`, `C07_commit_fault_atomic`,
`C07_crash_is_write_branch_assumed`) is THE ASSUMPTION on bbolt restated — it closes by `rfl` and holds for any
body.  What this file proves is the bookkeeping AROUND that assumption, for every program of steps and every
fault position: which shared caches are dropped / kept (`writtenCaches`), which runs report an error (a
fault inside the program or AT ITS COMMIT, a failing validation) and which succeed, and the pinned shape of
the entry points of shard/shard.go (T2).  `observe` here is (disk, caches) and does change when a warm cache
is dropped; it is NOT what a client sees.

That no QUERY can tell a failed batch from one never issued — the property's actual claim — is proved in
SemaModel/C07/ObserveProps.lean (`C07_observe_atomic`, `C07_observe_history`, `C07_partial_cache_witness`) over
the composed shard model with the shared-cache layer; there the storage assumption is the one definition
`writeTx` and everything else is derived.

What the model cannot express: goroutines of a failed batch that outlive the write closure
(the known defect of the pinned tree, see notes/C07.md); found by the harness.
-/
import SemaModel.C07.Lemmas
import SemaModel.Generated.FactsC07
namespace Sema.C07
open Sema

/-- **Bookkeeping of one batch** (the disk clauses are the assumption `Disk.write` restated, see the header;
the content is in the cache clauses).  For every running instance `s`, every program and every fault position:
* the batch reports an error ⇒ the committed disk is IDENTICAL to the pre-state, every shared cache
  the batch had write-locked is gone from the manager, every other cache is exactly as before;
* the batch reports success ⇒ the disk is the pre-state with every storage call of the program
  applied, and the caches are the pre-state caches with every cache write applied (retained). -/
theorem C07_atomic (s : Shard) (prog : Prog) (fault : Option Nat) :
    (∀ e, (runBatch s prog fault).2 = some e →
        (runBatch s prog fault).1.disk = s.disk ∧
        (∀ n, (writtenBy s prog fault).contains n = true → lookupCache (runBatch s prog fault).1.caches n = none) ∧
        (∀ n, (writtenBy s prog fault).contains n = false →
            lookupCache (runBatch s prog fault).1.caches n = lookupCache s.caches n)) ∧
    ((runBatch s prog fault).2 = none →
        (runBatch s prog fault).1.disk = (opsOf prog).foldl Op.apply s.disk ∧
        (runBatch s prog fault).1.caches = (cacheWritesOf prog).foldl (fun cs e => setCache cs e.1 e.2) s.caches) :=
  C07_atomic_aux s prog fault

/-- the error case in terms of what a later query can see: the disk component of `observe` is
unchanged, and a batch that wrote no shared cache leaves `observe` unchanged altogether -/
theorem C07_error_observe (s : Shard) (prog : Prog) (fault : Option Nat) (e : Err)
    (h : (runBatch s prog fault).2 = some e) :
    (observe (runBatch s prog fault).1).1 = (observe s).1 ∧
    (cacheWritesOf prog = [] → observe (runBatch s prog fault).1 = observe s) :=
  C07_error_observe_aux s prog fault e h

/-- on success every cache the batch wrote is present in the manager afterwards -/
theorem C07_success_keeps_written (s : Shard) (prog : Prog) (fault : Option Nat)
    (h : (runBatch s prog fault).2 = none) (n : String) (hn : n ∈ (cacheWritesOf prog).map (·.1)) :
    (lookupCache (runBatch s prog fault).1.caches n).isSome = true :=
  C07_success_keeps_written_aux s prog fault h n hn

/-- a fault position inside the program OR AT ITS COMMIT makes the batch report an error (so by
`C07_atomic` nothing of it is visible): failing the k-th storage call for every k below the number of
storage calls, and k = that number: the commit step itself fails after the closure returned nil -/
theorem C07_fault_reports_error (s : Shard) (prog : Prog) (k : Nat) (hk : k ≤ (opsOf prog).length) :
    (runBatch s prog (some k)).2 ≠ none :=
  C07_fault_reports_error_aux s prog k hk

/-- a failing validation (duplicate / existing id, oversized merged document, wrong field type)
or a failing index step makes the batch report an error, whatever the fault oracle -/
theorem C07_rejection_reports_error (s : Shard) (prog : Prog) (fault : Option Nat)
    (h : allChecksPass prog = false) : (runBatch s prog fault).2 ≠ none :=
  C07_rejection_reports_error_aux s prog fault h

/-- no failing step, no fault inside the program and none at its commit: the batch reports success
(so by `C07_atomic` all of its effects are visible) -/
theorem C07_clean_run_succeeds (s : Shard) (prog : Prog) (fault : Option Nat)
    (h : allChecksPass prog = true) (hf : ∀ k, fault = some k → (opsOf prog).length < k) :
    (runBatch s prog fault).2 = none :=
  C07_clean_run_succeeds_aux s prog fault h hf

/-- **The commit step itself fails** (fault position = number of storage calls, "after the last
one"): the Write closure ran to completion and returned nil, then the storage refused the commit,
rolled everything back and `Write` returned an error.  For every program whose steps all succeed:
the batch reports the commit error, the disk is the pre-state, EVERY shared cache the batch wrote is
gone from the manager (the running instance cannot answer from the rolled-back batch), every other
cache is exactly as before. -/
theorem C07_commit_fault_atomic (s : Shard) (prog : Prog) (h : allChecksPass prog = true) :
    closureOk s prog (some (opsOf prog).length) = true ∧
    (runBatch s prog (some (opsOf prog).length)).2 = some (.commit (opsOf prog).length) ∧
    (runBatch s prog (some (opsOf prog).length)).1.disk = s.disk ∧
    (∀ n, n ∈ (cacheWritesOf prog).map (·.1) →
        lookupCache (runBatch s prog (some (opsOf prog).length)).1.caches n = none) ∧
    (∀ n, n ∉ (cacheWritesOf prog).map (·.1) →
        lookupCache (runBatch s prog (some (opsOf prog).length)).1.caches n = lookupCache s.caches n) :=
  C07_commit_fault_atomic_aux s prog h

/-- Why the commit / abort of the cache transaction must be decided by THE ERROR OF `Write`: the
variant `runBatchByClosureFlag` (decides from "the closure reached its end": a time stamp or flag set by
the closure's last statement, or `defer cacheTx.Commit(err != nil)` evaluated before `Write` ran) is not
atomic — when the commit step fails it reports the error with the disk rolled back, yet every cache
the batch wrote is still in the manager.  (Proved negation of the property for that variant.) -/
theorem C07_commit_by_closure_flag_not_atomic (s : Shard) (prog : Prog) (h : allChecksPass prog = true)
    (n : String) (hn : n ∈ (cacheWritesOf prog).map (·.1)) :
    (runBatchByClosureFlag s prog (some (opsOf prog).length)).2 = some (.commit (opsOf prog).length) ∧
    (runBatchByClosureFlag s prog (some (opsOf prog).length)).1.disk = s.disk ∧
    (lookupCache (runBatchByClosureFlag s prog (some (opsOf prog).length)).1.caches n).isSome = true :=
  C07_commit_by_closure_flag_not_atomic_aux s prog h n hn

/-- the three entry points with the real point-store programs: an error leaves the disk identical
(duplicate ids are refused before any transaction starts and leave the instance untouched).  ASSUMPTION
RESTATED: true of `Disk.write` for any body; listed because it is the only theorem that mentions the
programs the driver replays call by call. -/
theorem C07_entry_points_atomic (s : Shard) (maxSize : Nat) (ins : List InsItem) (upd : List UpdItem)
    (del : List Bytes) (extra : Prog) (fault : Option Nat) :
    (∀ e, (insertPoints s ins extra fault).2 = some e → (insertPoints s ins extra fault).1.disk = s.disk) ∧
    (∀ e, (updatePoints s maxSize upd extra fault).2 = some e → (updatePoints s maxSize upd extra fault).1.disk = s.disk) ∧
    (∀ e, (deletePoints s del extra fault).2 = some e → (deletePoints s del extra fault).1.disk = s.disk) :=
  C07_entry_points_atomic_aux s maxSize ins upd del extra fault

/-- process death is all-or-nothing BY ASSUMPTION: this is a statement about the definition of
`crashBatch` (= the two branches of `Disk.write`), i.e. about the assumption that bbolt commits
atomically, not about bbolt.  Listed so that the assumption is explicit and audited. -/
theorem C07_crash_is_write_branch_assumed (s : Shard) (prog : Prog) (cp : CrashPoint) :
    crashBatch s prog cp = s.disk ∨ crashBatch s prog cp = (opsOf prog).foldl Op.apply s.disk :=
  C07_crash_is_write_branch_assumed_aux s prog cp

/-- **The source does what `runBatch` says** (T2, regenerated from shard/shard.go on every run):
in InsertPoints, UpdatePoints, DeletePoints and SearchPoints the cache transaction is created
before the storage transaction, the `if err != nil` branch after it calls `cacheTx.Commit(true)`
before returning a non-nil error, the success path calls `cacheTx.Commit(false)`, no later return is
reached without a Commit, the closure never commits; in the three write closures the merged
pipeline error is checked and returned, and the point counter / id counter are written only after
that check. -/
theorem C07_error_paths_commit_fail :
    Gen.FactsC07.entryPoints.map (·.name) = ["InsertPoints", "UpdatePoints", "DeletePoints", "SearchPoints"] ∧
    Gen.FactsC07.entryPoints.all (fun e =>
      e.newTxBeforeTx && e.errBranchCommitsTrue && e.errBranchReturnsErr && e.successCommitsFalse &&
      e.laterReturnsCommit && e.noCommitInClosure && e.closureEndsNil &&
      (e.tx != "Write" || (e.mergedErrChecked && e.mergedErrReturnsErr && e.counterAfterMerged && e.flushAfterMerged))) = true ∧
    Gen.FactsC07.entryPoints.map (fun e => (e.tx, e.counterCalls, e.flushCalls, e.returnsBeforeTx)) =
      [("Write", 1, 1, 1), ("Write", 0, 0, 0), ("Write", 1, 1, 0), ("Read", 0, 0, 0)] := by
  decide

/-! ### non-vacuity: the hypotheses are satisfiable on concrete, non-trivial states -/

def exDisk : Disk := [("points", ⟨[([1#8], [2#8])]⟩), ("internal", ⟨[([7#8], [7#8])]⟩)]
def exShard : Shard := { disk := exDisk, caches := [("idx/vec", 5), ("idx/flat", 6)] }
def exProg : Prog :=
  [.op (.get "points" [1#8]), .cache "idx/vec" 9, .op (.put "points" [3#8] [4#8]), .check .existingId true,
   .cache "idx/new" 1, .op (.del "points" [1#8]), .index true, .op (.put "internal" [7#8] [8#8])]

-- a storage fault at the third call: error, disk identical, both written caches gone, the third untouched
example : (runBatch exShard exProg (some 2)).2 = some (.storage 2) := by decide
example : (runBatch exShard exProg (some 2)).1.disk = exDisk := by decide
example : writtenBy exShard exProg (some 2) = ["idx/new", "idx/vec"] := by decide
example : (runBatch exShard exProg (some 2)).1.caches = [("idx/flat", 6)] := by decide
-- no fault: success, every effect visible, written caches retained
example : (runBatch exShard exProg none).2 = none := by decide
example : (runBatch exShard exProg none).1.disk =
    [("points", ⟨[([3#8], [4#8])]⟩), ("internal", ⟨[([7#8], [8#8])]⟩)] := by decide
example : (runBatch exShard exProg none).1.caches = [("idx/vec", 9), ("idx/flat", 6), ("idx/new", 1)] := by decide
-- a rejection in the middle of the program
example : (runBatch exShard (exProg ++ [.check .oversize false]) none).2 = some (.rejected .oversize) := by decide
example : allChecksPass (exProg ++ [.check .oversize false]) = false := by decide
example : allChecksPass exProg = true ∧ (opsOf exProg).length = 4 := by decide
-- the commit fails after all 4 storage calls succeeded: error, disk identical, BOTH written caches gone
example : closureOk exShard exProg (some 4) = true := by decide
example : (runBatch exShard exProg (some 4)).2 = some (.commit 4) := by decide
example : (runBatch exShard exProg (some 4)).1.disk = exDisk := by decide
example : (runBatch exShard exProg (some 4)).1.caches = [("idx/flat", 6)] := by decide
-- ... whereas the closure-flag variant keeps the rolled-back batch in the caches
example : (runBatchByClosureFlag exShard exProg (some 4)).2 = some (.commit 4) ∧
    (runBatchByClosureFlag exShard exProg (some 4)).1.disk = exDisk ∧
    (runBatchByClosureFlag exShard exProg (some 4)).1.caches = [("idx/vec", 9), ("idx/flat", 6), ("idx/new", 1)] := by decide
-- a fault position beyond the commit never fires
example : (runBatch exShard exProg (some 5)).2 = none := by decide
-- a crash at the second call leaves the pre-state, a crash after commit the post-state
example : crashBatch exShard exProg (.atCall 1) = exDisk := by decide
example : crashBatch exShard exProg .afterCommit = (runBatch exShard exProg none).1.disk := by decide

end Sema.C07
