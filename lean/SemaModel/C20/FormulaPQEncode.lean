/-
C20 — the product quantiser's `encode` (which centroid a vector's sub-vectors are assigned: the codes the quantised distances are looked up
with), as theorems about the definition generated from shard/vectorstore/product.go (SemaModel/Generated/PQEncode.lean).  float32 is an
ABSTRACT type `D` with a decidable `<` here (spec.FloatAbs: only comparisons are translated); `distFn` is an arbitrary function,
`math.MaxFloat32` an arbitrary value `maxF`.

* `pq_encode_formula`: for a fitted quantiser the code of sub-vector `i` is (the low byte of) the index the RUNNING MINIMUM with strict
  improvement ends at — start `(maxF, 0)`, centroids `0 … K-1` in order, replace only when `dist < best` — for every sub-vector; `pq_encode_unfitted`: no codes before `Fit()`.
* `pq_encode_nearest`: if `<` is irreflexive and transitive on `D` (true of float32 `<`, NaN included), NO centroid is strictly closer to the
  sub-vector than the assigned one — or no centroid at all is closer than `maxF`, and then centroid 0 is assigned.
-/
import SemaModel.Generated.PQEncode
import SemaModel.C20.FormulaPQFit
namespace Sema.C20
open Sema Sema.Go Sema.Gen.PQEncode

namespace FormulaPQEncode
variable {D : Type} [Inhabited D] [LT D] [DecidableRel (α := D) (· < ·)]

/-- one step of the running minimum: strict improvement only, so the FIRST minimal index wins -/
def scanStep (d : Nat → D) (s : D × Int) (j : Nat) : D × Int := if decide (d j < s.1) = true then (d j, (j : Int)) else s
/-- the running minimum over centroids `0 … K-1`, starting from `(init, 0)` -/
def scanMin (d : Nat → D) (init : D) (K : Nat) : D × Int := (List.range' 0 K).foldl (scanStep d) (init, 0)

/-- distance of sub-vector `i` of `vector` to centroid `j` of sub-space `i` -/
def subDist (pq : productQuantizer D) (vector : List D) (i j : Nat) : D :=
  pq.distFn (Go.sliceI vector ((i : Int) * pq.subVectorLen) (((i : Int) + 1) * pq.subVectorLen))
    (Go.sliceI pq.flatCentroids (productQuantizer_flatCentroidSlice pq (i : Int) (j : Int)).1 (productQuantizer_flatCentroidSlice pq (i : Int) (j : Int)).2)

theorem enc_loop2 (pq : productQuantizer D) (vector : List D) (K : Nat) (hK : pq.params.NumCentroids = (K : Int)) (i : Nat) :
    ∀ (m j : Nat) (best : D) (id : Int) (fuel : Nat), j + m = K → m < fuel →
      productQuantizer_encode_loop2 (i : Int) pq (Go.sliceI vector ((i : Int) * pq.subVectorLen) (((i : Int) + 1) * pq.subVectorLen)) fuel best id (j : Int) =
        .next (((List.range' j m).foldl (scanStep (subDist pq vector i)) (best, id)).1,
               ((List.range' j m).foldl (scanStep (subDist pq vector i)) (best, id)).2, (K : Int)) := by
  intro m
  induction m with
  | zero =>
    intro j best id fuel hj hf
    obtain ⟨f, rfl⟩ : ∃ f, fuel = f + 1 := ⟨fuel - 1, by omega⟩
    have : j = K := by omega
    subst this
    simp [productQuantizer_encode_loop2, hK]
  | succ m ih =>
    intro j best id fuel hj hf
    obtain ⟨f, rfl⟩ : ∃ f, fuel = f + 1 := ⟨fuel - 1, by omega⟩
    have hlt : ((j : Nat) : Int) < (K : Int) := by omega
    have hstep : ((j : Nat) : Int) + 1 = ((j + 1 : Nat) : Int) := by omega
    rw [productQuantizer_encode_loop2, if_pos (by simp [hK, hlt])]
    show productQuantizer_encode_loop2 (i : Int) pq _ f (scanStep (subDist pq vector i) (best, id) j).1 (scanStep (subDist pq vector i) (best, id) j).2 ((j : Int) + 1) = _
    rw [hstep, ih (j + 1) _ _ f (by omega) (by omega)]
    simp [List.range'_succ]

/-- the code of sub-vector `i` -/
def code (maxF : D) (pq : productQuantizer D) (vector : List D) (K : Nat) (i : Nat) : Byte :=
  BitVec.ofInt 8 (scanMin (subDist pq vector i) maxF K).2

theorem enc_loop1 (maxF : D) (pq : productQuantizer D) (vector : List D) (NS K : Nat) (hNS : pq.params.NumSubVectors = (NS : Int))
    (hK : pq.params.NumCentroids = (K : Int)) :
    ∀ (m i : Nat) (enc : Bytes) (fuel : Nat), i + m = NS → m < fuel →
      productQuantizer_encode_loop1 maxF pq vector fuel enc (i : Int) =
        .next (FormulaPQFit.writes (fun i : Nat => (i : Int)) (code maxF pq vector K) (List.range' i m) enc, (NS : Int)) := by
  intro m
  induction m with
  | zero =>
    intro i enc fuel hi hf
    obtain ⟨f, rfl⟩ : ∃ f, fuel = f + 1 := ⟨fuel - 1, by omega⟩
    have : i = NS := by omega
    subst this
    simp [productQuantizer_encode_loop1, hNS, FormulaPQFit.writes]
  | succ m ih =>
    intro i enc fuel hi hf
    obtain ⟨f, rfl⟩ : ∃ f, fuel = f + 1 := ⟨fuel - 1, by omega⟩
    have hlt : ((i : Nat) : Int) < (NS : Int) := by omega
    have hstep : ((i : Nat) : Int) + 1 = ((i + 1 : Nat) : Int) := by omega
    have hfuel : Go.countFuel 0 pq.params.NumCentroids = K + 1 := by simp [Go.countFuel, hK]
    have h00 : (0 : Int) = ((0 : Nat) : Int) := rfl
    rw [productQuantizer_encode_loop1, if_pos (by simp [hNS, hlt])]
    simp only [hfuel]
    rw [h00, enc_loop2 pq vector K hK i K 0 maxF ((0 : Nat) : Int) (K + 1) (by omega) (by omega)]
    simp only [Go.Ctl.andThen, hstep]
    rw [ih (i + 1) _ f (by omega) (by omega)]
    simp [FormulaPQFit.writes, List.range'_succ, code, scanMin]

omit [Inhabited D] in
/-- after the prefix `0 … n-1`: nothing seen is strictly below the running best, and the best is the start value or one of the values seen -/
theorem scan_inv (d : Nat → D) (init : D) (hirr : ∀ a : D, ¬ a < a) (htr : ∀ a b c : D, a < b → b < c → a < c) :
    ∀ n : Nat, (∀ j : Nat, j < n → ¬ d j < (scanMin d init n).1) ∧
      ((scanMin d init n = (init, 0) ∧ ∀ j : Nat, j < n → ¬ d j < init) ∨ ∃ j : Nat, j < n ∧ scanMin d init n = (d j, (j : Int))) := by
  intro n
  induction n with
  | zero => exact ⟨fun j hj => by omega, Or.inl ⟨rfl, fun j hj => by omega⟩⟩
  | succ n ih =>
    obtain ⟨hmin, hwhere⟩ := ih
    have hs : scanMin d init (n + 1) = scanStep d (scanMin d init n) n := by
      simp [scanMin, List.range'_concat, List.foldl_append]
    rw [hs]
    unfold scanStep
    by_cases hlt : d n < (scanMin d init n).1
    · rw [if_pos (by simpa using hlt)]
      refine ⟨fun j hj => ?_, Or.inr ⟨n, by omega, rfl⟩⟩
      by_cases hjn : j = n
      · subst hjn; exact hirr _
      · exact fun h => hmin j (by omega) (htr _ _ _ h hlt)
    · rw [if_neg (by simpa using hlt)]
      refine ⟨fun j hj => ?_, ?_⟩
      · by_cases hjn : j = n
        · subst hjn; exact hlt
        · exact hmin j (by omega)
      · rcases hwhere with ⟨h0, hall⟩ | ⟨j, hj, he⟩
        · refine Or.inl ⟨h0, fun j hj => ?_⟩
          by_cases hjn : j = n
          · subst hjn; rw [h0] at hlt; exact hlt
          · exact hall j (by omega)
        · exact Or.inr ⟨j, by omega, he⟩

end FormulaPQEncode

open FormulaPQEncode in
/-- **before `Fit()`** (no centroids yet) `encode` gives no codes -/
theorem pq_encode_unfitted {D : Type} [Inhabited D] [LT D] [DecidableRel (α := D) (· < ·)] (maxF : D) (pq : productQuantizer D) (vector : List D)
    (h : pq.flatCentroids = []) : productQuantizer_encode maxF pq vector = .ret [] := by
  simp [productQuantizer_encode, h, Go.len]

open FormulaPQEncode in
/-- **the codes of a fitted quantiser**: one byte per sub-vector; sub-vector `i`'s is the low byte of the index at which the running minimum of
`distFn(sub-vector i, centroid_{i,j})`, `j = 0 … K-1`, ends — started at `(maxF, 0)`, replaced only by a STRICTLY smaller distance -/
theorem pq_encode_formula {D : Type} [Inhabited D] [LT D] [DecidableRel (α := D) (· < ·)] (maxF : D) (pq : productQuantizer D) (vector : List D) (NS K : Nat)
    (hNS : pq.params.NumSubVectors = (NS : Int)) (hK : pq.params.NumCentroids = (K : Int)) (hfit : pq.flatCentroids ≠ []) :
    productQuantizer_encode maxF pq vector = .ret ((List.range NS).map (code maxF pq vector K)) := by
  have hlen : ¬ (Go.len pq.flatCentroids == 0) = true := by
    cases hf : pq.flatCentroids with
    | nil => exact absurd hf hfit
    | cons a l => simp [Go.len]; omega
  unfold productQuantizer_encode
  rw [if_neg hlen]
  have h00 : (0 : Int) = ((0 : Nat) : Int) := rfl
  simp only []
  rw [h00, enc_loop1 maxF pq vector NS K hNS hK NS 0 _ (Go.countFuel ((0 : Nat) : Int) pq.params.NumSubVectors) (by omega) (by simp [Go.countFuel, hNS])]
  simp only [Go.Ctl.finish, hNS, Int.toNat_natCast]
  congr 1
  apply FormulaPQFit.ext_getI
  · rw [FormulaPQFit.writes_length]; simp
  · intro q hq
    rw [FormulaPQFit.writes_length, List.length_replicate] at hq
    have hsame : ∀ p' ∈ List.range' 0 NS, (fun i : Nat => (i : Int)) p' = (fun i : Nat => (i : Int)) q → code maxF pq vector K p' = code maxF pq vector K q := by
      intro p' _ h
      have h' : (p' : Int) = (q : Int) := h
      have : p' = q := by omega
      rw [this]
    have := FormulaPQFit.writes_hit (fun i : Nat => (i : Int)) (code maxF pq vector K) (List.range' 0 NS) (List.replicate NS (0x0#8 : Byte)) q
      (by simp [List.mem_range'_1]; omega) (by simp) (by simp; omega) hsame
    rw [this, FormulaPQFit.getI_nat, List.getElem?_map, List.getElem?_range hq]; rfl

open FormulaPQEncode in
/-- **nearest centroid**: with an irreflexive, transitive `<` (float32's `<` is both, NaN included) the index `c` the scan for sub-vector `i` ends at
satisfies: NO centroid `j < K` is strictly closer than centroid `c` (`¬ dist j < dist c`) — unless no centroid at all is closer than `maxF`,
in which case `c = 0` -/
theorem pq_encode_nearest {D : Type} [Inhabited D] [LT D] [DecidableRel (α := D) (· < ·)] (maxF : D) (pq : productQuantizer D) (vector : List D) (K i : Nat)
    (hirr : ∀ a : D, ¬ a < a) (htr : ∀ a b c : D, a < b → b < c → a < c) :
    let c := (scanMin (subDist pq vector i) maxF K).2
    (∃ j : Nat, j < K ∧ c = (j : Int) ∧ ∀ j' : Nat, j' < K → ¬ subDist pq vector i j' < subDist pq vector i j) ∨
      (c = 0 ∧ ∀ j' : Nat, j' < K → ¬ subDist pq vector i j' < maxF) := by
  intro c
  obtain ⟨hmin, hwhere⟩ := scan_inv (subDist pq vector i) maxF hirr htr K
  rcases hwhere with ⟨h0, hall⟩ | ⟨j, hj, he⟩
  · right; exact ⟨by show (scanMin _ _ _).2 = 0; rw [h0], hall⟩
  · left
    refine ⟨j, hj, by show (scanMin _ _ _).2 = _; rw [he], fun j' hj' => ?_⟩
    have := hmin j' hj'
    rw [he] at this
    exact this

/-- three centroids at distances 5, 3, 3 from the sub-vector (Nat as the ordered type, `maxF` = 100): the FIRST of the two nearest is assigned -/
example : productQuantizer_encode (D := Nat) 100 ⟨⟨3, 1, 0⟩, fun _ c => Go.getI c 0, 1, [5, 3, 3]⟩ [0] = .ret [1#8] := by decide

end Sema.C20
