/-
C20 — distance functions equal their definitions.  Executable model, core Lean only.

1. Specification vocabulary for the bit metrics (the *implementation* side is generated:
   SemaModel/Generated/BitDist.lean, regenerated from distance/distance.go and
   shard/vectorstore/binary.go on every run).
2. A hand-written model of the two AVX kernels distance/asm/dot.s and distance/asm/euclidean.s,
   instruction group by instruction group, generic over the arithmetic (`Ops`), so that the same
   definition is (a) proved equal to Σ xᵢ·yᵢ / Σ (xᵢ−yᵢ)² in every commutative ring and for every
   length, (b) proved symmetric in *any* arithmetic whose fused multiply-add commutes in its two
   factors (which IEEE arithmetic does, bit for bit), and (c) run on `Int` by the driver against
   the real kernels on small integer inputs.  The numbers of the model (block of 32 items, four
   accumulators of 8 lanes at byte offsets 0/32/64/96, pointer increments 128 and 4, the reduction
   sequence) are pinned to the `.s` files by tools/facts_c20 → Generated/FactsC20.lean and the
   theorems `facts_dot_pinned`, `facts_euclidean_pinned` in Props.lean.
-/
import SemaModel.Base.GoRt
import SemaModel.Generated.FactsC20
namespace Sema.C20
open Sema

/-! ### bit metrics: specification vocabulary -/

/-- the thresholded bit of dimension `i`: Go's `v > threshold[i]` on float32 (NaN compares false) -/
def bit (t x : List (BitVec 32)) (i : Nat) : Bool := F32.gt (Go.idx32 x i) (Go.idx32 t i)

/-- bit `i` of a packed word list: bit `i % 64` of word `i / 64` -/
def wbit (w : List (BitVec 64)) (i : Nat) : Bool := (Go.idx64 w (i / 64)).getLsbD (i % 64)

/-- `|{i < n | p i}|` -/
def card (n : Nat) (p : Nat → Bool) : Nat := (List.range n).countP p

/-- number of 64-bit words for `n` dimensions, ⌈n/64⌉ -/
def nwords (n : Nat) : Nat := (n + 63) / 64

/-- the value jaccardDistance must produce from the two cardinalities (float division and
subtraction stay symbolic: `Go.FExpr`) -/
def jaccardOf (inter union : Nat) : Go.FExpr :=
  if union = 0 then Go.FExpr.lit 0
  else Go.FExpr.sub (Go.FExpr.lit 1) (Go.FExpr.div (Go.FExpr.ofNat inter) (Go.FExpr.ofNat union))

/-! ### the AVX kernels -/

/-- the arithmetic a kernel uses.  `fma a b c` is the fused `a*b + c` of VFMADD231PS / VFMADD231SS
(one rounding in hardware, which is why it is one operation here). -/
structure Ops (R : Type) where
  zero : R
  add : R → R → R
  sub : R → R → R
  fma : R → R → R → R

def Ops.int : Ops Int := { zero := 0, add := (· + ·), sub := (· - ·), fma := fun a b c => a * b + c }

/-- which kernel: what one lane does with its pair of items -/
inductive Kind where
  | mul     -- dot.s:        VFMADD231PS off(CX), Yx, Yacc            acc := x*y + acc
  | sqdif   -- euclidean.s:  VSUBPS off(CX), Yx, Yd ; VFMADD231PS Yd, Yd, Yacc     d := x−y ; acc := d*d + acc
  deriving DecidableEq, Repr

section
variable {R : Type} (o : Ops R)

/-- one lane of one loop iteration -/
def Kind.step (k : Kind) (x y acc : R) : R :=
  match k with
  | .mul => o.fma x y acc
  | .sqdif => let d := o.sub x y; o.fma d d acc

/-- model constants (items are float32 values, 4 bytes each) -/
def lanes : Nat := 8          -- a Y register holds 8 float32 lanes
def unroll : Nat := 4         -- four accumulators
def blockItems : Nat := 32    -- CMPQ n, $0x20 / SUBQ $0x20, n
def itemBytes : Nat := 4

/-- `VMOVUPS off(P), Y`: the 8 items starting at item index `p` -/
def ld8 (m : List R) (p : Nat) : List R := (m.drop p).take lanes

/-- lane-wise step of one accumulator register -/
def vstep (k : Kind) : List R → List R → List R → List R
  | x :: xs, y :: ys, a :: as => k.step o x y a :: vstep k xs ys as
  | _, _, _ => []

def vadd : List R → List R → List R
  | a :: as, b :: bs => o.add a b :: vadd as bs
  | _, _ => []

/-- machine state of the loops: the two pointers (in items from the slice base), the remaining
length, the four accumulators -/
structure KState (R : Type) where
  px : Nat
  py : Nat
  n : Nat
  a0 : List R
  a1 : List R
  a2 : List R
  a3 : List R

/-- `blockloop:` CMPQ n,$32 ; JL tail ; 4× load ; 4× (sub) fma ; ADDQ $128,px ; ADDQ $128,py ;
SUBQ $32,n ; JMP blockloop -/
def blockLoop (k : Kind) (x y : List R) (s : KState R) : KState R :=
  if _h : s.n < blockItems then s
  else
    blockLoop k x y
      { px := s.px + blockItems, py := s.py + blockItems, n := s.n - blockItems,
        a0 := vstep o k (ld8 x s.px) (ld8 y s.py) s.a0,
        a1 := vstep o k (ld8 x (s.px + lanes)) (ld8 y (s.py + lanes)) s.a1,
        a2 := vstep o k (ld8 x (s.px + 2 * lanes)) (ld8 y (s.py + 2 * lanes)) s.a2,
        a3 := vstep o k (ld8 x (s.px + 3 * lanes)) (ld8 y (s.py + 3 * lanes)) s.a3 }
termination_by s.n
decreasing_by simp only [blockItems] at *; omega

/-- `tailloop:` CMPQ n,$0 ; JE reduce ; VMOVSS (px) ; (VSUBSS (py)) ; VFMADD231SS ; ADDQ $4,px ;
ADDQ $4,py ; DECQ n ; JMP tailloop.  `t` is lane 0 of the tail accumulator (lanes 1–3 stay 0). -/
def tailLoop (k : Kind) (x y : List R) (px py : Nat) : Nat → R → R
  | 0, t => t
  | n + 1, t => tailLoop k x y (px + 1) (py + 1) n (k.step o (x.getD px o.zero) (y.getD py o.zero) t)

/-- `VHADDPS X, X, X` on a 4-lane register -/
def hadd : List R → List R
  | [a, b, c, d] => [o.add a b, o.add c d, o.add a b, o.add c d]
  | _ => []

/-- `reduce:` VADDPS Y0,Y1,Y0 ; VADDPS Y0,Y2,Y0 ; VADDPS Y0,Y3,Y0 ; VEXTRACTF128 $1,Y0,Xtop ;
VADDPS X0,Xtop,X0 ; VADDPS X0,Xtail,X0 ; VHADDPS ; VHADDPS ; MOVSS X0,ret
(Go operand order: `VADDPS b, a, dst` is `dst := a + b`). -/
def reduce (a0 a1 a2 a3 : List R) (t : R) : R :=
  let v := vadd o a1 a0
  let v := vadd o a2 v
  let v := vadd o a3 v
  let top := v.drop 4
  let lo := vadd o top (v.take 4)
  let lo := vadd o [t, o.zero, o.zero, o.zero] lo
  ((hadd o (hadd o lo)).getD 0 o.zero)

def vzero : List R := List.replicate lanes o.zero

/-- the whole kernel: the length is taken from `x` only (MOVQ x_len+8(FP), n) -/
def kernel (k : Kind) (x y : List R) : R :=
  let s := blockLoop o k x y { px := 0, py := 0, n := x.length, a0 := vzero o, a1 := vzero o, a2 := vzero o, a3 := vzero o }
  let t := tailLoop o k x y s.px s.py s.n o.zero
  reduce o s.a0 s.a1 s.a2 s.a3 t

def kernelDot (x y : List R) : R := kernel o .mul x y
def kernelL2 (x y : List R) : R := kernel o .sqdif x y

end

/-- what tools/facts_c20 must find in a `.s` file for the model above to be the model of that file
(byte offsets / increments derived from the model constants) -/
def shape (k : Kind) : Gen.FactsC20.KernelFacts :=
  let kind := match k with | .mul => 0 | .sqdif => 1
  let offs := (List.range unroll).map (· * lanes * itemBytes)
  { lenFromX := true, blockCmp := blockItems,
    accRegs := List.range unroll, accZeroed := true,
    xOffs := offs, yOffs := offs, termKinds := List.replicate unroll kind,
    vecBytes := lanes * itemBytes,
    ptrAddX := blockItems * itemBytes, ptrAddY := blockItems * itemBytes, cntSub := blockItems,
    tailCmp := 0, tailTermKind := kind, tailPtrAddX := itemBytes, tailPtrAddY := itemBytes, tailDec := 1,
    tailAccZeroed := true, reduceFold := (List.range unroll).tail, reduceTail := [1, 2, 3, 4, 4, 5] }

end Sema.C20

namespace Sema.C20

/-- the two laws the symmetry of the kernels rests on; both hold bit for bit for IEEE-754 arithmetic
on non-NaN values (multiplication commutes inside the fused multiply-add; `a−b` and `b−a` are exact
negations of each other and `d*d = (−d)*(−d)`), without any associativity -/
structure Ops.Symmetric {R : Type} (o : Ops R) : Prop where
  fma_comm : ∀ a b c, o.fma a b c = o.fma b a c
  sq_sub_comm : ∀ a b c, o.fma (o.sub a b) (o.sub a b) c = o.fma (o.sub b a) (o.sub b a) c

/-- exchange the roles of the two pointers -/
def KState.swap {R : Type} (s : KState R) : KState R := { s with px := s.py, py := s.px }

end Sema.C20
