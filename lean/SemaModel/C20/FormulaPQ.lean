/-
C20 — the product-quantised distances as theorems about the definitions generated from
shard/vectorstore/product.go (SemaModel/Generated/PQDist.lean).

Once the quantiser is fitted, `DistanceFromFloat(x)` builds a table `dists[i·K + j] = distFn(x_i, centroid_{i,j})`
(sub-vector `i` of the query against centroid `j` of sub-space `i`; `pq_tableFromFloat`, generated, two nested
loops) and the distance to a stored point is the SUM over the sub-vectors of one table look-up each, at the
point's centroid id; `DistanceFromPoint` sums look-ups in the pre-computed centroid-to-centroid table.
The theorems state exactly that: which entries, in which order, added from the left to 0 (`FExpr.sumL`).
Floats are symbolic (`Go.FExpr`); IEEE rounding is not interpreted; driver: `pqf` / `pqp` op lines.
-/
import SemaModel.Generated.PQDist
namespace Sema.C20
open Sema Sema.Go Sema.Gen.PQDist

namespace FormulaPQ

/-- a counting loop that adds `term i` for `i = k, k+1, …, N-1` -/
theorem fold_range' (term : Int → FExpr) (acc : FExpr) (k m : Nat) :
    (List.range' (k + 1) m).foldl (fun s j => FExpr.add s (term (j : Nat))) (FExpr.add acc (term (k : Nat))) =
      (List.range' k (m + 1)).foldl (fun s j => FExpr.add s (term (j : Nat))) acc := by
  simp [List.range'_succ]

theorem sumL_range (term : Int → FExpr) (N : Nat) :
    (List.range' 0 N).foldl (fun s j => FExpr.add s (term (j : Nat))) (FExpr.lit 0) =
      FExpr.sumL ((List.range N).map fun j => term (j : Nat)) := by
  rw [FExpr.sumL, List.foldl_map, List.range_eq_range']

theorem lookupFloat_loop (dists : List FExpr) (pointY : productQuantizedPoint) (pq : productQuantizer) (N : Nat)
    (hN : pq.params.NumSubVectors = (N : Int)) :
    ∀ (m k : Nat) (acc : FExpr) (fuel : Nat), k + m = N → m < fuel →
      pq_lookupFromFloat_loop1 dists pointY pq fuel acc (k : Nat) =
        .next ((List.range' k m).foldl (fun s j => FExpr.add s
          (Go.getI dists (((j : Nat) : Int) * pq.params.NumCentroids + (BitVec.toNat (Go.getI pointY.CentroidIds ((j : Nat) : Int)) : Int)))) acc, (N : Int)) := by
  intro m
  induction m with
  | zero =>
    intro k acc fuel hk hf
    obtain ⟨f, rfl⟩ : ∃ f, fuel = f + 1 := ⟨fuel - 1, by omega⟩
    have : k = N := by omega
    subst this
    simp [pq_lookupFromFloat_loop1, hN]
  | succ m ih =>
    intro k acc fuel hk hf
    obtain ⟨f, rfl⟩ : ∃ f, fuel = f + 1 := ⟨fuel - 1, by omega⟩
    have hlt : ((k : Nat) : Int) < (N : Int) := by omega
    have hstep : ((k : Nat) : Int) + 1 = ((k + 1 : Nat) : Int) := by omega
    simp only [pq_lookupFromFloat_loop1, hN, hlt, decide_true, if_true, hstep]
    rw [ih (k + 1) _ f (by omega) (by omega)]
    congr 2

theorem lookupPoint_loop (pointX pointY : productQuantizedPoint) (pq : productQuantizer) (N : Nat)
    (hN : pq.params.NumSubVectors = (N : Int)) :
    ∀ (m k : Nat) (acc : FExpr) (fuel : Nat), k + m = N → m < fuel →
      pq_lookupFromPoint_loop1 pointX pointY pq fuel acc (k : Nat) =
        .next ((List.range' k m).foldl (fun s j => FExpr.add s
          (Go.getI pq.centroidDists (productQuantizer_centroidDistIdx pq ((j : Nat) : Int)
            (BitVec.toNat (Go.getI pointX.CentroidIds ((j : Nat) : Int)) : Int) (BitVec.toNat (Go.getI pointY.CentroidIds ((j : Nat) : Int)) : Int)))) acc, (N : Int)) := by
  intro m
  induction m with
  | zero =>
    intro k acc fuel hk hf
    obtain ⟨f, rfl⟩ : ∃ f, fuel = f + 1 := ⟨fuel - 1, by omega⟩
    have : k = N := by omega
    subst this
    simp [pq_lookupFromPoint_loop1, hN]
  | succ m ih =>
    intro k acc fuel hk hf
    obtain ⟨f, rfl⟩ : ∃ f, fuel = f + 1 := ⟨fuel - 1, by omega⟩
    have hlt : ((k : Nat) : Int) < (N : Int) := by omega
    have hstep : ((k : Nat) : Int) + 1 = ((k + 1 : Nat) : Int) := by omega
    simp only [pq_lookupFromPoint_loop1, hN, hlt, decide_true, if_true, hstep]
    rw [ih (k + 1) _ f (by omega) (by omega)]
    congr 2

end FormulaPQ

/-- `centroidDistIdx(i, a, b) = i·K·K + a·K + b` (K = NumCentroids): entry `(a, b)` of sub-space `i`'s K×K table -/
theorem pq_centroidDistIdx_formula (pq : productQuantizer) (i a b : Int) :
    productQuantizer_centroidDistIdx pq i a b = i * pq.params.NumCentroids * pq.params.NumCentroids + a * pq.params.NumCentroids + b := rfl

/-- `flatCentroidSlice(i, j) = [i·K·L + j·L, … + L)` (L = subVectorLen): centroid `j` of sub-space `i` -/
theorem pq_flatCentroidSlice_formula (pq : productQuantizer) (i j : Int) :
    productQuantizer_flatCentroidSlice pq i j =
      (i * pq.params.NumCentroids * pq.subVectorLen + j * pq.subVectorLen,
       i * pq.params.NumCentroids * pq.subVectorLen + j * pq.subVectorLen + pq.subVectorLen) := rfl

/-- **quantised distance, query vector against a stored point**: Σ_{i < NumSubVectors} dists[i·K + code_y[i]],
added from the left to 0 — for every table `dists`, every code, every parameter value -/
theorem pq_distance_from_float_formula (pq : productQuantizer) (dists : List FExpr) (pointY : productQuantizedPoint) :
    pq_lookupFromFloat pq dists pointY = .ret (FExpr.sumL ((List.range pq.params.NumSubVectors.toNat).map fun (i : Nat) =>
      Go.getI dists ((i : Int) * pq.params.NumCentroids + (BitVec.toNat (Go.getI pointY.CentroidIds (i : Int)) : Int)))) := by
  unfold pq_lookupFromFloat
  by_cases h : 0 ≤ pq.params.NumSubVectors
  · obtain ⟨N, hN⟩ := Int.eq_ofNat_of_zero_le h
    have := FormulaPQ.lookupFloat_loop dists pointY pq N hN N 0 (FExpr.lit 0) (Go.countFuel 0 pq.params.NumSubVectors) (by omega)
      (by simp [Go.countFuel, hN])
    have h00 : ((0 : Nat) : Int) = 0 := rfl
    rw [h00] at this
    show (pq_lookupFromFloat_loop1 dists pointY pq (Go.countFuel 0 pq.params.NumSubVectors) (FExpr.lit 0) 0).finish _ = _
    rw [this]
    simp only [Go.Ctl.finish, hN, Int.toNat_natCast]
    rw [FormulaPQ.sumL_range (fun i => Go.getI dists (i * pq.params.NumCentroids + (BitVec.toNat (Go.getI pointY.CentroidIds i) : Int)))]
  · have hneg : pq.params.NumSubVectors < 0 := by omega
    have h0 : pq.params.NumSubVectors.toNat = 0 := by omega
    have hf : Go.countFuel 0 pq.params.NumSubVectors = 1 := by simp [Go.countFuel]; omega
    have hc : ¬ ((0 : Int) < pq.params.NumSubVectors) := by omega
    simp [hf, pq_lookupFromFloat_loop1, hc, Go.Ctl.finish, h0, FExpr.sumL]

/-- **quantised distance, stored point against stored point**: Σ_{i < NumSubVectors} centroidDists[idx(i, code_x[i], code_y[i])] -/
theorem pq_distance_from_point_formula (pq : productQuantizer) (pointX pointY : productQuantizedPoint) :
    pq_lookupFromPoint pq pointX pointY = .ret (FExpr.sumL ((List.range pq.params.NumSubVectors.toNat).map fun (i : Nat) =>
      Go.getI pq.centroidDists (productQuantizer_centroidDistIdx pq (i : Int)
        (BitVec.toNat (Go.getI pointX.CentroidIds (i : Int)) : Int) (BitVec.toNat (Go.getI pointY.CentroidIds (i : Int)) : Int)))) := by
  unfold pq_lookupFromPoint
  by_cases h : 0 ≤ pq.params.NumSubVectors
  · obtain ⟨N, hN⟩ := Int.eq_ofNat_of_zero_le h
    have := FormulaPQ.lookupPoint_loop pointX pointY pq N hN N 0 (FExpr.lit 0) (Go.countFuel 0 pq.params.NumSubVectors) (by omega)
      (by simp [Go.countFuel, hN])
    have h00 : ((0 : Nat) : Int) = 0 := rfl
    rw [h00] at this
    show (pq_lookupFromPoint_loop1 pointX pointY pq (Go.countFuel 0 pq.params.NumSubVectors) (FExpr.lit 0) 0).finish _ = _
    rw [this]
    simp only [Go.Ctl.finish, hN, Int.toNat_natCast]
    rw [FormulaPQ.sumL_range (fun i => Go.getI pq.centroidDists (productQuantizer_centroidDistIdx pq i
      (BitVec.toNat (Go.getI pointX.CentroidIds i) : Int) (BitVec.toNat (Go.getI pointY.CentroidIds i) : Int)))]
  · have hneg : pq.params.NumSubVectors < 0 := by omega
    have h0 : pq.params.NumSubVectors.toNat = 0 := by omega
    have hf : Go.countFuel 0 pq.params.NumSubVectors = 1 := by simp [Go.countFuel]; omega
    have hc : ¬ ((0 : Int) < pq.params.NumSubVectors) := by omega
    simp [hf, pq_lookupFromPoint_loop1, hc, Go.Ctl.finish, h0, FExpr.sumL]

/-- two sub-vectors, four centroids: the look-ups are entries `0·4 + 3` and `1·4 + 1` of the table -/
example : pq_lookupFromFloat ⟨⟨4, 2, 0⟩, fun _ _ => .lit 0, 1, [], []⟩
    [.lit 10, .lit 11, .lit 12, .lit 13, .lit 20, .lit 21, .lit 22, .lit 23] ⟨[], [3#8, 1#8]⟩ =
    .ret (.add (.add (.lit 0) (.lit 13)) (.lit 21)) := by decide

end Sema.C20
