/-
C20 — the product-quantised distances as theorems about the definitions generated from
shard/vectorstore/product.go (SemaModel/Generated/PQDist.lean).

Once the quantiser is fitted, `DistanceFromFloat(x)` builds a table `dists[i·K + j] = distFn(x_i, centroid_{i,j})`
(sub-vector `i` of the query against centroid `j` of sub-space `i`; `pq_tableFromFloat`, generated, two nested
loops) and the distance to a stored point is the SUM over the sub-vectors of one table look-up each, at the
point's centroid id; `DistanceFromPoint` sums look-ups in the pre-computed centroid-to-centroid table.
The theorems state exactly that: which entries, in which order, added from the left to 0 (`FExpr.sumL`); `pq_table_formula` is the
table (row-major, each entry computed once), `pq_quantised_distance_formula` the two composed: Σ_i distFn(x_i, centroid_{i, code_y[i]}).
Floats are symbolic (`Go.FExpr`); IEEE rounding is not interpreted; driver: `pqf` / `pqp` op lines.
-/
import SemaModel.Generated.PQDist
namespace Sema.C20
open Sema Sema.Go Sema.Gen.PQDist

namespace FormulaPQ

/-- a counting loop that adds `term i` for `i = k, k+1, …, N-1` -/
theorem fold_range' (term : Int → FExpr) (acc : FExpr) (k m : Nat) :
    (List.range' (k + 1) m).foldl (fun s j => FExpr.add s (term (j : Nat))) (FExpr.add acc (term (k : Nat))) =
      (List.range' k (m + 1)).foldl (fun s j => FExpr.add s (term (j : Nat))) acc := by
  simp [List.range'_succ]

theorem sumL_range (term : Int → FExpr) (N : Nat) :
    (List.range' 0 N).foldl (fun s j => FExpr.add s (term (j : Nat))) (FExpr.lit 0) =
      FExpr.sumL ((List.range N).map fun j => term (j : Nat)) := by
  rw [FExpr.sumL, List.foldl_map, List.range_eq_range']

theorem lookupFloat_loop (dists : List FExpr) (pointY : productQuantizedPoint) (pq : productQuantizer) (N : Nat)
    (hN : pq.params.NumSubVectors = (N : Int)) :
    ∀ (m k : Nat) (acc : FExpr) (fuel : Nat), k + m = N → m < fuel →
      pq_lookupFromFloat_loop1 dists pointY pq fuel acc (k : Nat) =
        .next ((List.range' k m).foldl (fun s j => FExpr.add s
          (Go.getI dists (((j : Nat) : Int) * pq.params.NumCentroids + (BitVec.toNat (Go.getI pointY.CentroidIds ((j : Nat) : Int)) : Int)))) acc, (N : Int)) := by
  intro m
  induction m with
  | zero =>
    intro k acc fuel hk hf
    obtain ⟨f, rfl⟩ : ∃ f, fuel = f + 1 := ⟨fuel - 1, by omega⟩
    have : k = N := by omega
    subst this
    simp [pq_lookupFromFloat_loop1, hN]
  | succ m ih =>
    intro k acc fuel hk hf
    obtain ⟨f, rfl⟩ : ∃ f, fuel = f + 1 := ⟨fuel - 1, by omega⟩
    have hlt : ((k : Nat) : Int) < (N : Int) := by omega
    have hstep : ((k : Nat) : Int) + 1 = ((k + 1 : Nat) : Int) := by omega
    simp only [pq_lookupFromFloat_loop1, hN, hlt, decide_true, if_true, hstep]
    rw [ih (k + 1) _ f (by omega) (by omega)]
    congr 2

theorem lookupPoint_loop (pointX pointY : productQuantizedPoint) (pq : productQuantizer) (N : Nat)
    (hN : pq.params.NumSubVectors = (N : Int)) :
    ∀ (m k : Nat) (acc : FExpr) (fuel : Nat), k + m = N → m < fuel →
      pq_lookupFromPoint_loop1 pointX pointY pq fuel acc (k : Nat) =
        .next ((List.range' k m).foldl (fun s j => FExpr.add s
          (Go.getI pq.centroidDists (productQuantizer_centroidDistIdx pq ((j : Nat) : Int)
            (BitVec.toNat (Go.getI pointX.CentroidIds ((j : Nat) : Int)) : Int) (BitVec.toNat (Go.getI pointY.CentroidIds ((j : Nat) : Int)) : Int)))) acc, (N : Int)) := by
  intro m
  induction m with
  | zero =>
    intro k acc fuel hk hf
    obtain ⟨f, rfl⟩ : ∃ f, fuel = f + 1 := ⟨fuel - 1, by omega⟩
    have : k = N := by omega
    subst this
    simp [pq_lookupFromPoint_loop1, hN]
  | succ m ih =>
    intro k acc fuel hk hf
    obtain ⟨f, rfl⟩ : ∃ f, fuel = f + 1 := ⟨fuel - 1, by omega⟩
    have hlt : ((k : Nat) : Int) < (N : Int) := by omega
    have hstep : ((k : Nat) : Int) + 1 = ((k + 1 : Nat) : Int) := by omega
    simp only [pq_lookupFromPoint_loop1, hN, hlt, decide_true, if_true, hstep]
    rw [ih (k + 1) _ f (by omega) (by omega)]
    congr 2

end FormulaPQ

/-- `centroidDistIdx(i, a, b) = i·K·K + a·K + b` (K = NumCentroids): entry `(a, b)` of sub-space `i`'s K×K table -/
theorem pq_centroidDistIdx_formula (pq : productQuantizer) (i a b : Int) :
    productQuantizer_centroidDistIdx pq i a b = i * pq.params.NumCentroids * pq.params.NumCentroids + a * pq.params.NumCentroids + b := rfl

/-- `flatCentroidSlice(i, j) = [i·K·L + j·L, … + L)` (L = subVectorLen): centroid `j` of sub-space `i` -/
theorem pq_flatCentroidSlice_formula (pq : productQuantizer) (i j : Int) :
    productQuantizer_flatCentroidSlice pq i j =
      (i * pq.params.NumCentroids * pq.subVectorLen + j * pq.subVectorLen,
       i * pq.params.NumCentroids * pq.subVectorLen + j * pq.subVectorLen + pq.subVectorLen) := rfl

/-- **quantised distance, query vector against a stored point**: Σ_{i < NumSubVectors} dists[i·K + code_y[i]],
added from the left to 0 — for every table `dists`, every code, every parameter value -/
theorem pq_distance_from_float_formula (pq : productQuantizer) (dists : List FExpr) (pointY : productQuantizedPoint) :
    pq_lookupFromFloat pq dists pointY = .ret (FExpr.sumL ((List.range pq.params.NumSubVectors.toNat).map fun (i : Nat) =>
      Go.getI dists ((i : Int) * pq.params.NumCentroids + (BitVec.toNat (Go.getI pointY.CentroidIds (i : Int)) : Int)))) := by
  unfold pq_lookupFromFloat
  by_cases h : 0 ≤ pq.params.NumSubVectors
  · obtain ⟨N, hN⟩ := Int.eq_ofNat_of_zero_le h
    have := FormulaPQ.lookupFloat_loop dists pointY pq N hN N 0 (FExpr.lit 0) (Go.countFuel 0 pq.params.NumSubVectors) (by omega)
      (by simp [Go.countFuel, hN])
    have h00 : ((0 : Nat) : Int) = 0 := rfl
    rw [h00] at this
    show (pq_lookupFromFloat_loop1 dists pointY pq (Go.countFuel 0 pq.params.NumSubVectors) (FExpr.lit 0) 0).finish _ = _
    rw [this]
    simp only [Go.Ctl.finish, hN, Int.toNat_natCast]
    rw [FormulaPQ.sumL_range (fun i => Go.getI dists (i * pq.params.NumCentroids + (BitVec.toNat (Go.getI pointY.CentroidIds i) : Int)))]
  · have hneg : pq.params.NumSubVectors < 0 := by omega
    have h0 : pq.params.NumSubVectors.toNat = 0 := by omega
    have hf : Go.countFuel 0 pq.params.NumSubVectors = 1 := by simp [Go.countFuel]; omega
    have hc : ¬ ((0 : Int) < pq.params.NumSubVectors) := by omega
    simp [hf, pq_lookupFromFloat_loop1, hc, Go.Ctl.finish, h0, FExpr.sumL]

/-- **quantised distance, stored point against stored point**: Σ_{i < NumSubVectors} centroidDists[idx(i, code_x[i], code_y[i])] -/
theorem pq_distance_from_point_formula (pq : productQuantizer) (pointX pointY : productQuantizedPoint) :
    pq_lookupFromPoint pq pointX pointY = .ret (FExpr.sumL ((List.range pq.params.NumSubVectors.toNat).map fun (i : Nat) =>
      Go.getI pq.centroidDists (productQuantizer_centroidDistIdx pq (i : Int)
        (BitVec.toNat (Go.getI pointX.CentroidIds (i : Int)) : Int) (BitVec.toNat (Go.getI pointY.CentroidIds (i : Int)) : Int)))) := by
  unfold pq_lookupFromPoint
  by_cases h : 0 ≤ pq.params.NumSubVectors
  · obtain ⟨N, hN⟩ := Int.eq_ofNat_of_zero_le h
    have := FormulaPQ.lookupPoint_loop pointX pointY pq N hN N 0 (FExpr.lit 0) (Go.countFuel 0 pq.params.NumSubVectors) (by omega)
      (by simp [Go.countFuel, hN])
    have h00 : ((0 : Nat) : Int) = 0 := rfl
    rw [h00] at this
    show (pq_lookupFromPoint_loop1 pointX pointY pq (Go.countFuel 0 pq.params.NumSubVectors) (FExpr.lit 0) 0).finish _ = _
    rw [this]
    simp only [Go.Ctl.finish, hN, Int.toNat_natCast]
    rw [FormulaPQ.sumL_range (fun i => Go.getI pq.centroidDists (productQuantizer_centroidDistIdx pq i
      (BitVec.toNat (Go.getI pointX.CentroidIds i) : Int) (BitVec.toNat (Go.getI pointY.CentroidIds i) : Int)))]
  · have hneg : pq.params.NumSubVectors < 0 := by omega
    have h0 : pq.params.NumSubVectors.toNat = 0 := by omega
    have hf : Go.countFuel 0 pq.params.NumSubVectors = 1 := by simp [Go.countFuel]; omega
    have hc : ¬ ((0 : Int) < pq.params.NumSubVectors) := by omega
    simp [hf, pq_lookupFromPoint_loop1, hc, Go.Ctl.finish, h0, FExpr.sumL]

/-- two sub-vectors, four centroids: the look-ups are entries `0·4 + 3` and `1·4 + 1` of the table -/
example : pq_lookupFromFloat ⟨⟨4, 2, 0⟩, fun _ _ => .lit 0, 1, [], []⟩
    [.lit 10, .lit 11, .lit 12, .lit 13, .lit 20, .lit 21, .lit 22, .lit 23] ⟨[], [3#8, 1#8]⟩ =
    .ret (.add (.add (.lit 0) (.lit 13)) (.lit 21)) := by decide

/-! ### the look-up table of `DistanceFromFloat` (two nested loops with in-place writes) and its composition with the look-up -/

namespace FormulaPQ

/-- entry `(i, j)` of the look-up table of `DistanceFromFloat(x)`: sub-vector `i` of the query against centroid `j` of sub-space `i` -/
def tableEntry (pq : productQuantizer) (x : List FExpr) (i j : Nat) : FExpr :=
  pq.distFn (Go.sliceI x ((i : Int) * pq.subVectorLen) (((i : Int) + 1) * pq.subVectorLen))
    (Go.sliceI pq.flatCentroids (productQuantizer_flatCentroidSlice pq i j).1 (productQuantizer_flatCentroidSlice pq i j).2)

/-- rows `0 … i-1` of the table, row-major -/
def tableRows (pq : productQuantizer) (x : List FExpr) (K i : Nat) : List FExpr :=
  (List.range i).flatMap fun i' => (List.range K).map (tableEntry pq x i')

theorem tableRows_length (pq : productQuantizer) (x : List FExpr) (K i : Nat) : (tableRows pq x K i).length = i * K := by
  induction i with
  | zero => simp [tableRows]
  | succ i ih =>
    have : tableRows pq x K (i + 1) = tableRows pq x K i ++ (List.range K).map (tableEntry pq x i) := by
      simp [tableRows, List.range_succ, List.flatMap_append]
    rw [this, List.length_append, ih]; simp [Nat.succ_mul]

theorem tableRows_succ (pq : productQuantizer) (x : List FExpr) (K i : Nat) :
    tableRows pq x K (i + 1) = tableRows pq x K i ++ (List.range K).map (tableEntry pq x i) := by
  simp [tableRows, List.range_succ, List.flatMap_append]

/-- writing position `p` of a list whose first `p` items are `pre` makes its first `p+1` items `pre ++ [v]` -/
theorem take_set_succ {α : Type} (T : List α) (p : Nat) (v : α) (pre : List α) (hp : p < T.length) (h : T.take p = pre) :
    (T.set p v).take (p + 1) = pre ++ [v] := by
  subst h
  rw [List.take_add_one]
  simp [List.take_set_of_le, hp]

/-- the inner loop: row `i`, columns `j … K-1` -/
theorem table_loop2 (pq : productQuantizer) (x : List FExpr) (K NS : Nat) (hK : pq.params.NumCentroids = (K : Int))
    (i : Nat) (hi : i < NS) :
    ∀ (m j : Nat) (T : List FExpr) (fuel : Nat), j + m = K → m < fuel → T.length = NS * K →
      T.take (i * K + j) = tableRows pq x K i ++ (List.range j).map (tableEntry pq x i) →
      ∃ T', pq_tableFromFloat_loop2 (i : Int) pq (Go.sliceI x ((i : Int) * pq.subVectorLen) (((i : Int) + 1) * pq.subVectorLen)) fuel T (j : Int) =
          .next (T', (K : Int)) ∧ T'.length = NS * K ∧ T'.take ((i + 1) * K) = tableRows pq x K (i + 1) := by
  intro m
  induction m with
  | zero =>
    intro j T fuel hj hf hl ht
    obtain ⟨f, rfl⟩ : ∃ f, fuel = f + 1 := ⟨fuel - 1, by omega⟩
    have : j = K := by omega
    subst this
    refine ⟨T, ?_, hl, ?_⟩
    · simp [pq_tableFromFloat_loop2, hK]
    · rw [tableRows_succ, ← ht]; congr 1; rw [Nat.succ_mul]
  | succ m ih =>
    intro j T fuel hj hf hl ht
    obtain ⟨f, rfl⟩ : ∃ f, fuel = f + 1 := ⟨fuel - 1, by omega⟩
    have hlt : ((j : Nat) : Int) < (K : Int) := by omega
    have hstep : ((j : Nat) : Int) + 1 = ((j + 1 : Nat) : Int) := by omega
    have hidx : ((i : Nat) : Int) * (K : Int) + ((j : Nat) : Int) = ((i * K + j : Nat) : Int) := by push_cast; rfl
    have hpos : i * K + j < T.length := by
      rw [hl]
      calc i * K + j < i * K + K := by omega
        _ = (i + 1) * K := by rw [Nat.succ_mul]
        _ ≤ NS * K := Nat.mul_le_mul_right K hi
    simp only [pq_tableFromFloat_loop2, hK, hlt, decide_true, if_true, hstep, hidx]
    have hset : Go.setI T ((i * K + j : Nat) : Int) (tableEntry pq x i j) = T.set (i * K + j) (tableEntry pq x i j) := by
      have h0 : ¬ (((i * K + j : Nat) : Int) < 0) := by omega
      unfold Go.setI
      rw [if_neg h0, Int.toNat_natCast]
    have hentry : pq.distFn (Go.sliceI x ((i : Int) * pq.subVectorLen) (((i : Int) + 1) * pq.subVectorLen))
        (Go.sliceI pq.flatCentroids (productQuantizer_flatCentroidSlice pq i j).1 (productQuantizer_flatCentroidSlice pq i j).2) = tableEntry pq x i j := rfl
    rw [hentry, hset]
    apply ih (j + 1) _ f (by omega) (by omega) (by simp [hl])
    have := take_set_succ T (i * K + j) (tableEntry pq x i j) _ hpos ht
    rw [show i * K + (j + 1) = i * K + j + 1 by omega, this, List.append_assoc]
    congr 1
    simp [List.range_succ]

/-- the outer loop: rows `i … NS-1` -/
theorem table_loop1 (pq : productQuantizer) (x : List FExpr) (K NS : Nat) (hK : pq.params.NumCentroids = (K : Int))
    (hNS : pq.params.NumSubVectors = (NS : Int)) :
    ∀ (m i : Nat) (T : List FExpr) (fuel : Nat), i + m = NS → m < fuel → T.length = NS * K →
      T.take (i * K) = tableRows pq x K i →
      ∃ T', pq_tableFromFloat_loop1 pq x fuel T (i : Int) = .next (T', (NS : Int)) ∧ T'.length = NS * K ∧
        T'.take (NS * K) = tableRows pq x K NS := by
  intro m
  induction m with
  | zero =>
    intro i T fuel hi hf hl ht
    obtain ⟨f, rfl⟩ : ∃ f, fuel = f + 1 := ⟨fuel - 1, by omega⟩
    have : i = NS := by omega
    subst this
    exact ⟨T, by simp [pq_tableFromFloat_loop1, hNS], hl, ht⟩
  | succ m ih =>
    intro i T fuel hi hf hl ht
    obtain ⟨f, rfl⟩ : ∃ f, fuel = f + 1 := ⟨fuel - 1, by omega⟩
    have hlt : ((i : Nat) : Int) < (NS : Int) := by omega
    have hstep : ((i : Nat) : Int) + 1 = ((i + 1 : Nat) : Int) := by omega
    have hfuel : Go.countFuel 0 pq.params.NumCentroids = K + 1 := by simp [Go.countFuel, hK]
    obtain ⟨T1, h1, hl1, ht1⟩ := table_loop2 pq x K NS hK i (by omega) K 0 T (K + 1) (by omega) (by omega) hl (by simpa using ht)
    have h00 : ((0 : Nat) : Int) = 0 := rfl
    rw [h00] at h1
    obtain ⟨T2, h2, hl2, ht2⟩ := ih (i + 1) T1 f (by omega) (by omega) hl1 ht1
    refine ⟨T2, ?_, hl2, ht2⟩
    simp only [pq_tableFromFloat_loop1, hNS, hlt, decide_true, if_true, hfuel]
    rw [h1]
    simp only [Go.Ctl.andThen, hstep]
    exact h2

end FormulaPQ

/-- **the look-up table of `DistanceFromFloat(x)`**: row-major, entry `(i, j)` = `distFn(x[i·L : (i+1)·L], flatCentroids[slice(i, j)])` — sub-vector
`i` of the query against centroid `j` of sub-space `i` — for every `i < NumSubVectors`, `j < NumCentroids`, each computed once -/
theorem pq_table_formula (pq : productQuantizer) (x : List FExpr) (hNS : 0 ≤ pq.params.NumSubVectors) (hK : 0 ≤ pq.params.NumCentroids) :
    pq_tableFromFloat pq x = .ret ((List.range pq.params.NumSubVectors.toNat).flatMap fun i =>
      (List.range pq.params.NumCentroids.toNat).map (FormulaPQ.tableEntry pq x i)) := by
  obtain ⟨NS, hNS'⟩ := Int.eq_ofNat_of_zero_le hNS
  obtain ⟨K, hK'⟩ := Int.eq_ofNat_of_zero_le hK
  have hlen : (List.replicate (pq.params.NumSubVectors * pq.params.NumCentroids).toNat (FExpr.lit 0)).length = NS * K := by
    rw [hNS', hK', List.length_replicate, ← Int.natCast_mul, Int.toNat_natCast]
  obtain ⟨T', h, hl, ht⟩ := FormulaPQ.table_loop1 pq x K NS hK' hNS' NS 0 _ (Go.countFuel 0 pq.params.NumSubVectors) (by omega)
    (by simp [Go.countFuel, hNS']) hlen (by simp [FormulaPQ.tableRows])
  have h00 : ((0 : Nat) : Int) = 0 := rfl
  rw [h00] at h
  have hT : T' = FormulaPQ.tableRows pq x K NS := by
    rw [← ht, ← hl, List.take_length]
  show (pq_tableFromFloat_loop1 pq x (Go.countFuel 0 pq.params.NumSubVectors)
    (List.replicate (pq.params.NumSubVectors * pq.params.NumCentroids).toNat (FExpr.lit 0)) 0).finish _ = _
  rw [h]
  simp only [Go.Ctl.finish, hT, FormulaPQ.tableRows, hNS', hK', Int.toNat_natCast]

namespace FormulaPQ
theorem tableRows_getI (pq : productQuantizer) (x : List FExpr) (K : Nat) :
    ∀ (NS i c : Nat), i < NS → c < K → Go.getI (tableRows pq x K NS) (((i * K + c : Nat)) : Int) = tableEntry pq x i c := by
  intro NS
  induction NS with
  | zero => intro i c hi; omega
  | succ n ih =>
    intro i c hi hc
    have h0 : ¬ (((i * K + c : Nat) : Int) < 0) := by omega
    rw [tableRows_succ]
    unfold Go.getI
    rw [if_neg h0, Int.toNat_natCast]
    by_cases hin : i < n
    · have hlt : i * K + c < (tableRows pq x K n).length := by
        rw [tableRows_length]
        calc i * K + c < i * K + K := by omega
          _ = (i + 1) * K := by rw [Nat.succ_mul]
          _ ≤ n * K := Nat.mul_le_mul_right K hin
      have := ih i c hin hc
      unfold Go.getI at this
      rw [if_neg h0, Int.toNat_natCast] at this
      rw [List.getD_eq_getElem?_getD, List.getElem?_append_left hlt, ← List.getD_eq_getElem?_getD]
      exact this
    · have hi' : i = n := by omega
      subst hi'
      have hge : (tableRows pq x K i).length ≤ i * K + c := by rw [tableRows_length]; omega
      rw [List.getD_eq_getElem?_getD, List.getElem?_append_right hge, tableRows_length]
      simp [hc]
end FormulaPQ

/-- **the quantised distance of a FITTED product quantiser, query vector against a stored point** — table build and look-up composed:
Σ over the sub-vectors `i` of `distFn(x_i, centroid_{i, code_y[i]})`, the sub-vector distances to the point's centroids, added from the left to 0
(codes are centroid numbers: `< NumCentroids`) -/
theorem pq_quantised_distance_formula (pq : productQuantizer) (x : List FExpr) (pointY : productQuantizedPoint)
    (hNS : 0 ≤ pq.params.NumSubVectors) (hK : 0 ≤ pq.params.NumCentroids)
    (hcodes : ∀ i : Nat, i < pq.params.NumSubVectors.toNat → (Go.getI pointY.CentroidIds (i : Int)).toNat < pq.params.NumCentroids.toNat) :
    ∃ table, pq_tableFromFloat pq x = .ret table ∧
      pq_lookupFromFloat pq table pointY = .ret (FExpr.sumL ((List.range pq.params.NumSubVectors.toNat).map fun (i : Nat) =>
        FormulaPQ.tableEntry pq x i (Go.getI pointY.CentroidIds (i : Int)).toNat)) := by
  refine ⟨_, pq_table_formula pq x hNS hK, ?_⟩
  rw [pq_distance_from_float_formula]
  congr 2
  apply List.map_congr_left
  intro i hi
  have hi' : i < pq.params.NumSubVectors.toNat := List.mem_range.mp hi
  obtain ⟨K, hK'⟩ := Int.eq_ofNat_of_zero_le hK
  have hc := hcodes i hi'
  rw [hK', Int.toNat_natCast] at hc
  have := FormulaPQ.tableRows_getI pq x K pq.params.NumSubVectors.toNat i _ hi' hc
  rw [hK', Int.toNat_natCast]
  rw [← this]
  congr 1

end Sema.C20
