/-
C20 — distance functions equal their definitions on every vector length.

Bit metrics: every theorem is about the definitions *generated from the Go source*
(SemaModel/Generated/BitDist.lean ← distance/distance.go, shard/vectorstore/binary.go), for every
length n ≥ 1 (unbounded), every threshold and vector (all float32 bit patterns, NaN included).
Float kernels: theorems about the hand-written model of distance/asm/dot.s and euclidean.s
(Model.lean), whose constants are pinned to the assembler text by `facts_*_pinned`.
NOT a theorem: agreement with the scalar reference "up to floating-point rounding" — that is a
test (correspondence sweep in go/cmd/c20), see notes/C20.md.
Only property theorems and their non-vacuity examples live in this file.
-/
import SemaModel.C20.Lemmas
namespace Sema.C20
open Sema Sema.Go Sema.Gen.BitDist

/-! ### encode: bit `i % 64` of word `i / 64` is `x[i] > threshold[i]`; padding bits are 0 -/

/-- ⌈n/64⌉ words -/
theorem encode_length (t x : List (BitVec 32)) (hn : t.length = x.length) (h1 : 1 ≤ x.length) :
    (binaryQuantizer_encode t x).length = nwords x.length :=
  (encode_words t x hn h1).1

/-- data bits -/
theorem encode_bits (t x : List (BitVec 32)) (hn : t.length = x.length) (h1 : 1 ≤ x.length)
    (i : Nat) (hi : i < x.length) : wbit (binaryQuantizer_encode t x) i = bit t x i := by
  rw [(encode_words t x hn h1).2 i]; simp [hi]

/-- padding bits (every position ≥ n, inside the last word or beyond it) are 0 -/
theorem encode_padding (t x : List (BitVec 32)) (hn : t.length = x.length) (h1 : 1 ≤ x.length)
    (i : Nat) (hi : x.length ≤ i) : wbit (binaryQuantizer_encode t x) i = false := by
  rw [(encode_words t x hn h1).2 i]
  have : decide (i < x.length) = false := by simp; omega
  simp [this]

/-- a quantizer that is not fitted yet (nil threshold) encodes to nil -/
theorem encode_unfitted (x : List (BitVec 32)) : binaryQuantizer_encode [] x = [] := by
  simp [binaryQuantizer_encode]

example : ∃ t x : List (BitVec 32), t.length = x.length ∧ 1 ≤ x.length ∧ x.length % 64 ≠ 0 ∧
    binaryQuantizer_encode t x = [0x5#64] :=
  ⟨[0x0#32, 0x0#32, 0x0#32], [0x3f800000#32, 0xbf800000#32, 0x3f800000#32], by decide⟩

/-! ### hamming -/

/-- on arbitrary word lists: the number of bit positions (of `x`'s words) in which they differ -/
theorem hamming_eq_bitcount (x y : List (BitVec 64)) :
    hammingDistance x y = FExpr.ofNat (card (64 * x.length) (fun i => wbit x i != wbit y i)) :=
  hamming_words x y

/-- on encodings: `|{i < n | (xᵢ > tᵢ) ≠ (yᵢ > tᵢ)}|`, irrespective of padding -/
theorem hamming_encode (t x y : List (BitVec 32)) (hx : t.length = x.length) (hy : t.length = y.length)
    (h1 : 1 ≤ t.length) :
    hammingDistance (binaryQuantizer_encode t x) (binaryQuantizer_encode t y) =
      FExpr.ofNat (card t.length (fun i => bit t x i != bit t y i)) := by
  rw [hamming_words, card_encode (· != ·) rfl t x y hx hy h1]

theorem hamming_symm (x y : List (BitVec 64)) (h : x.length = y.length) :
    hammingDistance x y = hammingDistance y x := by
  simp only [hammingDistance, h]
  congr 1
  exact forN_congr _ _ _ _ (fun i s => by rw [BitVec.xor_comm])

example : hammingDistance
    (binaryQuantizer_encode [0x0#32, 0x0#32, 0x0#32] [0x3f800000#32, 0xbf800000#32, 0x3f800000#32])
    (binaryQuantizer_encode [0x0#32, 0x0#32, 0x0#32] [0xbf800000#32, 0xbf800000#32, 0x7fc00000#32]) = FExpr.ofNat 2 := by
  decide

/-! ### jaccard -/

/-- on arbitrary word lists: intersection and union are counts of bit positions; `jaccardOf`
contains the `union = 0 → 0` guard and the symbolic `1 − inter/union` -/
theorem jaccard_eq_bitcount (x y : List (BitVec 64)) :
    jaccardDistance x y =
      jaccardOf (card (64 * x.length) (fun i => wbit x i && wbit y i))
                (card (64 * x.length) (fun i => wbit x i || wbit y i)) :=
  jaccard_words x y

/-- on encodings: numerator `|∩|` and denominator `|∪|` of the thresholded sets; padding contributes
to neither -/
theorem jaccard_encode (t x y : List (BitVec 32)) (hx : t.length = x.length) (hy : t.length = y.length)
    (h1 : 1 ≤ t.length) :
    jaccardDistance (binaryQuantizer_encode t x) (binaryQuantizer_encode t y) =
      jaccardOf (card t.length (fun i => bit t x i && bit t y i))
                (card t.length (fun i => bit t x i || bit t y i)) := by
  rw [jaccard_words, card_encode (· && ·) rfl t x y hx hy h1, card_encode (· || ·) rfl t x y hx hy h1]

/-- the guard: two empty thresholded sets are at distance 0 (not 0/0) -/
theorem jaccard_union_zero (t x y : List (BitVec 32)) (hx : t.length = x.length) (hy : t.length = y.length)
    (h1 : 1 ≤ t.length) (hu : card t.length (fun i => bit t x i || bit t y i) = 0) :
    jaccardDistance (binaryQuantizer_encode t x) (binaryQuantizer_encode t y) = FExpr.lit 0 := by
  rw [jaccard_encode t x y hx hy h1, jaccardOf, if_pos hu]

/-- otherwise it is `1 − |∩| / |∪|` (float32 division and subtraction uninterpreted) -/
theorem jaccard_union_pos (t x y : List (BitVec 32)) (hx : t.length = x.length) (hy : t.length = y.length)
    (h1 : 1 ≤ t.length) (hu : card t.length (fun i => bit t x i || bit t y i) ≠ 0) :
    jaccardDistance (binaryQuantizer_encode t x) (binaryQuantizer_encode t y) =
      FExpr.sub (FExpr.lit 1)
        (FExpr.div (FExpr.ofNat (card t.length (fun i => bit t x i && bit t y i)))
                   (FExpr.ofNat (card t.length (fun i => bit t x i || bit t y i)))) := by
  rw [jaccard_encode t x y hx hy h1, jaccardOf, if_neg hu]

theorem jaccard_symm (x y : List (BitVec 64)) (h : x.length = y.length) :
    jaccardDistance x y = jaccardDistance y x := by
  have e : ∀ (a b : List (BitVec 64)) (n : Nat),
      forN n (0, 0) (fun i (s : Nat × Nat) =>
        match s with
        | (intersection, union_) =>
          (intersection + popcount64 (idx64 a i &&& idx64 b i), union_ + popcount64 (idx64 a i ||| idx64 b i))) =
      forN n (0, 0) (fun i (s : Nat × Nat) =>
        match s with
        | (intersection, union_) =>
          (intersection + popcount64 (idx64 b i &&& idx64 a i), union_ + popcount64 (idx64 b i ||| idx64 a i))) := by
    intro a b n
    exact forN_congr _ _ _ _ (fun i s => by rw [BitVec.and_comm, BitVec.or_comm])
  simp only [jaccardDistance, h]
  rw [e]

example : jaccardDistance
    (binaryQuantizer_encode [0x0#32, 0x0#32, 0x0#32] [0x3f800000#32, 0xbf800000#32, 0x3f800000#32])
    (binaryQuantizer_encode [0x0#32, 0x0#32, 0x0#32] [0xbf800000#32, 0xbf800000#32, 0x3f800000#32]) =
      FExpr.sub (FExpr.lit 1) (FExpr.div (FExpr.ofNat 1) (FExpr.ofNat 2)) := by
  decide

example : ∃ t x y : List (BitVec 32), t.length = x.length ∧ t.length = y.length ∧ 1 ≤ t.length ∧
    card t.length (fun i => bit t x i || bit t y i) = 0 :=
  ⟨[0x0#32, 0x0#32], [0xbf800000#32, 0x0#32], [0x80000000#32, 0x7fc00000#32], by decide⟩

/-! ### the AVX kernels -/

/-- the model's constants are the ones tools/facts_c20 reads off distance/asm/dot.s on this run -/
theorem facts_dot_pinned : Gen.FactsC20.dot = shape .mul := by decide

/-- … and off distance/asm/euclidean.s -/
theorem facts_euclidean_pinned : Gen.FactsC20.euclidean = shape .sqdif := by decide

section
variable {R : Type} [CommRing R]

/-- in every commutative ring and for every length the dot kernel is Σ xᵢ·yᵢ: each index is consumed
exactly once whatever `n mod 32` is (take `R` a polynomial ring over distinct indeterminates) -/
theorem kernel_dot_eq_sum (x y : List R) (h : x.length = y.length) :
    kernelDot (Ops.ofRing R) x y = (List.zipWith (fun a b => a * b) x y).sum :=
  kernel_sum .mul x y h

/-- … and the euclidean kernel is Σ (xᵢ−yᵢ)² -/
theorem kernel_l2_eq_sum (x y : List R) (h : x.length = y.length) :
    kernelL2 (Ops.ofRing R) x y = (List.zipWith (fun a b => (a - b) * (a - b)) x y).sum :=
  kernel_sum .sqdif x y h

/-- ring arithmetic satisfies the two symmetry laws -/
theorem ofRing_symmetric : (Ops.ofRing R).Symmetric :=
  ⟨fun a b c => by simp only [Ops.ofRing]; ring, fun a b c => by simp only [Ops.ofRing]; ring⟩

end

/-- the instance the driver runs against the real kernels on small integers -/
theorem kernel_int (k : Kind) (x y : List Int) (h : x.length = y.length) :
    kernel Ops.int k x y = (List.zipWith k.term x y).sum :=
  kernel_sum (R := Int) k x y h

/-- symmetry of the dot kernel in *any* arithmetic whose fused multiply-add commutes in its factors
(IEEE-754: yes, bit for bit on non-NaN values); no associativity, no distributivity is used -/
theorem kernel_dot_symm {R : Type} (o : Ops R) (hs : o.Symmetric) (x y : List R) (h : x.length = y.length) :
    kernelDot o x y = kernelDot o y x :=
  kernel_symm o hs .mul x y h

/-- symmetry of the euclidean kernel under `fma (a−b) (a−b) c = fma (b−a) (b−a) c` -/
theorem kernel_l2_symm {R : Type} (o : Ops R) (hs : o.Symmetric) (x y : List R) (h : x.length = y.length) :
    kernelL2 o x y = kernelL2 o y x :=
  kernel_symm o hs .sqdif x y h

example : Ops.int.Symmetric := ofRing_symmetric (R := Int)

example : kernelDot Ops.int [1, 2, 3] [4, 5, 6] = 32 := by
  rw [kernelDot, kernel_int .mul [1, 2, 3] [4, 5, 6] rfl]; decide

example : kernelL2 Ops.int [1, 2, 3] [4, 5, 7] = 34 := by
  rw [kernelL2, kernel_int .sqdif [1, 2, 3] [4, 5, 7] rfl]; decide

end Sema.C20
