/-
Line protocol for C20: one call per line.  The bit metrics are evaluated on the *generated*
definitions (SemaModel/Generated/BitDist.lean), the kernels on the model of Model.lean over `Int`.

  f32gt  <a:hex32> <b:hex32>                       -> 0|1            (Go: a > b on float32)
  encode <thr:words32> <vec:words32>               -> words64        (binaryQuantizer.encode)
  hamming <x:words64> <y:words64>                  -> hex32          (float32 bits of the result)
  jaccard <x:words64> <y:words64>                  -> hex32
  bq <hamming|jaccard> <thr> <x> <y> (words32)     -> words64 words64 hex32   (encode x, encode y, distance of the encodings)
  kern <x:int8s> <y:int8s>                         -> <dot> <l2>     (decimal integers; an int8 is two hex digits of value+128)
  fdot|fl2|hav …                                   -> n/a            (rounding is not modelled; oracle-only op lines, kept for replays)

The FORMULA lines evaluate the symbolic trees generated from distance.go / puredist.go / product.go
(SemaModel/Generated/Distance.lean, PQDist.lean) with hardware floats, same operation order:
  dotd <x> <y> <k:hex32>                           -> hex32|nan      dotProductDistance with dotProductImpl(x,y) = k (the value the real implementation returned)
  cosd <x> <y> <k:hex32>                           -> hex32|nan      cosineDistance, likewise
  pdot <x> <y> / pl2 <x> <y>  (words32)            -> hex32|nan      the two pure Go reference loops, bit for bit
  havf <x> <y> <real:hex32>                        -> ok | ulp=<d> model=<hex32>   haversineDistance; libm differs from Go's math: within `havUlp` = 1 float32 ulp (measured: 0)
  pqf <NS> <K> <L> <flat:words32> <x:words32> <codes:bytes>  -> hex32|nan   table build + look-up sum of DistanceFromFloat (distFn = the pure Go euclidean loop)
  pqp <NS> <K> <cdists:words32> <cx:bytes> <cy:bytes>        -> hex32|nan   look-up sum of DistanceFromPoint
  pqt <e|d> <NS> <K> <L> <flat:words32>            -> words32 words32   the two tables `Fit()` leaves behind, computed by the GENERATED per-sub-vector
                                                    bodies of Fit (copy of the centroids, fill of the centroid-distance table) from the centroids alone
                                                    (sub-space i's k-means result = the i-th block of <flat>); distFn = the pure Go euclidean loop (e) /
                                                    the dot distance over the pure Go dot loop (d), as generated; compared with the tables of a real Fit()
  pqg <e|d> <NS> <K> <L> <flat> <cdists> <x:words32> <cx:bytes> <cy:bytes>  -> hex32|nan hex32|nan   both distances of a quantiser fitted like that
                                                    (tables from the generated Fit bodies, <cdists> is NOT read): DistanceFromFloat(x)(cy), DistanceFromPoint(cx)(cy)
  pqe <e|d> <NS> <K> <L> <flat:words32|-> <vector:words32>  -> bytes   the GENERATED encode (PQEncode.lean, float32 abstract) instantiated with hardware
                                                    floats and the pure Go sub-vector distance as generated: the codes, first nearest centroid wins
  bqw <hamming|jaccard> <thr|-> <x> <y> (words32) <fk:hex32>  -> hex32 hex32   the two distance closures of the binary quantiser as
                                                    generated (which distance is used: bit distance of the encodings when a threshold is
                                                    set, else the float distance, whose real value is fk); encode / hamming / jaccard generated
word lists are concatenated fixed-width hex, `-` is the empty list.
-/
import SemaModel.Base.DriverUtil
import SemaModel.C20.Model
import SemaModel.Generated.BitDist
import SemaModel.Generated.Distance
import SemaModel.Generated.PQDist
import SemaModel.Generated.PQEncode
import SemaModel.Generated.BQDist
namespace Sema.C20
open Sema Sema.Gen

def hexNib (c : UInt8) : Option Nat :=
  if 48 ≤ c && c ≤ 57 then some (c.toNat - 48)
  else if 97 ≤ c && c ≤ 102 then some (c.toNat - 87)
  else none

/-- the `w` hex digits at byte offset `off` -/
def wordAt (b : ByteArray) (off : Nat) : Nat → Nat → Option Nat
  | 0, acc => some acc
  | w + 1, acc => match hexNib (b.get! off) with
    | some v => wordAt b (off + 1) w (acc * 16 + v)
    | none => none

def wordsFrom (b : ByteArray) (w : Nat) : Nat → List Nat → Option (List Nat)
  | 0, acc => some acc
  | k + 1, acc => match wordAt b (k * w) w 0 with
    | some v => wordsFrom b w k (v :: acc)
    | none => none

/-- fixed-width hex words, `-` = empty -/
def wordsOfHex (w : Nat) (s : String) : Option (List Nat) :=
  if s == "-" then some []
  else
    let b := s.toUTF8
    if b.size % w != 0 then none else wordsFrom b w (b.size / w) []

def words32? (s : String) : Option (List (BitVec 32)) := (wordsOfHex 8 s).map (·.map (BitVec.ofNat 32))
def words64? (s : String) : Option (List (BitVec 64)) := (wordsOfHex 16 s).map (·.map (BitVec.ofNat 64))
def int8s? (s : String) : Option (List Int) := (wordsOfHex 2 s).map (·.map fun (v : Nat) => Int.ofNat v - 128)

def hex64 (x : BitVec 64) : String := hexOfNat 16 x.toNat
def hexW64 (l : List (BitVec 64)) : String := if l.isEmpty then "-" else String.join (l.map hex64)
def hexF32 (f : Float32) : String := hexOfNat 8 f.toBits.toNat
def b01 (b : Bool) : String := if b then "1" else "0"

def bytes8? (s : String) : Option Bytes := (wordsOfHex 2 s).map (·.map (BitVec.ofNat 8))
def fvars (l : List (BitVec 32)) : List Go.FExpr := l.map Go.FExpr.var
/-- float32 result as bits; every NaN is `nan` (payloads depend on operand order of commutative hardware ops) -/
def hexF32n (f : Float32) : String := if f.isNaN then "nan" else hexF32 f
/-- float32 patterns of one sign: distance in units in the last place -/
def ulpDist (a b : Float32) : Nat :=
  let k (f : Float32) : Int := if f.toBits.toNat ≥ 2 ^ 31 then -((f.toBits.toNat - 2 ^ 31 : Nat) : Int) else (f.toBits.toNat : Int)
  (k a - k b).natAbs
/-- stated bound for `havf`: the C library's sin / cos / asin (Lean `Float`) against Go's `math` package may differ in
the last place of a float64; after the final `float32(..)` that is at most 1 float32 ulp.  Measured (notes/C20.md):
0 ulp on all 22 891 pairs of a thorough run (boundary points, antipodes, close neighbours, random) -/
def havUlp : Nat := 1

def outF (o : Go.Out Go.FExpr) : String :=
  match o with
  | .ret e => hexF32n e.eval
  | .outOfFuel => "out-of-fuel"

/-- the sub-vector distance of a quantiser whose distFn was replaced by the pure Go loops: `e` euclidean, `d` dot -/
def pureDist (tag : String) : List Go.FExpr → List Go.FExpr → Go.FExpr :=
  if tag == "d" then Distance.dotProductDistance Distance.dotProductPureGo else Distance.squaredEuclideanDistancePureGo

/-- a quantiser fitted by the generated bodies of `Fit()`: both tables start as `make` leaves them (zeros), then for every sub-space
`i` (in order) the centroids of block `i` of `flat` are copied in and the centroid-distance block is filled -/
def fitModel (tag : String) (ns k l : Nat) (flat : List (BitVec 32)) : Option PQDist.productQuantizer :=
  let pq0 : PQDist.productQuantizer := ⟨⟨k, ns, 0⟩, pureDist tag, l, List.replicate (ns * k * k) (.lit 0), List.replicate (ns * k * l) (.lit 0)⟩
  (List.range ns).foldl (fun (acc : Option PQDist.productQuantizer) i =>
    match acc with
    | none => none
    | some pq =>
      let km : PQDist.KMeans := ⟨(List.range k).map fun j => fvars ((flat.drop ((i * k + j) * l)).take l)⟩
      match PQDist.pq_fitFlatCentroids (2 * k + 2) pq i km with
      | .outOfFuel => none
      | .ret pq1 =>
        match PQDist.pq_fitCentroidDists (2 * k + 2) pq1 i km with
        | .outOfFuel => none
        | .ret pq2 => some pq2) (some pq0)

def f32OfBits (b : BitVec 32) : Float32 := Float32.ofBits b.toNat.toUInt32
def bitsOfF32 (f : Float32) : BitVec 32 := BitVec.ofNat 32 f.toBits.toNat
/-- the pure Go sub-vector distance on hardware floats: the generated tree over the operands' bit patterns, evaluated -/
def pureDistF (tag : String) (a b : List Float32) : Float32 := (pureDist tag (fvars (a.map bitsOfF32)) (fvars (b.map bitsOfF32))).eval
def hexBytes (l : Bytes) : String := if l.isEmpty then "-" else String.join (l.map fun b => hexOfNat 2 b.toNat)

def hexFs (l : List Go.FExpr) : String := if l.isEmpty then "-" else String.join (l.map fun e => hexF32 e.eval)

def step (line : String) : String :=
  let bad := "bad-op"
  match line.trimAscii.toString.splitOn " " with
  | ["f32gt", a, b] => match words32? a, words32? b with
      | some [x], some [y] => b01 (F32.gt x y) | _, _ => bad
  | ["encode", t, v] => match words32? t, words32? v with
      | some t, some v => hexW64 (BitDist.binaryQuantizer_encode t v) | _, _ => bad
  | ["hamming", x, y] => match words64? x, words64? y with
      | some x, some y => hexF32 (BitDist.hammingDistance x y).eval | _, _ => bad
  | ["jaccard", x, y] => match words64? x, words64? y with
      | some x, some y => hexF32 (BitDist.jaccardDistance x y).eval | _, _ => bad
  | ["bq", m, t, x, y] => match words32? t, words32? x, words32? y with
      | some t, some x, some y =>
        let ex := BitDist.binaryQuantizer_encode t x
        let ey := BitDist.binaryQuantizer_encode t y
        if m == "hamming" then s!"{hexW64 ex} {hexW64 ey} {hexF32 (BitDist.hammingDistance ex ey).eval}"
        else if m == "jaccard" then s!"{hexW64 ex} {hexW64 ey} {hexF32 (BitDist.jaccardDistance ex ey).eval}"
        else bad
      | _, _, _ => bad
  | ["kern", x, y] => match int8s? x, int8s? y with
      | some x, some y => s!"{kernelDot Ops.int x y} {kernelL2 Ops.int x y}" | _, _ => bad
  | ["dotd", x, y, k] => match words32? x, words32? y, words32? k with
      | some x, some y, some [k] => hexF32n (Distance.dotProductDistance (fun _ _ => .var k) (fvars x) (fvars y)).eval | _, _, _ => bad
  | ["cosd", x, y, k] => match words32? x, words32? y, words32? k with
      | some x, some y, some [k] => hexF32n (Distance.cosineDistance (fun _ _ => .var k) (fvars x) (fvars y)).eval | _, _, _ => bad
  | ["pdot", x, y] => match words32? x, words32? y with
      | some x, some y => hexF32n (Distance.dotProductPureGo (fvars x) (fvars y)).eval | _, _ => bad
  | ["pl2", x, y] => match words32? x, words32? y with
      | some x, some y => hexF32n (Distance.squaredEuclideanDistancePureGo (fvars x) (fvars y)).eval | _, _ => bad
  | ["havf", x, y, r] => match words32? x, words32? y, words32? r with
      | some x, some y, some [r] =>
        let m := (Distance.haversineDistance (fvars x) (fvars y)).eval
        let real := Float32.ofBits r.toNat.toUInt32
        if m.isNaN && real.isNaN then "ok"
        else if !m.isNaN && !real.isNaN && ulpDist m real ≤ havUlp then "ok"
        else s!"ulp={ulpDist m real} model={hexF32n m}"
      | _, _, _ => bad
  | ["pqf", ns, k, l, flat, x, codes] => match ns.toNat?, k.toNat?, l.toNat?, words32? flat, words32? x, bytes8? codes with
      | some ns, some k, some l, some flat, some x, some codes =>
        let pq : PQDist.productQuantizer := ⟨⟨k, ns, 0⟩, Distance.squaredEuclideanDistancePureGo, l, [], fvars flat⟩
        match PQDist.pq_tableFromFloat pq (fvars x) with
        | .ret table => outF (PQDist.pq_lookupFromFloat pq table ⟨[], codes⟩)
        | .outOfFuel => "out-of-fuel"
      | _, _, _, _, _, _ => bad
  | ["pqp", ns, k, cd, cx, cy] => match ns.toNat?, k.toNat?, words32? cd, bytes8? cx, bytes8? cy with
      | some ns, some k, some cd, some cx, some cy =>
        let pq : PQDist.productQuantizer := ⟨⟨k, ns, 0⟩, fun _ _ => .lit 0, 0, fvars cd, []⟩
        outF (PQDist.pq_lookupFromPoint pq ⟨[], cx⟩ ⟨[], cy⟩)
      | _, _, _, _, _ => bad
  | ["pqe", tag, ns, k, l, flat, v] => match ns.toNat?, k.toNat?, l.toNat?, words32? flat, words32? v with
      | some ns, some k, some l, some flat, some v =>
        let pq : PQEncode.productQuantizer Float32 := ⟨⟨k, ns, 0⟩, pureDistF tag, l, flat.map f32OfBits⟩
        match PQEncode.productQuantizer_encode (f32OfBits 0x7f7fffff#32) pq (v.map f32OfBits) with
        | .ret codes => hexBytes codes
        | .outOfFuel => "out-of-fuel"
      | _, _, _, _, _ => bad
  | ["pqt", tag, ns, k, l, flat] => match ns.toNat?, k.toNat?, l.toNat?, words32? flat with
      | some ns, some k, some l, some flat =>
        match fitModel tag ns k l flat with
        | some pq => s!"{hexFs pq.flatCentroids} {hexFs pq.centroidDists}"
        | none => "out-of-fuel"
      | _, _, _, _ => bad
  | ["pqg", tag, ns, k, l, flat, _cd, x, cx, cy] => match ns.toNat?, k.toNat?, l.toNat?, words32? flat, words32? x, bytes8? cx, bytes8? cy with
      | some ns, some k, some l, some flat, some x, some cx, some cy =>
        match fitModel tag ns k l flat with
        | some pq =>
          match PQDist.pq_tableFromFloat pq (fvars x) with
          | .ret table => s!"{outF (PQDist.pq_lookupFromFloat pq table ⟨[], cy⟩)} {outF (PQDist.pq_lookupFromPoint pq ⟨[], cx⟩ ⟨[], cy⟩)}"
          | .outOfFuel => "out-of-fuel"
        | none => "out-of-fuel"
      | _, _, _, _, _, _, _ => bad
  | ["bqw", m, t, x, y, fk] => match words32? t, words32? x, words32? y, words32? fk with
      | some t, some x, some y, some [fk] =>
        let bit := if m == "hamming" then BitDist.hammingDistance else BitDist.jaccardDistance
        let enc := fun (bq : BQDist.binaryQuantizer) (v : List Go.FExpr) =>
          BitDist.binaryQuantizer_encode (bq.threshold.map fun e => match e with | .var b => b | _ => 0#32) (v.map fun e => match e with | .var b => b | _ => 0#32)
        let bq : BQDist.binaryQuantizer := ⟨fvars t, fun _ _ => .var fk, bit⟩
        let px : BQDist.binaryQuantizedPoint := ⟨fvars x, BitDist.binaryQuantizer_encode t x⟩
        let py : BQDist.binaryQuantizedPoint := ⟨fvars y, BitDist.binaryQuantizer_encode t y⟩
        let asP := fun (p : BQDist.binaryQuantizedPoint) => some p
        s!"{hexF32n (BQDist.binaryQuantizer_DistanceFromFloat asP enc bq (fvars x) py).eval} {hexF32n (BQDist.binaryQuantizer_DistanceFromPoint asP enc bq px py).eval}"
      | _, _, _, _ => bad
  | "fdot" :: _ => "n/a"
  | "fl2" :: _ => "n/a"
  | "hav" :: _ => "n/a"
  | "pqfit" :: _ => "n/a"
  | "bqfit" :: _ => "n/a"
  | _ => bad

end Sema.C20

def Sema.C20.driverMain (stdin stdout : IO.FS.Stream) (_args : List String) : IO Unit :=
  Sema.loopPure stdin stdout Sema.C20.step
