/-
Helper lemmas for C20.
 * counting (`countTo`, `natSum`), the Go loop primitives (`forN`, `forRange`), `popcount64`
   as a count of bit positions — core only;
 * the generated `binaryQuantizer_encode`, `hammingDistance`, `jaccardDistance` at the level of bit
   positions — core only;
 * the AVX kernel model: symmetry over any arithmetic with the two laws of `Ops.Symmetric` (core
   only) and the sum theorem over a commutative ring (Mathlib: `CommRing`, `ring`).
-/
import Mathlib.Algebra.Ring.Defs
import Mathlib.Tactic.Ring
import SemaModel.C20.Model
import SemaModel.Generated.BitDist
namespace Sema.C20
open Sema Sema.Go Sema.Gen.BitDist

/-! ### counting -/

/-- `|{i < n | p i}|` by recursion on `n` (the form the inductions use) -/
def countTo : Nat → (Nat → Bool) → Nat
  | 0, _ => 0
  | n + 1, p => countTo n p + (if p n then 1 else 0)

def natSum : Nat → (Nat → Nat) → Nat
  | 0, _ => 0
  | n + 1, f => natSum n f + f n

theorem card_eq_countTo (n : Nat) (p : Nat → Bool) : card n p = countTo n p := by
  induction n with
  | zero => simp [card, countTo]
  | succ n ih =>
    have : card (n + 1) p = card n p + (if p n then 1 else 0) := by
      simp [card, List.range_succ, List.countP_append, List.countP_cons]
    rw [this, ih, countTo]

theorem countTo_congr {n : Nat} {p q : Nat → Bool} (h : ∀ i, i < n → p i = q i) : countTo n p = countTo n q := by
  induction n with
  | zero => rfl
  | succ n ih =>
    simp only [countTo]
    rw [ih (fun i hi => h i (by omega)), h n (by omega)]

theorem natSum_congr {n : Nat} {f g : Nat → Nat} (h : ∀ i, i < n → f i = g i) : natSum n f = natSum n g := by
  induction n with
  | zero => rfl
  | succ n ih =>
    simp only [natSum]
    rw [ih (fun i hi => h i (by omega)), h n (by omega)]

theorem countTo_add (a b : Nat) (p : Nat → Bool) :
    countTo (a + b) p = countTo a p + countTo b (fun k => p (a + k)) := by
  induction b with
  | zero => simp [countTo]
  | succ b ih => rw [← Nat.add_assoc, countTo, ih, countTo]; omega

theorem countTo_mul64 (W : Nat) (p : Nat → Bool) :
    countTo (64 * W) p = natSum W (fun w => countTo 64 (fun k => p (64 * w + k))) := by
  induction W with
  | zero => rfl
  | succ W ih => rw [Nat.mul_succ, countTo_add, ih, natSum]

/-- positions at and beyond `n` that are all false do not count -/
theorem countTo_extend {n m : Nat} {p : Nat → Bool} (hnm : n ≤ m) (h : ∀ i, n ≤ i → i < m → p i = false) :
    countTo m p = countTo n p := by
  obtain ⟨d, rfl⟩ := Nat.exists_eq_add_of_le hnm
  rw [countTo_add]
  have : countTo d (fun k => p (n + k)) = countTo d (fun _ => false) :=
    countTo_congr (fun i hi => h (n + i) (by omega) (by omega))
  rw [this]
  have z : ∀ d, countTo d (fun _ => false) = 0 := by
    intro d; induction d with
    | zero => rfl
    | succ d ih => simp [countTo, ih]
  rw [z]; rfl

/-! ### Go loops -/

theorem foldl_count (p : Nat → Bool) (n : Nat) :
    (List.range n).foldl (fun c i => if p i then c + 1 else c) 0 = countTo n p := by
  induction n with
  | zero => rfl
  | succ n ih =>
    rw [List.range_succ, List.foldl_append, ih]
    simp only [List.foldl_cons, List.foldl_nil, countTo]
    split <;> rfl

theorem popcount64_eq (v : BitVec 64) : popcount64 v = countTo 64 (fun k => v.getLsbD k) :=
  foldl_count _ 64

theorem forN_succ {σ : Type} (n : Nat) (st : σ) (body : Nat → σ → σ) :
    forN (n + 1) st body = body n (forN n st body) := by
  simp [forN, List.range_succ, List.foldl_append]

theorem forN_add (n a : Nat) (f : Nat → Nat) : forN n a (fun i d => d + f i) = a + natSum n f := by
  induction n with
  | zero => rfl
  | succ n ih => rw [forN_succ, ih, natSum]; omega

theorem forN_add2 (n a b : Nat) (f g : Nat → Nat) :
    forN n (a, b) (fun i (s : Nat × Nat) => (s.1 + f i, s.2 + g i)) = (a + natSum n f, b + natSum n g) := by
  induction n with
  | zero => rfl
  | succ n ih => rw [forN_succ, ih]; simp only [natSum]; congr 1 <;> omega

theorem forRangeAux_inv {α σ : Type} (P : Nat → σ → Prop) (body : Nat → α → σ → σ) :
    ∀ (xs : List α) (i : Nat) (st : σ), P i st →
      (∀ k (hk : k < xs.length) s, P (i + k) s → P (i + k + 1) (body (i + k) xs[k] s)) →
      P (i + xs.length) (forRangeAux xs i st body) := by
  intro xs
  induction xs with
  | nil => intro i st h0 _; simpa [forRangeAux] using h0
  | cons x rest ih =>
    intro i st h0 hstep
    rw [forRangeAux]
    have h1 : P (i + 1) (body i x st) := by
      have := hstep 0 (by simp) st (by simpa using h0)
      simpa using this
    have := ih (i + 1) (body i x st) h1 (by
      intro k hk s hs
      have e : i + 1 + k = i + (k + 1) := by omega
      rw [e] at hs ⊢
      have := hstep (k + 1) (by simp; omega) s hs
      simpa using this)
    have e : i + (x :: rest).length = i + 1 + rest.length := by simp; omega
    rw [e]; exact this

theorem forRange_inv {α σ : Type} (P : Nat → σ → Prop) (body : Nat → α → σ → σ) (xs : List α) (st : σ)
    (h0 : P 0 st) (hstep : ∀ k (hk : k < xs.length) s, P k s → P (k + 1) (body k xs[k] s)) :
    P xs.length (forRange xs st body) := by
  have := forRangeAux_inv P body xs 0 st h0 (by
    intro k hk s hs
    simp only [Nat.zero_add] at hs ⊢
    exact hstep k hk s hs)
  simpa [forRange] using this

/-! ### packed words -/

theorem idx64_replicate (W j : Nat) : idx64 (List.replicate W 0#64) j = 0#64 := by
  simp only [idx64, List.getD_eq_getElem?_getD, List.getElem?_replicate]
  split <;> rfl

theorem idx64_set (l : List (BitVec 64)) (a j : Nat) (v : BitVec 64) (ha : a < l.length) :
    idx64 (l.set a v) j = if a = j then v else idx64 l j := by
  simp only [idx64, List.getD_eq_getElem?_getD, List.getElem?_set]
  split <;> simp [*]

theorem idx32_lt (l : List (BitVec 32)) (k : Nat) (hk : k < l.length) : idx32 l k = l[k] := by
  simp [idx32, List.getD_eq_getElem?_getD, hk]

theorem getLsbD_or_bit (v : BitVec 64) (s k : Nat) (hs : s < 64) :
    (v ||| (0x1#64 <<< s)).getLsbD k = (v.getLsbD k || decide (k = s)) := by
  rw [BitVec.getLsbD_or, BitVec.getLsbD_shiftLeft, BitVec.getLsbD_one]
  congr 1
  rw [Bool.eq_iff_iff]
  simp
  omega

theorem wbit_ge (w : List (BitVec 64)) (i : Nat) (h : 64 * w.length ≤ i) : wbit w i = false := by
  have : w.length ≤ i / 64 := by omega
  simp [wbit, idx64, List.getD_eq_getElem?_getD, List.getElem?_eq_none this]

/-! ### encode -/

theorem encode_words (t x : List (BitVec 32)) (hn : t.length = x.length) (h1 : 1 ≤ x.length) :
    (binaryQuantizer_encode t x).length = nwords x.length ∧
    ∀ i, wbit (binaryQuantizer_encode t x) i = (decide (i < x.length) && bit t x i) := by
  have hne : t.isEmpty = false := by
    cases t with
    | nil => simp at hn; omega
    | cons a r => rfl
  have hW : (if (x.length % 64 != 0) = true then x.length / 64 + 1 else x.length / 64) = nwords x.length := by
    simp only [nwords, bne_iff_ne, ne_eq]
    split <;> omega
  simp only [binaryQuantizer_encode, hne, Bool.false_eq_true, if_false, hW]
  have hcap : x.length ≤ 64 * nwords x.length := by simp only [nwords]; omega
  refine forRange_inv
    (fun m (enc : List (BitVec 64)) => enc.length = nwords x.length ∧ ∀ i, wbit enc i = (decide (i < m) && bit t x i))
    _ x _ ?_ ?_
  · refine ⟨by simp, ?_⟩
    intro i
    simp [wbit, idx64_replicate]
  · intro k hk s ⟨hlen, hb⟩
    have hbk : bit t x k = F32.gt x[k] (idx32 t k) := by simp [bit, idx32_lt x k hk]
    have hkw : k / 64 < s.length := by rw [hlen]; omega
    by_cases hg : F32.gt x[k] (idx32 t k) = true
    · simp only [hg, if_true]
      refine ⟨by simp [hlen], ?_⟩
      intro i
      have hi := hb i
      simp only [wbit] at hi ⊢
      rw [idx64_set _ _ _ _ hkw]
      by_cases hw : k / 64 = i / 64
      · simp only [hw, if_true]
        rw [getLsbD_or_bit _ _ _ (Nat.mod_lt _ (by omega)), hi]
        by_cases hik : i = k
        · subst hik; simp [hbk, hg]
        · have : ¬ (i % 64 = k % 64) := by omega
          have h2 : decide (i < k + 1) = decide (i < k) := by
            rw [Bool.eq_iff_iff]; simp; omega
          simp [this, h2]
      · simp only [hw, if_false]
        rw [hi]
        have h2 : decide (i < k + 1) = decide (i < k) := by
          rw [Bool.eq_iff_iff]; simp; omega
        rw [h2]
    · simp only [hg, Bool.false_eq_true, if_false]
      refine ⟨hlen, ?_⟩
      intro i
      rw [hb i]
      by_cases hik : i = k
      · subst hik
        have : bit t x i = false := by rw [hbk]; simpa using hg
        simp [this]
      · have h2 : decide (i < k + 1) = decide (i < k) := by
          rw [Bool.eq_iff_iff]; simp; omega
        rw [h2]

/-! ### hamming / jaccard on arbitrary word lists -/

/-- Σ over words of the popcount of a bitwise combination = number of bit positions where the
combination of the two bits holds -/
theorem natSum_popcount (op : BitVec 64 → BitVec 64 → BitVec 64) (bop : Bool → Bool → Bool)
    (hop : ∀ (a b : BitVec 64) k, (op a b).getLsbD k = bop (a.getLsbD k) (b.getLsbD k))
    (x y : List (BitVec 64)) (L : Nat) :
    natSum L (fun w => popcount64 (op (idx64 x w) (idx64 y w))) =
      countTo (64 * L) (fun i => bop (wbit x i) (wbit y i)) := by
  rw [countTo_mul64]
  apply natSum_congr
  intro w _
  rw [popcount64_eq]
  apply countTo_congr
  intro k hk
  have h1 : (64 * w + k) / 64 = w := by omega
  have h2 : (64 * w + k) % 64 = k := by omega
  simp only [wbit, h1, h2, hop]

theorem hamming_words (x y : List (BitVec 64)) :
    hammingDistance x y = FExpr.ofNat (card (64 * x.length) (fun i => wbit x i != wbit y i)) := by
  simp only [hammingDistance, forN_add, Nat.zero_add, card_eq_countTo]
  rw [natSum_popcount (· ^^^ ·) (· != ·) (by intro a b k; simp [BitVec.getLsbD_xor])]

theorem jaccard_words (x y : List (BitVec 64)) :
    jaccardDistance x y =
      jaccardOf (card (64 * x.length) (fun i => wbit x i && wbit y i))
                (card (64 * x.length) (fun i => wbit x i || wbit y i)) := by
  have h := forN_add2 x.length 0 0 (fun i => popcount64 (idx64 x i &&& idx64 y i)) (fun i => popcount64 (idx64 x i ||| idx64 y i))
  simp only [Nat.zero_add] at h
  simp only [jaccardDistance, jaccardOf, card_eq_countTo]
  rw [← natSum_popcount (· &&& ·) (· && ·) (by intro a b k; simp [BitVec.getLsbD_and]),
      ← natSum_popcount (· ||| ·) (· || ·) (by intro a b k; simp [BitVec.getLsbD_or])]
  rw [h]
  simp only [beq_iff_eq]

/-! ### hamming / jaccard on encodings -/

/-- counting a bitwise combination over all bit positions of two encodings (padding included) is
counting it over the `n` dimensions -/
theorem card_encode (bop : Bool → Bool → Bool) (hff : bop false false = false)
    (t x y : List (BitVec 32)) (hx : t.length = x.length) (hy : t.length = y.length) (h1 : 1 ≤ t.length) :
    card (64 * (binaryQuantizer_encode t x).length)
        (fun i => bop (wbit (binaryQuantizer_encode t x) i) (wbit (binaryQuantizer_encode t y) i)) =
      card t.length (fun i => bop (bit t x i) (bit t y i)) := by
  obtain ⟨hlx, hbx⟩ := encode_words t x hx (by omega)
  obtain ⟨_, hby⟩ := encode_words t y hy (by omega)
  rw [card_eq_countTo, card_eq_countTo, hlx]
  have hcap : t.length ≤ 64 * nwords x.length := by simp only [nwords]; omega
  rw [countTo_extend hcap]
  · apply countTo_congr
    intro i hi
    rw [hbx, hby]
    have h1 : decide (i < x.length) = true := by simp; omega
    have h2 : decide (i < y.length) = true := by simp; omega
    simp [h1, h2]
  · intro i hi _
    rw [hbx, hby]
    have h1 : decide (i < x.length) = false := by simp; omega
    have h2 : decide (i < y.length) = false := by simp; omega
    simp [h1, h2, hff]

theorem forN_congr {σ : Type} (n : Nat) (st : σ) (f g : Nat → σ → σ) (h : ∀ i s, f i s = g i s) :
    forN n st f = forN n st g := by
  have : f = g := by funext i s; exact h i s
  rw [this]

/-! ### kernels: symmetry in any arithmetic with commuting fused multiply-add -/

section symm
variable {R : Type} (o : Ops R)

theorem step_comm (hs : o.Symmetric) (k : Kind) (a b c : R) : k.step o a b c = k.step o b a c := by
  cases k
  · exact hs.fma_comm a b c
  · exact hs.sq_sub_comm a b c

theorem vstep_comm (hs : o.Symmetric) (k : Kind) : ∀ (xs ys as : List R), vstep o k xs ys as = vstep o k ys xs as := by
  intro xs
  induction xs with
  | nil => intro ys as; cases ys <;> cases as <;> simp [vstep]
  | cons x xs ih =>
    intro ys as
    cases ys with
    | nil => cases as <;> simp [vstep]
    | cons y ys =>
      cases as with
      | nil => simp [vstep]
      | cons a as => simp only [vstep, ih ys as, step_comm o hs k x y a]

theorem blockLoop_swap (hs : o.Symmetric) (k : Kind) (x y : List R) :
    ∀ (m : Nat) (s : KState R), s.n = m → blockLoop o k y x s.swap = (blockLoop o k x y s).swap := by
  intro m
  induction m using Nat.strongRecOn with
  | _ m ih =>
    intro s hm
    rw [blockLoop, blockLoop.eq_def o k x y s]
    by_cases h : s.n < blockItems
    · simp [KState.swap, h]
    · have h' : ¬ s.swap.n < blockItems := by simpa [KState.swap] using h
      simp only [h, h', dite_false]
      simp only [blockItems, Nat.not_lt] at h
      rw [← ih (s.n - 32) (by omega) _ (by simp [blockItems])]
      simp only [KState.swap, blockItems, lanes]
      congr 2 <;> exact vstep_comm o hs k _ _ _

theorem tailLoop_swap (hs : o.Symmetric) (k : Kind) (x y : List R) :
    ∀ (n px py : Nat) (t : R), tailLoop o k y x py px n t = tailLoop o k x y px py n t := by
  intro n
  induction n with
  | zero => intro px py t; rfl
  | succ n ih => intro px py t; rw [tailLoop, tailLoop, ih, step_comm o hs]

/-- symmetry of a kernel in any arithmetic satisfying the two laws (no associativity, no ring) -/
theorem kernel_symm (hs : o.Symmetric) (k : Kind) (x y : List R) (hxy : x.length = y.length) :
    kernel o k x y = kernel o k y x := by
  have h := blockLoop_swap o hs k x y _ { px := 0, py := 0, n := x.length, a0 := vzero o, a1 := vzero o, a2 := vzero o, a3 := vzero o } rfl
  simp only [kernel, ← hxy]
  simp only [KState.swap] at h
  rw [h]
  simp only [tailLoop_swap o hs k x y]

end symm
/-! ### kernels: the sum over a commutative ring -/


section ring
variable {R : Type} [CommRing R]

/-- the kernels' arithmetic in a commutative ring -/
def Ops.ofRing (R : Type) [CommRing R] : Ops R :=
  { zero := 0, add := (· + ·), sub := (· - ·), fma := fun a b c => a * b + c }

/-- what one lane adds to its accumulator -/
def Kind.term : Kind → R → R → R
  | .mul, x, y => x * y
  | .sqdif, x, y => (x - y) * (x - y)

theorem step_ofRing (k : Kind) (x y a : R) : k.step (Ops.ofRing R) x y a = a + k.term x y := by
  cases k <;> simp only [Kind.step, Ops.ofRing, Kind.term] <;> ring

theorem sum_append' (l₁ l₂ : List R) : (l₁ ++ l₂).sum = l₁.sum + l₂.sum := by
  induction l₁ with
  | nil => simp
  | cons a r ih => simp [ih, add_assoc]

theorem sum_take_add (z : List R) (a b : Nat) :
    (z.take (a + b)).sum = (z.take a).sum + ((z.drop a).take b).sum := by
  rw [List.take_add, sum_append']

theorem vstep_sum (k : Kind) : ∀ (xs ys as : List R), xs.length = as.length → ys.length = as.length →
    (vstep (Ops.ofRing R) k xs ys as).length = as.length ∧
    (vstep (Ops.ofRing R) k xs ys as).sum = as.sum + (List.zipWith k.term xs ys).sum := by
  intro xs
  induction xs with
  | nil => intro ys as h1 h2; cases as <;> simp_all [vstep]
  | cons x xs ih =>
    intro ys as h1 h2
    cases as with
    | nil => simp at h1
    | cons a as =>
      cases ys with
      | nil => simp at h2
      | cons y ys =>
        obtain ⟨hl, hs⟩ := ih ys as (by simpa using h1) (by simpa using h2)
        refine ⟨by simp [vstep, hl], ?_⟩
        simp only [vstep, List.sum_cons, List.zipWith_cons_cons, hs, step_ofRing]
        ring

omit [CommRing R] in
theorem ld8_length (m : List R) (p : Nat) (h : p + 8 ≤ m.length) : (ld8 m p).length = 8 := by
  simp [ld8, lanes]; omega

omit [CommRing R] in
theorem zipWith_ld8 (f : R → R → R) (x y : List R) (p : Nat) :
    List.zipWith f (ld8 x p) (ld8 y p) = ((List.zipWith f x y).drop p).take 8 := by
  simp [ld8, lanes, List.take_zipWith, List.drop_zipWith]


/-- invariant of the block loop: both pointers agree, `px + n` is the length, every accumulator has
8 lanes, and the lanes of the four accumulators together hold the sum of the first `px` terms -/
structure BlockInv (z : List R) (N : Nat) (s : KState R) : Prop where
  ptr : s.py = s.px
  len : s.px + s.n = N
  l0 : s.a0.length = 8
  l1 : s.a1.length = 8
  l2 : s.a2.length = 8
  l3 : s.a3.length = 8
  sum : s.a0.sum + s.a1.sum + s.a2.sum + s.a3.sum = (z.take s.px).sum

theorem blockLoop_inv (k : Kind) (x y : List R) (hxy : x.length = y.length) :
    ∀ (m : Nat) (s : KState R), s.n = m → BlockInv (List.zipWith k.term x y) x.length s →
      BlockInv (List.zipWith k.term x y) x.length (blockLoop (Ops.ofRing R) k x y s) ∧
      (blockLoop (Ops.ofRing R) k x y s).n < 32 := by
  intro m
  induction m using Nat.strongRecOn with
  | _ m ih =>
    intro s hm inv
    rw [blockLoop]
    split
    · rename_i h; exact ⟨inv, by simpa [blockItems] using h⟩
    · rename_i h
      simp only [blockItems, Nat.not_lt] at h
      have hlen := inv.len
      refine ih (s.n - 32) (by omega) _ (by simp [blockItems]) ?_
      have hp := inv.ptr
      have e0 := vstep_sum k (ld8 x s.px) (ld8 y s.py) s.a0
        (by rw [ld8_length _ _ (by omega), inv.l0]) (by rw [ld8_length _ _ (by omega), inv.l0])
      have e1 := vstep_sum k (ld8 x (s.px + lanes)) (ld8 y (s.py + lanes)) s.a1
        (by rw [ld8_length _ _ (by simp only [lanes]; omega), inv.l1]) (by rw [ld8_length _ _ (by simp only [lanes]; omega), inv.l1])
      have e2 := vstep_sum k (ld8 x (s.px + 2 * lanes)) (ld8 y (s.py + 2 * lanes)) s.a2
        (by rw [ld8_length _ _ (by simp only [lanes]; omega), inv.l2]) (by rw [ld8_length _ _ (by simp only [lanes]; omega), inv.l2])
      have e3 := vstep_sum k (ld8 x (s.px + 3 * lanes)) (ld8 y (s.py + 3 * lanes)) s.a3
        (by rw [ld8_length _ _ (by simp only [lanes]; omega), inv.l3]) (by rw [ld8_length _ _ (by simp only [lanes]; omega), inv.l3])
      refine ⟨by simp [hp], by simp [blockItems]; omega, by rw [e0.1, inv.l0], by rw [e1.1, inv.l1],
        by rw [e2.1, inv.l2], by rw [e3.1, inv.l3], ?_⟩
      rw [hp] at e0 e1 e2 e3
      simp only [hp]
      rw [e0.2, e1.2, e2.2, e3.2]
      simp only [zipWith_ld8, blockItems, lanes]
      have t : s.px + 32 = s.px + 8 + 8 + 8 + 8 := by omega
      rw [t, sum_take_add, sum_take_add, sum_take_add, sum_take_add, ← inv.sum]
      have a1 : s.px + 8 + 8 = s.px + 2 * 8 := by omega
      have a2 : s.px + 8 + 8 + 8 = s.px + 3 * 8 := by omega
      rw [a2, a1]
      ring

theorem tailLoop_sum (k : Kind) (x y : List R) (hxy : x.length = y.length) :
    ∀ (n px : Nat) (t : R), px + n ≤ x.length →
      tailLoop (Ops.ofRing R) k x y px px n t = t + (((List.zipWith k.term x y).drop px).take n).sum := by
  intro n
  induction n with
  | zero => intro px t _; simp [tailLoop]
  | succ n ih =>
    intro px t h
    have hx : px < x.length := by omega
    have hy : px < y.length := by omega
    have hz : px < (List.zipWith k.term x y).length := by simp [List.length_zipWith]; omega
    rw [tailLoop, ih (px + 1) _ (by omega), List.drop_eq_getElem_cons hz, List.take_succ_cons, List.sum_cons,
      List.getElem_zipWith, step_ofRing]
    have gx : x.getD px (Ops.ofRing R).zero = x[px] := by simp [List.getD_eq_getElem?_getD, hx]
    have gy : y.getD px (Ops.ofRing R).zero = y[px] := by simp [List.getD_eq_getElem?_getD, hy]
    rw [gx, gy]
    ring

omit [CommRing R] in
theorem length8 (l : List R) (h : l.length = 8) : ∃ a b c d e f g i, l = [a, b, c, d, e, f, g, i] := by
  match l, h with
  | [a, b, c, d, e, f, g, i], _ => exact ⟨a, b, c, d, e, f, g, i, rfl⟩

theorem reduce_sum (a0 a1 a2 a3 : List R) (t : R) (h0 : a0.length = 8) (h1 : a1.length = 8)
    (h2 : a2.length = 8) (h3 : a3.length = 8) :
    reduce (Ops.ofRing R) a0 a1 a2 a3 t = a0.sum + a1.sum + a2.sum + a3.sum + t := by
  obtain ⟨p0, p1, p2, p3, p4, p5, p6, p7, rfl⟩ := length8 a0 h0
  obtain ⟨q0, q1, q2, q3, q4, q5, q6, q7, rfl⟩ := length8 a1 h1
  obtain ⟨r0, r1, r2, r3, r4, r5, r6, r7, rfl⟩ := length8 a2 h2
  obtain ⟨s0, s1, s2, s3, s4, s5, s6, s7, rfl⟩ := length8 a3 h3
  simp only [reduce, vadd, hadd, Ops.ofRing, List.drop_succ_cons, List.drop_zero, List.take_succ_cons, List.take_zero,
    List.getD_cons_zero, List.sum_cons, List.sum_nil]
  ring

/-- the kernel computes the sum of its per-item terms, for every length -/
theorem kernel_sum (k : Kind) (x y : List R) (hxy : x.length = y.length) :
    kernel (Ops.ofRing R) k x y = (List.zipWith k.term x y).sum := by
  have init : BlockInv (List.zipWith k.term x y) x.length
      ({ px := 0, py := 0, n := x.length, a0 := vzero (Ops.ofRing R), a1 := vzero (Ops.ofRing R),
         a2 := vzero (Ops.ofRing R), a3 := vzero (Ops.ofRing R) } : KState R) := by
    refine ⟨rfl, by simp, by simp [vzero, lanes], by simp [vzero, lanes], by simp [vzero, lanes], by simp [vzero, lanes], ?_⟩
    simp [vzero, lanes, Ops.ofRing]
  obtain ⟨inv, hn⟩ := blockLoop_inv k x y hxy _ _ rfl init
  simp only [kernel]
  generalize blockLoop (Ops.ofRing R) k x y _ = s at inv hn
  rw [reduce_sum _ _ _ _ _ inv.l0 inv.l1 inv.l2 inv.l3, inv.sum, inv.ptr,
    tailLoop_sum k x y hxy s.n s.px _ (by have := inv.len; omega)]
  have hz : (List.zipWith k.term x y).length = s.px + s.n := by
    simp [List.length_zipWith, ← hxy, inv.len]
  have : (List.zipWith k.term x y) = (List.zipWith k.term x y).take (s.px + s.n) := by
    rw [← hz, List.take_length]
  conv => rhs; rw [this, sum_take_add]
  simp [Ops.ofRing]

end ring
end Sema.C20
