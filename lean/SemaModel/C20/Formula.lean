/-
C20 — the FORMULAS of the float metrics, as theorems about the definitions generated from
distance/distance.go and distance/puredist.go (SemaModel/Generated/Distance.lean).

A float value is a symbolic expression tree `Go.FExpr`: one constructor per Go operation, operands
in source order, every float32 ↔ float64 conversion written.  The theorems fix the *expression
structure* exactly (which operands, which operations, in which order); the IEEE rounding of each
operation is not interpreted (the driver evaluates the same trees with hardware floats and compares
them with the Go functions: `dotd`, `cosd`, `pdot`, `pl2`, `havf` op lines).

`dotProductImpl` (a package variable: the AVX kernel, or the pure Go loop) is an abstract function
parameter here; the index structure of the AVX kernel is `kernel_dot_eq_sum` (Props.lean), the
pure Go loop is `dot_pure_formula` below.
-/
import SemaModel.Generated.Distance
namespace Sema.C20
open Sema Sema.Go Sema.Gen.Distance

/-! ### helper lemmas: an index-only `range` loop is a left fold over the indices -/
namespace Formula

theorem forRangeAux_index {α σ : Type} (g : Nat → σ → σ) (xs : List α) (i : Nat) (acc : σ) :
    Go.forRangeAux xs i acc (fun j _ s => g j s) = (List.range' i xs.length).foldl (fun s j => g j s) acc := by
  induction xs generalizing i acc with
  | nil => simp [Go.forRangeAux]
  | cons x rest ih => simp [Go.forRangeAux, ih, List.range'_succ]

theorem forRange_index {α σ : Type} (g : Nat → σ → σ) (xs : List α) (acc : σ) :
    Go.forRange xs acc (fun j _ s => g j s) = (List.range xs.length).foldl (fun s j => g j s) acc := by
  rw [Go.forRange, forRangeAux_index, List.range_eq_range']

theorem getI_ofNat {α : Type} [Inhabited α] (xs : List α) (j : Nat) (h : j < xs.length) :
    Go.getI xs (Int.ofNat j) = xs[j] := by
  have : ¬ ((j : Int) < 0) := by omega
  simp [Go.getI, List.getD_eq_getElem?_getD, h, this]

/-- `var s float32; for i := range x { s += f x[i] y[i] }` = the terms `f xᵢ yᵢ` summed from the left -/
theorem loop_eq_sumL (f : FExpr → FExpr → FExpr) (x y : List FExpr) (h : x.length ≤ y.length) :
    (List.range x.length).foldl (fun s j => FExpr.add s (f (Go.getI x (Int.ofNat j)) (Go.getI y (Int.ofNat j)))) (FExpr.lit 0) =
      FExpr.sumL (List.zipWith f x y) := by
  have e : List.zipWith f x y = (List.range x.length).map (fun j => f (Go.getI x (Int.ofNat j)) (Go.getI y (Int.ofNat j))) := by
    apply List.ext_getElem
    · simp; omega
    · intro n h1 h2
      have hx : n < x.length := by simp at h1; omega
      have ex := getI_ofNat x n hx
      have ey := getI_ofNat y n (by omega)
      simp only [Int.ofNat_eq_natCast] at ex ey
      simp [ex, ey]
  rw [FExpr.sumL, e, List.foldl_map]

end Formula

/-! ### dot and cosine distance -/

/-- `dotProductDistance(x, y) = -dotProductImpl(x, y)` -/
theorem dot_distance_formula (dotImpl : List FExpr → List FExpr → FExpr) (x y : List FExpr) :
    dotProductDistance dotImpl x y = FExpr.neg (dotImpl x y) := rfl

/-- `cosineDistance(x, y) = 1 - dotProductImpl(x, y)` (the vectors are normalised on insert; no clamp) -/
theorem cosine_distance_formula (dotImpl : List FExpr → List FExpr → FExpr) (x y : List FExpr) :
    cosineDistance dotImpl x y = FExpr.sub (FExpr.lit 1) (dotImpl x y) := rfl

/-! ### haversine -/

/-- degrees (a float32) to radians: `float64(d) * degToRad` -/
def rad (d : FExpr) : FExpr := FExpr.mul (FExpr.toF64 d) FExpr.degToRad
/-- `math.Sin((a - b) / 2)` -/
def sinHalfDiff (a b : FExpr) : FExpr := FExpr.sin (FExpr.div (FExpr.sub a b) (FExpr.lit 2))
/-- `sin²(Δlat/2) + cos lat₁ · cos lat₂ · sin²(Δlon/2)`, multiplied from the left as the source does -/
def havArg (lat1 lon1 lat2 lon2 : FExpr) : FExpr :=
  FExpr.add (FExpr.mul (sinHalfDiff (rad lat1) (rad lat2)) (sinHalfDiff (rad lat1) (rad lat2)))
    (FExpr.mul (FExpr.mul (FExpr.mul (FExpr.cos (rad lat1)) (FExpr.cos (rad lat2))) (sinHalfDiff (rad lon1) (rad lon2)))
      (sinHalfDiff (rad lon1) (rad lon2)))
/-- the documented formula: `float32(earthRadius · (2 · asin(min(1, √a))))`, all in float64 until the end -/
def haversineTree (lat1 lon1 lat2 lon2 : FExpr) : FExpr :=
  FExpr.toF32 (FExpr.mul FExpr.earthRadius
    (FExpr.mul (FExpr.lit 2) (FExpr.asin (FExpr.min (FExpr.lit 1) (FExpr.sqrt (havArg lat1 lon1 lat2 lon2))))))

/-- the whole of `haversineDistance`, clamp included, for `x = [lat₁, lon₁, …]`, `y = [lat₂, lon₂, …]` -/
theorem haversine_formula (x y : List FExpr) :
    haversineDistance x y = haversineTree (Go.getI x 0) (Go.getI x 1) (Go.getI y 0) (Go.getI y 1) := rfl

/-- on two coordinate pairs -/
theorem haversine_formula_pair (lat1 lon1 lat2 lon2 : FExpr) :
    haversineDistance [lat1, lon1] [lat2, lon2] = haversineTree lat1 lon1 lat2 lon2 := rfl

example : haversineDistance [.var 0x42480000#32, .var 0x41200000#32] [.var 0xc2480000#32, .var 0x43200000#32] =
    haversineTree (.var 0x42480000#32) (.var 0x41200000#32) (.var 0xc2480000#32) (.var 0x43200000#32) := by decide

/-! ### the two pure Go reference loops -/

/-- `dotProductPureGo`: Σ xᵢ·yᵢ, the products added one after the other from the left to 0 -/
theorem dot_pure_formula (x y : List FExpr) (h : x.length ≤ y.length) :
    dotProductPureGo x y = FExpr.sumL (List.zipWith FExpr.mul x y) := by
  simp only [dotProductPureGo]
  rw [Formula.forRange_index (fun j s => FExpr.add s (FExpr.mul (Go.getI x (Int.ofNat j)) (Go.getI y (Int.ofNat j))))]
  exact Formula.loop_eq_sumL FExpr.mul x y h

/-- `squaredEuclideanDistancePureGo`: Σ (xᵢ−yᵢ)·(xᵢ−yᵢ), same order -/
theorem l2_pure_formula (x y : List FExpr) (h : x.length ≤ y.length) :
    squaredEuclideanDistancePureGo x y =
      FExpr.sumL (List.zipWith (fun a b => FExpr.mul (FExpr.sub a b) (FExpr.sub a b)) x y) := by
  simp only [squaredEuclideanDistancePureGo]
  rw [Formula.forRange_index (fun j s => FExpr.add s (FExpr.mul (FExpr.sub (Go.getI x (Int.ofNat j)) (Go.getI y (Int.ofNat j)))
    (FExpr.sub (Go.getI x (Int.ofNat j)) (Go.getI y (Int.ofNat j)))))]
  exact Formula.loop_eq_sumL (fun a b => FExpr.mul (FExpr.sub a b) (FExpr.sub a b)) x y h

example : dotProductPureGo [.lit 1, .lit 2, .lit 3] [.lit 4, .lit 5, .lit 6] =
    .add (.add (.add (.lit 0) (.mul (.lit 1) (.lit 4))) (.mul (.lit 2) (.lit 5))) (.mul (.lit 3) (.lit 6)) := by decide

example : squaredEuclideanDistancePureGo [.lit 1, .lit 2] [.lit 4, .lit 6] =
    .add (.add (.lit 0) (.mul (.sub (.lit 1) (.lit 4)) (.sub (.lit 1) (.lit 4)))) (.mul (.sub (.lit 2) (.lit 6)) (.sub (.lit 2) (.lit 6))) := by decide

/-- the cosine and dot distances over the pure Go loop (what runs without AVX2+FMA) -/
theorem cosine_pure_formula (x y : List FExpr) (h : x.length ≤ y.length) :
    cosineDistance dotProductPureGo x y = FExpr.sub (FExpr.lit 1) (FExpr.sumL (List.zipWith FExpr.mul x y)) := by
  rw [cosine_distance_formula, dot_pure_formula x y h]

theorem dot_distance_pure_formula (x y : List FExpr) (h : x.length ≤ y.length) :
    dotProductDistance dotProductPureGo x y = FExpr.neg (FExpr.sumL (List.zipWith FExpr.mul x y)) := by
  rw [dot_distance_formula, dot_pure_formula x y h]

end Sema.C20
