/-
C20 — what `productQuantizer.Fit()` leaves in the two tables, as theorems about the definitions generated from
shard/vectorstore/product.go (SemaModel/Generated/PQDist.lean: `pq_fitFlatCentroids`, `pq_fitCentroidDists` — the statements
each per-sub-vector goroutine of `Fit()` runs after k-means; `kmeans.Centroids` is a parameter, k-means itself is not translated).

* `pq_centroid_table_formula`: after the fill for sub-space `i`, EVERY entry `(j, k)`, `j, k < NumCentroids` — the diagonal included —
  of sub-space `i`'s block of `centroidDists` is `distFn(centroid_j, centroid_k)`; nothing outside that block is touched; no other field changes.
* `pq_flat_centroids_formula`: after the copy, `flatCentroids[flatCentroidSlice(i, j)]` is `centroid_j`; nothing outside the block changes.
* `pq_fit_tables`: the per-sub-vector bodies run one after the other in ANY order that contains every sub-space give tables that are
  right for all sub-spaces (the goroutine fan-out / WaitGroup is not translated: the bodies write disjoint blocks — the frame clauses —).
* `pq_point_distance_formula`: for a quantiser fitted like that, `DistanceFromPoint(x)(y) = Σ_i distFn(centroid_{i,code_x[i]}, centroid_{i,code_y[i]})`,
  added from the left to 0.
* `pq_float_point_consistent`: `DistanceFromFloat(x̂)(y)` — table build and look-up — is the SAME expression when the query's sub-vectors are
  the centroids of `x`'s codes.
Floats are symbolic (`Go.FExpr`): `distFn` is an arbitrary function, in particular one with `distFn c c ≠ 0` (the dot metric).
-/
import SemaModel.C20.FormulaPQ
namespace Sema.C20
open Sema Sema.Go Sema.Gen.PQDist

namespace FormulaPQFit

/-! ### element writes and window copies, pointwise -/

theorem setI_length {α : Type} (T : List α) (i : Int) (v : α) : (Go.setI T i v).length = T.length := by
  unfold Go.setI; split <;> simp

theorem getI_setI_ne {α : Type} [Inhabited α] (T : List α) (i q : Int) (v : α) (h : i ≠ q) :
    Go.getI (Go.setI T i v) q = Go.getI T q := by
  unfold Go.getI Go.setI
  by_cases hq : q < 0
  · simp [hq]
  · by_cases hi : i < 0
    · simp [hi]
    · simp only [hq, hi, if_false]
      have hne : i.toNat ≠ q.toNat := by omega
      rw [List.getD_eq_getElem?_getD, List.getD_eq_getElem?_getD, List.getElem?_set_ne hne]

theorem getI_setI_eq {α : Type} [Inhabited α] (T : List α) (i : Int) (v : α) (h0 : 0 ≤ i) (hl : i.toNat < T.length) :
    Go.getI (Go.setI T i v) i = v := by
  unfold Go.getI Go.setI
  have hi : ¬ i < 0 := by omega
  simp only [hi, if_false]
  rw [List.getD_eq_getElem?_getD, List.getElem?_set_self hl]
  rfl

/-- a run of element writes `T[f p] = g p`, one per item of `ps`, in the order of the list -/
def writes {α β : Type} (f : β → Int) (g : β → α) (ps : List β) (T : List α) : List α :=
  ps.foldl (fun T p => Go.setI T (f p) (g p)) T

theorem writes_length {α β : Type} (f : β → Int) (g : β → α) (ps : List β) : ∀ T : List α, (writes f g ps T).length = T.length := by
  induction ps with
  | nil => intro T; rfl
  | cons a rest ih => intro T; simp only [writes, List.foldl_cons] at ih ⊢; rw [ih, setI_length]

/-- a position no write aims at keeps its value -/
theorem writes_miss {α β : Type} [Inhabited α] (f : β → Int) (g : β → α) (q : Int) (ps : List β) :
    ∀ T : List α, (∀ p ∈ ps, f p ≠ q) → Go.getI (writes f g ps T) q = Go.getI T q := by
  induction ps with
  | nil => intro T _; rfl
  | cons a rest ih =>
    intro T h
    simp only [writes, List.foldl_cons] at ih ⊢
    rw [ih _ (fun p hp => h p (List.mem_cons_of_mem _ hp)), getI_setI_ne _ _ _ _ (h a (List.mem_cons_self ..))]

/-- a position some write aims at holds the value written, provided every write to that position writes the same value -/
theorem writes_hit {α β : Type} [Inhabited α] (f : β → Int) (g : β → α) (ps : List β) :
    ∀ (T : List α) (p : β), p ∈ ps → 0 ≤ f p → (f p).toNat < T.length → (∀ p' ∈ ps, f p' = f p → g p' = g p) →
      Go.getI (writes f g ps T) (f p) = g p := by
  induction ps with
  | nil => intro T p hp; cases hp
  | cons a rest ih =>
    intro T p hp h0 hl hsame
    simp only [writes, List.foldl_cons] at ih ⊢
    by_cases hex : ∃ p' ∈ rest, f p' = f p
    · obtain ⟨p', hp', hf⟩ := hex
      have := ih (Go.setI T (f a) (g a)) p' hp' (by rw [hf]; exact h0) (by rw [hf, setI_length]; exact hl)
        (fun p'' hp'' hf'' => by
          rw [hsame p'' (List.mem_cons_of_mem _ hp'') (hf''.trans hf), hsame p' (List.mem_cons_of_mem _ hp') hf])
      rw [hf] at this
      rw [this, hsame p' (List.mem_cons_of_mem _ hp') hf]
    · have hnone : ∀ p' ∈ rest, f p' ≠ f p := fun p' hp' hf => hex ⟨p', hp', hf⟩
      have hpa : p = a := by
        rcases List.mem_cons.mp hp with h | h
        · exact h
        · exact absurd rfl (hnone p h)
      subst hpa
      have := writes_miss f g (f p) rest (Go.setI T (f p) (g p)) hnone
      simp only [writes] at this
      rw [this, getI_setI_eq _ _ _ h0 hl]

/-- `j·K + k` determines `j` and `k` when `k < K` -/
theorem pair_inj {K j k j' k' : Nat} (hk : k < K) (hk' : k' < K) (h : j * K + k = j' * K + k') : j = j' ∧ k = k' := by
  have hK : 0 < K := by omega
  have h1 : (j * K + k) / K = j := by
    rw [Nat.add_comm, Nat.add_mul_div_right _ _ hK, Nat.div_eq_of_lt hk, Nat.zero_add]
  have h2 : (j' * K + k') / K = j' := by
    rw [Nat.add_comm, Nat.add_mul_div_right _ _ hK, Nat.div_eq_of_lt hk', Nat.zero_add]
  have hj : j = j' := by rw [← h1, ← h2, h]
  subst hj
  exact ⟨rfl, by omega⟩

theorem writes_append {α β : Type} (f : β → Int) (g : β → α) (a b : List β) (T : List α) :
    writes f g (a ++ b) T = writes f g b (writes f g a T) := by
  simp [writes, List.foldl_append]

theorem writes_map {α β γ : Type} (f : β → Int) (g : β → α) (h : γ → β) (l : List γ) (T : List α) :
    writes f g (l.map h) T = writes (fun c => f (h c)) (fun c => g (h c)) l T := by
  simp [writes, List.foldl_map]

/-- a loop of loops of element writes is one run of writes over the pairs, row by row -/
theorem foldl_writes_flat {α β γ : Type} (f : β → γ → Int) (g : β → γ → α) (ks : List γ) (js : List β) :
    ∀ T : List α, js.foldl (fun T j => writes (f j) (g j) ks T) T =
      writes (fun p => f p.1 p.2) (fun p => g p.1 p.2) (js.flatMap fun j => ks.map fun k => (j, k)) T := by
  induction js with
  | nil => intro T; rfl
  | cons j rest ih =>
    intro T
    rw [List.foldl_cons, ih, List.flatMap_cons, writes_append, writes_map]

theorem mem_pairs {K L : Nat} {j k : Nat} (hj : j < K) (hk : k < L) :
    (j, k) ∈ (List.range' 0 K).flatMap fun j => (List.range' 0 L).map fun k => (j, k) := by
  simp only [List.mem_flatMap, List.mem_map, List.mem_range'_1]
  exact ⟨j, ⟨by omega, by omega⟩, k, ⟨by omega, by omega⟩, rfl⟩

theorem of_mem_pairs {K L : Nat} {p : Nat × Nat}
    (h : p ∈ (List.range' 0 K).flatMap fun j => (List.range' 0 L).map fun k => (j, k)) : p.1 < K ∧ p.2 < L := by
  simp only [List.mem_flatMap, List.mem_map, List.mem_range'_1] at h
  obtain ⟨j, ⟨_, hj⟩, k, ⟨_, hk⟩, rfl⟩ := h
  exact ⟨by omega, by omega⟩

/-- two lists of one length that read the same everywhere are equal -/
theorem ext_getI {α : Type} [Inhabited α] (a b : List α) (hl : a.length = b.length)
    (h : ∀ q : Nat, q < a.length → Go.getI a (q : Int) = Go.getI b (q : Int)) : a = b := by
  apply List.ext_getElem hl
  intro q h1 h2
  have := h q h1
  unfold Go.getI at this
  have h0 : ¬ ((q : Int) < 0) := by omega
  rw [if_neg h0, if_neg h0, Int.toNat_natCast, List.getD_eq_getElem?_getD, List.getD_eq_getElem?_getD,
    List.getElem?_eq_getElem h1, List.getElem?_eq_getElem h2] at this
  simpa using this

/-! ### the fill of the centroid-to-centroid table (generated: `pq_fitCentroidDists`, two nested loops) -/

/-- the quantiser with another centroid-distance table -/
def withDists (pq : productQuantizer) (T : List FExpr) : productQuantizer := { pq with centroidDists := T }
/-- the quantiser with other flat centroids -/
def withFlat (pq : productQuantizer) (F : List FExpr) : productQuantizer := { pq with flatCentroids := F }

/-- what the fill stores for the pair `(j, k)`: the quantiser's sub-vector distance of centroid `j` and centroid `k` of the k-means result -/
def entry (pq : productQuantizer) (km : KMeans) (j k : Nat) : FExpr :=
  pq.distFn (Go.getI km.Centroids (j : Int)) (Go.getI km.Centroids (k : Int))

/-- where: `centroidDistIdx(i, j, k)` -/
def cidx (pq : productQuantizer) (i j k : Nat) : Int := productQuantizer_centroidDistIdx pq (i : Int) (j : Int) (k : Int)

theorem cidx_eq (pq : productQuantizer) (K : Nat) (hK : pq.params.NumCentroids = (K : Int)) (i j k : Nat) :
    cidx pq i j k = ((i * K * K + j * K + k : Nat) : Int) := by
  unfold cidx productQuantizer_centroidDistIdx
  rw [hK]; push_cast; rfl

/-- the inner loop: row `j`, columns `k … K-1` -/
theorem fill_loop2 (pq : productQuantizer) (km : KMeans) (K : Nat) (hK : pq.params.NumCentroids = (K : Int)) (i j : Nat) :
    ∀ (m k : Nat) (T : List FExpr) (fuel : Nat), k + m = K → m < fuel →
      pq_fitCentroidDists_loop2 (i : Int) (j : Int) km fuel (k : Int) (withDists pq T) =
        .next ((K : Int), withDists pq (writes (cidx pq i j) (entry pq km j) (List.range' k m) T)) := by
  intro m
  induction m with
  | zero =>
    intro k T fuel hk hf
    obtain ⟨f, rfl⟩ : ∃ f, fuel = f + 1 := ⟨fuel - 1, by omega⟩
    have : k = K := by omega
    subst this
    simp [pq_fitCentroidDists_loop2, withDists, hK, writes]
  | succ m ih =>
    intro k T fuel hk hf
    obtain ⟨f, rfl⟩ : ∃ f, fuel = f + 1 := ⟨fuel - 1, by omega⟩
    have hlt : ((k : Nat) : Int) < (K : Int) := by omega
    have hstep : ((k : Nat) : Int) + 1 = ((k + 1 : Nat) : Int) := by omega
    have hcond : decide (((k : Nat) : Int) < (withDists pq T).params.NumCentroids) = true := by
      simp [withDists, hK, hlt]
    rw [pq_fitCentroidDists_loop2, if_pos hcond]
    show pq_fitCentroidDists_loop2 (i : Int) (j : Int) km f ((k : Int) + 1) (withDists pq (Go.setI T (cidx pq i j k) (entry pq km j k))) = _
    rw [hstep]
    rw [ih (k + 1) _ f (by omega) (by omega)]
    simp [writes, List.range'_succ]

/-- the outer loop: rows `j … K-1` -/
theorem fill_loop1 (pq : productQuantizer) (km : KMeans) (K : Nat) (hK : pq.params.NumCentroids = (K : Int)) (i : Nat) :
    ∀ (m j : Nat) (T : List FExpr) (fuel : Nat), j + m = K → m + K + 1 ≤ fuel →
      pq_fitCentroidDists_loop1 (i : Int) km fuel (j : Int) (withDists pq T) =
        .next ((K : Int), withDists pq ((List.range' j m).foldl (fun T j => writes (cidx pq i j) (entry pq km j) (List.range' 0 K) T) T)) := by
  intro m
  induction m with
  | zero =>
    intro j T fuel hj hf
    obtain ⟨f, rfl⟩ : ∃ f, fuel = f + 1 := ⟨fuel - 1, by omega⟩
    have : j = K := by omega
    subst this
    simp [pq_fitCentroidDists_loop1, withDists, hK]
  | succ m ih =>
    intro j T fuel hj hf
    obtain ⟨f, rfl⟩ : ∃ f, fuel = f + 1 := ⟨fuel - 1, by omega⟩
    have hlt : ((j : Nat) : Int) < (K : Int) := by omega
    have hstep : ((j : Nat) : Int) + 1 = ((j + 1 : Nat) : Int) := by omega
    have hcond : decide (((j : Nat) : Int) < (withDists pq T).params.NumCentroids) = true := by
      simp [withDists, hK, hlt]
    have h00 : (0 : Int) = ((0 : Nat) : Int) := rfl
    rw [pq_fitCentroidDists_loop1, if_pos hcond]
    simp only []
    rw [h00, fill_loop2 pq km K hK i j K 0 T f (by omega) (by omega)]
    simp only [Go.Ctl.andThen, hstep]
    rw [ih (j + 1) _ f (by omega) (by omega)]
    simp [List.range'_succ]

/-! ### the copy of the centroids into `flatCentroids` (generated: `pq_fitFlatCentroids`, a loop of `copy` statements) -/

theorem getI_nat {α : Type} [Inhabited α] (T : List α) (q : Nat) : Go.getI T (q : Int) = T[q]?.getD default := by
  unfold Go.getI
  have h0 : ¬ ((q : Int) < 0) := by omega
  rw [if_neg h0, Int.toNat_natCast, List.getD_eq_getElem?_getD]

/-- a `copy` of a full window: what is before and after the window stays, the window becomes the source -/
theorem copyInto_eq {α : Type} (T src : List α) (lo L : Nat) (hs : src.length = L) (hl : lo + L ≤ T.length) :
    Go.copyInto T (lo : Int) ((lo + L : Nat) : Int) src = T.take lo ++ src ++ T.drop (lo + L) := by
  unfold Go.copyInto
  simp only [Int.toNat_natCast]
  have h1 : min (lo + L) T.length = lo + L := Nat.min_eq_left hl
  have h2 : min (lo + L - lo) src.length = L := by rw [Nat.add_sub_cancel_left, hs, Nat.min_self]
  rw [h1, h2, ← hs, List.take_length]

/-- … which is `L` element writes -/
theorem copyInto_eq_writes {α : Type} [Inhabited α] (T src : List α) (lo L : Nat) (hs : src.length = L) (hl : lo + L ≤ T.length) :
    Go.copyInto T (lo : Int) ((lo + L : Nat) : Int) src =
      writes (fun t : Nat => ((lo + t : Nat) : Int)) (fun t : Nat => Go.getI src (t : Int)) (List.range' 0 L) T := by
  rw [copyInto_eq T src lo L hs hl]
  have hlen : (T.take lo ++ src ++ T.drop (lo + L)).length = T.length := by
    simp only [List.length_append, List.length_take, List.length_drop]; omega
  apply ext_getI _ _ (by rw [hlen, writes_length])
  intro q hq
  rw [hlen] at hq
  by_cases hin : lo ≤ q ∧ q < lo + L
  · obtain ⟨t, rfl⟩ : ∃ t, q = lo + t := ⟨q - lo, by omega⟩
    have ht : t < L := by omega
    have := writes_hit (fun t : Nat => ((lo + t : Nat) : Int)) (fun t : Nat => Go.getI src (t : Int)) (List.range' 0 L) T t
      (by simp [List.mem_range'_1]; omega) (by omega) (by simp only [Int.toNat_natCast]; omega)
      (by intro t' _ h; have : t' = t := by omega
          rw [this])
    rw [this, getI_nat, getI_nat, List.append_assoc, List.getElem?_append_right (by simp; omega)]
    simp only [List.length_take, Nat.min_eq_left (by omega : lo ≤ T.length), Nat.add_sub_cancel_left]
    rw [List.getElem?_append_left (by omega)]
  · have := writes_miss (fun t : Nat => ((lo + t : Nat) : Int)) (fun t : Nat => Go.getI src (t : Int)) (q : Int) (List.range' 0 L) T
      (by intro t ht h; simp [List.mem_range'_1] at ht; omega)
    rw [this, getI_nat, getI_nat]
    by_cases hb : q < lo
    · rw [List.append_assoc, List.getElem?_append_left (by simp; omega), List.getElem?_take_of_lt hb]
    · have hq2 : lo + L ≤ q := by omega
      rw [List.getElem?_append_right (by simp; omega)]
      simp only [List.length_append, List.length_take, Nat.min_eq_left (by omega : lo ≤ T.length), hs, List.getElem?_drop]
      congr 2; omega

/-- reading a window whose items are known -/
theorem sliceI_ext {α : Type} [Inhabited α] (F src : List α) (a L : Nat) (hs : src.length = L) (hl : a + L ≤ F.length)
    (h : ∀ t : Nat, t < L → Go.getI F ((a + t : Nat) : Int) = Go.getI src (t : Int)) :
    Go.sliceI F (a : Int) ((a + L : Nat) : Int) = src := by
  unfold Go.sliceI
  simp only [Int.toNat_natCast]
  have hlen : ((F.take (a + L)).drop a).length = src.length := by
    simp only [List.length_drop, List.length_take]; omega
  apply ext_getI _ _ hlen
  intro t ht
  rw [hlen, hs] at ht
  rw [← h t ht, getI_nat, getI_nat, List.getElem?_drop, List.getElem?_take_of_lt (by omega)]

/-- all pairs `(j, k)`, `j < K`, `k < L`, row by row: the order in which the loops visit them -/
def pairs2 (K L : Nat) : List (Nat × Nat) := (List.range' 0 K).flatMap fun j => (List.range' 0 L).map fun k => (j, k)
/-- all pairs `(j, k)`, `j, k < K` -/
def pairs (K : Nat) : List (Nat × Nat) := pairs2 K K

theorem block_lt2 {K L j t : Nat} (hj : j < K) (ht : t < L) : j * L + t < K * L :=
  calc j * L + t < j * L + L := by omega
    _ = (j + 1) * L := by rw [Nat.succ_mul]
    _ ≤ K * L := Nat.mul_le_mul_right L hj

theorem fslice_eq (pq : productQuantizer) (K L : Nat) (hK : pq.params.NumCentroids = (K : Int)) (hL : pq.subVectorLen = (L : Int)) (i j : Nat) :
    productQuantizer_flatCentroidSlice pq (i : Int) (j : Int) = (((i * K * L + j * L : Nat) : Int), ((i * K * L + j * L + L : Nat) : Int)) := by
  unfold productQuantizer_flatCentroidSlice
  simp only [hK, hL]; push_cast; rfl

/-- the loop of copies: centroids `j … K-1` -/
theorem flat_loop (pq : productQuantizer) (km : KMeans) (K L : Nat) (hK : pq.params.NumCentroids = (K : Int)) (hL : pq.subVectorLen = (L : Int))
    (i : Nat) (hC : ∀ j : Nat, j < K → (Go.getI km.Centroids (j : Int)).length = L) :
    ∀ (m j : Nat) (F : List FExpr) (fuel : Nat), j + m = K → m < fuel → (i + 1) * K * L ≤ F.length →
      pq_fitFlatCentroids_loop1 (i : Int) km fuel (j : Int) (withFlat pq F) =
        .next ((K : Int), withFlat pq ((List.range' j m).foldl (fun F j =>
          writes (fun t : Nat => ((i * K * L + j * L + t : Nat) : Int)) (fun t : Nat => Go.getI (Go.getI km.Centroids (j : Int)) (t : Int)) (List.range' 0 L) F) F)) := by
  intro m
  induction m with
  | zero =>
    intro j F fuel hj hf _
    obtain ⟨f, rfl⟩ : ∃ f, fuel = f + 1 := ⟨fuel - 1, by omega⟩
    have : j = K := by omega
    subst this
    simp [pq_fitFlatCentroids_loop1, withFlat, hK]
  | succ m ih =>
    intro j F fuel hj hf hlen
    obtain ⟨f, rfl⟩ : ∃ f, fuel = f + 1 := ⟨fuel - 1, by omega⟩
    have hlt : ((j : Nat) : Int) < (K : Int) := by omega
    have hstep : ((j : Nat) : Int) + 1 = ((j + 1 : Nat) : Int) := by omega
    have hcond : decide (((j : Nat) : Int) < (withFlat pq F).params.NumCentroids) = true := by
      simp [withFlat, hK, hlt]
    rw [pq_fitFlatCentroids_loop1, if_pos hcond]
    show pq_fitFlatCentroids_loop1 (i : Int) km f ((j : Int) + 1) (withFlat pq (Go.copyInto F
      (productQuantizer_flatCentroidSlice pq (i : Int) (j : Int)).1 (productQuantizer_flatCentroidSlice pq (i : Int) (j : Int)).2
      (Go.getI km.Centroids (j : Int)))) = _
    have hwin : i * K * L + j * L + L ≤ F.length := by
      have h1 := block_lt2 (K := K) (L := L) (j := j) (t := 0) (by omega)
      have h2 : (i + 1) * K * L = i * K * L + K * L := by rw [Nat.succ_mul, Nat.add_mul]
      have h3 : j * L + L = (j + 1) * L := by rw [Nat.succ_mul]
      have h4 : (j + 1) * L ≤ K * L := Nat.mul_le_mul_right L (by omega)
      omega
    rw [fslice_eq pq K L hK hL i j, hstep]
    simp only []
    rw [copyInto_eq_writes F _ (i * K * L + j * L) L (hC j (by omega)) hwin]
    rw [ih (j + 1) _ f (by omega) (by omega) (by rw [writes_length]; exact hlen)]
    simp [List.range'_succ, Nat.add_assoc]

/-- the fill for sub-space `i` is a run of `K·K` element writes, one per pair -/
theorem fill_result (pq : productQuantizer) (km : KMeans) (K : Nat) (hK : pq.params.NumCentroids = (K : Int)) (i fuel : Nat)
    (hf : 2 * K + 1 ≤ fuel) :
    pq_fitCentroidDists fuel pq (i : Int) km =
      .ret (withDists pq (writes (fun p => cidx pq i p.1 p.2) (fun p => entry pq km p.1 p.2) (pairs K) pq.centroidDists)) := by
  unfold pq_fitCentroidDists
  show (pq_fitCentroidDists_loop1 (i : Int) km fuel ((0 : Nat) : Int) (withDists pq pq.centroidDists)).finish _ = _
  rw [fill_loop1 pq km K hK i K 0 _ fuel (by omega) (by omega)]
  simp only [Go.Ctl.finish]
  rw [foldl_writes_flat (fun j k => cidx pq i j k) (fun j k => entry pq km j k)]
  rfl

theorem block_lt {K j k : Nat} (hj : j < K) (hk : k < K) : j * K + k < K * K :=
  calc j * K + k < j * K + K := by omega
    _ = (j + 1) * K := by rw [Nat.succ_mul]
    _ ≤ K * K := Nat.mul_le_mul_right K hj

/-- the copy for sub-space `i` is a run of `K·L` element writes -/
theorem flat_result (pq : productQuantizer) (km : KMeans) (K L : Nat) (hK : pq.params.NumCentroids = (K : Int)) (hL : pq.subVectorLen = (L : Int))
    (i fuel : Nat) (hf : K + 1 ≤ fuel) (hC : ∀ j : Nat, j < K → (Go.getI km.Centroids (j : Int)).length = L)
    (hlen : (i + 1) * K * L ≤ pq.flatCentroids.length) :
    pq_fitFlatCentroids fuel pq (i : Int) km =
      .ret (withFlat pq (writes (fun p : Nat × Nat => ((i * K * L + p.1 * L + p.2 : Nat) : Int))
        (fun p => Go.getI (Go.getI km.Centroids (p.1 : Int)) (p.2 : Int)) (pairs2 K L) pq.flatCentroids)) := by
  unfold pq_fitFlatCentroids
  show (pq_fitFlatCentroids_loop1 (i : Int) km fuel ((0 : Nat) : Int) (withFlat pq pq.flatCentroids)).finish _ = _
  rw [flat_loop pq km K L hK hL i hC K 0 _ fuel (by omega) (by omega) hlen]
  simp only [Go.Ctl.finish]
  rw [foldl_writes_flat (fun j t => ((i * K * L + j * L + t : Nat) : Int)) (fun j t => Go.getI (Go.getI km.Centroids (j : Int)) (t : Int))]
  rfl

end FormulaPQFit

open FormulaPQFit in
/-- **`flatCentroids` after `Fit()`**, sub-space `i`: the generated loop of `copy` statements changes nothing but `flatCentroids`; afterwards the
window `flatCentroidSlice(i, j)` holds centroid `j` of the k-means result, for every `j < NumCentroids` (centroids have the sub-vector
length, the table is large enough: what `make` in `Fit()` provides); length and everything outside sub-space `i`'s block stay -/
theorem pq_flat_centroids_formula (pq : productQuantizer) (km : KMeans) (K L i fuel : Nat) (hK : pq.params.NumCentroids = (K : Int))
    (hL : pq.subVectorLen = (L : Int)) (hf : K + 1 ≤ fuel) (hC : ∀ j : Nat, j < K → (Go.getI km.Centroids (j : Int)).length = L)
    (hlen : (i + 1) * K * L ≤ pq.flatCentroids.length) :
    ∃ F', pq_fitFlatCentroids fuel pq (i : Int) km = .ret (withFlat pq F') ∧ F'.length = pq.flatCentroids.length ∧
      (∀ j : Nat, j < K → Go.sliceI F' (productQuantizer_flatCentroidSlice pq (i : Int) (j : Int)).1 (productQuantizer_flatCentroidSlice pq (i : Int) (j : Int)).2 =
        Go.getI km.Centroids (j : Int)) ∧
      (∀ j t : Nat, j < K → t < L → Go.getI F' ((i * K * L + j * L + t : Nat) : Int) = Go.getI (Go.getI km.Centroids (j : Int)) (t : Int)) ∧
      (∀ q : Int, (q < ((i * K * L : Nat) : Int) ∨ (((i + 1) * K * L : Nat) : Int) ≤ q) → Go.getI F' q = Go.getI pq.flatCentroids q) := by
  have hsplit : (i + 1) * K * L = i * K * L + K * L := by rw [Nat.succ_mul, Nat.add_mul]
  have hpt : ∀ j t : Nat, j < K → t < L →
      Go.getI (writes (fun p : Nat × Nat => ((i * K * L + p.1 * L + p.2 : Nat) : Int))
        (fun p => Go.getI (Go.getI km.Centroids (p.1 : Int)) (p.2 : Int)) (pairs2 K L) pq.flatCentroids) ((i * K * L + j * L + t : Nat) : Int) =
      Go.getI (Go.getI km.Centroids (j : Int)) (t : Int) := by
    intro j t hj ht
    have hblock := block_lt2 hj ht
    exact writes_hit (fun p : Nat × Nat => ((i * K * L + p.1 * L + p.2 : Nat) : Int))
      (fun p => Go.getI (Go.getI km.Centroids (p.1 : Int)) (p.2 : Int)) (pairs2 K L) pq.flatCentroids (j, t)
      (mem_pairs hj ht) (by simp only; omega) (by simp only [Int.toNat_natCast]; omega)
      (by
        intro p' hp' hsame
        obtain ⟨hj', ht'⟩ := of_mem_pairs hp'
        have hnat : i * K * L + p'.1 * L + p'.2 = i * K * L + j * L + t := by exact_mod_cast hsame
        obtain ⟨h1, h2⟩ := pair_inj ht' ht (by omega : p'.1 * L + p'.2 = j * L + t)
        simp only [h1, h2])
  refine ⟨_, flat_result pq km K L hK hL i fuel hf hC hlen, writes_length _ _ _ _, ?_, hpt, ?_⟩
  · intro j hj
    rw [fslice_eq pq K L hK hL i j]
    have h0 := block_lt2 (K := K) (L := L) (j := j) (t := 0) hj
    have hjl : j * L + L ≤ K * L := by
      have : j * L + L = (j + 1) * L := by rw [Nat.succ_mul]
      rw [this]; exact Nat.mul_le_mul_right L (by omega)
    exact sliceI_ext _ _ (i * K * L + j * L) L (hC j hj) (by rw [writes_length]; omega)
      (fun t ht => by rw [← hpt j t hj ht])
  · intro q hq
    apply writes_miss
    intro p hp hsame
    obtain ⟨hj', ht'⟩ := of_mem_pairs hp
    have hblock := block_lt2 hj' ht'
    rcases hq with hq | hq
    · omega
    · rw [hsplit] at hq; omega

open FormulaPQFit in
/-- **the centroid-to-centroid distance table after `Fit()`**, sub-space `i`: the generated fill (run with enough fuel: one unit per
evaluation of a loop condition) changes nothing but `centroidDists`; afterwards EVERY entry `centroidDistIdx(i, j, k)`, `j, k < NumCentroids`
— `j = k` included — is `distFn(centroid_j, centroid_k)` of the k-means result, symbolically, for every `distFn`; the table keeps its
length and every position outside sub-space `i`'s block `[i·K·K, (i+1)·K·K)` keeps its value -/
theorem pq_centroid_table_formula (pq : productQuantizer) (km : KMeans) (K i fuel : Nat) (hK : pq.params.NumCentroids = (K : Int))
    (hf : 2 * K + 1 ≤ fuel) (hlen : (i + 1) * K * K ≤ pq.centroidDists.length) :
    ∃ T', pq_fitCentroidDists fuel pq (i : Int) km = .ret (withDists pq T') ∧ T'.length = pq.centroidDists.length ∧
      (∀ j k : Nat, j < K → k < K →
        Go.getI T' (productQuantizer_centroidDistIdx pq (i : Int) (j : Int) (k : Int)) =
          pq.distFn (Go.getI km.Centroids (j : Int)) (Go.getI km.Centroids (k : Int))) ∧
      (∀ q : Int, (q < ((i * K * K : Nat) : Int) ∨ (((i + 1) * K * K : Nat) : Int) ≤ q) → Go.getI T' q = Go.getI pq.centroidDists q) := by
  refine ⟨_, fill_result pq km K hK i fuel hf, writes_length _ _ _ _, ?_, ?_⟩
  · intro j k hj hk
    have hblock := block_lt hj hk
    have hidx := cidx_eq pq K hK i j k
    have hlt : i * K * K + j * K + k < pq.centroidDists.length := by
      have : (i + 1) * K * K = i * K * K + K * K := by rw [Nat.succ_mul, Nat.add_mul]
      omega
    have := writes_hit (fun p : Nat × Nat => cidx pq i p.1 p.2) (fun p => entry pq km p.1 p.2) (pairs K) pq.centroidDists (j, k)
      (mem_pairs hj hk) (by simp only [hidx]; omega) (by simp only [hidx, Int.toNat_natCast]; exact hlt)
      (by
        intro p' hp' hsame
        obtain ⟨hj', hk'⟩ := of_mem_pairs hp'
        simp only [cidx_eq pq K hK] at hsame
        have hnat : i * K * K + p'.1 * K + p'.2 = i * K * K + j * K + k := by exact_mod_cast hsame
        obtain ⟨h1, h2⟩ := pair_inj hk' hk (by omega : p'.1 * K + p'.2 = j * K + k)
        simp only [h1, h2])
    exact this
  · intro q hq
    apply writes_miss
    intro p hp hsame
    obtain ⟨hj', hk'⟩ := of_mem_pairs hp
    have hblock := block_lt hj' hk'
    simp only [cidx_eq pq K hK] at hsame
    have : (i + 1) * K * K = i * K * K + K * K := by rw [Nat.succ_mul, Nat.add_mul]
    rcases hq with hq | hq
    · omega
    · rw [this] at hq; omega

/-! ### all sub-spaces: the bodies of the goroutines of `Fit()` one after the other, and the two quantised distances of the result -/

namespace FormulaPQFit

/-- what one goroutine of `Fit()` does with the k-means result `km` of sub-space `i` (generated fragments, in source order): copy the
centroids into `flatCentroids`, fill the block of `centroidDists`.  k-means itself and the write of the points' labels are not translated -/
def fitSub (fuel : Nat) (pq : productQuantizer) (i : Nat) (km : KMeans) : Go.Out productQuantizer :=
  match pq_fitFlatCentroids fuel pq (i : Int) km with
  | .ret pq1 => pq_fitCentroidDists fuel pq1 (i : Int) km
  | .outOfFuel => .outOfFuel

/-- the bodies for the sub-spaces of `order`, one after the other (`Fit()` starts one goroutine per sub-space and waits for all of them;
the fan-out is not translated: the theorems hold for EVERY order, and the bodies write disjoint blocks — the frame clauses above) -/
def fitAll (fuel : Nat) (kms : Nat → KMeans) : List Nat → productQuantizer → Go.Out productQuantizer
  | [], pq => .ret pq
  | i :: rest, pq =>
    match fitSub fuel pq i (kms i) with
    | .ret pq1 => fitAll fuel kms rest pq1
    | .outOfFuel => .outOfFuel

/-- centroid `j` of sub-space `i` -/
def cent (kms : Nat → KMeans) (i j : Nat) : List FExpr := Go.getI (kms i).Centroids (j : Int)

/-- sub-space `i`'s block of the centroid-distance table is right: every entry, diagonal included -/
def TableOK (pq : productQuantizer) (K : Nat) (kms : Nat → KMeans) (T : List FExpr) (i : Nat) : Prop :=
  ∀ j k : Nat, j < K → k < K → Go.getI T ((i * K * K + j * K + k : Nat) : Int) = pq.distFn (cent kms i j) (cent kms i k)

/-- sub-space `i`'s block of the flat centroids is right -/
def FlatOK (K L : Nat) (kms : Nat → KMeans) (F : List FExpr) (i : Nat) : Prop :=
  ∀ j t : Nat, j < K → t < L → Go.getI F ((i * K * L + j * L + t : Nat) : Int) = Go.getI (cent kms i j) (t : Int)

/-- the quantiser with both tables replaced -/
def withTables (pq : productQuantizer) (T F : List FExpr) : productQuantizer := { pq with centroidDists := T, flatCentroids := F }

/-- blocks of different sub-spaces do not overlap -/
theorem block_disjoint {B i i' r : Nat} (hne : i' ≠ i) (hr : r < B) : i' * B + r < i * B ∨ (i + 1) * B ≤ i' * B + r := by
  rcases Nat.lt_or_gt_of_ne hne with h | h
  · left
    calc i' * B + r < i' * B + B := by omega
      _ = (i' + 1) * B := by rw [Nat.succ_mul]
      _ ≤ i * B := Nat.mul_le_mul_right B h
  · right
    calc (i + 1) * B ≤ i' * B := Nat.mul_le_mul_right B h
      _ ≤ i' * B + r := Nat.le_add_right _ _

theorem sub_step (pq : productQuantizer) (kms : Nat → KMeans) (NS K L fuel : Nat) (hK : pq.params.NumCentroids = (K : Int))
    (hL : pq.subVectorLen = (L : Int)) (hf : 2 * K + 1 ≤ fuel) (i : Nat) (hi : i < NS)
    (hC : ∀ j : Nat, j < K → (cent kms i j).length = L) (T F : List FExpr) (hT : T.length = NS * K * K) (hF : F.length = NS * K * L) :
    ∃ T' F', fitSub fuel (withTables pq T F) i (kms i) = .ret (withTables pq T' F') ∧ T'.length = NS * K * K ∧ F'.length = NS * K * L ∧
      TableOK pq K kms T' i ∧ FlatOK K L kms F' i ∧
      (∀ i' : Nat, i' ≠ i → TableOK pq K kms T i' → TableOK pq K kms T' i') ∧
      (∀ i' : Nat, i' ≠ i → FlatOK K L kms F i' → FlatOK K L kms F' i') := by
  have hle : ∀ B : Nat, (i + 1) * K * B ≤ NS * K * B := fun B => by
    rw [Nat.mul_assoc, Nat.mul_assoc]; exact Nat.mul_le_mul_right _ (by omega)
  obtain ⟨F', hF1, hF2, _, hF4, hF5⟩ := pq_flat_centroids_formula (withTables pq T F) (kms i) K L i fuel hK hL (by omega) hC
    (by show (i + 1) * K * L ≤ F.length; rw [hF]; exact hle L)
  obtain ⟨T', hT1, hT2, hT3, hT4⟩ := pq_centroid_table_formula (withTables pq T F') (kms i) K i fuel hK hf
    (by show (i + 1) * K * K ≤ T.length; rw [hT]; exact hle K)
  refine ⟨T', F', ?_, by rw [hT2]; exact hT, by rw [hF2]; exact hF, ?_, ?_, ?_, ?_⟩
  · unfold fitSub
    rw [hF1]
    show pq_fitCentroidDists fuel (withTables pq T F') (i : Int) (kms i) = _
    rw [hT1]; rfl
  · intro j k hj hk
    have := hT3 j k hj hk
    rw [show productQuantizer_centroidDistIdx (withTables pq T F') (i : Int) (j : Int) (k : Int) = cidx pq i j k from rfl, cidx_eq pq K hK] at this
    exact this
  · intro j t hj ht
    exact hF4 j t hj ht
  · intro i' hne hok j k hj hk
    have hd := block_disjoint (B := K * K) (r := j * K + k) hne (block_lt hj hk)
    have e1 : i' * K * K + j * K + k = i' * (K * K) + (j * K + k) := by rw [Nat.mul_assoc, Nat.add_assoc]
    have e2 : i * K * K = i * (K * K) := Nat.mul_assoc _ _ _
    have e3 : (i + 1) * K * K = (i + 1) * (K * K) := Nat.mul_assoc _ _ _
    have hq : ((i' * K * K + j * K + k : Nat) : Int) < ((i * K * K : Nat) : Int) ∨ (((i + 1) * K * K : Nat) : Int) ≤ ((i' * K * K + j * K + k : Nat) : Int) := by
      rw [e1, e2, e3]
      rcases hd with h | h
      · left; exact_mod_cast h
      · right; exact_mod_cast h
    rw [hT4 _ hq]
    exact hok j k hj hk
  · intro i' hne hok j t hj ht
    have hd := block_disjoint (B := K * L) (r := j * L + t) hne (block_lt2 hj ht)
    have e1 : i' * K * L + j * L + t = i' * (K * L) + (j * L + t) := by rw [Nat.mul_assoc, Nat.add_assoc]
    have e2 : i * K * L = i * (K * L) := Nat.mul_assoc _ _ _
    have e3 : (i + 1) * K * L = (i + 1) * (K * L) := Nat.mul_assoc _ _ _
    have hq : ((i' * K * L + j * L + t : Nat) : Int) < ((i * K * L : Nat) : Int) ∨ (((i + 1) * K * L : Nat) : Int) ≤ ((i' * K * L + j * L + t : Nat) : Int) := by
      rw [e1, e2, e3]
      rcases hd with h | h
      · left; exact_mod_cast h
      · right; exact_mod_cast h
    rw [hF5 _ hq]
    exact hok j t hj ht

theorem fitAll_ok (pq : productQuantizer) (kms : Nat → KMeans) (NS K L fuel : Nat) (hK : pq.params.NumCentroids = (K : Int))
    (hL : pq.subVectorLen = (L : Int)) (hf : 2 * K + 1 ≤ fuel) :
    ∀ (order : List Nat) (T F : List FExpr) (done : Nat → Prop), (∀ i ∈ order, i < NS ∧ ∀ j : Nat, j < K → (cent kms i j).length = L) →
      T.length = NS * K * K → F.length = NS * K * L → (∀ i, done i → TableOK pq K kms T i ∧ FlatOK K L kms F i) →
      ∃ T' F', fitAll fuel kms order (withTables pq T F) = .ret (withTables pq T' F') ∧ T'.length = NS * K * K ∧ F'.length = NS * K * L ∧
        ∀ i, (done i ∨ i ∈ order) → TableOK pq K kms T' i ∧ FlatOK K L kms F' i := by
  intro order
  induction order with
  | nil =>
    intro T F done _ hT hF hdone
    exact ⟨T, F, rfl, hT, hF, fun i hi => hdone i (by simpa using hi)⟩
  | cons i rest ih =>
    intro T F done hord hT hF hdone
    obtain ⟨hi, hC⟩ := hord i (List.mem_cons_self ..)
    obtain ⟨T1, F1, hstep, hT1, hF1, hTi, hFi, hTfr, hFfr⟩ := sub_step pq kms NS K L fuel hK hL hf i hi hC T F hT hF
    obtain ⟨T', F', hrun, hT', hF', hall⟩ := ih T1 F1 (fun x => done x ∨ x = i) (fun x hx => hord x (List.mem_cons_of_mem _ hx)) hT1 hF1
      (by
        intro x hx
        by_cases hxi : x = i
        · subst hxi; exact ⟨hTi, hFi⟩
        · rcases hx with hx | hx
          · exact ⟨hTfr x hxi (hdone x hx).1, hFfr x hxi (hdone x hx).2⟩
          · exact absurd hx hxi)
    refine ⟨T', F', ?_, hT', hF', ?_⟩
    · show (match fitSub fuel (withTables pq T F) i (kms i) with
        | .ret pq1 => fitAll fuel kms rest pq1
        | .outOfFuel => .outOfFuel) = _
      rw [hstep]; exact hrun
    · intro x hx
      apply hall
      rcases hx with hx | hx
      · exact Or.inl (Or.inl hx)
      · rcases List.mem_cons.mp hx with h | h
        · exact Or.inl (Or.inr h)
        · exact Or.inr h

end FormulaPQFit

open FormulaPQFit in
/-- **both tables after `Fit()`**: the per-sub-space bodies run one after the other in any `order` (every listed sub-space `< NumSubVectors`, its
centroids of the sub-vector length; tables of the sizes `make` gives them) change nothing but the two tables, and for EVERY listed sub-space `i`,
all `j, k < NumCentroids`: `centroidDists[centroidDistIdx(i, j, k)] = distFn(centroid_{i,j}, centroid_{i,k})` and
`flatCentroids[flatCentroidSlice(i, j)] = centroid_{i,j}` -/
theorem pq_fit_tables (pq : productQuantizer) (kms : Nat → KMeans) (order : List Nat) (NS K L fuel : Nat)
    (hK : pq.params.NumCentroids = (K : Int)) (hL : pq.subVectorLen = (L : Int)) (hf : 2 * K + 1 ≤ fuel)
    (hT : pq.centroidDists.length = NS * K * K) (hF : pq.flatCentroids.length = NS * K * L)
    (hord : ∀ i ∈ order, i < NS ∧ ∀ j : Nat, j < K → (cent kms i j).length = L) :
    ∃ T' F', fitAll fuel kms order pq = .ret (withTables pq T' F') ∧ T'.length = NS * K * K ∧ F'.length = NS * K * L ∧
      ∀ i ∈ order, ∀ j : Nat, j < K →
        (∀ k : Nat, k < K → Go.getI T' (productQuantizer_centroidDistIdx pq (i : Int) (j : Int) (k : Int)) = pq.distFn (cent kms i j) (cent kms i k)) ∧
        Go.sliceI F' (productQuantizer_flatCentroidSlice pq (i : Int) (j : Int)).1 (productQuantizer_flatCentroidSlice pq (i : Int) (j : Int)).2 = cent kms i j := by
  obtain ⟨T', F', hrun, hT', hF', hall⟩ := fitAll_ok pq kms NS K L fuel hK hL hf order pq.centroidDists pq.flatCentroids (fun _ => False) hord hT hF
    (fun _ h => absurd h id)
  refine ⟨T', F', hrun, hT', hF', ?_⟩
  intro i hi j hj
  obtain ⟨hTi, hFi⟩ := hall i (Or.inr hi)
  obtain ⟨hiNS, hC⟩ := hord i hi
  refine ⟨fun k hk => ?_, ?_⟩
  · rw [show productQuantizer_centroidDistIdx pq (i : Int) (j : Int) (k : Int) = cidx pq i j k from rfl, cidx_eq pq K hK]
    exact hTi j k hj hk
  · rw [fslice_eq pq K L hK hL i j]
    have hjl : (i * K + j + 1) * L ≤ NS * K * L := by
      apply Nat.mul_le_mul_right
      calc i * K + j + 1 ≤ i * K + K := by omega
        _ = (i + 1) * K := by rw [Nat.succ_mul]
        _ ≤ NS * K := Nat.mul_le_mul_right K hiNS
    have e : (i * K + j + 1) * L = i * K * L + j * L + L := by rw [Nat.add_mul, Nat.add_mul, Nat.one_mul]
    exact sliceI_ext _ _ (i * K * L + j * L) L (hC j hj) (by rw [hF']; omega) (fun t ht => hFi j t hj ht)

namespace FormulaPQFit

/-- the stored-point distance of a quantiser whose centroid-distance table is right for every sub-space -/
theorem point_of_table (pq : productQuantizer) (kms : Nat → KMeans) (NS K : Nat) (hNS : pq.params.NumSubVectors = (NS : Int))
    (T F : List FExpr)
    (hT : ∀ i : Nat, i < NS → ∀ j k : Nat, j < K → k < K →
      Go.getI T (productQuantizer_centroidDistIdx pq (i : Int) (j : Int) (k : Int)) = pq.distFn (cent kms i j) (cent kms i k))
    (pointX pointY : productQuantizedPoint)
    (hx : ∀ i : Nat, i < NS → (Go.getI pointX.CentroidIds (i : Int)).toNat < K)
    (hy : ∀ i : Nat, i < NS → (Go.getI pointY.CentroidIds (i : Int)).toNat < K) :
    pq_lookupFromPoint (withTables pq T F) pointX pointY = .ret (FExpr.sumL ((List.range NS).map fun (i : Nat) =>
      pq.distFn (cent kms i (Go.getI pointX.CentroidIds (i : Int)).toNat) (cent kms i (Go.getI pointY.CentroidIds (i : Int)).toNat))) := by
  rw [pq_distance_from_point_formula]
  show Go.Out.ret (FExpr.sumL ((List.range pq.params.NumSubVectors.toNat).map fun (i : Nat) =>
    Go.getI T (productQuantizer_centroidDistIdx pq (i : Int) (BitVec.toNat (Go.getI pointX.CentroidIds (i : Int)) : Int)
      (BitVec.toNat (Go.getI pointY.CentroidIds (i : Int)) : Int)))) = _
  rw [hNS, Int.toNat_natCast]
  congr 2
  apply List.map_congr_left
  intro i hi
  have hi' : i < NS := List.mem_range.mp hi
  exact hT i hi' _ _ (hx i hi') (hy i hi')

end FormulaPQFit

open FormulaPQFit in
/-- **the stored-point distance of a FITTED product quantiser** — `Fit()`'s table fill and the look-up of `DistanceFromPoint` composed: with the
tables the per-sub-space bodies of `Fit()` leave behind (any order that covers every sub-space), `DistanceFromPoint(x)(y)` is
`Σ_i distFn(centroid_{i,code_x[i]}, centroid_{i,code_y[i]})` over the sub-vectors, added from the left to 0 — also when `code_x[i] = code_y[i]`,
where the term is `distFn(c, c)`, whatever that is for the metric (codes are centroid numbers: `< NumCentroids`) -/
theorem pq_point_distance_formula (pq : productQuantizer) (kms : Nat → KMeans) (order : List Nat) (NS K L fuel : Nat)
    (hNS : pq.params.NumSubVectors = (NS : Int)) (hK : pq.params.NumCentroids = (K : Int)) (hL : pq.subVectorLen = (L : Int))
    (hf : 2 * K + 1 ≤ fuel) (hT : pq.centroidDists.length = NS * K * K) (hF : pq.flatCentroids.length = NS * K * L)
    (hord : ∀ i ∈ order, i < NS ∧ ∀ j : Nat, j < K → (cent kms i j).length = L) (hall : ∀ i : Nat, i < NS → i ∈ order)
    (pointX pointY : productQuantizedPoint)
    (hx : ∀ i : Nat, i < NS → (Go.getI pointX.CentroidIds (i : Int)).toNat < K)
    (hy : ∀ i : Nat, i < NS → (Go.getI pointY.CentroidIds (i : Int)).toNat < K) :
    ∃ pqF, fitAll fuel kms order pq = .ret pqF ∧
      pq_lookupFromPoint pqF pointX pointY = .ret (FExpr.sumL ((List.range NS).map fun (i : Nat) =>
        pq.distFn (cent kms i (Go.getI pointX.CentroidIds (i : Int)).toNat) (cent kms i (Go.getI pointY.CentroidIds (i : Int)).toNat))) := by
  obtain ⟨T', F', hrun, _, _, hall'⟩ := pq_fit_tables pq kms order NS K L fuel hK hL hf hT hF hord
  exact ⟨_, hrun, point_of_table pq kms NS K hNS T' F' (fun i hi j k hj hk => (hall' i (hall i hi) j hj).1 k hk) pointX pointY hx hy⟩

open FormulaPQFit in
/-- **`DistanceFromFloat` and `DistanceFromPoint` of a fitted quantiser agree**: when the query's sub-vectors ARE the centroids of `x`'s codes
(`x̂`, the reconstruction of the stored point `x`), the table `DistanceFromFloat(x̂)` builds and its look-up at `y`'s codes give the same
expression as `DistanceFromPoint(x)(y)` — both are `Σ_i distFn(centroid_{i,code_x[i]}, centroid_{i,code_y[i]})` -/
theorem pq_float_point_consistent (pq : productQuantizer) (kms : Nat → KMeans) (order : List Nat) (NS K L fuel : Nat)
    (hNS : pq.params.NumSubVectors = (NS : Int)) (hK : pq.params.NumCentroids = (K : Int)) (hL : pq.subVectorLen = (L : Int))
    (hf : 2 * K + 1 ≤ fuel) (hT : pq.centroidDists.length = NS * K * K) (hF : pq.flatCentroids.length = NS * K * L)
    (hord : ∀ i ∈ order, i < NS ∧ ∀ j : Nat, j < K → (cent kms i j).length = L) (hall : ∀ i : Nat, i < NS → i ∈ order)
    (pointX pointY : productQuantizedPoint)
    (hx : ∀ i : Nat, i < NS → (Go.getI pointX.CentroidIds (i : Int)).toNat < K)
    (hy : ∀ i : Nat, i < NS → (Go.getI pointY.CentroidIds (i : Int)).toNat < K)
    (xhat : List FExpr)
    (hrec : ∀ i : Nat, i < NS → Go.sliceI xhat ((i : Int) * (L : Int)) (((i : Int) + 1) * (L : Int)) = cent kms i (Go.getI pointX.CentroidIds (i : Int)).toNat) :
    ∃ pqF table, fitAll fuel kms order pq = .ret pqF ∧ pq_tableFromFloat pqF xhat = .ret table ∧
      pq_lookupFromFloat pqF table pointY = pq_lookupFromPoint pqF pointX pointY ∧
      pq_lookupFromPoint pqF pointX pointY = .ret (FExpr.sumL ((List.range NS).map fun (i : Nat) =>
        pq.distFn (cent kms i (Go.getI pointX.CentroidIds (i : Int)).toNat) (cent kms i (Go.getI pointY.CentroidIds (i : Int)).toNat))) := by
  obtain ⟨T', F', hrun, _, _, hall'⟩ := pq_fit_tables pq kms order NS K L fuel hK hL hf hT hF hord
  have hpoint := point_of_table pq kms NS K hNS T' F' (fun i hi j k hj hk => (hall' i (hall i hi) j hj).1 k hk) pointX pointY hx hy
  obtain ⟨table, htab, hlook⟩ := pq_quantised_distance_formula (withTables pq T' F') xhat pointY
    (by show 0 ≤ pq.params.NumSubVectors; omega) (by show 0 ≤ pq.params.NumCentroids; omega)
    (by
      intro i hi
      have hi' : i < NS := by
        have : (withTables pq T' F').params.NumSubVectors.toNat = NS := by show pq.params.NumSubVectors.toNat = NS; omega
        omega
      show _ < pq.params.NumCentroids.toNat
      rw [hK, Int.toNat_natCast]; exact hy i hi')
  refine ⟨_, table, hrun, htab, ?_, hpoint⟩
  rw [hlook, hpoint]
  show Go.Out.ret (FExpr.sumL ((List.range pq.params.NumSubVectors.toNat).map fun (i : Nat) =>
    FormulaPQ.tableEntry (withTables pq T' F') xhat i (Go.getI pointY.CentroidIds (i : Int)).toNat)) = _
  rw [hNS, Int.toNat_natCast]
  congr 2
  apply List.map_congr_left
  intro i hi
  have hi' : i < NS := List.mem_range.mp hi
  unfold FormulaPQ.tableEntry
  show pq.distFn (Go.sliceI xhat ((i : Int) * pq.subVectorLen) (((i : Int) + 1) * pq.subVectorLen))
    (Go.sliceI F' (productQuantizer_flatCentroidSlice pq (i : Int) ((Go.getI pointY.CentroidIds (i : Int)).toNat : Int)).1
      (productQuantizer_flatCentroidSlice pq (i : Int) ((Go.getI pointY.CentroidIds (i : Int)).toNat : Int)).2) = _
  rw [hL, hrec i hi', (hall' i (hall i hi') _ (hy i hi')).2]

/-! ### non-vacuity: a dot-like symbolic `distFn` (`distFn c c ≠ 0`), two sub-spaces, two centroids each -/

namespace FormulaPQFit
/-- `-(a₀·b₀)`: a sub-vector distance that does not vanish on the diagonal -/
def dotLike (a b : List FExpr) : FExpr := .neg (.mul (Go.getI a 0) (Go.getI b 0))
/-- not fitted yet: both tables as `make` leaves them -/
def pq0 : productQuantizer := ⟨⟨2, 2, 0⟩, dotLike, 1, List.replicate 8 (.lit 0), List.replicate 4 (.lit 0)⟩
/-- the k-means result of sub-space `i`: centroids `[v_{2i+1}]`, `[v_{2i+2}]` -/
def kms0 (i : Nat) : KMeans := ⟨[[.var (BitVec.ofNat 32 (2 * i + 1))], [.var (BitVec.ofNat 32 (2 * i + 2))]]⟩
end FormulaPQFit

open FormulaPQFit in
/-- the whole table after the bodies ran (sub-space 1 first): the DIAGONAL entries are `-(c·c)`, not the zero `make` left -/
example : (match fitAll 5 kms0 [1, 0] pq0 with | .ret p => p.centroidDists | .outOfFuel => []) =
    [.neg (.mul (.var 1) (.var 1)), .neg (.mul (.var 1) (.var 2)), .neg (.mul (.var 2) (.var 1)), .neg (.mul (.var 2) (.var 2)),
     .neg (.mul (.var 3) (.var 3)), .neg (.mul (.var 3) (.var 4)), .neg (.mul (.var 4) (.var 3)), .neg (.mul (.var 4) (.var 4))] := by decide

open FormulaPQFit in
example : (match fitAll 5 kms0 [1, 0] pq0 with | .ret p => p.flatCentroids | .outOfFuel => []) = [.var 1, .var 2, .var 3, .var 4] := by decide

open FormulaPQFit in
/-- the hypotheses of the two per-sub-space theorems hold on the unfitted quantiser -/
example := pq_centroid_table_formula pq0 (kms0 1) 2 1 5 rfl (by decide) (by decide)
open FormulaPQFit in
example := pq_flat_centroids_formula pq0 (kms0 1) 2 1 1 3 rfl rfl (by decide) (by decide) (by decide)

open FormulaPQFit in
/-- the hypotheses of `pq_point_distance_formula` / `pq_float_point_consistent` hold on that state, for two points that SHARE the centroid of
sub-space 0 (codes `[0, 1]` and `[0, 0]`): the distance is `(0 + -(v₁·v₁)) + -(v₄·v₃)` -/
example : ∃ pqF, fitAll 5 kms0 [1, 0] pq0 = .ret pqF ∧
    pq_lookupFromPoint pqF ⟨[], [0#8, 1#8]⟩ ⟨[], [0#8, 0#8]⟩ =
      .ret (.add (.add (.lit 0) (.neg (.mul (.var 1) (.var 1)))) (.neg (.mul (.var 4) (.var 3)))) :=
  pq_point_distance_formula pq0 kms0 [1, 0] 2 2 1 5 rfl rfl rfl (by decide) rfl rfl (by decide) (by decide) ⟨[], [0#8, 1#8]⟩ ⟨[], [0#8, 0#8]⟩
    (by decide) (by decide)

open FormulaPQFit in
example : ∃ pqF table, fitAll 5 kms0 [1, 0] pq0 = .ret pqF ∧ pq_tableFromFloat pqF [.var 1, .var 4] = .ret table ∧
    pq_lookupFromFloat pqF table ⟨[], [0#8, 0#8]⟩ = pq_lookupFromPoint pqF ⟨[], [0#8, 1#8]⟩ ⟨[], [0#8, 0#8]⟩ ∧
    pq_lookupFromPoint pqF ⟨[], [0#8, 1#8]⟩ ⟨[], [0#8, 0#8]⟩ =
      .ret (.add (.add (.lit 0) (.neg (.mul (.var 1) (.var 1)))) (.neg (.mul (.var 4) (.var 3)))) :=
  pq_float_point_consistent pq0 kms0 [1, 0] 2 2 1 5 rfl rfl rfl (by decide) rfl rfl (by decide) (by decide) ⟨[], [0#8, 1#8]⟩ ⟨[], [0#8, 0#8]⟩
    (by decide) (by decide) [.var 1, .var 4] (by decide)

end Sema.C20
