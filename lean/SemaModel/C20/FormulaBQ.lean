/-
C20 — the binary quantiser's distance closures as theorems about the definitions generated from
shard/vectorstore/binary.go (SemaModel/Generated/BQDist.lean): WHICH distance is used.

Once a threshold is set (`bq.threshold != nil`) both closures use the bit distance on encodings — the query
vector is encoded with the quantiser's `encode`, stored points carry their `BinaryVector` — otherwise the float
distance on the original vectors; a point that is not a `*binaryQuantizedPoint` gets `math.MaxFloat32`.
Abstract: the type assertion behind the `VectorStorePoint` interface (`asPoint`), `encode` (translated over bit
patterns in Generated/BitDist.lean; composed below), the two distance functions (fields of the quantiser).
Not translated (explicit in the spec): the `log.Warn()` call of the impossible case.  nil and empty thresholds are
identified (a fitted threshold has the vectors' length ≥ 1).
-/
import SemaModel.C20.Props
import SemaModel.Generated.BQDist
namespace Sema.C20
open Sema Sema.Go Sema.Gen.BQDist

/-- `math.MaxFloat32` as a float32 -/
def maxFloat32 : FExpr := .var 0x7f7fffff#32

/-- `DistanceFromFloat(x)(y)`: threshold set → bit distance of `encode(x)` and the stored encoding; unset → float
distance of `x` and the stored vector -/
theorem bq_distance_from_float_wiring {VPoint : Type} (asPoint : VPoint → Option binaryQuantizedPoint)
    (encode : binaryQuantizer → List FExpr → List (BitVec 64)) (bq : binaryQuantizer) (x : List FExpr) (y : VPoint) :
    binaryQuantizer_DistanceFromFloat asPoint encode bq x y =
      match asPoint y with
      | none => maxFloat32
      | some p => if bq.threshold = [] then bq.floatDistFn x p.Vector else bq.bitDistFn (encode bq x) p.BinaryVector := by
  unfold binaryQuantizer_DistanceFromFloat
  cases ht : bq.threshold <;> cases hy : asPoint y <;> simp [maxFloat32, hy]

/-- `DistanceFromPoint(x)(y)`: threshold set → bit distance of the two stored encodings; unset → float distance of
the two stored vectors -/
theorem bq_distance_from_point_wiring {VPoint : Type} (asPoint : VPoint → Option binaryQuantizedPoint)
    (encode : binaryQuantizer → List FExpr → List (BitVec 64)) (bq : binaryQuantizer) (x y : VPoint) :
    binaryQuantizer_DistanceFromPoint asPoint encode bq x y =
      match asPoint x, asPoint y with
      | some px, some py =>
        if bq.threshold = [] then bq.floatDistFn px.Vector py.Vector else bq.bitDistFn px.BinaryVector py.BinaryVector
      | _, _ => maxFloat32 := by
  unfold binaryQuantizer_DistanceFromPoint
  cases ht : bq.threshold <;> cases hx : asPoint x <;> cases hy : asPoint y <;> simp [maxFloat32, hy]

/-- the float32 bit pattern of an input leaf -/
def leafBits : FExpr → BitVec 32
  | .var b => b
  | _ => 0#32

/-- `encode` as generated over bit patterns (Generated/BitDist.lean), on symbolic input vectors -/
def encodeGen (bq : binaryQuantizer) (v : List FExpr) : List (BitVec 64) :=
  Gen.BitDist.binaryQuantizer_encode (bq.threshold.map leafBits) (v.map leafBits)

/-- **the composition** (trained, hamming): for a stored point that carries the encoding of its vector `y`, the
distance reported for the query `x` is `|{i < n | (xᵢ > tᵢ) ≠ (yᵢ > tᵢ)}|` — wiring (BQDist) ∘ encode and hamming
(BitDist, `hamming_encode`) -/
theorem bq_trained_hamming {VPoint : Type} (asPoint : VPoint → Option binaryQuantizedPoint)
    (fl : List FExpr → List FExpr → FExpr) (t x y : List (BitVec 32))
    (hx : t.length = x.length) (hy : t.length = y.length) (h1 : 1 ≤ t.length)
    (yv : VPoint) (yvec : List FExpr) (hp : asPoint yv = some ⟨yvec, Gen.BitDist.binaryQuantizer_encode t y⟩) :
    binaryQuantizer_DistanceFromFloat asPoint encodeGen ⟨t.map FExpr.var, fl, Gen.BitDist.hammingDistance⟩ (x.map FExpr.var) yv =
      FExpr.ofNat (card t.length (fun i => bit t x i != bit t y i)) := by
  have hl : ∀ l : List (BitVec 32), (l.map FExpr.var).map leafBits = l := by
    intro l; induction l with
    | nil => rfl
    | cons a l ih => simp [leafBits, ih]
  have hne : t.map FExpr.var ≠ [] := by
    cases t with
    | nil => simp at h1
    | cons a l => simp
  rw [bq_distance_from_float_wiring, hp]
  simp only [hne, if_false, encodeGen, hl]
  exact hamming_encode t x y hx hy h1

/-- untrained: the configured float distance of the two original vectors, whatever it is -/
theorem bq_untrained_float {VPoint : Type} (asPoint : VPoint → Option binaryQuantizedPoint)
    (encode : binaryQuantizer → List FExpr → List (BitVec 64)) (fl : List FExpr → List FExpr → FExpr)
    (bd : List (BitVec 64) → List (BitVec 64) → FExpr) (x : List FExpr) (yv : VPoint) (p : binaryQuantizedPoint)
    (hp : asPoint yv = some p) :
    binaryQuantizer_DistanceFromFloat asPoint encode ⟨[], fl, bd⟩ x yv = fl x p.Vector := by
  rw [bq_distance_from_float_wiring, hp]; rfl

example : binaryQuantizer_DistanceFromFloat (VPoint := Nat) (fun _ => some ⟨[], [0x5#64]⟩) encodeGen
    ⟨[.var 0x0#32, .var 0x0#32, .var 0x0#32], fun _ _ => .lit 7, Gen.BitDist.hammingDistance⟩
    [.var 0xbf800000#32, .var 0xbf800000#32, .var 0x3f800000#32] 0 = FExpr.ofNat 1 := by decide

end Sema.C20
