/-
C15 — distribution of an insert batch over shards; quotas.  Hand-written model of
`cluster/placement.go distributePoints`, of the quota test of `cluster/actions.go InsertPoints`
and of `cluster/rpchandlers.go RPCCreateCollection`.  Core-only.

Go (placement.go), with the model line it becomes:

    if len(shards) == 0 && len(points) > 0 {            distribute: `shards.isEmpty && !pts.isEmpty`
        id, err := createShardFn(); if err → return nil, err        `mk 0 = none → createErr`
        shards = append(shards, shardInfo{Id: id}) }                 `loop … [fresh id] … 1`
    for lastPointIndex, i := 0, 0; i < len(shards); i++ {            loop: one call per i; `rest` = shards[i:]
        j := lastPointIndex; runningSize, runningPointCount := shards[i].Size, shards[i].PointCount
        for ; j < len(points); j++ {                                  scan (returns j - lastPointIndex)
            runningSize += len(Data)+len(Id); runningPointCount++
            if runningSize > maxShardSize || runningPointCount > maxShardPointCount { break } }   -- point j stays unassigned
        if j > lastPointIndex { assignments[shards[i].Id] = [lastPointIndex, j] }                `here`
        lastPointIndex = j
        if i == len(shards)-1 && lastPointIndex < len(points) {       `rest.isEmpty && !pts'.isEmpty`
            id, err := createShardFn(); if err → return nil, err
            shards = append(shards, shardInfo{Id: id}) } }
    return assignments, nil                                           `rest = [] → ok`

* sizes, counts and limits are `Int` (Go: int64; sums are assumed not to overflow 2⁶³);
  a point is its size `len(Data) + len(Id)` (`len(Id)` is 16);
* `createShardFn` is an oracle `mk : Nat → Option String` (answer of the n-th call; `none` = error);
  every theorem quantifies over every oracle;
* the Go loop has no bound; the model has `fuel` (one unit per iteration of the outer loop).
  `Props.lean`: the fuel `|shards| + |points| + 1` suffices when every point fits an empty shard, any
  larger fuel gives the same answer, and without `fits` no fuel suffices;
* the result is the list of assignments in loop order; Go stores them in a map keyed by shard id,
  which is the same thing when the ids are pairwise distinct (`C15_ids_nodup`).
-/
import SemaModel.Base.KV
namespace Sema.C15
open Sema

/-- `shardInfo` -/
structure Shard where
  id : String
  size : Int
  count : Int
  deriving DecidableEq, Repr

/-- a freshly created shard: `shardInfo{Id: id}` -/
def fresh (id : String) : Shard := ⟨id, 0, 0⟩

/-- `assignments[shard.Id] = [2]int{lo, hi}`; the shard is recorded as the loop saw it -/
structure Assign where
  shard : Shard
  lo : Nat
  hi : Nat
  deriving DecidableEq, Repr

inductive Res where
  /-- `return shardAssignments, nil` after `created` calls of createShardFn -/
  | ok (as : List Assign) (created : Nat)
  /-- call number `created` (0-based) of createShardFn failed: `return nil, err` -/
  | createErr (created : Nat)
  /-- the model ran out of fuel after `created` calls (the Go loop would still be running) -/
  | outOfFuel (created : Nat)
  deriving DecidableEq, Repr

def Res.prepend (here : List Assign) : Res → Res
  | .ok as c => .ok (here ++ as) c
  | r => r

/-- the inner loop: how many of the remaining points the shard takes
(`rs`, `rc` = runningSize, runningPointCount before the next point) -/
def scan (maxS maxC : Int) : List Nat → Int → Int → Nat
  | [], _, _ => 0
  | p :: ps, rs, rc =>
    if rs + p > maxS ∨ rc + 1 > maxC then 0 else scan maxS maxC ps (rs + p) (rc + 1) + 1

/-- the outer loop from index `i` on: `rest = shards[i:]`, `last = lastPointIndex`,
`pts = points[last:]`, `nc` = calls of createShardFn so far -/
def loop (maxS maxC : Int) (mk : Nat → Option String) : Nat → List Shard → Nat → List Nat → Nat → Res
  | 0, _, _, _, nc => .outOfFuel nc
  | _ + 1, [], _, _, nc => .ok [] nc
  | fuel + 1, s :: rest, last, pts, nc =>
    let t := scan maxS maxC pts s.size s.count
    let pts' := pts.drop t
    let here := if t > 0 then [Assign.mk s last (last + t)] else []
    if rest.isEmpty && !pts'.isEmpty then
      match mk nc with
      | none => .createErr nc
      | some id => (loop maxS maxC mk fuel [fresh id] (last + t) pts' (nc + 1)).prepend here
    else (loop maxS maxC mk fuel rest (last + t) pts' nc).prepend here

/-- `distributePoints(shards, points, maxShardSize, maxShardPointCount, createShardFn)` -/
def distribute (fuel : Nat) (maxS maxC : Int) (mk : Nat → Option String) (shards : List Shard) (pts : List Nat) : Res :=
  if shards.isEmpty && !pts.isEmpty then
    match mk 0 with
    | none => .createErr 0
    | some id => loop maxS maxC mk fuel [fresh id] 0 pts 1
  else loop maxS maxC mk fuel shards 0 pts 0

/-- the fuel the driver uses when createShardFn is known to fail at call `cap` at the latest -/
def fuelFor (shards : List Shard) (pts : List Nat) (cap : Nat) : Nat := shards.length + pts.length + cap + 2

/-- the shards created by calls `nc, nc+1, …, nc+k-1` -/
def created (mk : Nat → Option String) : Nat → Nat → List Shard
  | _, 0 => []
  | nc, k + 1 => (match mk nc with | some id => [fresh id] | none => []) ++ created mk (nc + 1) k

/-! ### quota of `ClusterNode.InsertPoints` and the count identity -/

def total (shards : List Shard) : Int := (shards.map (·.count)).sum

/-- `totalPoints+int64(len(points)) > col.UserPlan.MaxCollectionPointCount` -/
def overQuota (shards : List Shard) (n : Nat) (quota : Int) : Bool := total shards + n > quota

/-- the effect of one successful `RPCInsertPoints` on the fill levels: the shard's point count grows
by the length of the range (shard/shard.go `changePointCount`; the file size changes in a way the
model does not predict, it is re-read from the shard by the next request) -/
def applyOne (st : List Shard) (a : Assign) (newSize : Int) : List Shard :=
  st.map fun s => if s.id = a.shard.id then { s with count := s.count + (a.hi - a.lo : Nat), size := newSize } else s

/-- all RPCs of one request; `fails a` = the shard reported an error for that range (FailedRange) -/
def applyAll (fails : Assign → Bool) (newSize : Assign → Int) : List Shard → List Assign → List Shard
  | st, [] => st
  | st, a :: as => applyAll fails newSize (if fails a then st else applyOne st a (newSize a)) as

inductive InsertOutcome where
  | quotaReached
  | distributeErr
  | done (failed : List Assign)
  deriving DecidableEq, Repr

/-- observable state of one collection: the shards of the record with their fill levels, and the
number of createShardFn calls (each is a committed write of the collection record) -/
structure Coll where
  shards : List Shard
  creates : Nat
  deriving DecidableEq, Repr

/-- `ClusterNode.InsertPoints` (sizes of the id-sorted batch in `pts`) -/
def insertPoints (fuel : Nat) (maxS maxC quota : Int) (mk : Nat → Option String)
    (fails : Assign → Bool) (newSize : Assign → Int) (c : Coll) (pts : List Nat) : Coll × InsertOutcome :=
  if overQuota c.shards pts.length quota then (c, .quotaReached)
  else
    match distribute fuel maxS maxC (fun i => mk (c.creates + i)) c.shards pts with
    | .ok as k =>
      let all := c.shards ++ created (fun i => mk (c.creates + i)) 0 k
      (⟨applyAll fails newSize all as, c.creates + k⟩, .done (as.filter fails))
    | .createErr k =>
      -- the shards created before the failing call stay in the collection record
      (⟨c.shards ++ created (fun i => mk (c.creates + i)) 0 k, c.creates + k⟩, .distributeErr)
    | .outOfFuel k => (⟨c.shards ++ created (fun i => mk (c.creates + i)) 0 k, c.creates + k⟩, .distributeErr)

/-! ### `RPCCreateCollection`: the user-collections bucket is a `KV`; key = userId ++ "/" ++ collectionId -/

def delim : Bytes := [0x2f#8]

inductive CreateOutcome where
  | alreadyExists
  | quotaReached
  | created
  deriving DecidableEq, Repr

def createCollection (kv : KV) (userId colId colBytes : Bytes) (maxCollections : Int) : KV × CreateOutcome :=
  let key := userId ++ delim ++ colId
  if (kv.get key).isSome then (kv, .alreadyExists)
  else
    let count := (kv.prefixScan (userId ++ delim)).length
    if (count : Int) ≥ maxCollections then (kv, .quotaReached)
    else (kv.put key colBytes, .created)

end Sema.C15
