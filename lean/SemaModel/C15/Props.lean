/-
C15 — inserted points are partitioned over shards within limits; quotas are enforced.

Theorems about the model of `distributePoints` (Model.lean), for ALL shard lists / fill levels, all
batches, all limits, every `createShardFn` oracle `mk`:

* whenever the function returns assignments (`Res.ok`), they are a partition of `[0, n)` into
  contiguous non-empty ranges in shard order (`C15_partition`, `C15_exactly_one`, `C15_shard_order`),
  each within the count and size limit of its shard (`C15_limits`), keyed by distinct ids
  (`C15_ids_nodup`).  None of this needs `fits`.
* `fits` (every point alone fits an empty shard) is what makes the loop END: `C15_fuel`,
  `C15_fuel_stable`; without it the loop never ends and keeps creating shards
  (`C15_diverges_without_fits`).
* quotas: `C15_quota_insert`, `C15_quota_respected`, `C15_quota_create`; count identity `C15_count`.
-/
import SemaModel.C15.Lemmas
namespace Sema.C15
open Sema List

variable {maxS maxC : Int} {mk : Nat → Option String}

/-- what `distribute` is in terms of `loop`, after the `len(shards) == 0` pre-step -/
private theorem distribute_ok_inv {fuel : Nat} {shards : List Shard} {pts : List Nat} {as : List Assign} {c : Nat}
    (h : distribute fuel maxS maxC mk shards pts = .ok as c) :
    Chain 0 as pts.length ∧ (∀ a ∈ as, Within maxS maxC pts a) ∧
      (as.map (·.shard)).Sublist (shards ++ created mk 0 c) := by
  unfold distribute at h
  split at h
  · rename_i hcond
    obtain ⟨hs, hp⟩ := cond_true hcond
    subst hs
    cases hmk : mk 0 with
    | none => rw [hmk] at h; cases h
    | some id =>
      rw [hmk] at h
      obtain ⟨i1, i2, i3, i4⟩ := loop_ok pts fuel [fresh id] 0 pts 1 as c rfl (Or.inl (by simp)) h
      refine ⟨by simpa using i1, i2, ?_⟩
      have hc : c = (c - 1) + 1 := by omega
      rw [hc, created_succ 0 _ hmk]
      simpa using i4
  · rename_i hcond
    obtain ⟨i1, i2, i3, i4⟩ := loop_ok pts fuel shards 0 pts 0 as c rfl (cond_false hcond) h
    exact ⟨by simpa using i1, i2, by simpa using i4⟩

/-- the assignments are contiguous non-empty ranges, the first starts at 0, each starts where the
previous one ends, the last ends at `n` (hence: pairwise disjoint, in order, covering `[0, n)`) -/
theorem C15_partition {fuel : Nat} {shards : List Shard} {pts : List Nat} {as : List Assign} {c : Nat}
    (h : distribute fuel maxS maxC mk shards pts = .ok as c) : Chain 0 as pts.length :=
  (distribute_ok_inv h).1

/-- every point of the batch is assigned to exactly one shard -/
theorem C15_exactly_one {fuel : Nat} {shards : List Shard} {pts : List Nat} {as : List Assign} {c : Nat}
    (h : distribute fuel maxS maxC mk shards pts = .ok as c) (q : Nat) (hq : q < pts.length) :
    (as.filter (fun x => decide (x.lo ≤ q ∧ q < x.hi))).length = 1 :=
  (chain_exactly_one (C15_partition h)).2 q (Nat.zero_le _) hq

/-- ranges follow the order of the shard list: existing shards first (in the order of the
collection record), then the created ones in order of creation -/
theorem C15_shard_order {fuel : Nat} {shards : List Shard} {pts : List Nat} {as : List Assign} {c : Nat}
    (h : distribute fuel maxS maxC mk shards pts = .ok as c) :
    (as.map (·.shard)).Sublist (shards ++ created mk 0 c) :=
  (distribute_ok_inv h).2.2

/-- for every assigned shard: old count + range length ≤ max count, old size + Σ sizes ≤ max size -/
theorem C15_limits {fuel : Nat} {shards : List Shard} {pts : List Nat} {as : List Assign} {c : Nat}
    (h : distribute fuel maxS maxC mk shards pts = .ok as c) :
    ∀ a ∈ as, a.shard.count + ((a.hi - a.lo : Nat) : Int) ≤ maxC ∧
      a.shard.size + ((((pts.drop a.lo).take (a.hi - a.lo)).sum : Nat) : Int) ≤ maxS :=
  (distribute_ok_inv h).2.1

/-- with pairwise distinct shard ids (existing and created) no two assignments share an id, so the
Go map `shardAssignments` holds exactly the assignments of the model -/
theorem C15_ids_nodup {fuel : Nat} {shards : List Shard} {pts : List Nat} {as : List Assign} {c : Nat}
    (h : distribute fuel maxS maxC mk shards pts = .ok as c)
    (nd : ((shards ++ created mk 0 c).map (·.id)).Nodup) : (as.map (·.shard.id)).Nodup := by
  have := (C15_shard_order h).map (·.id)
  rw [map_map] at this
  exact Nodup.sublist this nd

/-- fuel adequacy: if every point fits an empty shard and shard creation succeeds, then
`|shards| + |points| + 1` iterations suffice and the function returns assignments -/
theorem C15_fuel {shards : List Shard} {pts : List Nat} (fits : Fits maxS maxC pts) (hmk : ∀ i, (mk i).isSome)
    (fuel : Nat) (hfuel : shards.length + pts.length + 1 ≤ fuel) :
    ∃ as c, distribute fuel maxS maxC mk shards pts = .ok as c := by
  unfold distribute
  split
  · rename_i hcond
    obtain ⟨hs, hp⟩ := cond_true hcond
    obtain ⟨id, hid⟩ := Option.isSome_iff_exists.1 (hmk 0)
    simp only [hid]
    exact loop_fresh_ok hmk pts.length pts (Nat.le_refl _) fits hp fuel id 0 1 (by omega)
  · exact loop_fits_ok hmk shards pts fuel 0 0 fits hfuel

/-- … and the answer does not depend on the fuel: a run that ended (returned assignments or a
creation error) gives the same result with any larger fuel, i.e. it is the result of the unbounded loop -/
theorem C15_fuel_stable {fuel : Nat} {shards : List Shard} {pts : List Nat}
    (h : ∀ c, distribute fuel maxS maxC mk shards pts ≠ .outOfFuel c) (k : Nat) :
    distribute (fuel + k) maxS maxC mk shards pts = distribute fuel maxS maxC mk shards pts := by
  unfold distribute at h ⊢
  split
  · rename_i hcond
    rw [if_pos hcond] at h
    cases hmk : mk 0 with
    | none => rfl
    | some id =>
      rw [hmk] at h
      exact loop_mono_add k fuel _ _ _ _ h
  · rename_i hcond
    rw [if_neg hcond] at h
    exact loop_mono_add k fuel _ _ _ _ h

/-- without `fits` (some point is larger than a whole shard, or the count limit is below 1), with
non-negative fill levels and a `createShardFn` that never fails, the loop never ends: for EVERY fuel
the model is still running, and the number of shards created grows with the fuel without bound -/
theorem C15_diverges_without_fits {shards : List Shard} {pts : List Nat}
    (stuck : ∃ p ∈ pts, (p : Int) > maxS ∨ maxC < 1)
    (nonneg : ∀ s ∈ shards, 0 ≤ s.size ∧ 0 ≤ s.count) (hmk : ∀ i, (mk i).isSome) (fuel : Nat) :
    ∃ c, distribute fuel maxS maxC mk shards pts = .outOfFuel c ∧ fuel + 1 ≤ c + shards.length := by
  have hst : Stuck maxS maxC pts := stuck
  unfold distribute
  split
  · rename_i hcond
    obtain ⟨hs, hp⟩ := cond_true hcond
    subst hs
    obtain ⟨id, hid⟩ := Option.isSome_iff_exists.1 (hmk 0)
    simp only [hid]
    obtain ⟨c, h, hc⟩ := loop_stuck hmk fuel [fresh id] 0 pts 1 (by simp)
      (by intro s hs; have : s = fresh id := by simpa using hs
          subst this; exact ⟨Int.le_refl _, Int.le_refl _⟩) hst
    exact ⟨c, h, by simp only [length_cons, length_nil] at hc ⊢; omega⟩
  · rename_i hcond
    have hne : shards ≠ [] := by
      rcases cond_false hcond with h | h
      · exact h
      · exact absurd h hst.ne_nil
    obtain ⟨c, h, hc⟩ := loop_stuck hmk fuel shards 0 pts 0 hne nonneg hst
    exact ⟨c, h, by omega⟩

/-- `fits` is exactly the complement of the divergence condition -/
theorem C15_fits_or_stuck (pts : List Nat) :
    Fits maxS maxC pts ∨ pts = [] ∨ ∃ p ∈ pts, (p : Int) > maxS ∨ maxC < 1 := by
  by_cases h : ∃ p ∈ pts, (p : Int) > maxS ∨ maxC < 1
  · right; right; exact h
  · cases pts with
    | nil => right; left; rfl
    | cons p ps =>
      left
      refine ⟨?_, ?_⟩
      · by_cases hc : maxC < 1
        · exact absurd ⟨p, mem_cons_self, Or.inr hc⟩ h
        · omega
      · intro q hq
        by_cases hc : (q : Int) > maxS
        · exact absurd ⟨q, hq, Or.inl hc⟩ h
        · omega

/-! ### quotas -/

/-- an insert over the per-collection point quota is refused, and a refused insert changes nothing:
no shard is created, no fill level changes (the model state is returned as it was) -/
theorem C15_quota_insert (fuel : Nat) (quota : Int) (fails : Assign → Bool) (newSize : Assign → Int)
    (c : Coll) (pts : List Nat) :
    ((insertPoints fuel maxS maxC quota mk fails newSize c pts).2 = .quotaReached ↔
        total c.shards + pts.length > quota) ∧
    ((insertPoints fuel maxS maxC quota mk fails newSize c pts).2 = .quotaReached →
        (insertPoints fuel maxS maxC quota mk fails newSize c pts).1 = c) := by
  unfold insertPoints
  by_cases h : overQuota c.shards pts.length quota = true
  · rw [if_pos h]
    exact ⟨⟨fun _ => by simpa [overQuota] using h, fun _ => rfl⟩, fun _ => rfl⟩
  · rw [if_neg h]
    have h' : ¬ (total c.shards + pts.length > quota) := by simpa [overQuota] using h
    constructor
    · constructor
      · intro hq; split at hq <;> cases hq
      · intro hq; exact absurd hq h'
    · intro hq; split at hq <;> cases hq

private theorem count_one_of_nodup {l : List String} (nd : l.Nodup) {x : String} (hx : x ∈ l) :
    (l.filter (fun y => y = x)).length = 1 := by
  induction l with
  | nil => cases hx
  | cons a l ih =>
    rw [nodup_cons] at nd
    by_cases h : a = x
    · subst h
      rw [filter_cons_of_pos (by simp)]
      have : l.filter (fun y => decide (y = a)) = [] := by
        rw [filter_eq_nil_iff]
        intro y hy
        have : y ≠ a := fun e => nd.1 (e ▸ hy)
        simpa using this
      rw [this]; rfl
    · rw [filter_cons_of_neg (by simpa using h)]
      rcases mem_cons.1 hx with e | hx
      · exact absurd e.symm h
      · exact ih nd.2 hx

/-- count identity: after an accepted insert the collection's total point count is the previous total
plus the lengths of all ranges not reported as failed (shard ids pairwise distinct; a shard whose RPC
succeeded has stored its whole range — that is C01's batch property) -/
theorem C15_count (fuel : Nat) (quota : Int) (fails : Assign → Bool) (newSize : Assign → Int)
    (c : Coll) (pts : List Nat) (as : List Assign) (k : Nat)
    (hq : overQuota c.shards pts.length quota = false)
    (hd : distribute fuel maxS maxC (fun i => mk (c.creates + i)) c.shards pts = .ok as k)
    (nd : ((c.shards ++ created (fun i => mk (c.creates + i)) 0 k).map (·.id)).Nodup) :
    (insertPoints fuel maxS maxC quota mk fails newSize c pts).2 = .done (as.filter fails) ∧
    total (insertPoints fuel maxS maxC quota mk fails newSize c pts).1.shards =
      total c.shards + okLen fails as := by
  unfold insertPoints
  rw [if_neg (by simp [hq]), hd]
  refine ⟨rfl, ?_⟩
  simp only []
  rw [total_applyAll, total_append, total_created]
  · omega
  · intro a ha
    apply count_one_of_nodup nd
    have hsub := (C15_shard_order hd).map (·.id)
    exact hsub.subset (by simpa using mem_map_of_mem (f := fun x => x.shard.id) ha)

/-- … hence the quota is respected: an accepted insert leaves the total at or below the quota -/
theorem C15_quota_respected (fuel : Nat) (quota : Int) (fails : Assign → Bool) (newSize : Assign → Int)
    (c : Coll) (pts : List Nat) (as : List Assign) (k : Nat)
    (hq : overQuota c.shards pts.length quota = false)
    (hd : distribute fuel maxS maxC (fun i => mk (c.creates + i)) c.shards pts = .ok as k)
    (nd : ((c.shards ++ created (fun i => mk (c.creates + i)) 0 k).map (·.id)).Nodup) :
    total (insertPoints fuel maxS maxC quota mk fails newSize c pts).1.shards ≤ quota := by
  rw [(C15_count fuel quota fails newSize c pts as k hq hd nd).2]
  have hq' : ¬ (total c.shards + pts.length > quota) := by simpa [overQuota] using hq
  -- Σ non-failed lengths ≤ Σ all lengths = n
  have hle : ∀ (l : List Assign) (a b : Nat), Chain a l b → okLen fails l ≤ ((b - a : Nat) : Int) := by
    intro l
    induction l with
    | nil => intro a b _; simp [okLen]
    | cons x xs ih =>
      intro a b hc
      obtain ⟨h1, h2, h3⟩ := hc
      have hb := (chain_exactly_one h3).1
      have := ih x.hi b h3
      unfold okLen at this ⊢
      by_cases hf : fails x = true
      · rw [filter_cons_of_neg (by simp [hf])]; omega
      · rw [filter_cons_of_pos (by simpa using hf), map_cons, sum_cons]; omega
  have := hle as 0 pts.length (C15_partition hd)
  simp only [Nat.sub_zero] at this
  omega

/-- a collection creation that is refused (already exists, or the user is at the plan's collection
limit) writes nothing; a creation is accepted only below the limit -/
theorem C15_quota_create (kv : KV) (userId colId colBytes : Bytes) (maxCollections : Int) :
    ((createCollection kv userId colId colBytes maxCollections).2 ≠ .created →
        (createCollection kv userId colId colBytes maxCollections).1 = kv) ∧
    ((createCollection kv userId colId colBytes maxCollections).2 = .created →
        ((kv.prefixScan (userId ++ delim)).length : Int) < maxCollections ∧
        (createCollection kv userId colId colBytes maxCollections).1 = kv.put (userId ++ delim ++ colId) colBytes) ∧
    ((createCollection kv userId colId colBytes maxCollections).2 = .quotaReached →
        ((kv.prefixScan (userId ++ delim)).length : Int) ≥ maxCollections) := by
  unfold createCollection
  simp only []
  split
  · simp
  · split
    · rename_i h; simp [h]
    · rename_i h; simp; omega

/-! ### non-vacuity -/

private def mk₀ : Nat → Option String := fun i => some (if i = 0 then "n0" else if i = 1 then "n1" else "n2")
private def ranges : Res → Option (List (String × Nat × Nat) × Nat)
  | .ok as c => some (as.map (fun a => (a.shard.id, a.lo, a.hi)), c)
  | _ => none

-- three points of size 24, shards hold one point of at most 24 bytes: one full shard, one empty one, two created
example : ranges (distribute 6 24 1 mk₀ [⟨"a", 16, 1⟩, ⟨"b", 0, 0⟩] [24, 24, 24]) =
    some ([("b", 0, 1), ("n0", 1, 2), ("n1", 2, 3)], 2) := by decide
-- `fits` holds there, and the fuel of C15_fuel is 2 + 3 + 1
example : Fits 24 1 [24, 24, 24] := ⟨by decide, by decide⟩
-- no shards at all: the pre-step creates the first one
example : ranges (distribute 4 100 10 mk₀ [] [30, 30, 30, 30]) = some ([("n0", 0, 3), ("n1", 3, 4)], 2) := by decide
-- empty batch: nothing is assigned, nothing is created
example : ranges (distribute 1 100 10 mk₀ [] []) = some ([], 0) := by decide
-- without fits (a point of 25 bytes, shards of 24): out of fuel for fuel 0..5, one more shard per unit of fuel
example : (List.range 6).map (fun f => distribute f 24 1 mk₀ [⟨"a", 0, 0⟩] [24, 25]) =
    [.outOfFuel 0, .outOfFuel 1, .outOfFuel 2, .outOfFuel 3, .outOfFuel 4, .outOfFuel 5] := by decide
-- createShardFn fails on its second call
example : distribute 9 24 1 (fun i => if i = 0 then some "n0" else none) [] [24, 24, 24] = .createErr 1 := by decide
-- quota: 3 + 2 > 4 refused, 2 + 2 ≤ 4 accepted
example : overQuota [⟨"a", 0, 3⟩] 2 4 = true ∧ overQuota [⟨"a", 0, 2⟩] 2 4 = false := by decide

end Sema.C15
