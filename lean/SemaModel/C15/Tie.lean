/-
C15 — the tie between the hand-written model and the source.

`SemaModel/Generated/Placement.lean` is produced from `cluster/placement.go` by `tools/go2lean` on
every check run.  `C15_tie` proves that the hand-written `C15.distribute` (about which every theorem
of `Props.lean` is stated) computes, for ALL inputs, what the translated `distributePoints`
computes — up to the representation maps below.  An edit of `distributePoints` therefore changes
the generated definition and re-checks (or breaks) this proof.

Representation maps (Go / generated side  →  model side):
  shardInfo{Id, Size, PointCount}          ↦ `Shard` (`toShard`, a bijection)
  models.Point{Id, Data}                   ↦ its size `len(Data) + len(Id)` (`psize`)
  createShardFn (n-th call : Except String String) ↦ `mk n = (cb n).toOption` (the message is dropped)
Result map (model side → generated side), `toGo cb`:
  .ok as c        ↦ `.ret (.ok m, c)`, m = the assignments `as` stored one after the other with
                    `Go.mapSet` under the shard id as `[lo, hi]`, c = number of createShardFn calls
  .createErr c    ↦ `.ret (.error ("could not create shard: " ++ message of call c), c + 1)`
  .outOfFuel _    ↦ `.outOfFuel`
Assumed by the translation (not by this proof): Go `int`/`int64` arithmetic does not overflow
(`Int`), `createShardFn` answers are a function of the call number, slices are values.
-/
import SemaModel.C15.Model
import SemaModel.Generated.Placement
import SemaModel.Generated.Quota
namespace Sema.C15
open Sema Sema.Gen.Placement

def toShard (s : shardInfo) : Shard := ⟨s.Id, s.Size, s.PointCount⟩

/-- the size of a point as `distributePoints` counts it -/
def psize (p : Point) : Nat := p.Data.length + p.Id.length

def toMk (cb : Nat → Except String String) : Nat → Option String := fun n => (cb n).toOption

/-- the message of the error the `n`-th call of createShardFn returned -/
def errMsg (cb : Nat → Except String String) (n : Nat) : String :=
  match cb n with
  | .error e => e
  | .ok _ => ""

/-- `shardAssignments[a.shard.Id] = [2]int{a.lo, a.hi}` for each assignment in turn -/
def assignMap (as : List Assign) (m : List (String × List Int)) : List (String × List Int) :=
  as.foldl (fun m a => Go.mapSet m a.shard.id [(a.lo : Int), (a.hi : Int)]) m

abbrev GoRes := Go.Out ((Except String (List (String × List Int))) × Nat)

/-- the model's result as the translated function reports it, starting from the map `m` -/
def toGoFrom (cb : Nat → Except String String) (m : List (String × List Int)) : Res → GoRes
  | .ok as c => .ret (.ok (assignMap as m), c)
  | .createErr c => .ret (.error ("could not create shard: " ++ errMsg cb c), c + 1)
  | .outOfFuel _ => .outOfFuel

def toGo (cb : Nat → Except String String) : Res → GoRes := toGoFrom cb []

namespace Tie

theorem toGoFrom_prepend (cb : Nat → Except String String) (m : List (String × List Int)) (here : List Assign) (r : Res) :
    toGoFrom cb m (r.prepend here) = toGoFrom cb (assignMap here m) r := by
  cases r <;> simp [Res.prepend, toGoFrom, assignMap, List.foldl_append]

/-! ### the inner loop is `scan` -/

theorem scan_le (maxS maxC : Int) (ps : List Nat) (rs rc : Int) : scan maxS maxC ps rs rc ≤ ps.length := by
  induction ps generalizing rs rc with
  | nil => simp [scan]
  | cons p ps ih =>
    simp only [scan]
    split
    · omega
    · have := ih (rs + p) (rc + 1); simp only [List.length_cons]; omega

theorem getI_nat {α : Type} [Inhabited α] (xs : List α) (k : Nat) (h : k < xs.length) :
    Go.getI xs (k : Int) = xs[k] := by
  have h0 : ¬ ((k : Int) < 0) := by omega
  simp [Go.getI, List.getD_eq_getElem?_getD, h, h0]

theorem loop2_eq (maxS maxC : Int) (points : List Point) :
    ∀ (n k fuel : Nat) (rc rs : Int), points.length - k = n → k ≤ points.length → n + 1 ≤ fuel →
      ∃ rc' rs', distributePoints_loop2 maxC maxS points fuel (k : Int) rc rs =
        Go.Ctl.next (((k + scan maxS maxC ((points.drop k).map psize) rs rc : Nat) : Int), rc', rs') := by
  intro n
  induction n with
  | zero =>
    intro k fuel rc rs hn hk hf
    obtain ⟨f, rfl⟩ : ∃ f, fuel = f + 1 := ⟨fuel - 1, by omega⟩
    have hk' : k = points.length := by omega
    refine ⟨rc, rs, ?_⟩
    subst hk'
    simp [distributePoints_loop2, Go.len, scan]
  | succ n ih =>
    intro k fuel rc rs hn hk hf
    obtain ⟨f, rfl⟩ : ∃ f, fuel = f + 1 := ⟨fuel - 1, by omega⟩
    have hlt : k < points.length := by omega
    have hd : points.drop k = points[k] :: points.drop (k + 1) := (List.drop_eq_getElem_cons hlt)
    have hsz : ((psize points[k] : Nat) : Int) = Go.len points[k].Data + Go.len points[k].Id := by
      simp [psize, Go.len]
    rw [distributePoints_loop2]
    have hc : decide ((k : Int) < Go.len points) = true := by simp [Go.len]; omega
    simp only [hc, if_true, getI_nat points k hlt, hd, List.map_cons, scan, ← hsz]
    by_cases hbr : rs + (psize points[k] : Nat) > maxS ∨ rc + 1 > maxC
    · refine ⟨rc + 1, rs + (psize points[k] : Nat), ?_⟩
      have : (decide (rs + (psize points[k] : Nat) > maxS) || decide (rc + 1 > maxC)) = true := by
        simpa using hbr
      simp [this, hbr]
    · have : (decide (rs + (psize points[k] : Nat) > maxS) || decide (rc + 1 > maxC)) = false := by
        simpa using hbr
      obtain ⟨rc', rs', h⟩ := ih (k + 1) f (rc + 1) (rs + (psize points[k] : Nat)) (by omega) (by omega) (by omega)
      refine ⟨rc', rs', ?_⟩
      simp only [this, hbr, if_false, Bool.false_eq_true]
      have hk1 : ((k : Int) + 1) = ((k + 1 : Nat) : Int) := by omega
      rw [hk1, h]
      congr 2
      omega


/-! ### the outer loop is `loop` -/

/-- what follows the outer loop: `return shardAssignments, nil` -/
def afterLoop : Nat × Int × Int × (List (String × List Int)) × List shardInfo → GoRes :=
  fun (c, _, _, m, _) => Go.Out.ret (Except.ok m, c)

theorem loop1_eq (maxS maxC : Int) (cb : Nat → Except String String) (points : List Point) :
    ∀ (fuel nc i last : Nat) (m : List (String × List Int)) (shards : List shardInfo),
      i ≤ shards.length → last ≤ points.length →
      (distributePoints_loop1 cb maxC maxS points fuel nc (i : Int) (last : Int) m shards).finish afterLoop =
        toGoFrom cb m (loop maxS maxC (toMk cb) fuel ((shards.drop i).map toShard) last ((points.drop last).map psize) nc) := by
  intro fuel
  induction fuel with
  | zero => intro nc i last m shards _ _; simp [distributePoints_loop1, loop, toGoFrom, Go.Ctl.finish]
  | succ fuel ih =>
    intro nc i last m shards hi hl
    rw [distributePoints_loop1]
    by_cases hlt : i < shards.length
    · have hd : shards.drop i = shards[i] :: shards.drop (i + 1) := List.drop_eq_getElem_cons hlt
      have hc : decide ((i : Int) < Go.len shards) = true := by simp [Go.len]; omega
      have hfuel : points.length - last + 1 ≤ Go.countFuel (last : Int) (Go.len points) := by
        simp only [Go.countFuel, Go.len]; omega
      obtain ⟨rc', rs', h2⟩ := loop2_eq maxS maxC points (points.length - last) last
        (Go.countFuel (last : Int) (Go.len points)) shards[i].PointCount shards[i].Size rfl hl hfuel
      simp only [hc, if_true, getI_nat shards i hlt, h2, Go.Ctl.andThen, hd, List.map_cons, loop]
      generalize ht : scan maxS maxC ((points.drop last).map psize) shards[i].Size shards[i].PointCount = t
      have ht' : scan maxS maxC ((points.drop last).map psize) (toShard shards[i]).size (toShard shards[i]).count = t := ht
      have htle : t ≤ points.length - last := by
        have := scan_le maxS maxC ((points.drop last).map psize) shards[i].Size shards[i].PointCount
        rw [ht] at this; simpa using this
      simp only [ht']
      have hpts : ((points.drop last).map psize).drop t = (points.drop (last + t)).map psize := by
        rw [← List.map_drop, List.drop_drop]
      have hmap : (if decide (((last + t : Nat) : Int) > (last : Int)) = true then
            Go.mapSet m shards[i].Id [(last : Int), ((last + t : Nat) : Int)] else m) =
          assignMap (if t > 0 then [Assign.mk (toShard shards[i]) last (last + t)] else []) m := by
        by_cases h0 : t > 0
        · have : ((last + t : Nat) : Int) > (last : Int) := by omega
          rw [if_pos (decide_eq_true this), if_pos h0]; rfl
        · have : ¬ ((last + t : Nat) : Int) > (last : Int) := by omega
          rw [if_neg (by rw [decide_eq_false this]; exact Bool.false_ne_true), if_neg h0]; rfl
      have hlast : (((i : Int) == Go.len shards - 1) && decide (((last + t : Nat) : Int) < Go.len points)) =
          (((shards.drop (i + 1)).map toShard).isEmpty && !(((points.drop last).map psize).drop t).isEmpty) := by
        rw [hpts]
        have e1 : ((i : Int) == Go.len shards - 1) = ((shards.drop (i + 1)).map toShard).isEmpty := by
          rw [Bool.eq_iff_iff]; simp [Go.len]; constructor <;> intro h <;> omega
        have e2 : decide (((last + t : Nat) : Int) < Go.len points) = !((points.drop (last + t)).map psize).isEmpty := by
          by_cases hh : last + t < points.length
          · have h1 : ((last + t : Nat) : Int) < Go.len points := by simp only [Go.len]; omega
            have h2 : ((points.drop (last + t)).map psize).isEmpty = false := by simp; omega
            rw [decide_eq_true h1, h2]; rfl
          · have h1 : ¬ ((last + t : Nat) : Int) < Go.len points := by simp only [Go.len]; omega
            have h2 : ((points.drop (last + t)).map psize).isEmpty = true := by simp; omega
            rw [decide_eq_false h1, h2]; rfl
        rw [e1, e2]
      simp only [hmap, hlast, hpts]
      by_cases hb : (((shards.drop (i + 1)).map toShard).isEmpty && !((points.drop (last + t)).map psize).isEmpty) = true
      · simp only [hb, if_true]
        have hrest : shards.length = i + 1 := by
          have := hb; simp at this; omega
        cases hcb : cb nc with
        | error e =>
          simp [toMk, hcb, Except.toOption, Go.Ctl.finish, toGoFrom, errMsg]
        | ok id =>
          have hi1 : ((i : Int) + 1) = ((i + 1 : Nat) : Int) := by omega
          have hdrop : (shards ++ [({ Id := id, Size := 0, PointCount := 0 } : shardInfo)]).drop (i + 1) =
              [({ Id := id, Size := 0, PointCount := 0 } : shardInfo)] := by
            rw [List.drop_append_of_le_length (by omega), List.drop_eq_nil_of_le (by omega)]; rfl
          have := ih (nc + 1) (i + 1) (last + t) (assignMap (if t > 0 then [Assign.mk (toShard shards[i]) last (last + t)] else []) m)
            (shards ++ [({ Id := id, Size := 0, PointCount := 0 } : shardInfo)]) (by simp; omega) (by omega)
          simp only [toMk, hcb, Except.toOption, hi1, this, hdrop, toGoFrom_prepend, List.map_cons, List.map_nil]
          rfl
      · have hb' : (((shards.drop (i + 1)).map toShard).isEmpty && !((points.drop (last + t)).map psize).isEmpty) = false := by
          simpa using hb
        have hi1 : ((i : Int) + 1) = ((i + 1 : Nat) : Int) := by omega
        have := ih nc (i + 1) (last + t) (assignMap (if t > 0 then [Assign.mk (toShard shards[i]) last (last + t)] else []) m)
          shards (by omega) (by omega)
        simp only [hb', hi1, this, toGoFrom_prepend, Bool.false_eq_true, if_false]
    · have hie : i = shards.length := by omega
      have hc : decide ((i : Int) < Go.len shards) = false := by simp [Go.len]; omega
      subst hie
      simp [hc, loop, toGoFrom, Go.Ctl.finish, afterLoop, assignMap]


end Tie

/-! ### the tie theorem -/

/-- **The hand-written model of `distributePoints` is the translated Go function**: for every fuel,
limits, createShardFn behaviour `cb`, shard list and batch, the definition generated from
`cluster/placement.go` returns exactly what `C15.distribute` returns on the abstracted inputs
(`toGo`, `toShard`, `psize`, `toMk` above). -/
theorem C15_tie (fuel : Nat) (maxS maxC : Int) (cb : Nat → Except String String)
    (shards : List shardInfo) (points : List Point) :
    distributePoints fuel shards points maxS maxC cb =
      toGo cb (distribute fuel maxS maxC (toMk cb) (shards.map toShard) (points.map psize)) := by
  unfold distributePoints distribute toGo
  have hcond : ((Go.len shards == 0) && decide (Go.len points > 0)) =
      ((shards.map toShard).isEmpty && !(points.map psize).isEmpty) := by
    cases shards <;> cases points <;> simp [Go.len] <;> omega
  have h0 := Tie.loop1_eq maxS maxC cb points fuel
  simp only [hcond]
  by_cases hb : ((shards.map toShard).isEmpty && !(points.map psize).isEmpty) = true
  · have hs : shards = [] := by
      cases shards with
      | nil => rfl
      | cons a l => simp at hb
    subst hs
    simp only [hb, if_true]
    cases hcb : cb 0 with
    | error e => simp [toMk, hcb, Except.toOption, toGoFrom, errMsg]
    | ok id =>
      have := h0 1 0 0 [] [({ Id := id, Size := 0, PointCount := 0 } : shardInfo)] (by simp) (by simp)
      simp only [toMk, hcb, Except.toOption, List.nil_append]
      exact this
  · have hb' : ((shards.map toShard).isEmpty && !(points.map psize).isEmpty) = false := by simpa using hb
    simp only [hb', Bool.false_eq_true, if_false]
    exact h0 0 0 0 [] shards (by simp) (by simp)

/-- non-vacuity: one shard with room for one more point, three points of sizes 20/20/30, limits
(size 100, count 2), createShardFn answering "n0", then failing: both sides give the same two assignments -/
example :
    distributePoints 10 [⟨"s", 50, 1⟩] [⟨List.replicate 16 0, List.replicate 4 0⟩, ⟨List.replicate 16 0, List.replicate 4 0⟩,
        ⟨List.replicate 16 0, List.replicate 14 0⟩] 100 2 (fun n => if n = 0 then .ok "n0" else .error "full") =
      .ret (.ok [("s", [0, 1]), ("n0", [1, 3])], 1) := by rfl

/-! ### the Go map of the assignments is the model's list (audit: "the `as` ↔ Go-map bridge is missing") -/

namespace Tie

/-- `m[k] = v` on a map without the key `k` appends the entry -/
theorem mapSet_absent {ν : Type} (m : List (String × ν)) (k : String) (v : ν) (h : k ∉ m.map (·.1)) :
    Go.mapSet m k v = m ++ [(k, v)] := by
  induction m with
  | nil => rfl
  | cons e rest ih =>
    obtain ⟨k', v'⟩ := e
    have hne : k' ≠ k := fun e => h (by simp [e])
    have hr : k ∉ rest.map (·.1) := fun hm => h (by simp [hm])
    simp [Go.mapSet, hne, ih hr]

/-- storing assignments with pairwise distinct shard ids, none of them a key yet, appends them in order -/
theorem assignMap_nodup (as : List Assign) (m : List (String × List Int))
    (hnd : (as.map (·.shard.id)).Nodup) (hdis : ∀ a ∈ as, a.shard.id ∉ m.map (·.1)) :
    assignMap as m = m ++ as.map fun a => (a.shard.id, [(a.lo : Int), (a.hi : Int)]) := by
  induction as generalizing m with
  | nil => simp [assignMap]
  | cons a rest ih =>
    have hnd' := List.nodup_cons.mp hnd
    have ha : a.shard.id ∉ m.map (·.1) := hdis a List.mem_cons_self
    show assignMap rest (Go.mapSet m a.shard.id [(a.lo : Int), (a.hi : Int)]) = _
    rw [mapSet_absent m _ _ ha, ih _ hnd'.2]
    · simp
    · intro b hb
      simp only [List.map_append, List.map_cons, List.map_nil, List.mem_append, List.mem_singleton, not_or]
      refine ⟨hdis b (List.mem_cons_of_mem _ hb), fun e => hnd'.1 ?_⟩
      exact List.mem_map.mpr ⟨b, hb, e⟩

end Tie

/-- **the Go map `shardAssignments` IS the model's assignment list** when no two assignments share a shard
id: built by `shardAssignments[id] = [2]int{lo, hi}` in loop order (`assignMap … []`, the map primitive
`Go.mapSet` of the generated `Placement` module), it has exactly one entry per assignment, in order, with that
assignment's range — nothing is overwritten, nothing is dropped. -/
theorem C15_map_bridge (as : List Assign) (hnd : (as.map (·.shard.id)).Nodup) :
    assignMap as [] = as.map fun a => (a.shard.id, [(a.lo : Int), (a.hi : Int)]) := by
  have := Tie.assignMap_nodup as [] hnd (by simp)
  simpa using this

/-- **`C15_tie` read off as the Go result**: if the model returns the assignments `as` after `c` shard
creations and the shard ids involved (existing and created) are pairwise distinct (`C15_ids_nodup`'s
hypothesis: C01-style uniqueness of the collection record + fresh uuids from `createShardFn`), the function
generated from `cluster/placement.go` returns the map holding exactly these assignments — so every theorem of
`Props.lean` about `as` (partition, exactly-one, limits, order) is a theorem about the map the Go code returns. -/
theorem C15_tie_assignments (fuel : Nat) (maxS maxC : Int) (cb : Nat → Except String String)
    (shards : List shardInfo) (points : List Point) (as : List Assign) (c : Nat)
    (h : distribute fuel maxS maxC (toMk cb) (shards.map toShard) (points.map psize) = .ok as c)
    (nd : (as.map (·.shard.id)).Nodup) :
    distributePoints fuel shards points maxS maxC cb =
      .ret (.ok (as.map fun a => (a.shard.id, [(a.lo : Int), (a.hi : Int)])), c) := by
  rw [C15_tie, h]
  simp only [toGo, toGoFrom, C15_map_bridge as nd]

/-- the hypothesis cannot be dropped: with a duplicated shard id (`[a, a]`, limit one point per shard) the
model reports two ranges — a partition of the two points — while the generated function returns a map with ONE
entry: the second assignment has overwritten the first, point 0 is silently not inserted -/
example :
    distribute 6 100 1 (fun _ => none) [⟨"a", 0, 0⟩, ⟨"a", 0, 0⟩] [20, 20] =
      .ok [⟨⟨"a", 0, 0⟩, 0, 1⟩, ⟨⟨"a", 0, 0⟩, 1, 2⟩] 0 ∧
    distributePoints 6 [⟨"a", 0, 0⟩, ⟨"a", 0, 0⟩] [⟨List.replicate 16 0, List.replicate 4 0⟩, ⟨List.replicate 16 0, List.replicate 4 0⟩]
      100 1 (fun _ => .error "no") = .ret (.ok [("a", [1, 2])], 0) := by
  constructor
  · decide
  · rfl

/-! ### the quota test of `ClusterNode.InsertPoints` (generated fragment `Gen.Quota.InsertPoints_quota`) -/

def toShardQ (s : Gen.Quota.shardInfo) : Shard := ⟨s.Id, s.Size, s.PointCount⟩

theorem Tie.forRange_sum (shards : List Gen.Quota.shardInfo) (k : Nat) (acc : Int) :
    Go.forRangeAux shards k acc (fun _ shard totalPoints => totalPoints + shard.PointCount) =
      acc + total (shards.map toShardQ) := by
  induction shards generalizing k acc with
  | nil => simp [Go.forRangeAux, total]
  | cons s rest ih =>
    rw [Go.forRangeAux, ih]
    simp [total, toShardQ]
    omega

/-- **the quota test of the model is the translated Go fragment**: the statements of
`ClusterNode.InsertPoints` from `totalPoints := int64(0)` to the comparison with
`col.UserPlan.MaxCollectionPointCount` (regenerated from `cluster/actions.go` on every run) fail with
`ErrQuotaReached` exactly when the model's `overQuota` says so, and do nothing else (no write: the fragment
has no effect but its result) -/
theorem C15_tie_quota (shards : List Gen.Quota.shardInfo) (points : List Gen.Quota.Point) (col : Gen.Quota.Collection) :
    Gen.Quota.InsertPoints_quota shards points col =
      if overQuota (shards.map toShardQ) points.length col.UserPlan.MaxCollectionPointCount
      then .error "quota reached" else .ok () := by
  unfold Gen.Quota.InsertPoints_quota overQuota
  simp only [Go.forRange, Tie.forRange_sum, Go.len, Int.zero_add]

/-- non-vacuity: at the boundary (3 stored + 2 new against a quota of 4 / of 5) -/
example : Gen.Quota.InsertPoints_quota [⟨"a", 0, 3⟩] [⟨[], []⟩, ⟨[], []⟩] ⟨⟨4⟩⟩ = .error "quota reached" ∧
    Gen.Quota.InsertPoints_quota [⟨"a", 0, 3⟩] [⟨[], []⟩, ⟨[], []⟩] ⟨⟨5⟩⟩ = .ok () := by
  constructor <;> rfl

end Sema.C15
