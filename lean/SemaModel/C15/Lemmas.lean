/- helper lemmas for C15: inner scan, loop invariants, fuel -/
import SemaModel.C15.Model
namespace Sema.C15
open Sema List

variable {maxS maxC : Int} {mk : Nat → Option String}

/-! ### the inner loop -/

theorem scan_le (pts : List Nat) (rs rc : Int) : scan maxS maxC pts rs rc ≤ pts.length := by
  induction pts generalizing rs rc with
  | nil => simp [scan]
  | cons p ps ih =>
    unfold scan
    split
    · simp
    · have := ih (rs + p) (rc + 1)
      simp only [length_cons]; omega

/-- whatever the shard takes stays within both limits (nothing is claimed when it takes nothing:
an existing shard may already be over a limit) -/
theorem scan_limits (pts : List Nat) (rs rc : Int) :
    scan maxS maxC pts rs rc = 0 ∨
      (rs + ((pts.take (scan maxS maxC pts rs rc)).sum : Nat) ≤ maxS ∧ rc + (scan maxS maxC pts rs rc : Nat) ≤ maxC) := by
  induction pts generalizing rs rc with
  | nil => left; rfl
  | cons p ps ih =>
    unfold scan
    split
    · left; rfl
    · rename_i hb
      right
      rcases ih (rs + p) (rc + 1) with h0 | ⟨h1, h2⟩
      · rw [h0]; simp only [Nat.zero_add, take_succ_cons, take_zero, sum_cons, sum_nil]
        omega
      · simp only [take_succ_cons, sum_cons]
        push_cast
        omega

/-- greedy: the first point the shard leaves behind would break a limit -/
theorem scan_greedy (pts : List Nat) (rs rc : Int) (h : scan maxS maxC pts rs rc < pts.length) :
    rs + ((pts.take (scan maxS maxC pts rs rc + 1)).sum : Nat) > maxS ∨ rc + (scan maxS maxC pts rs rc : Nat) + 1 > maxC := by
  induction pts generalizing rs rc with
  | nil => simp at h
  | cons p ps ih =>
    unfold scan at h ⊢
    split
    · rename_i hb
      simp only [Nat.zero_add, take_succ_cons, take_zero, sum_cons, sum_nil]
      omega
    · rename_i hb
      rw [if_neg hb] at h
      have h' : scan maxS maxC ps (rs + p) (rc + 1) < ps.length := by
        simp only [length_cons] at h; omega
      rcases ih (rs + p) (rc + 1) h' with h1 | h2
      · left; simp only [take_succ_cons, sum_cons]; push_cast; omega
      · right; push_cast; omega

/-- a point that fits an empty shard is taken by an empty shard -/
theorem scan_fresh_pos {p : Nat} {ps : List Nat} (hp : (p : Int) ≤ maxS) (hc : 1 ≤ maxC) :
    0 < scan maxS maxC (p :: ps) 0 0 := by
  unfold scan
  rw [if_neg (by omega)]
  omega

/-! ### results -/

theorem prepend_eq_ok {here : List Assign} {r : Res} {as : List Assign} {c : Nat} :
    r.prepend here = .ok as c ↔ ∃ as', r = .ok as' c ∧ as = here ++ as' := by
  cases r with
  | ok as0 c0 =>
    simp only [Res.prepend, Res.ok.injEq]
    constructor
    · rintro ⟨rfl, rfl⟩; exact ⟨as0, ⟨rfl, rfl⟩, rfl⟩
    · rintro ⟨as', ⟨rfl, rfl⟩, rfl⟩; exact ⟨rfl, rfl⟩
  | createErr _ => simp [Res.prepend]
  | outOfFuel _ => simp [Res.prepend]

theorem cond_true {rest : List Shard} {l : List Nat} (h : (rest.isEmpty && !l.isEmpty) = true) :
    rest = [] ∧ l ≠ [] := by
  cases rest <;> cases l <;> simp_all

theorem cond_false {rest : List Shard} {l : List Nat} (h : ¬ (rest.isEmpty && !l.isEmpty) = true) :
    rest ≠ [] ∨ l = [] := by
  cases rest <;> cases l <;> simp_all

theorem prepend_oof {here : List Assign} {r : Res} {c : Nat} :
    r.prepend here = .outOfFuel c ↔ r = .outOfFuel c := by
  cases r <;> simp [Res.prepend]

theorem prepend_createErr {here : List Assign} {r : Res} {c : Nat} :
    r.prepend here = .createErr c ↔ r = .createErr c := by
  cases r <;> simp [Res.prepend]

theorem loop_zero (rest : List Shard) (last : Nat) (pts : List Nat) (nc : Nat) :
    loop maxS maxC mk 0 rest last pts nc = .outOfFuel nc := by
  unfold loop; rfl

theorem loop_nil (fuel last : Nat) (pts : List Nat) (nc : Nat) :
    loop maxS maxC mk (fuel + 1) [] last pts nc = .ok [] nc := by
  unfold loop; rfl

/-- one iteration of the outer loop -/
theorem loop_cons (fuel : Nat) (s : Shard) (rest : List Shard) (last : Nat) (pts : List Nat) (nc : Nat) :
    loop maxS maxC mk (fuel + 1) (s :: rest) last pts nc =
      (if rest.isEmpty && !(pts.drop (scan maxS maxC pts s.size s.count)).isEmpty then
        match mk nc with
        | none => .createErr nc
        | some id => (loop maxS maxC mk fuel [fresh id] (last + scan maxS maxC pts s.size s.count)
                        (pts.drop (scan maxS maxC pts s.size s.count)) (nc + 1)).prepend
                        (if scan maxS maxC pts s.size s.count > 0 then [Assign.mk s last (last + scan maxS maxC pts s.size s.count)] else [])
      else (loop maxS maxC mk fuel rest (last + scan maxS maxC pts s.size s.count)
              (pts.drop (scan maxS maxC pts s.size s.count)) nc).prepend
              (if scan maxS maxC pts s.size s.count > 0 then [Assign.mk s last (last + scan maxS maxC pts s.size s.count)] else [])) := by
  rw [loop]
  rfl

/-! ### partition, limits, shard order -/

/-- contiguous, non-empty ranges from `a` to `b` -/
def Chain : Nat → List Assign → Nat → Prop
  | a, [], b => a = b
  | a, x :: xs, b => x.lo = a ∧ x.lo < x.hi ∧ Chain x.hi xs b

/-- the range of `a` respects both limits of its shard; `all` is the whole (id-sorted) batch -/
def Within (maxS maxC : Int) (all : List Nat) (a : Assign) : Prop :=
  a.shard.count + ((a.hi - a.lo : Nat) : Int) ≤ maxC ∧
  a.shard.size + ((((all.drop a.lo).take (a.hi - a.lo)).sum : Nat) : Int) ≤ maxS

theorem created_succ (nc k : Nat) {id : String} (h : mk nc = some id) :
    created mk nc (k + 1) = fresh id :: created mk (nc + 1) k := by
  simp [created, h]

theorem loop_ok (all : List Nat) :
    ∀ (fuel : Nat) (rest : List Shard) (last : Nat) (pts : List Nat) (nc : Nat) (as : List Assign) (c : Nat),
      all.drop last = pts → (rest ≠ [] ∨ pts = []) →
      loop maxS maxC mk fuel rest last pts nc = .ok as c →
      Chain last as (last + pts.length) ∧ (∀ a ∈ as, Within maxS maxC all a) ∧
      nc ≤ c ∧ (as.map (·.shard)).Sublist (rest ++ created mk nc (c - nc)) := by
  intro fuel
  induction fuel with
  | zero => intro rest last pts nc as c _ _ h; rw [loop_zero] at h; cases h
  | succ fuel ih =>
    intro rest last pts nc as c hall hne h
    cases rest with
    | nil =>
      rw [loop_nil] at h
      injection h with h1 h2
      subst h1; subst h2
      have : pts = [] := by rcases hne with h | h; exact absurd rfl h; exact h
      subst this
      simp [Chain, created]
    | cons s rest =>
      rw [loop_cons] at h
      have hle := scan_le (maxS := maxS) (maxC := maxC) pts s.size s.count
      have hlim := scan_limits (maxS := maxS) (maxC := maxC) pts s.size s.count
      generalize ht : scan maxS maxC pts s.size s.count = t at h hle hlim
      have hall' : all.drop (last + t) = pts.drop t := by rw [← hall, drop_drop]
      have hlen : (pts.drop t).length = pts.length - t := length_drop
      -- facts about the assignment made in this iteration
      have hhere : ∀ a ∈ (if t > 0 then [Assign.mk s last (last + t)] else []), Within maxS maxC all a := by
        intro a ha
        by_cases ht0 : t > 0
        · rw [if_pos ht0] at ha
          have : a = Assign.mk s last (last + t) := by simpa using ha
          subst this
          rcases hlim with h0 | ⟨h1, h2⟩
          · omega
          · simp only [Within, Nat.add_sub_cancel_left, hall]
            exact ⟨h2, h1⟩
        · rw [if_neg ht0] at ha; cases ha
      have hchain : ∀ as' b, Chain (last + t) as' b →
          Chain last ((if t > 0 then [Assign.mk s last (last + t)] else []) ++ as') b := by
        intro as' b hc
        by_cases ht0 : t > 0
        · rw [if_pos ht0]
          exact ⟨rfl, by simp only []; omega, hc⟩
        · rw [if_neg ht0]
          have : t = 0 := by omega
          subst this
          simpa using hc
      have hsub : ((if t > 0 then [Assign.mk s last (last + t)] else []).map (·.shard)).Sublist [s] := by
        by_cases ht0 : t > 0
        · rw [if_pos ht0]; simp
        · rw [if_neg ht0]; simp
      split at h
      · -- the last shard is exhausted and points remain: create a shard
        rename_i hcond
        have hrest : rest = [] := (cond_true hcond).1
        subst hrest
        cases hmk : mk nc with
        | none => rw [hmk] at h; cases h
        | some id =>
          rw [hmk] at h
          obtain ⟨as', h', rfl⟩ := prepend_eq_ok.1 h
          obtain ⟨i1, i2, i3, i4⟩ := ih [fresh id] (last + t) (pts.drop t) (nc + 1) as' c hall' (Or.inl (by simp)) h'
          refine ⟨?_, ?_, by omega, ?_⟩
          · apply hchain
            rw [hlen] at i1
            have : last + t + (pts.length - t) = last + pts.length := by omega
            rw [this] at i1; exact i1
          · intro a ha
            rcases mem_append.1 ha with ha | ha
            · exact hhere a ha
            · exact i2 a ha
          · have hc : c - nc = (c - (nc + 1)) + 1 := by omega
            rw [hc, created_succ nc _ hmk, map_append]
            simpa using Sublist.append hsub i4
      · rename_i hcond
        have hne' : rest ≠ [] ∨ pts.drop t = [] := cond_false hcond
        obtain ⟨as', h', rfl⟩ := prepend_eq_ok.1 h
        obtain ⟨i1, i2, i3, i4⟩ := ih rest (last + t) (pts.drop t) nc as' c hall' hne' h'
        refine ⟨?_, ?_, i3, ?_⟩
        · apply hchain
          rw [hlen] at i1
          have : last + t + (pts.length - t) = last + pts.length := by omega
          rw [this] at i1; exact i1
        · intro a ha
          rcases mem_append.1 ha with ha | ha
          · exact hhere a ha
          · exact i2 a ha
        · rw [map_append]
          simpa using Sublist.append hsub i4

/-- every index below the end of a chain lies in exactly one of its ranges -/
theorem chain_exactly_one {a b : Nat} {as : List Assign} (h : Chain a as b) :
    a ≤ b ∧ ∀ q, a ≤ q → q < b → (as.filter (fun x => decide (x.lo ≤ q ∧ q < x.hi))).length = 1 := by
  induction as generalizing a with
  | nil =>
    simp only [Chain] at h
    subst h
    exact ⟨Nat.le_refl _, fun q h1 h2 => by omega⟩
  | cons x xs ih =>
    obtain ⟨h1, h2, h3⟩ := h
    obtain ⟨i1, i2⟩ := ih h3
    refine ⟨by omega, ?_⟩
    intro q hq1 hq2
    by_cases hq : q < x.hi
    · -- q is in the first range and in none of the later ones
      have hnone : ∀ (l : List Assign) (s : Nat), Chain s l b → q < s →
          (l.filter (fun y => decide (y.lo ≤ q ∧ q < y.hi))) = [] := by
        intro l
        induction l with
        | nil => intro _ _ _; rfl
        | cons y ys ihy =>
          intro s hc hs
          obtain ⟨c1, c2, c3⟩ := hc
          have : ¬ (y.lo ≤ q ∧ q < y.hi) := by omega
          rw [filter_cons_of_neg (by simpa using this)]
          exact ihy y.hi c3 (by omega)
      rw [filter_cons_of_pos (by simp; omega), hnone xs x.hi h3 hq]
      rfl
    · have : ¬ (x.lo ≤ q ∧ q < x.hi) := by omega
      rw [filter_cons_of_neg (by simpa using this)]
      exact i2 q (by omega) hq2

/-! ### fuel -/

theorem loop_mono :
    ∀ (fuel : Nat) (rest : List Shard) (last : Nat) (pts : List Nat) (nc : Nat),
      (∀ c, loop maxS maxC mk fuel rest last pts nc ≠ .outOfFuel c) →
      loop maxS maxC mk (fuel + 1) rest last pts nc = loop maxS maxC mk fuel rest last pts nc := by
  intro fuel
  induction fuel with
  | zero => intro rest last pts nc h; exact absurd (loop_zero ..) (h nc)
  | succ fuel ih =>
    intro rest last pts nc h
    cases rest with
    | nil => rw [loop_nil, loop_nil]
    | cons s rest =>
      rw [loop_cons] at h
      rw [loop_cons (fuel + 1), loop_cons fuel]
      split
      · rename_i hcond
        rw [if_pos hcond] at h
        cases hmk : mk nc with
        | none => rfl
        | some id =>
          rw [hmk] at h
          simp only []
          rw [ih]
          intro c hc
          exact h c (prepend_oof.2 hc)
      · rename_i hcond
        rw [if_neg hcond] at h
        rw [ih]
        intro c hc
        exact h c (prepend_oof.2 hc)

theorem loop_mono_add (k fuel : Nat) (rest : List Shard) (last : Nat) (pts : List Nat) (nc : Nat)
    (h : ∀ c, loop maxS maxC mk fuel rest last pts nc ≠ .outOfFuel c) :
    loop maxS maxC mk (fuel + k) rest last pts nc = loop maxS maxC mk fuel rest last pts nc := by
  induction k with
  | zero => rfl
  | succ k ih =>
    rw [← Nat.add_assoc, loop_mono _ _ _ _ _ (by rw [ih]; exact h), ih]

/-- every point fits an empty shard -/
def Fits (maxS maxC : Int) (pts : List Nat) : Prop := 1 ≤ maxC ∧ ∀ p ∈ pts, (p : Int) ≤ maxS

theorem Fits.drop {pts : List Nat} (h : Fits maxS maxC pts) (t : Nat) : Fits maxS maxC (pts.drop t) :=
  ⟨h.1, fun p hp => h.2 p (mem_of_mem_drop hp)⟩

/-- (A) a fresh shard facing points that fit: `|pts| + 1` iterations are enough -/
theorem loop_fresh_ok (hmk : ∀ i, (mk i).isSome) :
    ∀ (n : Nat) (pts : List Nat), pts.length ≤ n → Fits maxS maxC pts → pts ≠ [] →
    ∀ (fuel : Nat) (id : String) (last nc : Nat), pts.length + 1 ≤ fuel →
      ∃ as c, loop maxS maxC mk fuel [fresh id] last pts nc = .ok as c := by
  intro n
  induction n with
  | zero => intro pts hl _ hne; exact absurd (length_eq_zero_iff.1 (by omega)) hne
  | succ n ih =>
    intro pts hl hf hne fuel id last nc hfuel
    obtain ⟨fuel, rfl⟩ : ∃ f, fuel = f + 1 := ⟨fuel - 1, by omega⟩
    rw [loop_cons]
    cases pts with
    | nil => exact absurd rfl hne
    | cons p ps =>
      have hpos : 0 < scan maxS maxC (p :: ps) (fresh id).size (fresh id).count :=
        scan_fresh_pos (hf.2 p mem_cons_self) hf.1
      have hle := scan_le (maxS := maxS) (maxC := maxC) (p :: ps) (fresh id).size (fresh id).count
      generalize scan maxS maxC (p :: ps) (fresh id).size (fresh id).count = t at hpos hle
      have hlen : ((p :: ps).drop t).length = (p :: ps).length - t := length_drop
      split
      · rename_i hcond
        have hne' : (p :: ps).drop t ≠ [] := (cond_true hcond).2
        obtain ⟨id', hid⟩ := Option.isSome_iff_exists.1 (hmk nc)
        simp only [hid]
        simp only [length_cons] at hl hfuel hlen
        obtain ⟨as, c, h⟩ := ih ((p :: ps).drop t) (by rw [hlen]; omega) (hf.drop t) hne' fuel id' (last + t) (nc + 1) (by rw [hlen]; omega)
        rw [h]; exact ⟨_, _, rfl⟩
      · rename_i hcond
        have hnil : (p :: ps).drop t = [] := by
          rcases cond_false hcond with h | h
          · exact absurd rfl h
          · exact h
        rw [hnil]
        obtain ⟨fuel, rfl⟩ : ∃ f, fuel = f + 1 := ⟨fuel - 1, by simp only [length_cons] at hfuel; omega⟩
        rw [loop_nil]; exact ⟨_, _, rfl⟩

/-- (B) any shard list: `|rest| + |pts| + 1` iterations are enough -/
theorem loop_fits_ok (hmk : ∀ i, (mk i).isSome) :
    ∀ (rest : List Shard) (pts : List Nat) (fuel last nc : Nat), Fits maxS maxC pts →
      rest.length + pts.length + 1 ≤ fuel →
      ∃ as c, loop maxS maxC mk fuel rest last pts nc = .ok as c := by
  intro rest
  induction rest with
  | nil =>
    intro pts fuel last nc _ hfuel
    obtain ⟨fuel, rfl⟩ : ∃ f, fuel = f + 1 := ⟨fuel - 1, by omega⟩
    rw [loop_nil]; exact ⟨_, _, rfl⟩
  | cons s rest ih =>
    intro pts fuel last nc hf hfuel
    obtain ⟨fuel, rfl⟩ : ∃ f, fuel = f + 1 := ⟨fuel - 1, by omega⟩
    rw [loop_cons]
    have hle := scan_le (maxS := maxS) (maxC := maxC) pts s.size s.count
    generalize scan maxS maxC pts s.size s.count = t at hle
    have hlen : (pts.drop t).length = pts.length - t := length_drop
    simp only [length_cons] at hfuel
    split
    · rename_i hcond
      have hne' : pts.drop t ≠ [] := (cond_true hcond).2
      obtain ⟨id', hid⟩ := Option.isSome_iff_exists.1 (hmk nc)
      simp only [hid]
      obtain ⟨as, c, h⟩ := loop_fresh_ok hmk (pts.drop t).length (pts.drop t) (Nat.le_refl _) (hf.drop t) hne' fuel id' (last + t) (nc + 1) (by rw [hlen]; omega)
      rw [h]; exact ⟨_, _, rfl⟩
    · obtain ⟨as, c, h⟩ := ih (pts.drop t) fuel (last + t) nc (hf.drop t) (by rw [hlen]; omega)
      rw [h]; exact ⟨_, _, rfl⟩

/-! ### without `fits` -/

/-- no shard can take the point: it is larger than a whole shard, or no shard may hold even one point -/
def Blocked (maxS maxC : Int) (p : Nat) : Prop := (p : Int) > maxS ∨ maxC < 1

def Stuck (maxS maxC : Int) (pts : List Nat) : Prop := ∃ p ∈ pts, Blocked maxS maxC p

theorem scan_stuck (pts : List Nat) (rs rc : Int) (hrs : 0 ≤ rs) (hrc : 0 ≤ rc) (h : Stuck maxS maxC pts) :
    Stuck maxS maxC (pts.drop (scan maxS maxC pts rs rc)) := by
  induction pts generalizing rs rc with
  | nil => obtain ⟨p, hp, _⟩ := h; cases hp
  | cons p ps ih =>
    unfold scan
    split
    · simpa using h
    · rename_i hb
      obtain ⟨q, hq, hbq⟩ := h
      have hps : Stuck maxS maxC ps := by
        rcases mem_cons.1 hq with rfl | hq
        · exfalso; unfold Blocked at hbq; omega
        · exact ⟨q, hq, hbq⟩
      simpa using ih (rs + p) (rc + 1) (by omega) (by omega) hps

theorem Stuck.ne_nil {pts : List Nat} (h : Stuck maxS maxC pts) : pts ≠ [] := by
  obtain ⟨p, hp, _⟩ := h
  intro h0; rw [h0] at hp; cases hp

theorem loop_stuck (hmk : ∀ i, (mk i).isSome) :
    ∀ (fuel : Nat) (rest : List Shard) (last : Nat) (pts : List Nat) (nc : Nat),
      rest ≠ [] → (∀ s ∈ rest, 0 ≤ s.size ∧ 0 ≤ s.count) → Stuck maxS maxC pts →
      ∃ c, loop maxS maxC mk fuel rest last pts nc = .outOfFuel c ∧ nc + fuel + 1 ≤ c + rest.length := by
  intro fuel
  induction fuel with
  | zero =>
    intro rest last pts nc hne _ _
    refine ⟨nc, loop_zero .., ?_⟩
    cases rest with
    | nil => exact absurd rfl hne
    | cons s r => simp only [length_cons]; omega
  | succ fuel ih =>
    intro rest last pts nc hne hpos hst
    cases rest with
    | nil => exact absurd rfl hne
    | cons s rest =>
      rw [loop_cons]
      have hs := hpos s mem_cons_self
      have hst' := scan_stuck pts s.size s.count hs.1 hs.2 hst
      generalize scan maxS maxC pts s.size s.count = t at hst'
      have hne' := hst'.ne_nil
      cases rest with
      | nil =>
        have hcond : (([] : List Shard).isEmpty && !(pts.drop t).isEmpty) = true := by
          cases hd : pts.drop t with
          | nil => exact absurd hd hne'
          | cons x xs => rfl
        rw [if_pos hcond]
        obtain ⟨id', hid⟩ := Option.isSome_iff_exists.1 (hmk nc)
        rw [hid]
        obtain ⟨c, h, hc⟩ := ih [fresh id'] (last + t) (pts.drop t) (nc + 1) (by simp)
          (by intro s hs; have : s = fresh id' := by simpa using hs
              subst this; exact ⟨Int.le_refl _, Int.le_refl _⟩) hst'
        refine ⟨c, ?_, ?_⟩
        · simp only []; rw [h]; rfl
        · simp only [length_cons, length_nil] at hc ⊢; omega
      | cons s2 rest =>
        have hcond : ¬ (((s2 :: rest).isEmpty && !(pts.drop t).isEmpty) = true) := by simp
        rw [if_neg hcond]
        obtain ⟨c, h, hc⟩ := ih (s2 :: rest) (last + t) (pts.drop t) nc (by simp)
          (fun x hx => hpos x (mem_cons_of_mem _ hx)) hst'
        refine ⟨c, ?_, ?_⟩
        · rw [h]; rfl
        · simp only [length_cons] at hc ⊢; omega

/-! ### count identity -/

theorem total_cons (s : Shard) (l : List Shard) : total (s :: l) = s.count + total l := by
  simp [total]

theorem total_append (l₁ l₂ : List Shard) : total (l₁ ++ l₂) = total l₁ + total l₂ := by
  induction l₁ with
  | nil => simp [total]
  | cons s l ih => rw [cons_append, total_cons, total_cons, ih]; omega

theorem total_created (mk : Nat → Option String) (nc k : Nat) : total (created mk nc k) = 0 := by
  induction k generalizing nc with
  | zero => simp [created, total]
  | succ k ih =>
    unfold created
    rw [total_append, ih]
    cases mk nc <;> simp [total, fresh]

/-- one successful insert adds the range length once per shard carrying that id -/
theorem total_applyOne (st : List Shard) (a : Assign) (ns : Int) :
    total (applyOne st a ns) = total st + ((a.hi - a.lo : Nat) : Int) * ((st.filter (fun s => s.id = a.shard.id)).length : Nat) := by
  induction st with
  | nil => simp [applyOne, total]
  | cons s l ih =>
    unfold applyOne at ih ⊢
    rw [map_cons, total_cons, ih, total_cons]
    by_cases h : s.id = a.shard.id
    · rw [if_pos h, filter_cons_of_pos (by simpa using h)]
      simp only [length_cons]; push_cast
      rw [Int.mul_add]; omega
    · rw [if_neg h, filter_cons_of_neg (by simpa using h)]
      omega

theorem ids_applyOne (st : List Shard) (a : Assign) (ns : Int) :
    (applyOne st a ns).map (·.id) = st.map (·.id) := by
  unfold applyOne
  rw [map_map]
  apply map_congr_left
  intro s _
  simp only [Function.comp]
  split <;> rfl

theorem filter_id_length (st : List Shard) (i : String) :
    (st.filter (fun s => s.id = i)).length = ((st.map (·.id)).filter (fun x => x = i)).length := by
  induction st with
  | nil => rfl
  | cons s l ih =>
    by_cases h : s.id = i
    · rw [filter_cons_of_pos (by simpa using h), map_cons, filter_cons_of_pos (by simpa using h)]
      simp only [length_cons, ih]
    · rw [filter_cons_of_neg (by simpa using h), map_cons, filter_cons_of_neg (by simpa using h), ih]

def okLen (fails : Assign → Bool) (as : List Assign) : Int :=
  ((as.filter (fun a => !fails a)).map (fun a => ((a.hi - a.lo : Nat) : Int))).sum

theorem total_applyAll (fails : Assign → Bool) (newSize : Assign → Int) :
    ∀ (as : List Assign) (st : List Shard),
      (∀ a ∈ as, ((st.map (·.id)).filter (fun x => x = a.shard.id)).length = 1) →
      total (applyAll fails newSize st as) = total st + okLen fails as := by
  intro as
  induction as with
  | nil => intro st _; simp [applyAll, okLen]
  | cons a as ih =>
    intro st h
    unfold applyAll
    by_cases hf : fails a = true
    · rw [if_pos hf, ih st (fun x hx => h x (mem_cons_of_mem _ hx))]
      simp [okLen, hf]
    · have hf' : fails a = false := by simpa using hf
      rw [if_neg hf, ih]
      · rw [total_applyOne, filter_id_length, h a mem_cons_self]
        simp only [okLen, hf', Bool.not_false, filter_cons_of_pos, map_cons, sum_cons]
        omega
      · intro x hx
        rw [ids_applyOne]
        exact h x (mem_cons_of_mem _ hx)

end Sema.C15
