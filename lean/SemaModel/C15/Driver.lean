/- line protocol for C15 (one pure call per line), evaluated on the hand-written model

    dp <maxS> <maxC> <cap> <shards> <points>      distributePoints; createShardFn returns "n<i>" on call i < cap, an error afterwards
        -> ok <created> <id:lo:hi,…|->  |  err <created>  |  oof <created>
    ins <maxS> <maxC> <quota> <shards> <points>   ClusterNode.InsertPoints on observed fill levels (no RPC failure)
        -> refused  |  ok <created> <points added per shard, record order then created|->  |  err
    cc <maxCollections> <user> <collection> <keys> RPCCreateCollection on a bucket holding <keys>
        -> created | exists | quota
  <shards> = "-" | size:count,…   (ids e0, e1, … by position)      <points> = "-" | size,…
  <keys>   = "-" | hex,…                                           <user>, <collection> = hex | "-"
-/
import SemaModel.Base.DriverUtil
import SemaModel.C15.Model
namespace Sema.C15
open Sema

def list? {α : Type} (f : String → Option α) (s : String) : Option (List α) :=
  if s == "-" then some [] else (s.splitOn ",").mapM f

def shard? (i : Nat) (s : String) : Option Shard :=
  match s.splitOn ":" with
  | [a, b] => match a.toInt?, b.toInt? with
    | some x, some y => some ⟨s!"e{i}", x, y⟩
    | _, _ => none
  | _ => none

def shards? (s : String) : Option (List Shard) :=
  if s == "-" then some [] else
    let parts := s.splitOn ","
    (List.zip (List.range parts.length) parts).mapM fun (i, p) => shard? i p

def points? (s : String) : Option (List Nat) := list? String.toNat? s
def bytes? (s : String) : Option Bytes := if s == "-" then some [] else bytesOfHex s

def mkCap (cap : Nat) : Nat → Option String := fun i => if i < cap then some s!"n{i}" else none

def showAssigns (as : List Assign) : String :=
  if as.isEmpty then "-" else ",".intercalate (as.map fun a => s!"{a.shard.id}:{a.lo}:{a.hi}")

def showRes : Res → String
  | .ok as c => s!"ok {c} {showAssigns as}"
  | .createErr c => s!"err {c}"
  | .outOfFuel c => s!"oof {c}"

def noFail : Assign → Bool := fun _ => false
def sameSize : Assign → Int := fun a => a.shard.size

def step (line : String) : String :=
  let bad := "bad-op"
  match line.trimAscii.toString.splitOn " " with
  | ["dp", ms, mc, cap, ss, ps] =>
    match ms.toInt?, mc.toInt?, cap.toNat?, shards? ss, points? ps with
    | some ms, some mc, some cap, some ss, some ps =>
      showRes (distribute (fuelFor ss ps cap) ms mc (mkCap cap) ss ps)
    | _, _, _, _, _ => bad
  | ["ins", ms, mc, q, ss, ps] =>
    match ms.toInt?, mc.toInt?, q.toInt?, shards? ss, points? ps with
    | some ms, some mc, some q, some ss, some ps =>
      let cap := ps.length + 1
      let (c', out) := insertPoints (fuelFor ss ps cap) ms mc q (mkCap cap) noFail sameSize ⟨ss, 0⟩ ps
      match out with
      | .quotaReached => "refused"
      | .distributeErr => "err"
      | .done _ =>
        let before := ss.map (·.count) ++ List.replicate (c'.shards.length - ss.length) 0
        let deltas := (List.zip c'.shards before).map fun (s, b) => toString (s.count - b)
        s!"ok {c'.creates} {if deltas.isEmpty then "-" else ",".intercalate deltas}"
    | _, _, _, _, _ => bad
  | ["cc", mx, u, c, keys] =>
    match mx.toInt?, bytes? u, bytes? c, list? bytesOfHex keys with
    | some mx, some u, some c, some keys =>
      let kv := keys.foldl (fun kv k => kv.put k [0x01#8]) KV.empty
      match (createCollection kv u c [0x01#8] mx).2 with
      | .created => "created"
      | .alreadyExists => "exists"
      | .quotaReached => "quota"
    | _, _, _, _ => bad
  | _ => bad

end Sema.C15

def Sema.C15.driverMain (stdin stdout : IO.FS.Stream) (_args : List String) : IO Unit :=
  Sema.loopPure stdin stdout Sema.C15.step
