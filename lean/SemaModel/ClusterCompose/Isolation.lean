/-
ClusterCompose — tenant isolation on the multi-node state: C16's key injectivity / prefix lemma
lifted from one node database to the cluster.  `projB b c` is everything of the cluster that belongs
to tenant `b` (on every server: the records under the scan prefix `b/`, the shard directories below
`b`'s directory).  Requests of other tenants leave it unchanged (`step_other`); the response to a
request of `b`, and `b`'s part afterwards, are functions of `b`'s part alone (`step_self`).
Needs only: user ids without '/', and records stored under their own key (`RecWF`, an invariant).
-/
import SemaModel.ClusterCompose.Readout
namespace Sema.ClusterCompose
open Sema List

/-- tenant `b`'s part of the cluster -/
def projB (b : Bytes) (c : Cluster) : Cluster :=
  ⟨fun n => (c.db n).filter (fun e => decide (C16.scanPrefix b <+: e.1)), fun n k => if k.user = b then c.sh n k else none⟩

/-- every record is stored under its own key; user ids are delimiter-free -/
def RecWF (c : Cluster) : Prop :=
  ∀ n k rec, dbGet (c.db n) k = some rec → k = C16.key rec.user rec.coll ∧ C16.slash ∉ rec.user

theorem Cluster.ext' {c d : Cluster} (h1 : c.db = d.db) (h2 : c.sh = d.sh) : c = d := by
  cases c; cases d; simp only at h1 h2; subst h1; subst h2; rfl

/-! ### buckets under a key filter -/

section bucket
variable (P : Bytes → Bool)

theorem dbGet_filter_in (db : List (Bytes × Rec)) {k : Bytes} (hk : P k = true) :
    dbGet (db.filter fun e => P e.1) k = dbGet db k := by
  unfold dbGet
  rw [find?_filter]
  congr 1
  apply find?_congr'
  intro e _
  by_cases he : e.1 = k
  · simp [he, hk]
  · simp [he]

theorem filter_put_in (db : List (Bytes × Rec)) {k : Bytes} (v : Rec) (hk : P k = true) :
    (dbPut db k v).filter (fun e => P e.1) = dbPut (db.filter fun e => P e.1) k v := by
  unfold dbPut
  rw [filter_append, C16.filter_comm']
  simp [hk]

theorem filter_put_out (db : List (Bytes × Rec)) {k : Bytes} (v : Rec) (hk : P k = false) :
    (dbPut db k v).filter (fun e => P e.1) = db.filter fun e => P e.1 := by
  unfold dbPut
  rw [filter_append, filter_filter]
  have : ([(k, v)].filter fun e => P e.1) = [] := by simp [hk]
  rw [this, append_nil]
  apply filter_congr
  intro e _
  by_cases he : e.1 = k
  · simp [he, hk]
  · simp [he]

theorem filter_erase_in (db : List (Bytes × Rec)) (k : Bytes) :
    (dbErase db k).filter (fun e => P e.1) = dbErase (db.filter fun e => P e.1) k := by
  unfold dbErase
  rw [C16.filter_comm']

theorem filter_erase_out (db : List (Bytes × Rec)) {k : Bytes} (hk : P k = false) :
    (dbErase db k).filter (fun e => P e.1) = db.filter fun e => P e.1 := by
  unfold dbErase
  rw [filter_filter]
  apply filter_congr
  intro e _
  by_cases he : e.1 = k
  · simp [he, hk]
  · simp [he]

end bucket

theorem inB_key {b u : Bytes} (hb : C16.slash ∉ b) (hu : C16.slash ∉ u) (col : Bytes) :
    decide (C16.scanPrefix b <+: C16.key u col) = decide (u = b) := by
  simp only [C16.C16_prefix hb hu]

/-! ### the pieces of an operation on `b`'s part -/

section self
variable {r : Bytes → Name} {b : Bytes}

theorem getRec_proj (hb : C16.slash ∉ b) (c : Cluster) (col : Bytes) : getRec r (projB b c) b col = getRec r c b col := by
  unfold getRec projB
  exact dbGet_filter_in (fun k => decide (C16.scanPrefix b <+: k)) _ (by rw [inB_key hb hb]; simp)

theorem contents_proj (c : Cluster) {rec : Rec} (hr : rec.user = b) (sid : String) :
    contents r (projB b c) rec sid = contents r c rec sid := by
  simp [contents, projB, skey, hr]

theorem gather_proj (c : Cluster) {rec : Rec} (hr : rec.user = b) : gather r (projB b c) rec = gather r c rec := by
  unfold gather
  exact map_congr_left fun sid _ => by rw [contents_proj c hr]

theorem infos_proj (cfg : Cfg) (c : Cluster) {rec : Rec} (hr : rec.user = b) : infos cfg r (projB b c) rec = infos cfg r c rec := by
  unfold infos
  exact map_congr_left fun sid _ => by rw [contents_proj c hr]

/-- writes into `b`'s directories commute with the projection -/
theorem proj_applyWrites_in (c : Cluster) (ws : Writes) (h : ∀ w ∈ ws, w.2.1.user = b) :
    projB b (applyWrites c ws) = applyWrites (projB b c) ws := by
  refine Cluster.ext' ?_ ?_
  · rfl
  funext n k
  simp only [projB, applyWrites]
  by_cases hk : k.user = b
  · simp only [hk, if_true]
  · simp only [hk, if_false]
    have : ws.find? (fun w => decide (w.1 = n ∧ w.2.1 = k)) = none := by
      rw [find?_eq_none]; intro w hw
      simp only [decide_eq_true_eq]
      intro e; apply hk; rw [← e.2]; exact h w hw
    simp only [this]

/-- writes into another tenant's directories are invisible -/
theorem proj_applyWrites_out (c : Cluster) (ws : Writes) (h : ∀ w ∈ ws, w.2.1.user ≠ b) :
    projB b (applyWrites c ws) = projB b c := by
  refine Cluster.ext' ?_ ?_
  · rfl
  funext n k
  simp only [projB]
  by_cases hk : k.user = b
  · simp only [hk, if_true]
    apply applyWrites_miss
    intro w hw e
    exact h w hw (by rw [e.2]; exact hk)
  · simp only [hk, if_false]

theorem proj_setDb_put_in (hb : C16.slash ∉ b) (c : Cluster) (n : Name) (col : Bytes) (v : Rec) :
    projB b (setDb c n (dbPut (c.db n) (C16.key b col) v)) =
      setDb (projB b c) n (dbPut ((projB b c).db n) (C16.key b col) v) := by
  refine Cluster.ext' ?_ ?_
  rotate_left
  · rfl
  funext n'
  by_cases hn : n' = n
  · subst hn
    simp only [projB, setDb, if_true]
    exact filter_put_in (fun k => decide (C16.scanPrefix b <+: k)) _ v (by rw [inB_key hb hb]; simp)
  · simp [projB, setDb, hn]

theorem proj_setDb_put_out {a : Bytes} (hb : C16.slash ∉ b) (ha : C16.slash ∉ a) (hab : a ≠ b) (c : Cluster) (n : Name) (col : Bytes) (v : Rec) :
    projB b (setDb c n (dbPut (c.db n) (C16.key a col) v)) = projB b c := by
  refine Cluster.ext' ?_ ?_
  rotate_left
  · rfl
  funext n'
  by_cases hn : n' = n
  · subst hn
    simp only [projB, setDb, if_true]
    exact filter_put_out (fun k => decide (C16.scanPrefix b <+: k)) _ v (by rw [inB_key hb ha]; simpa using hab)
  · simp [projB, setDb, hn]

theorem proj_setDb_erase_in (c : Cluster) (n : Name) (k : Bytes) :
    projB b (setDb c n (dbErase (c.db n) k)) = setDb (projB b c) n (dbErase ((projB b c).db n) k) := by
  refine Cluster.ext' ?_ ?_
  rotate_left
  · rfl
  funext n'
  by_cases hn : n' = n
  · subst hn
    simp only [projB, setDb, if_true]
    exact filter_erase_in (fun k => decide (C16.scanPrefix b <+: k)) _ k
  · simp [projB, setDb, hn]

theorem proj_setDb_erase_out {a : Bytes} (hb : C16.slash ∉ b) (ha : C16.slash ∉ a) (hab : a ≠ b) (c : Cluster) (n : Name) (col : Bytes) :
    projB b (setDb c n (dbErase (c.db n) (C16.key a col))) = projB b c := by
  refine Cluster.ext' ?_ ?_
  rotate_left
  · rfl
  funext n'
  by_cases hn : n' = n
  · subst hn
    simp only [projB, setDb, if_true]
    exact filter_erase_out (fun k => decide (C16.scanPrefix b <+: k)) _ (by rw [inB_key hb ha]; simpa using hab)
  · simp [projB, setDb, hn]

end self

/-! ### one request -/

section step
variable (cfg : Cfg) (r : Bytes → Name)

theorem RecWF.fields {c : Cluster} (hw : RecWF c) {u col : Bytes} {rec : Rec} (hu : C16.slash ∉ u)
    (h : getRec r c u col = some rec) : rec.user = u ∧ rec.coll = col := by
  obtain ⟨hk, hs⟩ := hw _ _ _ h
  obtain ⟨h1, h2⟩ := C16.C16_key_inj hu hs hk
  exact ⟨h1.symm, h2.symm⟩

theorem fanWrites_user (rec : Rec) (col : C17.Coll) : ∀ w ∈ fanWrites r rec col, w.2.1.user = rec.user := by
  intro w hw
  obtain ⟨e, _, rfl⟩ := mem_map.mp hw
  rfl

/-- **what `b` sees is a function of `b`'s part**: a request of `b` run on `b`'s part alone gives the
same response, and `b`'s part of the result -/
theorem step_self {c : Cluster} {b : Bytes} (hw : RecWF c) (hb : C16.slash ∉ b) (op : Op) :
    stepR cfg r (projB b c) b op = (projB b (stepR cfg r c b op).1, (stepR cfg r c b op).2) := by
  cases op with
  | create col quota maxCols =>
    have hget : dbGet ((projB b c).db (r b)) (C16.key b col) = dbGet (c.db (r b)) (C16.key b col) := getRec_proj (r := r) hb c col
    have hscan : dbScan ((projB b c).db (r b)) (C16.scanPrefix b) = dbScan (c.db (r b)) (C16.scanPrefix b) := by
      simp only [dbScan, projB, filter_filter, Bool.and_self]
    simp only [stepR, createOp, hget, hscan]
    cases dbGet (c.db (r b)) (C16.key b col) with
    | some _ => rfl
    | none =>
      simp only []
      split
      · rfl
      · rw [proj_setDb_put_in hb]
  | get col =>
    simp only [stepR, withColl, getRec_proj hb]
    cases hg : getRec r c b col with
    | none => rfl
    | some rec =>
      have hr := (hw.fields r hb hg).1
      simp only [getBody]
      congr 2
      exact map_congr_left fun sid _ => by rw [contents_proj c hr]
  | search col q limit offset =>
    simp only [stepR, withColl, getRec_proj hb]
    cases hg : getRec r c b col with
    | none => rfl
    | some rec =>
      have hr := (hw.fields r hb hg).1
      simp only [searchBody, gather_proj c hr]
  | update col req =>
    simp only [stepR, withColl, getRec_proj hb]
    cases hg : getRec r c b col with
    | none => rfl
    | some rec =>
      have hr := (hw.fields r hb hg).1
      simp only [updateBody, gather_proj c hr]
      rw [proj_applyWrites_in c _ (fun w hw' => by rw [fanWrites_user r rec _ w hw', hr])]
  | delete col ids =>
    simp only [stepR, withColl, getRec_proj hb]
    cases hg : getRec r c b col with
    | none => rfl
    | some rec =>
      have hr := (hw.fields r hb hg).1
      simp only [deleteBody, gather_proj c hr]
      rw [proj_applyWrites_in c _ (fun w hw' => by rw [fanWrites_user r rec _ w hw', hr])]
  | insert col pts mk =>
    simp only [stepR, withColl, getRec_proj hb]
    cases hg : getRec r c b col with
    | none => rfl
    | some rec =>
      have hr := (hw.fields r hb hg).1
      subst hr
      have hput : ∀ k, projB rec.user (putRec r c (withCreated rec mk k)) = putRec r (projB rec.user c) (withCreated rec mk k) :=
        fun k => proj_setDb_put_in hb c _ _ _
      have hc : ∀ sid, contents r (projB rec.user c) rec sid = contents r c rec sid := fun sid => contents_proj c rfl sid
      simp only [insertBody, infos_proj cfg c (rec := rec) rfl, hc]
      split
      · rfl
      · split
        · rename_i as k _
          rw [proj_applyWrites_in _ _ (fun w hw' => by obtain ⟨a, _, rfl⟩ := mem_map.mp hw'; rfl)]
          congr 2
          split
          · rfl
          · exact (hput k).symm
        · rename_i k _
          congr 1
          split
          · rfl
          · exact (hput k).symm
        · rename_i k _
          congr 1
          split
          · rfl
          · exact (hput k).symm
  | drop col =>
    simp only [stepR, withColl, getRec_proj hb]
    cases hg : getRec r c b col with
    | none => rfl
    | some rec =>
      have hr := (hw.fields r hb hg).1
      subst hr
      simp only [dropBody]
      refine Prod.ext ?_ ?_
      · refine Cluster.ext' ?_ ?_
        · show (setDb (projB rec.user c) (r rec.user) (dbErase ((projB rec.user c).db (r rec.user)) (C16.key rec.user rec.coll))).db =
            (projB rec.user (setDb c (r rec.user) (dbErase (c.db (r rec.user)) (C16.key rec.user rec.coll)))).db
          exact congrArg Cluster.db (proj_setDb_erase_in (b := rec.user) c (r rec.user) (C16.key rec.user rec.coll)).symm
        · funext m k
          simp only [projB]
          by_cases hk : k.user = rec.user
          · simp [hk]
          · simp [hk]
      · simp only [projB, skey, if_true]

/-- **requests of other tenants leave `b`'s part unchanged** — on every server -/
theorem step_other {c : Cluster} {a b : Bytes} (hw : RecWF c) (ha : C16.slash ∉ a) (hb : C16.slash ∉ b) (hab : a ≠ b) (op : Op) :
    projB b (stepR cfg r c a op).1 = projB b c := by
  cases op with
  | create col quota maxCols =>
    simp only [stepR, createOp]
    split
    · rfl
    · split
      · rfl
      · exact proj_setDb_put_out hb ha hab c _ col _
  | get col => simp only [stepR, withColl]; split <;> rfl
  | search col q limit offset => simp only [stepR, withColl]; split <;> rfl
  | update col req =>
    simp only [stepR, withColl]
    cases hg : getRec r c a col with
    | none => rfl
    | some rec =>
      have hr := (hw.fields r ha hg).1
      exact proj_applyWrites_out c _ (fun w hw' => by rw [fanWrites_user r rec _ w hw', hr]; exact hab)
  | delete col ids =>
    simp only [stepR, withColl]
    cases hg : getRec r c a col with
    | none => rfl
    | some rec =>
      have hr := (hw.fields r ha hg).1
      exact proj_applyWrites_out c _ (fun w hw' => by rw [fanWrites_user r rec _ w hw', hr]; exact hab)
  | insert col pts mk =>
    simp only [stepR, withColl]
    cases hg : getRec r c a col with
    | none => rfl
    | some rec =>
      have hr := (hw.fields r ha hg).1
      subst hr
      have hput : ∀ k, projB b (if k = 0 then c else putRec r c (withCreated rec mk k)) = projB b c := by
        intro k
        split
        · rfl
        · exact proj_setDb_put_out hb ha hab c _ _ _
      simp only [insertBody]
      split
      · rfl
      · split
        · rw [proj_applyWrites_out _ _ (fun w hw' => by obtain ⟨x, _, rfl⟩ := mem_map.mp hw'; exact hab)]
          exact hput _
        · exact hput _
        · exact hput _
  | drop col =>
    simp only [stepR, withColl]
    cases hg : getRec r c a col with
    | none => rfl
    | some rec =>
      have hr := (hw.fields r ha hg).1
      subst hr
      simp only [dropBody]
      refine Cluster.ext' ?_ ?_
      · show (projB b (setDb c (r rec.user) (dbErase (c.db (r rec.user)) (C16.key rec.user rec.coll)))).db = (projB b c).db
        exact congrArg Cluster.db (proj_setDb_erase_out hb ha hab c (r rec.user) rec.coll)
      · funext m k
        simp only [projB]
        by_cases hk : k.user = b
        · have hne : ¬ b = rec.user := fun e => hab e.symm
          simp [hk, hne]
        · simp [hk]

/-- records stay under their own key -/
theorem recwf_step {c : Cluster} {u : Bytes} (hw : RecWF c) (hu : C16.slash ∉ u) (op : Op) : RecWF (stepR cfg r c u op).1 := by
  have hputRec : ∀ rec' : Rec, C16.slash ∉ rec'.user → RecWF (putRec r c rec') := by
    intro rec' hs n k rec2 h
    have := dbAt_put (r := r) c rec'.user rec'.coll rec' n k
    unfold putRec at h
    rw [this] at h
    split at h
    · rename_i hc; cases h; exact ⟨hc.2, hs⟩
    · exact hw n k rec2 h
  cases op with
  | create col quota maxCols =>
    simp only [stepR, createOp]
    split
    · exact hw
    · split
      · exact hw
      · intro n k rec2 h
        rw [dbAt_put (r := r) c u col _ n k] at h
        split at h
        · rename_i hc; cases h; exact ⟨hc.2, hu⟩
        · exact hw n k rec2 h
  | get col => simp only [stepR, withColl]; split <;> exact hw
  | search col q limit offset => simp only [stepR, withColl]; split <;> exact hw
  | update col req => simp only [stepR, withColl]; split <;> exact hw
  | delete col ids => simp only [stepR, withColl]; split <;> exact hw
  | insert col pts mk =>
    simp only [stepR, withColl]
    cases hg : getRec r c u col with
    | none => exact hw
    | some rec =>
      have hs := (hw _ _ _ hg).2
      have hput : ∀ k, RecWF (if k = 0 then c else putRec r c (withCreated rec mk k)) := by
        intro k; split
        · exact hw
        · exact hputRec _ hs
      simp only [insertBody]
      split
      · exact hw
      · split
        · exact fun n k rec2 h => hput _ n k rec2 h
        · exact hput _
        · exact hput _
  | drop col =>
    simp only [stepR, withColl]
    cases hg : getRec r c u col with
    | none => exact hw
    | some rec =>
      intro n k rec2 h
      exact hw n k rec2 (dbGet_setDb_erase h)

end step

/-! ### histories -/

/-- the responses to the requests of `b`, in order -/
def respTo (b : Bytes) : List Req → List Resp → List Resp
  | q :: H, x :: R => if q.user = b then x :: respTo b H R else respTo b H R
  | _, _ => []

theorem iso_run (h : Bytes → Nat) (cfg : Cfg) (S : List Name) (b : Bytes) (hb : C16.slash ∉ b) :
    ∀ (H : List Req) (c : Cluster), RecWF c → (∀ q ∈ H, C16.slash ∉ q.user) →
      respTo b H (run h cfg (fun _ => S) c H).2 = (run h cfg (fun _ => S) (projB b c) (H.filter fun q => decide (q.user = b))).2 ∧
      projB b (run h cfg (fun _ => S) c H).1 = (run h cfg (fun _ => S) (projB b c) (H.filter fun q => decide (q.user = b))).1
  | [], _, _, _ => ⟨rfl, rfl⟩
  | q :: rest, c, hw, hu => by
    have huq := hu q mem_cons_self
    have hw' : RecWF (step h cfg (fun _ => S) c q).1 := recwf_step cfg _ hw huq q.op
    obtain ⟨ih1, ih2⟩ := iso_run h cfg S b hb rest _ hw' (fun q' hq' => hu q' (mem_cons_of_mem _ hq'))
    by_cases hq : q.user = b
    · have hs : step h cfg (fun _ => S) (projB b c) q = (projB b (step h cfg (fun _ => S) c q).1, (step h cfg (fun _ => S) c q).2) := by
        unfold step; rw [hq]; exact step_self cfg _ hw hb q.op
      simp only [run, respTo, hq, if_true, filter_cons, decide_true, hs]
      exact ⟨by rw [ih1], ih2⟩
    · have ho : projB b (step h cfg (fun _ => S) c q).1 = projB b c := step_other cfg _ hw huq hb hq q.op
      simp only [run, respTo, hq, if_false, filter_cons, decide_false, Bool.false_eq_true]
      rw [ho] at ih1 ih2
      exact ⟨ih1, ih2⟩

theorem run_length (h : Bytes → Nat) (cfg : Cfg) (servers : Name → List Name) :
    ∀ (H : List Req) (c : Cluster), (run h cfg servers c H).2.length = H.length
  | [], _ => rfl
  | q :: rest, c => by simp [run, run_length h cfg servers rest]

theorem respTo_all (b : Bytes) : ∀ (H : List Req) (R : List Resp), (∀ q ∈ H, q.user = b) → R.length = H.length → respTo b H R = R
  | [], [], _, _ => rfl
  | [], _ :: _, _, h => by simp at h
  | _ :: _, [], _, h => by simp at h
  | q :: H, x :: R, hq, hl => by
    simp only [respTo, hq q mem_cons_self, if_true]
    rw [respTo_all b H R (fun q' hq' => hq q' (mem_cons_of_mem _ hq')) (by simpa using hl)]

theorem kinv_proj {K : Bytes → Prop} {c : Cluster} (hK : KInv K c) (b : Bytes) : KInv K (projB b c) := by
  have key : ∀ n k rec, dbGet ((projB b c).db n) k = some rec → dbGet (c.db n) k = some rec := by
    intro n k rec h
    have hm := dbGet_mem h
    simp only [projB, mem_filter] at hm
    rw [← dbGet_filter_in (fun k => decide (C16.scanPrefix b <+: k)) (c.db n) hm.2]
    exact h
  exact ⟨fun n k rec h => hK.user n k rec (key n k rec h), fun n k rec h => hK.shard n k rec (key n k rec h)⟩

theorem recwf_proj {c : Cluster} (hw : RecWF c) (b : Bytes) : RecWF (projB b c) := by
  intro n k rec h
  have hm := dbGet_mem h
  simp only [projB, mem_filter] at hm
  rw [show dbGet ((projB b c).db n) k = dbGet (c.db n) k from
    dbGet_filter_in (fun k => decide (C16.scanPrefix b <+: k)) (c.db n) hm.2] at h
  exact hw n k rec h

/-- the same on the reference map: other users' requests leave `b`'s collections unchanged -/
theorem ref_other (m : Ref) {a b : Bytes} (hab : a ≠ b) (op : Op) (col : Bytes) :
    refGet (refStep m a op).1 (b, col) = refGet m (b, col) := by
  have hne : ∀ col', ¬ ((b, col) = (a, col')) := fun col' e => hab (by cases e; rfl)
  cases op <;> simp only [refStep] <;> (try split) <;> (try split) <;>
    first | rfl | (rw [refGet_put, if_neg (hne _)]) | (rw [refGet_erase, if_neg (hne _)])

end Sema.ClusterCompose
