/-
ClusterCompose — the executable `relocate` (the model's Sync) IS a cluster that represents what
C14's round leaves: existence of the `c'` of `Cluster_sync_preserves`, for every cluster with `Inv`.
-/
import SemaModel.ClusterCompose.Sync
namespace Sema.ClusterCompose
open Sema List

variable {r r' : Bytes → Name}

theorem findSome?_only {α β : Type} (f : α → Option β) (o : α) : ∀ (l : List α), (∀ a ∈ l, a ≠ o → f a = none) →
    (o ∈ l ∨ f o = none) → l.findSome? f = f o
  | [], _, h => by
    rcases h with h | h
    · cases h
    · simp [h]
  | a :: l, h1, h2 => by
    rw [findSome?_cons]
    by_cases ha : a = o
    · subst ha
      cases hf : f a with
      | some v => rfl
      | none =>
        simp only []
        have := findSome?_only f a l (fun x hx => h1 x (mem_cons_of_mem _ hx)) (Or.inr hf)
        rw [this, hf]
    · rw [h1 a mem_cons_self ha]
      simp only []
      apply findSome?_only f o l (fun x hx => h1 x (mem_cons_of_mem _ hx))
      rcases h2 with h2 | h2
      · rcases mem_cons.mp h2 with e | e
        · exact absurd e.symm ha
        · exact Or.inl e
      · exact Or.inr h2

theorem find?_flatMap_only {α β : Type} (f : α → List β) (p : β → Bool) (o : α) : ∀ (l : List α),
    (∀ a ∈ l, a ≠ o → ∀ x ∈ f a, p x = false) → (o ∈ l ∨ (f o).find? p = none) → (l.flatMap f).find? p = (f o).find? p
  | [], _, h => by
    rcases h with h | h
    · cases h
    · simp [h]
  | a :: l, h1, h2 => by
    rw [flatMap_cons, find?_append]
    by_cases ha : a = o
    · subst ha
      cases hf : (f a).find? p with
      | some v => rfl
      | none =>
        simp only [Option.none_or]
        rw [find?_flatMap_only f p a l (fun x hx => h1 x (mem_cons_of_mem _ hx)) (Or.inr hf), hf]
    · have : (f a).find? p = none := by
        rw [find?_eq_none]; intro x hx; simp [h1 a mem_cons_self ha x hx]
      rw [this]
      simp only [Option.none_or]
      apply find?_flatMap_only f p o l (fun x hx => h1 x (mem_cons_of_mem _ hx))
      rcases h2 with h2 | h2
      · rcases mem_cons.mp h2 with e | e
        · exact absurd e.symm ha
        · exact Or.inl e
      · exact Or.inr h2

theorem nodup_flatMap_of {α β : Type} (f : α → List β) : ∀ (l : List α), l.Nodup → (∀ a ∈ l, (f a).Nodup) →
    (∀ a ∈ l, ∀ b ∈ l, a ≠ b → ∀ x ∈ f a, x ∉ f b) → (l.flatMap f).Nodup
  | [], _, _, _ => by simp
  | a :: l, hn, h1, h2 => by
    rw [nodup_cons] at hn
    rw [flatMap_cons, nodup_append]
    refine ⟨h1 a mem_cons_self, nodup_flatMap_of f l hn.2 (fun x hx => h1 x (mem_cons_of_mem _ hx))
      (fun x hx y hy => h2 x (mem_cons_of_mem _ hx) y (mem_cons_of_mem _ hy)), ?_⟩
    intro x hx y hy e
    subst e
    obtain ⟨b, hb, hxb⟩ := mem_flatMap.mp hy
    have hab : a ≠ b := fun e => hn.1 (e ▸ hb)
    exact h2 a mem_cons_self b (mem_cons_of_mem _ hb) hab x hx hxb

theorem find?_filter_keep {α : Type} (p q : α → Bool) (l : List α) (h : ∀ e ∈ l, p e = true → q e = true) :
    (l.filter q).find? p = l.find? p := by
  rw [find?_filter]
  apply find?_congr'
  intro e he
  by_cases hp : p e = true
  · simp [hp, h e he hp]
  · simp [hp]

theorem find?_filter_drop {α : Type} (p q : α → Bool) (l : List α) (h : ∀ e ∈ l, p e = true → q e = false) :
    (l.filter q).find? p = none := by
  rw [find?_eq_none]
  intro e he
  obtain ⟨hm, hq⟩ := mem_filter.mp he
  intro hp
  rw [h e hm hp] at hq; cases hq

/-- every server that holds a record or a shard directory is among `nodes` -/
def Holders (c : Cluster) (nodes : List Name) : Prop :=
  (∀ n k rec, dbGet (c.db n) k = some rec → n ∈ nodes) ∧ (∀ n k P, c.sh n k = some P → n ∈ nodes)

/-- an entry of a node database of a cluster with `Inv` -/
theorem entry_of_mem {c : Cluster} (hI : Inv r c) {n : Name} {e : Bytes × Rec} (he : e ∈ c.db n) :
    e.1 = C16.key e.2.user e.2.coll ∧ n = r e.2.user ∧ C16.slash ∉ e.2.user :=
  hI.recWF n e.1 e.2 (dbGet_of_mem (hI.dbNodup n) he)

theorem relocate_moved {c : Cluster} (hI : Inv r c) (r' : Bytes → Name) {nodes : List Name} (hnd : nodes.Nodup) (hh : Holders c nodes) :
    MovedTo r r' c (relocate r' nodes c) := by
  -- the keys of all node databases together are distinct
  have hall : ((nodes.flatMap c.db).map (·.1)).Nodup := by
    rw [map_flatMap]
    apply nodup_flatMap_of _ nodes hnd (fun n _ => hI.dbNodup n)
    intro n1 _ n2 _ hne k hk1 hk2
    obtain ⟨e1, he1, rfl⟩ := mem_map.mp hk1
    obtain ⟨e2, he2, hk⟩ := mem_map.mp hk2
    obtain ⟨k1, o1, s1⟩ := entry_of_mem hI he1
    obtain ⟨k2, o2, s2⟩ := entry_of_mem hI he2
    rw [k1, k2] at hk
    obtain ⟨hu, _⟩ := C16.C16_key_inj s2 s1 hk
    exact hne (by rw [o1, o2, hu])
  refine ⟨?_, ?_, ?_, ?_⟩
  · intro n k
    simp only [relocate]
    by_cases hn : n = r' (sidKey k.sid)
    · rw [if_pos hn, if_pos hn]
      apply findSome?_only (fun n' => c.sh n' k) (r (sidKey k.sid)) nodes
      · intro a _ ha
        cases h : c.sh a k with
        | none => rfl
        | some P => exact absurd (hI.shWF _ _ _ h).1 ha
      · cases h : c.sh (r (sidKey k.sid)) k with
        | none => exact Or.inr rfl
        | some P => exact Or.inl (hh.2 _ _ _ h)
    · rw [if_neg hn, if_neg hn]
  · intro n u col hu
    simp only [relocate]
    unfold dbGet
    by_cases hn : n = r' u
    · rw [if_pos hn]
      rw [find?_filter_keep _ _ _ (by
        intro e he hp
        obtain ⟨n', _, he'⟩ := mem_flatMap.mp he
        obtain ⟨k1, _, s1⟩ := entry_of_mem hI he'
        have hk : e.1 = C16.key u col := by simpa using hp
        rw [k1] at hk
        obtain ⟨hu', _⟩ := C16.C16_key_inj s1 hu hk
        simp [hu', hn])]
      congr 1
      apply find?_flatMap_only c.db (fun a => decide (a.1 = C16.key u col)) (r u) nodes
      · intro a _ ha e he
        obtain ⟨k1, o1, s1⟩ := entry_of_mem hI he
        simp only [decide_eq_false_iff_not]
        intro hk
        rw [k1] at hk
        obtain ⟨hu', _⟩ := C16.C16_key_inj s1 hu hk
        exact ha (by rw [o1, hu'])
      · cases h : (c.db (r u)).find? (fun a => decide (a.1 = C16.key u col)) with
        | none => exact Or.inr rfl
        | some e => exact Or.inl (hh.1 (r u) (C16.key u col) e.2 (by unfold dbGet; rw [h]; rfl))
    · rw [if_neg hn]
      rw [find?_filter_drop _ _ _ (by
        intro e he hp
        obtain ⟨n', _, he'⟩ := mem_flatMap.mp he
        obtain ⟨k1, _, s1⟩ := entry_of_mem hI he'
        have hk : e.1 = C16.key u col := by simpa using hp
        rw [k1] at hk
        obtain ⟨hu', _⟩ := C16.C16_key_inj s1 hu hk
        have : ¬ r' e.2.user = n := by rw [hu']; exact fun e' => hn e'.symm
        simp [this])]
      rfl
  · intro n k rec h
    have hm := dbGet_mem h
    simp only [relocate, mem_filter] at hm
    obtain ⟨n', _, he'⟩ := mem_flatMap.mp hm.1
    obtain ⟨k1, _, s1⟩ := entry_of_mem hI he'
    exact ⟨k1, s1⟩
  · intro n
    simp only [relocate]
    exact hall.sublist ((filter_sublist (l := nodes.flatMap c.db)).map _)

/-- a relocated cluster represents the placed C14 state: this is the `c'` of `Cluster_sync_preserves` -/
theorem synced_of_moved {enc : Enc} {c c' : Cluster} {cfg' : C14.Cfg Name SKey} {st : C14.St Name SKey}
    (ho : ∀ k, cfg'.owner k = r' k.user) (hf : ∀ k, cfg'.fowner k = r' (sidKey k.sid))
    (hp : C14.Placed cfg' (roOf enc r c) (foOf enc r c) st) (hm : MovedTo r r' c c') : SyncedTo enc c' st := by
  refine ⟨?_, ?_, hm.wf, hm.nodup⟩
  · intro n k
    rw [hp.1 n k, ho]
    simp only [viewRecs, roOf]
    by_cases hc : k.sid = "" ∧ C16.slash ∉ k.user
    · rw [if_pos hc, if_pos hc, hm.db n k.user k.coll hc.2]
      by_cases hn : n = r' k.user <;> simp [hn]
    · rw [if_neg hc, if_neg hc]; simp
  · intro n k
    rw [hp.2 n k, hf]
    simp only [viewFiles, foOf, hm.sh]
    by_cases hn : n = r' (sidKey k.sid) <;> simp [hn]

end Sema.ClusterCompose
