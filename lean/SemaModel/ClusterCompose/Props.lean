/-
ClusterCompose — end-to-end statements about the cluster API (cluster/actions.go), obtained by
composing C13 (routing), C15 (placement, quotas), C16 (tenant keys), C17 (fan-out, merge) and C14
(start-up rebalancing).  Property theorems only; model: `Model.lean`; the statements' vocabulary
(`KInv`, `OpIn`, `SameSet`, `Inv`, `Rel`, `StepOK` …) is defined in `Lemmas.lean` / `Refine.lean`.
Notes: notes/ClusterCompose.md.
-/
import SemaModel.ClusterCompose.Lemmas
namespace Sema.ClusterCompose
open Sema List

/-! ## 1. the entry node does not matter -/

/-- **Cluster_entry_independent.**  Every node is configured with a server list that has the same
MEMBERS as `S` (any order, any multiplicity).  Then for every history of API calls, the responses
and the resulting cluster state are the same whichever node each request enters: the run equals the
run in which every request is routed with `S` itself, hence any two assignments of entry nodes to
the same calls give the same result.
Hypotheses: `NoTies` for the keys that are routed (`K`: the user ids of the requests, the shard ids
the requests draw, the user and shard ids of the records already stored — `KInv`, `HistIn`); this is
where `C13_owner_set` is used.  No hypothesis on the state beyond `KInv`. -/
theorem Cluster_entry_independent (h : Bytes → Nat) (cfg : Cfg) (servers : Name → List Name) (S : List Name)
    (K : Bytes → Prop) (hS : ∀ n, SameSet (servers n) S) (hnt : ∀ key, K key → C13.NoTies h key S)
    (c : Cluster) (hK : KInv K c) (H H' : List Req) (hin : HistIn K H) (hin' : HistIn K H')
    (hsame : SameCalls H H') :
    run h cfg servers c H = run h cfg (fun _ => S) c H ∧ run h cfg servers c H = run h cfg servers c H' := by
  have e1 := run_canonical h cfg servers S hS hnt H c hK hin
  have e2 := run_canonical h cfg servers S hS hnt H' c hK hin'
  exact ⟨e1, by rw [e1, e2, run_const_entry h cfg S hsame c]⟩

end Sema.ClusterCompose
