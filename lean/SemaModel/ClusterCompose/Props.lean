/-
ClusterCompose — end-to-end statements about the cluster API (cluster/actions.go), obtained by
composing C13 (routing), C15 (placement, quotas), C16 (tenant keys), C17 (fan-out, merge) and C14
(start-up rebalancing).  Property theorems only; model: `Model.lean`; the statements' vocabulary
(`KInv`, `OpIn`, `SameSet`, `Inv`, `Rel`, `StepOK` …) is defined in `Lemmas.lean` / `Refine.lean`.
Notes: notes/ClusterCompose.md.
-/
import SemaModel.ClusterCompose.Relocate
import SemaModel.ClusterCompose.Listed
namespace Sema.ClusterCompose
open Sema List

/-! ## 1. the entry node does not matter -/

/-- **Cluster_entry_independent.**  Every node is configured with a server list that has the same
MEMBERS as `S` (any order, any multiplicity).  Then for every history of API calls, the responses
and the resulting cluster state are the same whichever node each request enters: the run equals the
run in which every request is routed with `S` itself, hence any two assignments of entry nodes to
the same calls give the same result.
Hypotheses: `NoTies` for the keys that are routed (`K`: the user ids of the requests, the shard ids
the requests draw, the user and shard ids of the records already stored — `KInv`, `HistIn`); this is
where `C13_owner_set` is used.  No hypothesis on the state beyond `KInv`. -/
theorem Cluster_entry_independent (h : Bytes → Nat) (cfg : Cfg) (servers : Name → List Name) (S : List Name)
    (K : Bytes → Prop) (hS : ∀ n, SameSet (servers n) S) (hnt : ∀ key, K key → C13.NoTies h key S)
    (c : Cluster) (hK : KInv K c) (H H' : List Req) (hin : HistIn K H) (hin' : HistIn K H')
    (hsame : SameCalls H H') :
    run h cfg servers c H = run h cfg (fun _ => S) c H ∧ run h cfg servers c H = run h cfg servers c H' := by
  have e1 := run_canonical h cfg servers S hS hnt H c hK hin
  have e2 := run_canonical h cfg servers S hS hnt H' c hK hin'
  exact ⟨e1, by rw [e1, e2, run_const_entry h cfg S hsame c]⟩

/-! ## 2. the cluster refines a plain map of collections

`Inv r c` (Refine.lean): every record sits under its own key at `owner(user)`; every shard directory
sits at `owner(shard id)` and is listed in the record of its collection; the shard ids of a record
are distinct; point ids are unique per collection (C17's `Uniq` of the gathered collection).
`Rel r m c`: read through the routing function, the cluster IS the reference map `m` (same
collections, same quota, the listed shards together hold exactly the collection's points, the
per-user collection count agrees).  `HistOK`: user ids without '/', and every insert satisfies
`InsertOK` (ids distinct within the batch and new to the collection — the API's assumption —, C15's
`fits`, fresh shard uuids).  `Agree`: the cluster's response equals the reference map's wherever the
reference map determines it. -/

/-- **Cluster_refines_collection.**  For every history of API calls entered through ANY nodes
(all configured with the members of `S`, `NoTies` on the routed keys): the refinement invariant and
the refinement relation hold again afterwards, and every response the reference map determines —
created / exists / quota reached, not found, the failed lists of update and delete (C17_failed_*:
exactly the requested ids the collection does not hold, "not found"), an insert that leaves no
failed range, point quota reached — is the cluster's response. -/
theorem Cluster_refines_collection (h : Bytes → Nat) (cfg : Cfg) (servers : Name → List Name) (S : List Name)
    (K : Bytes → Prop) (hS : ∀ n, SameSet (servers n) S) (hnt : ∀ key, K key → C13.NoTies h key S)
    (c : Cluster) (m : Ref) (hK : KInv K c) (hI : Inv (routeOf h S) c) (hR : Rel (routeOf h S) m c)
    (H : List Req) (hin : HistIn K H) (hok : HistOK cfg (routeOf h S) c m H) :
    Inv (routeOf h S) (run h cfg servers c H).1 ∧ Rel (routeOf h S) (refRun m H).1 (run h cfg servers c H).1 ∧
      Agree (refRun m H).2 (run h cfg servers c H).2 := by
  rw [run_canonical h cfg servers S hS hnt H c hK hin]
  exact run_refines h cfg S H c m hI hR hok

/-- the empty cluster refines the empty map: histories may start there -/
theorem Cluster_refines_init (r : Bytes → Name) (K : Bytes → Prop) :
    Inv r Cluster.empty ∧ Rel r [] Cluster.empty ∧ KInv K Cluster.empty :=
  ⟨inv_empty r, rel_empty r, ⟨fun _ _ _ h => by simp [Cluster.empty, dbGet] at h, fun _ _ _ h => by simp [Cluster.empty, dbGet] at h⟩⟩

/-- **What the invariant says about one collection** `(u, col) ↦ rc` of the reference map, in any
state with `Inv` and `Rel` (so: after any history): the record is at `owner(u)` and nowhere else,
with the plan's quota; its shard ids are distinct; the points of the collection are exactly what the
listed shards hold at `owner(shard id)`; a point id is held by ONE listed shard, once; every shard
directory of the collection on ANY server is listed and sits at the owner of its id; the counts
`GetShardsInfo` reports add up to the size of the collection (C15_count's identity, here against the
real shard contents). -/
theorem Cluster_refines_readout (cfg : Cfg) (r : Bytes → Name) {c : Cluster} {m : Ref} (hI : Inv r c) (hR : Rel r m c)
    {u col : Bytes} {rc : RColl} (hm : refGet m (u, col) = some rc) :
    ∃ rec, dbGet (c.db (r u)) (C16.key u col) = some rec ∧ rec.user = u ∧ rec.coll = col ∧ rec.quota = rc.quota ∧
      rec.shards.Nodup ∧
      (rec.shards.flatMap fun sid => (c.sh (r (sidKey sid)) ⟨u, col, sid⟩).getD []).Perm rc.pts ∧
      (∀ sid ∈ rec.shards, ∀ sid' ∈ rec.shards, ∀ i, held ((c.sh (r (sidKey sid)) ⟨u, col, sid⟩).getD []) i = true →
        held ((c.sh (r (sidKey sid')) ⟨u, col, sid'⟩).getD []) i = true → sid = sid') ∧
      ((rec.shards.flatMap fun sid => ((c.sh (r (sidKey sid)) ⟨u, col, sid⟩).getD []).map (·.1)).Nodup) ∧
      (∀ n sid P, c.sh n ⟨u, col, sid⟩ = some P → n = r (sidKey sid) ∧ sid ∈ rec.shards) ∧
      (∀ n rec', dbGet (c.db n) (C16.key u col) = some rec' → n = r u ∧ rec' = rec) ∧
      C15.total (infos cfg r c rec) = (rc.pts.length : Int) :=
  readout cfg hI hR hm

/-- **Search** (C17_search with shards that all answer): in any state with `Inv` and `Rel`, a search
in a collection of the reference map returns hits — never "unavailable" —, at most `limit`, no point
twice, every hit a point of the reference collection, best score first.  `RankOK`: each shard's own
ranking consists of its points, once each, best first (C03–C06). -/
theorem Cluster_refines_search (cfg : Cfg) (r : Bytes → Name) {c : Cluster} {m : Ref} (hI : Inv r c) (hR : Rel r m c)
    {u col : Bytes} {rc : RColl} (hm : refGet m (u, col) = some rc) (q limit offset : Nat) (hrank : RankOK cfg q) :
    ∃ res, (stepR cfg r c u (.search col q limit offset)).2 = .hits (some res) ∧ res.length ≤ limit ∧
      (res.map (·.id)).Nodup ∧ (∀ x ∈ res, held rc.pts x.id = true) ∧ res.Pairwise (fun x y => C17.leScore x y = true) :=
  search_readout cfg hI hR hm q limit offset hrank

/-- **Per-shard limit** (C15_limits as an invariant): if no shard directory holds more than
`MaxShardPointCount` points, none does after any request (`0 ≤ MaxShardPointCount`: a touched shard
may be empty). -/
theorem Cluster_refines_limits (cfg : Cfg) (r : Bytes → Name) {c : Cluster} {m : Ref} {u : Bytes} {op : Op}
    (hI : Inv r c) (hR : Rel r m c) (hok : StepOK cfg r c m u op) (hC : CountInv cfg c) (h0 : 0 ≤ cfg.maxC) :
    CountInv cfg (stepR cfg r c u op).1 :=
  step_count cfg hI hR hok hC h0

/-- **The record lists exactly the shards that exist** — second half (the first half is in
`Cluster_refines_readout`: every shard directory is listed): every shard id a record lists has its
directory at the owner of the id, after any request.  Under `fits` a shard is created only when a
point is waiting for it (`distribute_created_assigned`), so the creating insert also writes it. -/
theorem Cluster_refines_listed (cfg : Cfg) (r : Bytes → Name) {c : Cluster} {m : Ref} {u : Bytes} {op : Op}
    (hI : Inv r c) (hR : Rel r m c) (hok : StepOK cfg r c m u op) (hL : Listed r c) : Listed r (stepR cfg r c u op).1 :=
  step_listed cfg hI hR hok hL

/-- both side invariants along a whole history (with `Cluster_refines_collection`) -/
theorem Cluster_refines_side (h : Bytes → Nat) (cfg : Cfg) (S : List Name) (h0 : 0 ≤ cfg.maxC) :
    ∀ (H : List Req) (c : Cluster) (m : Ref), Inv (routeOf h S) c → Rel (routeOf h S) m c → HistOK cfg (routeOf h S) c m H →
      CountInv cfg c → Listed (routeOf h S) c →
      CountInv cfg (run h cfg (fun _ => S) c H).1 ∧ Listed (routeOf h S) (run h cfg (fun _ => S) c H).1
  | [], _, _, _, _, _, hC, hL => ⟨hC, hL⟩
  | q :: rest, c, m, hI, hR, hok, hC, hL => by
    obtain ⟨i1, i2, _⟩ := step_refines cfg hI hR hok.1
    exact Cluster_refines_side h cfg S h0 rest _ _ i1 i2 hok.2 (step_count cfg hI hR hok.1 hC h0) (step_listed cfg hI hR hok.1 hL)

/-! ### non-vacuity: three servers, a hand-made hash without ties, two tenants -/

private def b (n : Nat) : Bytes := [BitVec.ofNat 8 n]
/-- score of `key ++ server` = sum of all bytes mod 5: for one key the one-byte server names
1, 2, 3, 4 get different scores, and different keys have different owners -/
def exHash : Bytes → Nat := fun x => (x.map (·.toNat)).sum % 5
def exS : List Name := [b 1, b 2, b 3]
/-- node 1 lists the servers in order, node 2 rotated, node 3 in another order with a repetition -/
def exServers (n : Name) : List Name := if n = b 1 then [b 1, b 2, b 3] else if n = b 2 then [b 3, b 1, b 2] else [b 2, b 3, b 1, b 1]
def exCfg : Cfg :=
  { maxS := 100, maxC := 2, maxLimit := 75, psz := fun _ => 10, fsize := fun P => 10 * P.length,
    rank := fun _ P => C17.sortBy C17.leScore (P.map fun p => ⟨p.1, p.2, []⟩), heur := fun l n => l / n + 10 }
/-- the uuids drawn for new shards: "z", "zz", "zzz", … -/
def exMk : Nat → String := fun i => String.ofList (List.replicate (i + 1) 'z')
theorem exMk_inj : ∀ i j, exMk i = exMk j → i = j := by
  intro i j h
  have := congrArg String.length h
  simpa [exMk] using this
def uA : Bytes := b 68
def uB : Bytes := b 67
def uC : Bytes := b 66
def cX : Bytes := [120#8, 121#8, 122#8]
/-- A creates `xyz`, inserts three points (two shards are created: the count limit is 2), B creates a
collection of the same name, A updates one point and a missing one, searches, deletes a point, reads
the collection; C creates a collection -/
def exHist (e1 e2 e3 : Name) : List Req :=
  [⟨e1, uA, .create cX 10 2⟩, ⟨e2, uA, .insert cX [(3, 30), (1, 10), (2, 20)] exMk⟩, ⟨e3, uB, .create cX 10 2⟩,
   ⟨e1, uA, .update cX [(2, 21), (9, 90)]⟩, ⟨e2, uA, .search cX 0 2 0⟩, ⟨e3, uA, .delete cX [1]⟩, ⟨e1, uA, .get cX⟩, ⟨e2, uC, .create cX 5 1⟩]

-- the routed keys get no ties, the lists have the members of exS
example : ∀ key ∈ [uA, uB, uC, sidKey "z", sidKey "zz", sidKey "zzz"], C13.NoTies exHash key (exS ++ [b 4]) := by decide
example : ∀ n ∈ exS, ∀ a, a ∈ exServers n ↔ a ∈ exS := by
  intro n hn a
  have : ∀ n ∈ exS, (exServers n).all (fun a => exS.contains a) = true ∧ exS.all (fun a => (exServers n).contains a) = true := by decide
  obtain ⟨h1, h2⟩ := this n hn
  simp only [all_eq_true, contains_iff_mem] at h1 h2
  exact ⟨h1 a, h2 a⟩
-- the owners differ: user A at server 2, B at server 3, C at server 1, the two shards at servers 3 and 1
example : (routeOf exHash exS uA, routeOf exHash exS uB, routeOf exHash exS uC, routeOf exHash exS (sidKey "z"), routeOf exHash exS (sidKey "zz")) =
    (b 2, b 3, b 1, b 3, b 1) := by decide
-- the responses (through nodes 1, 2, 3) …
example : (run exHash exCfg exServers Cluster.empty (exHist (b 1) (b 2) (b 3))).2 =
    [.ok, .inserted [], .ok, .failed [(9, .notFound)], .hits (some [⟨3, 30, []⟩, ⟨2, 21, []⟩]), .failed [], .info ["z", "zz"] [1, 1], .ok] := by decide
-- … are the same through any other choice of entry nodes, and so is the state (read at every server)
example : (run exHash exCfg exServers Cluster.empty (exHist (b 3) (b 3) (b 1))).2 =
    (run exHash exCfg exServers Cluster.empty (exHist (b 1) (b 2) (b 3))).2 := by decide
example : ∀ n ∈ exS, ∀ sid ∈ ["z", "zz"],
    (run exHash exCfg exServers Cluster.empty (exHist (b 3) (b 3) (b 1))).1.sh n ⟨uA, cX, sid⟩ =
    (run exHash exCfg exServers Cluster.empty (exHist (b 1) (b 2) (b 3))).1.sh n ⟨uA, cX, sid⟩ := by decide
-- where things ended up: A's record at server 2 (only), shard "z" = {2} at server 3, shard "zz" = {3} at server 1, nothing elsewhere
example : let c := (run exHash exCfg exServers Cluster.empty (exHist (b 1) (b 2) (b 3))).1
    c.db (b 2) = [(C16.key uA cX, ⟨uA, cX, ["z", "zz"], 10⟩)] ∧ c.db (b 3) = [(C16.key uB cX, ⟨uB, cX, [], 10⟩)] ∧
    c.db (b 1) = [(C16.key uC cX, ⟨uC, cX, [], 5⟩)] ∧
    c.sh (b 3) ⟨uA, cX, "z"⟩ = some [(2, 21)] ∧ c.sh (b 1) ⟨uA, cX, "zz"⟩ = some [(3, 30)] ∧
    c.sh (b 1) ⟨uA, cX, "z"⟩ = none ∧ c.sh (b 2) ⟨uA, cX, "z"⟩ = none ∧ c.sh (b 2) ⟨uA, cX, "zz"⟩ = none ∧ c.sh (b 3) ⟨uA, cX, "zz"⟩ = none := by decide
-- the reference map run on the same calls
example : (refRun [] (exHist (b 1) (b 2) (b 3))).1 = [((uB, cX), ⟨10, []⟩), ((uA, cX), ⟨10, [(3, 30), (2, 21)]⟩), ((uC, cX), ⟨5, []⟩)] := by decide
example : (refRun [] (exHist (b 1) (b 2) (b 3))).2 =
    [some .ok, some (.inserted []), some .ok, some (.failed [(9, .notFound)]), none, some (.failed []), none, some .ok] := by decide
-- the insert of the history satisfies InsertOK (against the empty collection it meets)
example : InsertOK exCfg ⟨10, []⟩ ⟨uA, cX, [], 10⟩ [(3, 30), (1, 10), (2, 20)] exMk :=
  ⟨by decide, by decide, ⟨by decide, by decide⟩, exMk_inj, by intro i; simp⟩
-- quotas: a fourth collection-less user plan of 1 collection refuses the second; the point quota refuses an over-full batch
example : (run exHash exCfg exServers Cluster.empty
    [⟨b 1, uA, .create cX 2 1⟩, ⟨b 2, uA, .create (b 7) 2 1⟩, ⟨b 3, uA, .insert cX [(1, 1), (2, 2), (3, 3)] exMk⟩, ⟨b 2, uA, .create cX 2 1⟩]).2 =
    [.ok, .quota, .quota, .exists_] := by decide

/-! ## 3. tenants are isolated on the multi-node state

`projB b c`: everything of the cluster that belongs to tenant `b` — on every server the records
under the scan prefix `b/` and the shard directories of `b`'s collections.  `RecWF`: records are
stored under their own key with a delimiter-free user id (an invariant of every history, part of
`Inv`).  C16's `C16_key_inj` / `C16_prefix` are what separates the tenants; here they are applied to
every node database of the cluster at once. -/

/-- **Cluster_tenant_isolation.**  For every history of API calls of arbitrarily many users (ids
without '/'), entered through any nodes, and every tenant `b`:
(1) the responses `b` receives are exactly those of running `b`'s own requests alone — on `b`'s
    part of the cluster, and (3) also on the whole initial cluster (the others' requests removed);
(2) `b`'s part of the final cluster is the result of `b`'s own requests on `b`'s part;
(4) on the reference map a request of another user leaves every collection of `b` as it was.
No `Inv`, no `HistOK` needed: isolation does not depend on unique point ids or `fits`. -/
theorem Cluster_tenant_isolation (h : Bytes → Nat) (cfg : Cfg) (servers : Name → List Name) (S : List Name)
    (K : Bytes → Prop) (hS : ∀ n, SameSet (servers n) S) (hnt : ∀ key, K key → C13.NoTies h key S)
    (c : Cluster) (hK : KInv K c) (hw : RecWF c) (H : List Req) (hin : HistIn K H)
    (hu : ∀ q ∈ H, C16.slash ∉ q.user) (b : Bytes) (hb : C16.slash ∉ b) :
    respTo b H (run h cfg servers c H).2 = (run h cfg servers (projB b c) (H.filter fun q => decide (q.user = b))).2 ∧
    projB b (run h cfg servers c H).1 = (run h cfg servers (projB b c) (H.filter fun q => decide (q.user = b))).1 ∧
    respTo b H (run h cfg servers c H).2 = (run h cfg servers c (H.filter fun q => decide (q.user = b))).2 ∧
    (∀ (m : Ref) (a : Bytes) (op : Op) (col : Bytes), a ≠ b → refGet (refStep m a op).1 (b, col) = refGet m (b, col)) := by
  have hinb : HistIn K (H.filter fun q => decide (q.user = b)) := fun q hq => hin q (mem_filter.mp hq).1
  have hub : ∀ q ∈ H.filter (fun q => decide (q.user = b)), C16.slash ∉ q.user := fun q hq => hu q (mem_filter.mp hq).1
  rw [run_canonical h cfg servers S hS hnt H c hK hin,
    run_canonical h cfg servers S hS hnt _ (projB b c) (kinv_proj hK b) hinb,
    run_canonical h cfg servers S hS hnt _ c hK hinb]
  obtain ⟨h1, h2⟩ := iso_run h cfg S b hb H c hw hu
  obtain ⟨h3, _⟩ := iso_run h cfg S b hb _ c hw hub
  rw [filter_filter, respTo_all b _ _ (fun q hq => by simpa using (mem_filter.mp hq).2) (run_length h cfg _ _ _)] at h3
  simp only [Bool.and_self] at h3
  exact ⟨h1, h2, h1.trans h3.symm, fun m a op col hab => ref_other m hab op col⟩

-- non-vacuity: in the history above B's request is the third one; B's answer and B's part do not depend on the others' requests
example : respTo uB (exHist (b 1) (b 2) (b 3)) (run exHash exCfg exServers Cluster.empty (exHist (b 1) (b 2) (b 3))).2 = [.ok] ∧
    (run exHash exCfg exServers Cluster.empty ((exHist (b 1) (b 2) (b 3)).filter fun q => decide (q.user = uB))).2 = [.ok] := by decide
example : C16.slash ∉ uA ∧ C16.slash ∉ uB ∧ RecWF Cluster.empty :=
  ⟨by decide, by decide, fun _ _ _ h => by simp [Cluster.empty, dbGet] at h⟩
-- A's answers with B's request removed are A's answers in the full history
example : respTo uA (exHist (b 1) (b 2) (b 3)) (run exHash exCfg exServers Cluster.empty (exHist (b 1) (b 2) (b 3))).2 =
    (run exHash exCfg exServers Cluster.empty ((exHist (b 1) (b 2) (b 3)).filter fun q => decide (q.user = uA))).2 := by decide

/-! ## 4. a change of the server list followed by a completed `Sync` round

The cluster at rest, seen by C14: `syncView enc c` (per node and key the bytes of the record / of the
shard file; `enc`: how records and shard contents are written, any injective encoding with non-empty
shard files — `EncOK`; `stdEnc_ok` is one).  `syncCfg h S' …`: C14's configuration whose routing is
C13's `owner` over the NEW list `S'`, every node started, truncating receiver.  `C14.round … order`:
every node of `order` runs `Sync` once, no failure.  `SyncedTo enc c' st`: the cluster `c'`
represents the C14 state `st` (same bytes per node and key; node databases as lists with distinct,
well-formed keys). -/

/-- **Cluster_sync_preserves.**  Let the cluster refine `m` under the old list `S` (`Inv`, `Rel` —
e.g. after any history, Section 2).  The list changes to `S'`; every node that holds something runs
`Sync` (`order`), the lists `nodes / rkeys / fkeys` cover what exists (`C14.Covers`), no client
request runs meanwhile, no failure.  Then, by `C14_converges` with the routing instantiated by C13's
`owner` for `S'`:
* no `Sync` fails, and the result `c'` satisfies `Inv` and `Rel` for the routing of the NEW list with
  the SAME reference map — so Sections 1–3 apply again with `S'`: every point of the reference map
  is readable (update / delete / search / get answer as the reference map says) through any node
  configured with the members of `S'`;
* `c'` is `c` relocated (`MovedTo`): every record / shard directory sits at its new owner with the
  content it had at its old owner, and nowhere else;
* minimal disruption at the data level: whatever keeps its owner is, on every server, exactly as
  before — nothing but the records / shards whose owner changed was moved. -/
theorem Cluster_sync_preserves (h : Bytes → Nat) (S S' : List Name) (enc : Enc) (henc : EncOK enc)
    (cs : Nat) (hcs : 0 < cs) (sum : C14.Content → Nat) (hsum : ∀ a b, sum a = sum b → a = b) (hsum0 : sum [] ≠ 0)
    {c : Cluster} {m : Ref} (hI : Inv (routeOf h S) c) (hR : Rel (routeOf h S) m c)
    (nodes : List Name) (rkeys fkeys : List SKey) (order : List Name)
    (hcov : C14.Covers (syncCfg h S' (fun _ => true) cs sum) (roOf enc (routeOf h S) c) (foOf enc (routeOf h S) c) nodes rkeys fkeys)
    (hall : ∀ n k, ((syncView enc c).recs n k).isSome ∨ ((syncView enc c).files n k).isSome → n ∈ order)
    (c' : Cluster)
    (hs : SyncedTo enc c' (C14.round (syncCfg h S' (fun _ => true) cs sum) nodes rkeys fkeys order (syncView enc c))) :
    (∀ n ∈ order, (C14.round (syncCfg h S' (fun _ => true) cs sum) nodes rkeys fkeys order (syncView enc c)).failed n = false) ∧
    Inv (routeOf h S') c' ∧ Rel (routeOf h S') m c' ∧ MovedTo (routeOf h S) (routeOf h S') c c' ∧
    (∀ k : SKey, routeOf h S' (sidKey k.sid) = routeOf h S (sidKey k.sid) → ∀ n, c'.sh n k = c.sh n k) ∧
    (∀ u col, C16.slash ∉ u → routeOf h S' u = routeOf h S u → ∀ n, dbGet (c'.db n) (C16.key u col) = dbGet (c.db n) (C16.key u col)) := by
  have hconv := C14.C14_converges (syncCfg h S' (fun _ => true) cs sum) ⟨hsum, hsum0⟩ hcs rfl
  obtain ⟨hp, hnf⟩ := hconv (roOf enc (routeOf h S) c) (foOf enc (routeOf h S) c) nodes rkeys fkeys order (syncView enc c) (syncView enc c)
    (by
      intro k v hk
      simp only [foOf, viewFiles] at hk
      cases hsh : c.sh (routeOf h S (sidKey k.sid)) k with
      | none => rw [hsh] at hk; cases hk
      | some P => rw [hsh] at hk; cases hk; exact henc.ptsNe P)
    (fun _ _ => rfl) hcov (init_of_inv enc hI _ (fun _ => rfl)) .init (fun _ _ => rfl) hall
  have hm := movedTo_of_placed (r := routeOf h S) (r' := routeOf h S') henc (fun _ => rfl) (fun _ => rfl) hp hs
  obtain ⟨i1, i2⟩ := moved_refines hI hR hm
  obtain ⟨m1, m2⟩ := moved_minimal hI hm
  exact ⟨hnf, i1, i2, hm, m1, m2⟩

/-- **such a `c'` exists, and the model's `relocate` is one**: for every cluster with `Inv`, the
relocation under the new routing (what the driver's Sync computes) represents exactly the state
C14's failure-free round leaves (`nodes` duplicate-free and containing every server that holds
something).  So `Cluster_sync_preserves` is a statement about `relocate … c`, for every `c`. -/
theorem Cluster_sync_exists (h : Bytes → Nat) (S S' : List Name) (enc : Enc) (henc : EncOK enc)
    (cs : Nat) (hcs : 0 < cs) (sum : C14.Content → Nat) (hsum : ∀ a b, sum a = sum b → a = b) (hsum0 : sum [] ≠ 0)
    {c : Cluster} (hI : Inv (routeOf h S) c)
    (nodes : List Name) (rkeys fkeys : List SKey) (order : List Name) (hnd : nodes.Nodup) (hh : Holders c nodes)
    (hcov : C14.Covers (syncCfg h S' (fun _ => true) cs sum) (roOf enc (routeOf h S) c) (foOf enc (routeOf h S) c) nodes rkeys fkeys)
    (hall : ∀ n k, ((syncView enc c).recs n k).isSome ∨ ((syncView enc c).files n k).isSome → n ∈ order) :
    SyncedTo enc (relocate (routeOf h S') nodes c)
      (C14.round (syncCfg h S' (fun _ => true) cs sum) nodes rkeys fkeys order (syncView enc c)) := by
  have hconv := C14.C14_converges (syncCfg h S' (fun _ => true) cs sum) ⟨hsum, hsum0⟩ hcs rfl
  obtain ⟨hp, _⟩ := hconv (roOf enc (routeOf h S) c) (foOf enc (routeOf h S) c) nodes rkeys fkeys order (syncView enc c) (syncView enc c)
    (by
      intro k v hk
      simp only [foOf, viewFiles] at hk
      cases hsh : c.sh (routeOf h S (sidKey k.sid)) k with
      | none => rw [hsh] at hk; cases hk
      | some P => rw [hsh] at hk; cases hk; exact henc.ptsNe P)
    (fun _ _ => rfl) hcov (init_of_inv enc hI _ (fun _ => rfl)) .init (fun _ _ => rfl) hall
  exact synced_of_moved (r := routeOf h S) (r' := routeOf h S') (fun _ => rfl) (fun _ => rfl) hp (relocate_moved hI _ hnd hh)

/-- the side invariants survive the relocation too -/
theorem Cluster_sync_side (cfg : Cfg) {r r' : Bytes → Name} {c c' : Cluster} (hm : MovedTo r r' c c')
    (hI : Inv r c) (hC : CountInv cfg c) (hL : Listed r c) : CountInv cfg c' ∧ Listed r' c' := by
  constructor
  · intro n k P h
    rw [hm.sh] at h
    split at h
    · exact hC _ _ _ h
    · cases h
  · intro n k rec h sid hs
    obtain ⟨hk, hsl⟩ := hm.wf n k rec h
    rw [hk, hm.db n _ _ hsl] at h
    split at h
    · rw [hm.sh]
      simp only [skey, if_true]
      exact hL _ _ _ h sid hs
    · cases h

/-- which owners change (C13_add): after a server `x` was ADDED, every shard directory of the
synced cluster is on `x` or where it was; … -/
theorem Cluster_sync_add (h : Bytes → Nat) {S S' : List Name} (x : Name) (p : S'.Perm (x :: S))
    {c c' : Cluster} (hm : MovedTo (routeOf h S) (routeOf h S') c c')
    (hnt : ∀ n k P, c.sh n k = some P → C13.NoTies h (sidKey k.sid) S') :
    ∀ n k P, c'.sh n k = some P → n = x ∨ c.sh n k = some P := by
  intro n k P hc'
  rw [hm.sh] at hc'
  by_cases hn : n = routeOf h S' (sidKey k.sid)
  · rw [if_pos hn] at hc'
    unfold routeOf at hn
    rcases C13.C13_add h (sidKey k.sid) x (hnt _ _ _ hc') p with e | e
    · left; rw [hn, e]; rfl
    · right
      have : n = routeOf h S (sidKey k.sid) := by rw [hn, e]; rfl
      rw [this]; exact hc'
  · rw [if_neg hn] at hc'; cases hc'

/-- … (C13_remove) after a server `x` was REMOVED, every shard directory that was not on `x` is where it was -/
theorem Cluster_sync_remove (h : Bytes → Nat) {S : List Name} (x : Name)
    {c c' : Cluster} (hI : Inv (routeOf h S) c) (hm : MovedTo (routeOf h S) (routeOf h (S.erase x)) c c')
    (hnt : ∀ n k P, c.sh n k = some P → C13.NoTies h (sidKey k.sid) S) :
    ∀ n k P, c.sh n k = some P → n ≠ x → c'.sh n k = some P := by
  intro n k P hc hnx
  have hn := (hI.shWF _ _ _ hc).1
  rw [hm.sh, route_remove h x _ (hnt _ _ _ hc) (by rw [← hn]; exact hnx), if_pos hn, ← hn]
  exact hc

/-! ### non-vacuity: the cluster of Section 2 after server 3 was removed / a server 4 was added -/

def exC : Cluster := (run exHash exCfg exServers Cluster.empty (exHist (b 1) (b 2) (b 3))).1
def exNodes : List Name := [b 1, b 2, b 3, b 4]
def exRKeys : List SKey := [⟨uA, cX, ""⟩, ⟨uB, cX, ""⟩, ⟨uC, cX, ""⟩]
def exFKeys : List SKey := [⟨uA, cX, "z"⟩, ⟨uA, cX, "zz"⟩]
/-- (a cheap checksum for EVALUATING rounds; the theorem's injective one would be astronomically large here) -/
def exSum : C14.Content → Nat := fun c => c.sum + c.length + 1
def exSyncCfg (S' : List Name) : C14.Cfg Name SKey := syncCfg exHash S' (fun _ => true) 2 exSum

example : EncOK stdEnc := stdEnc_ok
example : ∃ sum : C14.Content → Nat, (∀ a b, sum a = sum b → a = b) ∧ sum [] ≠ 0 :=
  ⟨C14.wSum, fun a b e => C14.enc_inj a b (by simp only [C14.wSum] at e; omega), by simp [C14.wSum, C14.enc]⟩
-- B's record and shard "z" are at server 3; with server 3 removed their owner is server 1, everything else keeps its owner
example : (routeOf exHash [b 1, b 2] uB, routeOf exHash [b 1, b 2] (sidKey "z"), routeOf exHash [b 1, b 2] uA, routeOf exHash [b 1, b 2] uC,
    routeOf exHash [b 1, b 2] (sidKey "zz")) = (b 1, b 1, b 2, b 1, b 1) := by decide
-- the round of C14 on the view of the example cluster, and the relocation, at every server and key of the instance
example : ∀ n ∈ exNodes, ∀ k ∈ exRKeys ++ exFKeys,
    (C14.round (exSyncCfg [b 1, b 2]) exNodes exRKeys exFKeys [b 3, b 1, b 2] (syncView stdEnc exC)).recs n k =
      viewRecs stdEnc (relocate (routeOf exHash [b 1, b 2]) exNodes exC) n k ∧
    (C14.round (exSyncCfg [b 1, b 2]) exNodes exRKeys exFKeys [b 3, b 1, b 2] (syncView stdEnc exC)).files n k =
      viewFiles stdEnc (relocate (routeOf exHash [b 1, b 2]) exNodes exC) n k := by decide
-- B's record and shard "z" moved from server 3 to server 1; A's and C's records and shard "zz" are where they were
example : let c' := relocate (routeOf exHash [b 1, b 2]) exNodes exC
    dbGet (c'.db (b 1)) (C16.key uB cX) = some ⟨uB, cX, [], 10⟩ ∧ dbGet (c'.db (b 3)) (C16.key uB cX) = none ∧
    dbGet (c'.db (b 2)) (C16.key uA cX) = some ⟨uA, cX, ["z", "zz"], 10⟩ ∧ dbGet (c'.db (b 1)) (C16.key uC cX) = some ⟨uC, cX, [], 5⟩ ∧
    c'.sh (b 1) ⟨uA, cX, "z"⟩ = some [(2, 21)] ∧ c'.sh (b 3) ⟨uA, cX, "z"⟩ = none ∧ c'.sh (b 1) ⟨uA, cX, "zz"⟩ = some [(3, 30)] := by decide
-- a fourth server added: it takes over C's record (and nothing else of this instance); C14's round agrees
example : (routeOf exHash (exS ++ [b 4]) uA, routeOf exHash (exS ++ [b 4]) uB, routeOf exHash (exS ++ [b 4]) uC,
    routeOf exHash (exS ++ [b 4]) (sidKey "z"), routeOf exHash (exS ++ [b 4]) (sidKey "zz")) = (b 2, b 3, b 4, b 3, b 1) := by decide
set_option maxRecDepth 4000 in
example : ∀ n ∈ exNodes, ∀ k ∈ exRKeys ++ exFKeys,
    (C14.round (exSyncCfg (exS ++ [b 4])) exNodes exRKeys exFKeys [b 1, b 2, b 3, b 4] (syncView stdEnc exC)).recs n k =
      viewRecs stdEnc (relocate (routeOf exHash (exS ++ [b 4])) exNodes exC) n k := by decide
-- after the sync the collection reads the same through the new list (here: entered at server 4, listed last or first)
example : (stepR exCfg (routeOf exHash [b 4, b 1, b 2, b 3]) (relocate (routeOf exHash (exS ++ [b 4])) exNodes exC) uA (.search cX 0 2 0)).2 =
    .hits (some [⟨3, 30, []⟩, ⟨2, 21, []⟩]) := by decide

end Sema.ClusterCompose
