/-
ClusterCompose — helper lemmas: bucket primitives, congruence of the operations in the routing
function (entry independence), the routed-key invariant.
-/
import SemaModel.ClusterCompose.Model
import SemaModel.C13.Props
import SemaModel.C15.Props
import SemaModel.C16.Props
import SemaModel.C17.Props
namespace Sema.ClusterCompose
open Sema List

/-! ### bucket primitives -/

theorem find?_congr' {α : Type} {p q : α → Bool} : ∀ {l : List α}, (∀ a ∈ l, p a = q a) → l.find? p = l.find? q
  | [], _ => rfl
  | a :: l, h => by
    simp only [find?_cons, h a mem_cons_self]
    rw [find?_congr' (fun b hb => h b (mem_cons_of_mem _ hb))]

theorem find?_filter_ne {α κ : Type} [DecidableEq κ] (f : α → κ) {k k' : κ} (h : k' ≠ k) (l : List α) :
    (l.filter fun e => decide (f e ≠ k)).find? (fun e => decide (f e = k')) = l.find? (fun e => decide (f e = k')) := by
  rw [List.find?_filter]
  apply find?_congr'
  intro a _
  by_cases h1 : f a = k'
  · simp [h1, h]
  · simp [h1]

theorem find?_filter_self {α κ : Type} [DecidableEq κ] (f : α → κ) (k : κ) (l : List α) :
    (l.filter fun e => decide (f e ≠ k)).find? (fun e => decide (f e = k)) = none := by
  rw [List.find?_eq_none]; intro e he; simp at he ⊢; exact he.2

theorem dbGet_put (db : List (Bytes × Rec)) (k k' : Bytes) (v : Rec) :
    dbGet (dbPut db k v) k' = if k' = k then some v else dbGet db k' := by
  unfold dbGet dbPut
  rw [find?_append]
  by_cases h : k' = k
  · subst h
    rw [find?_filter_self (fun e : Bytes × Rec => e.1)]
    simp
  · rw [find?_filter_ne (fun e : Bytes × Rec => e.1) h]
    cases hf : db.find? (fun e => decide (e.1 = k')) with
    | some e => simp [h]
    | none => simp [h, Ne.symm h]

theorem dbGet_erase (db : List (Bytes × Rec)) (k k' : Bytes) :
    dbGet (dbErase db k) k' = if k' = k then none else dbGet db k' := by
  unfold dbGet dbErase
  by_cases h : k' = k
  · subst h
    rw [find?_filter_self (fun e : Bytes × Rec => e.1)]
    simp
  · rw [find?_filter_ne (fun e : Bytes × Rec => e.1) h]
    simp [h]

theorem dbGet_mem {db : List (Bytes × Rec)} {k : Bytes} {rec : Rec} (h : dbGet db k = some rec) : (k, rec) ∈ db := by
  unfold dbGet at h
  cases hf : db.find? (fun e => decide (e.1 = k)) with
  | none => rw [hf] at h; cases h
  | some e =>
    rw [hf] at h
    have h1 := find?_some hf
    have h2 := mem_of_find?_eq_some hf
    simp at h h1
    subst h; subst h1; exact h2

theorem dbGet_of_mem {db : List (Bytes × Rec)} (nd : (db.map (·.1)).Nodup) {k : Bytes} {rec : Rec} (h : (k, rec) ∈ db) :
    dbGet db k = some rec := by
  induction db with
  | nil => cases h
  | cons e db ih =>
    simp only [map_cons, nodup_cons] at nd
    unfold dbGet
    rcases mem_cons.mp h with rfl | h
    · simp
    · have : e.1 ≠ k := by
        intro he; apply nd.1; rw [he]; exact mem_map_of_mem (f := (·.1)) h
      rw [find?_cons_of_neg (by simpa using this)]
      exact ih nd.2 h

@[simp] theorem setDb_db_same (c : Cluster) (n : Name) (db : List (Bytes × Rec)) : (setDb c n db).db n = db := by
  simp [setDb]
theorem setDb_db_other (c : Cluster) {n n' : Name} (db : List (Bytes × Rec)) (h : n' ≠ n) : (setDb c n db).db n' = c.db n' := by
  simp [setDb, h]
@[simp] theorem setDb_sh (c : Cluster) (n : Name) (db : List (Bytes × Rec)) : (setDb c n db).sh = c.sh := rfl
@[simp] theorem applyWrites_db (c : Cluster) (ws : Writes) : (applyWrites c ws).db = c.db := rfl

/-! ### the operations depend on the routing function only through the keys they route -/

section congr
variable (cfg : Cfg) {r r' : Bytes → Name}

theorem contents_congr (c : Cluster) (rec : Rec) {sid : String} (h : r' (sidKey sid) = r (sidKey sid)) :
    contents r' c rec sid = contents r c rec sid := by
  simp [contents, h]

theorem gather_congr (c : Cluster) (rec : Rec) (h : ∀ sid ∈ rec.shards, r' (sidKey sid) = r (sidKey sid)) :
    gather r' c rec = gather r c rec := by
  unfold gather
  exact map_congr_left fun sid hs => by rw [contents_congr c rec (h sid hs)]

theorem infos_congr (c : Cluster) (rec : Rec) (h : ∀ sid ∈ rec.shards, r' (sidKey sid) = r (sidKey sid)) :
    infos cfg r' c rec = infos cfg r c rec := by
  unfold infos
  exact map_congr_left fun sid hs => by rw [contents_congr c rec (h sid hs)]

theorem fanWrites_congr (rec : Rec) (col : C17.Coll) (h : ∀ sid ∈ rec.shards, r' (sidKey sid) = r (sidKey sid)) :
    fanWrites r' rec col = fanWrites r rec col := by
  unfold fanWrites
  exact map_congr_left fun e he => by rw [h e.1 (of_mem_zip he).1]

theorem mem_created_id {mk : Nat → String} : ∀ (k nc : Nat) {s : C15.Shard},
    s ∈ C15.created (fun i => some (mk i)) nc k → ∃ i, s = C15.fresh (mk i)
  | 0, _, _, h => by simp [C15.created] at h
  | k + 1, nc, s, h => by
    simp only [C15.created, cons_append, nil_append, mem_cons] at h
    rcases h with rfl | h
    · exact ⟨nc, rfl⟩
    · exact mem_created_id k (nc + 1) h

/-- the shard of every assignment is a listed shard or one created by this request -/
theorem assign_id {inf : List C15.Shard} {sizes : List Nat} {fuel : Nat} {mk : Nat → String} {as : List C15.Assign} {k : Nat}
    (hd : C15.distribute fuel cfg.maxS cfg.maxC (fun i => some (mk i)) inf sizes = .ok as k) {a : C15.Assign} (ha : a ∈ as) :
    a.shard ∈ inf ∨ ∃ i, a.shard = C15.fresh (mk i) := by
  have hsub := (C15.C15_shard_order hd).subset (mem_map_of_mem (f := (·.shard)) ha)
  rcases mem_append.mp hsub with h | h
  · exact Or.inl h
  · exact Or.inr (mem_created_id _ _ h)

theorem insertBody_congr (c : Cluster) (rec : Rec) (pts : List Pt) (mk : Nat → String)
    (hu : r' rec.user = r rec.user) (h : ∀ sid ∈ rec.shards, r' (sidKey sid) = r (sidKey sid))
    (hmk : ∀ i, r' (sidKey (mk i)) = r (sidKey (mk i))) :
    insertBody cfg r' c rec pts mk = insertBody cfg r c rec pts mk := by
  unfold insertBody
  rw [infos_congr cfg c rec h]
  simp only []
  split
  · rfl
  · cases hd : C15.distribute ((infos cfg r c rec).length + pts.length + 1) cfg.maxS cfg.maxC (fun i => some (mk i)) (infos cfg r c rec)
        ((sortPts pts).map cfg.psz) with
    | ok as k =>
      simp only []
      have hid : ∀ a ∈ as, r' (sidKey a.shard.id) = r (sidKey a.shard.id) := by
        intro a ha
        rcases assign_id cfg hd ha with hin | ⟨i, hi⟩
        · obtain ⟨sid, hs, he⟩ := mem_map.mp hin
          rw [← he]; exact h sid hs
        · rw [hi]; exact hmk i
      have hws : (as.map fun a =>
            (r' (sidKey a.shard.id), skey rec a.shard.id,
              if refuses (contents r' c rec a.shard.id) (slice (sortPts pts) a) then contents r' c rec a.shard.id
              else contents r' c rec a.shard.id ++ slice (sortPts pts) a)) =
          (as.map fun a =>
            (r (sidKey a.shard.id), skey rec a.shard.id,
              if refuses (contents r c rec a.shard.id) (slice (sortPts pts) a) then contents r c rec a.shard.id
              else contents r c rec a.shard.id ++ slice (sortPts pts) a)) :=
        map_congr_left fun a ha => by rw [contents_congr c rec (hid a ha), hid a ha]
      have hf : (as.filter fun a => refuses (contents r' c rec a.shard.id) (slice (sortPts pts) a)) =
          (as.filter fun a => refuses (contents r c rec a.shard.id) (slice (sortPts pts) a)) :=
        filter_congr fun a ha => by rw [contents_congr c rec (hid a ha)]
      rw [hws, hf]
      simp only [putRec, withCreated, hu]
    | createErr k => simp only [putRec, withCreated, hu]
    | outOfFuel k => simp only [putRec, withCreated, hu]

theorem updateBody_congr (c : Cluster) (rec : Rec) (req : List Pt) (h : ∀ sid ∈ rec.shards, r' (sidKey sid) = r (sidKey sid)) :
    updateBody r' c rec req = updateBody r c rec req := by
  unfold updateBody
  rw [gather_congr c rec h]
  simp only [fanWrites_congr rec _ h]

theorem deleteBody_congr (c : Cluster) (rec : Rec) (ids : List Nat) (h : ∀ sid ∈ rec.shards, r' (sidKey sid) = r (sidKey sid)) :
    deleteBody r' c rec ids = deleteBody r c rec ids := by
  unfold deleteBody
  rw [gather_congr c rec h]
  simp only [fanWrites_congr rec _ h]

theorem searchBody_congr (c : Cluster) (rec : Rec) (q limit offset : Nat) (h : ∀ sid ∈ rec.shards, r' (sidKey sid) = r (sidKey sid)) :
    searchBody cfg r' c rec q limit offset = searchBody cfg r c rec q limit offset := by
  unfold searchBody
  rw [gather_congr c rec h]

theorem getBody_congr (c : Cluster) (rec : Rec) (h : ∀ sid ∈ rec.shards, r' (sidKey sid) = r (sidKey sid)) :
    getBody r' c rec = getBody r c rec := by
  unfold getBody
  congr 2
  exact map_congr_left fun sid hs => by rw [contents_congr c rec (h sid hs)]

theorem dropBody_congr (c : Cluster) (rec : Rec) (hu : r' rec.user = r rec.user)
    (h : ∀ sid ∈ rec.shards, r' (sidKey sid) = r (sidKey sid)) :
    dropBody r' c rec = dropBody r c rec := by
  unfold dropBody
  have h1 : (rec.shards.map fun sid => r' (sidKey sid)) = rec.shards.map fun sid => r (sidKey sid) :=
    map_congr_left fun sid hs => h sid hs
  have h2 : (rec.shards.filter fun sid => (c.sh (r' (sidKey sid)) (skey rec sid)).isSome) =
      rec.shards.filter fun sid => (c.sh (r (sidKey sid)) (skey rec sid)).isSome :=
    filter_congr fun sid hs => by rw [h sid hs]
  simp only [hu, h1, h2]

end congr

/-- the keys that are ever routed: user ids and shard ids -/
structure KInv (K : Bytes → Prop) (c : Cluster) : Prop where
  user : ∀ n k rec, dbGet (c.db n) k = some rec → K rec.user
  shard : ∀ n k rec, dbGet (c.db n) k = some rec → ∀ sid ∈ rec.shards, K (sidKey sid)

/-- the user id of a request, and the shard ids it may draw, are among the routed keys -/
def OpIn (K : Bytes → Prop) (u : Bytes) : Op → Prop
  | .insert _ _ mk => K u ∧ ∀ i, K (sidKey (mk i))
  | _ => K u

theorem OpIn.user {K : Bytes → Prop} {u : Bytes} {op : Op} (h : OpIn K u op) : K u := by
  cases op <;> first | exact h | exact h.1

/-- two routing functions that agree on the routed keys give the same response and the same state -/
theorem stepR_congr (cfg : Cfg) {r r' : Bytes → Name} {K : Bytes → Prop} {c : Cluster} {u : Bytes} {op : Op}
    (hK : KInv K c) (hop : OpIn K u op) (hr : ∀ key, K key → r' key = r key) :
    stepR cfg r' c u op = stepR cfg r c u op := by
  have hu : r' u = r u := hr u hop.user
  have hrec : ∀ col rec, getRec r c u col = some rec →
      r' rec.user = r rec.user ∧ ∀ sid ∈ rec.shards, r' (sidKey sid) = r (sidKey sid) := by
    intro col rec h
    exact ⟨hr _ (hK.user _ _ _ h), fun sid hs => hr _ (hK.shard _ _ _ h sid hs)⟩
  have hget : ∀ col, getRec r' c u col = getRec r c u col := fun col => by simp [getRec, hu]
  cases op with
  | create col quota maxCols => simp only [stepR, createOp, hu]
  | get col =>
    simp only [stepR, withColl, hget]
    cases h : getRec r c u col with
    | none => rfl
    | some rec => exact getBody_congr c rec (hrec col rec h).2
  | insert col pts mk =>
    simp only [stepR, withColl, hget]
    cases h : getRec r c u col with
    | none => rfl
    | some rec => exact insertBody_congr cfg c rec pts mk (hrec col rec h).1 (hrec col rec h).2 (fun i => hr _ (hop.2 i))
  | update col req =>
    simp only [stepR, withColl, hget]
    cases h : getRec r c u col with
    | none => rfl
    | some rec => exact updateBody_congr c rec req (hrec col rec h).2
  | delete col ids =>
    simp only [stepR, withColl, hget]
    cases h : getRec r c u col with
    | none => rfl
    | some rec => exact deleteBody_congr c rec ids (hrec col rec h).2
  | search col q limit offset =>
    simp only [stepR, withColl, hget]
    cases h : getRec r c u col with
    | none => rfl
    | some rec => exact searchBody_congr cfg c rec q limit offset (hrec col rec h).2
  | drop col =>
    simp only [stepR, withColl, hget]
    cases h : getRec r c u col with
    | none => rfl
    | some rec => exact dropBody_congr c rec (hrec col rec h).1 (hrec col rec h).2

/-! ### the routed-key invariant is kept by every request, whatever the routing -/

theorem kinv_of_db {K : Bytes → Prop} {c c' : Cluster}
    (h : ∀ n k rec, dbGet (c'.db n) k = some rec → (∃ n' k', dbGet (c.db n') k' = some rec) ∨ (K rec.user ∧ ∀ sid ∈ rec.shards, K (sidKey sid)))
    (hK : KInv K c) : KInv K c' := by
  refine ⟨fun n k rec hg => ?_, fun n k rec hg => ?_⟩
  · rcases h n k rec hg with ⟨n', k', h'⟩ | h'
    · exact hK.user _ _ _ h'
    · exact h'.1
  · rcases h n k rec hg with ⟨n', k', h'⟩ | h'
    · exact hK.shard _ _ _ h'
    · exact h'.2

theorem dbGet_setDb_put {c : Cluster} {m n k k' : Bytes} {v rec : Rec}
    (h : dbGet ((setDb c m (dbPut (c.db m) k v)).db n) k' = some rec) : rec = v ∨ dbGet (c.db n) k' = some rec := by
  by_cases hn : n = m
  · subst hn
    rw [setDb_db_same, dbGet_put] at h
    split at h
    · left; cases h; rfl
    · right; exact h
  · rw [setDb_db_other _ _ hn] at h
    right; exact h

theorem dbGet_setDb_erase {c : Cluster} {m n k k' : Bytes} {rec : Rec}
    (h : dbGet ((setDb c m (dbErase (c.db m) k)).db n) k' = some rec) : dbGet (c.db n) k' = some rec := by
  by_cases hn : n = m
  · subst hn
    rw [setDb_db_same, dbGet_erase] at h
    split at h
    · cases h
    · exact h
  · rw [setDb_db_other _ _ hn] at h
    exact h

theorem kinv_putRec {K : Bytes → Prop} {c : Cluster} (r : Bytes → Name) {rec : Rec} (hK : KInv K c)
    (h1 : K rec.user) (h2 : ∀ sid ∈ rec.shards, K (sidKey sid)) : KInv K (putRec r c rec) := by
  apply kinv_of_db _ hK
  intro n k rec' hg
  rcases dbGet_setDb_put hg with rfl | h
  · exact Or.inr ⟨h1, h2⟩
  · exact Or.inl ⟨n, k, h⟩

theorem kinv_withCreated {K : Bytes → Prop} {rec : Rec} {mk : Nat → String} (k : Nat)
    (h2 : ∀ sid ∈ rec.shards, K (sidKey sid)) (hmk : ∀ i, K (sidKey (mk i))) :
    ∀ sid ∈ (withCreated rec mk k).shards, K (sidKey sid) := by
  intro sid hs
  simp only [withCreated, mem_append, mem_map] at hs
  rcases hs with hs | ⟨s, hs, rfl⟩
  · exact h2 sid hs
  · obtain ⟨i, rfl⟩ := mem_created_id _ _ hs
    exact hmk i

theorem kinv_stepR (cfg : Cfg) (r : Bytes → Name) {K : Bytes → Prop} {c : Cluster} {u : Bytes} {op : Op}
    (hK : KInv K c) (hop : OpIn K u op) : KInv K (stepR cfg r c u op).1 := by
  have keep : ∀ (c' : Cluster), c'.db = c.db → KInv K c' := fun c' h =>
    ⟨fun n k rec hg => hK.user n k rec (h ▸ hg), fun n k rec hg => hK.shard n k rec (h ▸ hg)⟩
  cases op with
  | create col quota maxCols =>
    simp only [stepR, createOp]
    split
    · exact hK
    · split
      · exact hK
      · apply kinv_of_db _ hK
        intro n k rec hg
        rcases dbGet_setDb_put hg with rfl | h
        · exact Or.inr ⟨hop, by simp⟩
        · exact Or.inl ⟨n, k, h⟩
  | get col =>
    simp only [stepR, withColl]; split
    · exact hK
    · exact hK
  | insert col pts mk =>
    simp only [stepR, withColl]
    cases hg : getRec r c u col with
    | none => exact hK
    | some rec =>
      simp only [insertBody]
      have hu := hK.user _ _ _ hg
      have hs := hK.shard _ _ _ hg
      have hput : ∀ k, KInv K (if k = 0 then c else putRec r c (withCreated rec mk k)) := by
        intro k
        split
        · exact hK
        · exact kinv_putRec r hK hu (kinv_withCreated k hs hop.2)
      split
      · exact hK
      · split
        · exact ⟨fun n k rec' h => (hput _).user n k rec' h, fun n k rec' h => (hput _).shard n k rec' h⟩
        · exact hput _
        · exact hput _
  | update col req =>
    simp only [stepR, withColl]; split
    · exact hK
    · exact keep _ rfl
  | delete col ids =>
    simp only [stepR, withColl]; split
    · exact hK
    · exact keep _ rfl
  | search col q limit offset =>
    simp only [stepR, withColl]; split
    · exact hK
    · exact hK
  | drop col =>
    simp only [stepR, withColl]; split
    · exact hK
    · apply kinv_of_db _ hK
      intro n k rec hg
      exact Or.inl ⟨n, k, dbGet_setDb_erase hg⟩

/-! ### entry independence: every entry node routes like the reference list -/

/-- the two lists have the same members (any order, any multiplicity) -/
def SameSet (S' S : List Name) : Prop := ∀ a, a ∈ S' ↔ a ∈ S

def HistIn (K : Bytes → Prop) (H : List Req) : Prop := ∀ q ∈ H, OpIn K q.user q.op

/-- where C13 enters: a list with the same members gives the same owner for every routed key -/
theorem routeOf_sameSet (h : Bytes → Nat) {S S' : List Name} {key : Bytes} (nt : C13.NoTies h key S) (hs : SameSet S' S) :
    routeOf h S' key = routeOf h S key := by
  unfold routeOf
  rw [C13.C13_owner_set h key nt hs]

theorem step_canonical (h : Bytes → Nat) (cfg : Cfg) (servers : Name → List Name) (S : List Name) {K : Bytes → Prop}
    {c : Cluster} {q : Req} (hS : SameSet (servers q.entry) S) (hnt : ∀ key, K key → C13.NoTies h key S)
    (hK : KInv K c) (hop : OpIn K q.user q.op) :
    step h cfg servers c q = stepR cfg (routeOf h S) c q.user q.op :=
  stepR_congr cfg hK hop fun key hk => routeOf_sameSet h (hnt key hk) hS

theorem run_canonical (h : Bytes → Nat) (cfg : Cfg) (servers : Name → List Name) (S : List Name) {K : Bytes → Prop}
    (hS : ∀ n, SameSet (servers n) S) (hnt : ∀ key, K key → C13.NoTies h key S) :
    ∀ (H : List Req) (c : Cluster), KInv K c → HistIn K H → run h cfg servers c H = run h cfg (fun _ => S) c H
  | [], _, _, _ => rfl
  | q :: rest, c, hK, hin => by
    have hop := hin q mem_cons_self
    have e1 := step_canonical h cfg servers S (hS q.entry) hnt hK hop
    have e2 : step h cfg (fun _ => S) c q = stepR cfg (routeOf h S) c q.user q.op := rfl
    have hK' : KInv K (step h cfg servers c q).1 := by rw [e1]; exact kinv_stepR cfg _ hK hop
    have ih := run_canonical h cfg servers S hS hnt rest _ hK' (fun q' hq' => hin q' (mem_cons_of_mem _ hq'))
    simp only [run]
    rw [ih, e1, e2]

theorem kinv_run (h : Bytes → Nat) (cfg : Cfg) (servers : Name → List Name) {K : Bytes → Prop} :
    ∀ (H : List Req) (c : Cluster), KInv K c → HistIn K H → KInv K (run h cfg servers c H).1
  | [], _, hK, _ => hK
  | q :: rest, c, hK, hin => by
    simp only [run]
    exact kinv_run h cfg servers rest _ (kinv_stepR cfg _ hK (hin q mem_cons_self)) (fun q' hq' => hin q' (mem_cons_of_mem _ hq'))

/-- the same API calls (user, operation) in the same order, entered through possibly different nodes -/
inductive SameCalls : List Req → List Req → Prop where
  | nil : SameCalls [] []
  | cons {q q' : Req} {rest rest' : List Req} : q.user = q'.user → q.op = q'.op → SameCalls rest rest' →
      SameCalls (q :: rest) (q' :: rest')

/-- the run does not look at the entry field when every node has the same list -/
theorem run_const_entry (h : Bytes → Nat) (cfg : Cfg) (S : List Name) {H H' : List Req} (hs : SameCalls H H') :
    ∀ (c : Cluster), run h cfg (fun _ => S) c H = run h cfg (fun _ => S) c H' := by
  induction hs with
  | nil => intro c; rfl
  | @cons q q' rest rest' hu ho _ ih =>
    intro c
    have e : step h cfg (fun _ => S) c q = step h cfg (fun _ => S) c q' := by
      simp only [step, hu, ho]
    simp only [run]
    rw [e, ih]

end Sema.ClusterCompose
