/-
ClusterCompose — "the record lists exactly the shards that exist", the second half: every listed
shard has its directory at the owner of its id.  (`Inv.shWF` is the first half: every directory is
listed.)  Needs a fact about C15's `distribute` that C15 itself does not state: under `fits` a shard
is created only when a point is waiting for it, so every created shard receives a range.
-/
import SemaModel.ClusterCompose.Readout
namespace Sema.ClusterCompose
open Sema List

section c15
variable {maxS maxC : Int} {mk : Nat → Option String}

/-- a fresh shard at the head of the list with a point waiting that fits it receives a range -/
theorem loop_head_assigned : ∀ (fuel : Nat) (id : String) (last : Nat) (p : Nat) (ps : List Nat) (nc : Nat) (as : List C15.Assign) (c : Nat),
    (p : Int) ≤ maxS → 1 ≤ maxC → C15.loop maxS maxC mk fuel [C15.fresh id] last (p :: ps) nc = .ok as c →
      C15.fresh id ∈ as.map (·.shard)
  | 0, _, _, _, _, _, _, _, _, _, h => by rw [C15.loop_zero] at h; cases h
  | fuel + 1, id, last, p, ps, nc, as, c, hp, hc, h => by
    rw [C15.loop_cons] at h
    have hpos : 0 < C15.scan maxS maxC (p :: ps) (C15.fresh id).size (C15.fresh id).count := C15.scan_fresh_pos hp hc
    rw [if_pos hpos] at h
    split at h
    · cases hmk : mk nc with
      | none => rw [hmk] at h; cases h
      | some id' =>
        rw [hmk] at h
        obtain ⟨as', _, rfl⟩ := C15.prepend_eq_ok.1 h
        simp
    · obtain ⟨as', _, rfl⟩ := C15.prepend_eq_ok.1 h
      simp

/-- every shard the loop creates receives a range -/
theorem loop_created_assigned : ∀ (fuel : Nat) (rest : List C15.Shard) (last : Nat) (pts : List Nat) (nc : Nat) (as : List C15.Assign) (c : Nat),
    C15.Fits maxS maxC pts → C15.loop maxS maxC mk fuel rest last pts nc = .ok as c →
      ∀ s ∈ C15.created mk nc (c - nc), s ∈ as.map (·.shard)
  | 0, _, _, _, _, _, _, _, h => by rw [C15.loop_zero] at h; cases h
  | fuel + 1, [], last, pts, nc, as, c, _, h => by
    rw [C15.loop_nil] at h
    injection h with h1 h2
    subst h2
    simp [C15.created]
  | fuel + 1, s :: rest, last, pts, nc, as, c, hf, h => by
    rw [C15.loop_cons] at h
    generalize C15.scan maxS maxC pts s.size s.count = t at h
    split at h
    · rename_i hcond
      obtain ⟨_, hne⟩ := C15.cond_true hcond
      cases hmk : mk nc with
      | none => rw [hmk] at h; cases h
      | some id =>
        rw [hmk] at h
        obtain ⟨as', h', rfl⟩ := C15.prepend_eq_ok.1 h
        have hnc : nc + 1 ≤ c :=
          (C15.loop_ok (List.replicate (last + t) 0 ++ pts.drop t) fuel [C15.fresh id] (last + t) (pts.drop t) (nc + 1) as' c
            (by rw [drop_append_of_le_length (by simp)]; simp) (Or.inl (by simp)) h').2.2.1
        have hc : c - nc = (c - (nc + 1)) + 1 := by omega
        rw [hc, C15.created_succ nc _ hmk]
        intro x hx
        rw [map_append]
        apply mem_append_right
        rcases mem_cons.mp hx with rfl | hx
        · cases hd : pts.drop t with
          | nil => exact absurd hd hne
          | cons p ps =>
            rw [hd] at h'
            have hf' := hf.drop t
            rw [hd] at hf'
            exact loop_head_assigned fuel id (last + t) p ps (nc + 1) as' c (hf'.2 p mem_cons_self) hf'.1 h'
        · exact loop_created_assigned fuel [C15.fresh id] (last + t) (pts.drop t) (nc + 1) as' c (hf.drop t) h' x hx
    · obtain ⟨as', h', rfl⟩ := C15.prepend_eq_ok.1 h
      intro x hx
      rw [map_append]
      exact mem_append_right _ (loop_created_assigned fuel rest (last + t) (pts.drop t) nc as' c (hf.drop t) h' x hx)

/-- … and so does `distributePoints` -/
theorem distribute_created_assigned {fuel : Nat} {shards : List C15.Shard} {pts : List Nat} {as : List C15.Assign} {c : Nat}
    (hf : C15.Fits maxS maxC pts) (h : C15.distribute fuel maxS maxC mk shards pts = .ok as c) :
    ∀ s ∈ C15.created mk 0 c, s ∈ as.map (·.shard) := by
  unfold C15.distribute at h
  split at h
  · rename_i hcond
    obtain ⟨_, hne⟩ := C15.cond_true hcond
    cases hmk : mk 0 with
    | none => rw [hmk] at h; cases h
    | some id =>
      rw [hmk] at h
      have hnc : 1 ≤ c :=
        (C15.loop_ok pts fuel [C15.fresh id] 0 pts 1 as c rfl (Or.inl (by simp)) h).2.2.1
      have hc : c = (c - 1) + 1 := by omega
      rw [hc, C15.created_succ 0 _ hmk]
      intro x hx
      rcases mem_cons.mp hx with rfl | hx
      · cases pts with
        | nil => exact absurd rfl hne
        | cons p ps => exact loop_head_assigned fuel id 0 p ps 1 as c (hf.2 p mem_cons_self) hf.1 h
      · exact loop_created_assigned fuel [C15.fresh id] 0 pts 1 as c hf h x hx
  · exact loop_created_assigned fuel shards 0 pts 0 as c hf h

end c15

variable {r : Bytes → Name}

/-- every shard id a record lists has its directory at the owner of the id -/
def Listed (r : Bytes → Name) (c : Cluster) : Prop :=
  ∀ n k rec, dbGet (c.db n) k = some rec → ∀ sid ∈ rec.shards, (c.sh (r (sidKey sid)) (skey rec sid)).isSome = true

theorem applyWrites_keeps (c : Cluster) (ws : Writes) (n : Name) (k : SKey) (h : (c.sh n k).isSome = true) :
    ((applyWrites c ws).sh n k).isSome = true := by
  simp only [applyWrites]
  cases ws.find? (fun w => decide (w.1 = n ∧ w.2.1 = k)) with
  | none => exact h
  | some w => rfl

theorem applyWrites_makes (c : Cluster) (ws : Writes) (n : Name) (k : SKey) (h : ∃ w ∈ ws, w.1 = n ∧ w.2.1 = k) :
    ((applyWrites c ws).sh n k).isSome = true := by
  simp only [applyWrites]
  cases hf : ws.find? (fun w => decide (w.1 = n ∧ w.2.1 = k)) with
  | none =>
    obtain ⟨w, hw, hp⟩ := h
    rw [find?_eq_none] at hf
    exact absurd (by simpa using hp) (hf w hw)
  | some w => rfl

theorem listed_fan {c : Cluster} (hL : Listed r c) (ws : Writes) : Listed r (applyWrites c ws) :=
  fun n k rec h sid hs => applyWrites_keeps c ws _ _ (hL n k rec h sid hs)

/-- **one request keeps `Listed`** (an insert: every shard it creates receives a range, hence a directory) -/
theorem step_listed (cfg : Cfg) {c : Cluster} {m : Ref} {u : Bytes} {op : Op} (hI : Inv r c) (hR : Rel r m c)
    (hok : StepOK cfg r c m u op) (hL : Listed r c) : Listed r (stepR cfg r c u op).1 := by
  have hu := hok.user
  cases op with
  | create col quota maxCols =>
    simp only [stepR, createOp]
    split
    · exact hL
    · split
      · exact hL
      · intro n k rec h sid hs
        rcases dbGet_setDb_put h with rfl | h
        · cases hs
        · exact hL n k rec h sid hs
  | get col => simp only [stepR, withColl]; split <;> exact hL
  | search col q limit offset => simp only [stepR, withColl]; split <;> exact hL
  | update col req =>
    simp only [stepR, withColl]
    split
    · exact hL
    · exact listed_fan hL _
  | delete col ids =>
    simp only [stepR, withColl]
    split
    · exact hL
    · exact listed_fan hL _
  | drop col =>
    simp only [stepR, withColl]
    cases hg : getRec r c u col with
    | none => exact hL
    | some rec =>
      intro n k rec2 h sid hs
      have h1 : dbGet (c.db n) k = some rec2 := dbGet_setDb_erase h
      have hne : ¬ (rec2.user = rec.user ∧ rec2.coll = rec.coll) := by
        intro e
        have h2 := hI.getRec_of h1
        rw [e.1, e.2, hI.getRec_of hg] at h2
        cases h2
        -- the slot of `rec` was erased, so `rec2 = rec` cannot be found any more
        obtain ⟨hk, hn, _⟩ := hI.recWF _ _ _ h1
        have := dbAt_erase (r := r) c rec.user rec.coll n k
        simp only [dropBody] at h
        rw [this, if_pos ⟨hn, hk⟩] at h
        cases h
      have hold := hL n k rec2 h1 sid hs
      simp only [dropBody]
      split
      · rename_i hc
        exfalso; apply hne
        simp only [Bool.and_eq_true, beq_iff_eq, skey] at hc
        exact hc.2
      · exact hold
  | insert col pts mk =>
    rcases lookup_agree hI hR hu col with ⟨hm, hg⟩ | ⟨rc, rec, hm, hg, h1, h2, hq, hp⟩
    · simp only [stepR, withColl, hg]; exact hL
    · have hins := hok.2 rc rec hm hg
      subst h1; subst h2
      simp only [stepR, withColl, hg]
      by_cases hov : C15.overQuota (infos cfg r c rec) pts.length rec.quota = true
      · simp only [insertBody, hov, if_true]; exact hL
      · have hsp := sortPts_perm pts
        have hfits : C15.Fits cfg.maxS cfg.maxC ((sortPts pts).map cfg.psz) :=
          ⟨hins.fits.1, fun p hp' => hins.fits.2 p ((hsp.map cfg.psz).mem_iff.mp hp')⟩
        obtain ⟨as, k, hd⟩ := C15.C15_fuel (mk := fun i => some (mk i)) (shards := infos cfg r c rec) hfits (fun _ => rfl)
          ((infos cfg r c rec).length + pts.length + 1) (by rw [length_map, hsp.length_eq]; exact Nat.le_refl _)
        simp only [insertBody, hov, Bool.false_eq_true, if_false, hd]
        have hassigned := distribute_created_assigned hfits hd
        have hsh1 : (if k = 0 then c else putRec r c (withCreated rec mk k)).sh = c.sh := by split <;> rfl
        intro n key rec2 h sid hs
        -- which record is it?
        have hcase : rec2 = withCreated rec mk k ∨ dbGet (c.db n) key = some rec2 := by
          simp only [applyWrites_db] at h
          by_cases hk0 : k = 0
          · rw [if_pos hk0] at h; exact Or.inr h
          · rw [if_neg hk0] at h
            unfold putRec at h
            exact dbGet_setDb_put h
        rcases hcase with rfl | hold
        · simp only [withCreated, mem_append, mem_map] at hs
          rcases hs with hs | ⟨s, hs, rfl⟩
          · apply applyWrites_keeps
            rw [hsh1]
            exact hL _ _ _ hg sid hs
          · apply applyWrites_makes
            obtain ⟨a, ha, he⟩ := mem_map.mp (hassigned s hs)
            exact ⟨_, mem_map_of_mem ha, by simp [he], by simp [he, skey, withCreated]⟩
        · apply applyWrites_keeps
          rw [hsh1]
          exact hL n key rec2 hold sid hs

end Sema.ClusterCompose
