/-
Line protocol for the composed cluster model (`semadriver C17 cluster`, go/cmd/c17/compose.go).
The hash of the model is a TABLE supplied by the harness: `score <hex of key ++ server> <uint64>` —
the real `xxhash.Sum64String(key + server)` for every routed key and every server — so the abstract
hash of the theorems is instantiated by the real one.  Point ids are the 128-bit numbers of the uuids
(order = `bytes.Compare`).  Core-only.

  newcluster maxc=<n> names=<hex,…> lists=<i.j.k|…>     one server list (a permutation of the names) per node
  score <hex> <n>
  create e=<node> u=<hex> c=<hex> quota=<n> maxcols=<n>
  insert e= u= c= pts=<idhex:k,…> new=<shard id,…>          new: the uuids RPCCreateShard drew (oracle)
  update e= u= c= pts=<idhex:k,…>
  delete e= u= c= ids=<idhex,…>
  get    e= u= c=
  drop   e= u= c=
  dump                                                     every node: its records and shard directories
-/
import SemaModel.Base.DriverUtil
import SemaModel.ClusterCompose.Model
namespace Sema.ClusterCompose
open Sema

structure DSt where
  table : List (Bytes × Nat) := []
  names : List Name := []
  lists : List (List Name) := []
  maxC : Int := 0
  c : Cluster := Cluster.empty
  /-- shard directories ever written (the shard store is a function; this is its known support) -/
  keys : List SKey := []

namespace Drv

def kv (toks : List String) (k : String) : Option String :=
  toks.findSome? fun t => if t.startsWith (k ++ "=") then some ((t.drop (k.length + 1)).toString) else none

def splitNE (s : String) (sep : String) : List String := if s == "-" || s == "" then [] else s.splitOn sep

def hexB (s : String) : Option Bytes := if s == "-" then some [] else bytesOfHex s

def parsePts (s : String) : Option (List Pt) :=
  (splitNE s ",").mapM fun p => match p.splitOn ":" with
    | [a, b] => do let i ← natOfHex a; let v ← b.toInt?; pure (i, v)
    | _ => none

def parseIds (s : String) : Option (List Nat) := (splitNE s ",").mapM natOfHex

def hashOf (st : DSt) : Bytes → Nat := fun x => ((st.table.find? (fun e => e.1 == x)).map (·.2)).getD 0

def cfgOf (st : DSt) : Cfg :=
  { maxS := 4611686018427387904, maxC := st.maxC, maxLimit := 0, psz := fun _ => 0, fsize := fun _ => 0,
    rank := fun _ _ => [], heur := fun _ _ => 0 }

def idHex (i : Nat) : String := hexOfNat 32 i

def showResp : Resp → String
  | .ok => "ok"
  | .exists_ => "exists"
  | .quota => "quota"
  | .notFound => "notfound"
  | .err => "err"
  | .info sids counts => "info " ++ (if sids.isEmpty then "-" else ",".intercalate ((sids.zip counts).map fun e => s!"{e.1}={e.2}"))
  | .inserted f => "inserted " ++ (if f.isEmpty then "-" else ",".intercalate (f.map fun e => s!"{e.1}:{e.2.1}:{e.2.2}"))
  | .failed l => "failed " ++ (if l.isEmpty then "-" else ",".intercalate (l.map fun e =>
      idHex e.1 ++ ":" ++ (match e.2 with | .notFound => "nf" | .unavailable => "un")))
  | .hits _ => "hits"
  | .dropped sids => "dropped " ++ (if sids.isEmpty then "-" else ",".intercalate (C17.sortBy (fun a b => decide (a ≤ b)) sids))

def strLe (a b : String) : Bool := decide (a ≤ b)

def showPts (P : List Pt) : String :=
  if P.isEmpty then "-" else "+".intercalate ((C17.sortBy (fun a b : Pt => decide (a.1 ≤ b.1)) P).map fun p => idHex p.1 ++ ":" ++ toString p.2)

def dumpNode (st : DSt) (i : Nat) (n : Name) : String :=
  let recs := (st.c.db n).map fun e => hexOfBytes e.1 ++ "=" ++ toString e.2.quota ++ ":" ++ (if e.2.shards.isEmpty then "-" else "+".intercalate e.2.shards)
  let dirs := st.keys.filterMap fun k => (st.c.sh n k).map fun P =>
    hexOfBytes k.user ++ "/" ++ hexOfBytes k.coll ++ "/" ++ k.sid ++ "=" ++ showPts P
  s!"n{i} db[" ++ ",".intercalate (C17.sortBy strLe recs) ++ "] sh[" ++ ",".intercalate (C17.sortBy strLe dirs) ++ "]"

def addKeys (st : DSt) (u col : Bytes) : DSt :=
  -- every shard id listed in the record of (u, col) on any server is a possible directory
  let sids := st.names.flatMap fun n => ((dbGet (st.c.db n) (C16.key u col)).map (·.shards)).getD []
  let new := (sids.map fun sid => (⟨u, col, sid⟩ : SKey)).filter fun k => !st.keys.contains k
  { st with keys := st.keys ++ new.eraseDups }

def step (st : DSt) (line : String) : DSt × String :=
  let toks := (line.trimAscii.toString.splitOn " ").filter (· ≠ "")
  match toks with
  | "newcluster" :: rest =>
    match (kv rest "maxc").bind (·.toNat?), (kv rest "names").bind (fun s => (splitNE s ",").mapM hexB), kv rest "lists" with
    | some mc, some names, some ls =>
      let lists := (splitNE ls "|").map fun l => (splitNE l ".").filterMap fun t => t.toNat?.bind fun i => names[i]?
      ({ names := names, lists := lists, maxC := mc }, "ok")
    | _, _, _ => (st, "bad-op")
  | ["score", hx, v] =>
    match hexB hx, v.toNat? with
    | some b, some n => ({ st with table := (b, n) :: st.table }, "ok")
    | _, _ => (st, "bad-op")
  | ["dump"] => (st, " ".intercalate ((st.names.zipIdx).map fun e => dumpNode st e.2 e.1))
  | kind :: rest =>
    match (kv rest "e").bind (·.toNat?), (kv rest "u").bind hexB, (kv rest "c").bind hexB with
    | some e, some u, some col =>
      let S := st.lists.getD e []
      let r := routeOf (hashOf st) S
      let cfg := cfgOf st
      let run (op : Op) : DSt × String :=
        let res := stepR cfg r st.c u op
        (addKeys { st with c := res.1 } u col, showResp res.2)
      match kind with
      | "create" =>
        match (kv rest "quota").bind (·.toInt?), (kv rest "maxcols").bind (·.toNat?) with
        | some q, some mcs => run (.create col q mcs)
        | _, _ => (st, "bad-op")
      | "insert" =>
        match (kv rest "pts").bind parsePts, kv rest "new" with
        | some pts, some nw =>
          let ids := splitNE nw ","
          run (.insert col pts fun i => ids.getD i s!"?{i}")
        | _, _ => (st, "bad-op")
      | "update" =>
        match (kv rest "pts").bind parsePts with
        | some pts => run (.update col pts)
        | none => (st, "bad-op")
      | "delete" =>
        match (kv rest "ids").bind parseIds with
        | some ids => run (.delete col ids)
        | none => (st, "bad-op")
      | "get" => run (.get col)
      | "drop" => run (.drop col)
      | _ => (st, "bad-op")
    | _, _, _ => (st, "bad-op")
  | _ => (st, "bad-op")

end Drv

def driverMain (stdin stdout : IO.FS.Stream) (_args : List String) : IO Unit :=
  loopState stdin stdout Drv.step {}

end Sema.ClusterCompose
