/-
ClusterCompose — the refinement invariant and its preservation by every operation.
`Inv`: where records and shard directories sit (at the C13 owner), that every directory is listed,
that point ids are unique per collection (C17's `Uniq`), that shards respect the count limit.
`Rel`: the cluster state read through the routing function IS the reference map.
-/
import SemaModel.ClusterCompose.Lemmas
namespace Sema.ClusterCompose
open Sema List

/-! ### shard writes -/

theorem applyWrites_miss (c : Cluster) (ws : Writes) (n : Name) (k : SKey)
    (h : ∀ w ∈ ws, ¬ (w.1 = n ∧ w.2.1 = k)) : (applyWrites c ws).sh n k = c.sh n k := by
  have : ws.find? (fun w => decide (w.1 = n ∧ w.2.1 = k)) = none := by
    rw [find?_eq_none]; intro w hw; simpa using h w hw
  simp only [applyWrites, this]

theorem applyWrites_hit (c : Cluster) (ws : Writes) (n : Name) (k : SKey) (w0 : Name × SKey × List Pt)
    (h0 : w0 ∈ ws) (h1 : w0.1 = n) (h2 : w0.2.1 = k) (hu : ∀ w ∈ ws, w.2.1 = k → w = w0) :
    (applyWrites c ws).sh n k = some w0.2.2 := by
  cases hf : ws.find? (fun w => decide (w.1 = n ∧ w.2.1 = k)) with
  | none =>
    rw [find?_eq_none] at hf
    exact absurd (by simp [h1, h2]) (hf w0 h0)
  | some w =>
    have hp := find?_some hf
    have hm := mem_of_find?_eq_some hf
    simp only [decide_eq_true_eq] at hp
    have := hu w hm hp.2
    subst this
    simp only [applyWrites, hf]

/-- every directory a batch of writes leaves behind was there before or is the target of a write -/
theorem applyWrites_cases (c : Cluster) (ws : Writes) (n : Name) (k : SKey) (P : List Pt)
    (h : (applyWrites c ws).sh n k = some P) : c.sh n k = some P ∨ ∃ w ∈ ws, w.1 = n ∧ w.2.1 = k ∧ w.2.2 = P := by
  simp only [applyWrites] at h
  cases hf : ws.find? (fun w => decide (w.1 = n ∧ w.2.1 = k)) with
  | none => rw [hf] at h; exact Or.inl h
  | some w =>
    rw [hf] at h
    have hp := find?_some hf
    simp only [decide_eq_true_eq] at hp
    exact Or.inr ⟨w, mem_of_find?_eq_some hf, hp.1, hp.2, by simpa using h⟩

/-! ### buckets: keys stay distinct, scans count -/

theorem dbPut_keys_nodup {db : List (Bytes × Rec)} (nd : (db.map (·.1)).Nodup) (k : Bytes) (v : Rec) :
    ((dbPut db k v).map (·.1)).Nodup := by
  unfold dbPut
  rw [map_append, nodup_append]
  refine ⟨(nd.sublist ((filter_sublist (l := db)).map _)), by simp, ?_⟩
  intro a ha b hb
  simp only [map_cons, map_nil, mem_singleton] at hb
  subst hb
  obtain ⟨e, he, rfl⟩ := mem_map.mp ha
  simpa using (mem_filter.mp he).2

theorem dbErase_keys_nodup {db : List (Bytes × Rec)} (nd : (db.map (·.1)).Nodup) (k : Bytes) :
    ((dbErase db k).map (·.1)).Nodup :=
  nd.sublist ((filter_sublist (l := db)).map _)

/-- in a list with distinct keys exactly one entry carries a key that is present -/
theorem count_key_of_get {α β : Type} [DecidableEq α] : ∀ {l : List (α × β)} {k : α} {v : β},
    (l.map (·.1)).Nodup → (l.find? (fun e => decide (e.1 = k))).map (·.2) = some v →
      (l.filter fun e => decide (e.1 = k)).length = 1
  | [], _, _, _, h => by simp at h
  | e :: l, k, v, nd, h => by
    simp only [map_cons, nodup_cons] at nd
    by_cases he : e.1 = k
    · have hnone : l.filter (fun e => decide (e.1 = k)) = [] := by
        rw [filter_eq_nil_iff]; intro x hx; simp only [decide_eq_true_eq]
        intro hxk; apply nd.1; rw [he, ← hxk]; exact mem_map_of_mem (f := (·.1)) hx
      simp [filter_cons, he, hnone]
    · rw [find?_cons_of_neg (by simpa using he)] at h
      simp [filter_cons, he, count_key_of_get nd.2 h]

theorem count_key_of_none {α β : Type} [DecidableEq α] : ∀ {l : List (α × β)} {k : α},
    (l.find? (fun e => decide (e.1 = k))) = none → (l.filter fun e => decide (e.1 = k)) = []
  | l, k, h => by
    rw [find?_eq_none] at h
    rw [filter_eq_nil_iff]; exact h

/-- the length of a filtered list splits over a key -/
theorem filter_length_split {α : Type} (p q : α → Bool) (l : List α) :
    (l.filter p).length = ((l.filter fun x => !q x).filter p).length + ((l.filter q).filter p).length := by
  induction l with
  | nil => rfl
  | cons a l ih =>
    by_cases hq : q a <;> by_cases hp : p a <;> simp [filter_cons, hq, hp, ih] <;> omega

/-- general form: replacing / adding / removing the entry of one key changes a filtered count by
what that key contributes -/
theorem put_filter_length {α β : Type} [DecidableEq α] (l : List (α × β)) (k : α) (v : β) (p : α × β → Bool)
    (hp : ∀ e : α × β, e.1 = k → p e = p (k, v)) :
    ((l.filter (fun e => decide (e.1 ≠ k)) ++ [(k, v)]).filter p).length + (if p (k, v) then (l.filter fun e => decide (e.1 = k)).length else 0)
      = (l.filter p).length + (if p (k, v) then 1 else 0) := by
  rw [filter_append, length_append]
  have h1 := filter_length_split p (fun e => decide (e.1 = k)) l
  have h2 : ((l.filter fun e => decide (e.1 = k)).filter p).length = if p (k, v) then (l.filter fun e => decide (e.1 = k)).length else 0 := by
    by_cases hpk : p (k, v) = true
    · rw [if_pos hpk]
      congr 1
      rw [filter_eq_self]; intro e he
      rw [hp e (by simpa using (mem_filter.mp he).2)]; exact hpk
    · rw [if_neg hpk]
      have : (l.filter fun e => decide (e.1 = k)).filter p = [] := by
        rw [filter_eq_nil_iff]; intro e he
        rw [hp e (by simpa using (mem_filter.mp he).2)]; exact hpk
      rw [this]; rfl
  have h3 : (l.filter fun x => !(fun e : α × β => decide (e.1 = k)) x) = l.filter (fun e => decide (e.1 ≠ k)) := by
    apply filter_congr; intro e _; simp
  rw [h3] at h1
  by_cases hpk : p (k, v) = true
  · simp only [hpk, if_true] at h2 ⊢
    simp only [filter_cons, filter_nil, hpk, if_true, length_cons, length_nil]; omega
  · simp only [hpk, Bool.false_eq_true, if_false] at h2 ⊢
    simp only [filter_cons, filter_nil, hpk, Bool.false_eq_true, if_false, length_nil]; omega

theorem erase_filter_length {α β : Type} [DecidableEq α] (l : List (α × β)) (k : α) (p : α × β → Bool) :
    ((l.filter (fun e => decide (e.1 ≠ k))).filter p).length + ((l.filter fun e => decide (e.1 = k)).filter p).length = (l.filter p).length := by
  have h1 := filter_length_split p (fun e => decide (e.1 = k)) l
  have h3 : (l.filter fun x => !(fun e : α × β => decide (e.1 = k)) x) = l.filter (fun e => decide (e.1 ≠ k)) := by
    apply filter_congr; intro e _; simp
  rw [h3] at h1
  omega

/-! ### permutations of concatenations -/

theorem flatMap_append_perm {α β : Type} (f g : α → List β) : ∀ l : List α,
    (l.flatMap fun x => f x ++ g x).Perm (l.flatMap f ++ l.flatMap g)
  | [] => Perm.refl _
  | a :: l => by
    simp only [flatMap_cons]
    have ih := flatMap_append_perm f g l
    calc (f a ++ g a) ++ (l.flatMap fun x => f x ++ g x)
        _ ~ (f a ++ g a) ++ (l.flatMap f ++ l.flatMap g) := Perm.append_left _ ih
        _ ~ (f a ++ l.flatMap f) ++ (g a ++ l.flatMap g) := by
          simp only [append_assoc]
          apply Perm.append_left
          rw [← append_assoc, ← append_assoc]
          exact Perm.append_right _ perm_append_comm

/-- looking the elements of a duplicate-free list `L` up in a list `as` whose keys are a sublist of
`L`: concatenating what is found, in the order of `L`, is concatenating over `as` -/
theorem flatMap_find_sublist {α κ β : Type} [DecidableEq κ] (key : α → κ) (val : α → List β) :
    ∀ (as : List α) (L : List κ), (as.map key).Sublist L → L.Nodup →
      (L.flatMap fun x => ((as.find? (fun a => decide (key a = x))).map val).getD []) = as.flatMap val
  | as, [], hs, _ => by
    have : as = [] := by simpa using hs
    subst this; rfl
  | as, x :: L, hs, nd => by
    rw [nodup_cons] at nd
    cases as with
    | nil =>
      simp only [flatMap_cons, find?_nil, Option.map_none, Option.getD_none, nil_append, flatMap_nil]
      have := flatMap_find_sublist key val [] L (by simp) nd.2
      simpa using this
    | cons a as =>
      simp only [map_cons] at hs
      by_cases hax : key a = x
      · -- the head of `as` is found at the head of `L`; the rest never matches `x` again
        subst hax
        have hs' : (as.map key).Sublist L := by
          cases hs with
          | cons _ h =>
            exact absurd (h.subset mem_cons_self) nd.1
          | cons_cons _ h => exact h
        have ih := flatMap_find_sublist key val as L hs' nd.2
        simp only [flatMap_cons, find?_cons_of_pos (p := fun b => decide (key b = key a)) (by simp : decide (key a = key a) = true),
          Option.map_some, Option.getD_some]
        congr 1
        rw [← ih]
        apply Sema.C16.flatMap_congr'
        intro y hy
        have : key a ≠ y := fun e => nd.1 (e ▸ hy)
        rw [find?_cons_of_neg (by simpa using this)]
      · have hs' : ((a :: as).map key).Sublist L := by
          cases hs with
          | cons _ h => exact h
          | cons_cons _ h => exact absurd rfl hax
        have ih := flatMap_find_sublist key val (a :: as) L hs' nd.2
        have hx : ((a :: as).find? fun b => decide (key b = x)) = none := by
          rw [find?_eq_none]; intro b hb; simp only [decide_eq_true_eq]
          intro hbx; apply nd.1; rw [← hbx]; exact hs'.subset (mem_map_of_mem (f := key) hb)
        simp only [flatMap_cons, hx, Option.map_none, Option.getD_none, nil_append]
        exact ih

/-- the ranges of a chain, cut out of the batch in order, are the batch between its ends -/
theorem chain_slices (sorted : List Pt) : ∀ (as : List C15.Assign) (a b : Nat), C15.Chain a as b → b ≤ sorted.length →
    as.flatMap (slice sorted) = (sorted.drop a).take (b - a)
  | [], a, b, h, _ => by
    simp only [C15.Chain] at h; subst h; simp
  | x :: xs, a, b, h, hb => by
    obtain ⟨h1, h2, h3⟩ := h
    have hle := (C15.chain_exactly_one h3).1
    have ih := chain_slices sorted xs x.hi b h3 hb
    simp only [flatMap_cons, ih, slice]
    subst h1
    have e1 : b - x.lo = (x.hi - x.lo) + (b - x.hi) := by omega
    rw [e1, take_add]
    congr 2
    rw [drop_drop]; congr 1; omega

/-! ### association lists, generically (the node database and the reference map have the same shape) -/

theorem aget_put {α β : Type} [DecidableEq α] (l : List (α × β)) (k k' : α) (v : β) :
    ((l.filter (fun e => decide (e.1 ≠ k)) ++ [(k, v)]).find? (fun e => decide (e.1 = k'))).map (·.2) =
      if k' = k then some v else (l.find? (fun e => decide (e.1 = k'))).map (·.2) := by
  rw [find?_append]
  by_cases h : k' = k
  · subst h
    rw [find?_filter_self (fun e : α × β => e.1)]
    simp
  · rw [find?_filter_ne (fun e : α × β => e.1) h]
    cases hf : l.find? (fun e => decide (e.1 = k')) with
    | some e => simp [h]
    | none => simp [h, Ne.symm h]

theorem aget_erase {α β : Type} [DecidableEq α] (l : List (α × β)) (k k' : α) :
    ((l.filter (fun e => decide (e.1 ≠ k))).find? (fun e => decide (e.1 = k'))).map (·.2) =
      if k' = k then none else (l.find? (fun e => decide (e.1 = k'))).map (·.2) := by
  by_cases h : k' = k
  · subst h
    rw [find?_filter_self (fun e : α × β => e.1)]
    simp
  · rw [find?_filter_ne (fun e : α × β => e.1) h]
    simp [h]

theorem aput_keys_nodup {α β : Type} [DecidableEq α] {l : List (α × β)} (nd : (l.map (·.1)).Nodup) (k : α) (v : β) :
    ((l.filter (fun e => decide (e.1 ≠ k)) ++ [(k, v)]).map (·.1)).Nodup := by
  rw [map_append, nodup_append]
  refine ⟨(nd.sublist ((filter_sublist (l := l)).map _)), by simp, ?_⟩
  intro a ha b hb
  simp only [map_cons, map_nil, mem_singleton] at hb
  subst hb
  obtain ⟨e, he, rfl⟩ := mem_map.mp ha
  simpa using (mem_filter.mp he).2

theorem refGet_put (m : Ref) (k k' : Bytes × Bytes) (v : RColl) :
    refGet (refPut m k v) k' = if k' = k then some v else refGet m k' := aget_put m k k' v
theorem refGet_erase (m : Ref) (k k' : Bytes × Bytes) :
    refGet (refErase m k) k' = if k' = k then none else refGet m k' := aget_erase m k k'
theorem refPut_keys_nodup {m : Ref} (nd : (m.map (·.1)).Nodup) (k : Bytes × Bytes) (v : RColl) :
    ((refPut m k v).map (·.1)).Nodup := aput_keys_nodup nd k v
theorem refErase_keys_nodup {m : Ref} (nd : (m.map (·.1)).Nodup) (k : Bytes × Bytes) :
    ((refErase m k).map (·.1)).Nodup := nd.sublist ((filter_sublist (l := m)).map _)

/-- a filtered count after writing the entry of key `k` (`pk` = what the filter says about key `k`) -/
theorem acount_put {α β : Type} [DecidableEq α] {l : List (α × β)} (nd : (l.map (·.1)).Nodup) (k : α) (v : β)
    (p : α × β → Bool) (pk : Prop) [Decidable pk] (hp : ∀ e : α × β, e.1 = k → p e = decide pk) :
    ((l.filter (fun e => decide (e.1 ≠ k)) ++ [(k, v)]).filter p).length =
      (l.filter p).length + (if pk ∧ (l.find? (fun e => decide (e.1 = k))).map (·.2) = none then 1 else 0) := by
  have hkv : p (k, v) = decide pk := hp (k, v) rfl
  have h := put_filter_length l k v p (by intro e he; rw [hp e he, hkv])
  rw [hkv] at h
  cases hg : (l.find? (fun e => decide (e.1 = k))).map (·.2) with
  | none =>
    have : (l.filter fun e => decide (e.1 = k)) = [] := count_key_of_none (by simpa using hg)
    rw [this] at h
    by_cases hpk : pk <;> simp [hpk] at h ⊢ <;> omega
  | some w =>
    have := count_key_of_get nd hg
    rw [this] at h
    by_cases hpk : pk <;> simp [hpk] at h ⊢ <;> omega

theorem acount_erase {α β : Type} [DecidableEq α] {l : List (α × β)} (nd : (l.map (·.1)).Nodup) (k : α)
    (p : α × β → Bool) (pk : Prop) [Decidable pk] (hp : ∀ e : α × β, e.1 = k → p e = decide pk) :
    ((l.filter (fun e => decide (e.1 ≠ k))).filter p).length +
        (if pk ∧ ((l.find? (fun e => decide (e.1 = k))).map (·.2)).isSome then 1 else 0) = (l.filter p).length := by
  have h := erase_filter_length l k p
  have hsame : ((l.filter fun e => decide (e.1 = k)).filter p).length =
      if pk then (l.filter fun e => decide (e.1 = k)).length else 0 := by
    by_cases hpk : pk
    · rw [if_pos hpk]; congr 1
      rw [filter_eq_self]; intro e he
      rw [hp e (by simpa using (mem_filter.mp he).2)]; simpa using hpk
    · rw [if_neg hpk]
      have : ((l.filter fun e => decide (e.1 = k)).filter p) = [] := by
        rw [filter_eq_nil_iff]; intro e he
        rw [hp e (by simpa using (mem_filter.mp he).2)]; simpa using hpk
      rw [this]; rfl
  rw [hsame] at h
  cases hg : (l.find? (fun e => decide (e.1 = k))).map (·.2) with
  | none =>
    have : (l.filter fun e => decide (e.1 = k)) = [] := count_key_of_none (by simpa using hg)
    rw [this] at h
    by_cases hpk : pk <;> simp [hpk] at h ⊢ <;> omega
  | some w =>
    have := count_key_of_get nd hg
    rw [this] at h
    by_cases hpk : pk <;> simp [hpk] at h ⊢ <;> omega

/-- the number of collections of `u'` after writing the collection `(u, col)` -/
theorem refCount_put_new {m : Ref} (nd : (m.map (·.1)).Nodup) (u col u' : Bytes) (v : RColl)
    (hg : refGet m (u, col) = none) :
    refCount (refPut m (u, col) v) u' = refCount m u' + (if u = u' then 1 else 0) := by
  have := acount_put nd (u, col) v (fun e => decide (e.1.1 = u')) (u = u') (by intro e he; simp [he])
  unfold refGet at hg
  unfold refCount refPut
  rw [hg] at this
  rw [this]
  by_cases h : u = u' <;> simp [h]

theorem refCount_put_old {m : Ref} (nd : (m.map (·.1)).Nodup) (u col u' : Bytes) (v : RColl) {rc : RColl}
    (hg : refGet m (u, col) = some rc) : refCount (refPut m (u, col) v) u' = refCount m u' := by
  have := acount_put nd (u, col) v (fun e => decide (e.1.1 = u')) (u = u') (by intro e he; simp [he])
  unfold refGet at hg
  unfold refCount refPut
  rw [hg] at this
  rw [this]
  simp

theorem refCount_erase {m : Ref} (nd : (m.map (·.1)).Nodup) (u col u' : Bytes) {rc : RColl}
    (hg : refGet m (u, col) = some rc) :
    refCount (refErase m (u, col)) u' + (if u = u' then 1 else 0) = refCount m u' := by
  have := acount_erase nd (u, col) (fun e => decide (e.1.1 = u')) (u = u') (by intro e he; simp [he])
  unfold refGet at hg
  unfold refCount refErase
  rw [hg] at this
  rw [← this]
  by_cases h : u = u' <;> simp [h]

/-- the same for the node database: `PrefixScan(user ++ "/")` after writing / deleting the key `user/collection` -/
theorem dbScan_put_new {db : List (Bytes × Rec)} (nd : (db.map (·.1)).Nodup) {u u' : Bytes} (col : Bytes) (v : Rec)
    (hu : C16.slash ∉ u) (hu' : C16.slash ∉ u') (hg : dbGet db (C16.key u col) = none) :
    (dbScan (dbPut db (C16.key u col) v) (C16.scanPrefix u')).length =
      (dbScan db (C16.scanPrefix u')).length + (if u = u' then 1 else 0) := by
  have := acount_put nd (C16.key u col) v (fun e => decide (C16.scanPrefix u' <+: e.1)) (u = u')
    (by intro e he; rw [he]; simp only [C16.C16_prefix hu' hu])
  unfold dbGet at hg
  unfold dbScan dbPut
  rw [hg] at this
  rw [this]
  by_cases h : u = u' <;> simp [h]

theorem dbScan_put_old {db : List (Bytes × Rec)} (nd : (db.map (·.1)).Nodup) {u u' : Bytes} (col : Bytes) (v : Rec)
    (hu : C16.slash ∉ u) (hu' : C16.slash ∉ u') {rec : Rec} (hg : dbGet db (C16.key u col) = some rec) :
    (dbScan (dbPut db (C16.key u col) v) (C16.scanPrefix u')).length = (dbScan db (C16.scanPrefix u')).length := by
  have := acount_put nd (C16.key u col) v (fun e => decide (C16.scanPrefix u' <+: e.1)) (u = u')
    (by intro e he; rw [he]; simp only [C16.C16_prefix hu' hu])
  unfold dbGet at hg
  unfold dbScan dbPut
  rw [hg] at this
  rw [this]
  simp

theorem dbScan_erase {db : List (Bytes × Rec)} (nd : (db.map (·.1)).Nodup) {u u' : Bytes} (col : Bytes)
    (hu : C16.slash ∉ u) (hu' : C16.slash ∉ u') {rec : Rec} (hg : dbGet db (C16.key u col) = some rec) :
    (dbScan (dbErase db (C16.key u col)) (C16.scanPrefix u')).length + (if u = u' then 1 else 0) =
      (dbScan db (C16.scanPrefix u')).length := by
  have := acount_erase nd (C16.key u col) (fun e => decide (C16.scanPrefix u' <+: e.1)) (u = u')
    (by intro e he; rw [he]; simp only [C16.C16_prefix hu' hu])
  unfold dbGet at hg
  unfold dbScan dbErase
  rw [hg] at this
  rw [← this]
  by_cases h : u = u' <;> simp [h]

/-! ### the invariant and the refinement relation -/

def ptsOf (col : C17.Coll) : List Pt := col.flatMap (·.pts)

theorem ids_eq (col : C17.Coll) : C17.Coll.ids col = (ptsOf col).map (·.1) := by
  simp only [C17.Coll.ids, ptsOf, map_flatMap]; rfl

section inv
variable (r : Bytes → Name)

/-- where things are: every record under its own key at the owner of its user; every shard directory
at the owner of its shard id and listed in the record of its collection; shard ids of a record
distinct; point ids unique per collection (C17's `Uniq`) -/
structure Inv (c : Cluster) : Prop where
  recWF : ∀ n k rec, dbGet (c.db n) k = some rec → k = C16.key rec.user rec.coll ∧ n = r rec.user ∧ C16.slash ∉ rec.user
  dbNodup : ∀ n, ((c.db n).map (·.1)).Nodup
  shWF : ∀ n k P, c.sh n k = some P → n = r (sidKey k.sid) ∧
      ∃ rec, getRec r c k.user k.coll = some rec ∧ rec.user = k.user ∧ rec.coll = k.coll ∧ k.sid ∈ rec.shards
  shardsNodup : ∀ n k rec, dbGet (c.db n) k = some rec → rec.shards.Nodup
  uniq : ∀ n k rec, dbGet (c.db n) k = some rec → C17.Uniq (gather r c rec)

/-- the cluster, read through the routing function, is the reference map -/
structure Rel (m : Ref) (c : Cluster) : Prop where
  keys : (m.map (·.1)).Nodup
  users : ∀ e ∈ m, C16.slash ∉ e.1.1
  hit : ∀ u col rc, refGet m (u, col) = some rc → ∃ rec, getRec r c u col = some rec ∧
      rec.quota = rc.quota ∧ (ptsOf (gather r c rec)).Perm rc.pts
  miss : ∀ u col, C16.slash ∉ u → refGet m (u, col) = none → getRec r c u col = none
  count : ∀ u, C16.slash ∉ u → (dbScan (c.db (r u)) (C16.scanPrefix u)).length = refCount m u

variable {r}

theorem refGet_mem {m : Ref} {k : Bytes × Bytes} {rc : RColl} (h : refGet m k = some rc) : (k, rc) ∈ m := by
  unfold refGet at h
  cases hf : m.find? (fun e => decide (e.1 = k)) with
  | none => rw [hf] at h; cases h
  | some e =>
    rw [hf] at h
    have h1 := find?_some hf
    have h2 := mem_of_find?_eq_some hf
    simp at h h1
    subst h; subst h1; exact h2

theorem Rel.user_ok {m : Ref} {c : Cluster} (hR : Rel r m c) {u col : Bytes} {rc : RColl} (h : refGet m (u, col) = some rc) :
    C16.slash ∉ u := hR.users _ (refGet_mem h)

/-- the record fetched for `(u, col)` is the record of `(u, col)` -/
theorem Inv.fields {c : Cluster} (hI : Inv r c) {u col : Bytes} {rec : Rec} (hu : C16.slash ∉ u)
    (h : getRec r c u col = some rec) : rec.user = u ∧ rec.coll = col := by
  obtain ⟨hk, _, hs⟩ := hI.recWF _ _ _ h
  obtain ⟨h1, h2⟩ := C16.C16_key_inj hu hs hk
  exact ⟨h1.symm, h2.symm⟩

theorem Inv.getRec_of {c : Cluster} (hI : Inv r c) {n k : Bytes} {rec : Rec} (h : dbGet (c.db n) k = some rec) :
    getRec r c rec.user rec.coll = some rec := by
  obtain ⟨hk, hn, _⟩ := hI.recWF _ _ _ h
  unfold getRec; rw [← hk, ← hn]; exact h

/-- the node database after ONE slot (server `r u`, key `u/col`) was written (`v = some _`) or deleted -/
def DbAt (u col : Bytes) (v : Option Rec) (c c' : Cluster) : Prop :=
  ∀ n k, dbGet (c'.db n) k = if n = r u ∧ k = C16.key u col then v else dbGet (c.db n) k

theorem dbAt_put (c : Cluster) (u col : Bytes) (v : Rec) :
    DbAt (r := r) u col (some v) c (setDb c (r u) (dbPut (c.db (r u)) (C16.key u col) v)) := by
  intro n k
  by_cases hn : n = r u
  · subst hn
    rw [setDb_db_same, dbGet_put]
    by_cases hk : k = C16.key u col <;> simp [hk]
  · rw [setDb_db_other _ _ hn]; simp [hn]

theorem dbAt_erase (c : Cluster) (u col : Bytes) :
    DbAt (r := r) u col none c (setDb c (r u) (dbErase (c.db (r u)) (C16.key u col))) := by
  intro n k
  by_cases hn : n = r u
  · subst hn
    rw [setDb_db_same, dbGet_erase]
    by_cases hk : k = C16.key u col <;> simp [hk]
  · rw [setDb_db_other _ _ hn]; simp [hn]

theorem DbAt.getRec {u col : Bytes} {v : Option Rec} {c c' : Cluster} (h : DbAt (r := r) u col v c c')
    (hu : C16.slash ∉ u) {u2 : Bytes} (col2 : Bytes) (hu2 : C16.slash ∉ u2) :
    getRec r c' u2 col2 = if u2 = u ∧ col2 = col then v else getRec r c u2 col2 := by
  unfold ClusterCompose.getRec
  rw [h]
  by_cases hk : C16.key u2 col2 = C16.key u col
  · obtain ⟨h1, h2⟩ := C16.C16_key_inj hu2 hu hk
    subst h1; subst h2; simp
  · have : ¬ (u2 = u ∧ col2 = col) := fun e => hk (by rw [e.1, e.2])
    simp [hk, this]

/-- `gather` only reads the shard store -/
theorem gather_sh {c c' : Cluster} (h : c'.sh = c.sh) (rec : Rec) : gather r c' rec = gather r c rec := by
  simp [gather, contents, h]

/-- `Inv` after one slot of a node database changed (shard store untouched): the new record is the
record of `(u, col)`, lists at least the shards the old one listed, and is `Uniq` -/
theorem inv_dbAt {c c' : Cluster} {u col : Bytes} {v : Option Rec} (hI : Inv r c) (hsh : c'.sh = c.sh)
    (hdb : DbAt (r := r) u col v c c') (hnd : ∀ n, ((c'.db n).map (·.1)).Nodup) (hu : C16.slash ∉ u)
    (hv : ∀ rv, v = some rv → rv.user = u ∧ rv.coll = col ∧ rv.shards.Nodup ∧ C17.Uniq (gather r c rv))
    (hkeep : ∀ rec0, getRec r c u col = some rec0 → ∃ rv, v = some rv ∧ ∀ sid ∈ rec0.shards, sid ∈ rv.shards) :
    Inv r c' := by
  have hcase : ∀ n k rec, dbGet (c'.db n) k = some rec →
      (n = r u ∧ k = C16.key u col ∧ v = some rec) ∨ dbGet (c.db n) k = some rec := by
    intro n k rec h
    rw [hdb] at h
    by_cases hs : n = r u ∧ k = C16.key u col
    · rw [if_pos hs] at h; exact Or.inl ⟨hs.1, hs.2, h⟩
    · rw [if_neg hs] at h; exact Or.inr h
  refine ⟨?_, hnd, ?_, ?_, ?_⟩
  · intro n k rec h
    rcases hcase n k rec h with ⟨hn, hk, hrv⟩ | h
    · obtain ⟨h1, h2, _, _⟩ := hv rec hrv
      rw [h1, h2]; exact ⟨hk, hn, hu⟩
    · exact hI.recWF n k rec h
  · intro n k P h
    rw [hsh] at h
    obtain ⟨hn, rec, hg, h1, h2, h3⟩ := hI.shWF n k P h
    refine ⟨hn, ?_⟩
    have hku : C16.slash ∉ k.user := by rw [← h1]; exact (hI.recWF _ _ _ hg).2.2
    rw [hdb.getRec hu k.coll hku]
    by_cases hs : k.user = u ∧ k.coll = col
    · rw [if_pos hs]
      rw [hs.1, hs.2] at hg
      obtain ⟨rv, hrv, hsub⟩ := hkeep rec hg
      obtain ⟨e1, e2, _, _⟩ := hv rv hrv
      exact ⟨rv, hrv, by rw [e1, hs.1], by rw [e2, hs.2], hsub _ h3⟩
    · rw [if_neg hs]; exact ⟨rec, hg, h1, h2, h3⟩
  · intro n k rec h
    rcases hcase n k rec h with ⟨_, _, hrv⟩ | h
    · exact (hv rec hrv).2.2.1
    · exact hI.shardsNodup n k rec h
  · intro n k rec h
    rw [gather_sh hsh]
    rcases hcase n k rec h with ⟨_, _, hrv⟩ | h
    · exact (hv rec hrv).2.2.2
    · exact hI.uniq n k rec h

/-! ### a batch of shard writes into ONE collection -/

section writes
variable {τ : Type} (c : Cluster) (rec : Rec) (T : List τ) (sidOf : τ → String) (newC : τ → List Pt)

/-- the writes: element `x` of `T` replaces the content of shard `sidOf x` of the collection by `newC x` -/
def wsOf : Writes := T.map fun x => (r (sidKey (sidOf x)), skey rec (sidOf x), newC x)

/-- … and what a shard of the collection holds afterwards -/
def newContents (sid : String) : List Pt :=
  match T.find? (fun x => decide (sidOf x = sid)) with
  | some x => newC x
  | none => contents r c rec sid

theorem skey_inj {rec : Rec} {a b : String} (h : skey rec a = skey rec b) : a = b := by
  simp only [skey, SKey.mk.injEq] at h; exact h.2.2

theorem contents_writes_same (sid : String) :
    contents r (applyWrites c (wsOf (r := r) rec T sidOf newC)) rec sid = newContents (r := r) c rec T sidOf newC sid := by
  unfold contents newContents
  simp only [applyWrites, wsOf, find?_map]
  have hp : T.find? ((fun w : Name × SKey × List Pt => decide (w.1 = r (sidKey sid) ∧ w.2.1 = skey rec sid)) ∘
      fun x => (r (sidKey (sidOf x)), skey rec (sidOf x), newC x)) = T.find? (fun x => decide (sidOf x = sid)) := by
    apply find?_congr'
    intro x _
    simp only [Function.comp]
    by_cases hx : sidOf x = sid
    · simp [hx]
    · have : skey rec (sidOf x) ≠ skey rec sid := fun e => hx (skey_inj e)
      simp [hx, this]
  rw [hp]
  cases T.find? (fun x => decide (sidOf x = sid)) <;> rfl

theorem contents_writes_other (rec2 : Rec) (hne : ¬ (rec2.user = rec.user ∧ rec2.coll = rec.coll)) (sid : String) :
    contents r (applyWrites c (wsOf (r := r) rec T sidOf newC)) rec2 sid = contents r c rec2 sid := by
  unfold contents
  rw [applyWrites_miss]
  intro w hw
  obtain ⟨x, _, rfl⟩ := mem_map.mp hw
  intro h
  apply hne
  have := h.2
  simp only [skey, SKey.mk.injEq] at this
  exact ⟨this.1.symm, this.2.1.symm⟩

theorem gather_writes_same :
    gather r (applyWrites c (wsOf (r := r) rec T sidOf newC)) rec =
      rec.shards.map fun sid => ⟨newContents (r := r) c rec T sidOf newC sid, true⟩ := by
  unfold gather
  exact map_congr_left fun sid _ => by rw [contents_writes_same]

theorem gather_writes_other (rec2 : Rec) (hne : ¬ (rec2.user = rec.user ∧ rec2.coll = rec.coll)) :
    gather r (applyWrites c (wsOf (r := r) rec T sidOf newC)) rec2 = gather r c rec2 := by
  unfold gather
  exact map_congr_left fun sid _ => by rw [contents_writes_other c rec T sidOf newC rec2 hne]

variable {c rec T sidOf newC}

/-- `Inv` after the writes: every written shard is listed, and the collection stays `Uniq` -/
theorem inv_writes (hI : Inv r c) (hg : getRec r c rec.user rec.coll = some rec)
    (hT : ∀ x ∈ T, sidOf x ∈ rec.shards)
    (huniq : C17.Uniq (rec.shards.map fun sid => ⟨newContents (r := r) c rec T sidOf newC sid, true⟩)) :
    Inv r (applyWrites c (wsOf (r := r) rec T sidOf newC)) := by
  refine ⟨hI.recWF, hI.dbNodup, ?_, hI.shardsNodup, ?_⟩
  · intro n k P h
    rcases applyWrites_cases _ _ _ _ _ h with h | ⟨w, hw, h1, h2, _⟩
    · exact hI.shWF n k P h
    · obtain ⟨x, hx, rfl⟩ := mem_map.mp hw
      simp only at h1 h2
      subst h1; subst h2
      exact ⟨rfl, rec, hg, rfl, rfl, hT x hx⟩
  · intro n k rec2 h
    by_cases hs : rec2.user = rec.user ∧ rec2.coll = rec.coll
    · have h2 := hI.getRec_of h
      rw [hs.1, hs.2, hg] at h2
      cases h2
      rw [gather_writes_same]; exact huniq
    · rw [gather_writes_other c rec T sidOf newC rec2 hs]; exact hI.uniq n k rec2 h

/-- `Rel` after the writes: the reference collection becomes any list the new contents are a permutation of -/
theorem rel_writes {m : Ref} {rc : RColl} (hI : Inv r c) (hR : Rel r m c) (hm : refGet m (rec.user, rec.coll) = some rc)
    (hg : getRec r c rec.user rec.coll = some rec) (P' : List Pt)
    (hperm : (ptsOf (rec.shards.map fun sid => (⟨newContents (r := r) c rec T sidOf newC sid, true⟩ : C17.Shard))).Perm P') :
    Rel r (refPut m (rec.user, rec.coll) { rc with pts := P' }) (applyWrites c (wsOf (r := r) rec T sidOf newC)) := by
  have hus := hR.user_ok hm
  refine ⟨refPut_keys_nodup hR.keys _ _, ?_, ?_, ?_, ?_⟩
  · intro e he
    simp only [refPut, mem_append, mem_filter, mem_singleton] at he
    rcases he with he | rfl
    · exact hR.users e he.1
    · exact hus
  · intro u2 col2 rc2 h2
    rw [refGet_put] at h2
    by_cases hk : (u2, col2) = (rec.user, rec.coll)
    · rw [if_pos hk] at h2
      cases h2
      cases hk
      obtain ⟨rec0, hg0, hq, _⟩ := hR.hit _ _ _ hm
      have hg' : getRec r (applyWrites c (wsOf (r := r) rec T sidOf newC)) rec.user rec.coll = some rec := hg
      rw [hg] at hg0; cases hg0
      exact ⟨rec, hg', hq, by rw [gather_writes_same]; exact hperm⟩
    · rw [if_neg hk] at h2
      obtain ⟨rec2, hg2, hq, hp⟩ := hR.hit _ _ _ h2
      have hf := hI.fields (hR.user_ok h2) hg2
      have hne : ¬ (rec2.user = rec.user ∧ rec2.coll = rec.coll) := by
        rw [hf.1, hf.2]; intro e; exact hk (by rw [e.1, e.2])
      exact ⟨rec2, hg2, hq, by rw [gather_writes_other c rec T sidOf newC rec2 hne]; exact hp⟩
  · intro u2 col2 hu2 h2
    rw [refGet_put] at h2
    by_cases hk : (u2, col2) = (rec.user, rec.coll)
    · rw [if_pos hk] at h2; cases h2
    · rw [if_neg hk] at h2
      exact hR.miss u2 col2 hu2 h2
  · intro u2 hu2
    rw [refCount_put_old hR.keys _ _ _ _ hm]
    exact hR.count u2 hu2

end writes

end inv

end Sema.ClusterCompose
