/-
ClusterCompose — `Sync` after a change of the server list.  The cluster at rest is a C14 state
(`syncView`); C14's `round` under the configuration for the NEW list (`syncCfg`: routing = C13's
`owner` over the new list) is what the start-up synchronisation does; `C14_converges` says where
everything is afterwards (`Placed`).  Here: that placement is again a state with `Inv` and `Rel` — for
the new routing function — and it moved nothing whose owner did not change.
-/
import SemaModel.ClusterCompose.Isolation
import SemaModel.C14.Props
namespace Sema.ClusterCompose
open Sema List

/-- records and shard contents are written injectively; a shard file is never empty -/
structure EncOK (enc : Enc) : Prop where
  recInj : ∀ a b, enc.ofRec a = enc.ofRec b → a = b
  ptsInj : ∀ a b, enc.ofPts a = enc.ofPts b → a = b
  ptsNe : ∀ P, enc.ofPts P ≠ []

/-- the originals of C14: what the owner under the OLD routing holds -/
def roOf (enc : Enc) (r : Bytes → Name) (c : Cluster) : SKey → Option C14.Content := fun k => viewRecs enc c (r k.user) k
def foOf (enc : Enc) (r : Bytes → Name) (c : Cluster) : SKey → Option C14.Content := fun k => viewFiles enc c (r (sidKey k.sid)) k

variable {r r' : Bytes → Name}

theorem map_inj {α β : Type} {f : α → β} (hf : ∀ a b, f a = f b → a = b) {x y : Option α} (h : x.map f = y.map f) : x = y := by
  cases x <;> cases y <;> simp at h ⊢
  exact hf _ _ h

/-- a cluster with `Inv` is an initial state of C14 (every copy is the original, one copy each,
nothing in flight), whatever the new configuration, if every node is started -/
theorem init_of_inv (enc : Enc) {c : Cluster} (hI : Inv r c) (cfg' : C14.Cfg Name SKey) (hup : ∀ n, cfg'.up n = true) :
    C14.Init cfg' (roOf enc r c) (foOf enc r c) (syncView enc c) := by
  refine ⟨?_, ?_, ?_, ?_, ?_, fun _ _ => rfl, fun _ _ => rfl, fun n _ _ => hup n⟩
  · intro n k v h
    simp only [syncView, viewRecs] at h
    simp only [roOf, viewRecs]
    split at h
    · rename_i hc
      rw [if_pos hc]
      cases hg : dbGet (c.db n) (C16.key k.user k.coll) with
      | none => rw [hg] at h; cases h
      | some rec =>
        obtain ⟨hk, hn, hs⟩ := hI.recWF _ _ _ hg
        obtain ⟨e1, _⟩ := C16.C16_key_inj hc.2 hs hk
        have hnk : r k.user = n := by rw [e1, hn]
        rw [hnk]; exact h
    · cases h
  · intro k v h; exact ⟨_, h⟩
  · intro n k v h
    simp only [syncView, viewFiles] at h
    simp only [foOf, viewFiles]
    cases hg : c.sh n k with
    | none => rw [hg] at h; cases h
    | some P =>
      obtain ⟨hn, _⟩ := hI.shWF _ _ _ hg
      rw [← hn]; exact h
  · intro k v h; exact ⟨_, h⟩
  · intro n n' k h1 h2
    simp only [syncView, viewFiles, Option.isSome_map] at h1 h2
    obtain ⟨P, hP⟩ := Option.isSome_iff_exists.mp h1
    obtain ⟨P', hP'⟩ := Option.isSome_iff_exists.mp h2
    rw [(hI.shWF _ _ _ hP).1, (hI.shWF _ _ _ hP').1]

/-- `c'` represents the C14 state `st` (the node databases of `c'` as lists: keys distinct, records
under their own keys — C14's record map is a function of the key) -/
structure SyncedTo (enc : Enc) (c' : Cluster) (st : C14.St Name SKey) : Prop where
  recs : ∀ n k, viewRecs enc c' n k = st.recs n k
  files : ∀ n k, viewFiles enc c' n k = st.files n k
  wf : RecWF c'
  nodup : ∀ n, ((c'.db n).map (·.1)).Nodup

/-- everything of `c` sits in `c'` at its owner under `r'`, and nothing else is anywhere -/
structure MovedTo (r r' : Bytes → Name) (c c' : Cluster) : Prop where
  sh : ∀ n k, c'.sh n k = if n = r' (sidKey k.sid) then c.sh (r (sidKey k.sid)) k else none
  db : ∀ n u col, C16.slash ∉ u → dbGet (c'.db n) (C16.key u col) = if n = r' u then dbGet (c.db (r u)) (C16.key u col) else none
  wf : RecWF c'
  nodup : ∀ n, ((c'.db n).map (·.1)).Nodup

theorem movedTo_of_placed {enc : Enc} (henc : EncOK enc) {c c' : Cluster} {cfg' : C14.Cfg Name SKey} {st : C14.St Name SKey}
    (ho : ∀ k, cfg'.owner k = r' k.user) (hf : ∀ k, cfg'.fowner k = r' (sidKey k.sid))
    (hp : C14.Placed cfg' (roOf enc r c) (foOf enc r c) st) (hs : SyncedTo enc c' st) : MovedTo r r' c c' := by
  refine ⟨?_, ?_, hs.wf, hs.nodup⟩
  · intro n k
    have := hs.files n k
    rw [hp.2 n k, hf] at this
    simp only [viewFiles, foOf] at this
    by_cases hn : n = r' (sidKey k.sid)
    · rw [if_pos hn] at this ⊢; exact map_inj henc.ptsInj this
    · rw [if_neg hn] at this ⊢
      cases h : c'.sh n k with
      | none => rfl
      | some P => rw [h] at this; cases this
  · intro n u col hu
    have := hs.recs n ⟨u, col, ""⟩
    rw [hp.1 n ⟨u, col, ""⟩, ho] at this
    simp only [viewRecs, roOf, hu, not_false_eq_true, and_self, if_true] at this
    by_cases hn : n = r' u
    · rw [if_pos hn] at this ⊢; exact map_inj henc.recInj this
    · rw [if_neg hn] at this ⊢
      cases h : dbGet (c'.db n) (C16.key u col) with
      | none => rfl
      | some rec => rw [h] at this; cases this

/-- two buckets with distinct keys that agree on every key selected by `P` have equally many
entries selected by `P` -/
theorem scan_length_eq {l l' : List (Bytes × Rec)} (nd : (l.map (·.1)).Nodup) (nd' : (l'.map (·.1)).Nodup) (P : Bytes → Bool)
    (h : ∀ k, P k = true → dbGet l k = dbGet l' k) :
    (l.filter fun e => P e.1).length = (l'.filter fun e => P e.1).length := by
  have key : ∀ {a b : List (Bytes × Rec)}, (a.map (·.1)).Nodup → (b.map (·.1)).Nodup → (∀ k, P k = true → dbGet a k = dbGet b k) →
      ∀ k, k ∈ (a.filter fun e => P e.1).map (·.1) → k ∈ (b.filter fun e => P e.1).map (·.1) := by
    intro a b na _ hab k hk
    obtain ⟨e, he, rfl⟩ := mem_map.mp hk
    obtain ⟨hm, hp⟩ := mem_filter.mp he
    have hg : dbGet a e.1 = some e.2 := dbGet_of_mem na hm
    rw [hab e.1 hp] at hg
    exact mem_map.mpr ⟨(e.1, e.2), mem_filter.mpr ⟨dbGet_mem hg, hp⟩, rfl⟩
  have n1 : ((l.filter fun e => P e.1).map (·.1)).Nodup := nd.sublist ((filter_sublist (l := l)).map _)
  have n2 : ((l'.filter fun e => P e.1).map (·.1)).Nodup := nd'.sublist ((filter_sublist (l := l')).map _)
  have := (perm_ext_iff_of_nodup n1 n2).mpr (fun k => ⟨key nd nd' h k, key nd' nd (fun k hk => (h k hk).symm) k⟩)
  simpa using this.length_eq

theorem prefix_is_key {u k : Bytes} (h : C16.scanPrefix u <+: k) : ∃ col, k = C16.key u col := by
  obtain ⟨t, rfl⟩ := h
  exact ⟨t, by simp [C16.scanPrefix, C16.key]⟩

/-- **the relocated cluster refines the same reference map, for the new routing function** -/
theorem moved_refines {c c' : Cluster} {m : Ref} (hI : Inv r c) (hR : Rel r m c) (hm : MovedTo r r' c c') :
    Inv r' c' ∧ Rel r' m c' := by
  have hG : ∀ u col, C16.slash ∉ u → getRec r' c' u col = getRec r c u col := by
    intro u col hu
    unfold getRec
    rw [hm.db _ u col hu, if_pos rfl]
  have hC : ∀ rec sid, contents r' c' rec sid = contents r c rec sid := by
    intro rec sid
    unfold contents
    rw [hm.sh]; simp [skey]
  have hgather : ∀ rec, gather r' c' rec = gather r c rec := fun rec => by
    unfold gather; exact map_congr_left fun sid _ => by rw [hC]
  have hback : ∀ n k rec, dbGet (c'.db n) k = some rec → n = r' rec.user ∧ getRec r c rec.user rec.coll = some rec := by
    intro n k rec h
    obtain ⟨hk, hs⟩ := hm.wf n k rec h
    rw [hk, hm.db n _ _ hs] at h
    by_cases hn : n = r' rec.user
    · rw [if_pos hn] at h; exact ⟨hn, h⟩
    · rw [if_neg hn] at h; cases h
  constructor
  · refine ⟨?_, hm.nodup, ?_, ?_, ?_⟩
    · intro n k rec h
      obtain ⟨hk, hs⟩ := hm.wf n k rec h
      exact ⟨hk, (hback n k rec h).1, hs⟩
    · intro n k P h
      rw [hm.sh] at h
      by_cases hn : n = r' (sidKey k.sid)
      · rw [if_pos hn] at h
        obtain ⟨_, rec, hg, e1, e2, e3⟩ := hI.shWF _ _ _ h
        have hku : C16.slash ∉ k.user := by rw [← e1]; exact (hI.recWF _ _ _ hg).2.2
        exact ⟨hn, rec, by rw [hG _ _ hku]; exact hg, e1, e2, e3⟩
      · rw [if_neg hn] at h; cases h
    · intro n k rec h; exact hI.shardsNodup _ _ _ (hback n k rec h).2
    · intro n k rec h; rw [hgather]; exact hI.uniq _ _ _ (hback n k rec h).2
  · refine ⟨hR.keys, hR.users, ?_, ?_, ?_⟩
    · intro u col rc h
      obtain ⟨rec, hg, hq, hp⟩ := hR.hit u col rc h
      exact ⟨rec, by rw [hG _ _ (hR.user_ok h)]; exact hg, hq, by rw [hgather]; exact hp⟩
    · intro u col hu h
      rw [hG _ _ hu]; exact hR.miss u col hu h
    · intro u hu
      rw [← hR.count u hu]
      exact scan_length_eq (hm.nodup _) (hI.dbNodup _) (fun k => decide (C16.scanPrefix u <+: k)) (fun k hk => by
        obtain ⟨col, rfl⟩ := prefix_is_key (by simpa using hk)
        rw [hm.db _ u col hu, if_pos rfl])

/-- **minimal disruption at the data level**: a record / shard directory whose owner is the same
under both lists is, on EVERY server, exactly as before -/
theorem moved_minimal {c c' : Cluster} (hI : Inv r c) (hm : MovedTo r r' c c') :
    (∀ k : SKey, r' (sidKey k.sid) = r (sidKey k.sid) → ∀ n, c'.sh n k = c.sh n k) ∧
    (∀ u col, C16.slash ∉ u → r' u = r u → ∀ n, dbGet (c'.db n) (C16.key u col) = dbGet (c.db n) (C16.key u col)) := by
  constructor
  · intro k he n
    rw [hm.sh, he]
    by_cases hn : n = r (sidKey k.sid)
    · rw [if_pos hn, hn]
    · rw [if_neg hn]
      cases h : c.sh n k with
      | none => rfl
      | some P => exact absurd (hI.shWF _ _ _ h).1 hn
  · intro u col hu he n
    rw [hm.db n u col hu, he]
    by_cases hn : n = r u
    · rw [if_pos hn, hn]
    · rw [if_neg hn]
      cases h : dbGet (c.db n) (C16.key u col) with
      | none => rfl
      | some rec =>
        obtain ⟨hk, hn', hs⟩ := hI.recWF _ _ _ h
        obtain ⟨e1, _⟩ := C16.C16_key_inj hu hs hk
        exact absurd (by rw [hn', e1]) hn

/-- where C13 says whose owner changes: a server ADDED to the list takes keys only for itself … -/
theorem route_add (h : Bytes → Nat) {S S' : List Name} (x : Name) (key : Bytes) (nt : C13.NoTies h key S') (p : S'.Perm (x :: S)) : routeOf h S' key = x ∨ routeOf h S' key = routeOf h S key := by
  unfold routeOf
  rcases C13.C13_add h key x nt p with e | e
  · left; rw [e]; rfl
  · right; rw [e]

/-- … and a server REMOVED from the list gives up its own keys only -/
theorem route_remove (h : Bytes → Nat) {S : List Name} (x : Name) (key : Bytes) (nt : C13.NoTies h key S)
    (hne : routeOf h S key ≠ x) : routeOf h (S.erase x) key = routeOf h S key := by
  unfold routeOf at *
  rw [C13.C13_remove h key x nt (fun e => hne (by rw [e]; rfl))]

/-! ### the driver's encoding is injective (non-vacuity of `EncOK`) -/

theorem encInt_inj {a b : Int} (h : encInt a = encInt b) : a = b := by
  unfold encInt at h
  split at h <;> split at h <;> omega

theorem natOfBytes_inj : ∀ {a b : Bytes}, natOfBytes a = natOfBytes b → a = b
  | [], [], _ => rfl
  | [], y :: b, h => by simp only [natOfBytes, foldr_cons, foldr_nil] at h; omega
  | x :: a, [], h => by simp only [natOfBytes, foldr_cons, foldr_nil] at h; omega
  | x :: a, y :: b, h => by
    simp only [natOfBytes, foldr_cons] at h
    have hx := x.isLt
    have hy := y.isLt
    have h1 : foldr (fun x acc => acc * 256 + x.toNat + 1) 0 a = foldr (fun x acc => acc * 256 + x.toNat + 1) 0 b := by omega
    have h2 : x.toNat = y.toNat := by omega
    rw [natOfBytes_inj h1, BitVec.toNat_inj.mp h2]

theorem map_inj_list {α β : Type} {f : α → β} (hf : ∀ a b, f a = f b → a = b) : ∀ {l l' : List α}, l.map f = l'.map f → l = l'
  | [], [], _ => rfl
  | [], _ :: _, h => by simp at h
  | _ :: _, [], h => by simp at h
  | a :: l, b :: l', h => by
    simp only [map_cons, cons.injEq] at h
    rw [hf _ _ h.1, map_inj_list hf h.2]

theorem natOfStr_inj {s t : String} (h : natOfStr s = natOfStr t) : s = t := by
  unfold natOfStr at h
  have h1 := natOfBytes_inj h
  have h2 : s.toUTF8.data.toList = t.toUTF8.data.toList :=
    map_inj_list (fun a b e => by
      have := congrArg BitVec.toNat e
      simp only [BitVec.toNat_ofNat] at this
      have ha := a.toNat_lt
      have hb := b.toNat_lt
      rw [Nat.mod_eq_of_lt (by omega), Nat.mod_eq_of_lt (by omega)] at this
      exact UInt8.toNat_inj.mp this) h1
  exact String.toByteArray_inj.mp (ByteArray.ext (Array.ext' h2))

theorem stdEnc_ok : EncOK stdEnc := by
  refine ⟨?_, ?_, fun P => by simp [stdEnc]⟩
  · intro a b h
    simp only [stdEnc, cons.injEq] at h
    obtain ⟨h1, h2, h3, h4⟩ := h
    cases a; cases b
    simp only at h1 h2 h3 h4
    rw [natOfBytes_inj h1, natOfBytes_inj h2, encInt_inj h3, map_inj_list (fun _ _ => natOfStr_inj) h4]
  · intro a b h
    simp only [stdEnc, cons.injEq, true_and] at h
    induction a generalizing b with
    | nil => cases b with
      | nil => rfl
      | cons y b => simp at h
    | cons x a ih => cases b with
      | nil => simp at h
      | cons y b =>
        simp only [flatMap_cons, cons_append, nil_append, cons.injEq] at h
        obtain ⟨h1, h2, h3⟩ := h
        have : x = y := Prod.ext h1 (encInt_inj h2)
        rw [this, ih b h3]

end Sema.ClusterCompose
