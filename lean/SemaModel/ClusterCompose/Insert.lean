/-
ClusterCompose — InsertPoints keeps `Inv` and `Rel`.  This is where C15 enters: `C15_fuel` (the
distribution ends), `C15_partition` (the ranges are the id-sorted batch cut into consecutive
pieces), `C15_shard_order` (assigned shards are listed or freshly created ones, in order).
-/
import SemaModel.ClusterCompose.Ops
namespace Sema.ClusterCompose
open Sema List

variable {r : Bytes → Name}

theorem hasDup_false : ∀ {l : List Nat}, l.Nodup → C16.hasDup l = false
  | [], _ => rfl
  | x :: xs, h => by
    rw [nodup_cons] at h
    simp only [C16.hasDup, Bool.or_eq_false_iff]
    exact ⟨by simpa using h.1, hasDup_false h.2⟩

theorem total_infos (cfg : Cfg) (c : Cluster) (rec : Rec) :
    C15.total (infos cfg r c rec) = ((ptsOf (gather r c rec)).length : Int) := by
  rw [ptsOf_gather]
  unfold C15.total infos
  generalize rec.shards = l
  induction l with
  | nil => rfl
  | cons a l ih =>
    simp only [map_cons, sum_cons, flatMap_cons, length_append] at ih ⊢
    rw [ih]; omega

theorem infos_ids (cfg : Cfg) (c : Cluster) (rec : Rec) : (infos cfg r c rec).map (·.id) = rec.shards := by
  simp only [infos, map_map]
  conv => rhs; rw [← map_id rec.shards]
  exact map_congr_left fun _ _ => rfl

/-- the shards created by calls `nc … nc+k-1` carry the ids `mk nc … mk (nc+k-1)` -/
theorem mem_created_idx {mk : Nat → String} : ∀ (k nc : Nat) {s : C15.Shard},
    s ∈ C15.created (fun i => some (mk i)) nc k → ∃ i, nc ≤ i ∧ i < nc + k ∧ s = C15.fresh (mk i)
  | 0, _, _, h => by simp [C15.created] at h
  | k + 1, nc, s, h => by
    simp only [C15.created, cons_append, nil_append, mem_cons] at h
    rcases h with rfl | h
    · exact ⟨nc, Nat.le_refl _, by omega, rfl⟩
    · obtain ⟨i, h1, h2, h3⟩ := mem_created_idx k (nc + 1) h
      exact ⟨i, by omega, by omega, h3⟩

theorem created_ids_nodup {mk : Nat → String} (hinj : ∀ i j, mk i = mk j → i = j) : ∀ (k nc : Nat),
    ((C15.created (fun i => some (mk i)) nc k).map (·.id)).Nodup
  | 0, _ => by simp [C15.created]
  | k + 1, nc => by
    simp only [C15.created, cons_append, nil_append, map_cons, nodup_cons]
    refine ⟨?_, created_ids_nodup hinj k (nc + 1)⟩
    intro hmem
    obtain ⟨s, hs, he⟩ := mem_map.mp hmem
    obtain ⟨i, h1, _, rfl⟩ := mem_created_idx k (nc + 1) hs
    have := hinj _ _ he
    omega

/-- a shard id that the record does not list has no directory (so it reads as empty) -/
theorem contents_unlisted {c : Cluster} (hI : Inv r c) {rec : Rec} (hg : getRec r c rec.user rec.coll = some rec)
    {sid : String} (hs : sid ∉ rec.shards) : contents r c rec sid = [] := by
  unfold contents
  cases h : c.sh (r (sidKey sid)) (skey rec sid) with
  | none => rfl
  | some P =>
    obtain ⟨_, rec0, hg0, _, _, h3⟩ := hI.shWF _ _ _ h
    simp only [skey] at hg0 h3
    rw [hg] at hg0; cases hg0
    exact absurd h3 hs

/-- replacing the record of a collection by one that lists more (still empty) shards -/
theorem putRec_refines {c : Cluster} {m : Ref} {rec rec' : Rec} {rc : RColl} (hI : Inv r c) (hR : Rel r m c)
    (hm : refGet m (rec.user, rec.coll) = some rc) (hg : getRec r c rec.user rec.coll = some rec)
    (h1 : rec'.user = rec.user) (h2 : rec'.coll = rec.coll) (h3 : rec'.quota = rc.quota) (h4 : rec'.shards.Nodup)
    (h5 : ∀ sid ∈ rec.shards, sid ∈ rec'.shards) (h6 : C17.Uniq (gather r c rec')) (h7 : (ptsOf (gather r c rec')).Perm rc.pts) :
    Inv r (putRec r c rec') ∧ Rel r m (putRec r c rec') ∧ getRec r (putRec r c rec') rec.user rec.coll = some rec' ∧
      (putRec r c rec').sh = c.sh := by
  have hu := hR.user_ok hm
  have hdb : DbAt (r := r) rec.user rec.coll (some rec') c (putRec r c rec') := by
    unfold putRec; rw [h1, h2]; exact dbAt_put c rec.user rec.coll rec'
  have hdbg : dbGet (c.db (r rec.user)) (C16.key rec.user rec.coll) = some rec := hg
  have hnd : ∀ n, (((putRec r c rec').db n).map (·.1)).Nodup := by
    intro n
    unfold putRec
    by_cases hn : n = r rec'.user
    · subst hn; rw [setDb_db_same]; exact dbPut_keys_nodup (hI.dbNodup _) _ _
    · rw [setDb_db_other _ _ hn]; exact hI.dbNodup n
  refine ⟨?_, ?_, ?_, rfl⟩
  · refine inv_dbAt hI rfl hdb hnd hu ?_ ?_
    · intro rv hrv; cases hrv; exact ⟨h1, h2, h4, h6⟩
    · intro rec0 h0; rw [hg] at h0; cases h0; exact ⟨rec', rfl, h5⟩
  · refine ⟨hR.keys, hR.users, ?_, ?_, ?_⟩
    · intro u2 col2 rc2 hm2
      rw [hdb.getRec hu col2 (hR.user_ok hm2)]
      by_cases hk : u2 = rec.user ∧ col2 = rec.coll
      · rw [if_pos hk]
        rw [hk.1, hk.2, hm] at hm2; cases hm2
        exact ⟨rec', rfl, h3, by rw [gather_sh (by rfl)]; exact h7⟩
      · rw [if_neg hk]
        obtain ⟨rec2, hg2, hq2, hp2⟩ := hR.hit _ _ _ hm2
        exact ⟨rec2, hg2, hq2, by rw [gather_sh (by rfl)]; exact hp2⟩
    · intro u2 col2 hu2 hm2
      rw [hdb.getRec hu col2 hu2]
      by_cases hk : u2 = rec.user ∧ col2 = rec.coll
      · rw [hk.1, hk.2, hm] at hm2; cases hm2
      · rw [if_neg hk]; exact hR.miss u2 col2 hu2 hm2
    · intro u2 hu2
      unfold putRec
      rw [h1, h2]
      by_cases hn : r u2 = r rec.user
      · rw [hn, setDb_db_same, dbScan_put_old (hI.dbNodup _) rec.coll rec' hu hu2 hdbg, ← hn]
        exact hR.count u2 hu2
      · rw [setDb_db_other _ _ hn]; exact hR.count u2 hu2
  · rw [hdb.getRec hu rec.coll hu]; simp

/-- what an insert request must satisfy (the API's assumptions and C15's `fits`):
point ids distinct within the batch and new to the collection; every point alone fits an empty
shard; the uuids drawn for new shards are distinct and not yet used by the collection -/
structure InsertOK (cfg : Cfg) (rc : RColl) (rec : Rec) (pts : List Pt) (mk : Nat → String) : Prop where
  idsNodup : (pts.map (·.1)).Nodup
  fresh : ∀ p ∈ pts, held rc.pts p.1 = false
  fits : C15.Fits cfg.maxS cfg.maxC (pts.map cfg.psz)
  mkInj : ∀ i j, mk i = mk j → i = j
  mkFresh : ∀ i, mk i ∉ rec.shards

theorem sortPts_perm (pts : List Pt) : (sortPts pts).Perm pts := C17.sortBy_perm _ pts

theorem slice_sublist (sorted : List Pt) (a : C15.Assign) : (slice sorted a).Sublist sorted :=
  (take_sublist _ _).trans (drop_sublist _ _)

/-- the quota test of `InsertPoints` is the reference map's -/
theorem insert_quota (cfg : Cfg) {c : Cluster} {rec : Rec} {rc : RColl} (hq : rec.quota = rc.quota)
    (hp : (ptsOf (gather r c rec)).Perm rc.pts) (n : Nat) :
    C15.overQuota (infos cfg r c rec) n rec.quota = decide ((rc.pts.length : Int) + n > rc.quota) := by
  unfold C15.overQuota
  rw [total_infos, hp.length_eq, hq]

theorem insert_refines (cfg : Cfg) {c : Cluster} {m : Ref} {rec : Rec} {rc : RColl} (hI : Inv r c) (hR : Rel r m c)
    (hm : refGet m (rec.user, rec.coll) = some rc) (hg : getRec r c rec.user rec.coll = some rec)
    (hq : rec.quota = rc.quota) (hp : (ptsOf (gather r c rec)).Perm rc.pts) (pts : List Pt) (mk : Nat → String)
    (hok : InsertOK cfg rc rec pts mk) (hnq : ¬ ((rc.pts.length : Int) + pts.length > rc.quota)) :
    Inv r (insertBody cfg r c rec pts mk).1 ∧
    Rel r (refPut m (rec.user, rec.coll) { rc with pts := rc.pts ++ pts }) (insertBody cfg r c rec pts mk).1 ∧
    (insertBody cfg r c rec pts mk).2 = .inserted [] := by
  have hov : C15.overQuota (infos cfg r c rec) pts.length rec.quota = false := by
    rw [insert_quota cfg hq hp]; simpa using hnq
  have hsp := sortPts_perm pts
  -- the distribution ends (C15_fuel)
  have hfits : C15.Fits cfg.maxS cfg.maxC ((sortPts pts).map cfg.psz) :=
    ⟨hok.fits.1, fun p hp' => hok.fits.2 p ((hsp.map cfg.psz).mem_iff.mp hp')⟩
  obtain ⟨as, k, hd⟩ := C15.C15_fuel (mk := fun i => some (mk i)) (shards := infos cfg r c rec) hfits (fun _ => rfl)
    ((infos cfg r c rec).length + pts.length + 1) (by rw [length_map, hsp.length_eq]; exact Nat.le_refl _)
  simp only [insertBody, hov, Bool.false_eq_true, if_false, hd]
  -- the record after the creations
  have hnewNodup := created_ids_nodup hok.mkInj k 0
  have hnewFresh : ∀ sid ∈ (C15.created (fun i => some (mk i)) 0 k).map (·.id), sid ∉ rec.shards := by
    intro sid hs
    obtain ⟨s, hs', rfl⟩ := mem_map.mp hs
    obtain ⟨i, rfl⟩ := mem_created_id _ _ hs'
    exact hok.mkFresh i
  have hrecNodup := hI.shardsNodup _ _ _ hg
  have hnd' : (withCreated rec mk k).shards.Nodup := by
    simp only [withCreated]
    rw [nodup_append]
    exact ⟨hrecNodup, hnewNodup, fun a ha b hb e => hnewFresh b hb (e ▸ ha)⟩
  have hsub : (as.map (·.shard.id)).Sublist (withCreated rec mk k).shards := by
    have := (C15.C15_shard_order hd).map (·.id)
    simpa [withCreated, infos_ids, map_map, Function.comp_def] using this
  have hchain := C15.C15_partition hd
  have hempty : ∀ sid, sid ∉ rec.shards → contents r c rec sid = [] := fun sid hs => contents_unlisted hI hg hs
  -- the collection with the new (empty) shards listed
  have hgnew : ptsOf (gather r c (withCreated rec mk k)) = ptsOf (gather r c rec) := by
    rw [ptsOf_gather, ptsOf_gather]
    have : ((C15.created (fun i => some (mk i)) 0 k).map (·.id)).flatMap (contents r c rec) = [] := by
      rw [flatMap_eq_nil_iff]
      intro sid hs
      exact hempty sid (hnewFresh sid hs)
    show (rec.shards ++ (C15.created (fun i => some (mk i)) 0 k).map (·.id)).flatMap (contents r c rec) = _
    rw [flatMap_append, this, append_nil]
  have huniq1 : C17.Uniq (gather r c (withCreated rec mk k)) := by
    have := hI.uniq _ _ _ hg
    unfold C17.Uniq at this ⊢
    rw [ids_eq] at this ⊢
    rw [hgnew]; exact this
  -- state after the creations
  have hc1 : ∃ c1, c1 = (if k = 0 then c else putRec r c (withCreated rec mk k)) ∧ Inv r c1 ∧ Rel r m c1 ∧
      getRec r c1 rec.user rec.coll = some (withCreated rec mk k) ∧ c1.sh = c.sh := by
    by_cases hk : k = 0
    · subst hk
      have : withCreated rec mk 0 = rec := by cases rec; simp [withCreated, C15.created]
      rw [this]
      exact ⟨c, by simp, hI, hR, hg, rfl⟩
    · obtain ⟨i1, i2, i3, i4⟩ := putRec_refines (rec' := withCreated rec mk k) hI hR hm hg rfl rfl hq hnd'
        (fun sid hs => by simp only [withCreated]; exact mem_append_left _ hs) huniq1 (by rw [hgnew]; exact hp)
      exact ⟨_, by simp [hk], i1, i2, i3, i4⟩
  obtain ⟨c1, hc1eq, hI1, hR1, hg1, hsh1⟩ := hc1
  rw [← hc1eq]
  -- ids of the batch
  have hsortedIds : ((sortPts pts).map (·.1)).Nodup := ((hsp.map (·.1)).nodup_iff).mpr hok.idsNodup
  have hrcIds : (rc.pts.map (·.1)).Nodup := by
    have := hI.uniq _ _ _ hg
    unfold C17.Uniq at this
    rw [ids_eq] at this
    exact ((hp.map (·.1)).nodup_iff).mp this
  -- no shard refuses its range
  have hnoref : ∀ a ∈ as, refuses (contents r c rec a.shard.id) (slice (sortPts pts) a) = false := by
    intro a _
    unfold refuses
    rw [Bool.or_eq_false_iff]
    constructor
    · exact hasDup_false (hsortedIds.sublist ((slice_sublist _ a).map _))
    · rw [Bool.eq_false_iff]
      intro hany
      obtain ⟨q, hq', ho⟩ := any_eq_true.mp hany
      obtain ⟨o, ho', hoq⟩ := any_eq_true.mp ho
      have hqp : q ∈ pts := hsp.mem_iff.mp ((slice_sublist _ a).subset hq')
      have h1 := hok.fresh q hqp
      have hsid : a.shard.id ∈ rec.shards := by
        by_cases h : a.shard.id ∈ rec.shards
        · exact h
        · rw [hempty _ h] at ho'; cases ho'
      have hin : o ∈ ptsOf (gather r c rec) := by
        rw [ptsOf_gather]; exact mem_flatMap.mpr ⟨_, hsid, ho'⟩
      have : held rc.pts q.1 = true := by
        rw [held_iff]
        have : o.1 = q.1 := by simpa using hoq
        rw [← this]
        exact mem_map_of_mem (f := (·.1)) (hp.mem_iff.mp hin)
      rw [h1] at this; cases this
  -- the writes, in the form of `wsOf`
  have hws : (as.map fun a =>
        (r (sidKey a.shard.id), skey rec a.shard.id,
          if refuses (contents r c rec a.shard.id) (slice (sortPts pts) a) then contents r c rec a.shard.id
          else contents r c rec a.shard.id ++ slice (sortPts pts) a)) =
      wsOf (r := r) (withCreated rec mk k) as (fun a => a.shard.id)
        (fun a => contents r c1 (withCreated rec mk k) a.shard.id ++ slice (sortPts pts) a) := by
    unfold wsOf
    apply map_congr_left
    intro a ha
    have e : contents r c1 (withCreated rec mk k) a.shard.id = contents r c rec a.shard.id := by
      unfold contents; rw [hsh1]; rfl
    simp only [hnoref a ha, Bool.false_eq_true, if_false, e]
    rfl
  have hfilter : (as.filter fun a => refuses (contents r c rec a.shard.id) (slice (sortPts pts) a)) = [] := by
    rw [filter_eq_nil_iff]; intro a ha; rw [hnoref a ha]; simp
  rw [hws, hfilter]
  -- contents afterwards: old content ++ the assigned range
  have hnewC : ∀ sid, newContents (r := r) c1 (withCreated rec mk k) as (fun a => a.shard.id)
        (fun a => contents r c1 (withCreated rec mk k) a.shard.id ++ slice (sortPts pts) a) sid =
      contents r c1 (withCreated rec mk k) sid ++
        ((as.find? (fun a => decide (a.shard.id = sid))).map (slice (sortPts pts))).getD [] := by
    intro sid
    unfold newContents
    cases hf : as.find? (fun a => decide (a.shard.id = sid)) with
    | none => simp
    | some a =>
      have := find?_some hf
      simp only [decide_eq_true_eq] at this
      simp only [this, Option.map_some, Option.getD_some]
  obtain ⟨rec1, hg1', _, hp1⟩ := hR1.hit _ _ _ hm
  rw [hg1] at hg1'; cases hg1'
  have hperm : (ptsOf ((withCreated rec mk k).shards.map fun sid =>
        (⟨newContents (r := r) c1 (withCreated rec mk k) as (fun a => a.shard.id)
          (fun a => contents r c1 (withCreated rec mk k) a.shard.id ++ slice (sortPts pts) a) sid, true⟩ : C17.Shard))).Perm
      (rc.pts ++ pts) := by
    simp only [ptsOf, flatMap_map, hnewC]
    refine (flatMap_append_perm _ _ _).trans ?_
    have e1 : (withCreated rec mk k).shards.flatMap (contents r c1 (withCreated rec mk k)) = ptsOf (gather r c1 (withCreated rec mk k)) :=
      (ptsOf_gather c1 _).symm
    have e2 := flatMap_find_sublist (fun a : C15.Assign => a.shard.id) (slice (sortPts pts)) as _ hsub hnd'
    have e3 := chain_slices (sortPts pts) as 0 _ hchain (by rw [length_map]; exact Nat.le_refl _)
    simp only [drop_zero, Nat.sub_zero, length_map, take_length] at e3
    rw [e1, e2, e3]
    exact hp1.append hsp
  have hidsNew : ((rc.pts ++ pts).map (·.1)).Nodup := by
    rw [map_append, nodup_append]
    refine ⟨hrcIds, hok.idsNodup, ?_⟩
    intro a ha b hb e
    subst e
    obtain ⟨p, hp', rfl⟩ := mem_map.mp hb
    have := hok.fresh p hp'
    rw [← Bool.not_eq_true, held_iff] at this
    exact this ha
  refine ⟨?_, ?_, by simp⟩
  · apply inv_writes hI1 hg1 (fun a ha => hsub.subset (mem_map_of_mem (f := fun a : C15.Assign => a.shard.id) ha))
    unfold C17.Uniq
    rw [ids_eq]
    exact ((hperm.map (·.1)).nodup_iff).mpr hidsNew
  · exact rel_writes (rec := withCreated rec mk k) hI1 hR1 hm hg1 (rc.pts ++ pts) hperm

end Sema.ClusterCompose
