/-
ClusterCompose — the cluster API as ONE model, built from the component models
  C13 `owner` (routing), C15 `distribute` / `overQuota` (placement, point quota),
  C16 `key` / `scanPrefix` (node-database keys of tenants), C17 `updatePoints` / `deletePoints` /
  `searchPoints` (fan-out, curate, merge), C14 `St` / `round` (start-up rebalancing, see `syncView`).
Core-only (linked into the driver).  Read with cluster/actions.go and cluster/rpchandlers.go.

State (`Cluster`): per server NAME
  * the node database, bucket `userCollections`: key `user ++ "/" ++ collection` ↦ collection record
    (user, collection, shard id list, the plan's point quota) — an association list with C16's
    bucket primitives;
  * the shard store: (user, collection, shard id) ↦ the shard's points (C17's shard spec: point id ↦
    document, here `Nat × Int`); an entry = the shard directory exists on that server.
The server list each node is configured with is the parameter `servers : Name → List Name` of `run`.
Routing = C13's `owner` over an abstract hash (`routeOf`); every operation below is written against
an abstract routing function `r` so that it is visible where the entry node's list is consulted.

Every RPC is delivered and answered (all servers up; C17's `route` returns nil ⇔ delivered and
answered — `C17_route_nil`); requests are executed one at a time.
-/
import SemaModel.C13.Model
import SemaModel.C14.Model
import SemaModel.C15.Model
import SemaModel.C16.Model
import SemaModel.C17.Model
namespace Sema.ClusterCompose
open Sema

abbrev Name := Bytes
abbrev Pt := Nat × Int

/-- `models.Collection` as far as the cluster layer reads it -/
structure Rec where
  user : Bytes
  coll : Bytes
  /-- `ShardIds`, in order of creation -/
  shards : List String
  /-- `UserPlan.MaxCollectionPointCount` -/
  quota : Int
  deriving DecidableEq, Repr

/-- a shard directory: `<root>/userCollections/<user>/<collection>/<shard id>` -/
structure SKey where
  user : Bytes
  coll : Bytes
  sid : String
  deriving DecidableEq, Repr

structure Cluster where
  db : Name → List (Bytes × Rec)
  sh : Name → SKey → Option (List Pt)

def Cluster.empty : Cluster := ⟨fun _ => [], fun _ _ => none⟩

/-! ### bucket primitives (as C16's, for this record type) -/

def dbGet (db : List (Bytes × Rec)) (k : Bytes) : Option Rec := (db.find? (fun e => e.1 = k)).map (·.2)
def dbPut (db : List (Bytes × Rec)) (k : Bytes) (v : Rec) : List (Bytes × Rec) := db.filter (fun e => e.1 ≠ k) ++ [(k, v)]
def dbErase (db : List (Bytes × Rec)) (k : Bytes) : List (Bytes × Rec) := db.filter (fun e => e.1 ≠ k)
/-- `PrefixScan(prefix)` -/
def dbScan (db : List (Bytes × Rec)) (p : Bytes) : List (Bytes × Rec) := db.filter (fun e => decide (p <+: e.1))

def setDb (c : Cluster) (n : Name) (db : List (Bytes × Rec)) : Cluster :=
  { c with db := fun n' => if n' = n then db else c.db n' }

/-- a batch of shard writes: (server, directory, new content) — first match wins -/
abbrev Writes := List (Name × SKey × List Pt)

def applyWrites (c : Cluster) (ws : Writes) : Cluster :=
  { c with sh := fun n k => match ws.find? (fun w => w.1 = n ∧ w.2.1 = k) with
      | some w => some w.2.2
      | none => c.sh n k }

/-! ### routing -/

/-- the routing key of a shard: the bytes of its id string -/
def sidKey (s : String) : Bytes := s.toUTF8.data.toList.map fun b => BitVec.ofNat 8 b.toNat

/-- `RendezvousHash(key, c.Servers, 1)[0]` (`[]` stands for the index-out-of-range panic on an empty list) -/
def routeOf (h : Bytes → Nat) (S : List Name) (key : Bytes) : Name := (C13.owner h key S).getD []

/-! ### configuration and requests -/

structure Cfg where
  /-- `MaxShardSize`, `MaxShardPointCount` -/
  maxS : Int
  maxC : Int
  /-- `MaxSearchLimit` -/
  maxLimit : Nat
  /-- `len(Data) + len(Id)` of a point -/
  psz : Pt → Nat
  /-- the size `Shard.Info()` reports (the bbolt file size: not predicted, any function of the content) -/
  fsize : List Pt → Int
  /-- a shard's full ranking for query `q` (C03–C06; an oracle here, as in C17) -/
  rank : Nat → List Pt → List C17.Hit
  /-- the per-shard limit heuristic (C17 `plan`) -/
  heur : Nat → Nat → Nat

inductive Op where
  /-- POST /collections (plan: point quota, MaxCollections) -/
  | create (c : Bytes) (quota : Int) (maxCols : Nat)
  /-- GET /collections/{id} -/
  | get (c : Bytes)
  /-- POST …/points; `mk i` = the uuid the i-th RPCCreateShard of this request draws -/
  | insert (c : Bytes) (pts : List Pt) (mk : Nat → String)
  | update (c : Bytes) (req : List Pt)
  | delete (c : Bytes) (ids : List Nat)
  | search (c : Bytes) (q limit offset : Nat)
  /-- DELETE /collections/{id} -/
  | drop (c : Bytes)

inductive Resp where
  | ok
  | exists_
  | quota
  | notFound
  /-- `distributePoints` returned an error -/
  | err
  /-- shard ids and point counts (GetShardsInfo) -/
  | info (sids : List String) (counts : List Nat)
  /-- the failed ranges (shard id, start, end) -/
  | inserted (failed : List (String × Nat × Nat))
  | failed (l : List (Nat × C17.Msg))
  | hits (l : Option (List C17.Hit))
  /-- the shard ids the shard servers report as deleted -/
  | dropped (sids : List String)
  deriving DecidableEq, Repr

/-! ### the operations, against a routing function `r` -/

section ops
variable (cfg : Cfg) (r : Bytes → Name)

/-- `GetCollection`: RPCGetCollection at `owner(user)` -/
def getRec (c : Cluster) (u col : Bytes) : Option Rec := dbGet (c.db (r u)) (C16.key u col)

def skey (rec : Rec) (sid : String) : SKey := ⟨rec.user, rec.coll, sid⟩

/-- what the shard server `owner(shardId)` holds for the shard (`loadShard` creates an empty shard
when there is none: a missing directory reads as the empty shard) -/
def contents (c : Cluster) (rec : Rec) (sid : String) : List Pt := (c.sh (r (sidKey sid)) (skey rec sid)).getD []

/-- the collection as C17 sees it: one shard spec per listed shard id, every server answers -/
def gather (c : Cluster) (rec : Rec) : C17.Coll := rec.shards.map fun sid => ⟨contents r c rec sid, true⟩

/-- the writes of one fan-out: every listed shard gets the content its server computed -/
def fanWrites (rec : Rec) (col : C17.Coll) : Writes :=
  (rec.shards.zip col).map fun e => (r (sidKey e.1), skey rec e.1, e.2.pts)

/-- `CreateCollection` → RPCCreateCollection at `owner(user)` (one write transaction) -/
def createOp (c : Cluster) (u col : Bytes) (quota : Int) (maxCols : Nat) : Cluster × Resp :=
  let n := r u
  let k := C16.key u col
  match dbGet (c.db n) k with
  | some _ => (c, .exists_)
  | none =>
    if (dbScan (c.db n) (C16.scanPrefix u)).length ≥ maxCols then (c, .quota)
    else (setDb c n (dbPut (c.db n) k ⟨u, col, [], quota⟩), .ok)

/-- `GetShardsInfo`: RPCGetShardInfo at `owner(shardId)` per listed shard -/
def infos (c : Cluster) (rec : Rec) : List C15.Shard :=
  rec.shards.map fun sid => ⟨sid, cfg.fsize (contents r c rec sid), ((contents r c rec sid).length : Int)⟩

def getBody (c : Cluster) (rec : Rec) : Cluster × Resp :=
  (c, .info rec.shards (rec.shards.map fun sid => (contents r c rec sid).length))

/-- `slices.SortFunc(points, bytes.Compare(a.Id, b.Id))` (insertion sort stands for pdqsort; ids of
one request are distinct, so the order is determined) -/
def sortPts (pts : List Pt) : List Pt := C17.sortBy (fun a b => decide (a.1 ≤ b.1)) pts

/-- `Shard.InsertPoints` refuses the whole batch on a repeated or an existing id -/
def refuses (old new : List Pt) : Bool := C16.hasDup (new.map (·.1)) || new.any (fun q => old.any (fun o => o.1 = q.1))

def slice (sorted : List Pt) (a : C15.Assign) : List Pt := (sorted.drop a.lo).take (a.hi - a.lo)

/-- the record after `k` calls of RPCCreateShard at `owner(user)` (each appends one fresh id) -/
def withCreated (rec : Rec) (mk : Nat → String) (k : Nat) : Rec :=
  { rec with shards := rec.shards ++ (C15.created (fun i => some (mk i)) 0 k).map (·.id) }

def putRec (c : Cluster) (rec : Rec) : Cluster :=
  setDb c (r rec.user) (dbPut (c.db (r rec.user)) (C16.key rec.user rec.coll) rec)

/-- `InsertPoints`: GetShardsInfo → quota → sort → `distributePoints` (C15 `distribute`; its
`createShardFn` is RPCCreateShard at `owner(user)`) → RPCInsertPoints per range at `owner(shardId)` -/
def insertBody (c : Cluster) (rec : Rec) (pts : List Pt) (mk : Nat → String) : Cluster × Resp :=
  let inf := infos cfg r c rec
  if C15.overQuota inf pts.length rec.quota then (c, .quota) else
  let sorted := sortPts pts
  match C15.distribute (inf.length + pts.length + 1) cfg.maxS cfg.maxC (fun i => some (mk i)) inf (sorted.map cfg.psz) with
  | .ok as k =>
    let rec' := withCreated rec mk k
    let c1 := if k = 0 then c else putRec r c rec'
    let ws : Writes := as.map fun a =>
      let old := contents r c rec a.shard.id
      (r (sidKey a.shard.id), skey rec a.shard.id, if refuses old (slice sorted a) then old else old ++ slice sorted a)
    (applyWrites c1 ws,
     .inserted ((as.filter fun a => refuses (contents r c rec a.shard.id) (slice sorted a)).map fun a => (a.shard.id, a.lo, a.hi)))
  | .createErr k => (if k = 0 then c else putRec r c (withCreated rec mk k), .err)
  | .outOfFuel k => (if k = 0 then c else putRec r c (withCreated rec mk k), .err)

/-- `UpdatePoints`: fan-out to every listed shard at `owner(shardId)` + `curateFailedPoints` (C17) -/
def updateBody (c : Cluster) (rec : Rec) (req : List Pt) : Cluster × Resp :=
  let f := C17.updatePoints (gather r c rec) req
  (applyWrites c (fanWrites r rec f.col), .failed f.failed)

/-- `DeletePoints` -/
def deleteBody (c : Cluster) (rec : Rec) (ids : List Nat) : Cluster × Resp :=
  let f := C17.deletePoints (gather r c rec) ids
  (applyWrites c (fanWrites r rec f.col), .failed f.failed)

/-- `SearchPoints`: per-shard limit, fan-out, merge, cut (C17 `searchPoints`) -/
def searchBody (c : Cluster) (rec : Rec) (q limit offset : Nat) : Cluster × Resp :=
  (c, .hits (C17.searchPoints (C17.sortBy C17.leScore) cfg.heur cfg.maxLimit
      ((gather r c rec).map fun sh => some (cfg.rank q sh.pts)) limit offset))

/-- `DeleteCollection`: RPCDeleteCollection at `owner(user)`, then RPCDeleteCollectionShards at every
server that owns a listed shard — it removes EVERY shard directory of the collection it finds there.
The reported ids: the listed shards that exist at their owner (on a state in which every shard
directory is listed and sits at its owner — `Inv` — that is what the servers find). -/
def dropBody (c : Cluster) (rec : Rec) : Cluster × Resp :=
  let n := r rec.user
  let c1 := setDb c n (dbErase (c.db n) (C16.key rec.user rec.coll))
  let targets := rec.shards.map fun sid => r (sidKey sid)
  ({ c1 with sh := fun m k => if targets.contains m && (k.user == rec.user && k.coll == rec.coll) then none else c.sh m k },
   .dropped (rec.shards.filter fun sid => (c.sh (r (sidKey sid)) (skey rec sid)).isSome))

/-- `CollectionURIMiddleware`: the record is fetched first, the handler acts with it -/
def withColl (c : Cluster) (u col : Bytes) (k : Rec → Cluster × Resp) : Cluster × Resp :=
  match getRec r c u col with
  | none => (c, .notFound)
  | some rec => k rec

/-- one request of user `u` -/
def stepR (c : Cluster) (u : Bytes) : Op → Cluster × Resp
  | .create col quota maxCols => createOp r c u col quota maxCols
  | .get col => withColl r c u col (getBody r c)
  | .insert col pts mk => withColl r c u col fun rec => insertBody cfg r c rec pts mk
  | .update col req => withColl r c u col fun rec => updateBody r c rec req
  | .delete col ids => withColl r c u col fun rec => deleteBody r c rec ids
  | .search col q limit offset => withColl r c u col fun rec => searchBody cfg r c rec q limit offset
  | .drop col => withColl r c u col (dropBody r c)

end ops

/-! ### histories of API calls through any entry node -/

structure Req where
  /-- the node the request enters -/
  entry : Name
  user : Bytes
  op : Op

/-- one request: routed with the server list the ENTRY node is configured with -/
def step (h : Bytes → Nat) (cfg : Cfg) (servers : Name → List Name) (c : Cluster) (q : Req) : Cluster × Resp :=
  stepR cfg (routeOf h (servers q.entry)) c q.user q.op

def run (h : Bytes → Nat) (cfg : Cfg) (servers : Name → List Name) : Cluster → List Req → Cluster × List Resp
  | c, [] => (c, [])
  | c, q :: rest =>
    let s := step h cfg servers c q
    let t := run h cfg servers s.1 rest
    (t.1, s.2 :: t.2)

/-! ### the reference: a plain map (user, collection) ↦ (quota, points) -/

structure RColl where
  quota : Int
  pts : List Pt
  deriving DecidableEq, Repr

abbrev Ref := List ((Bytes × Bytes) × RColl)

def refGet (m : Ref) (k : Bytes × Bytes) : Option RColl := (m.find? (fun e => e.1 = k)).map (·.2)
def refPut (m : Ref) (k : Bytes × Bytes) (v : RColl) : Ref := m.filter (fun e => e.1 ≠ k) ++ [(k, v)]
def refErase (m : Ref) (k : Bytes × Bytes) : Ref := m.filter (fun e => e.1 ≠ k)
/-- the collections of one user -/
def refCount (m : Ref) (u : Bytes) : Nat := (m.filter (fun e => e.1.1 = u)).length

def held (P : List Pt) (i : Nat) : Bool := P.any (fun o => o.1 = i)

/-- what the reference map answers; `none` where the cluster's answer is not a function of the map
(shard ids, the ranking of a search): those are specified by the theorems of `Props.lean` -/
def refStep (m : Ref) (u : Bytes) : Op → Ref × Option Resp
  | .create col quota maxCols =>
    match refGet m (u, col) with
    | some _ => (m, some .exists_)
    | none => if refCount m u ≥ maxCols then (m, some .quota) else (refPut m (u, col) ⟨quota, []⟩, some .ok)
  | .get col => (m, match refGet m (u, col) with | none => some .notFound | some _ => none)
  | .insert col pts _ =>
    match refGet m (u, col) with
    | none => (m, some .notFound)
    | some rc =>
      if (rc.pts.length : Int) + pts.length > rc.quota then (m, some .quota)
      else (refPut m (u, col) { rc with pts := rc.pts ++ pts }, some (.inserted []))
  | .update col req =>
    match refGet m (u, col) with
    | none => (m, some .notFound)
    | some rc =>
      (refPut m (u, col) { rc with pts := C17.updPts rc.pts req },
       some (.failed (((req.map (·.1)).filter fun i => !held rc.pts i).map fun i => (i, C17.Msg.notFound))))
  | .delete col ids =>
    match refGet m (u, col) with
    | none => (m, some .notFound)
    | some rc =>
      (refPut m (u, col) { rc with pts := C17.delPts rc.pts ids },
       some (.failed ((ids.filter fun i => !held rc.pts i).map fun i => (i, C17.Msg.notFound))))
  | .search col _ _ _ => (m, match refGet m (u, col) with | none => some .notFound | some _ => none)
  | .drop col =>
    match refGet m (u, col) with
    | none => (m, some .notFound)
    | some _ => (refErase m (u, col), none)

def refRun : Ref → List Req → Ref × List (Option Resp)
  | m, [] => (m, [])
  | m, q :: rest =>
    let s := refStep m q.user q.op
    let t := refRun s.1 rest
    (t.1, s.2 :: t.2)

/-! ### the view C14 has of the cluster (for `Sync`)

C14's state holds, per node and key, the bytes of a record / of a shard file.  `K := SKey` is one
key type for both maps: a record is addressed by `⟨user, collection, ""⟩` (user ids are
delimiter-free), a shard by `⟨user, collection, id⟩`.  Content is a list of symbols: `Enc` is how a
record / the points of a shard are written (msgpack / the bbolt file); the theorems hold for every
injective encoding under which a shard file is never empty (bbolt files never are); the encodings
below are what the driver uses. -/

structure Enc where
  ofRec : Rec → C14.Content
  ofPts : List Pt → C14.Content

def encInt (i : Int) : Nat := if i < 0 then 2 * (-i).toNat + 1 else 2 * i.toNat
/-- bijective base-256 numeration of a byte string -/
def natOfBytes (b : Bytes) : Nat := b.foldr (fun x acc => acc * 256 + x.toNat + 1) 0
def natOfStr (s : String) : Nat := natOfBytes (s.toUTF8.data.toList.map fun b => BitVec.ofNat 8 b.toNat)

def stdEnc : Enc where
  ofRec := fun rec => natOfBytes rec.user :: natOfBytes rec.coll :: encInt rec.quota :: rec.shards.map natOfStr
  ofPts := fun P => 7 :: P.flatMap fun p => [p.1, encInt p.2]

/-- the node database as C14's record map: the record stored under the key of `⟨u, c, ""⟩` -/
def viewRecs (enc : Enc) (c : Cluster) (n : Name) (k : SKey) : Option C14.Content :=
  if k.sid = "" ∧ C16.slash ∉ k.user then (dbGet (c.db n) (C16.key k.user k.coll)).map enc.ofRec else none

def viewFiles (enc : Enc) (c : Cluster) (n : Name) (k : SKey) : Option C14.Content := (c.sh n k).map enc.ofPts

/-- the cluster at rest as a C14 state: nothing in flight, no node failed -/
def syncView (enc : Enc) (c : Cluster) : C14.St Name SKey :=
  { recs := viewRecs enc c, files := viewFiles enc c, rconf := fun _ _ => false, fph := fun _ _ => .idle, failed := fun _ => false }

/-- C14's configuration for the NEW server list `S`: records routed by the user id, shards by the
shard id, both through C13's `owner`; the repaired (truncating) receiver -/
def syncCfg (h : Bytes → Nat) (S : List Name) (up : Name → Bool) (cs : Nat) (sum : C14.Content → Nat) : C14.Cfg Name SKey :=
  { owner := fun k => routeOf h S k.user, fowner := fun k => routeOf h S (sidKey k.sid), up := up, cs := cs, trunc0 := true, sum := sum }

/-- what `Sync` leaves behind, as a function of the cluster (the driver's Sync; `Props.lean` relates
it to C14's `round`): every record at the new owner of its user, every shard directory at the new
owner of its id, nothing anywhere else.  `nodes`: the servers that were started. -/
def relocate (r' : Bytes → Name) (nodes : List Name) (c : Cluster) : Cluster :=
  { db := fun n => (nodes.flatMap c.db).filter fun e => decide (r' e.2.user = n),
    sh := fun n k => if n = r' (sidKey k.sid) then nodes.findSome? (fun n' => c.sh n' k) else none }

end Sema.ClusterCompose
