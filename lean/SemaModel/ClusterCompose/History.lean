/-
ClusterCompose — one request, then whole histories: the cluster refines the reference map.
-/
import SemaModel.ClusterCompose.Insert
namespace Sema.ClusterCompose
open Sema List

variable {r : Bytes → Name}

/-- what one request must satisfy: the user id is delimiter-free (C16's hypothesis; the header
middleware enforces it), and an insert satisfies `InsertOK` against the collection it addresses -/
def StepOK (cfg : Cfg) (r : Bytes → Name) (c : Cluster) (m : Ref) (u : Bytes) : Op → Prop
  | .insert col pts mk => C16.slash ∉ u ∧
      ∀ rc rec, refGet m (u, col) = some rc → getRec r c u col = some rec → InsertOK cfg rc rec pts mk
  | _ => C16.slash ∉ u

theorem StepOK.user {cfg : Cfg} {c : Cluster} {m : Ref} {u : Bytes} {op : Op} (h : StepOK cfg r c m u op) : C16.slash ∉ u := by
  cases op <;> first | exact h | exact h.1

/-- **one request**: `Inv` and `Rel` are kept, and wherever the reference map determines the
response, the cluster gives it -/
theorem step_refines (cfg : Cfg) {c : Cluster} {m : Ref} {u : Bytes} {op : Op} (hI : Inv r c) (hR : Rel r m c)
    (hok : StepOK cfg r c m u op) :
    Inv r (stepR cfg r c u op).1 ∧ Rel r (refStep m u op).1 (stepR cfg r c u op).1 ∧
      ∀ resp, (refStep m u op).2 = some resp → (stepR cfg r c u op).2 = resp := by
  have hu := hok.user
  cases op with
  | create col quota maxCols =>
    obtain ⟨h1, h2, h3⟩ := create_refines hI hR hu col quota maxCols
    exact ⟨h1, h2, fun resp hr => by rw [h3] at hr; cases hr; rfl⟩
  | get col =>
    rcases lookup_agree hI hR hu col with ⟨hm, hg⟩ | ⟨rc, rec, hm, hg, _⟩
    · simp only [stepR, withColl, refStep, hm, hg]
      exact ⟨hI, hR, fun resp hr => by cases hr; rfl⟩
    · simp only [stepR, withColl, refStep, hm, hg, getBody]
      exact ⟨hI, hR, fun resp hr => by cases hr⟩
  | search col q limit offset =>
    rcases lookup_agree hI hR hu col with ⟨hm, hg⟩ | ⟨rc, rec, hm, hg, _⟩
    · simp only [stepR, withColl, refStep, hm, hg]
      exact ⟨hI, hR, fun resp hr => by cases hr; rfl⟩
    · simp only [stepR, withColl, refStep, hm, hg, searchBody]
      exact ⟨hI, hR, fun resp hr => by cases hr⟩
  | update col req =>
    rcases lookup_agree hI hR hu col with ⟨hm, hg⟩ | ⟨rc, rec, hm, hg, h1, h2, _, hp⟩
    · simp only [stepR, withColl, refStep, hm, hg]
      exact ⟨hI, hR, fun resp hr => by cases hr; rfl⟩
    · subst h1; subst h2
      simp only [stepR, withColl, refStep, hm, hg]
      obtain ⟨i1, i2⟩ := update_refines hI hR hm hg req
      exact ⟨i1, i2, fun resp hr => by cases hr; exact update_resp hp req⟩
  | delete col ids =>
    rcases lookup_agree hI hR hu col with ⟨hm, hg⟩ | ⟨rc, rec, hm, hg, h1, h2, _, hp⟩
    · simp only [stepR, withColl, refStep, hm, hg]
      exact ⟨hI, hR, fun resp hr => by cases hr; rfl⟩
    · subst h1; subst h2
      simp only [stepR, withColl, refStep, hm, hg]
      obtain ⟨i1, i2⟩ := delete_refines hI hR hm hg ids
      exact ⟨i1, i2, fun resp hr => by cases hr; exact delete_resp hp ids⟩
  | drop col =>
    rcases lookup_agree hI hR hu col with ⟨hm, hg⟩ | ⟨rc, rec, hm, hg, h1, h2, _, hp⟩
    · simp only [stepR, withColl, refStep, hm, hg]
      exact ⟨hI, hR, fun resp hr => by cases hr; rfl⟩
    · subst h1; subst h2
      simp only [stepR, withColl, refStep, hm, hg]
      obtain ⟨i1, i2⟩ := drop_refines hI hR hm hg
      exact ⟨i1, i2, fun resp hr => by cases hr⟩
  | insert col pts mk =>
    rcases lookup_agree hI hR hu col with ⟨hm, hg⟩ | ⟨rc, rec, hm, hg, h1, h2, hq, hp⟩
    · simp only [stepR, withColl, refStep, hm, hg]
      exact ⟨hI, hR, fun resp hr => by cases hr; rfl⟩
    · have hins := hok.2 rc rec hm hg
      subst h1; subst h2
      simp only [stepR, withColl, refStep, hm, hg]
      by_cases hov : (rc.pts.length : Int) + pts.length > rc.quota
      · have : C15.overQuota (infos cfg r c rec) pts.length rec.quota = true := by
          rw [insert_quota cfg hq hp]; simpa using hov
        simp only [hov, if_true, insertBody, this]
        exact ⟨hI, hR, fun resp hr => by cases hr; rfl⟩
      · simp only [hov, if_false]
        obtain ⟨i1, i2, i3⟩ := insert_refines cfg hI hR hm hg hq hp pts mk hins hov
        exact ⟨i1, i2, fun resp hr => by cases hr; exact i3⟩

/-! ### histories -/

/-- every request of the history satisfies `StepOK` in the state it meets -/
def HistOK (cfg : Cfg) (r : Bytes → Name) : Cluster → Ref → List Req → Prop
  | _, _, [] => True
  | c, m, q :: rest => StepOK cfg r c m q.user q.op ∧ HistOK cfg r (stepR cfg r c q.user q.op).1 (refStep m q.user q.op).1 rest

/-- the cluster's responses are the reference map's wherever the reference map determines them -/
def Agree : List (Option Resp) → List Resp → Prop
  | [], [] => True
  | o :: os, x :: xs => (∀ y, o = some y → x = y) ∧ Agree os xs
  | _, _ => False

theorem run_refines (h : Bytes → Nat) (cfg : Cfg) (S : List Name) :
    ∀ (H : List Req) (c : Cluster) (m : Ref), Inv (routeOf h S) c → Rel (routeOf h S) m c → HistOK cfg (routeOf h S) c m H →
      Inv (routeOf h S) (run h cfg (fun _ => S) c H).1 ∧ Rel (routeOf h S) (refRun m H).1 (run h cfg (fun _ => S) c H).1 ∧
        Agree (refRun m H).2 (run h cfg (fun _ => S) c H).2
  | [], _, _, hI, hR, _ => ⟨hI, hR, trivial⟩
  | q :: rest, c, m, hI, hR, hok => by
    obtain ⟨i1, i2, i3⟩ := step_refines cfg hI hR hok.1
    obtain ⟨j1, j2, j3⟩ := run_refines h cfg S rest _ _ i1 i2 hok.2
    exact ⟨j1, j2, i3, j3⟩

theorem inv_empty (r : Bytes → Name) : Inv r Cluster.empty :=
  ⟨fun _ _ _ h => by simp [Cluster.empty, dbGet] at h, fun _ => by simp [Cluster.empty],
   fun _ _ _ h => by simp [Cluster.empty] at h, fun _ _ _ h => by simp [Cluster.empty, dbGet] at h,
   fun _ _ _ h => by simp [Cluster.empty, dbGet] at h⟩

theorem rel_empty (r : Bytes → Name) : Rel r [] Cluster.empty :=
  ⟨by simp, by simp, fun _ _ _ h => by simp [refGet] at h, fun _ _ _ _ => by simp [getRec, Cluster.empty, dbGet],
   fun _ _ => by simp [Cluster.empty, dbScan, refCount]⟩

end Sema.ClusterCompose
