/-
ClusterCompose — every operation keeps `Inv` and `Rel` and answers like the reference map.
One section per operation; the component theorems used are named where they enter.
-/
import SemaModel.ClusterCompose.Refine
namespace Sema.ClusterCompose
open Sema List

variable {r : Bytes → Name}

/-! ### small facts -/

theorem zip_map_self {α β γ : Type} (g : α → β) (h : α × β → γ) : ∀ l : List α,
    ((l.zip (l.map g)).map h) = l.map fun x => h (x, g x)
  | [] => rfl
  | a :: l => by simp [zip_map_self g h l]

theorem find?_self_of_mem {α : Type} [DecidableEq α] {l : List α} {a : α} (h : a ∈ l) :
    l.find? (fun x => decide (x = a)) = some a := by
  induction l with
  | nil => cases h
  | cons b l ih =>
    by_cases hb : b = a
    · subst hb; simp
    · rw [find?_cons_of_neg (by simpa using hb)]
      exact ih (by rcases mem_cons.mp h with e | e; exact absurd e.symm hb; exact e)

theorem gather_all_up (c : Cluster) (rec : Rec) : (gather r c rec).all (·.up) = true := by
  simp [gather]

theorem ptsOf_gather (c : Cluster) (rec : Rec) : ptsOf (gather r c rec) = rec.shards.flatMap (contents r c rec) := by
  simp [ptsOf, gather, flatMap_map]

/-- `heldUp` of a collection whose servers all answer = membership in its points -/
theorem heldUp_gather (c : Cluster) (rec : Rec) (i : Nat) : C17.heldUp (gather r c rec) i = held (ptsOf (gather r c rec)) i := by
  unfold C17.heldUp held ptsOf
  rw [any_flatMap]
  simp [gather, C17.has, Function.comp_def]

theorem held_perm {P Q : List Pt} (h : P.Perm Q) (i : Nat) : held P i = held Q i := by
  unfold held
  rw [Bool.eq_iff_iff, any_eq_true, any_eq_true]
  exact ⟨fun ⟨x, hx, hp⟩ => ⟨x, h.mem_iff.mp hx, hp⟩, fun ⟨x, hx, hp⟩ => ⟨x, h.mem_iff.mpr hx, hp⟩⟩

theorem held_iff {P : List Pt} {i : Nat} : held P i = true ↔ i ∈ P.map (·.1) := by
  simp [held]

/-! ### update / delete: a fan-out whose per-shard effect is `F` -/

section fan
variable (F : List Pt → List Pt)

theorem newContents_fan (c : Cluster) (rec : Rec) {sid : String} (hs : sid ∈ rec.shards) :
    newContents (r := r) c rec rec.shards (fun x : String => x) (fun s => F (contents r c rec s)) sid = F (contents r c rec sid) := by
  unfold newContents
  rw [find?_self_of_mem hs]

theorem gather_fan (c : Cluster) (rec : Rec) :
    (rec.shards.map fun sid => (⟨newContents (r := r) c rec rec.shards (fun x : String => x) (fun s => F (contents r c rec s)) sid, true⟩ : C17.Shard)) =
      rec.shards.map fun sid => ⟨F (contents r c rec sid), true⟩ :=
  map_congr_left fun sid hs => by rw [newContents_fan F c rec hs]

theorem flatMap_hom {α : Type} (hnil : F [] = []) (happ : ∀ A B, F (A ++ B) = F A ++ F B) (g : α → List Pt) :
    ∀ l : List α, l.flatMap (fun x => F (g x)) = F (l.flatMap g)
  | [] => by simp [hnil]
  | a :: l => by simp [flatMap_cons, happ, flatMap_hom hnil happ g l]

/-- a fan-out with per-shard effect `F` (ids only shrink; `F` commutes with concatenation and
permutation) keeps `Inv`, and `Rel` with `F` applied to the reference collection -/
theorem fan_refines {c : Cluster} {m : Ref} {rec : Rec} {rc : RColl} (hI : Inv r c) (hR : Rel r m c)
    (hm : refGet m (rec.user, rec.coll) = some rc) (hg : getRec r c rec.user rec.coll = some rec)
    (hids : ∀ P, ((F P).map (·.1)).Sublist (P.map (·.1))) (hnil : F [] = []) (happ : ∀ A B, F (A ++ B) = F A ++ F B)
    (hperm : ∀ P Q, P.Perm Q → (F P).Perm (F Q)) :
    Inv r (applyWrites c (wsOf (r := r) rec rec.shards (fun x : String => x) (fun s => F (contents r c rec s)))) ∧
    Rel r (refPut m (rec.user, rec.coll) { rc with pts := F rc.pts })
      (applyWrites c (wsOf (r := r) rec rec.shards (fun x : String => x) (fun s => F (contents r c rec s)))) := by
  obtain ⟨rec0, hg0, _, hp0⟩ := hR.hit _ _ _ hm
  rw [hg] at hg0; cases hg0
  constructor
  · apply inv_writes hI hg (fun x hx => hx)
    rw [gather_fan]
    have hu := hI.uniq _ _ _ hg
    unfold C17.Uniq C17.Coll.ids at hu ⊢
    refine hu.sublist ?_
    simp only [gather, flatMap_map]
    exact C17.flatMap_sublist (fun sid => hids (contents r c rec sid)) rec.shards
  · apply rel_writes hI hR hm hg
    rw [gather_fan]
    have : ptsOf (rec.shards.map fun sid => (⟨F (contents r c rec sid), true⟩ : C17.Shard)) = F (ptsOf (gather r c rec)) := by
      rw [ptsOf_gather]
      simp only [ptsOf, flatMap_map]
      exact flatMap_hom F hnil happ _ _
    rw [this]
    exact hperm _ _ hp0

end fan

theorem updateBody_eq (c : Cluster) (rec : Rec) (req : List Pt) :
    (updateBody r c rec req).1 = applyWrites c (wsOf (r := r) rec rec.shards (fun x : String => x) (fun s => C17.updPts (contents r c rec s) req)) := by
  simp only [updateBody, fanWrites, C17.updatePoints, wsOf, gather, map_map]
  congr 1
  have := zip_map_self (fun sid => (⟨C17.updPts (contents r c rec sid) req, true⟩ : C17.Shard))
    (fun e : String × C17.Shard => (r (sidKey e.1), skey rec e.1, e.2.pts)) rec.shards
  simpa [Function.comp_def] using this

theorem deleteBody_eq (c : Cluster) (rec : Rec) (ids : List Nat) :
    (deleteBody r c rec ids).1 = applyWrites c (wsOf (r := r) rec rec.shards (fun x : String => x) (fun s => C17.delPts (contents r c rec s) ids)) := by
  simp only [deleteBody, fanWrites, C17.deletePoints, wsOf, gather, map_map]
  congr 1
  have := zip_map_self (fun sid => (⟨C17.delPts (contents r c rec sid) ids, true⟩ : C17.Shard))
    (fun e : String × C17.Shard => (r (sidKey e.1), skey rec e.1, e.2.pts)) rec.shards
  simpa [Function.comp_def] using this

theorem updPts_map (P req : List Pt) : C17.updPts P req = P.map fun o => (o.1, C17.finalVal req o.1 o.2) :=
  C17.updPts_eq req P

/-- the failed list of an update, from `C17_failed_update`, against the reference collection -/
theorem update_resp {c : Cluster} {rec : Rec} {P : List Pt} (hp : (ptsOf (gather r c rec)).Perm P) (req : List Pt) :
    (updateBody r c rec req).2 =
      .failed (((req.map (·.1)).filter fun i => !held P i).map fun i => (i, C17.Msg.notFound)) := by
  simp only [updateBody]
  rw [C17.C17_failed_update, gather_all_up]
  simp only [if_true]
  congr 2
  apply filter_congr
  intro i _
  rw [heldUp_gather, held_perm hp]

theorem delete_resp {c : Cluster} {rec : Rec} {P : List Pt} (hp : (ptsOf (gather r c rec)).Perm P) (ids : List Nat) :
    (deleteBody r c rec ids).2 = .failed ((ids.filter fun i => !held P i).map fun i => (i, C17.Msg.notFound)) := by
  simp only [deleteBody]
  rw [C17.C17_failed_delete, gather_all_up]
  simp only [if_true]
  congr 2
  apply filter_congr
  intro i _
  rw [heldUp_gather, held_perm hp]

theorem update_refines {c : Cluster} {m : Ref} {rec : Rec} {rc : RColl} (hI : Inv r c) (hR : Rel r m c)
    (hm : refGet m (rec.user, rec.coll) = some rc) (hg : getRec r c rec.user rec.coll = some rec) (req : List Pt) :
    Inv r (updateBody r c rec req).1 ∧
    Rel r (refPut m (rec.user, rec.coll) { rc with pts := C17.updPts rc.pts req }) (updateBody r c rec req).1 := by
  rw [updateBody_eq]
  apply fan_refines (fun P => C17.updPts P req) hI hR hm hg
  · intro P; rw [C17.updPts_ids]; exact Sublist.refl _
  · rw [updPts_map]; rfl
  · intro A B; simp [updPts_map]
  · intro P Q h; rw [updPts_map, updPts_map]; exact h.map _

theorem delete_refines {c : Cluster} {m : Ref} {rec : Rec} {rc : RColl} (hI : Inv r c) (hR : Rel r m c)
    (hm : refGet m (rec.user, rec.coll) = some rc) (hg : getRec r c rec.user rec.coll = some rec) (ids : List Nat) :
    Inv r (deleteBody r c rec ids).1 ∧
    Rel r (refPut m (rec.user, rec.coll) { rc with pts := C17.delPts rc.pts ids }) (deleteBody r c rec ids).1 := by
  rw [deleteBody_eq]
  apply fan_refines (fun P => C17.delPts P ids) hI hR hm hg
  · intro P
    have := C17.delPts_ids P ids
    rw [this]; exact filter_sublist
  · rfl
  · intro A B; simp [C17.delPts]
  · intro P Q h; exact h.filter _

/-! ### the look-up of the collection record agrees with the reference map -/

theorem lookup_agree {c : Cluster} {m : Ref} (hI : Inv r c) (hR : Rel r m c) {u : Bytes} (hu : C16.slash ∉ u) (col : Bytes) :
    (refGet m (u, col) = none ∧ getRec r c u col = none) ∨
    ∃ rc rec, refGet m (u, col) = some rc ∧ getRec r c u col = some rec ∧ rec.user = u ∧ rec.coll = col ∧
      rec.quota = rc.quota ∧ (ptsOf (gather r c rec)).Perm rc.pts := by
  cases hm : refGet m (u, col) with
  | none => exact Or.inl ⟨rfl, hR.miss u col hu hm⟩
  | some rc =>
    obtain ⟨rec, hg, hq, hp⟩ := hR.hit u col rc hm
    obtain ⟨h1, h2⟩ := hI.fields hu hg
    exact Or.inr ⟨rc, rec, rfl, hg, h1, h2, hq, hp⟩

/-! ### CreateCollection -/

theorem create_refines {c : Cluster} {m : Ref} (hI : Inv r c) (hR : Rel r m c) {u : Bytes} (hu : C16.slash ∉ u)
    (col : Bytes) (quota : Int) (maxCols : Nat) :
    Inv r (createOp r c u col quota maxCols).1 ∧
    Rel r (refStep m u (.create col quota maxCols)).1 (createOp r c u col quota maxCols).1 ∧
    (refStep m u (.create col quota maxCols)).2 = some (createOp r c u col quota maxCols).2 := by
  have hget : dbGet (c.db (r u)) (C16.key u col) = getRec r c u col := rfl
  rcases lookup_agree hI hR hu col with ⟨hm, hg⟩ | ⟨rc, rec, hm, hg, _⟩
  · simp only [createOp, refStep, hget, hg, hm]
    rw [hR.count u hu]
    by_cases hq : refCount m u ≥ maxCols
    · simp only [hq, if_true]; exact ⟨hI, hR, trivial⟩
    · simp only [hq, if_false]
      have hdb := dbAt_put (r := r) c u col ⟨u, col, [], quota⟩
      have hnd : ∀ n, (((setDb c (r u) (dbPut (c.db (r u)) (C16.key u col) ⟨u, col, [], quota⟩)).db n).map (·.1)).Nodup := by
        intro n
        by_cases hn : n = r u
        · subst hn; rw [setDb_db_same]; exact dbPut_keys_nodup (hI.dbNodup _) _ _
        · rw [setDb_db_other _ _ hn]; exact hI.dbNodup n
      refine ⟨?_, ?_, trivial⟩
      · refine inv_dbAt hI rfl hdb hnd hu ?_ ?_
        · intro rv hrv; cases hrv
          exact ⟨rfl, rfl, nodup_nil, by simp [C17.Uniq, C17.Coll.ids, gather]⟩
        · intro rec0 h0; rw [hg] at h0; cases h0
      · refine ⟨refPut_keys_nodup hR.keys _ _, ?_, ?_, ?_, ?_⟩
        · intro e he
          simp only [refPut, mem_append, mem_filter, mem_singleton] at he
          rcases he with he | rfl
          · exact hR.users e he.1
          · exact hu
        · intro u2 col2 rc2 h2
          rw [refGet_put] at h2
          by_cases hk : (u2, col2) = (u, col)
          · rw [if_pos hk] at h2; cases h2; cases hk
            refine ⟨⟨u, col, [], quota⟩, ?_, rfl, by simp [ptsOf, gather]⟩
            rw [hdb.getRec hu col hu]; simp
          · rw [if_neg hk] at h2
            obtain ⟨rec2, hg2, hq2, hp2⟩ := hR.hit _ _ _ h2
            refine ⟨rec2, ?_, hq2, by rw [gather_sh (by rfl)]; exact hp2⟩
            rw [hdb.getRec hu col2 (hR.user_ok h2)]
            have : ¬ (u2 = u ∧ col2 = col) := fun e => hk (by rw [e.1, e.2])
            rw [if_neg this]; exact hg2
        · intro u2 col2 hu2 h2
          rw [refGet_put] at h2
          by_cases hk : (u2, col2) = (u, col)
          · rw [if_pos hk] at h2; cases h2
          · rw [if_neg hk] at h2
            rw [hdb.getRec hu col2 hu2]
            have : ¬ (u2 = u ∧ col2 = col) := fun e => hk (by rw [e.1, e.2])
            rw [if_neg this]; exact hR.miss u2 col2 hu2 h2
        · intro u2 hu2
          rw [refCount_put_new hR.keys _ _ _ _ hm]
          by_cases hn : r u2 = r u
          · rw [hn, setDb_db_same, dbScan_put_new (hI.dbNodup _) col _ hu hu2 (by rw [hget]; exact hg), ← hn, hR.count u2 hu2]
          · rw [setDb_db_other _ _ hn, hR.count u2 hu2]
            have : ¬ u = u2 := fun e => hn (by rw [e])
            simp [this]
  · simp only [createOp, refStep, hget, hg, hm]
    exact ⟨hI, hR, trivial⟩

/-! ### DeleteCollection -/

theorem drop_refines {c : Cluster} {m : Ref} (hI : Inv r c) (hR : Rel r m c) {rec : Rec} {rc : RColl}
    (hm : refGet m (rec.user, rec.coll) = some rc) (hg : getRec r c rec.user rec.coll = some rec) :
    Inv r (dropBody r c rec).1 ∧ Rel r (refErase m (rec.user, rec.coll)) (dropBody r c rec).1 := by
  have hu := hR.user_ok hm
  have hdb := dbAt_erase (r := r) c rec.user rec.coll
  -- the shard store afterwards
  have hsh : ∀ n k P, (dropBody r c rec).1.sh n k = some P → c.sh n k = some P ∧
      ¬ ((rec.shards.map fun sid => r (sidKey sid)).contains n = true ∧ k.user = rec.user ∧ k.coll = rec.coll) := by
    intro n k P h
    simp only [dropBody] at h
    split at h
    · cases h
    · rename_i hc
      refine ⟨h, fun e => hc ?_⟩
      simp only [Bool.and_eq_true, beq_iff_eq]; exact ⟨e.1, e.2.1, e.2.2⟩
  have hshother : ∀ n k, ¬ (k.user = rec.user ∧ k.coll = rec.coll) → (dropBody r c rec).1.sh n k = c.sh n k := by
    intro n k hne
    simp only [dropBody]
    split
    · rename_i hc
      exfalso; apply hne
      simp only [Bool.and_eq_true, beq_iff_eq] at hc
      exact hc.2
    · rfl
  have hgather : ∀ rec2 : Rec, ¬ (rec2.user = rec.user ∧ rec2.coll = rec.coll) → gather r (dropBody r c rec).1 rec2 = gather r c rec2 := by
    intro rec2 hne
    unfold gather contents
    exact map_congr_left fun sid _ => by rw [hshother _ _ (by simpa [skey] using hne)]
  have hdbeq : (dropBody r c rec).1.db = (setDb c (r rec.user) (dbErase (c.db (r rec.user)) (C16.key rec.user rec.coll))).db := rfl
  have hcase : ∀ n k rec2, dbGet ((dropBody r c rec).1.db n) k = some rec2 →
      dbGet (c.db n) k = some rec2 ∧ ¬ (n = r rec.user ∧ k = C16.key rec.user rec.coll) := by
    intro n k rec2 h
    rw [hdbeq, hdb] at h
    by_cases hs : n = r rec.user ∧ k = C16.key rec.user rec.coll
    · rw [if_pos hs] at h; cases h
    · rw [if_neg hs] at h; exact ⟨h, hs⟩
  have hgetRec : ∀ {u2 : Bytes} (col2 : Bytes), C16.slash ∉ u2 →
      getRec r (dropBody r c rec).1 u2 col2 = if u2 = rec.user ∧ col2 = rec.coll then none else getRec r c u2 col2 := by
    intro u2 col2 hu2
    have := hdb.getRec hu col2 hu2
    exact this
  have hne_of : ∀ n k rec2, dbGet ((dropBody r c rec).1.db n) k = some rec2 → ¬ (rec2.user = rec.user ∧ rec2.coll = rec.coll) := by
    intro n k rec2 h e
    obtain ⟨h1, h2⟩ := hcase n k rec2 h
    obtain ⟨hk, hn, _⟩ := hI.recWF _ _ _ h1
    apply h2
    rw [hn, hk, e.1, e.2]; exact ⟨rfl, rfl⟩
  constructor
  · refine ⟨?_, ?_, ?_, ?_, ?_⟩
    · intro n k rec2 h; exact hI.recWF n k rec2 (hcase n k rec2 h).1
    · intro n
      rw [hdbeq]
      by_cases hn : n = r rec.user
      · subst hn; rw [setDb_db_same]; exact dbErase_keys_nodup (hI.dbNodup _) _
      · rw [setDb_db_other _ _ hn]; exact hI.dbNodup n
    · intro n k P h
      obtain ⟨h1, h2⟩ := hsh n k P h
      obtain ⟨hn, rec2, hg2, e1, e2, e3⟩ := hI.shWF n k P h1
      refine ⟨hn, rec2, ?_, e1, e2, e3⟩
      have hku : C16.slash ∉ k.user := by rw [← e1]; exact (hI.recWF _ _ _ hg2).2.2
      rw [hgetRec k.coll hku]
      by_cases hs : k.user = rec.user ∧ k.coll = rec.coll
      · exfalso
        rw [hs.1, hs.2, hg] at hg2; cases hg2
        apply h2
        refine ⟨?_, hs.1, hs.2⟩
        rw [contains_iff_mem, hn]
        exact mem_map_of_mem (f := fun sid => r (sidKey sid)) e3
      · rw [if_neg hs]; exact hg2
    · intro n k rec2 h; exact hI.shardsNodup n k rec2 (hcase n k rec2 h).1
    · intro n k rec2 h
      rw [hgather rec2 (hne_of n k rec2 h)]
      exact hI.uniq n k rec2 (hcase n k rec2 h).1
  · refine ⟨refErase_keys_nodup hR.keys _, ?_, ?_, ?_, ?_⟩
    · intro e he
      simp only [refErase, mem_filter] at he
      exact hR.users e he.1
    · intro u2 col2 rc2 h2
      rw [refGet_erase] at h2
      by_cases hk : (u2, col2) = (rec.user, rec.coll)
      · rw [if_pos hk] at h2; cases h2
      · rw [if_neg hk] at h2
        obtain ⟨rec2, hg2, hq2, hp2⟩ := hR.hit _ _ _ h2
        have hf := hI.fields (hR.user_ok h2) hg2
        have hne : ¬ (rec2.user = rec.user ∧ rec2.coll = rec.coll) := by
          rw [hf.1, hf.2]; intro e; exact hk (by rw [e.1, e.2])
        refine ⟨rec2, ?_, hq2, by rw [hgather rec2 hne]; exact hp2⟩
        rw [hgetRec col2 (hR.user_ok h2)]
        have : ¬ (u2 = rec.user ∧ col2 = rec.coll) := fun e => hk (by rw [e.1, e.2])
        rw [if_neg this]; exact hg2
    · intro u2 col2 hu2 h2
      rw [hgetRec col2 hu2]
      by_cases hk : u2 = rec.user ∧ col2 = rec.coll
      · rw [if_pos hk]
      · rw [if_neg hk]
        rw [refGet_erase] at h2
        have : ¬ ((u2, col2) = (rec.user, rec.coll)) := fun e => hk (by cases e; exact ⟨rfl, rfl⟩)
        rw [if_neg this] at h2
        exact hR.miss u2 col2 hu2 h2
    · intro u2 hu2
      have h1 := refCount_erase hR.keys rec.user rec.coll u2 hm
      rw [hdbeq]
      by_cases hn : r u2 = r rec.user
      · rw [hn, setDb_db_same]
        have h2 := dbScan_erase (hI.dbNodup (r rec.user)) rec.coll hu hu2 hg
        have h3 := hR.count u2 hu2
        rw [hn] at h3
        omega
      · rw [setDb_db_other _ _ hn, hR.count u2 hu2]
        have : ¬ rec.user = u2 := fun e => hn (by rw [e])
        simp only [this, if_false] at h1
        omega

end Sema.ClusterCompose
