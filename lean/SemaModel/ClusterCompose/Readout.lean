/-
ClusterCompose — what `Inv` and `Rel` say in plain terms about one collection (where every point
is, that it is there once, that nothing lies anywhere else, that counts add up), the search answer
(C17_search instantiated with shards that all answer), and the per-shard count limit (C15_limits).
-/
import SemaModel.ClusterCompose.History
namespace Sema.ClusterCompose
open Sema List

variable {r : Bytes → Name}

theorem flatMap_nodup_unique {α β : Type} {f : α → List β} : ∀ {l : List α}, (l.flatMap f).Nodup →
    ∀ a ∈ l, ∀ b ∈ l, ∀ x, x ∈ f a → x ∈ f b → a = b ∨ False
  | [], _, a, ha, _, _, _, _, _ => by cases ha
  | c :: l, h, a, ha, b, hb, x, hxa, hxb => by
    rw [flatMap_cons, nodup_append] at h
    obtain ⟨_, h2, h3⟩ := h
    rcases mem_cons.mp ha with e1 | ha' <;> rcases mem_cons.mp hb with e2 | hb'
    · exact Or.inl (e1.trans e2.symm)
    · subst e1; exact absurd rfl (h3 x hxa x (mem_flatMap.mpr ⟨b, hb', hxb⟩))
    · subst e2; exact absurd rfl (h3 x hxb x (mem_flatMap.mpr ⟨a, ha', hxa⟩))
    · exact flatMap_nodup_unique h2 a ha' b hb' x hxa hxb

/-- a family of duplicate-free sub-selections of a duplicate-free concatenation is duplicate-free -/
theorem flatMap_nodup_of_subset {α β : Type} {f g : α → List β} : ∀ {l : List α}, (l.flatMap f).Nodup →
    (∀ a ∈ l, (g a).Nodup) → (∀ a ∈ l, ∀ x ∈ g a, x ∈ f a) → (l.flatMap g).Nodup
  | [], _, _, _ => by simp
  | c :: l, h, hn, hs => by
    rw [flatMap_cons, nodup_append] at h ⊢
    obtain ⟨_, h2, h3⟩ := h
    refine ⟨hn c mem_cons_self, flatMap_nodup_of_subset h2 (fun a ha => hn a (mem_cons_of_mem _ ha))
      (fun a ha => hs a (mem_cons_of_mem _ ha)), ?_⟩
    intro x hx y hy
    obtain ⟨a, ha, hya⟩ := mem_flatMap.mp hy
    exact h3 x (hs c mem_cons_self x hx) y (mem_flatMap.mpr ⟨a, ha, hs a (mem_cons_of_mem _ ha) y hya⟩)

/-- **Read-out of the refinement invariant for one collection of the reference map.** -/
theorem readout (cfg : Cfg) {c : Cluster} {m : Ref} (hI : Inv r c) (hR : Rel r m c) {u col : Bytes} {rc : RColl}
    (hm : refGet m (u, col) = some rc) :
    ∃ rec, dbGet (c.db (r u)) (C16.key u col) = some rec ∧ rec.user = u ∧ rec.coll = col ∧ rec.quota = rc.quota ∧
      rec.shards.Nodup ∧
      -- the collection's points are exactly what the listed shards hold at the owner of each shard id
      (rec.shards.flatMap fun sid => (c.sh (r (sidKey sid)) ⟨u, col, sid⟩).getD []).Perm rc.pts ∧
      -- a point id is held by one listed shard only, once
      (∀ sid ∈ rec.shards, ∀ sid' ∈ rec.shards, ∀ i, held ((c.sh (r (sidKey sid)) ⟨u, col, sid⟩).getD []) i = true →
        held ((c.sh (r (sidKey sid')) ⟨u, col, sid'⟩).getD []) i = true → sid = sid') ∧
      ((rec.shards.flatMap fun sid => ((c.sh (r (sidKey sid)) ⟨u, col, sid⟩).getD []).map (·.1)).Nodup) ∧
      -- nothing of the collection lies anywhere else: every shard directory of it, on any server, is listed and
      -- sits at the owner of its id; the record exists at the owner of the user only
      (∀ n sid P, c.sh n ⟨u, col, sid⟩ = some P → n = r (sidKey sid) ∧ sid ∈ rec.shards) ∧
      (∀ n rec', dbGet (c.db n) (C16.key u col) = some rec' → n = r u ∧ rec' = rec) ∧
      -- point counts add up (what GetShardsInfo reports, summed, is the size of the collection)
      C15.total (infos cfg r c rec) = (rc.pts.length : Int) := by
  have hu := hR.user_ok hm
  obtain ⟨rec, hg, hq, hp⟩ := hR.hit u col rc hm
  obtain ⟨h1, h2⟩ := hI.fields hu hg
  subst h1; subst h2
  have hun := hI.uniq _ _ _ hg
  unfold C17.Uniq C17.Coll.ids at hun
  simp only [gather, flatMap_map, C17.Shard.ids] at hun
  refine ⟨rec, hg, rfl, rfl, hq, hI.shardsNodup _ _ _ hg, ?_, ?_, hun, ?_, ?_, ?_⟩
  · rw [ptsOf_gather] at hp; exact hp
  · intro sid hs sid' hs' i hi hi'
    rw [held_iff] at hi hi'
    rcases flatMap_nodup_unique hun sid hs sid' hs' i hi hi' with e | e
    · exact e
    · exact e.elim
  · intro n sid P h
    obtain ⟨hn, rec0, hg0, _, _, h3⟩ := hI.shWF n _ P h
    simp only at hg0 h3 hn
    rw [hg] at hg0; cases hg0
    exact ⟨hn, h3⟩
  · intro n rec' h
    obtain ⟨hk, hn, hs⟩ := hI.recWF n _ rec' h
    obtain ⟨e1, e2⟩ := C16.C16_key_inj hu hs hk
    have hn' : n = r rec.user := by rw [hn, ← e1]
    subst hn'
    have : dbGet (c.db (r rec.user)) (C16.key rec.user rec.coll) = some rec := hg
    rw [this] at h; cases h
    exact ⟨rfl, rfl⟩
  · rw [total_infos, hp.length_eq]

/-- what a shard's ranking of a query must satisfy (C03–C06 provide it): its hits are points of the
shard, each once, best score first -/
def RankOK (cfg : Cfg) (q : Nat) : Prop :=
  ∀ P : List Pt, (P.map (·.1)).Nodup → (∀ x ∈ cfg.rank q P, x.id ∈ P.map (·.1)) ∧ ((cfg.rank q P).map (·.id)).Nodup ∧
    (cfg.rank q P).Pairwise (fun x y => C17.leScore x y = true)

/-- **the search answer**, `C17_search` instantiated with the shards of the composed state (all of
which answer): at most `limit` hits, no point twice, every hit a point of the reference collection,
best score first -/
theorem search_readout (cfg : Cfg) {c : Cluster} {m : Ref} (hI : Inv r c) (hR : Rel r m c) {u col : Bytes} {rc : RColl}
    (hm : refGet m (u, col) = some rc) (q limit offset : Nat) (hrank : RankOK cfg q) :
    ∃ res, (stepR cfg r c u (.search col q limit offset)).2 = .hits (some res) ∧ res.length ≤ limit ∧
      (res.map (·.id)).Nodup ∧ (∀ x ∈ res, held rc.pts x.id = true) ∧ res.Pairwise (fun x y => C17.leScore x y = true) := by
  have hu := hR.user_ok hm
  obtain ⟨rec, hg, _, hp⟩ := hR.hit u col rc hm
  simp only [stepR, withColl, hg, searchBody]
  have hun := hI.uniq _ _ _ hg
  unfold C17.Uniq C17.Coll.ids at hun
  simp only [gather, flatMap_map, C17.Shard.ids] at hun
  have hnd : ∀ sid ∈ rec.shards, ((contents r c rec sid).map (·.1)).Nodup := by
    intro sid hs
    obtain ⟨l1, l2, hl⟩ := append_of_mem hs
    rw [hl, flatMap_append, flatMap_cons] at hun
    exact (nodup_append.mp (nodup_append.mp hun).2.1).1
  have hany : (((gather r c rec).map fun sh => some (cfg.rank q sh.pts)).any (·.isNone)) = false := by
    simp [any_map]
  cases hs : C17.searchPoints (C17.sortBy C17.leScore) cfg.heur cfg.maxLimit
      ((gather r c rec).map fun sh => some (cfg.rank q sh.pts)) limit offset with
  | none => simp [C17.searchPoints, hany] at hs
  | some res =>
    have hflat : (((gather r c rec).map fun sh => some (cfg.rank q sh.pts)).flatMap fun a => a.getD []) =
        rec.shards.flatMap fun sid => cfg.rank q (contents r c rec sid) := by
      simp [gather, flatMap_map]
    obtain ⟨_, h2, h3, h4, h5⟩ := C17.C17_search C17.Hit.id C17.leScore (C17.sortBy C17.leScore) C17.C17_sort_score.1
      cfg.heur cfg.maxLimit _ limit offset res
      (by
        rw [hflat, map_flatMap]
        exact flatMap_nodup_of_subset hun (fun sid hs' => (hrank _ (hnd sid hs')).2.1)
          (fun sid hs' x hx => by
            obtain ⟨y, hy, rfl⟩ := mem_map.mp hx
            exact (hrank _ (hnd sid hs')).1 y hy))
      (by
        intro a ha
        obtain ⟨sh, hsh, rfl⟩ := mem_map.mp ha
        obtain ⟨sid, hs', rfl⟩ := mem_map.mp hsh
        exact (hrank _ (hnd sid hs')).2.2)
      hs
    refine ⟨res, rfl, h2, h3, ?_, h5⟩
    intro x hx
    obtain ⟨a, ha, hxa⟩ := h4 x hx
    obtain ⟨sh, hsh, rfl⟩ := mem_map.mp ha
    obtain ⟨sid, hs', rfl⟩ := mem_map.mp hsh
    simp only [Option.getD_some] at hxa
    have hid := (hrank _ (hnd sid hs')).1 x hxa
    rw [held_iff]
    obtain ⟨p, hp', he⟩ := mem_map.mp hid
    rw [← he]
    apply mem_map_of_mem
    apply hp.mem_iff.mp
    exact mem_flatMap.mpr ⟨_, hsh, hp'⟩

/-! ### the per-shard count limit (C15_limits as an invariant of the shard store) -/

/-- no shard directory holds more than `MaxShardPointCount` points -/
def CountInv (cfg : Cfg) (c : Cluster) : Prop := ∀ n k P, c.sh n k = some P → (P.length : Int) ≤ cfg.maxC

theorem contents_count {cfg : Cfg} {c : Cluster} (hC : CountInv cfg c) (h0 : 0 ≤ cfg.maxC) (rec : Rec) (sid : String) :
    ((contents r c rec sid).length : Int) ≤ cfg.maxC := by
  unfold contents
  cases h : c.sh (r (sidKey sid)) (skey rec sid) with
  | none => simpa using h0
  | some P => exact hC _ _ _ h

theorem fan_count {cfg : Cfg} {c : Cluster} (hC : CountInv cfg c) (h0 : 0 ≤ cfg.maxC) (rec : Rec) (F : List Pt → List Pt)
    (hF : ∀ P, (F P).length ≤ P.length) :
    CountInv cfg (applyWrites c (wsOf (r := r) rec rec.shards (fun x : String => x) (fun s => F (contents r c rec s)))) := by
  intro n k P h
  rcases applyWrites_cases _ _ _ _ _ h with h | ⟨w, hw, _, _, h3⟩
  · exact hC n k P h
  · obtain ⟨sid, _, rfl⟩ := mem_map.mp hw
    simp only at h3
    rw [← h3]
    have := contents_count (r := r) hC h0 rec sid
    have := hF (contents r c rec sid)
    omega

/-- `InsertPoints`: C15_limits, read against the shard store — the count the distribution saw for a
shard is what the shard holds (an existing shard reported it; a created one is empty) -/
theorem insert_count (cfg : Cfg) {c : Cluster} {rec : Rec} (hI : Inv r c) (hg : getRec r c rec.user rec.coll = some rec)
    (pts : List Pt) (mk : Nat → String) (hfresh : ∀ i, mk i ∉ rec.shards) (hC : CountInv cfg c) (h0 : 0 ≤ cfg.maxC) :
    CountInv cfg (insertBody cfg r c rec pts mk).1 := by
  have hput : ∀ k, (if k = 0 then c else putRec r c (withCreated rec mk k)).sh = c.sh := by
    intro k; split <;> rfl
  unfold insertBody
  simp only []
  split
  · exact hC
  · cases hd : C15.distribute ((infos cfg r c rec).length + pts.length + 1) cfg.maxS cfg.maxC (fun i => some (mk i)) (infos cfg r c rec)
        ((sortPts pts).map cfg.psz) with
    | createErr k => simp only []; intro n key P h; rw [hput] at h; exact hC n key P h
    | outOfFuel k => simp only []; intro n key P h; rw [hput] at h; exact hC n key P h
    | ok as k =>
      simp only []
      intro n key P h
      rcases applyWrites_cases _ _ _ _ _ h with h | ⟨w, hw, _, _, h3⟩
      · rw [hput] at h; exact hC n key P h
      · obtain ⟨a, ha, rfl⟩ := mem_map.mp hw
        simp only at h3
        rw [← h3]
        have hold := contents_count (r := r) hC h0 rec a.shard.id
        split
        · exact hold
        · have hlim := (C15.C15_limits hd a ha).1
          have hcnt : (a.shard.count : Int) = ((contents r c rec a.shard.id).length : Int) := by
            rcases assign_id cfg hd ha with hin | ⟨i, hi⟩
            · obtain ⟨sid, _, he⟩ := mem_map.mp hin
              rw [← he]
            · rw [hi]
              simp only [C15.fresh]
              rw [contents_unlisted hI hg (hfresh i)]; rfl
          have hsl : (slice (sortPts pts) a).length ≤ a.hi - a.lo := by
            unfold slice; rw [length_take]; exact Nat.min_le_left _ _
          rw [length_append]
          omega

theorem step_count (cfg : Cfg) {c : Cluster} {m : Ref} {u : Bytes} {op : Op} (hI : Inv r c) (hR : Rel r m c)
    (hok : StepOK cfg r c m u op) (hC : CountInv cfg c) (h0 : 0 ≤ cfg.maxC) : CountInv cfg (stepR cfg r c u op).1 := by
  have hu := hok.user
  cases op with
  | create col quota maxCols =>
    simp only [stepR, createOp]
    split
    · exact hC
    · split
      · exact hC
      · exact hC
  | get col => simp only [stepR, withColl]; split <;> exact hC
  | search col q limit offset => simp only [stepR, withColl]; split <;> exact hC
  | update col req =>
    simp only [stepR, withColl]
    split
    · exact hC
    · rw [updateBody_eq]
      exact fan_count hC h0 _ (fun P => C17.updPts P req) (fun P => by rw [updPts_map, length_map]; exact Nat.le_refl _)
  | delete col ids =>
    simp only [stepR, withColl]
    split
    · exact hC
    · rw [deleteBody_eq]
      exact fan_count hC h0 _ (fun P => C17.delPts P ids) (fun P => length_filter_le _ _)
  | drop col =>
    simp only [stepR, withColl]
    split
    · exact hC
    · intro n k P h
      simp only [dropBody] at h
      split at h
      · cases h
      · exact hC n k P h
  | insert col pts mk =>
    rcases lookup_agree hI hR hu col with ⟨hm, hg⟩ | ⟨rc, rec, hm, hg, h1, h2, _, _⟩
    · simp only [stepR, withColl, hg]; exact hC
    · have hins := hok.2 rc rec hm hg
      subst h1; subst h2
      simp only [stepR, withColl, hg]
      exact insert_count cfg hI hg pts mk hins.mkFresh hC h0

end Sema.ClusterCompose
