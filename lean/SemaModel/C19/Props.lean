/-
C19 — key and value encodings round-trip and preserve order.
Every theorem here is about the definitions *generated from the Go source* (SemaModel/Generated).
Only property theorems (and their non-vacuity examples) live in this file.
-/
import SemaModel.C19.Lemmas
import SemaModel.Base.FloatLemmas
import SemaModel.Generated.Sortable
import SemaModel.Generated.Keys
import SemaModel.Generated.Conversion
namespace Sema.C19
open Sema Sema.Gen

/-! ### sortable encodings of the inverted index (uint64, int64, float64, string) -/

theorem uint_roundtrip (x : BitVec 64) :
    Sortable.fromByteSortable_uint64 (Sortable.toByteSortable_uint64 x) = x := by
  simp [Sortable.fromByteSortable_uint64, Sortable.toByteSortable_uint64]

theorem uint_order (x y : BitVec 64) :
    lexLt (Sortable.toByteSortable_uint64 x) (Sortable.toByteSortable_uint64 y) = true ↔ x < y := by
  simp [Sortable.toByteSortable_uint64, be64_lexLt, BitVec.lt_def]

theorem uint_inj (x y : BitVec 64) :
    Sortable.toByteSortable_uint64 x = Sortable.toByteSortable_uint64 y ↔ x = y := by
  simp [Sortable.toByteSortable_uint64, be64_inj]

theorem int_roundtrip (x : BitVec 64) :
    Sortable.fromByteSortable_int64 (Sortable.toByteSortable_int64 x) = x := by
  simp [Sortable.fromByteSortable_int64, Sortable.toByteSortable_int64, BitVec.xor_assoc]

/-- byte order of the keys is the *signed* order of the int64 values -/
theorem int_order (x y : BitVec 64) :
    lexLt (Sortable.toByteSortable_int64 x) (Sortable.toByteSortable_int64 y) = true ↔ x.slt y = true := by
  have hx := x.isLt
  have hy := y.isLt
  simp only [Sortable.toByteSortable_int64, putBE64_zeros, be64_lexLt, xor_sign_toNat, BitVec.slt,
    BitVec.toInt_eq_toNat_cond, decide_eq_true_eq]
  split <;> split <;> omega

theorem int_inj (x y : BitVec 64) :
    Sortable.toByteSortable_int64 x = Sortable.toByteSortable_int64 y ↔ x = y := by
  simp only [Sortable.toByteSortable_int64, putBE64_zeros, be64_inj]
  constructor
  · intro h
    have := congrArg (· ^^^ 0x8000000000000000#64) h
    simpa [BitVec.xor_assoc] using this
  · rintro rfl; rfl

/-- explicit form of the float key: `-0.0` shares the key of `+0.0`, non-negative values get the sign
bit set, negative values are complemented -/
theorem float_enc (x : BitVec 64) (hx : F64.isNaN x = false) :
    Sortable.toByteSortable_float64 x =
      be64 (if x.toNat % 2^63 = 0 then 0x8000000000000000#64
            else if x.toNat < 2^63 then x ^^^ 0x8000000000000000#64 else x ^^^ 0xffffffffffffffff#64) := by
  simp only [Sortable.toByteSortable_float64, putBE64_zeros, F64.eq_zero x hx]
  by_cases hz : x.toNat % 2^63 = 0
  · simp only [hz, decide_true, if_true, F64.ge_zero_zero]
    rfl
  · simp only [hz, decide_false, Bool.false_eq_true, if_false, F64.ge_zero x hx, or_false]
    by_cases hp : x.toNat < 2^63 <;> simp [hp]

/-- the unsigned value of the float key: a strictly monotone function of the sign-magnitude value -/
theorem float_key_toNat (x : BitVec 64) (hx : F64.isNaN x = false) :
    (natBE (Sortable.toByteSortable_float64 x) : Int) =
      if 0 ≤ F64.key x then 2^63 + F64.key x else 2^63 - 1 + F64.key x := by
  have hlt := x.isLt
  rw [float_enc x hx, natBE_be64, F64.key_eq]
  by_cases hz : x.toNat % 2^63 = 0
  · simp only [hz, if_true]; split <;> simp
  · by_cases hp : x.toNat < 2^63
    · simp only [hz, hp, if_true, if_false, xor_sign_toNat]; split <;> split <;> omega
    · simp only [hz, hp, if_false, xor_ones_toNat]; split <;> split <;> omega

theorem float_order (x y : BitVec 64) (hx : F64.isNaN x = false) (hy : F64.isNaN y = false) :
    lexLt (Sortable.toByteSortable_float64 x) (Sortable.toByteSortable_float64 y) = true ↔ F64.lt x y = true := by
  have h1 := float_key_toNat x hx
  have h2 := float_key_toNat y hy
  have l1 : (Sortable.toByteSortable_float64 x).length = 8 := by rw [float_enc x hx]; rfl
  have l2 : (Sortable.toByteSortable_float64 y).length = 8 := by rw [float_enc y hy]; rfl
  rw [lexLt_iff_natBE _ _ (by rw [l1, l2])]
  simp only [F64.lt, hx, hy, Bool.not_false, Bool.true_and, decide_eq_true_eq]
  split at h1 <;> split at h2 <;> omega

/-- equal keys exactly for IEEE-equal values (`-0.0 == +0.0` share a key, nothing else does) -/
theorem float_inj (x y : BitVec 64) (hx : F64.isNaN x = false) (hy : F64.isNaN y = false) :
    Sortable.toByteSortable_float64 x = Sortable.toByteSortable_float64 y ↔ F64.eq x y = true := by
  have h1 := float_key_toNat x hx
  have h2 := float_key_toNat y hy
  have l1 : (Sortable.toByteSortable_float64 x).length = 8 := by rw [float_enc x hx]; rfl
  have l2 : (Sortable.toByteSortable_float64 y).length = 8 := by rw [float_enc y hy]; rfl
  rw [← natBE_eq_iff _ _ (by rw [l1, l2])]
  simp only [F64.eq, hx, hy, Bool.not_false, Bool.true_and, beq_iff_eq]
  split at h1 <;> split at h2 <;> omega

/-- decoding returns an IEEE-equal value, bit-identical unless the value is `-0.0` -/
theorem float_roundtrip (x : BitVec 64) (hx : F64.isNaN x = false) :
    F64.eq (Sortable.fromByteSortable_float64 (Sortable.toByteSortable_float64 x)) x = true ∧
    (x ≠ 0x8000000000000000#64 → Sortable.fromByteSortable_float64 (Sortable.toByteSortable_float64 x) = x) := by
  have hlt := x.isLt
  rw [float_enc x hx]
  simp only [Sortable.fromByteSortable_float64, getBE64_be64, and_sign_ne_zero]
  by_cases hz : x.toNat % 2^63 = 0
  · simp only [hz, if_true]
    have hd : (0x8000000000000000#64 ^^^ 0x8000000000000000#64) = 0#64 := by decide
    rcases (by omega : x.toNat = 0 ∨ x.toNat = 2^63) with h0 | h0
    · have : x = 0#64 := BitVec.eq_of_toNat_eq (by simpa using h0)
      subst this; simp; decide
    · have : x = 0x8000000000000000#64 := BitVec.eq_of_toNat_eq (by simpa using h0)
      subst this; simp; decide
  · by_cases hp : x.toNat < 2^63
    · have hk : decide (2^63 ≤ (x ^^^ 0x8000000000000000#64).toNat) = true := by
        rw [xor_sign_toNat]; simp [hp]
      simp only [hz, hp, if_true, if_false, hk, BitVec.xor_assoc, BitVec.xor_self, BitVec.xor_zero]
      refine ⟨?_, fun _ => trivial⟩
      simp [F64.eq, hx]
    · have hk : decide (2^63 ≤ (x ^^^ 0xffffffffffffffff#64).toNat) = false := by
        rw [xor_ones_toNat]; simp; omega
      simp only [hz, hp, if_false, hk, Bool.false_eq_true, BitVec.xor_assoc, BitVec.xor_self, BitVec.xor_zero]
      refine ⟨?_, fun _ => trivial⟩
      simp [F64.eq, hx]

/-- strings are stored as their bytes; `lexLt` *is* Go's string order, so order and identity are trivial -/
theorem string_roundtrip (s : Bytes) :
    Sortable.fromByteSortable_string (Sortable.toByteSortable_string s) = s := rfl
theorem string_order (s t : Bytes) :
    lexLt (Sortable.toByteSortable_string s) (Sortable.toByteSortable_string t) = lexLt s t := rfl
theorem string_inj (s t : Bytes) :
    Sortable.toByteSortable_string s = Sortable.toByteSortable_string t ↔ s = t := Iff.rfl


/-! ### storage keys -/

theorem nodeKey_eq (id : BitVec 64) (s : Byte) : Keys.NodeKey id s = 0x6e#8 :: (le64 id ++ [s]) := by
  simp [Keys.NodeKey, Go.zeros, Go.putLE64, blit, le64, List.replicate]

theorem nodeKey_roundtrip (id : BitVec 64) (s : Byte) :
    Keys.NodeIdFromKey (Keys.NodeKey id s) s = (id, true) := by
  rw [nodeKey_eq]
  simp [Keys.NodeIdFromKey, Go.idx, bget, Go.slice, Go.getLE64, le64]
  exact ofLE64_le64 id

theorem nodeKey_inj (id id' : BitVec 64) (s s' : Byte) :
    Keys.NodeKey id s = Keys.NodeKey id' s' ↔ id = id' ∧ s = s' := by
  rw [nodeKey_eq, nodeKey_eq]
  constructor
  · intro h
    have h1 : le64 id ++ [s] = le64 id' ++ [s'] := by simpa using h
    have h2 := List.append_inj h1 (by simp)
    exact ⟨(le64_inj _ _).1 h2.1, by simpa using h2.2⟩
  · rintro ⟨rfl, rfl⟩; rfl

/-- a node key written with one suffix is never recognised under another suffix -/
theorem nodeKey_suffix_sep (id : BitVec 64) (s s' : Byte) (h : s ≠ s') :
    (Keys.NodeIdFromKey (Keys.NodeKey id s) s').2 = false := by
  rw [nodeKey_eq]
  simp [Keys.NodeIdFromKey, Go.idx, bget, le64, h]

theorem pointKey_eq (u : Bytes) (s : Byte) (hu : u.length = 16) :
    Keys.PointKey u s = 0x70#8 :: (u ++ [s]) := by
  match u, hu with
  | [a0,a1,a2,a3,a4,a5,a6,a7,a8,a9,a10,a11,a12,a13,a14,a15], _ =>
    simp [Keys.PointKey, Go.zeros, Go.copyAt, blit, List.replicate]

theorem pointKey_inj (u u' : Bytes) (s s' : Byte) (hu : u.length = 16) (hu' : u'.length = 16) :
    Keys.PointKey u s = Keys.PointKey u' s' ↔ u = u' ∧ s = s' := by
  rw [pointKey_eq u s hu, pointKey_eq u' s' hu']
  constructor
  · intro h
    have h1 : u ++ [s] = u' ++ [s'] := by simpa using h
    have h2 := List.append_inj h1 (by rw [hu, hu'])
    exact ⟨h2.1, by simpa using h2.2⟩
  · rintro ⟨rfl, rfl⟩; rfl

/-- node keys and point keys live in the same bucket and never collide -/
theorem nodeKey_ne_pointKey (id : BitVec 64) (s s' : Byte) (u : Bytes) (hu : u.length = 16) :
    Keys.NodeKey id s ≠ Keys.PointKey u s' := by
  rw [nodeKey_eq, pointKey_eq u s' hu]; simp

/-! (the keys of the text index bucket - `documentKey`, `termKey` and their decoders in shard/index/text/text.go - are in
`TextKeys.lean`: C01 / C02 / C04 import THIS module for the sortable and node / point key theorems, and a change of the text
index's key functions must not stop their builds - notes/CROSSALARM.md) -/

/-! ### value encodings -/

theorem uint64_roundtrip (x : BitVec 64) : Conversion.BytesToUint64 (Conversion.Uint64ToBytes x) = x := by
  simp [Conversion.BytesToUint64, Conversion.Uint64ToBytes]

theorem uint64_inj (x y : BitVec 64) : Conversion.Uint64ToBytes x = Conversion.Uint64ToBytes y ↔ x = y := by
  simp [Conversion.Uint64ToBytes, le64_inj]

theorem singleFloat32_roundtrip (x : BitVec 32) :
    Conversion.BytesToSingleFloat32 (Conversion.SingleFloat32ToBytes x) = x := by
  simp [Conversion.BytesToSingleFloat32, Conversion.SingleFloat32ToBytes]

/-- a float32 vector of ANY length (all bit patterns, NaNs included) survives the byte encoding -/
theorem f32vec_roundtrip (f : List (BitVec 32)) :
    Conversion.bytesToFloat32Safe (Conversion.float32ToBytesSafe f) = f := by
  have henc : Conversion.float32ToBytesSafe f = f.flatMap le32 := by
    simp only [Conversion.float32ToBytesSafe, Go.putLE32]
    exact forRange_blit le32 4 (by simp) f
  rw [henc]
  simp only [Conversion.bytesToFloat32Safe, Go.sliceFrom, Go.getLE32]
  have hlen : (f.flatMap le32).length / 4 = f.length := by
    rw [flatMap_length le32 4 (by simp)]; omega
  simp only [hlen, List.length_replicate]
  exact forN_decode le32 (fun b => ofLE32 b 0) 4 (by simp)
    (fun x rest => by simpa using ofLE32_append x [] rest) 0#32 f

/-- an edge list of ANY length survives the byte encoding -/
theorem edgeList_roundtrip (e : List (BitVec 64)) :
    Conversion.BytesToEdgeList (Conversion.EdgeListToBytes e) = e := by
  have henc : Conversion.EdgeListToBytes e = e.flatMap le64 := by
    simp only [Conversion.EdgeListToBytes, Go.putLE64]
    exact forRange_blit le64 8 (by simp) e
  rw [henc]
  simp only [Conversion.BytesToEdgeList, Go.sliceFrom, Go.getLE64]
  have hlen : (e.flatMap le64).length / 8 = e.length := by
    rw [flatMap_length le64 8 (by simp)]; omega
  simp only [hlen, List.length_replicate]
  exact forN_decode le64 (fun b => ofLE64 b 0) 8 (by simp)
    (fun x rest => by simpa using ofLE64_append x [] rest) 0#64 e

/-- the encodings are injective (different vectors / edge lists never share bytes) -/
theorem f32vec_inj (f g : List (BitVec 32)) :
    Conversion.float32ToBytesSafe f = Conversion.float32ToBytesSafe g → f = g := by
  intro h
  have := congrArg Conversion.bytesToFloat32Safe h
  rwa [f32vec_roundtrip, f32vec_roundtrip] at this

theorem edgeList_inj (e g : List (BitVec 64)) :
    Conversion.EdgeListToBytes e = Conversion.EdgeListToBytes g → e = g := by
  intro h
  have := congrArg Conversion.BytesToEdgeList h
  rwa [edgeList_roundtrip, edgeList_roundtrip] at this

/-! ### non-vacuity: the hypotheses used above are satisfiable on non-trivial values -/
example : F64.isNaN 0x8000000000000000#64 = false ∧ F64.isNaN 0xfff0000000000000#64 = false ∧
    F64.lt 0xfff0000000000000#64 0x8000000000000000#64 = true := by decide
example : F64.eq 0x8000000000000000#64 0x0000000000000000#64 = true := by decide
example : ([1#8,2#8,3#8,4#8,5#8,6#8,7#8,8#8,9#8,10#8,11#8,12#8,13#8,14#8,15#8,16#8] : Bytes).length = 16 := rfl

end Sema.C19
