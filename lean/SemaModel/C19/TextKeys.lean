/-
C19 - the keys of the text index bucket round-trip, are injective, and a term key is never taken for a document key
(shard/index/text/text.go: documentKey, termKey, docCacheItem.IdFromKey, setCacheItem.IdFromKey, generated into
SemaModel/Generated/Keys.lean on every run).

These theorems used to stand in Props.lean between the storage keys and the value encodings.  Props.lean is imported by
C01.Lemmas, C02, C04.Lemmas (sortable encodings, node / point keys); a change of the text index's key functions stopped
those builds although nothing there uses a text key.  Same statements, same names (namespace Sema.C19), a module of their own
that only the check of C19 builds (props/C19.py) - notes/CROSSALARM.md.
-/
import SemaModel.C19.Props
namespace Sema.C19
open Sema Sema.Gen

theorem documentKey_eq (id : BitVec 64) : Keys.documentKey id = 0x64#8 :: le64 id := by
  simp [Keys.documentKey, Go.zeros, Go.putLE64, blit, le64, List.replicate]

theorem documentKey_roundtrip (id : BitVec 64) :
    Keys.docCacheItem_IdFromKey (Keys.documentKey id) = (id, true) := by
  rw [documentKey_eq]
  simp [Keys.docCacheItem_IdFromKey, Go.idx, bget, Go.sliceFrom, Go.getLE64, le64]
  exact ofLE64_le64 id

theorem documentKey_inj (id id' : BitVec 64) : Keys.documentKey id = Keys.documentKey id' ↔ id = id' := by
  rw [documentKey_eq, documentKey_eq]; simp [le64_inj]

theorem termKey_roundtrip (t : Bytes) : Keys.setCacheItem_IdFromKey (Keys.termKey t) = (t, true) := by
  simp [Keys.setCacheItem_IdFromKey, Keys.termKey, Go.idx, bget, Go.slice]

theorem termKey_inj (t t' : Bytes) : Keys.termKey t = Keys.termKey t' ↔ t = t' := by
  simp [Keys.termKey]

/-- in the text bucket a term key is never taken for a document key and vice versa -/
theorem termKey_not_document (t : Bytes) : (Keys.docCacheItem_IdFromKey (Keys.termKey t)).2 = false := by
  simp [Keys.docCacheItem_IdFromKey, Keys.termKey, Go.idx, bget]
theorem documentKey_not_term (id : BitVec 64) : (Keys.setCacheItem_IdFromKey (Keys.documentKey id)).2 = false := by
  rw [documentKey_eq]; simp [Keys.setCacheItem_IdFromKey, Go.idx, bget, le64]

end Sema.C19
