/-
C19 — range form of the order theorems: a key lies between the keys of two bounds (the byte-wise,
inclusive comparison a cursor scan of the inverted index performs) exactly when the value lies
between the bounds.  Corollaries of `*_order`; stated about the definitions generated from the Go
source.  This is the bridge the range operators (`inRange`, `greaterThan`, `lessThanOrEquals`, …)
rest on: C02's scan theorem speaks about keys, these speak about values.
-/
import SemaModel.C19.Props
namespace Sema.C19
open Sema Sema.Gen

/-- `lexLe` on uint64 keys is `≤` on the values -/
theorem uint_order_le (x y : BitVec 64) :
    lexLe (Sortable.toByteSortable_uint64 x) (Sortable.toByteSortable_uint64 y) = true ↔ x ≤ y := by
  have h := uint_order y x
  simp only [lexLe, Bool.not_eq_true', BitVec.le_def]
  rw [BitVec.lt_def] at h
  constructor
  · intro hf
    have : ¬ (y.toNat < x.toNat) := by
      intro hc; have := h.mpr hc; simp [hf] at this
    omega
  · intro hle
    cases hb : lexLt (Sortable.toByteSortable_uint64 y) (Sortable.toByteSortable_uint64 x) with
    | false => rfl
    | true => have := h.mp hb; omega

theorem uint_range (lo hi x : BitVec 64) :
    (lexLe (Sortable.toByteSortable_uint64 lo) (Sortable.toByteSortable_uint64 x) = true ∧
     lexLe (Sortable.toByteSortable_uint64 x) (Sortable.toByteSortable_uint64 hi) = true) ↔
    (lo ≤ x ∧ x ≤ hi) := by
  rw [uint_order_le, uint_order_le]

/-- `lexLe` on int64 keys is the signed `≤` on the values -/
theorem int_order_le (x y : BitVec 64) :
    lexLe (Sortable.toByteSortable_int64 x) (Sortable.toByteSortable_int64 y) = true ↔ x.sle y = true := by
  have h := int_order y x
  have hs : x.sle y = !(y.slt x) := by
    simp only [BitVec.sle, BitVec.slt]
    by_cases hc : y.toInt < x.toInt <;> simp [hc] <;> omega
  rw [hs]
  simp only [lexLe]
  cases hb : lexLt (Sortable.toByteSortable_int64 y) (Sortable.toByteSortable_int64 x) with
  | false =>
    cases hc : y.slt x with
    | false => simp
    | true => have := h.mpr hc; simp [hb] at this
  | true => have := h.mp hb; simp [this]

theorem int_range (lo hi x : BitVec 64) :
    (lexLe (Sortable.toByteSortable_int64 lo) (Sortable.toByteSortable_int64 x) = true ∧
     lexLe (Sortable.toByteSortable_int64 x) (Sortable.toByteSortable_int64 hi) = true) ↔
    (lo.sle x = true ∧ x.sle hi = true) := by
  rw [int_order_le, int_order_le]

/-- `lexLe` on float64 keys is IEEE `<=` on non-NaN values (`-0.0 <= +0.0` and `+0.0 <= -0.0`) -/
theorem float_order_le (x y : BitVec 64) (hx : F64.isNaN x = false) (hy : F64.isNaN y = false) :
    lexLe (Sortable.toByteSortable_float64 x) (Sortable.toByteSortable_float64 y) = true ↔ F64.le x y = true := by
  have h := float_order y x hy hx
  simp only [F64.lt, hx, hy, Bool.not_false, Bool.true_and, decide_eq_true_eq] at h
  simp only [F64.le, hx, hy, Bool.not_false, Bool.true_and, decide_eq_true_eq, lexLe]
  cases hb : lexLt (Sortable.toByteSortable_float64 y) (Sortable.toByteSortable_float64 x) with
  | false =>
    have : ¬ (F64.key y < F64.key x) := by
      intro hc; have := h.mpr hc; simp [hb] at this
    simp; omega
  | true => have := h.mp hb; simp; omega

theorem float_range (lo hi x : BitVec 64)
    (hl : F64.isNaN lo = false) (hh : F64.isNaN hi = false) (hx : F64.isNaN x = false) :
    (lexLe (Sortable.toByteSortable_float64 lo) (Sortable.toByteSortable_float64 x) = true ∧
     lexLe (Sortable.toByteSortable_float64 x) (Sortable.toByteSortable_float64 hi) = true) ↔
    (F64.le lo x = true ∧ F64.le x hi = true) := by
  rw [float_order_le lo x hl hx, float_order_le x hi hx hh]

theorem string_range (lo hi s : Bytes) :
    (lexLe (Sortable.toByteSortable_string lo) (Sortable.toByteSortable_string s) = true ∧
     lexLe (Sortable.toByteSortable_string s) (Sortable.toByteSortable_string hi) = true) ↔
    (lexLe lo s = true ∧ lexLe s hi = true) := Iff.rfl

/-! non-vacuity: concrete values in and out of a range (signed: -1 lies in [-2, 3], 4 does not) -/
example : (-2 : BitVec 64).sle (-1) = true ∧ (-1 : BitVec 64).sle 3 = true ∧ (4 : BitVec 64).sle 3 = false := by decide
example : lexLe (Sortable.toByteSortable_int64 (-2)) (Sortable.toByteSortable_int64 (-1)) = true :=
  (int_order_le _ _).mpr (by decide)

end Sema.C19
